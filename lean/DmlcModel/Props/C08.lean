/-
C08 — ThreadedIter::BeforeFirst restarts the stream cleanly at any point.
Property theorems only, over every reachable state of the transition system of DmlcModel/TIter/Model.lean
(any schedule, any point of consumption: items prefetched, cells lent or in `out_data_`, after the end,
repeatedly in a row -- the most general client may call BeforeFirst whenever no other call is in progress).
-/
import DmlcModel.TIter.Progress

namespace DmlcModel.Props.C08
open DmlcModel DmlcModel.TIter DmlcModel.Gen.TIter

variable {P : Params} {s s' t : State} {e : Event}

/-- when BeforeFirst returns normally (its last transition, from location `bExc1`) the producer has been rewound
for THIS call -- the pass number is one more than when the call started -- and nothing of the new pass has been
delivered yet.  With `C07_order`/`C07_produced` (which hold in the new pass as in any other) the following
Next calls therefore deliver `src (pass₀+1)` from position 0, gap-free: nothing of the new pass is dropped. -/
theorem C08_fresh_pass (h : Reachable P s) (hs : step P s .xStep = some s') (hx : s.xloc = .bExc1) (hr : s'.ret = .ok) :
    s'.pass = s'.bfPass + 1 ∧ s'.delivered = [] ∧ s'.xloc = .idle := by
  show _ ∧ _ ∧ _
  have he := (inv_reachable h).e.bf3 (Or.inr hx)
  unfold step at hs
  simp only [stepR, xStep, hx] at hs
  injection hs with hs
  subst hs
  simp only at hr ⊢
  cases hexc : s.exc with
  | true => simp [hexc] at hr
  | false => simp [hexc] at he; exact ⟨he.1, he.2, trivial⟩

/-- every item that is delivered, queued or in flight belongs to the current pass: nothing produced before a
rewind survives it -/
theorem C08_current_pass_only (h : Reachable P s) :
    ∀ it, it ∈ s.delivered ++ qitems s ++ optList s.pitem → it.pass = s.pass := by
  intro it hit
  have hi := (inv_reachable h).c1
  rw [hi.order] at hit
  exact (hi.src it hit).1

/-- no stale item: after BeforeFirst has returned (state `s`, call started in pass `s.bfPass`), every item
delivered at any later time was produced in a later pass than the one the call interrupted -/
theorem C08_no_stale (h : Reachable P s) (hret : s.pass = s.bfPass + 1) (hst : Steps P s t) :
    ∀ it, it ∈ t.delivered → s.bfPass < it.pass := by
  intro it hit
  have hp := C08_current_pass_only (steps_reachable h hst) it (by simp [hit])
  have := steps_pass_mono hst
  omega

/-- the rewind callback runs exactly once per posted BeforeFirst (one more is pending while the command word
still says so); by construction of the producer loop it runs under `mutex_`, never during the produce callback -/
theorem C08_rewind_once (h : Reachable P s) (hn : s.thrown = false) :
    s.bfPosted = s.rewCalls + (if s.sig = kBeforeFirst then 1 else 0) :=
  (inv_reachable h).e.rew hn

/-- while BeforeFirst is in progress no other consumer call is (the documented contract, kept by the client
model), so no item can be delivered between the rewind and the return -/
theorem C08_exclusive (h : Reachable P s) (hx : s.xloc ≠ .idle) : busy s = 0 ∧ s.outCall = false :=
  (inv_reachable h).a.excl hx

/-- BeforeFirst cannot get stuck (failure-free scripts, pinned and repaired code): instance of C07_deadlock_free -/
theorem C08_returns_no_deadlock (hn : NoFail P) (hcap : 1 ≤ P.cap) (h : Reachable P s) (hx : s.xloc ≠ .idle) :
    ∃ e : Event, e.isProgress = true ∧ (step P s e).isSome = true :=
  deadlock_free_of_inv hcap (inv_reachable h).a (inv_reachable h).b (invD_reachable_noFail hn h) (Or.inr hx)

/-- statement of C08_returns (termination of the call) -/
def C08_returns_statement (P : Params) : Prop :=
  NoFail P → 1 ≤ P.cap → ∀ s, Reachable P s → s.xloc ≠ .idle →
    ¬ ∃ f : Nat → State, f 0 = s ∧ ∀ n, ∃ e : Event, e.isProgress = true ∧ step P (f n) e = some (f (n + 1))

theorem C08_returns_finite (P : Params) : C08_returns_statement P :=
  fun _ _ _ hr _ => no_infinite_progress hr

/-- BeforeFirst returns: started in any contract-allowed state, every execution of it (and of the producer) is
finite and can only stop with the call returned; with `C08_fresh_pass` it returns only after the rewind ran -/
theorem C08_returns (hn : NoFail P) (hcap : 1 ≤ P.cap) (h : Reachable P s) :
    (∀ t, ProgSteps P s t → (∀ e : Event, e.isProgress = true → step P t e = none) → t.xloc = .idle) ∧
    (∃ t, ProgSteps P s t ∧ t.xloc = .idle) := by
  have key : ∀ t, Reachable P t → (∀ e : Event, e.isProgress = true → step P t e = none) → t.xloc = .idle := by
    intro t ht hq
    cases hx : t.xloc with
    | idle => rfl
    | _ =>
      obtain ⟨e, hp, hs⟩ := C08_returns_no_deadlock hn hcap ht (by simp [hx])
      rw [hq e hp] at hs
      cases hs
  constructor
  · intro t ht hq; exact key t (progSteps_reachable h ht) hq
  · obtain ⟨t, ht, hq⟩ := exists_maximal h
    exact ⟨t, ht, key t (progSteps_reachable h ht) hq⟩

end DmlcModel.Props.C08
