/-
C14 — fast number parsing (include/dmlc/strtonum.h): property theorems.
Model: DmlcModel/StrToNum/Model.lean (follows the repaired code, fixes/C14-1 … C14-6);
helper lemmas: DmlcModel/StrToNum/{Lemmas,Int,EndPtr,Range,Value,Round,Analysis,Calc,Mantissa,Trunc,Scaling}.lean.

Full:     C14_no_overread(+_int,_sto)  C14_local(+_spec)  C14_ws_skip  C14_int_exact_signed/_unsigned  C14_endptr
          C14_stof_invalid_iff  C14_stof_never_inf  C14_accuracy_integer_lexemes
Partial:  C14_stof_no_spurious_partial      (inf/nan spellings, decimals without exponent part)
          C14_stof_no_spurious_exp_partial, C14_accuracy_partial
                                            (extra hypotheses = complements of the open classes `exp-field-range`,
                                             `frac-leading-zeros-19`)
          — the full statements C14_stof_no_spurious_statement / C14_accuracy_statement are refuted in C14Witness.
-/
import DmlcModel.StrToNum.Scaling
namespace DmlcModel.Props.C14
open DmlcModel DmlcModel.StrToNum DmlcModel.Gen.StrToNum

/-! ## C14_no_overread -/

/-- `ParseFloat` (all four instantiations) never reads past the terminating NUL, and always returns. -/
theorem C14_no_overread (f : Fmt) (chk : Bool) (s : Bytes) (h : (0 : Byte) ∈ s) :
    parseFloat f chk s ≠ .error .oob ∧ ∃ r, parseFloat f chk s = .ok r := by
  rw [parseFloat_eq h]
  exact ⟨(fun e => by cases e), ⟨_, rfl⟩⟩

/-- the integer parsers never read past the terminating NUL -/
theorem C14_no_overread_int (bits base : Nat) (s : Bytes) (h : (0 : Byte) ∈ s) :
    parseSigned bits base s ≠ .error .oob ∧ parseUnsigned bits base s ≠ .error .oob := by
  have hz := Z_cstr h
  have hf := intFront_ok hard0 hz
  constructor
  · by_cases hb : sBaseOk base = true
    · rw [parseSigned_ok hard0 hz hb]; intro e; cases e
    · unfold parseSigned; simp [hb]
  · by_cases hb : uBaseOk base = true
    · by_cases hs : (intFrontP (cstr s)).1 = true
      · rw [parseUnsigned_ok hard0 hz hb hs]; intro e; cases e
      · unfold parseUnsigned
        simp [hb, hf.1, bind, Except.bind, hs]
    · unfold parseUnsigned; simp [hb]

/-- `stof`/`stod` in terms of the pure specification of `ParseFloat<., true>` -/
theorem sto_eq {f : Fmt} {e0 : Nat} {s : Bytes} (h : (0 : Byte) ∈ s) :
    sto f e0 s =
      if ((parseFloatCoreP f true (cstr s)).erange && (parseFloatCoreP f true (cstr s)).val == ⟨false, .inf⟩) = true
      then .throwRange
      else if ((parseFloatCoreP f true (cstr s)).endIdx == 0) = true then .throwInvalid
      else .ok (parseFloatCoreP f true (cstr s)).val (parseFloatCoreP f true (cstr s)).endIdx
            (if (parseFloatCoreP f true (cstr s)).erange then ERANGE else e0) := by
  unfold sto
  rw [parseFloat_eq h]
  simp only []
  cases (parseFloatCoreP f true (cstr s)).erange <;> simp [ERANGE]

/-- `stof` / `stod` never read past the NUL -/
theorem C14_no_overread_sto (f : Fmt) (e0 : Nat) (s : Bytes) (h : (0 : Byte) ∈ s) : sto f e0 s ≠ .fault .oob := by
  rw [sto_eq h]
  by_cases c1 : ((parseFloatCoreP f true (cstr s)).erange && (parseFloatCoreP f true (cstr s)).val == ⟨false, .inf⟩) = true
  · rw [if_pos c1]; intro e; cases e
  · rw [if_neg c1]
    by_cases c2 : ((parseFloatCoreP f true (cstr s)).endIdx == 0) = true
    · rw [if_pos c2]; intro e; cases e
    · rw [if_neg c2]; intro e; cases e

/-! ## C14_local -/

/-- **Locality.**  If the bytes `pre` contain a *hard stopper* `z` (a byte no scanner accepts: NUL, `,`, `:`, `#`, `/`,
`;`, `|`, … — `Hard z`), the whole conversion happens inside `pre`: it succeeds, and result, end index and errno
effect are the same whatever follows `pre`.  (This is the contract the text parsers rely on.  Note that
`'\n'`, `' '`, `'\t'` are NOT hard stoppers when nothing has been consumed yet: leading white space —
`isspace`, which includes `'\n'` and `'\r'` — is skipped, see `C14_endptr`/`scanNum`.) -/
theorem C14_local (f : Fmt) (chk : Bool) (pre e1 e2 : Bytes) (z : Byte) (hz : Hard z) (hm : z ∈ pre) :
    parseFloat f chk (pre ++ e1) = parseFloat f chk (pre ++ e2) ∧ ∃ r, parseFloat f chk (pre ++ e1) = .ok r := by
  by_cases h0 : (0 : Byte) ∈ pre
  · unfold parseFloat
    rw [cstr_append_of_mem e1 h0, cstr_append_of_mem e2 h0]
    exact ⟨rfl, _, parseFloatCore_ok hard0 (Z_cstr h0)⟩
  · unfold parseFloat
    rw [cstr_append_of_not_mem e1 h0, cstr_append_of_not_mem e2 h0]
    have hp := parseFloatCore_ok (f := f) (chk := chk) hz (show Z z pre from hm)
    rw [parseFloatCore_ext _ hp, parseFloatCore_ext _ hp]
    exact ⟨rfl, _, rfl⟩

/-- the stoppers the text parsers meet are hard -/
theorem C14_hard_examples : Hard 0 ∧ Hard 44 ∧ Hard 58 ∧ Hard 35 ∧ Hard 59 ∧ Hard 124 ∧ Hard 47 := by
  refine ⟨?_, ?_, ?_, ?_, ?_, ?_, ?_⟩ <;> (constructor <;> decide)

/-- the result on `pre ++ anything` is the result of the pure specification on `pre` -/
theorem C14_local_spec (f : Fmt) (chk : Bool) (pre ext : Bytes) (z : Byte) (hz : Hard z) (hm : z ∈ pre)
    (h0 : (0 : Byte) ∉ pre) : parseFloat f chk (pre ++ ext) = .ok (parseFloatCoreP f chk pre) := by
  unfold parseFloat
  rw [cstr_append_of_not_mem ext h0]
  exact parseFloatCore_ext _ (parseFloatCore_ok hz (show Z z pre from hm))


/-! ## C14_int_exact -/

/-- shape of an integer token: white space, optional sign, at least one digit, then anything that does not start
with a digit and contains the NUL -/
structure IntToken (ws sg : Bytes) (d : Byte) (ds rest : Bytes) : Prop where
  ws : ∀ c ∈ ws, isSpace c = true
  sg : sg = [] ∨ sg = [43] ∨ sg = [45]
  d : isDigit d = true
  ds : ∀ c ∈ ds, isDigit c = true
  stop : isDigit (hd0 rest) = false
  nul : (0 : Byte) ∈ rest

theorem intToken_cstr {ws sg : Bytes} {d : Byte} {ds rest : Bytes} (t : IntToken ws sg d ds rest) :
    cstr (ws ++ sg ++ d :: ds ++ rest) = ws ++ (sg ++ d :: (ds ++ cstr rest)) := by
  have h1 : (0 : Byte) ∉ ws ++ sg ++ d :: ds := by
    have a := not_mem_zero_of_all (p := isSpace) (by decide) t.ws
    have b : (0 : Byte) ∉ sg := by rcases t.sg with h | h | h <;> simp [h]
    have c : (0 : Byte) ∉ d :: ds :=
      not_mem_zero_of_all (p := isDigit) (by decide) (fun x hx => by
        simp only [List.mem_cons] at hx
        rcases hx with rfl | hx
        · exact t.d
        · exact t.ds x hx)
    simp only [List.mem_append, not_or]
    exact ⟨⟨a, b⟩, c⟩
  have := cstr_append_of_not_mem rest h1
  simpa [List.append_assoc] using this

theorem intToken_digits {ws sg : Bytes} {d : Byte} {ds rest : Bytes} (t : IntToken ws sg d ds rest) :
    (d :: (ds ++ cstr rest)).takeWhile isDigit = d :: ds := by
  have h : (d :: ds ++ cstr rest).takeWhile isDigit = (d :: ds) ++ (cstr rest).takeWhile isDigit :=
    takeWhile_append_all (fun x hx => by
      simp only [List.mem_cons] at hx
      rcases hx with rfl | hx
      · exact t.d
      · exact t.ds x hx)
  have h2 : (cstr rest).takeWhile isDigit = [] :=
    takeWhile_stop (by rw [hd0_cstr]; exact t.stop) (cstr_hd_ne_nil t.nul)
  simpa [h2] using h

/-- **Signed integers are exact.**  For a token `ws sign? digits` whose value is in the range of the `bits`-bit signed
type (`bits` = 32 or 64; the most negative value included), `ParseSignedInt` (hence `atol`, `Str2Type<int32_t/int64_t>`)
returns exactly that value (two's-complement bit pattern) and the end index just after the digits. -/
theorem C14_int_exact_signed (bits : Nat) (hb : bits = 32 ∨ bits = 64) {ws sg : Bytes} {d : Byte} {ds rest : Bytes}
    (t : IntToken ws sg d ds rest)
    (hr : if sg = [45] then digitsNat (d :: ds) ≤ 2 ^ (bits - 1) else digitsNat (d :: ds) < 2 ^ (bits - 1)) :
    parseSigned bits 10 (ws ++ sg ++ d :: ds ++ rest) =
      .ok (if sg = [45] then (2 ^ bits - digitsNat (d :: ds)) % 2 ^ bits else digitsNat (d :: ds),
           ws.length + sg.length + (d :: ds).length) := by
  have hz : Z 0 (cstr (ws ++ sg ++ d :: ds ++ rest)) :=
    Z_cstr (by simp [t.nul])
  rw [parseSigned_ok hard0 hz (by decide), intToken_cstr t, intFrontP_shape t.ws t.sg t.d]
  simp only [intToken_digits t]
  have hf := fold_sStep (d :: ds) (fun x hx => by
      simp only [List.mem_cons] at hx
      rcases hx with rfl | hx
      · exact t.d
      · exact t.ds x hx) 0
  simp only [Nat.zero_mod] at hf
  rw [hf]
  show Except.ok (_, _) = Except.ok (_, _)
  have hv : (d :: ds).foldl (fun a c => a * 10 + (c.toNat - 48)) 0 = digitsNat (d :: ds) := rfl
  rw [hv]
  generalize digitsNat (d :: ds) = v at hr ⊢
  by_cases hn : sg = [45]
  · simp only [hn, if_true, decide_not, decide_true, Bool.not_true, Bool.false_eq_true, if_false] at hr ⊢
    congr 2
    simp only [sNegate, sub64]
    rcases hb with rfl | rfl <;> omega
  · simp only [hn, if_false, decide_not, decide_false, Bool.not_false, if_true] at hr ⊢
    congr 2
    rcases hb with rfl | rfl <;> omega

/-- **Unsigned integers are exact** (`strtoull`, `Str2Type<uint32_t/uint64_t>`): no minus sign, value below `2^bits`. -/
theorem C14_int_exact_unsigned (bits : Nat) (hb : bits = 32 ∨ bits = 64) {ws sg : Bytes} {d : Byte} {ds rest : Bytes}
    (t : IntToken ws sg d ds rest) (hs : sg ≠ [45]) (hr : digitsNat (d :: ds) < 2 ^ bits) :
    parseUnsigned bits 10 (ws ++ sg ++ d :: ds ++ rest) =
      .ok (digitsNat (d :: ds), ws.length + sg.length + (d :: ds).length) := by
  have hz : Z 0 (cstr (ws ++ sg ++ d :: ds ++ rest)) :=
    Z_cstr (by simp [t.nul])
  have hsh := intFrontP_shape (tl := ds ++ cstr rest) t.ws t.sg t.d
  rw [parseUnsigned_ok hard0 hz (by decide) (by rw [intToken_cstr t, hsh]; simp [hs]), intToken_cstr t, hsh]
  simp only [intToken_digits t]
  have hf := fold_uStep bits hb (d :: ds) (fun x hx => by
      simp only [List.mem_cons] at hx
      rcases hx with rfl | hx
      · exact t.d
      · exact t.ds x hx) 0
  simp only [Nat.zero_mod] at hf
  rw [hf]
  have hv : (d :: ds).foldl (fun a c => a * 10 + (c.toNat - 48)) 0 = digitsNat (d :: ds) := rfl
  rw [hv, Nat.mod_eq_of_lt hr]

/-- non-vacuity: `" -2147483648:"` is an int32 token with value `2^31` under a minus sign -/
example : IntToken [32] [45] 50 [49, 52, 55, 52, 56, 51, 54, 52, 56] [58, 0] ∧
    digitsNat (50 :: [49, 52, 55, 52, 56, 51, 54, 52, 56]) = 2 ^ 31 := by
  refine ⟨⟨?_, ?_, ?_, ?_, ?_, ?_⟩, ?_⟩ <;> decide


/-! ## C14_endptr -/

/-- **End pointer.**  For every NUL-terminated input (numeric or not) and all four instantiations, the end index is
exactly the length of the longest numeric prefix of the C string (`scanNum`: `ws* sign? (digit+ ('.' digit*)? |
'.' digit+) ([eE] sign? digit+)? [fF]?` or an inf/infinity/nan/nan(...) spelling), and `0` when there is none. -/
theorem C14_endptr (f : Fmt) (chk : Bool) (s : Bytes) (h : (0 : Byte) ∈ s) :
    ∃ r, parseFloat f chk s = .ok r ∧ r.endIdx = (numPrefix (cstr s)).getD 0 :=
  ⟨_, parseFloat_eq h, endIdx_eq_numPrefix f chk (cstr s)⟩

/-- a numeric prefix is never empty -/
theorem numPrefix_pos {t : Bytes} {n : Nat} (h : numPrefix t = some n) : 0 < n := by
  unfold numPrefix scanNum at h
  simp only [] at h
  split at h
  · simp at h; omega
  · split at h
    · simp at h; omega
    · split at h
      · simp at h; omega
      · split at h
        · simp at h
        · rename_i hno
          simp only [Option.map_some, Option.some.injEq] at h
          have : (t.dropWhile isSpace |>.drop (signPart (t.dropWhile isSpace)).2 |>.takeWhile isDigit).length +
              (fracPart (decide ((t.dropWhile isSpace |>.drop (signPart (t.dropWhile isSpace)).2 |>.takeWhile isDigit) ≠ []))
                ((t.dropWhile isSpace |>.drop (signPart (t.dropWhile isSpace)).2).dropWhile isDigit)).2 ≠ 0 := by
            intro e
            apply hno
            constructor
            · exact List.length_eq_zero_iff.mp (by omega)
            · omega
          omega


/-! ## stof / stod -/

/-- **`invalid_argument` exactly when no number was consumed**, for every prior `errno`. -/
theorem C14_stof_invalid_iff (f : Fmt) (e0 : Nat) (s : Bytes) (h : (0 : Byte) ∈ s) :
    sto f e0 s = .throwInvalid ↔ numPrefix (cstr s) = none := by
  rw [sto_eq h]
  have he := endIdx_eq_numPrefix f true (cstr s)
  constructor
  · intro hs
    by_cases c1 : ((parseFloatCoreP f true (cstr s)).erange && (parseFloatCoreP f true (cstr s)).val == ⟨false, .inf⟩) = true
    · rw [if_pos c1] at hs; cases hs
    · rw [if_neg c1] at hs
      by_cases c2 : ((parseFloatCoreP f true (cstr s)).endIdx == 0) = true
      · have e0' : (parseFloatCoreP f true (cstr s)).endIdx = 0 := by simpa using c2
        cases hn : numPrefix (cstr s) with
        | none => rfl
        | some n =>
          rw [hn] at he
          have := numPrefix_pos hn
          simp at he; omega
      · rw [if_neg c2] at hs; cases hs
  · intro hn
    have e0' : (parseFloatCoreP f true (cstr s)).endIdx = 0 := by rw [he, hn]; rfl
    have hr : (parseFloatCoreP f true (cstr s)).erange = false := by
      cases hh : (parseFloatCoreP f true (cstr s)).erange
      · rfl
      · have := (erange_imp_exp hh).2; omega
    simp [hr, e0']

def absQ (x : Rat) : Rat := if x < 0 then -x else x

/-- the input starts with an inf/nan spelling or with a finite decimal that has no exponent part -/
def spellingOrNoExp (t : Bytes) : Bool :=
  match scanNum t with
  | some (.inf _, _) => true
  | some (.nan, _) => true
  | some (.dec l, _) => l.exp.isNone
  | none => false

/-- full statement of the "no spurious exception" clause (kept visible; `C14_stof_no_spurious_partial` proves the
fragment below; the class `exp-field-range` refutes the rest, see C14Witness) -/
def C14_stof_no_spurious_statement : Prop :=
  ∀ (f : Fmt) (e0 : Nat) (s : Bytes), (0 : Byte) ∈ s →
    (match scanNum (cstr s) with
     | some (.inf _, _) => True
     | some (.nan, _) => True
     | some (.dec l, _) =>
        (match f with
         | .F32 => (1 : Rat) / 10 ^ 30 ≤ absQ (decimalValue l) ∧ absQ (decimalValue l) ≤ 10 ^ 30
         | .F64 => (1 : Rat) / 10 ^ 300 ≤ absQ (decimalValue l) ∧ absQ (decimalValue l) ≤ 10 ^ 300)
     | none => False) →
    ∃ v pos e, sto f e0 s = .ok v pos e

/-- **No spurious exception** (partial): for the inf / infinity / nan / nan(...) spellings and for every finite decimal
WITHOUT an exponent part, `stof`/`stod` return a value — whatever `errno` was before, and `errno` is left unchanged.
Missing for the full statement: decimals with an exponent part whose value lies in 1e-30..1e30 (1e-300..1e300);
that needs the rounding analysis of the scaling loop and is false for the open class `exp-field-range`. -/
theorem C14_stof_no_spurious_partial (f : Fmt) (e0 : Nat) (s : Bytes) (h : (0 : Byte) ∈ s)
    (hk : spellingOrNoExp (cstr s) = true) :
    ∃ v pos, sto f e0 s = .ok v pos e0 := by
  rw [sto_eq h]
  have he := endIdx_eq_numPrefix f true (cstr s)
  have hr : (parseFloatCoreP f true (cstr s)).erange = false := by
    cases hh : (parseFloatCoreP f true (cstr s)).erange
    · rfl
    · obtain ⟨⟨l, n, hl, hx⟩, _⟩ := erange_imp_exp hh
      unfold spellingOrNoExp at hk
      rw [hl] at hk
      cases hx' : l.exp with
      | none => exact absurd hx' hx
      | some _ => simp [hx'] at hk
  have hpos : (parseFloatCoreP f true (cstr s)).endIdx ≠ 0 := by
    cases hs : scanNum (cstr s) with
    | none => unfold spellingOrNoExp at hk; rw [hs] at hk; exact absurd hk (by simp)
    | some kn =>
      have hn : numPrefix (cstr s) = some kn.2 := by simp [numPrefix, hs]
      have := numPrefix_pos hn
      rw [he, hn]; simp; omega
  simp [hr, hpos]

/-- non-vacuity of the hypothesis: "+Inf", "nan(a_1)x", "-12.5f" -/
example : spellingOrNoExp (cstr [43, 73, 110, 102, 0]) = true ∧
    spellingOrNoExp (cstr [110, 97, 110, 40, 97, 95, 49, 41, 120, 0]) = true ∧
    spellingOrNoExp (cstr [45, 49, 50, 46, 53, 102, 0]) = true := by decide +kernel

theorem fracPart_digits (h0 : Bool) (r : Bytes) : ∀ c ∈ (fracPart h0 r).1, isDigit c = true := by
  cases r with
  | nil => intro c hc; simp [fracPart] at hc
  | cons a as =>
    intro c hc
    unfold fracPart at hc
    by_cases ha : a = 46
    · simp only [ha, if_true] at hc
      by_cases hcond : h0 = true ∨ List.takeWhile isDigit as ≠ []
      · rw [if_pos hcond] at hc; exact tw_all isDigit _ c hc
      · rw [if_neg hcond] at hc; simp at hc
    · simp [ha] at hc

/-- digits of a scanned lexeme are decimal digits -/
theorem scanNum_digits {t : Bytes} {l : Lexeme} {n : Nat} (h : scanNum t = some (.dec l, n)) :
    Dig l.intDigits ∧ Dig l.fracDigits := by
  unfold scanNum at h
  simp only [] at h
  split at h
  · cases h
  · split at h
    · cases h
    · split at h
      · cases h
      · split at h
        · cases h
        · simp only [Option.some.injEq, Prod.mk.injEq, NumKind.dec.injEq] at h
          obtain ⟨hl, _⟩ := h
          subst hl
          have dg : ∀ (bs : Bytes), (∀ c ∈ bs, isDigit c = true) → Dig (bs.map digitOf) := by
            intro bs hb d hd
            obtain ⟨c, hc, rfl⟩ := List.mem_map.mp hd
            have := isDigit_range (hb c hc)
            unfold digitOf; omega
          refine ⟨dg _ (tw_all isDigit _), dg _ ?_⟩
          exact fracPart_digits _ _


/-- in the range-checking instantiation the exponent part never yields an unflagged infinity -/
theorem expL_inf (f : Fmt) (neg : Bool) (value : Mag) (eneg : Bool) (eds : List Nat)
    (h : (expL f true neg value eneg eds).1.mag = .inf) : expL f true neg value eneg eds = (⟨false, .inf⟩, true) := by
  revert h
  unfold expL
  simp only [Bool.and_true]
  by_cases c1 : exponTooBig (exponL eds) (kMaxExponent f) = true
  · simp only [if_pos c1]; intro _; trivial
  · simp only [if_neg c1]
    by_cases c2 : (exponIsMax (exponL eds) (kMaxExponent f) &&
        edgeOutM eneg value (kMaxSignificand f) (kNegMaxSignificand f)) = true
    · simp only [if_pos c2]; intro _; trivial
    · simp only [if_neg c2]
      generalize (if eneg = true then Mag.div f value (scaleOf f (exponL eds))
        else Mag.mul f value (scaleOf f (exponL eds))) = V2
      by_cases c3 : (scaledResultChecked && decide (V2 = Mag.inf)) = true
      · simp only [if_pos c3]; intro _; trivial
      · simp only [if_neg c3]
        intro h
        exfalso; apply c3
        have sc : scaledResultChecked = true := rfl
        simp only [sc, Bool.true_and, decide_eq_true_eq]
        exact h

/-- in the range-checking instantiation a decimal lexeme never evaluates to an unflagged infinity -/
theorem evalLex_inf {f : Fmt} {l : Lexeme} (hf : Dig l.fracDigits) (h : (evalLex f true l).1.mag = .inf) :
    evalLex f true l = (⟨false, .inf⟩, true) := by
  obtain ⟨q, hq, _⟩ := mantissa_fin f l.intDigits l.fracDigits l.hasDot hf
  unfold evalLex at h ⊢
  cases hx : l.exp with
  | none =>
    simp only [hx, hq] at h
    cases h
  | some p =>
    obtain ⟨eneg, eds⟩ := p
    simp only [hx] at h ⊢
    exact expL_inf _ _ _ _ _ h

/-- **`stof`/`stod` never return an infinity for a finite decimal input** (they throw `out_of_range` instead),
whatever `errno` was before. -/
theorem C14_stof_never_inf (f : Fmt) (e0 : Nat) (s : Bytes) (h : (0 : Byte) ∈ s) (l : Lexeme)
    (hl : lexemeOf (cstr s) = some l) :
    ∀ neg pos e, sto f e0 s ≠ .ok ⟨neg, .inf⟩ pos e := by
  intro neg pos e hs
  rw [sto_eq h] at hs
  have hv := value_spec f true (cstr s)
  unfold lexemeOf at hl
  cases hsc : scanNum (cstr s) with
  | none => rw [hsc] at hl; cases hl
  | some kn =>
    obtain ⟨k, n⟩ := kn
    rw [hsc] at hl hv
    cases k with
    | inf ng => cases hl
    | nan => cases hl
    | dec l' =>
      simp only [Option.some.injEq] at hl
      subst hl
      simp only [] at hv
      have hd := (scanNum_digits hsc).2
      unfold vr at hv
      by_cases c1 : ((parseFloatCoreP f true (cstr s)).erange && (parseFloatCoreP f true (cstr s)).val == ⟨false, .inf⟩) = true
      · rw [if_pos c1] at hs; cases hs
      · rw [if_neg c1] at hs
        by_cases c2 : ((parseFloatCoreP f true (cstr s)).endIdx == 0) = true
        · rw [if_pos c2] at hs; cases hs
        · rw [if_neg c2] at hs
          simp only [SRes.ok.injEq] at hs
          have hm : (evalLex f true l').1.mag = .inf := by rw [← hv]; simp [hs.1]
          have := evalLex_inf hd hm
          rw [← hv] at this
          simp only [Prod.mk.injEq] at this
          apply c1
          simp [this.1, this.2]

/-- non-vacuity: "100e37" is a finite decimal lexeme -/
example : (lexemeOf (cstr [49, 48, 48, 101, 51, 55, 0])).isSome = true := by decide +kernel

/-! ## accuracy -/

/-- full statement of the accuracy clause (kept visible).  `tol` = 1e-6 / 1e-14, the documented limits are: at most
19 significant integer digits, value in the normal range of the type with the margin a relative-error claim needs. -/
def C14_accuracy_statement (f : Fmt) : Prop :=
  ∀ (chk : Bool) (s : Bytes) (l : Lexeme), (0 : Byte) ∈ s → lexemeOf (cstr s) = some l →
    l.intDigits.length ≤ 19 →
    pow2 (f.qmin + (f.prec : Int) - 1) * (1 + 1 / 10 ^ 6) ≤ absQ (decimalValue l) →
    absQ (decimalValue l) * (1 + 1 / 10 ^ 6) ≤ pow2 ((f.emax : Int) + 1) →
    ∃ r q, parseFloat f chk s = .ok r ∧ r.val = ⟨l.neg, .fin q⟩ ∧
      absQ (q - absQ (decimalValue l)) ≤ (match f with | .F32 => 1 / 10 ^ 6 | .F64 => 1 / 10 ^ 14) * absQ (decimalValue l)

theorem digitsVal_nil : digitsVal [] = 0 := rfl

/-- **Accuracy of integer lexemes** (at most 19 digits, no '.', no exponent): the result is the correctly rounded value;
its relative error is at most `2^-24` (float) / `2^-53` (double), far below 1e-6 / 1e-14. -/
theorem C14_accuracy_integer_lexemes (f : Fmt) (chk : Bool) (s : Bytes) (l : Lexeme) (h : (0 : Byte) ∈ s)
    (hl : lexemeOf (cstr s) = some l) (hlen : l.intDigits.length ≤ 19) (hdot : l.hasDot = false) (hexp : l.exp = none) :
    ∃ r q, parseFloat f chk s = .ok r ∧ r.val = ⟨l.neg, .fin q⟩ ∧
      q ≤ (digitsVal l.intDigits : Rat) + (digitsVal l.intDigits : Rat) * pow2 (-(f.prec : Int)) ∧
      (digitsVal l.intDigits : Rat) ≤ q + (digitsVal l.intDigits : Rat) * pow2 (-(f.prec : Int)) := by
  have hv := value_spec f chk (cstr s)
  unfold lexemeOf at hl
  cases hsc : scanNum (cstr s) with
  | none => rw [hsc] at hl; cases hl
  | some kn =>
    obtain ⟨k, n⟩ := kn
    rw [hsc] at hl hv
    cases k with
    | inf ng => cases hl
    | nan => cases hl
    | dec l' =>
      simp only [Option.some.injEq] at hl
      subst hl
      simp only [] at hv
      have hd := (scanNum_digits hsc).1
      have hP := predecL_exact l'.intDigits hd hlen
      obtain ⟨q, hq, _, hq1, hq2, _, _⟩ := rnd_nat f (predecL l'.intDigits) (predecL_lt _)
      refine ⟨_, q, parseFloat_eq h, ?_, ?_, ?_⟩
      · have : (parseFloatCoreP f chk (cstr s)).val = (evalLex f chk l').1 := by rw [← hv]; rfl
        rw [this]
        unfold evalLex mantissaL
        simp only [hexp, hdot, Bool.false_eq_true, if_false, hq]
      · rw [← hP]; exact hq1
      · rw [← hP]; exact hq2

/-- the bound of `C14_accuracy_integer_lexemes` is far inside the property's tolerance -/
theorem C14_accuracy_tolerance : pow2 (-(Fmt.F32.prec : Int)) ≤ 1 / 10 ^ 6 ∧ pow2 (-(Fmt.F64.prec : Int)) ≤ 1 / 10 ^ 14 := by
  constructor <;> decide +kernel

/-- the non-negative mantissa value of a lexeme -/
def mantissaValue (l : Lexeme) : Rat :=
  (digitsVal l.intDigits : Rat) + (digitsVal l.fracDigits : Rat) / ((10 ^ l.fracDigits.length : Nat) : Rat)

/-- the magnitude a lexeme denotes -/
def magnitude (l : Lexeme) : Rat :=
  match l.exp with
  | none => mantissaValue l
  | some (false, ds) => mantissaValue l * ((10 ^ digitsVal ds : Nat) : Rat)
  | some (true, ds) => mantissaValue l / ((10 ^ digitsVal ds : Nat) : Rat)

theorem mantissaValue_nonneg (l : Lexeme) : 0 ≤ mantissaValue l := by
  unfold mantissaValue
  have := natCast_div_nonneg (digitsVal l.fracDigits) (10 ^ l.fracDigits.length)
  have : (0 : Rat) ≤ (digitsVal l.intDigits : Rat) := Rat.natCast_nonneg
  grind

theorem div_nonneg' {a b : Rat} (ha : 0 ≤ a) (hb : 0 < b) : 0 ≤ a / b := by
  rw [Rat.div_def]; exact Rat.mul_nonneg ha (Rat.le_of_lt (Rat.inv_pos.mpr hb))

theorem magnitude_nonneg (l : Lexeme) : 0 ≤ magnitude l := by
  unfold magnitude
  have hm := mantissaValue_nonneg l
  cases hx : l.exp with
  | none => exact hm
  | some p =>
    obtain ⟨eneg, ds⟩ := p
    cases eneg with
    | false => exact Rat.mul_nonneg hm (Rat.le_of_lt (pow10_pos _))
    | true => exact div_nonneg' hm (pow10_pos _)

/-- `|decimalValue l|` is the magnitude -/
theorem absQ_decimalValue (l : Lexeme) : absQ (decimalValue l) = magnitude l := by
  have hn := magnitude_nonneg l
  have e : decimalValue l = if l.neg then -(magnitude l) else magnitude l := by
    unfold decimalValue magnitude mantissaValue
    cases hx : l.exp with
    | none => rfl
    | some p =>
      obtain ⟨eneg, ds⟩ := p
      cases eneg <;> rfl
  rw [e]
  unfold absQ
  cases l.neg with
  | false =>
    simp only [Bool.false_eq_true, if_false]
    have : ¬ magnitude l < 0 := by grind
    rw [if_neg this]
  | true =>
    simp only [if_true]
    by_cases h0 : -magnitude l < 0
    · rw [if_pos h0]; grind
    · rw [if_neg h0]; grind


theorem fracPart_zero (h0 : Bool) (r : Bytes) (h : (fracPart h0 r).2 = 0) : (fracPart h0 r).1 = [] := by
  cases r with
  | nil => rfl
  | cons a as =>
    unfold fracPart at h ⊢
    by_cases ha : a = 46
    · simp only [ha, if_true] at h ⊢
      by_cases hcond : h0 = true ∨ List.takeWhile isDigit as ≠ []
      · rw [if_pos hcond] at h; simp at h
      · rw [if_neg hcond]
    · simp [ha]

/-- a lexeme without '.' has no fraction digits -/
theorem scanNum_nodot {t : Bytes} {l : Lexeme} {n : Nat} (h : scanNum t = some (.dec l, n)) (hd : l.hasDot = false) :
    l.fracDigits = [] := by
  unfold scanNum at h
  simp only [] at h
  split at h
  · cases h
  · split at h
    · cases h
    · split at h
      · cases h
      · split at h
        · cases h
        · simp only [Option.some.injEq, Prod.mk.injEq, NumKind.dec.injEq] at h
          obtain ⟨hl, _⟩ := h
          subst hl
          simp only [bne_eq_false_iff_eq, beq_iff_eq] at hd
          simp only [fracPart_zero _ _ hd, List.map_nil]

/-- below this mantissa value more than 19 fraction digits leave too few significant digits (class `frac-leading-zeros-19`:
integer part zero and at least 12 (float) / 4 (double) leading fraction zeros) -/
def μ : Fmt → Rat | .F32 => 1 / 10 ^ 12 | .F64 => 1 / 10 ^ 4

theorem mu_eps (f : Fmt) : (1 : Rat) / ((10 ^ 19 : Nat) : Rat) = μ f * εt f ∧ 0 ≤ εt f ∧ 0 < μ f := by
  cases f <;> decide +kernel

/-- the mantissa computed by the code is within `εm` of the mantissa the lexeme denotes -/
theorem mantissa_lexeme {t : Bytes} {l : Lexeme} {n : Nat} (f : Fmt) (hsc : scanNum t = some (.dec l, n))
    (hi : l.intDigits.length ≤ 19) (hfr : l.fracDigits.length ≤ 19 ∨ μ f ≤ mantissaValue l) :
    ∃ qm, mantissaL f l.intDigits l.hasDot l.fracDigits = .fin qm ∧ Approx (εm f) qm (mantissaValue l) := by
  obtain ⟨hdi, hdf⟩ := scanNum_digits hsc
  have nf := num_facts f
  have hP := predecL_exact l.intDigits hdi hi
  have hb := fracL_bounds l.fracDigits hdf
  obtain ⟨qm, hqm, am⟩ := mantissa_approx f (predecL l.intDigits) (fracL l.fracDigits).1 (fracL l.fracDigits).2.1
    (predecL_lt _) hb.1 hb.2.1 hb.2.2 l.hasDot
  rw [← mantissaL_eq] at hqm
  refine ⟨qm, hqm, ?_⟩
  have hm0 := mantissaValue_nonneg l
  by_cases hlen : l.fracDigits.length ≤ 19
  · have hF := fracL_exact l.fracDigits hdf hlen
    have hmv : ((predecL l.intDigits : Nat) : Rat) + (if l.hasDot then (((fracL l.fracDigits).1 : Nat) : Rat) /
        (((fracL l.fracDigits).2.1 : Nat) : Rat) else 0) = mantissaValue l := by
      unfold mantissaValue
      rw [hP, hF.1, hF.2]
      cases hd : l.hasDot with
      | true => simp
      | false =>
        have := scanNum_nodot hsc hd
        rw [this]
        simp only [Bool.false_eq_true, if_false, digitsVal_nil, List.length_nil]
        have : ((0 : Nat) : Rat) / ((10 ^ 0 : Nat) : Rat) = 0 := by
          have e : ((0 : Nat) : Rat) = 0 := rfl
          rw [e, zero_div']
        rw [this]
    rw [hmv] at am
    exact am.mono hm0 nf.2.2.2.2.2.2.2.2.2.2.2.2.2
  · -- more than 19 fraction digits: truncation
    have hμ : μ f ≤ mantissaValue l := by
      rcases hfr with h | h
      · exact absurd h hlen
      · exact h
    have hl19 : 19 ≤ l.fracDigits.length := by omega
    have hdot : l.hasDot = true := by
      cases hd : l.hasDot with
      | true => rfl
      | false =>
        have := scanNum_nodot hsc hd
        rw [this] at hl19; simp at hl19
    have hT := fracL_trunc l.fracDigits hdf hl19
    have hB := trunc_bounds l.fracDigits hdf hl19
    rw [hP, hT.1, hT.2, hdot] at am
    simp only [if_true] at am
    have me := mu_eps f
    -- m' = P + V/W approximates m = P + F within εt
    have at' : Approx (εt f) ((digitsVal l.intDigits : Rat) + (digitsVal (l.fracDigits.take 19) : Rat) / ((10 ^ 19 : Nat) : Rat))
        (mantissaValue l) := by
      have h1 : μ f * εt f ≤ mantissaValue l * εt f := Rat.mul_le_mul_of_nonneg_right hμ me.2.1
      have hm1 : 0 ≤ mantissaValue l * εt f := Rat.mul_nonneg hm0 me.2.1
      unfold mantissaValue at h1 hm1 ⊢
      rw [← me.1] at h1
      constructor <;> grind
    have h10 : 0 ≤ 10 * uf f := by have := uf_pos f; grind
    have t := Approx.trans am at' hm0 h10 (by have := nf.2.2.2.2.2.2.2.2.2.2.2.2.2; have := nf.2.2.2.2.2.2.2.2.2.2.2.1; grind) me.2.1
    exact t

/-- **Accuracy** (partial).  For a decimal lexeme within the documented limits — at most 19 integer digits; if there is an
exponent part, the denoted value in the normal range of the type (margin 1e-6 at both ends) — and outside the two open
classes, i.e. with the extra hypotheses
  * exponent FIELD at most `kMaxExponent` (38 / 308)                       (complement of `exp-field-range`),
  * at most 19 fraction digits, or mantissa value at least 1e-12 / 1e-4     (complement of `frac-leading-zeros-19`),
all four instantiations of `ParseFloat` return a finite value with the sign of the lexeme, raise no range error, and the
relative error is at most `tol` = 1e-6 (float) / 1e-14 (double).
The full statement `C14_accuracy_statement` (without the two extra hypotheses) is false, see C14Witness. -/
theorem C14_accuracy_partial (f : Fmt) (chk : Bool) (s : Bytes) (l : Lexeme) (h : (0 : Byte) ∈ s)
    (hl : lexemeOf (cstr s) = some l) (hi : l.intDigits.length ≤ 19)
    (hfr : l.fracDigits.length ≤ 19 ∨ μ f ≤ mantissaValue l)
    (hex : ∀ eneg eds, l.exp = some (eneg, eds) →
      digitsVal eds ≤ kMaxExponent f ∧ minNormal f * (1 + δ) ≤ absQ (decimalValue l) ∧
      absQ (decimalValue l) * (1 + δ) ≤ ovfl f) :
    ∃ r q, parseFloat f chk s = .ok r ∧ r.val = ⟨l.neg, .fin q⟩ ∧ r.erange = false ∧
      Approx (tol f) q (absQ (decimalValue l)) := by
  have hv := value_spec f chk (cstr s)
  unfold lexemeOf at hl
  cases hsc : scanNum (cstr s) with
  | none => rw [hsc] at hl; cases hl
  | some kn =>
    obtain ⟨k, n⟩ := kn
    rw [hsc] at hl hv
    cases k with
    | inf ng => cases hl
    | nan => cases hl
    | dec l' =>
      simp only [Option.some.injEq] at hl
      subst hl
      simp only [] at hv
      obtain ⟨qm, hqm, am⟩ := mantissa_lexeme f hsc hi hfr
      rw [absQ_decimalValue]
      have hres : ∀ q, evalLex f chk l' = (⟨l'.neg, .fin q⟩, false) → Approx (tol f) q (magnitude l') →
          ∃ r q, parseFloat f chk s = .ok r ∧ r.val = ⟨l'.neg, .fin q⟩ ∧ r.erange = false ∧
            Approx (tol f) q (magnitude l') := by
        intro q he ha
        refine ⟨_, q, parseFloat_eq h, ?_, ?_, ha⟩
        · have : (parseFloatCoreP f chk (cstr s)).val = (evalLex f chk l').1 := by rw [← hv]; rfl
          rw [this, he]
        · have : (parseFloatCoreP f chk (cstr s)).erange = (evalLex f chk l').2 := by rw [← hv]; rfl
          rw [this, he]
      have nf := num_facts f
      cases hx : l'.exp with
      | none =>
        apply hres qm
        · unfold evalLex; simp only [hx, hqm]
        · unfold magnitude; simp only [hx]
          exact am.mono (mantissaValue_nonneg l') nf.2.2.2.2.2.2.2.2.1
      | some p =>
        obtain ⟨eneg, eds⟩ := p
        obtain ⟨hE, hlo, hhi⟩ := hex eneg eds hx
        rw [absQ_decimalValue] at hlo hhi
        have hEx : exponL eds = digitsVal eds := exponL_exact eds (by
          have : kMaxExponent f ≤ 308 := by cases f <;> decide
          omega)
        have hmag : magnitude l' = (if eneg then mantissaValue l' / ((10 ^ exponL eds : Nat) : Rat)
            else mantissaValue l' * ((10 ^ exponL eds : Nat) : Rat)) := by
          unfold magnitude; rw [hx, hEx]; cases eneg <;> rfl
        rw [hmag] at hlo hhi
        -- the mantissa is positive because the magnitude is
        have hmpos : 0 < mantissaValue l' := by
          have hm0 := mantissaValue_nonneg l'
          rcases Rat.le_iff_lt_or_eq.mp hm0 with h' | h'
          · exact h'
          · exfalso
            have hz : (if eneg then mantissaValue l' / ((10 ^ exponL eds : Nat) : Rat)
                else mantissaValue l' * ((10 ^ exponL eds : Nat) : Rat)) = 0 := by
              rw [← h']; cases eneg
              · simp
              · simp [zero_div']
            rw [hz] at hlo
            have : 0 < minNormal f * (1 + δ) := Rat.mul_pos (minNormal_pos f) (by decide +kernel)
            grind
        obtain ⟨q, hq, aq⟩ := expL_approx f chk l'.neg am hmpos eneg eds (by rw [hEx]; exact hE) hlo hhi
        apply hres q
        · unfold evalLex; simp only [hx, hqm]; exact hq
        · rw [hmag]; exact aq


/-- the property's "well inside the range" interval: 1e-30..1e30 (float), 1e-300..1e300 (double) -/
def loIn : Fmt → Rat | .F32 => 1 / 10 ^ 30 | .F64 => 1 / 10 ^ 300
def hiIn : Fmt → Rat | .F32 => 10 ^ 30 | .F64 => 10 ^ 300

/-- it lies in the normal range with margin -/
theorem well_inside (f : Fmt) : minNormal f * (1 + δ) ≤ loIn f ∧ hiIn f * (1 + δ) ≤ ovfl f := by
  cases f <;> decide +kernel

/-- **No spurious exception, decimals with an exponent part** (partial): at most 19 integer digits, exponent
FIELD at most `kMaxExponent`, mantissa outside the class `frac-leading-zeros-19`, magnitude in 1e-30..1e30 (float) /
1e-300..1e300 (double): `stof`/`stod` return a value with
relative error at most `tol`, for every prior `errno`, and leave `errno` unchanged.
(The exponent-field hypothesis is exactly the complement of the open class `exp-field-range`.) -/
theorem C14_stof_no_spurious_exp_partial (f : Fmt) (e0 : Nat) (s : Bytes) (l : Lexeme) (h : (0 : Byte) ∈ s)
    (hl : lexemeOf (cstr s) = some l) (hi : l.intDigits.length ≤ 19)
    (hfr : l.fracDigits.length ≤ 19 ∨ μ f ≤ mantissaValue l)
    (hfield : ∀ eneg eds, l.exp = some (eneg, eds) → digitsVal eds ≤ kMaxExponent f)
    (hlo : loIn f ≤ absQ (decimalValue l)) (hhi : absQ (decimalValue l) ≤ hiIn f) :
    ∃ q pos, sto f e0 s = .ok ⟨l.neg, .fin q⟩ pos e0 ∧ Approx (tol f) q (absQ (decimalValue l)) := by
  have wi := well_inside f
  have hδ : (0 : Rat) ≤ 1 + δ := by decide +kernel
  obtain ⟨r, q, hr, hval, her, ha⟩ := C14_accuracy_partial f true s l h hl hi hfr (fun eneg eds hx =>
    ⟨hfield eneg eds hx, by grind, by
      have := Rat.mul_le_mul_of_nonneg_right hhi hδ
      grind⟩)
  rw [parseFloat_eq h] at hr
  cases hr
  refine ⟨q, (parseFloatCoreP f true (cstr s)).endIdx, ?_, ha⟩
  rw [sto_eq h]
  have hpos : (parseFloatCoreP f true (cstr s)).endIdx ≠ 0 := by
    unfold lexemeOf at hl
    cases hs : scanNum (cstr s) with
    | none => rw [hs] at hl; cases hl
    | some kn =>
      have hn : numPrefix (cstr s) = some kn.2 := by simp [numPrefix, hs]
      have := numPrefix_pos hn
      rw [endIdx_eq_numPrefix, hn]; simp; omega
  simp [her, hpos, hval]

/-! ## leading white space -/

theorem PRes_ext {a b : PRes} (h1 : vr a = vr b) (h2 : a.endIdx = b.endIdx) : a = b := by
  cases a; cases b
  simp only [vr, Prod.mk.injEq] at h1
  simp only [] at h2
  simp [h1.1, h1.2, h2]

/-- **Leading white space.**  `ParseFloat` skips every leading `isspace` byte — space, `\t`, `\r`, `\f` and also `\n` —
before it looks for a number: the conversion of `ws ++ t` is the conversion of `t` with the end index shifted by
`|ws|`; if `t` does not start with a number, nothing is consumed (end index 0) in both cases.
(So a blank field followed by a line break is NOT a stopper: the number on the next line is converted.) -/
theorem C14_ws_skip (f : Fmt) (chk : Bool) (ws t : Bytes) (hws : ∀ c ∈ ws, isSpace c = true) (h : (0 : Byte) ∈ t) :
    ∃ r, parseFloat f chk t = .ok r ∧
      parseFloat f chk (ws ++ t) = .ok (if r.endIdx = 0 then r else { r with endIdx := r.endIdx + ws.length }) := by
  have h0 : (0 : Byte) ∉ ws := not_mem_zero_of_all (p := isSpace) (by decide) hws
  refine ⟨_, parseFloat_eq h, ?_⟩
  rw [parseFloat_eq (by simp [h]), cstr_append_of_not_mem t h0]
  congr 1
  have hs := scanNum_ws ws (cstr t) hws
  have vA := value_spec f chk (ws ++ cstr t)
  have vB := value_spec f chk (cstr t)
  have eA := endIdx_eq_numPrefix f chk (ws ++ cstr t)
  have eB := endIdx_eq_numPrefix f chk (cstr t)
  unfold numPrefix at eA eB
  rw [hs] at vA eA
  cases hsc : scanNum (cstr t) with
  | none =>
    rw [hsc] at vA vB eA eB
    simp only [Option.map_none, Option.getD_none] at vA vB eA eB
    rw [if_pos eB]
    exact PRes_ext (by rw [vA, vB]) (by rw [eA, eB])
  | some kn =>
    obtain ⟨k, n⟩ := kn
    rw [hsc] at vA vB eA eB
    simp only [Option.map_some, Option.getD_some] at vA vB eA eB
    have hn : 0 < n := numPrefix_pos (t := cstr t) (by simp [numPrefix, hsc])
    rw [if_neg (by omega)]
    apply PRes_ext
    · cases k <;> (simp only [] at vA vB; rw [vA]; unfold vr; simp only []; unfold vr at vB; exact vB.symm)
    · simp only []; rw [eA, eB]

end DmlcModel.Props.C14
