/-
C16 witnesses.
(1) Finding C16-F9 — the behaviour of the *pinned* `WriteObjectKeyValue` (key copied between two quotes
    without escaping) refutes both the round trip and the well-formedness clause on the one-entry map
    `{ a"b ↦ 1 }`; with the repaired writer (the model in Model.lean) the same value is fine.
(2) The hypothesis of `C16_wellformed` is needed: a control character is written raw.
(3) Reader quirks on malformed input that the property tolerates ("returns or raises").
-/
import DmlcModel.Json.Model

namespace DmlcModel.Props.C16
open DmlcModel DmlcModel.Json

/-- the text the pinned code writes for `std::map<std::string,int>{{k, i}}`: `{"` k `": ` i `}` -/
def pinnedMapText (k : Bytes) (i : Int) : Bytes :=
  [123, 34] ++ k ++ [34, 58, 32] ++ IStreamInt.render i ++ [125]

def mapI32 : JTy := .map (.int 32 true)
/-- the key `a"b` -/
def keyQ : Bytes := [97, 34, 98]

/-- pinned tree: `{"a"b": 1}` is what gets written; reading it back raises dmlc::Error … -/
theorem C16_F9_pinned_roundtrip_fails :
    (match readTop mapI32 (pinnedMapText keyQ 1) with | .error .check => true | _ => false) = true := by decide

/-- … and the text is not JSON -/
theorem C16_F9_pinned_not_wellformed : wellFormed (pinnedMapText keyQ 1) = false := by decide

/-- repaired writer: the key is escaped (`{"a\"b": 1}`), the text is JSON and reads back -/
theorem C16_F9_fixed_ok :
    enc mapI32 (.obj [(keyQ, .int 1)]) [] = [123, 34, 97, 92, 34, 98, 34, 58, 32, 49, 125] ∧
    wellFormed (enc mapI32 (.obj [(keyQ, .int 1)]) []) = true ∧
    (match readTop mapI32 (enc mapI32 (.obj [(keyQ, .int 1)]) []) with
      | .ok (.obj [(k, .int 1)], st) => k == keyQ && st.inp.isEmpty
      | _ => false) = true := by decide

/-- a control character other than TAB / LF / CR is written raw: the round trip holds, the text is not
JSON (this is why `C16_wellformed` carries the `clean` hypothesis, as the property does) -/
theorem C16_control_char_raw :
    enc .str (.str [1]) [] = [34, 1, 34] ∧ wellFormed [34, 1, 34] = false ∧
    (match readTop .str [34, 1, 34] with | .ok (.str [1], _) => true | _ => false) = true := by decide

/-- reader quirks on malformed input (tolerated: "returns or raises"): EOF after an element ends an
array (`[1, 2` is accepted), `-1` read into an unsigned wraps, a raw TAB inside a string is accepted -/
theorem C16_reader_quirks :
    (match readTop (.vec (.int 32 true)) [91, 49, 44, 32, 50] with | .ok (.arr [.int 1, .int 2], _) => true | _ => false) = true ∧
    (match readTop (.int 32 false) [45, 49] with | .ok (.int 4294967295, _) => true | _ => false) = true ∧
    (match readTop .str [34, 9, 34] with | .ok (.str [9], _) => true | _ => false) = true := by decide

end DmlcModel.Props.C16
