/-
C08 witnesses: BeforeFirst mid-stream with one item delivered, one prefetched and a cell lent; the state at its
return; BeforeFirst twice in a row; non-vacuity of the hypotheses of the C08 theorems.
-/
import DmlcModel.TIter.Corollaries

namespace DmlcModel.Props.C08Witness
open DmlcModel DmlcModel.TIter DmlcModel.Gen.TIter

def P3 : Params := { src := fun p i => if i < 3 then .item (100 * p + i) else .fin, rew := fun _ => .ok, cap := 2 }

/-- produce 0 and 1, deliver 0 (cell lent), rewind while item 1 is queued and the producer is inside its callback
for item 2: at the return the pass is 1, nothing of it has been delivered, the stale items are gone -/
def schedMid : List Event :=
  [.prod, .prod, .prod, .prod, .prod, .prod, .prod, .prod,      -- items 0 and 1 published
   .nStart false, .nLoadSig, .nExc, .nLock, .nRetItem,          -- consumer gets item 0 and keeps the cell
   .prod,                                                       -- producer takes a cell for item 2: in `call`
   .bStart, .xStep, .xStep,                                     -- BeforeFirst posts the command and waits
   .prod, .prod, .prod,                                         -- callback, store, publish (item 2 of the OLD pass)
   .prod,                                                       -- top: sees kBeforeFirst, rewinds, flushes
   .prod,                                                       -- notify_all
   .xStep, .xStep]                                              -- consumer re-acquires, last exception check

theorem C08_witness_mid_stream :
    ∃ t, runEvents true P3 init schedMid = some t ∧ t.ret = .ok ∧ t.xloc = .idle ∧ t.pass = 1 ∧ t.bfPass = 0 ∧
      t.delivered = [] ∧ t.queue = [] ∧ t.produced = [] ∧ t.lent = [0] ∧ t.free.length = 2 ∧ t.rewCalls = 1 ∧
      t.bfPosted = 1 := by
  refine ⟨_, rfl, rfl, rfl, rfl, rfl, rfl, rfl, rfl, rfl, rfl, rfl, rfl⟩

/-- ... and the next delivery is position 0 of pass 1 -/
theorem C08_witness_fresh_item :
    ∃ t, runEvents true P3 init (schedMid ++ [.prod, .prod, .prod, .prod, .nStart false, .nLoadSig, .nExc, .nLock, .nRetItem])
      = some t ∧ t.ret = .nextItem ∧ t.delivered = [⟨1, 0, 100⟩] := by
  refine ⟨_, rfl, rfl, rfl⟩

/-- BeforeFirst as the very first operation, twice in a row -/
theorem C08_witness_twice :
    ∃ t, runEvents true P3 init
      [.bStart, .xStep, .xStep, .prod, .prod, .xStep, .xStep, .bStart, .xStep, .xStep, .prod, .prod, .xStep, .xStep] = some t ∧
      t.ret = .ok ∧ t.pass = 2 ∧ t.rewCalls = 2 ∧ t.bfPosted = 2 := by
  refine ⟨_, rfl, rfl, rfl, rfl, rfl⟩

end DmlcModel.Props.C08Witness
