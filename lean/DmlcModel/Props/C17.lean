/-
C17 — Parameter Init/Update follow the declared schema for every argument list.
Property theorems only; the lemmas live in DmlcModel/Param/{Lemmas,EntryMap,RunSpec,Spec,Dict}.lean.

All theorems hold for every `FloatOps` (the float/double conversion pair is abstract), every schema with
pairwise distinct keys (`(allKeys S).Nodup`: `AddEntry`/`AddAlias` refuse duplicates), every argument
list, every option value and both collecting modes, starting from any struct content.
-/
import DmlcModel.Param.RunSpec
import DmlcModel.Param.Spec
import DmlcModel.Param.Dict
import DmlcModel.Param.FloatRoundTrip

namespace DmlcModel.Props.C17
open DmlcModel DmlcModel.Param

/-- **Init, success.**  If `RunInit` (= `Init`, `InitAllowUnknown`) does not throw, every declared field
holds the parsed value of the LAST argument whose key is its name or one of its aliases, or — when no
argument mentions it — its declared default; the returned unknown list is, in collecting mode, exactly
the arguments with unregistered keys in their original order (empty otherwise). -/
theorem C17_init_ok (ops : FloatOps) (S : Schema) (hS : (allKeys S).Nodup) (option : Nat) (collect : Bool)
    (st : Struct) (kw : List KV) (h : (runInit ops S option collect st kw).err = none) :
    (∀ i f, S[i]? = some f →
      match lastOccK (fieldKeys f) kw with
      | some t => parse ops f t = .ok ((runInit ops S option collect st kw).st i)
      | none => f.dflt = some ((runInit ops S option collect st kw).st i)) ∧
    (runInit ops S option collect st kw).unk =
      (if collect then kw.filter (fun kv => (find S kv.1).isNone) else []) :=
  runInit_ok_spec ops S hS option collect st kw h

/-- **Init, failure.**  `RunInit` throws `e` iff either some argument is the first offending one with
error `e` (`firstErr`, unfolded by `C17_first_offending` and `C17_arg_ok_iff`), or every argument is
fine and a field without default is mentioned by no argument (`e` = "Required parameter … missing"). -/
theorem C17_init_error_iff (ops : FloatOps) (S : Schema) (hS : (allKeys S).Nodup) (option : Nat) (collect : Bool)
    (st : Struct) (kw : List KV) (e : ErrKind) :
    (runInit ops S option collect st kw).err = some e ↔
      firstErr ops S option collect kw = some e ∨
      (firstErr ops S option collect kw = none ∧ e = .required ∧
        ∃ (i : Nat) (f : Field), S[i]? = some f ∧ f.dflt = none ∧ lastOccK (fieldKeys f) kw = none) :=
  runInit_error_iff ops S hS option collect st kw e

/-- the first error in argument order is the error of the first argument that is not fine -/
theorem C17_first_offending (ops : FloatOps) (S : Schema) (option : Nat) (collect : Bool) (kw : List KV) (e : ErrKind) :
    firstErr ops S option collect kw = some e ↔
      ∃ pre a post, kw = pre ++ a :: post ∧ (∀ b ∈ pre, argErr ops S option collect b = none) ∧
        argErr ops S option collect a = some e :=
  firstErr_eq_some_iff ops S option collect e kw

/-- an argument is fine iff its key is registered and its value is entirely a valid literal of the field's
type (`Spec.literal`) within the declared range, or its key is unregistered and tolerated by the policy
(collecting mode, `kAllowUnknown`, or a hidden key under `kAllowHidden`). -/
theorem C17_arg_ok_iff (ops : FloatOps) (S : Schema) (hE : ∀ f ∈ S, EnumsInRange f) (option : Nat) (collect : Bool)
    (k v : Bytes) :
    argErr ops S option collect (k, v) = none ↔
      match find S k with
      | some (_, f) => ∃ val, literal ops f v = some val ∧ check f val = none
      | none => collect = true ∨ option = Gen.Param.kAllowUnknown ∨ hiddenSkip option k = true := by
  unfold argErr
  cases hf : find S k with
  | some p =>
    obtain ⟨i, f⟩ := p
    simp only
    have hfS : f ∈ S := List.mem_of_getElem? (find_sound S k i f hf).1
    have hlit := set_ok_iff_literal ops f (hE f hfS) (zeroVal f.ty) v
    unfold applyArg
    cases hl : literal ops f v with
    | none =>
      have := hlit.2 hl
      rcases hs : setVal ops f (zeroVal f.ty) v with ⟨nv, e⟩
      rw [hs] at this
      cases e with
      | none => exact absurd rfl this
      | some e => simp
    | some val =>
      rw [hlit.1 val hl]
      simp
  | none =>
    simp only [Gen.Param.collects, Gen.Param.polMayReject]
    cases collect <;> by_cases ho : option = Gen.Param.kAllowUnknown <;>
      by_cases hh : hiddenSkip option k = true <;> simp [ho, hh]

/-- kinds of failure of a registered key: not a literal (any error but "range") or literal out of range -/
theorem C17_arg_error_kind (ops : FloatOps) (f : Field) (hE : EnumsInRange f) (old : Val) (v : Bytes) (e : ErrKind)
    (h : (applyArg ops f old v).2 = some e) :
    (literal ops f v = none) ∨ (∃ val, literal ops f v = some val ∧ check f val = some .range ∧ e = .range) := by
  have hlit := set_ok_iff_literal ops f hE old v
  cases hl : literal ops f v with
  | none => exact Or.inl rfl
  | some val =>
    right
    unfold applyArg at h
    rw [hlit.1 val hl] at h
    simp only at h
    refine ⟨val, rfl, ?_, ?_⟩
    · unfold check at h ⊢
      by_cases hc : hasCheck f.ty = true
      · simp only [hc, Bool.not_true, Bool.false_eq_true, if_false] at h ⊢
        repeat' split at h
        all_goals first | (cases h) | skip
        all_goals simp_all
      · simp [hc] at h
    · unfold check at h
      by_cases hc : hasCheck f.ty = true
      · simp only [hc, Bool.not_true, Bool.false_eq_true, if_false] at h
        repeat' split at h
        all_goals first | (cases h; rfl) | (cases h)
      · simp [hc] at h

/-- `Check`: a value passes iff it is not below the lower bound (if declared) and not above the upper
bound (if declared); comparisons are those of the field's C++ type (any comparison with NaN is false). -/
theorem C17_check_iff (f : Field) (v : Val) (hc : hasCheck f.ty = true) :
    check f v = none ↔ (∀ lo, f.lo = some lo → vLt f.ty v lo = false) ∧ (∀ hi, f.hi = some hi → vLt f.ty hi v = false) := by
  unfold check
  simp only [hc, Bool.not_true, Bool.false_eq_true, if_false, Gen.Param.chkBoth, Gen.Param.chkBothFail,
    Gen.Param.chkLowerFail, Gen.Param.chkUpperFail]
  cases hlo : f.lo <;> cases hhi : f.hi <;> simp <;>
    (try (cases h1 : vLt f.ty v _ <;> simp)) <;> (try (cases h2 : vLt f.ty _ v <;> simp))

/-- **Hidden keys / policies.**  The `continue` branch for hidden keys fires iff the option is
`kAllowHidden`, the key is longer than 4 bytes, starts with `__` (first occurrence at 0) and its last
occurrence of `__` is at `length - 2`; so `____` (length 4) is NOT hidden.  (`std::string` lengths are
below 2^64.) -/
theorem C17_hidden_policy (option : Nat) (k : Bytes) (hlen : k.length < 2 ^ 64) :
    hiddenSkip option k = true ↔
      option = Gen.Param.kAllowHidden ∧ k.length > 4 ∧ findSub [95, 95] k = 0 ∧ rfindSub [95, 95] k = k.length - 2 := by
  unfold hiddenSkip Gen.Param.hiddenSkip Gen.Param.hiddenPattern
  simp only [Bool.and_eq_true, beq_iff_eq, decide_eq_true_eq]
  constructor
  · rintro ⟨⟨⟨h1, h2⟩, h3⟩, h4⟩
    refine ⟨h1, h2, h3, ?_⟩
    rw [h4]; unfold sub64; omega
  · rintro ⟨h1, h2, h3, h4⟩
    refine ⟨⟨⟨h1, h2⟩, h3⟩, ?_⟩
    rw [h4]; unfold sub64; omega

/-- an unregistered key, by policy: collected when collecting; otherwise ignored under `kAllowUnknown`,
ignored under `kAllowHidden` iff hidden, and always an error under `kAllMatch`. -/
theorem C17_unknown_key_policy (ops : FloatOps) (S : Schema) (option : Nat) (collect : Bool) (k v : Bytes)
    (hk : find S k = none) :
    (collect = true → argErr ops S option collect (k, v) = none) ∧
    (collect = false → option = Gen.Param.kAllowUnknown → argErr ops S option collect (k, v) = none) ∧
    (collect = false → option = Gen.Param.kAllMatch → argErr ops S option collect (k, v) = some .unknown) ∧
    (collect = false → option = Gen.Param.kAllowHidden →
      argErr ops S option collect (k, v) = if hiddenSkip option k then none else some .unknown) := by
  unfold argErr
  simp only [hk, Gen.Param.collects, Gen.Param.polMayReject]
  refine ⟨fun h => by simp [h], fun h ho => by simp [h, ho], fun h ho => ?_, fun h ho => ?_⟩
  · subst ho
    have this : hiddenSkip 1 k = false := by
      unfold hiddenSkip Gen.Param.hiddenSkip
      simp [Gen.Param.kAllowHidden]
    simp [h, this, Gen.Param.kAllMatch, Gen.Param.kAllowUnknown]
  · subst ho
    simp [h, Gen.Param.kAllowHidden, Gen.Param.kAllowUnknown]

/-- **Update changes only the mentioned fields** — whether or not it throws. -/
theorem C17_update_frame (ops : FloatOps) (S : Schema) (hS : (allKeys S).Nodup) (option : Nat) (collect : Bool)
    (st : Struct) (kw : List KV) (i : Nat) (f : Field) (hi : S[i]? = some f)
    (hno : ∀ kv ∈ kw, kv.1 ∉ fieldKeys f) :
    (runUpdate ops S option collect st [] [] kw).st i = st i := by
  apply runUpdate_frame
  rw [lastOcc_eq_lastOccK S hS i f hi kw]
  exact (lastOccK_none_iff (fieldKeys f) kw).mpr hno

/-- the mentioned fields of a successful Update hold the parse of their last occurrence -/
theorem C17_update_ok (ops : FloatOps) (S : Schema) (hS : (allKeys S).Nodup) (option : Nat) (collect : Bool)
    (st : Struct) (kw : List KV) (h : (runUpdate ops S option collect st [] [] kw).err = none)
    (i : Nat) (f : Field) (hi : S[i]? = some f) (t : Bytes) (ht : lastOccK (fieldKeys f) kw = some t) :
    parse ops f t = .ok ((runUpdate ops S option collect st [] [] kw).st i) := by
  obtain ⟨h1, _, _⟩ := runUpdate_ok ops S option collect kw st [] [] h
  rw [← lastOcc_eq_lastOccK S hS i f hi kw] at ht
  exact (h1 i).2 t ht f hi

/-- **"not entirely a valid literal"**: `Set` succeeds exactly on `Spec.literal` and stores its value -/
theorem C17_set_ok_iff_literal (ops : FloatOps) (f : Field) (hf : EnumsInRange f) (old : Val) (text : Bytes) :
    (∀ v, literal ops f text = some v → setVal ops f old text = (v, none)) ∧
    (literal ops f text = none → (setVal ops f old text).2 ≠ none) :=
  set_ok_iff_literal ops f hf old text

/-- **Dictionary form, struct level.**  `R f a b` = "b is an acceptable re-reading of a for field f"
(equality for the exact kinds, the C14 tolerance for float/double).  If the string form of every field
parses back to a related value (`C17_field_roundtrip` proves this with `R = Eq` for every kind but
float/double), then `Init` from `__DICT__()` — under any option, collecting or not, from any start
struct — does not throw, reports no unknown key and yields a related struct. -/
theorem C17_dict_roundtrip (ops : FloatOps) (S : Schema) (hS : (allKeys S).Nodup) (R : Field → Val → Val → Prop)
    (st : Struct) (kvs : List KV) (hd : dict ops S st = .ok kvs)
    (H : ∀ i f, S[i]? = some f → ∀ s, getString ops f (st i) = .ok s → ∃ v', parse ops f s = .ok v' ∧ R f (st i) v')
    (option : Nat) (collect : Bool) (st0 : Struct) :
    (runInit ops S option collect st0 kvs).err = none ∧
    (runInit ops S option collect st0 kvs).unk = [] ∧
    ∀ i f, S[i]? = some f → R f (st i) ((runInit ops S option collect st0 kvs).st i) :=
  dict_reinit ops S hS R st kvs hd H option collect st0

/-- **Dictionary form, field level** (int, unsigned, int64, bool, string, enum, optional<int>, optional enum,
optional<bool>): the printed form of a well-typed in-range value is a literal of the type denoting exactly
that value. -/
theorem C17_field_roundtrip (ops : FloatOps) (f : Field) (hE : EnumsInRange f) (hN : EnumNamesOk f) (v : Val)
    (hnf : f.ty ≠ .float ∧ f.ty ≠ .double) (hwt : WellTyped f v) (hck : check f v = none) (s : Bytes)
    (hs : getString ops f v = .ok s) : parse ops f s = .ok v :=
  field_roundtrip ops f hE hN v hnf hwt hck s hs

/-- the JSON map reader inverts the JSON map writer on every key-sorted `std::map<std::string, std::string>`
(any keys, any values): instance of C16's `readTop_writeTop` — `Save`/`Load` of the model go through the C16
model of json.h (`Json.writeTop` / `Json.readTop` at type `map<str>`). -/
theorem C17_json_map_roundtrip (kvs : List KV) (h : incK (kvs.map (·.1))) :
    ∃ bs, jsonWriteMap kvs = some bs ∧ jsonReadMap bs = some kvs :=
  json_map_roundtrip kvs h

/-- **JSON form (full).**  Whenever `__DICT__()` exists (no enum field holds a non-enumerated value), `Save`
produces a text, and `Load` of that text into ANY struct does not throw and yields a struct related to the
saved one field by field (`R` and `H` as in `C17_dict_roundtrip`: `H` is proved with `R = Eq` for every kind but
float/double by `C17_field_roundtrip`, and by `C17_float_field_roundtrip` for float/double). -/
theorem C17_json_roundtrip (ops : FloatOps) (S : Schema) (hS : (allKeys S).Nodup)
    (R : Field → Val → Val → Prop) (st : Struct) (kvs : List KV) (hd : dict ops S st = .ok kvs)
    (H : ∀ i f, S[i]? = some f → ∀ s, getString ops f (st i) = .ok s → ∃ v', parse ops f s = .ok v' ∧ R f (st i) v') :
    ∃ js, save ops S st = .ok js ∧
      ∀ st0, (load ops S st0 js).err = none ∧ ∀ i f, S[i]? = some f → R f (st i) ((load ops S st0 js).st i) := by
  obtain ⟨bs, hw, hr⟩ := json_map_roundtrip kvs (dict_incK ops S st kvs hd)
  refine ⟨bs, by simp [save, hd, hw], fun st0 => ?_⟩
  unfold load
  rw [hr]
  simp only [init]
  obtain ⟨h1, _, h3⟩ := dict_reinit ops S hS R st kvs hd H Gen.Param.kAllowHidden false st0
  exact ⟨h1, h3⟩

/-- **float / double fields, re-reading a printed value** (conversion = the C14 model of `dmlc::stof`/`stod`,
`opsC14`).  If the printed text `t` is one decimal lexeme within `ParseFloat`'s documented limits
(`PrintedDecimal`: at most 19 integer digits, at most 19 fraction digits or mantissa ≥ 1e-12 / 1e-4, exponent
field ≤ 38 / 308 with the value inside the normal range), then `Set` consumes all of `t` and stores a finite value
of the printed sign whose magnitude is within C14's bound `tol` = 1e-6 / 1e-14 (relative) of the decimal value
printed, for any prior `errno`; `Check` then decides (`hck`; vacuous for unbounded fields, `check_unranged`).
What stays a hypothesis is the printing side only — that `os << setprecision(9|17) << v` (libc `%.Pg`) emits such
a lexeme whose decimal value is the P-digit rounding of `v` (1e-4 ≤ |v| < 1e38 / 1e308; "inf"/"nan" spellings and
zero are outside C14's accuracy theorem and are covered by correspondence only).  C14 proves no exactness for
fractional literals, so no exact round trip is claimed for float fields. -/
theorem C17_float_field_roundtrip (stale : Bool) (p32 p64 : Nat → Bytes) (fld : Field) (f : StrToNum.Fmt)
    (hty : (f = .F32 ∧ fld.ty = .float) ∨ (f = .F64 ∧ fld.ty = .double))
    (t : Bytes) (l : StrToNum.Lexeme) (hp : PrintedDecimal f t l)
    (hck : ∀ q, StrToNum.Approx (StrToNum.tol f) q (DmlcModel.Props.C14.absQ (StrToNum.decimalValue l)) →
      check fld (.flt ((⟨l.neg, .fin q⟩ : StrToNum.FVal).bits f)) = none) :
    ∃ q, parse (opsC14 stale p32 p64) fld t = .ok (.flt ((⟨l.neg, .fin q⟩ : StrToNum.FVal).bits f)) ∧
      StrToNum.Approx (StrToNum.tol f) q (DmlcModel.Props.C14.absQ (StrToNum.decimalValue l)) :=
  float_field_reparse stale p32 p64 fld f hty t l hp hck

end DmlcModel.Props.C17
