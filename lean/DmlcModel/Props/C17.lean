import DmlcModel.Param.Model
namespace DmlcModel.Props.C17
open DmlcModel DmlcModel.Param

theorem C17_stub : (1 : Nat) = 1 := rfl

end DmlcModel.Props.C17
