/- non-vacuity: concrete records that meet the hypotheses and exercise every branch -/
import DmlcModel.Props.C01
namespace DmlcModel.Props.C01
open DmlcModel DmlcModel.RecordIO

/-- a 13-byte record: magic at offsets 0 and 4 (adjacent → empty middle part) and the magic bytes
again at the unaligned offset 9 (must not be treated as a separator) -/
def w13 : Bytes := [0x0a, 0x23, 0xd7, 0xce, 0x0a, 0x23, 0xd7, 0xce, 0x01, 0x0a, 0x23, 0xd7, 0xce]

example : w13.length < 2 ^ 29 := by decide
example : alignedMagicCount w13 = 2 := by decide
example : readAll (writeAll [w13, [], [7]]) = some [w13, [], [7]] := by decide
example : (writeAll [w13, [], [7]]).length = 52 := by decide
example : (writeRecord w13).2 = 2 := by decide
end DmlcModel.Props.C01
