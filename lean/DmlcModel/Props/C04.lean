/-
C04 — RecordIO InputSplit: the parts of an `n`-way split deliver every record exactly once, byte-identical
and in order (records containing the magic word, stored as several parts on disk, included), whether consumed
with `NextRecord` or with `NextChunk`; every chunk consists of whole records only.
Property theorems only; definitions in DmlcModel/Split/{Model,Spec}.lean (`partBlobs`, `okOf`), boundaries
`bndR`, record starts `GHead` and the records of a byte range `recsIn` in DmlcModel/Split/RecSnap.lean, the
records a consumer extracts from the blobs `recordsOf` / `blobRecords` in DmlcModel/Split/CoverRec.lean, lemmas
in DmlcModel/Split/*.lean (assembled in DmlcModel/Split/CoverRec.lean).

Common hypotheses: `rss` holds one non-empty record list per file (at least one file), every record shorter
than 2^29 bytes (the RecordIO length field), file `i` is `writeAll rss[i]` (the image `WriteRecord` produces),
less than 2^56 bytes in all, `1 ≤ n < 2^32` parts (`0 < n` follows from `k < n` in the per-part statements), a
buffer of `2 ≤ w < 2^56` words (with a one-word buffer `FindLastRecordBegin`'s `CHECK(p >= pbegin + 2)`
fires), any `kBufferSize` `dw`, any choice `pick` of `NextRecord` (`true`) / `NextChunk` (`false`) per call.

Not covered here: tiling ONE delivered chunk by `RecordIOChunkReader` with `q` sub-parts (property C02);
`C04_chunk_readable` only states that the sequential `RecordIOReader` reads a delivered chunk back.
-/
import DmlcModel.Split.CoverRec
import DmlcModel.Props.C01

namespace DmlcModel.Props.C04
open DmlcModel DmlcModel.Split DmlcModel.RecordIO
open DmlcModel.Split.CoverAux

/-- part `k` ends without an abnormal outcome; consumed with `NextRecord` it delivers exactly the records
whose image starts in its byte range `[bndR k, bndR (k+1))`, byte-identical and in order -/
theorem C04_part_records (rss : List (List Bytes)) (n w dw : Nat) (hne : rss ≠ [])
    (hrss : ∀ rs ∈ rss, rs ≠ [] ∧ ∀ r ∈ rs, r.length < 2^29) (ht : totalSize (rss.map writeAll) < 2^56)
    (hn : n < 2^32) (hw2 : 2 ≤ w) (hw : w < 2^56) (k : Nat) (hk : k < n) :
    partBlobs Fmt.recordio (rss.map writeAll) k n w dw (fun _ => true)
      = .ok (recsIn rss.flatten 0 (bndR rss n k) (bndR rss n (k + 1))) :=
  part_rec_records rss (rssOk_of rss hrss) hne ht k n w dw hk hn hw2 hw

/-- MAIN: consumed with `NextRecord`, no part fails and the parts `0..n-1` deliver exactly the written records,
in order, byte-identical, each exactly once -/
theorem C04_parts_cover (rss : List (List Bytes)) (n w dw : Nat) (hne : rss ≠ [])
    (hrss : ∀ rs ∈ rss, rs ≠ [] ∧ ∀ r ∈ rs, r.length < 2^29) (ht : totalSize (rss.map writeAll) < 2^56)
    (hn0 : 0 < n) (hn : n < 2^32) (hw2 : 2 ≤ w) (hw : w < 2^56) :
    ∃ parts : List (List Bytes),
      (List.range n).map (fun k => okOf (partBlobs Fmt.recordio (rss.map writeAll) k n w dw (fun _ => true)))
        = parts.map some ∧
      parts.flatten = rss.flatten := by
  refine ⟨(List.range n).map (fun k => recsIn rss.flatten 0 (bndR rss n k) (bndR rss n (k + 1))), ?_, ?_⟩
  · rw [List.map_map]
    apply List.map_congr_left
    intro k hk
    rw [C04_part_records rss n w dw hne hrss ht hn hw2 hw k (List.mem_range.1 hk)]
    rfl
  · rw [← List.flatMap_def]
    have ht62 : totalSize (recFiles rss) < 2^62 := Nat.lt_of_lt_of_le ht (by omega)
    exact records_parts_telescope rss (rssOk_of rss hrss) hne ht62 n hn0 hn

/-- every chunk consists of whole records only — for any mix of `NextRecord` / `NextChunk`, part `k` ends
normally and its blobs correspond one-to-one to consecutive non-empty runs of the records of the part: a
`NextRecord` blob is exactly the next record, a `NextChunk` blob is the image `writeAll run` of the next run
of whole records; the runs concatenate to the records that start in the byte range of the part -/
theorem C04_chunks_whole_records (rss : List (List Bytes)) (n w dw : Nat) (hne : rss ≠ [])
    (hrss : ∀ rs ∈ rss, rs ≠ [] ∧ ∀ r ∈ rs, r.length < 2^29) (ht : totalSize (rss.map writeAll) < 2^56)
    (hn : n < 2^32) (hw2 : 2 ≤ w) (hw : w < 2^56) (k : Nat) (hk : k < n) (pick : Nat → Bool) :
    ∃ (bs : List Bytes) (runs : List (List Bytes)),
      partBlobs Fmt.recordio (rss.map writeAll) k n w dw pick = .ok bs ∧ runs.length = bs.length ∧
      runs.flatten = recsIn rss.flatten 0 (bndR rss n k) (bndR rss n (k + 1)) ∧
      (∀ (i : Nat) (b : Bytes) (run : List Bytes), bs[i]? = some b → runs[i]? = some run →
        run ≠ [] ∧ (if pick i then run = [b] else b = writeAll run)) :=
  part_rec rss (rssOk_of rss hrss) hne ht k n w dw hk hn hw2 hw pick

/-- no part raises an abnormal outcome (`check`, `oob`, `uninit`, `div`, `fuel`), in any consumption mode -/
theorem C04_no_error (rss : List (List Bytes)) (n w dw : Nat) (hne : rss ≠ [])
    (hrss : ∀ rs ∈ rss, rs ≠ [] ∧ ∀ r ∈ rs, r.length < 2^29) (ht : totalSize (rss.map writeAll) < 2^56)
    (hn : n < 2^32) (hw2 : 2 ≤ w) (hw : w < 2^56) (k : Nat) (hk : k < n) (pick : Nat → Bool) :
    ∃ bs, partBlobs Fmt.recordio (rss.map writeAll) k n w dw pick = .ok bs := by
  obtain ⟨bs, _, h, _⟩ := C04_chunks_whole_records rss n w dw hne hrss ht hn hw2 hw k hk pick
  exact ⟨bs, h⟩

/-- the records a consumer extracts from part `k` (a `NextRecord` blob is one record, a `NextChunk` blob is
read back with `RecordIOReader`: `recordsOf`) are the records that start in the byte range of the part,
whatever the mix of `NextRecord` / `NextChunk` -/
theorem C04_part_records_any_mode (rss : List (List Bytes)) (n w dw : Nat) (hne : rss ≠ [])
    (hrss : ∀ rs ∈ rss, rs ≠ [] ∧ ∀ r ∈ rs, r.length < 2^29) (ht : totalSize (rss.map writeAll) < 2^56)
    (hn : n < 2^32) (hw2 : 2 ≤ w) (hw : w < 2^56) (k : Nat) (hk : k < n) (pick : Nat → Bool) :
    recordsOf pick (partBlobs Fmt.recordio (rss.map writeAll) k n w dw pick)
      = recsIn rss.flatten 0 (bndR rss n k) (bndR rss n (k + 1)) :=
  recordsOf_part_rec rss (rssOk_of rss hrss) hne ht k n w dw hk hn hw2 hw pick

/-- MAIN, any mode: no part fails, and the records extracted from the blobs of the parts `0..n-1` (any mix of
`NextRecord` / `NextChunk`, chosen per part and per call) concatenate to the written records, in order,
byte-identical, each exactly once -/
theorem C04_parts_cover_any_mode (rss : List (List Bytes)) (n w dw : Nat) (hne : rss ≠ [])
    (hrss : ∀ rs ∈ rss, rs ≠ [] ∧ ∀ r ∈ rs, r.length < 2^29) (ht : totalSize (rss.map writeAll) < 2^56)
    (hn0 : 0 < n) (hn : n < 2^32) (hw2 : 2 ≤ w) (hw : w < 2^56) (pick : Nat → Nat → Bool) :
    (∀ k, k < n → ∃ bs, partBlobs Fmt.recordio (rss.map writeAll) k n w dw (pick k) = .ok bs) ∧
    (List.range n).flatMap
        (fun k => recordsOf (pick k) (partBlobs Fmt.recordio (rss.map writeAll) k n w dw (pick k)))
      = rss.flatten :=
  ⟨fun k hk => C04_no_error rss n w dw hne hrss ht hn hw2 hw k hk (pick k),
   parts_cover_rec rss (rssOk_of rss hrss) hne ht n w dw hn0 hn hw2 hw pick⟩

/-- the same without the extraction function: there is a family of run lists, one per part, matching the
blobs of the part one-to-one (`NextRecord` blob = the single record of its run, `NextChunk` blob = image of
its non-empty run), whose concatenation over all parts is the list of written records -/
theorem C04_parts_cover_runs (rss : List (List Bytes)) (n w dw : Nat) (hne : rss ≠ [])
    (hrss : ∀ rs ∈ rss, rs ≠ [] ∧ ∀ r ∈ rs, r.length < 2^29) (ht : totalSize (rss.map writeAll) < 2^56)
    (hn0 : 0 < n) (hn : n < 2^32) (hw2 : 2 ≤ w) (hw : w < 2^56) (pick : Nat → Nat → Bool) :
    ∃ runsOf : Nat → List (List Bytes),
      (∀ k, k < n → ∃ bs : List Bytes,
        partBlobs Fmt.recordio (rss.map writeAll) k n w dw (pick k) = .ok bs ∧
        (runsOf k).length = bs.length ∧
        (∀ (i : Nat) (b : Bytes) (run : List Bytes), bs[i]? = some b → (runsOf k)[i]? = some run →
          run ≠ [] ∧ (if pick k i then run = [b] else b = writeAll run))) ∧
      (List.range n).flatMap (fun k => (runsOf k).flatten) = rss.flatten := by
  have hex : ∀ k, ∃ runs : List (List Bytes), k < n → ∃ bs : List Bytes,
      partBlobs Fmt.recordio (rss.map writeAll) k n w dw (pick k) = .ok bs ∧ runs.length = bs.length ∧
      runs.flatten = recsIn rss.flatten 0 (bndR rss n k) (bndR rss n (k + 1)) ∧
      (∀ (i : Nat) (b : Bytes) (run : List Bytes), bs[i]? = some b → runs[i]? = some run →
        run ≠ [] ∧ (if pick k i then run = [b] else b = writeAll run)) := by
    intro k
    by_cases hk : k < n
    · obtain ⟨bs, runs, h⟩ := C04_chunks_whole_records rss n w dw hne hrss ht hn hw2 hw k hk (pick k)
      exact ⟨runs, fun _ => ⟨bs, h⟩⟩
    · exact ⟨[], fun h => absurd h hk⟩
  refine ⟨fun k => Classical.choose (hex k), ?_, ?_⟩
  · intro k hk
    obtain ⟨bs, h1, h2, _, h4⟩ := Classical.choose_spec (hex k) hk
    exact ⟨bs, h1, h2, h4⟩
  · have ht62 : totalSize (recFiles rss) < 2^62 := Nat.lt_of_lt_of_le ht (by omega)
    refine (flatMap_congr_mem _ _ _ ?_).trans
      (records_parts_telescope rss (rssOk_of rss hrss) hne ht62 n hn0 hn)
    intro k hk
    obtain ⟨_, _, _, h3, _⟩ := Classical.choose_spec (hex k) (List.mem_range.1 hk)
    exact h3

/-- what a consumer extracts from a part does not depend on the buffer size, the default buffer size, or the
consumption mode -/
theorem C04_buffer_independent (rss : List (List Bytes)) (n w dw : Nat) (hne : rss ≠ [])
    (hrss : ∀ rs ∈ rss, rs ≠ [] ∧ ∀ r ∈ rs, r.length < 2^29) (ht : totalSize (rss.map writeAll) < 2^56)
    (hn : n < 2^32) (hw2 : 2 ≤ w) (hw : w < 2^56) (w' dw' : Nat) (hw2' : 2 ≤ w') (hw' : w' < 2^56)
    (k : Nat) (hk : k < n) (pick pick' : Nat → Bool) :
    recordsOf pick (partBlobs Fmt.recordio (rss.map writeAll) k n w dw pick)
      = recordsOf pick' (partBlobs Fmt.recordio (rss.map writeAll) k n w' dw' pick') := by
  rw [C04_part_records_any_mode rss n w dw hne hrss ht hn hw2 hw k hk pick,
    C04_part_records_any_mode rss n w' dw' hne hrss ht hn hw2' hw' k hk pick']

/-- a delivered chunk can be read back: `RecordIOReader` on the image `writeAll run` of a run of whole
records returns exactly `run` (the C01 round trip, restated for chunks) -/
theorem C04_chunk_readable (run : List Bytes) (h : ∀ r ∈ run, r.length < 2^29) :
    RecordIO.readAll (RecordIO.writeAll run) = some run :=
  DmlcModel.Props.C01.C01_roundtrip run h

/-- the state `Init` + `ResetPartition(k, n)` construct satisfies the drain invariant `GInv` with an empty
chunk window, and what it still has to deliver is the byte range between the two boundaries of part `k`,
which is the image of the records that start in it -/
theorem C04_initial_invariant (rss : List (List Bytes)) (n w dw : Nat) (hne : rss ≠ [])
    (hrss : ∀ rs ∈ rss, rs ≠ [] ∧ ∀ r ∈ rs, r.length < 2^29) (ht : totalSize (rss.map writeAll) < 2^56)
    (hn : n < 2^32) (hw2 : 2 ≤ w) (hw : w < 2^56) (k : Nat) (hk : k < n) :
    ∃ s, mkSt Fmt.recordio (rss.map writeAll) k n w false dw = .ok s ∧ s.wrap = none ∧
      GInv s.base [] (recsIn rss.flatten 0 (bndR rss n k) (bndR rss n (k + 1))) ∧
      pending Fmt.recordio s.base
        = rangeStream false (rss.map writeAll) (bndR rss n k) (bndR rss n (k + 1)) ∧
      rangeStream false (rss.map writeAll) (bndR rss n k) (bndR rss n (k + 1))
        = writeAll (recsIn rss.flatten 0 (bndR rss n k) (bndR rss n (k + 1))) := by
  obtain ⟨s, h1, h2, h3, h4⟩ := mkSt_rec_inv rss (rssOk_of rss hrss) hne ht k n w dw hk hn hw2 hw
  have ht62 : totalSize (recFiles rss) < 2^62 := Nat.lt_of_lt_of_le ht (by omega)
  exact ⟨s, h1, h2, h3, h4,
    rangeStream_part_rec rss (rssOk_of rss hrss) ht62 n k (by omega) hn⟩

/-- the boundaries run from `0` to the total size, are monotone, and each is the start of a record image in
the concatenation of the files (or the total size) — `GHead` — hence a multiple of 4 -/
theorem C04_boundaries (rss : List (List Bytes)) (n : Nat)
    (hrss : ∀ rs ∈ rss, rs ≠ [] ∧ ∀ r ∈ rs, r.length < 2^29) (ht : totalSize (rss.map writeAll) < 2^56)
    (hn0 : 0 < n) (hn : n < 2^32) :
    bndR rss n 0 = 0 ∧ bndR rss n n = totalSize (rss.map writeAll) ∧
    (∀ i j, i ≤ j → bndR rss n i ≤ bndR rss n j) ∧ (∀ j, GHead rss (bndR rss n j)) ∧
    (∀ j, bndR rss n j % 4 = 0) :=
  have ht' : totalSize (recFiles rss) < 2^62 := Nat.lt_of_lt_of_le ht (by omega)
  ⟨bndR_zero rss n, bndR_last rss (rssOk_of rss hrss) ht' n hn0 hn,
   fun i j h => bndR_mono rss (rssOk_of rss hrss) ht' n i j hn0 hn h,
   fun j => bndR_ghead rss (rssOk_of rss hrss) ht' n j hn0 hn,
   fun j => bndR_mod4 rss (rssOk_of rss hrss) ht' n j hn0 hn⟩

end DmlcModel.Props.C04
