/-
C04 — RecordIO InputSplit: parts deliver every record exactly once.
Property theorems only; definitions in DmlcModel/Split/{Model,Spec}.lean, lemmas in DmlcModel/Split/*Lemmas.lean.
-/
import DmlcModel.Split.Spec

namespace DmlcModel.Props.C04
open DmlcModel DmlcModel.Split DmlcModel.RecordIO

/-- **C04, full statement** (kept visible; see `CONFIG['partial']`): for every list of record lists `rss` (one
RecordIO file per list, written by `WriteRecord`), every `n ≥ 1`, every buffer of `w ≥ 2` words, the parts
`0..n-1` consumed with `NextRecord` deliver exactly the written records, in order. -/
def C04_parts_cover_statement : Prop :=
  ∀ (rss : List (List Bytes)) (n w dw : Nat),
    rss ≠ [] → (∀ rs ∈ rss, rs ≠ [] ∧ ∀ r ∈ rs, r.length < 2 ^ 29) → totalSize (rss.map writeAll) < 2 ^ 56 →
    0 < n → n < 2 ^ 32 → 2 ≤ w → w < 2 ^ 56 →
    ∃ parts : List (List Bytes),
      (List.range n).map (fun k => partBlobs Fmt.recordio (rss.map writeAll) k n w dw (fun _ => true)) = parts.map .ok ∧
      parts.flatten = rss.flatten

end DmlcModel.Props.C04
