/- witnesses for C10: the two defects of the pinned tree (DESIGN section 6, F4 and F5) refuted on concrete
values (kernel `decide`), and concrete runs of the machines -/
import DmlcModel.Props.C10
namespace DmlcModel.Props.C10
open DmlcModel DmlcModel.Wrap

/-- the expression of the PINNED cached_input_split.h:195, `size / sizeof(size_t) + 1` (the generated
`Gen.Wrap.cacheBufWords` follows the source: with fixes/C10-1.diff it is `size / sizeof(uint32_t) + 1`) -/
def pinnedCacheBufWords (size : Nat) : Nat := u64 (size / 8 + 1)

/-- F4: an 8-byte chunk gets a 2-word buffer: the `'\0'` stored at `end` is outside it ... -/
example : ¬ (4 * pinnedCacheBufWords 8 ≥ 8 + 1) := by decide
/-- ... and a 9-byte chunk is read past the end of its buffer -/
example : 4 * pinnedCacheBufWords 9 < 9 := by decide
example : 4 * pinnedCacheBufWords 55 < 55 := by decide

/-- a one-chunk base pass; the iterator parameters of the wrapper over it -/
def wB : Nat → Nat → List Chunk := fun _ _ => [⟨[97, 10], 2⟩]
def wP : TIter.Params := iterParams wB (fun _ => (0, 1))

/-- F5 (pinned tree: `resetOnCaller = true`): after one transition of the prefetch thread it is inside the
produce callback (`NextBatchEx`); the caller may enter `base_->ResetPartition` at that moment -/
example : ∃ s, wrun true wP {} [.iter .prod, .resetEnter] = some s ∧ producerInBase s = true ∧ s.callerInBase = true :=
  ⟨_, rfl, by decide, by decide⟩
/-- with the repair the same event list is not a run: the caller has no such transition -/
example : wrun false wP {} [.iter .prod, .resetEnter] = none := by decide

/-- the wrapper layer is not vacuous: the prefetch thread fills a cell, publishes it, the caller takes it
(`Next`) and works on it -/
example : ∃ s, wrun false wP {}
    [.iter .prod, .iter .prod, .iter .prod, .iter .prod, .iter (.nStart false), .iter .nLoadSig, .iter .nExc, .iter .nLock,
     .touch 0] = some s ∧ s.touching = some 0 ∧ s.it.lent = [0] :=
  ⟨_, rfl, by decide, by decide⟩

/-- cached machine: first pass over two chunks with `NextChunk`, BeforeFirst, replay delivers the same -/
def cs2 : List Chunk := [⟨[97, 10], 2⟩, ⟨[98, 98, 10], 2⟩]
example :
    (match cOpen none cs2 with
     | .ok s0 =>
       match cNext extractChunk s0 with
       | .ok (r1, s1) =>
         match cBeforeFirst s1 with
         | .ok s2 =>
           match cNext extractChunk s2 with
           | .ok (r2, s3) =>
             match cNext extractChunk s3 with
             | .ok (r3, _) => some (r1, r2, r3, s2.file)
             | _ => none
           | _ => none
         | _ => none
       | _ => none
     | _ => none) =
    some (some [97, 10], some [97, 10], some [98, 98, 10],
          [2, 0, 0, 0, 0, 0, 0, 0, 97, 10, 3, 0, 0, 0, 0, 0, 0, 0, 98, 98, 10]) := by decide

/-- finding C10-F3 (repaired by fixes/C10-3.diff): an object destroyed right after construction, or after one
record, leaves the COMPLETE cache file (the pinned destructor left an empty / truncated one) -/
example : (match cOpen none cs2 with
    | .ok s0 => cClose s0
    | _ => none) = some [2, 0, 0, 0, 0, 0, 0, 0, 97, 10, 3, 0, 0, 0, 0, 0, 0, 0, 98, 98, 10] := by decide

end DmlcModel.Props.C10
