/-
C15 — binary serializer: exact round trip and consumption, fixed little-endian layout independent of
the host, short reads fail.  Property theorems only; the model is DmlcModel/Ser/Model.lean, helper
lemmas are in DmlcModel/Ser/{Lemmas,RoundTrip,Layout}.lean.

Quantification: every type `t` of the universe `Ty` (arithmetic types of 1/2/4/8 bytes, strings, pairs,
vector/list/deque, set/multiset/unordered_set, map/multimap/unordered_map, classes with Save/Load, plain
POD structs; nested arbitrarily) that is well formed (`t.ok`) and compiles in the configuration
(`supported c t`: plain POD structs only without byte swapping), every well-formed value `v`
(`wf t v`: bit patterns in range, fewer than 2^64 elements, associative containers listed in an order
their iteration can produce), every configuration `c = ⟨hostLE, ioLE⟩` (so both values of the swap
flag), every following stream content `rest`.

Finding C15-F1 (fixed by fixes/C15-1.diff): the raw fast path of `Handler<std::pair<TA, TB>>` used to
write the pair object including its padding; it is now taken only for pair objects without padding,
and the layout and cross-host clauses hold for every POD-free type.
-/
import DmlcModel.Ser.Layout

namespace DmlcModel.Props.C15
open DmlcModel DmlcModel.Ser

/-- **round trip and exact consumption**: reading what `Write` produced, whatever follows it in the
stream, returns `true` with an equal value and leaves exactly the following bytes unread.  (For the
unordered containers the model lists a container by its iteration sequence and the re-inserted
container in insertion order; equality of these lists implies equality as multisets, which is what
the harness compares.) -/
theorem C15_roundtrip (c : Cfg) (t : Ty) (hok : t.ok = true) (hs : supported c t = true)
    (v : Val t) (hv : wf t v) (rest : Bytes) :
    decode c t (encode c t v ++ rest) = some (v, rest) :=
  (rt_tr c t hok hs v hv).1 rest

/-- the read consumes exactly the bytes written: nothing is left of a stream holding one value -/
theorem C15_consumes_exactly (c : Cfg) (t : Ty) (hok : t.ok = true) (hs : supported c t = true)
    (v : Val t) (hv : wf t v) : decode c t (encode c t v) = some (v, []) := by
  have := C15_roundtrip c t hok hs v hv []
  simpa using this

/-- **values can be streamed back to back**: any sequence of typed values written into one stream is
read back, in order, as the same sequence, leaving what followed -/
theorem C15_back_to_back (c : Cfg) (vs : List TVal)
    (h : ∀ tv ∈ vs, tv.1.ok = true ∧ supported c tv.1 = true ∧ wf tv.1 tv.2) (rest : Bytes) :
    decodeAll c (vs.map (·.1)) (encodeAll c vs ++ rest) = some (vs, rest) := by
  induction vs with
  | nil => rfl
  | cons tv vs ih =>
    obtain ⟨t, v⟩ := tv
    have ht := h ⟨t, v⟩ (by simp)
    simp only [List.map_cons, encodeAll, decodeAll, List.append_assoc,
      C15_roundtrip c t ht.1 ht.2.1 v ht.2.2]
    rw [ih (fun x hx => h x (by simp [hx]))]

/-- **a stream that ends early makes `Read` return false**: every strict prefix of an encoding -/
theorem C15_truncation (c : Cfg) (t : Ty) (hok : t.ok = true) (hs : supported c t = true)
    (v : Val t) (hv : wf t v) (p : Bytes) (hp : p <+: encode c t v) (hne : p ≠ encode c t v) :
    decode c t p = none := by
  have e : p = (encode c t v).take p.length := List.prefix_iff_eq_take.mp hp
  have hl : p.length < (encode c t v).length := by
    rcases Nat.lt_or_ge p.length (encode c t v).length with h | h
    · exact h
    · exact absurd (by rw [e, List.take_of_length_le h]) hne
  rw [e]
  exact (rt_tr c t hok hs v hv).2 p.length hl

/-- truncation inside a sequence of values: the read of the value that is cut fails, all earlier
ones having succeeded -/
theorem C15_truncation_at (c : Cfg) (t : Ty) (hok : t.ok = true) (hs : supported c t = true)
    (v : Val t) (hv : wf t v) (k : Nat) (hk : k < (encode c t v).length) :
    decode c t ((encode c t v).take k) = none :=
  (rt_tr c t hok hs v hv).2 k hk

/-- **fixed layout**: the bytes written are the documented layout — scalars and 64-bit counts in the
stream's byte order, elements in iteration order, pair members adjacent — a function of `ioLE` and
the value only, not of the host's byte order (plain POD structs excluded, as in the property) -/
theorem C15_layout (c : Cfg) (t : Ty) (hok : t.ok = true) (hpf : t.podFree = true)
    (v : Val t) (hv : wf t v) : encode c t v = layout c.ioLE t v :=
  encode_eq_layout c t hok hpf (rawTight_all c t) v hv

/-- the bytes do not depend on the host's byte order -/
theorem C15_layout_host_independent (h₁ h₂ io : Bool) (t : Ty) (hok : t.ok = true)
    (hpf : t.podFree = true) (v : Val t) (hv : wf t v) :
    encode ⟨h₁, io⟩ t v = encode ⟨h₂, io⟩ t v := by
  rw [C15_layout ⟨h₁, io⟩ t hok hpf v hv, C15_layout ⟨h₂, io⟩ t hok hpf v hv]

/-- **data written on one host type is readable on the other**: a host of the opposite byte order,
configured for the same stream byte order, reads the equal value and consumes everything -/
theorem C15_cross_host (h io : Bool) (t : Ty) (hok : t.ok = true) (hpf : t.podFree = true)
    (v : Val t) (hv : wf t v) :
    decode ⟨!h, io⟩ t (encode ⟨h, io⟩ t v) = some (v, []) := by
  rw [C15_layout_host_independent h (!h) io t hok hpf v hv]
  exact C15_consumes_exactly ⟨!h, io⟩ t hok (by simp [supported, hpf]) v hv

end DmlcModel.Props.C15
