/-
C11, end to end: the text pipeline  files → InputSplit parts → chunks → FillData's thread slices → ParseBlock
returns exactly the rows of the non-empty lines of the files, each parsed on its own — for every number of
parts, every buffer size and every number of parser threads.

Composition of C03 (agent-Split: `C03_parts_cover`, `C03_no_error`, the chunk facts of `nextChunk_text`) with
the C11 theorems (`C11_fillData_rows`, hence `C11_block_is_concat_of_lines_*` and the cut theorems).
Bridging lemmas: DmlcModel/Parse/SplitBridge.lean (C03's canonical lines = non-empty `eolSplit` lines; the chunks of
a part are non-empty, NUL-free and end with an end-of-line byte), DmlcModel/Parse/ChunkBound.lean (no chunk of a
part is longer than `2 * totalSize files + 1` bytes).
-/
import DmlcModel.Props.C03
import DmlcModel.Props.C11
import DmlcModel.Parse.SplitBridge
import DmlcModel.Parse.ChunkBound

namespace DmlcModel.Props.C11
open DmlcModel DmlcModel.Parse

/-- the rows FillData + ParserImpl::Next emit for one chunk `b` lying in memory in front of the bytes `tr` -/
def chunkRows (f : Format) (conv : Conv) (nt : Nat) (b tr : Bytes) : Res (List Row) :=
  ((fillData (f.parseBlock Fixes.current conv) (b ++ tr) b.length nt).bind blocksOf).map List.flatten

/-- the rows of part `k` of `n`: every chunk the part's InputSplit delivers (`NextChunk` until the end, buffer of
`w` words, `kBufferSize = dw`) through FillData with `nt` threads; `trail b` = what lies behind chunk `b` in the
chunk buffer (anything, at least one byte: the buffer ends in a zero word) -/
def partRows (f : Format) (conv : Conv) (nt : Nat) (trail : Bytes → Bytes) (files : List Bytes) (n w dw k : Nat) :
    Res (List Row) :=
  match Split.partBlobs Split.Fmt.text files k n w dw (fun _ => false) with
  | .error _ => .error .check
  | .ok bs => (bs.mapM fun b => chunkRows f conv nt b (trail b)).map List.flatten

/-- all parts, concatenated -/
def pipelineRows (f : Format) (conv : Conv) (nt : Nat) (trail : Bytes → Bytes) (files : List Bytes) (n w dw : Nat) :
    Res (List Row) :=
  ((List.range n).mapM (partRows f conv nt trail files n w dw)).map List.flatten

theorem rows_nil (f : Format) (conv : Conv) (hL : conv.Local) : rows f conv [] = .ok [] := by
  cases f with
  | libsvm iw mode =>
    exact (C11_blank_and_comment_lines_libsvm iw mode conv hL [] [] (by intro b hb; simp at hb) (by simp) (by simp)
      (by simp)).1
  | libfm iw mode => exact C11_blank_lines_libfm iw mode conv hL [] (by intro b hb; simp at hb) (by simp)
  | csv prm => exact (C11_blank_lines_csv prm conv hL).1

/-- one chunk: its rows are the rows of its non-empty lines, whatever lies behind it and however many threads -/
theorem chunk_rows (f : Format) (conv : Conv) (hL : conv.Local) (nt : Nat) (h1 : 1 ≤ nt) (hn : nt < 4294967296)
    (b tr : Bytes) (hb : b ≠ []) (he : Split.EndsEol b) (hnf : Split.NulFree b) (htr : tr ≠ [])
    (hsz : b.length + nt < 9223372036854775808) (rb : List (List Row))
    (hl : (Split.lines b).mapM (rows f conv) = .ok rb) (ha : AgreeRows rb.flatten) :
    chunkRows f conv nt b tr = .ok rb.flatten := by
  rw [split_lines_eq] at hl
  obtain ⟨r', hl', hfl⟩ := mapM_unfilter (rows f conv) (rows_nil f conv hL) (eolSplit b) rb hl
  have hT : TermOr (b ++ tr) b.length b := by
    refine Or.inr (Or.inr ?_)
    rcases he with he | ⟨a, e, rfl, hee⟩
    · exact absurd he hb
    · exact ⟨e, by simp, by rw [← split_isEol_eq]; exact hee⟩
  have hg : GoodText f b := by
    cases f with
    | csv prm => exact hnf
    | libsvm _ _ => trivial
    | libfm _ _ => trivial
  have hlen : 0 < b.length := by cases b with | nil => exact absurd rfl hb | cons _ _ => simp
  have htl : 0 < tr.length := by cases tr with | nil => exact absurd rfl htr | cons _ _ => simp
  have := (C11_fillData_rows f conv hL (b ++ tr) b.length nt b (At.whole b tr) hT hlen h1 hn hsz
    (by simp; omega) hg r' hl' (by rw [hfl]; exact ha)).1
  unfold chunkRows
  rw [this, hfl]

/-- **C11 for the whole text pipeline.**  For every non-empty list of non-empty NUL-free files (less than 2^55
bytes in all), every `num_parts` `1 ≤ n < 2^32`, every buffer size `w < 2^56` words (and `kBufferSize` `dw`), every
thread count `1 ≤ nt < 2^32`, every parser `f` (libsvm / libfm / csv, any parameters, `indexing_mode ≥ 0`) and every
local conversion: if no single line makes the parser throw (`hl`: every non-empty line of the files parses on its
own) and the rows agree on their optional parts (`ha`), then the parts `0 … n-1`, each read chunk by chunk through
FillData's `nt` thread slices, deliver exactly the rows of the lines, in order:
`pipelineRows = ((files.flatMap lines).flatMap parseLine)`.
The size condition of `C11_fillData_rows` (chunk length + nt < 2^63) is discharged here: every chunk is at most
`2 * totalSize files + 1 < 2^56 + 1` bytes long (`part_chunks_length`). -/
theorem C11_pipeline (f : Format) (conv : Conv) (hL : conv.Local) (files : List Bytes) (n w dw nt : Nat)
    (trail : Bytes → Bytes) (htrail : ∀ b, trail b ≠ [])
    (hfiles : files ≠ []) (hne : ∀ fl ∈ files, fl ≠ [] ∧ Split.NulFree fl) (ht : Split.totalSize files < 2^55)
    (hn0 : 0 < n) (hn : n < 2^32) (hw : w < 2^56) (h1 : 1 ≤ nt) (hnt : nt < 4294967296)
    (rss : List (List Row)) (hl : (files.flatMap Split.lines).mapM (rows f conv) = .ok rss)
    (ha : AgreeRows rss.flatten) :
    pipelineRows f conv nt trail files n w dw = .ok rss.flatten := by
  -- the lines of the files are the lines of the chunks of the parts, in order (C03)
  have hcover := (C03.C03_parts_cover files n w dw hfiles hne ht hn0 hn hw (fun _ _ => false)).2
  let bsOf : Nat → List Bytes := fun k =>
    match Split.partBlobs Split.Fmt.text files k n w dw (fun _ => false) with
    | .ok bs => bs
    | .error _ => []
  have hpart : ∀ k, k < n → ∃ bs, Split.partBlobs Split.Fmt.text files k n w dw (fun _ => false) = .ok bs ∧ bsOf k = bs ∧
      Split.linesOf (Split.partBlobs Split.Fmt.text files k n w dw (fun _ => false)) = bs.flatMap Split.lines ∧
      (∀ b ∈ bs, b ≠ [] ∧ Split.EndsEol b ∧ Split.NulFree b) ∧
      ∀ b ∈ bs, b.length + nt < 9223372036854775808 := by
    intro k hk
    obtain ⟨bs, hbs⟩ := C03.C03_no_error files n w dw hfiles hne ht hn hw k hk (fun _ => false)
    have hfacts := part_chunks_facts files k n w dw hfiles hne ht hk hn hw bs hbs
    have hlen := part_chunks_length files k n w dw hfiles hne ht hk hn hw bs hbs
    refine ⟨bs, hbs, by simp only [bsOf, hbs], ?_, hfacts, fun b hb => by have := hlen b hb; omega⟩
    rw [hbs]
    simp only [Split.linesOf]
    exact Split.CoverAux.flatMap_congr_mem _ _ _ (fun b hb => Split.canon_eq_lines b (hfacts b hb).2.2)
  have hlines : files.flatMap Split.lines = (List.range n).flatMap (fun k => (bsOf k).flatMap Split.lines) := by
    rw [← hcover]
    apply Split.CoverAux.flatMap_congr_mem
    intro k hk
    obtain ⟨bs, _, h2, h3, _, _⟩ := hpart k (List.mem_range.mp hk)
    rw [h3, h2]
  rw [hlines] at hl
  unfold pipelineRows
  apply regroup (rows f conv) (fun k => (bsOf k).flatMap Split.lines) _ (List.range n) _ rss hl ha
  intro k hk rb hrb harb
  obtain ⟨bs, hbs, h2, _, hfacts, hsz⟩ := hpart k (List.mem_range.mp hk)
  unfold partRows
  rw [hbs]
  simp only
  rw [h2] at hrb
  apply regroup (rows f conv) Split.lines _ bs _ rb hrb harb
  intro b hb rbb hrbb harbb
  exact chunk_rows f conv hL nt h1 hnt b (trail b) (hfacts b hb).1 (hfacts b hb).2.1 (hfacts b hb).2.2 (htrail b)
    (hsz b hb) rbb hrbb harbb

end DmlcModel.Props.C11
