/-
C19 — (a) refutation witnesses for the arithmetic of the *pinned* commit (the bounds tests
`CHECK(curr_ptr_ + size <= buffer_size_)` of MemoryFixedSizeStream::Read/Write and the missing
overflow test of MemoryStringStream::Write), run through the same control-flow model;
(b) non-vacuity: concrete histories that meet the hypotheses of the C19 theorems and exercise the
interesting branches, evaluated on the model generated from the source tree under check.
-/
import DmlcModel.Props.C19
namespace DmlcModel.Props.C19
open DmlcModel DmlcModel.Streams

/-- the bounds tests as written in the pinned commit (include/dmlc/memory_io.h:34,46,93), everything
else as generated -/
def Arith.pinned : Arith :=
  { Arith.gen with
    fxReadOk := fun cur size bs => decide (u64 (cur + size) ≤ bs)
    fxWriteOk := fun cur size bs => decide (u64 (cur + size) ≤ bs)
    msWriteOk := fun _ _ _ => true }

/-- F11a: MemoryFixedSizeStream, `Seek(2^64-2); Write(4 bytes)`: `curr_ptr_ + size` wraps to 2, the
CHECK passes and the memcpy starts two bytes in front of the buffer -/
theorem C19_pinned_fixed_write_oob :
    (run (MemFixed.step Arith.pinned) { buf := [0, 0, 0, 0], cur := 0 } [.seek 18446744073709551614, .write [1, 2, 3, 4]]).1
      = [.unit, .ub] := by decide +kernel

/-- F11a: the same for `Read` -/
theorem C19_pinned_fixed_read_oob :
    (run (MemFixed.step Arith.pinned) { buf := [0, 0, 0, 0], cur := 0 } [.seek 18446744073709551614, .read 4]).1
      = [.unit, .ub] := by decide +kernel

/-- F11b: MemoryFixedSizeStream::Read at offset 2 of 4 bytes asking for 5: the pinned CHECK raises where
a byte array returns the 2 bytes that are there -/
theorem C19_pinned_fixed_read_raises :
    (run (MemFixed.step Arith.pinned) { buf := [1, 2, 3, 4], cur := 0 } [.seek 2, .read 5]).1 = [.unit, .err .check] ∧
    (run (Arr.step (Flavor.fixed 4)) { data := [1, 2, 3, 4], cur := 0 } [.seek 2, .read 5]).1 = [.unit, .bytes 2 [3, 4]] := by
  decide

/-- F11c: MemoryStringStream, `Seek(2^64-2); Write(4 bytes)`: no resize (the sum wraps to 2 <= 4) and
the memcpy starts two bytes in front of the string's buffer -/
theorem C19_pinned_string_write_oob :
    (run (MemStr.step Arith.pinned) { buf := [1, 2, 3, 4], cur := 0 } [.seek 18446744073709551614, .write [9, 9, 9, 9]]).1
      = [.unit, .ub] := by decide +kernel

/-! the same histories on the source tree under check (repaired): an exception, nothing touched -/

example : run (MemFixed.step Arith.gen) { buf := [0, 0, 0, 0], cur := 0 } [.seek 18446744073709551614, .write [1, 2, 3, 4]]
    = ([.unit, .err .check], { buf := [0, 0, 0, 0], cur := 18446744073709551614 }) := by decide +kernel
example : (run (MemFixed.step Arith.gen) { buf := [0, 0, 0, 0], cur := 0 } [.seek 18446744073709551614, .read 4]).1
    = [.unit, .err .check] := by decide +kernel
example : (run (MemFixed.step Arith.gen) { buf := [1, 2, 3, 4], cur := 0 } [.seek 2, .read 5, .tell]).1
    = [.unit, .bytes 2 [3, 4], .pos 4] := by decide +kernel
example : run (MemStr.step Arith.gen) { buf := [1, 2, 3, 4], cur := 0 } [.seek 18446744073709551614, .write [9, 9, 9, 9]]
    = ([.unit, .err .check], { buf := [1, 2, 3, 4], cur := 18446744073709551614 }) := by decide +kernel

/-! non-vacuity of the refinement theorems: histories with 64-bit arguments, growth, overwrite, hole -/

instance (op : Op) : Decidable op.fits64 := by
  cases op <;> unfold Op.fits64 <;> infer_instance

example : ∀ op ∈ [Op.write [1, 2, 3], .seek 5, .write [7], .seek 1, .read 9, .tell, .seek 9223372036854775808, .read 1],
    op.fits64 := by decide +kernel
example : (run (MemStr.step Arith.gen) { buf := [], cur := 0 }
      [.write [1, 2, 3], .seek 5, .write [7], .seek 1, .read 9, .tell, .seek 9223372036854775808, .read 1, .write [1]]) =
    ([.count 3, .unit, .count 1, .unit, .bytes 5 [2, 3, 0, 0, 7], .pos 6, .unit, .err .check, .err .range],
     { buf := [1, 2, 3, 0, 0, 7], cur := 9223372036854775808 }) := by decide +kernel
example : (run File.step { data := [65, 66], pos := 0 }
      [.seek 4, .write [7], .seek 9223372036854775808, .seek 1, .read 9, .read 1, .tell]).1 =
    [.unit, .count 0, .err .check, .unit, .bytes 4 [66, 0, 0, 7], .bytes 0 [], .pos 5] := by decide +kernel
example : (run (MemFixed.step Arith.gen) { buf := [0, 0, 0], cur := 0 }
      [.write [1, 2], .write [3, 4], .write [3], .read 1, .seek 4, .read 1, .seek 1, .read 18446744073709551615]) =
    ([.count 2, .err .check, .count 1, .bytes 0 [], .unit, .err .check, .unit, .bytes 2 [2, 3]],
     { buf := [1, 2, 3], cur := 3 }) := by decide +kernel

/-! non-vacuity of the adaptor theorems: buffer sizes 0, 1 and 3, chunkings that straddle the buffer -/

example : (orun { ob := OBuf.create 3, sink := { data := [], cur := 0 } }
      [.put 1, .put 2, .put 3, .write [4, 5, 6, 7, 8], .flush]).map (fun r => (r.2, r.1.ob.count, r.1.sink.data)) =
    some ([[1, 2, 3], [4, 5, 6], [7, 8]], 8, [1, 2, 3, 4, 5, 6, 7, 8]) := by decide +kernel
example : (orun { ob := OBuf.create 0, sink := { data := [], cur := 0 } }
      [.write [1, 2, 3], .put 255, .destroy]).map (fun r => (r.2, r.1.ob.count)) =
    some ([[1, 2], [3, 255], []], 4) := by decide +kernel
example : (orun { ob := OBuf.create 1, sink := { data := [], cur := 0 } }
      [.write [1, 2], .ovEof, .put 3]).map (fun r => (r.2, r.1.ob.count)) = some ([[1], [2], [], [3]], 3) := by decide +kernel
example : (irun { ib := IBuf.create 0, src := { data := [1, 2, 3, 4, 5], cur := 0 } }
      [.get, .peek, .read 3, .read 3, .get]).map (fun r => (r.2, r.1.ib.count)) =
    some ([.char (some 1), .char (some 2), .block [2, 3, 4], .block [5], .char none], 5) := by decide +kernel
example : (ispecRun [1, 2, 3, 4, 5] [.get, .peek, .read 3, .read 3, .get]).1 =
    [.char (some 1), .char (some 2), .block [2, 3, 4], .block [5], .char none] := by decide +kernel

/-! set_stream: read stream 0 to EOF (eofbit|failbit set), attach stream 1: extraction resumes on its bytes;
attach stream 0 again after it was repositioned while detached -/

example : okHistory 3 0 [.read 5000, .get, .setStream 1, .get, .useek 0 1, .setStream 0, .raw (.read 9), .get, .clear, .get] := by
  simp [okHistory, IOp.isSeek]
example : (frun { st := { ib := IBuf.create 2, src := { data := [97, 98, 99], cur := 0 } }, idx := 0,
                  parked := [{ data := [97, 98, 99], cur := 0 }, { data := [88, 89, 90], cur := 0 }, { data := [81], cur := 0 }],
                  eofbit := false, failbit := false }
      [.read 5000, .get, .setStream 1, .get, .useek 0 1, .setStream 0, .raw (.read 9), .get]).map
        (fun r => (r.2.1, r.2.2, r.1.eofbit, r.1.failbit, r.1.st.ib.count)) =
    some ([.block [97, 98, 99], .char none, .unit, .char (some 88), .unit, .unit, .block [98, 99], .char none],
          [[88, 89, 90], [98, 99]], true, true, 7) := by decide +kernel
example : (orun { ob := OBuf.create 3, sink := { data := [], cur := 0 }, idx := 0,
                  parked := [{ data := [], cur := 0 }, { data := [], cur := 0 }] }
      [.put 1, .setStream 1, .write [2, 3, 4, 5, 6], .setStream 0, .put 7, .destroy]).map
        (fun r => (r.2, r.1.ob.count, r.1.sink.data, r.1.parked.map (·.data))) =
    some ([[1], [2, 3, 4], [5, 6], [7]], 7, [1, 7], [[1], [2, 3, 4, 5, 6]]) := by decide +kernel

end DmlcModel.Props.C19
