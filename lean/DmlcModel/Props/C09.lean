/-
C09 — ThreadedIter: producer failures surface, nothing hangs, Destroy always returns.
Property theorems only, over every reachable state of the transition system of DmlcModel/TIter/Model.lean
with ARBITRARY scripts: any produce call of any pass and any rewind call may throw (`SrcRes.throw`,
`RewRes.throw`; dmlc::Error and std::exception take the same path through `catch (std::exception&)`).
`C09_no_hang` is about the code with fixes/C09-1.diff (`C09_fix_present`); for the pinned code it is false:
see C09Witness.lean.
-/
import DmlcModel.TIter.Progress

namespace DmlcModel.Props.C09
open DmlcModel DmlcModel.TIter DmlcModel.Gen.TIter

variable {P : Params} {s s' t : State} {e : Event}

/-- the source the model was generated from contains the repair: BeforeFirst looks at the recorded exception
again once it holds `mutex_` (Gen item `bfRecheck`, extracted by tools/items/TIter.py on every run) -/
theorem C09_fix_present : bfRecheck = true := rfl

/-- the second repair (fixes/C09-2.diff) is present: the producer's catch block no longer asserts
`producer_sig_ != kDestroy`.  In builds where DCHECK is live (DMLC_LOG_DEBUG == 0) the pinned code throws that
assertion out of the thread function -- std::terminate -- when a failure races with Destroy (finding C09-F2;
the harness runs those schedules on a DCHECK-live instantiation of the header).  Without the statement the
catch block performs exactly the transitions `catchRec`, `catchLock`, `notifyExit` of the model in every build. -/
theorem C09_fix2_present : catchDcheck = false := rfl

/-- what the consumers have received is an in-order prefix of what was produced (successfully) in this pass;
the failing call itself contributes nothing -/
theorem C09_prefix (h : Reachable P s) :
    s.produced = s.delivered ++ (qitems s ++ optList s.pitem) ∧
    s.delivered.map (·.idx) = List.range s.delivered.length ∧ s.delivered.length ≤ s.pidx := by
  have hi := (inv_reachable h).c1
  have ho := hi.order
  have h2 : s.delivered.map (·.idx) ++ (qitems s ++ optList s.pitem).map (·.idx) = List.range s.pidx := by
    rw [← hi.idx, ← ho]; simp
  refine ⟨by rw [← ho]; simp, by simpa using range_prefix h2, ?_⟩
  have := congrArg List.length h2
  simp at this; omega

/-- the transition in which the producer fails: it is the producer's, the failing call is position `pidx` of the
current pass (or the rewind), and it adds nothing to `produced` / `delivered` -/
theorem C09_fail_index (hs : step P s e = some s') (h0 : s.thrown = false) (h1 : s'.thrown = true) :
    e = .prod ∧ s'.produced = s.produced ∧ s'.delivered = s.delivered ∧ s'.pidx = s.pidx ∧
      (P.src s.pass s.pidx = .throw ∨ P.rew s.pass = .throw) := by
  unfold step at hs
  cases e <;> open_step <;> grind

/-- after the failure the producer never runs a callback again: nothing is produced any more, so no item at or
after the failing position can ever be delivered -/
theorem C09_nothing_after (h : Reachable P s) (ht : s.thrown = true) (hs : step P s e = some s') :
    s'.thrown = true ∧ s'.pidx ≤ s.pidx ∧ (s'.produced = s.produced ∨ s'.produced = []) := by
  have ha := (inv_reachable h).a.thrown ht
  unfold step at hs
  cases e <;> open_step <;> grind

theorem C09_nothing_after_steps (h : Reachable P s) (ht : s.thrown = true) (hst : Steps P s t) :
    t.thrown = true ∧ t.pidx ≤ s.pidx ∧ ∀ it, it ∈ t.delivered → it.idx < s.pidx := by
  have key : t.thrown = true ∧ t.pidx ≤ s.pidx := by
    induction hst with
    | refl => exact ⟨ht, Nat.le_refl _⟩
    | tail e hst' hs ih =>
      have hr := steps_reachable h hst'
      have := C09_nothing_after hr ih.1 hs
      exact ⟨this.1, Nat.le_trans this.2.1 ih.2⟩
  refine ⟨key.1, key.2, ?_⟩
  intro it hit
  have hp := C09_prefix (steps_reachable h hst)
  have hm : it.idx ∈ t.delivered.map (·.idx) := List.mem_map.mpr ⟨it, hit, rfl⟩
  rw [hp.2.1] at hm
  have := List.mem_range.mp hm
  omega

/-- once the producer has failed no `Next` reports a normal end of the stream -/
theorem C09_error_not_end (h : Reachable P s) (ht : s.thrown = true) (hs : step P s e = some s') :
    s'.ret ≠ .nextEnd := by
  have h6 := (inv_reachable h).c2.n6
  unfold step at hs
  cases e <;> open_step <;> grind

/-- once the exception is recorded every call that returns, returns the error: no item, no end, and the only
normal returns are those of `Destroy` and of calls made after it; the flag is never cleared -/
theorem C09_error_sticky (h : Reachable P s) (hx : s.exc = true) (hs : step P s e = some s') :
    s'.exc = true ∧ s'.ret ≠ .nextItem ∧ s'.ret ≠ .nextEnd ∧ (s'.ret = .ok → s'.sig = kDestroy) := by
  have hi := (inv_reachable h).a
  obtain ⟨a1, a2, a3, a4, a5, a6, a7, a8, a9, a10, a11, a12, a13, a14, a15, a16, a17, a18, a19, a20, a21, a22, a23, a24, a25, a26, a27, a28, a29, a30, a31⟩ := hi
  simp only [kProduce, kBeforeFirst, kDestroy] at *
  unfold step at hs
  cases e <;> open_step <;> grind

/-- the failure is recorded before the end flag is raised: a consumer that sees `produce_end_` after a failure
also sees the exception (this is what turns the wake-up into an error instead of `false`) -/
theorem C09_recorded_before_end (h : Reachable P s) (ht : s.thrown = true) :
    s.exc = true ∨ (s.ploc = .catchRec ∧ (s.produceEnd = false ∨ s.sig = kBeforeFirst)) :=
  (inv_reachable h).c2.thr ht

/-- nothing hangs (any scripts, repaired code): whenever a thread is inside a call -- Next, Recycle, BeforeFirst,
Destroy's join -- some transition other than a spurious wake-up or a new call is enabled -/
theorem C09_no_hang (hcap : 1 ≤ P.cap) (h : Reachable P s) (hc : inCall s) :
    ∃ e : Event, e.isProgress = true ∧ (step P s e).isSome = true := by
  have hf := C09_fix_present
  unfold Reachable at h
  unfold step
  rw [hf] at h ⊢
  exact deadlock_free_of_inv hcap (inv_reachable h).a (inv_reachable h).b (invD_reachable h) hc

/-- Destroy may be started whenever no other call is in progress: idle, mid-prefetch, with cells lent or in
`out_data_`, after an error, a second time -/
theorem C09_destroy_enabled (hi : s.xloc = .idle) (hb : busy s = 0) (ho : s.outCall = false) :
    (step P s .dStart).isSome = true := by
  have hb' : busy { s with ret := Ret.none } = 0 := hb
  simp only [step, stepR, hi, ho]
  split
  · split <;> rfl
  · next hne => exact absurd ⟨trivial, trivial, hb'⟩ hne

/-- Destroy's join returns only when the producer thread has exited, and leaves no cell behind -/
theorem C09_destroy_clean (hs : step P s .xStep = some s') (hx : s.xloc = .dJoin) :
    s.ploc = .exited ∧ s'.joined = true ∧ s'.queue = [] ∧ s'.free = [] ∧ s'.outData = none ∧ s'.ret = .ok ∧
      s'.xloc = .idle := by
  unfold step at hs
  simp only [stepR, xStep, hx] at hs
  split at hs
  · injection hs with hs; subst hs; simp_all [cleanup]
  · cases hs

/-- every cell is freed at most once, and never while a consumer holds it -/
theorem C09_freed_once (h : Reachable P s) {c : Nat} (hc : c ∈ s.freed) :
    s.freed.count c = 1 ∧ c ∉ s.lent ∧ c ∉ s.recycling ∧ c ∉ qcells s ∧ c ∉ s.free := by
  have hcnt := (inv_reachable h).cells c
  have hpos := count_pos_of_mem hc
  simp only [cells, List.count_append] at hcnt
  have hle : (if c < s.allocated then 1 else 0) ≤ 1 := by split <;> omega
  refine ⟨by omega, ?_, ?_, ?_, ?_⟩ <;> (intro hm; have := count_pos_of_mem hm; omega)

/-- the join itself cannot block for ever: once Destroy has posted its command the producer is never in the
wait set with a false predicate (instance of `C09_no_hang` at `xloc = dJoin`) -/
theorem C09_destroy_no_hang (hcap : 1 ≤ P.cap) (h : Reachable P s) (hx : s.xloc = .dJoin) :
    ∃ e : Event, e.isProgress = true ∧ (step P s e).isSome = true :=
  C09_no_hang hcap h (Or.inr (by simp [hx]))

/-- statement of termination -/
def C09_termination_statement (P : Params) : Prop :=
  1 ≤ P.cap → ∀ s, Reachable P s → inCall s →
    ¬ ∃ f : Nat → State, f 0 = s ∧ ∀ n, ∃ e : Event, e.isProgress = true ∧ step P (f n) e = some (f (n + 1))

/-- no infinite execution of the calls in progress, whatever the scripts throw -/
theorem C09_termination (P : Params) : C09_termination_statement P :=
  fun _ _ hr _ => no_infinite_progress hr

/-- nothing hangs, everything returns (any scripts, repaired code): from any reachable state every execution of
the calls in progress is finite (`C09_termination`) and can only stop when every started call -- Next, Recycle,
BeforeFirst, Destroy with its join -- has returned; such an execution exists.  In particular Destroy returns. -/
theorem C09_all_calls_return (hcap : 1 ≤ P.cap) (h : Reachable P s) :
    (∀ t, ProgSteps P s t → (∀ e : Event, e.isProgress = true → step P t e = none) → busy t = 0 ∧ t.xloc = .idle) ∧
    (∃ t, ProgSteps P s t ∧ busy t = 0 ∧ t.xloc = .idle) := by
  have key : ∀ t, Reachable P t → (∀ e : Event, e.isProgress = true → step P t e = none) →
      busy t = 0 ∧ t.xloc = .idle := by
    intro t ht hq
    have hnc : ¬ inCall t := by
      intro hc
      obtain ⟨e, hp, hs⟩ := C09_no_hang hcap ht hc
      rw [hq e hp] at hs
      cases hs
    unfold inCall at hnc
    constructor
    · omega
    · cases hx : t.xloc <;> simp_all
  constructor
  · intro t ht hq; exact key t (progSteps_reachable h ht) hq
  · obtain ⟨t, ht, hq⟩ := exists_maximal h
    exact ⟨t, ht, key t (progSteps_reachable h ht) hq⟩

end DmlcModel.Props.C09
