/-
C07 — ThreadedIter: ordered exactly-once delivery, exclusive cells, bounded buffer, no deadlock.
Property theorems only, all over `Reachable P s`: every state the transition system of
DmlcModel/TIter/Model.lean reaches under ANY schedule, with ANY number of consumer threads calling
Next/Recycle concurrently, any client behaviour the documented contract allows, spurious wake-ups included,
for an arbitrary source script `P.src`, rewind script `P.rew` and capacity `P.cap`.
The invariant and its preservation proofs live in DmlcModel/TIter/Inv*.lean.
-/
import DmlcModel.TIter.Progress

namespace DmlcModel.Props.C07
open DmlcModel DmlcModel.TIter DmlcModel.Gen.TIter

variable {P : Params} {s s' : State} {e : Event}

/-- delivered items, then the queued ones, then the one the producer is about to publish, are exactly
the items produced in this pass, in production order: nothing lost, nothing duplicated, nothing reordered -/
theorem C07_order (h : Reachable P s) : s.delivered ++ qitems s ++ optList s.pitem = s.produced :=
  (inv_reachable h).c1.order

/-- the i-th produced item is what the source script yields at position i of the current pass -/
theorem C07_produced (h : Reachable P s) :
    s.produced = prodList P.src s.pass s.pidx ∧ ∀ i, i < s.pidx → ∃ v, P.src s.pass i = .item v := by
  have hi := (inv_reachable h).c1
  refine ⟨eq_prodList P.src s.pass s.pidx s.produced hi.idx hi.src, ?_⟩
  intro i hlt
  have hmem : i ∈ s.produced.map (·.idx) := by rw [hi.idx]; simpa using hlt
  obtain ⟨it, hit, rfl⟩ := List.mem_map.mp hmem
  exact ⟨it.val, (hi.src it hit).2⟩

/-- exactly once, in order: the k-th delivered item is production position k of the current pass -/
theorem C07_exactly_once (h : Reachable P s) :
    s.delivered.map (·.idx) = List.range s.delivered.length ∧
    ∀ it, it ∈ s.delivered → it.pass = s.pass ∧ P.src s.pass it.idx = .item it.val := by
  have hi := (inv_reachable h).c1
  have ho := hi.order
  constructor
  · have h2 : s.delivered.map (·.idx) ++ (qitems s ++ optList s.pitem).map (·.idx) = List.range s.pidx := by
      rw [← hi.idx, ← ho]; simp
    simpa using range_prefix h2
  · intro it hit
    exact hi.src it (by rw [← ho]; simp [hit])

/-- `Next` returns false (after waiting) only when the producer has reported the end of the pass and every
produced item has been delivered -- unless the producer failed, which is C09's subject -/
theorem C07_end_sound (h : Reachable P s) (hs : step P s e = some s') (hr : s'.ret = .nextEnd)
    (ht : s.thrown = false) :
    s.srcEnded = true ∧ s.delivered = s.produced ∧ s.queue = [] ∧ s.pitem = none := by
  have hi := inv_reachable h
  have h6 : 0 < s.n6 := by
    unfold step at hs
    cases e <;> open_step <;> simp_all [endCall] <;> grind
  rcases hi.c2.n6 h6 with ⟨h1, _⟩ | ⟨_, h2, h3, h4⟩
  · simp [ht] at h1
  · refine ⟨h2, ?_, h3, h4⟩
    have ho := hi.c1.order
    simpa [qitems, h3, h4, optList] using ho

/-- the only other way `Next` returns false is after `Destroy` -/
theorem C07_false_after_destroy (hs : step P s e = some s') (hr : s'.ret = .nextDestroyed) : s.sig = kDestroy := by
  unfold step at hs
  cases e <;> open_step <;> simp_all [endCall] <;> grind

/-- every cell ever allocated is in exactly one place: the queue, the free list, the producer's hands,
a consumer's hands (lent / being recycled / `out_data_`), lost with a failed callback, or freed by Destroy -/
theorem C07_cells (h : Reachable P s) : ∀ c, (cells s).count c = if c < s.allocated then 1 else 0 :=
  (inv_reachable h).cells

/-- the produce callback is never handed a cell that a consumer still holds (nor a queued / free one) -/
theorem C07_producer_cell_exclusive (h : Reachable P s) {c : Nat} (hc : s.pcell = some c) :
    c ∉ s.lent ∧ c ∉ s.recycling ∧ (∀ x, s.outData = some x → x.1 ≠ c) ∧ c ∉ qcells s ∧ c ∉ s.free := by
  have hcnt := C07_cells h c
  simp only [cells, hc, optList, List.count_append, List.count_cons, List.count_nil, beq_self_eq_true, ite_true] at hcnt
  have hle : (if c < s.allocated then 1 else 0) ≤ 1 := by split <;> omega
  refine ⟨?_, ?_, ?_, ?_, ?_⟩
  · intro hm; have := count_pos_of_mem hm; omega
  · intro hm; have := count_pos_of_mem hm; omega
  · intro x hx hxc
    simp [hx, optList, hxc] at hcnt
    omega
  · intro hm; have := count_pos_of_mem hm; omega
  · intro hm; have := count_pos_of_mem hm; omega

/-- two consumers never hold the same cell, and a held cell is neither queued nor free -/
theorem C07_lent_exclusive (h : Reachable P s) {c : Nat} (hc : c ∈ s.lent) :
    s.lent.count c = 1 ∧ c ∉ s.recycling ∧ c ∉ qcells s ∧ c ∉ s.free ∧ s.pcell ≠ some c := by
  have hcnt := C07_cells h c
  have hpos := count_pos_of_mem hc
  simp only [cells, List.count_append] at hcnt
  have hle : (if c < s.allocated then 1 else 0) ≤ 1 := by split <;> omega
  refine ⟨by omega, ?_, ?_, ?_, ?_⟩
  · intro hm; have := count_pos_of_mem hm; omega
  · intro hm; have := count_pos_of_mem hm; omega
  · intro hm; have := count_pos_of_mem hm; omega
  · intro hp
    simp [hp, optList] at hcnt
    omega

/-- bounded buffer: the number of cells ever allocated never exceeds max_capacity plus the largest number
of cells that were in consumers' hands at the same time (`maxLent` is only ever raised to `lentish`) -/
theorem C07_alloc_bound (h : Reachable P s) : s.allocated ≤ P.cap + s.maxLent ∧ lentish s ≤ s.maxLent :=
  ⟨(inv_reachable h).b.alloc, (inv_reachable h).b.mlent⟩

/-- the model never takes a branch on which the C++ would have undefined behaviour
(`front()` of an empty queue, pushing a null cell) -/
theorem C07_no_ub (h : Reachable P s) : s.ub = false := (inv_reachable h).a.ub

/-- `Next`'s CHECK "BeforeFirst not concurrent with Next" and `BeforeFirst`'s CHECKs never fire -/
theorem C07_checks_pass (h : Reachable P s) (hs : step P s e = some s') : s'.ret ≠ .errCheck := by
  have hi := (inv_reachable h).a
  obtain ⟨a1, a2, a3, a4, a5, a6, a7, a8, a9, a10, a11, a12, a13, a14, a15, a16, a17, a18, a19, a20, a21, a22, a23, a24, a25, a26, a27, a28, a29, a30, a31⟩ := hi
  simp only [kProduce, kBeforeFirst, kDestroy] at *
  unfold step at hs
  cases e <;> open_step <;> grind [busy]

/-- no deadlock, no lost wake-up (failure-free scripts; pinned and repaired code alike): whenever a thread is
inside a call, some transition other than a spurious wake-up or the start of a further call is enabled -/
theorem C07_deadlock_free (hn : NoFail P) (hcap : 1 ≤ P.cap) (h : Reachable P s) (hc : inCall s) :
    ∃ e : Event, e.isProgress = true ∧ (step P s e).isSome = true :=
  deadlock_free_of_inv hcap (inv_reachable h).a (inv_reachable h).b (invD_reachable_noFail hn h) hc

/-- statement of progress: once no further calls are started there is no infinite sequence of progress events
(transitions other than spurious wake-ups and call starts) -/
def C07_progress_statement (P : Params) : Prop :=
  NoFail P → 1 ≤ P.cap → ∀ s, Reachable P s → inCall s →
    ¬ ∃ f : Nat → State, f 0 = s ∧ ∀ n, ∃ e : Event, e.isProgress = true ∧ step P (f n) e = some (f (n + 1))

/-- the progress relation is well-founded: a lexicographic measure of five natural numbers (DmlcModel/TIter/Measure.lean:
pending rewind, produce callbacks the producer can still run, notify_ones still to come, the producer's location,
the consumers' locations) decreases with every progress event -- any scripts, pinned and repaired code -/
theorem C07_progress_wf (P : Params) : WellFounded (ProgStep P) := progStep_wf P

theorem C07_progress (P : Params) : C07_progress_statement P :=
  fun _ _ _ hr _ => no_infinite_progress hr

/-- a state in which no progress event is enabled has no call in progress: every started call has returned -/
theorem C07_quiescent_returned (hn : NoFail P) (hcap : 1 ≤ P.cap) (h : Reachable P s)
    (hq : ∀ e : Event, e.isProgress = true → step P s e = none) : busy s = 0 ∧ s.xloc = .idle := by
  have hnc : ¬ inCall s := by
    intro hc
    obtain ⟨e, hp, hs⟩ := C07_deadlock_free hn hcap h hc
    rw [hq e hp] at hs
    cases hs
  unfold inCall at hnc
  constructor
  · omega
  · cases hx : s.xloc <;> simp_all

/-- every call returns: from any reachable state every execution of the calls in progress (progress events only,
any schedule of them) is finite (`C07_progress`), and when it cannot be extended every started call -- Next, Recycle,
Next()/Value(), BeforeFirst, Destroy -- has returned; such an execution exists -/
theorem C07_every_call_returns (hn : NoFail P) (hcap : 1 ≤ P.cap) (h : Reachable P s) :
    (∀ t, ProgSteps P s t → (∀ e : Event, e.isProgress = true → step P t e = none) → busy t = 0 ∧ t.xloc = .idle) ∧
    (∃ t, ProgSteps P s t ∧ busy t = 0 ∧ t.xloc = .idle) := by
  constructor
  · intro t ht hq
    exact C07_quiescent_returned hn hcap (progSteps_reachable h ht) hq
  · obtain ⟨t, ht, hq⟩ := exists_maximal h
    exact ⟨t, ht, C07_quiescent_returned hn hcap (progSteps_reachable h ht) hq⟩

/-- scripts that never fail never set the failure flags (used by C10) -/
theorem C07_no_failure (hn : NoFail P) (h : Reachable P s) : s.thrown = false ∧ s.exc = false := noThrow hn h

/-- the ghost flag `srcEnded` means what it says: the source reported the end at position `pidx` (used by C10) -/
theorem C07_src_end (h : Reachable P s) (he : s.srcEnded = true) : P.src s.pass s.pidx = .fin :=
  ((inv_reachable h).c2.srcEnd he).1

end DmlcModel.Props.C07
