/- non-vacuity for C02: concrete streams meeting the hypotheses -/
import DmlcModel.Props.C02
namespace DmlcModel.Props.C02
open DmlcModel DmlcModel.RecordIO

/-- magic at aligned offsets 0 and 4 (adjacent), and magic bytes straddling a word boundary -/
def w13 : Bytes := [0x0a, 0x23, 0xd7, 0xce, 0x0a, 0x23, 0xd7, 0xce, 0x01, 0x0a, 0x23, 0xd7, 0xce]
def recs : List Bytes := [w13, [], [7, 8, 9, 10, 11], [0x0a, 0x23, 0xd7, 0xce]]

example : ∀ r ∈ recs, r.length < 2 ^ 29 := by decide
example : (writeAll recs).length = 72 := by decide
example : Fits (writeAll recs).length 3 := by unfold Fits; decide
example : Fits (writeAll recs).length 25 := by unfold Fits; decide
/-- a scan from inside the first record's continuation parts lands on the second record -/
example : findNextHead (writeAll recs) 12 = some 32 := by decide
example : nextStart recs 0 12 = 32 := by decide
/-- more parts than words: trailing parts are empty, the concatenation is still complete -/
example : (List.range 25).flatMap (partSlice recs 25) = recs := by decide
example : chunkPart (writeAll recs) 1 3 = some (partSlice recs 3 1) := by decide
example : partSlice recs 3 1 = [[], [7, 8, 9, 10, 11]] := by decide
end DmlcModel.Props.C02
