/-
C03, file-list part — from the URI string and the file system to the list of files the text splitter
partitions (`InputSplitBase::Init` / `InitInputFileInfo` / `ConvertToURIs`), and the cover theorem of C03
restated for a splitter constructed from a URI.
Property theorems only; model in DmlcModel/Split/Files.lean, spec-side definitions (`CanonName`, `FsOk`,
`expandSpec`, `childrenOf`, `joinSemi`, `LiteralRx`, `partBlobsUri`) and lemmas in DmlcModel/Split/FilesLemmas.lean.
-/
import DmlcModel.Split.FilesLemmas
import DmlcModel.Props.C03

namespace DmlcModel.Props.C03
open DmlcModel DmlcModel.Split

/-- any URI, any matcher, any recursion flag, a file system with unique names: a successful `InitInputFileInfo`
yields a non-empty list of regular, non-empty files of the file system, each listed with its size -/
theorem C03_file_list_entries (rx : Name → Name → Bool) (fs : FileSys) (uri : Bytes) (rc : Bool) (infos : List Info)
    (hU : fs.Pairwise (fun a b => a.1 ≠ b.1)) (h : initInputFileInfo rx fs uri rc = .ok infos) :
    infos ≠ [] ∧ ∀ i ∈ infos, i.kind = .file ∧ i.size ≠ 0 ∧
      (∃ c, (i.name, c) ∈ fs ∧ contentOf fs i.name = c ∧ i.size = c.length) :=
  initInputFileInfo_entries rx fs uri rc infos hU h

/-- the vector `file_offset_` filled by `Init` is the vector of prefix sums of the listed sizes (total below
2^64: no `size_t` wrap-around), and, when the sizes are those of the contents, it is the vector `offsetsFrom 0`
of the contents, which the Base model's `filePtrOf` searches -/
theorem C03_file_offsets (fs : FileSys) (infos : List Info) (h : (infos.map (·.size)).sum < 2^64) :
    initOffsets 0 infos = (List.range (infos.length + 1)).map (fun j => ((infos.take j).map (·.size)).sum) ∧
    ((∀ i ∈ infos, i.size = (contentOf fs i.name).length) →
      initOffsets 0 infos = offsetsFrom 0 (infos.map (fun i => contentOf fs i.name))) :=
  ⟨initOffsets_prefix_sums infos h, fun hsz => initOffsets_eq_offsetsFrom fs infos hsz h⟩

/-- `C03_parts_cover` from the URI: if the URI expands to `infos` whose contents are NUL-free (less than 2^55
bytes in all, `1 ≤ n < 2^32`, `w < 2^56`), then for any matcher / recursion flag no part fails and the parts'
canonical lines concatenate to the non-empty lines of the listed files, in list order -/
theorem C03_parts_cover_uri (rx : Name → Name → Bool) (fs : FileSys) (uri : Bytes) (rc : Bool) (infos : List Info)
    (hU : fs.Pairwise (fun a b => a.1 ≠ b.1)) (h : initInputFileInfo rx fs uri rc = .ok infos)
    (hnul : ∀ i ∈ infos, NulFree (contentOf fs i.name))
    (ht : totalSize (infos.map (fun i => contentOf fs i.name)) < 2^55) (n w dw : Nat) (hn0 : 0 < n) (hn : n < 2^32)
    (hw : w < 2^56) (pick : Nat → Nat → Bool) :
    (∀ k, k < n → ∃ bs, partBlobsUri Fmt.text rx fs uri rc k n w dw (pick k) = .ok bs) ∧
    (List.range n).flatMap (fun k => linesOf (partBlobsUri Fmt.text rx fs uri rc k n w dw (pick k)))
      = (infos.map (fun i => contentOf fs i.name)).flatMap lines := by
  obtain ⟨g1, g2, _⟩ := contents_of_ok rx fs uri rc infos hU h
  have hne : ∀ f ∈ infos.map (fun i => contentOf fs i.name), f ≠ [] ∧ NulFree f := by
    intro f hf
    refine ⟨g2 f hf, ?_⟩
    obtain ⟨i, hi, hfi⟩ := List.mem_map.1 hf
    rw [← hfi]
    exact hnul i hi
  have hc := C03_parts_cover _ n w dw g1 hne ht hn0 hn hw pick
  simp only [partBlobsUri_eq Fmt.text rx fs uri rc infos h]
  exact hc

/-- what the file list is: for a ';'-list of canonical absolute names over a well-formed file system (the
matcher of the regex branch accepting at most the name itself), `InitInputFileInfo` without recursion yields
the concatenation, in URI order, of what each piece names — the file itself if it is non-empty, the non-empty
files directly inside if it is a directory (in file-system order), nothing if it names neither;
"Cannot find any files" (`check`) exactly when that list is empty (`pieces = []`: the empty URI) -/
theorem C03_file_list (rx : Name → Name → Bool) (hrx : LiteralRx rx) (fs : FileSys) (hfs : FsOk fs)
    (pieces : List Name) (hp : ∀ p ∈ pieces, CanonName p) :
    initInputFileInfo rx fs (joinSemi pieces) false =
      (if (pieces.flatMap (expandSpec fs)).isEmpty then .error .check else .ok (pieces.flatMap (expandSpec fs))) :=
  initInputFileInfo_canon rx hrx fs hfs.1 pieces hp

/-- the steps of `C03_file_list`: `dmlc::Split` recovers the pieces, the `URI` constructor leaves a canonical name
alone, `ConvertToURIs` keeps a piece iff it names a file or a directory, and the loop body of
`InitInputFileInfo` lists what it names -/
theorem C03_file_list_steps (rx : Name → Name → Bool) (hrx : LiteralRx rx) (fs : FileSys) (hfs : FsOk fs)
    (pieces : List Name) (hp : ∀ p ∈ pieces, CanonName p) :
    splitDelim (joinSemi pieces) 59 = pieces ∧
    (∀ p ∈ pieces, uriName p = p ∧
      expandOne rx fs p = (if (fs.any (fun e => e.1 == p) || isDirOf fs p) then [p] else []) ∧
      ((fs.any (fun e => e.1 == p) || isDirOf fs p) = true → infoOne fs false p = .ok (expandSpec fs p)) ∧
      ((fs.any (fun e => e.1 == p) || isDirOf fs p) = false → expandSpec fs p = [])) :=
  ⟨splitDelim_joinSemi pieces (fun p h => ⟨(canonFacts p (hp p h)).ne, (canonFacts p (hp p h)).noSemi⟩),
   fun p h => ⟨uriName_canon p (hp p h), expandOne_canon rx hrx fs hfs.1 p (hp p h),
     infoOne_canon fs hfs.1 p (hp p h), expandSpec_absent fs p (canonFacts p (hp p h)).noTrail⟩⟩

/-- the two combined: for a ';'-list of canonical names that names at least one non-empty file, over a
well-formed file system, with NUL-free listed contents (less than 2^55 bytes in all), no part of the `n`-way
split of the splitter constructed from the URI fails, and the parts' canonical lines concatenate to the
non-empty lines of the named files, in URI order (a directory's files in file-system order) -/
theorem C03_parts_cover_canonical_uri (rx : Name → Name → Bool) (hrx : LiteralRx rx) (fs : FileSys) (hfs : FsOk fs)
    (pieces : List Name) (hp : ∀ p ∈ pieces, CanonName p) (hne : pieces.flatMap (expandSpec fs) ≠ [])
    (hnul : ∀ i ∈ pieces.flatMap (expandSpec fs), NulFree (contentOf fs i.name))
    (ht : totalSize ((pieces.flatMap (expandSpec fs)).map (fun i => contentOf fs i.name)) < 2^55)
    (n w dw : Nat) (hn0 : 0 < n) (hn : n < 2^32) (hw : w < 2^56) (pick : Nat → Nat → Bool) :
    (∀ k, k < n → ∃ bs, partBlobsUri Fmt.text rx fs (joinSemi pieces) false k n w dw (pick k) = .ok bs) ∧
    (List.range n).flatMap (fun k => linesOf (partBlobsUri Fmt.text rx fs (joinSemi pieces) false k n w dw (pick k)))
      = (pieces.flatMap (expandSpec fs)).flatMap (fun i => lines (contentOf fs i.name)) := by
  have h := initInputFileInfo_canon_ok rx hrx fs hfs.1 pieces hp hne
  have hc := C03_parts_cover_uri rx fs (joinSemi pieces) false _ hfs.2.1 h hnul ht n w dw hn0 hn hw pick
  rw [List.flatMap_map] at hc
  exact hc

/-- the same list with `recurse_directories = true` when no named directory has sub-directories (`FlatDir`): the
breadth-first `ListDirectoryRecursive` of such a directory is its plain listing (no sortedness needed; nested
directories: `C03_file_list_recursive`) -/
theorem C03_file_list_flat_recursive (rx : Name → Name → Bool) (hrx : LiteralRx rx) (fs : FileSys) (hfs : FsOk fs)
    (pieces : List Name) (hp : ∀ p ∈ pieces, CanonName p) (rc : Bool) (hflat : rc = true → ∀ p ∈ pieces, FlatDir fs p) :
    initInputFileInfo rx fs (joinSemi pieces) rc =
      (if (pieces.flatMap (expandSpec fs)).isEmpty then .error .check else .ok (pieces.flatMap (expandSpec fs))) :=
  initInputFileInfo_canon_flat rx hrx fs hfs.1 pieces hp rc hflat

/-- what the file list is with `recurse_directories = true`, directories nested to any depth, over a well-formed
file system whose entries are in increasing bytewise name order (`FsSorted`: the iteration order of MemFS's
`std::map`): the concatenation, in URI order, of what each piece names recursively (`expandSpecBfs`) — a non-empty
file itself, or the non-empty files below a directory in breadth-first order: by increasing depth, files of equal
depth in file-system order.  In particular `ListDirectoryRecursive` never hits the model's iteration bound -/
theorem C03_file_list_recursive (rx : Name → Name → Bool) (hrx : LiteralRx rx) (fs : FileSys) (hfs : FsOk fs)
    (hs : FsSorted fs) (pieces : List Name) (hp : ∀ p ∈ pieces, CanonName p) :
    initInputFileInfo rx fs (joinSemi pieces) true =
      (if (pieces.flatMap (expandSpecBfs fs)).isEmpty then .error .check else .ok (pieces.flatMap (expandSpecBfs fs))) :=
  initInputFileInfo_canon_rec rx hrx fs hfs.1 hs pieces hp

/-- `C03_parts_cover_canonical_uri` with `recurse_directories = true` over a sorted file system: the parts' canonical
lines concatenate to the non-empty lines of the files named recursively, in URI order, a directory's files in
breadth-first order -/
theorem C03_parts_cover_canonical_uri_recursive (rx : Name → Name → Bool) (hrx : LiteralRx rx) (fs : FileSys)
    (hfs : FsOk fs) (hs : FsSorted fs) (pieces : List Name) (hp : ∀ p ∈ pieces, CanonName p)
    (hne : pieces.flatMap (expandSpecBfs fs) ≠ [])
    (hnul : ∀ i ∈ pieces.flatMap (expandSpecBfs fs), NulFree (contentOf fs i.name))
    (ht : totalSize ((pieces.flatMap (expandSpecBfs fs)).map (fun i => contentOf fs i.name)) < 2^55)
    (n w dw : Nat) (hn0 : 0 < n) (hn : n < 2^32) (hw : w < 2^56) (pick : Nat → Nat → Bool) :
    (∀ k, k < n → ∃ bs, partBlobsUri Fmt.text rx fs (joinSemi pieces) true k n w dw (pick k) = .ok bs) ∧
    (List.range n).flatMap (fun k => linesOf (partBlobsUri Fmt.text rx fs (joinSemi pieces) true k n w dw (pick k)))
      = (pieces.flatMap (expandSpecBfs fs)).flatMap (fun i => lines (contentOf fs i.name)) := by
  have h := initInputFileInfo_canon_rec_ok rx hrx fs hfs.1 hs pieces hp hne
  have hc := C03_parts_cover_uri rx fs (joinSemi pieces) true _ hfs.2.1 h hnul ht n w dw hn0 hn hw pick
  rw [List.flatMap_map] at hc
  exact hc

/-- `recurse_directories = true` with directories nested to any depth: a successful `InitInputFileInfo` on a
';'-list of canonical names lists exactly — as a set; the breadth-first order, the multiplicities and the absence
of the model's iteration-bound outcome are not stated — what the pieces name recursively (`expandSpecRec`): a
non-empty file itself, or all non-empty files below a directory; unlike `C03_file_list_recursive` this needs no
sortedness of the file system -/
theorem C03_file_list_recursive_members (rx : Name → Name → Bool) (hrx : LiteralRx rx) (fs : FileSys) (hfs : FsOk fs)
    (pieces : List Name) (hp : ∀ p ∈ pieces, CanonName p) (infos : List Info)
    (h : initInputFileInfo rx fs (joinSemi pieces) true = .ok infos) :
    ∀ i, i ∈ infos ↔ i ∈ pieces.flatMap (expandSpecRec fs) :=
  initInputFileInfo_canon_rec_mem rx hrx fs hfs.1 pieces hp infos h

/-! non-vacuity (closed data in `DmlcModel.Split.FilesEx`): the file system { "/r/a" ↦ "x\n", "/r/d/b" ↦ "",
"/r/d/c" ↦ "yz" } is well-formed, the URI "/r/a;/r/d;/r/zz;/r/a" is the ';'-join of four canonical names and
expands to "/r/a", "/r/d/c", "/r/a" (the empty file and the missing name dropped, the repeated name kept) with
offsets 0, 2, 4, 6; the hypotheses of `C03_parts_cover_canonical_uri` hold for it -/
example : FsOk FilesEx.fs := by decide
example : ∀ p ∈ FilesEx.pieces, CanonName p := by decide
example : joinSemi FilesEx.pieces = FilesEx.uri := by decide
example : LiteralRx (fun a b => a == b) := literalRx_beq
example : FilesEx.pieces.flatMap (expandSpec FilesEx.fs) = FilesEx.infos := by decide
example : okOf (initInputFileInfo (fun a b => a == b) FilesEx.fs FilesEx.uri false) = some FilesEx.infos := by decide
example : initOffsets 0 FilesEx.infos = [0, 2, 4, 6] := by decide
example : ∀ i ∈ FilesEx.pieces.flatMap (expandSpec FilesEx.fs), NulFree (contentOf FilesEx.fs i.name) := by decide
example : totalSize ((FilesEx.pieces.flatMap (expandSpec FilesEx.fs)).map (fun i => contentOf FilesEx.fs i.name)) = 6 := by
  decide
example : okOf (initInputFileInfo (fun a b => a == b) FilesEx.fs [47, 114, 47, 122, 122] false) = none := by decide
example : ∀ p ∈ FilesEx.pieces, FlatDir FilesEx.fs p := by decide
example : okOf (initInputFileInfo (fun a b => a == b) FilesEx.fs FilesEx.uri true) = some FilesEx.infos := by decide
/-- "/r" with recursion: breadth-first, "/r/a" then "/r/d/c"; without recursion only "/r/a" -/
example : (okOf (initInputFileInfo (fun a b => a == b) FilesEx.fs [47, 114] true)).map (fun l => l.map (·.name))
    = some [[47, 114, 47, 97], [47, 114, 47, 100, 47, 99]] := by decide
example : (okOf (initInputFileInfo (fun a b => a == b) FilesEx.fs [47, 114] false)).map (fun l => l.map (·.name))
    = some [[47, 114, 47, 97]] := by decide
example : [([47, 114] : Name)].flatMap (expandSpecRec FilesEx.fs) =
    [{ name := [47, 114, 47, 97], size := 2, kind := .file }, { name := [47, 114, 47, 100, 47, 99], size := 2, kind := .file }] := by
  decide

/-- a deeper sorted file system { "/r/a", "/r/d/b" (empty), "/r/d/c", "/r/d/e/f", "/r/g" }: "/r" with recursion
lists "/r/a", "/r/g" (depth 0), "/r/d/c" (depth 1), "/r/d/e/f" (depth 2) -/
example : FsOk FilesEx.fsDeep ∧ FsSorted FilesEx.fsDeep := by decide
example : FsSorted FilesEx.fs := by decide
example : (expandSpecBfs FilesEx.fsDeep [47, 114]).map (·.name) =
    [[47, 114, 47, 97], [47, 114, 47, 103], [47, 114, 47, 100, 47, 99], [47, 114, 47, 100, 47, 101, 47, 102]] := by decide
example : okOf (initInputFileInfo (fun a b => a == b) FilesEx.fsDeep [47, 114] true)
    = some (expandSpecBfs FilesEx.fsDeep [47, 114]) := by decide

end DmlcModel.Props.C03
