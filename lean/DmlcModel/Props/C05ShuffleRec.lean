/- C05 / C04, end to end for InputSplitShuffle over RecordIO files (see C05ShuffleText.lean for the text case). -/
import DmlcModel.Props.C04
import DmlcModel.Props.C05ShuffleText
namespace DmlcModel.Props.C05
open DmlcModel DmlcModel.Split DmlcModel.Split.Shuffle DmlcModel.RecordIO

/-- what a freshly created recordio split delivers for part `i` of `N` (NextRecord) -/
def recSub (rss : List (List Bytes)) (N w dw : Nat) (i : Nat) : Shuffle.Res (List Bytes) :=
  partBlobs Fmt.recordio (rss.map writeAll) i N w dw (fun _ => true)

/-- **InputSplitShuffle over RecordIO files: the n shuffled parts together deliver every record exactly once**,
byte-identical, whatever orders the shuffles produced – `C05_shuffle_cover` composed with `C04_parts_cover` -/
theorem C05_shuffle_rec_cover (rss : List (List Bytes)) (n m w dw : Nat) (hne : rss ≠ [])
    (hrss : ∀ rs ∈ rss, rs ≠ [] ∧ ∀ r ∈ rs, r.length < 2^29) (ht : totalSize (rss.map writeAll) < 2^56)
    (hn0 : 0 < n) (hm0 : 0 < m) (hnm : n * m < 2^32) (hw2 : 2 ≤ w) (hw : w < 2^56)
    (π : Nat → List Nat) (hπ : ∀ k, k < n → (π k).Perm (List.range m)) :
    ∃ r : Nat → List Bytes, (∀ k, k < n → passOf (recSub rss (n * m) w dw) (π k) k m = .ok (r k)) ∧
      ((List.range n).flatMap r).Perm rss.flatten := by
  obtain ⟨parts, hmap, hflat⟩ := C04.C04_parts_cover rss (n * m) w dw hne hrss ht (Nat.mul_pos hn0 hm0) hnm hw2 hw
  let L : Nat → List Bytes := fun i =>
    match partBlobs Fmt.recordio (rss.map writeAll) i (n * m) w dw (fun _ => true) with
    | .ok bs => bs
    | .error _ => []
  have hlen : parts.length = n * m := by
    have := congrArg List.length hmap
    simpa using this.symm
  have hsub : ∀ i, i < n * m → recSub rss (n * m) w dw i = .ok (L i) := by
    intro i hi
    have h1 := congrArg (fun l => l[i]?) hmap
    simp only [List.getElem?_map, List.getElem?_range hi, Option.map_some] at h1
    have hi' : i < parts.length := by omega
    rw [List.getElem?_eq_getElem hi', Option.map_some] at h1
    simp only [recSub, L]
    cases hp : partBlobs Fmt.recordio (rss.map writeAll) i (n * m) w dw (fun _ => true) with
    | ok bs => rfl
    | error e => rw [hp] at h1; simp [okOf] at h1
  have hL : (List.range (n * m)).flatMap L = rss.flatten := by
    rw [← hflat, List.flatMap_def]
    congr 1
    apply List.ext_getElem?
    intro i
    by_cases hi : i < n * m
    · have h1 := congrArg (fun l => l[i]?) hmap
      simp only [List.getElem?_map, List.getElem?_range hi, Option.map_some] at h1 ⊢
      have hi' : i < parts.length := by omega
      rw [List.getElem?_eq_getElem hi', Option.map_some] at h1
      rw [List.getElem?_eq_getElem hi']
      have := hsub i hi
      simp only [recSub] at this
      rw [this] at h1
      simp only [okOf, Option.some.injEq] at h1
      rw [h1]
    · have h1 : (List.range (n * m))[i]? = none := by simp [List.getElem?_eq_none_iff]; omega
      have h2 : parts[i]? = none := by simp [List.getElem?_eq_none_iff]; omega
      simp [h1, h2]
  have hpart : ∀ k, k < n → ∃ rk, passOf (recSub rss (n * m) w dw) (π k) k m = .ok rk ∧
      rk.Perm ((List.range m).flatMap fun j => L (j + k * m)) := by
    intro k hk
    have hin : ∀ j, j < m → j + k * m < n * m := by
      intro j hj
      calc j + k * m < m + k * m := by omega
        _ = (k + 1) * m := by rw [Nat.succ_mul, Nat.add_comm]
        _ ≤ n * m := Nat.mul_le_mul_right m hk
    have hall : (List.range m).mapM (fun j => recSub rss (n * m) w dw (j + k * m)) =
        .ok ((List.range m).map fun j => L (j + k * m)) :=
      mapM_ok_of_forall _ _ _ (fun j hj => hsub _ (hin j (List.mem_range.mp hj)))
    obtain ⟨r1, h1, _⟩ := mapM_perm (fun j => recSub rss (n * m) w dw (j + k * m)) (hπ k hk).symm _ hall
    have hpass : passOf (recSub rss (n * m) w dw) (π k) k m = .ok r1.flatten := by
      simp only [passOf, h1, Except.map]
    obtain ⟨rss', h2, p2⟩ := C05_shuffle_cover (recSub rss (n * m) w dw) (π k) k m (hπ k hk) r1.flatten hpass
    rw [hall] at h2
    simp only [Except.ok.injEq] at h2
    subst h2
    exact ⟨r1.flatten, hpass, by simpa [List.flatMap_def] using p2⟩
  let r : Nat → List Bytes := fun k =>
    match passOf (recSub rss (n * m) w dw) (π k) k m with
    | .ok rk => rk
    | .error _ => []
  refine ⟨r, fun k hk => ?_, ?_⟩
  · obtain ⟨rk, h1, _⟩ := hpart k hk
    simp only [r, h1]
  · have hr : ∀ k ∈ List.range n, (r k).Perm ((List.range m).flatMap fun j => L (j + k * m)) := by
      intro k hk
      obtain ⟨rk, h1, h2⟩ := hpart k (List.mem_range.mp hk)
      simp only [r, h1]
      exact h2
    have h1 := perm_flatMap_congr _ _ _ hr
    rw [range_mul_flatMap L n m, hL] at h1
    exact h1

end DmlcModel.Props.C05
