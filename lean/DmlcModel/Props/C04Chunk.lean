/-
C04 ∘ C02 — RecordIO InputSplit in chunk mode, every chunk consumed through `RecordIOChunkReader`.
A part of an `n`-way split of RecordIO files is consumed with `NextChunk` only; every delivered chunk is handed
to `RecordIOChunkReader(chunk, j, q)` for `j = 0..q-1` (`chunkPart`, the C01/C02 model in
DmlcModel/RecordIO/Model.lean), `q ≥ 1` sub-parts, `q` may differ from chunk to chunk.  Then no `CHECK` fires,
the sub-parts of a chunk return exactly the records of that chunk (C02 tiling), the chunks of a part return
exactly the records that start in the byte range of the part, and all parts together return exactly the
written records, in order, byte-identical, each exactly once.

Hypotheses: the common C04 block (see DmlcModel/Props/C04.lean) plus the no-wrap-around guard `C02.Fits` of the
`RecordIOChunkReader` constructor (`nstep * (part_index + 1)` in `size_t`, `part_index + 1` in `unsigned`).
Every chunk is at most `totalSize` bytes long, so `Fits` follows from
`1 ≤ q`, `q + 1 < 2^32`, `(totalSize + 3) * q < 2^64`; with `totalSize < 2^56` any `1 ≤ q ≤ 255` qualifies.
`C04_chunks_chunk_reader` carries `Fits` per chunk instead (the weakest form).
-/
import DmlcModel.Props.C04
import DmlcModel.Props.C02
import DmlcModel.Props.C04Witness

namespace DmlcModel.Props.C04
open DmlcModel DmlcModel.Split DmlcModel.RecordIO
open DmlcModel.Split.CoverAux DmlcModel.Split.RecSnapAux
open DmlcModel.Props.C02 (Fits partSlice C02_tiling)

/-- the records `RecordIOChunkReader` extracts from one chunk `b` tiled into `q` sub-parts, sub-part after
sub-part (`none`: some sub-part hit a `CHECK`) -/
def chunkReaderRecords (b : Bytes) (q : Nat) : Option (List Bytes) :=
  (List.range q).foldr (fun j acc =>
    match chunkPart b j q, acc with
    | some a, some r => some (a ++ r)
    | _, _ => none) (some [])

/-- the same for the chunks of calls `i, i+1, …`; chunk `i` is tiled into `q i` sub-parts -/
def chunkRecsGo (q : Nat → Nat) : Nat → List Bytes → Option (List Bytes)
  | _, [] => some []
  | i, b :: bs =>
    match chunkReaderRecords b (q i), chunkRecsGo q (i + 1) bs with
    | some a, some r => some (a ++ r)
    | _, _ => none

/-- the records extracted from the chunks of a part, every chunk through `RecordIOChunkReader`
(`none`: abnormal outcome of the split, or a `CHECK` of the chunk reader) -/
def chunkRecs (q : Nat → Nat) : Except Split.Err (List Bytes) → Option (List Bytes)
  | .ok bs => chunkRecsGo q 0 bs
  | .error _ => none

/-- if every sub-part `j < q` succeeds with `f j`, the chunk reader extracts their concatenation -/
theorem C04_chunkReaderRecords_of_parts (b : Bytes) (q : Nat) (f : Nat → List Bytes)
    (h : ∀ j, j < q → chunkPart b j q = some (f j)) :
    chunkReaderRecords b q = some ((List.range q).flatMap f) := by
  have key : ∀ (g : Nat → Option (List Bytes)) (l : List Nat), (∀ j ∈ l, g j = some (f j)) →
      l.foldr (fun j acc =>
        match g j, acc with
        | some a, some r => some (a ++ r)
        | _, _ => none) (some []) = some (l.flatMap f) := by
    intro g l
    induction l with
    | nil => intro _; rfl
    | cons a t ih =>
      intro hl
      rw [List.foldr_cons, ih (fun j hj => hl j (List.mem_cons_of_mem _ hj)), hl a (List.mem_cons_self ..)]
      rfl
  exact key (fun j => chunkPart b j q) (List.range q) (fun j hj => h j (List.mem_range.1 hj))

/-- ONE chunk: the image of a run of whole records, tiled by `RecordIOChunkReader` with `q` sub-parts, gives
back exactly the run (`Fits` contains `1 ≤ q`) -/
theorem C04_chunk_reader_one (run : List Bytes) (h : ∀ r ∈ run, r.length < 2^29) (q : Nat)
    (hf : Fits (writeAll run).length q) :
    chunkReaderRecords (writeAll run) q = some run := by
  obtain ⟨h1, h2⟩ := C02_tiling run h q hf
  rw [C04_chunkReaderRecords_of_parts (writeAll run) q (partSlice run q) h1, h2]

/-- the image of the records that start in a byte range is no longer than the image of all records -/
theorem C04_writeAll_recsIn_le (R : List Bytes) : ∀ (off b e : Nat),
    (writeAll (recsIn R off b e)).length ≤ (writeAll R).length := by
  induction R with
  | nil => intro off b e; exact Nat.le_refl _
  | cons r rs ih =>
    intro off b e
    rw [recsIn_cons, RecordIO.writeAll_append]
    have h1 := ih (off + (writeRecord r).1.length) b e
    have e1 : writeAll (r :: rs) = (writeRecord r).1 ++ writeAll rs := rfl
    rw [e1, List.length_append, List.length_append]
    by_cases hc : b ≤ off ∧ off < e
    · rw [if_pos hc]
      have e2 : writeAll [r] = (writeRecord r).1 ++ [] := rfl
      rw [e2, List.append_nil]
      omega
    · rw [if_neg hc]
      have e2 : (writeAll ([] : List Bytes)).length = 0 := rfl
      rw [e2]
      omega

/-- the image of one run is no longer than the image of all runs -/
theorem C04_writeAll_mem_le (runs : List (List Bytes)) (run : List Bytes) (h : run ∈ runs) :
    (writeAll run).length ≤ (writeAll runs.flatten).length := by
  induction runs with
  | nil => cases h
  | cons a t ih =>
    rw [List.flatten_cons, RecordIO.writeAll_append, List.length_append]
    rcases List.mem_cons.1 h with h | h
    · subst h; omega
    · have := ih h; omega

/-- the constructor guard from a bound on the chunk length -/
theorem C04_fits_of_le (len T q : Nat) (hl : len ≤ T) (h0 : 0 < q) (h1 : q + 1 < 2^32)
    (h2 : (T + 3) * q < 2^64) : Fits len q := by
  have e1 : (T + 3) * q = T * q + 3 * q := Nat.add_mul T 3 q
  have e2 : T ≤ T * q := Nat.le_mul_of_pos_right T h0
  have e3 : (len + 3) * q ≤ (T + 3) * q := Nat.mul_le_mul_right q (by omega)
  exact ⟨h0, h1, by omega, by omega⟩

/-- up to 255 sub-parts never wrap for chunks shorter than 2^56 bytes -/
theorem C04_fits_small (T q : Nat) (hT : T < 2^56) (h0 : 0 < q) (h1 : q ≤ 255) :
    0 < q ∧ q + 1 < 2^32 ∧ (T + 3) * q < 2^64 := by
  have e3 : (T + 3) * q ≤ (2^56 + 2) * 255 := Nat.mul_le_mul (by omega) h1
  exact ⟨h0, by omega, by omega⟩

/-- chunks through the chunk reader, call by call: the blobs are the images of the runs and the guard holds
for every chunk, hence the extraction yields the concatenation of the runs -/
theorem C04_chunkRecsGo_runs (q : Nat → Nat) : ∀ (bs : List Bytes) (i : Nat) (runs : List (List Bytes)),
    runs.length = bs.length → (∀ r ∈ runs.flatten, r.length < 2^29) →
    (∀ (j : Nat) (b : Bytes) (run : List Bytes), bs[j]? = some b → runs[j]? = some run →
      b = writeAll run ∧ Fits b.length (q (i + j))) →
    chunkRecsGo q i bs = some runs.flatten := by
  intro bs
  induction bs with
  | nil =>
    intro i runs hl _ _
    cases runs with
    | nil => rfl
    | cons a t => simp at hl
  | cons b bs ih =>
    intro i runs hl hS h
    cases runs with
    | nil => simp at hl
    | cons run runs =>
      rw [List.flatten_cons] at hS ⊢
      have hS1 : ∀ r ∈ run, r.length < 2^29 := fun r hr => hS r (List.mem_append_left _ hr)
      have hS2 : ∀ r ∈ runs.flatten, r.length < 2^29 := fun r hr => hS r (List.mem_append_right _ hr)
      obtain ⟨hb, hf⟩ := h 0 b run rfl rfl
      rw [Nat.add_zero] at hf
      have hrest := ih (i + 1) runs (by simpa using hl) hS2
        (fun j b' run' hb' hr' => by
          have := h (j + 1) b' run' (by rw [List.getElem?_cons_succ]; exact hb')
            (by rw [List.getElem?_cons_succ]; exact hr')
          have e : i + (j + 1) = i + 1 + j := by omega
          rw [e] at this; exact this)
      subst hb
      show (match chunkReaderRecords (writeAll run) (q i), chunkRecsGo q (i + 1) bs with
        | some a, some r => some (a ++ r)
        | _, _ => none) = some (run ++ runs.flatten)
      rw [hrest, C04_chunk_reader_one run hS1 (q i) hf]

/-- every chunk of part `k` (consumed with `NextChunk` only) is the image of a non-empty run of whole
records of the part, at most `totalSize` bytes long, and for EVERY number `q` of sub-parts that passes the
constructor guard for this chunk, sub-part `j` of `RecordIOChunkReader` returns the records `partSlice run q j`
starting in its window and the `q` sub-parts together return exactly the run; the runs concatenate to the
records that start in the byte range of the part -/
theorem C04_chunks_chunk_reader (rss : List (List Bytes)) (n w dw : Nat) (hne : rss ≠ [])
    (hrss : ∀ rs ∈ rss, rs ≠ [] ∧ ∀ r ∈ rs, r.length < 2^29) (ht : totalSize (rss.map writeAll) < 2^56)
    (hn : n < 2^32) (hw2 : 2 ≤ w) (hw : w < 2^56) (k : Nat) (hk : k < n) :
    ∃ (bs : List Bytes) (runs : List (List Bytes)),
      partBlobs Fmt.recordio (rss.map writeAll) k n w dw (fun _ => false) = .ok bs ∧ runs.length = bs.length ∧
      runs.flatten = recsIn rss.flatten 0 (bndR rss n k) (bndR rss n (k + 1)) ∧
      (∀ (i : Nat) (b : Bytes) (run : List Bytes), bs[i]? = some b → runs[i]? = some run →
        run ≠ [] ∧ b = writeAll run ∧ b.length ≤ totalSize (rss.map writeAll) ∧
        (∀ q, Fits b.length q →
          (∀ j, j < q → chunkPart b j q = some (partSlice run q j)) ∧
          (List.range q).flatMap (partSlice run q) = run ∧
          chunkReaderRecords b q = some run)) := by
  obtain ⟨bs, runs, h1, h2, h3, h4⟩ :=
    C04_chunks_whole_records rss n w dw hne hrss ht hn hw2 hw k hk (fun _ => false)
  refine ⟨bs, runs, h1, h2, h3, ?_⟩
  intro i b run hb hr
  obtain ⟨hne', hbr⟩ := h4 i b run hb hr
  simp only [Bool.false_eq_true, if_false] at hbr
  have hmem : run ∈ runs := List.mem_of_getElem? hr
  have hshort : ∀ r ∈ run, r.length < 2^29 := by
    intro r hr'
    have : r ∈ runs.flatten := List.mem_flatten.2 ⟨run, hmem, hr'⟩
    rw [h3] at this
    exact short_recsIn _ (short_flatten rss (rssOk_of rss hrss)) _ _ _ r this
  have hlen : b.length ≤ totalSize (rss.map writeAll) := by
    have e1 := C04_writeAll_mem_le runs run hmem
    rw [h3] at e1
    have e2 := C04_writeAll_recsIn_le rss.flatten 0 (bndR rss n k) (bndR rss n (k + 1))
    have e3 := totalSize_recFiles rss
    unfold recFiles at e3
    rw [hbr, e3]
    omega
  refine ⟨hne', hbr, hlen, ?_⟩
  intro q hf
  subst hbr
  obtain ⟨t1, t2⟩ := C02_tiling run hshort q hf
  exact ⟨t1, t2, C04_chunk_reader_one run hshort q hf⟩

/-- MAIN (one part): part `k` consumed with `NextChunk` only, chunk `i` handed to `RecordIOChunkReader` with
`q i ≥ 1` sub-parts: the split ends normally, no `CHECK` of the chunk reader fires, and the records returned
(chunk after chunk, sub-part after sub-part) are exactly the records that start in the byte range of the part -/
theorem C04_part_chunk_reader (rss : List (List Bytes)) (n w dw : Nat) (hne : rss ≠ [])
    (hrss : ∀ rs ∈ rss, rs ≠ [] ∧ ∀ r ∈ rs, r.length < 2^29) (ht : totalSize (rss.map writeAll) < 2^56)
    (hn : n < 2^32) (hw2 : 2 ≤ w) (hw : w < 2^56) (k : Nat) (hk : k < n) (q : Nat → Nat)
    (hq : ∀ i, 0 < q i ∧ q i + 1 < 2^32 ∧ (totalSize (rss.map writeAll) + 3) * q i < 2^64) :
    chunkRecs q (partBlobs Fmt.recordio (rss.map writeAll) k n w dw (fun _ => false))
      = some (recsIn rss.flatten 0 (bndR rss n k) (bndR rss n (k + 1))) := by
  obtain ⟨bs, runs, h1, h2, h3, h4⟩ := C04_chunks_chunk_reader rss n w dw hne hrss ht hn hw2 hw k hk
  rw [h1, ← h3]
  show chunkRecsGo q 0 bs = some runs.flatten
  refine C04_chunkRecsGo_runs q bs 0 runs h2 ?_ ?_
  · rw [h3]
    exact short_recsIn _ (short_flatten rss (rssOk_of rss hrss)) _ _ _
  · intro j b run hb hr
    obtain ⟨_, hbr, hlen, _⟩ := h4 j b run hb hr
    rw [Nat.zero_add]
    exact ⟨hbr, C04_fits_of_le _ _ _ hlen (hq j).1 (hq j).2.1 (hq j).2.2⟩

/-- the same for at most 255 sub-parts per chunk: no size hypothesis beyond the common `totalSize < 2^56` -/
theorem C04_part_chunk_reader_small (rss : List (List Bytes)) (n w dw : Nat) (hne : rss ≠ [])
    (hrss : ∀ rs ∈ rss, rs ≠ [] ∧ ∀ r ∈ rs, r.length < 2^29) (ht : totalSize (rss.map writeAll) < 2^56)
    (hn : n < 2^32) (hw2 : 2 ≤ w) (hw : w < 2^56) (k : Nat) (hk : k < n) (q : Nat → Nat)
    (hq : ∀ i, 0 < q i ∧ q i ≤ 255) :
    chunkRecs q (partBlobs Fmt.recordio (rss.map writeAll) k n w dw (fun _ => false))
      = some (recsIn rss.flatten 0 (bndR rss n k) (bndR rss n (k + 1))) :=
  C04_part_chunk_reader rss n w dw hne hrss ht hn hw2 hw k hk q
    (fun i => C04_fits_small _ _ ht (hq i).1 (hq i).2)

/-- MAIN (all parts): every part consumed with `NextChunk` only, chunk `i` of part `k` through
`RecordIOChunkReader` with `q k i ≥ 1` sub-parts: nothing fails, and the records returned, concatenated over
the parts `0..n-1`, are exactly the written records, in order, byte-identical, each exactly once -/
theorem C04_parts_cover_chunk_reader (rss : List (List Bytes)) (n w dw : Nat) (hne : rss ≠ [])
    (hrss : ∀ rs ∈ rss, rs ≠ [] ∧ ∀ r ∈ rs, r.length < 2^29) (ht : totalSize (rss.map writeAll) < 2^56)
    (hn0 : 0 < n) (hn : n < 2^32) (hw2 : 2 ≤ w) (hw : w < 2^56) (q : Nat → Nat → Nat)
    (hq : ∀ k i, 0 < q k i ∧ q k i + 1 < 2^32 ∧ (totalSize (rss.map writeAll) + 3) * q k i < 2^64) :
    ∃ parts : List (List Bytes),
      (List.range n).map
          (fun k => chunkRecs (q k) (partBlobs Fmt.recordio (rss.map writeAll) k n w dw (fun _ => false)))
        = parts.map some ∧
      parts.flatten = rss.flatten := by
  refine ⟨(List.range n).map (fun k => recsIn rss.flatten 0 (bndR rss n k) (bndR rss n (k + 1))), ?_, ?_⟩
  · rw [List.map_map]
    apply List.map_congr_left
    intro k hk
    rw [C04_part_chunk_reader rss n w dw hne hrss ht hn hw2 hw k (List.mem_range.1 hk) (q k) (hq k)]
    rfl
  · rw [← List.flatMap_def]
    have ht62 : totalSize (recFiles rss) < 2^62 := Nat.lt_of_lt_of_le ht (by omega)
    exact records_parts_telescope rss (rssOk_of rss hrss) hne ht62 n hn0 hn

/-- all parts, at most 255 sub-parts per chunk -/
theorem C04_parts_cover_chunk_reader_small (rss : List (List Bytes)) (n w dw : Nat) (hne : rss ≠ [])
    (hrss : ∀ rs ∈ rss, rs ≠ [] ∧ ∀ r ∈ rs, r.length < 2^29) (ht : totalSize (rss.map writeAll) < 2^56)
    (hn0 : 0 < n) (hn : n < 2^32) (hw2 : 2 ≤ w) (hw : w < 2^56) (q : Nat → Nat → Nat)
    (hq : ∀ k i, 0 < q k i ∧ q k i ≤ 255) :
    ∃ parts : List (List Bytes),
      (List.range n).map
          (fun k => chunkRecs (q k) (partBlobs Fmt.recordio (rss.map writeAll) k n w dw (fun _ => false)))
        = parts.map some ∧
      parts.flatten = rss.flatten :=
  C04_parts_cover_chunk_reader rss n w dw hne hrss ht hn0 hn hw2 hw q
    (fun k i => C04_fits_small _ _ ht (hq k i).1 (hq k i).2)

/-- chunk mode through the chunk reader agrees with every other way of consuming the part (`recordsOf`:
`NextRecord` blobs / `NextChunk` blobs read back with `RecordIOReader`), for any buffer sizes -/
theorem C04_chunk_reader_agrees (rss : List (List Bytes)) (n w dw : Nat) (hne : rss ≠ [])
    (hrss : ∀ rs ∈ rss, rs ≠ [] ∧ ∀ r ∈ rs, r.length < 2^29) (ht : totalSize (rss.map writeAll) < 2^56)
    (hn : n < 2^32) (hw2 : 2 ≤ w) (hw : w < 2^56) (w' dw' : Nat) (hw2' : 2 ≤ w') (hw' : w' < 2^56)
    (k : Nat) (hk : k < n) (q : Nat → Nat)
    (hq : ∀ i, 0 < q i ∧ q i + 1 < 2^32 ∧ (totalSize (rss.map writeAll) + 3) * q i < 2^64)
    (pick : Nat → Bool) :
    chunkRecs q (partBlobs Fmt.recordio (rss.map writeAll) k n w dw (fun _ => false))
      = some (recordsOf pick (partBlobs Fmt.recordio (rss.map writeAll) k n w' dw' pick)) := by
  rw [C04_part_chunk_reader rss n w dw hne hrss ht hn hw2 hw k hk q hq,
    C04_part_records_any_mode rss n w' dw' hne hrss ht hn hw2' hw' k hk pick]

/-! ### non-vacuity: the witness of `C04Witness.lean` (`wrss`, 7 parts, 2- and 3-word buffers, 1..3 sub-parts) -/

/-- evaluated on the model: 7 parts, 2-word buffer, every chunk tiled into 2 sub-parts -/
example : ((List.range 7).map fun k =>
      chunkRecs (fun _ => 2) (partBlobs Fmt.recordio (wrss.map writeAll) k 7 2 4 (fun _ => false)))
    = [some [w9], some [], some [], some [[]], some [[1, 2, 3, 4, 5]], some [], some []] := by decide

/-- 3-word buffer, the number of sub-parts changes from chunk to chunk and from part to part (1, 2, 3) -/
example : ((List.range 7).map fun k =>
      chunkRecs (fun i => (k + i) % 3 + 1) (partBlobs Fmt.recordio (wrss.map writeAll) k 7 3 4 (fun _ => false)))
    = [some [w9], some [], some [], some [[]], some [[1, 2, 3, 4, 5]], some [], some []] := by decide

/-- 1 part, 3-word buffer: the single chunk holds all three records (it spans both files), 3 sub-parts split
them, the last one is empty -/
example : okOf (partBlobs Fmt.recordio (wrss.map writeAll) 0 1 3 4 (fun _ => false)) = some [writeAll wrss.flatten]
    ∧ (List.range 3).map (fun j => chunkPart (writeAll wrss.flatten) j 3)
        = [some [w9], some [[], [1, 2, 3, 4, 5]], some []]
    ∧ chunkReaderRecords (writeAll wrss.flatten) 3 = some wrss.flatten := by decide

example : Fits (writeAll wrss.flatten).length 3 := by unfold Fits; decide

example : chunkReaderRecords (writeAll wrss.flatten) 3 = some wrss.flatten :=
  C04_chunk_reader_one wrss.flatten (by decide) 3 (by unfold Fits; decide)

example : chunkRecs (fun i => i % 3 + 1) (partBlobs Fmt.recordio (wrss.map writeAll) 0 7 3 4 (fun _ => false))
    = some (recsIn wrss.flatten 0 (bndR wrss 7 0) (bndR wrss 7 1)) :=
  C04_part_chunk_reader wrss 7 3 4 (by decide) (by decide) (by decide) (by decide) (by decide) (by decide) 0
    (by decide) (fun i => i % 3 + 1)
    (fun i => C04_fits_small _ _ (by decide) (by omega) (by omega))

example : ∃ parts : List (List Bytes),
    (List.range 7).map (fun k => chunkRecs (fun i => (k + i) % 3 + 1)
        (partBlobs Fmt.recordio (wrss.map writeAll) k 7 2 4 (fun _ => false))) = parts.map some ∧
    parts.flatten = wrss.flatten :=
  C04_parts_cover_chunk_reader_small wrss 7 2 4 (by decide) (by decide) (by decide) (by decide) (by decide)
    (by decide) (by decide) (fun k i => (k + i) % 3 + 1) (fun k i => ⟨by omega, by omega⟩)

end DmlcModel.Props.C04
