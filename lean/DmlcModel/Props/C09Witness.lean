/-
C09 witnesses.
(1) The PINNED BeforeFirst (no re-check under the lock, `rk = false`) hangs: a reachable state with the consumer
    inside BeforeFirst in which no transition other than a spurious wake-up is enabled, ever again.
    Schedule (7 transitions, replayed on the real code by the harness, where the scheduler reports the deadlock):
    consumer starts BeforeFirst and passes the first ThrowExceptionIfSet; the producer's first produce call
    throws, it records the exception, takes `mutex_`, sees `kProduce`, raises `produce_end_`, exits; the consumer
    takes `mutex_`, posts `kBeforeFirst`, finds `nwait_producer_ = 0`, waits for `producer_sig_processed_`.
(2) The same schedule on the repaired code (`rk = true`) ends with BeforeFirst returning the error.
(3) Non-vacuity of the C09 theorems: reachable states with a failure in which calls are in progress.
-/
import DmlcModel.TIter.Corollaries

namespace DmlcModel.Props.C09Witness
open DmlcModel DmlcModel.TIter DmlcModel.Gen.TIter

/-- the very first produce call throws -/
def Pw : Params := { src := fun _ _ => .throw, rew := fun _ => .ok, cap := 1 }

def sched : List Event := [.bStart, .xStep, .prod, .prod, .prod, .prod, .xStep]

/-- the state the pinned code is left in -/
def stuck : State :=
  { init with sig := kBeforeFirst, produceEnd := true, exc := true, ploc := .exited, xloc := .bWait, thrown := true,
              bfPosted := 1 }

theorem C09_hang_reached : runEvents false Pw init sched = some stuck := by rfl

theorem C09_hang_reachable : ReachableR false Pw stuck :=
  reachable_run sched init stuck ReachableR.init C09_hang_reached

/-- the consumer is inside BeforeFirst and nothing but a spurious wake-up can ever happen again:
`C09_no_hang` is false for the pinned code -/
theorem C09_hang_pinned :
    ReachableR false Pw stuck ∧ inCall stuck ∧
    (∀ e : Event, e.isProgress = true → stepR false Pw stuck e = none) ∧
    (∀ e s', stepR false Pw stuck e = some s' → e = .xSpur ∧ s' = { stuck with xloc := .bWoken }) ∧
    stepR false Pw { stuck with xloc := .bWoken } .xStep = some stuck := by
  refine ⟨C09_hang_reachable, Or.inr (by decide), ?_, ?_, by rfl⟩
  · intro e he
    cases e <;> first | rfl | (simp [Event.isProgress, Event.isSpurious, Event.isStart] at he)
  · intro e s' hs
    cases e <;> first | (exact ⟨rfl, by injection hs with hs; exact hs.symm⟩) | (exact absurd hs (by decide)) | skip
    all_goals (simp [stepR, prodStep, xStep, stuck, init, busy] at hs)

/-- the repaired code on the same schedule: BeforeFirst sees the exception under the lock and returns the error -/
theorem C09_fix_resolves :
    ∃ t, runEvents true Pw init sched = some t ∧ t.ret = .err ∧ t.xloc = .idle ∧ t.sig = kProduce := by
  refine ⟨_, rfl, rfl, rfl, rfl⟩

/-- non-vacuity: a reachable state (repaired code) where the producer has failed mid-stream while one consumer
waits in Next and another holds a cell -/
def Pmid : Params := { src := fun _ i => if i < 1 then .item i else .throw, rew := fun _ => .ok, cap := 2 }

example : ∃ t, runEvents true Pmid init
    [.prod, .prod, .prod, .prod, .nStart false, .nLoadSig, .nExc, .nLock, .nStart false, .nLoadSig, .nExc, .nLock,
     .prod, .prod] = some t ∧ t.thrown = true ∧ t.exc = false ∧ t.nW = 1 ∧ t.lent = [0] ∧ t.ploc = .catchRec := by
  refine ⟨_, rfl, rfl, rfl, rfl, rfl, rfl⟩

end DmlcModel.Props.C09Witness
