/-
C06 — indexed RecordIO: index-range parts and shuffled epochs cover each record once.
Property theorems only; the model is DmlcModel/Indexed/Model.lean, the invariant and the lemmas are in
DmlcModel/Indexed/{Spec,Ops,Batch,Run,Index}.lean.  The theorems are about the code WITH the three repairs
of defect F2 (fixes/C06-1..3.diff); whether they are present is read from the source on every run
(`Gen.Indexed.readIndexSentinel`, `resetPushesSentinel`, `emptyAssigns`, `nextRecordOwn`) and the lemmas
`fix_*` in Indexed/Spec.lean stop compiling when one is missing.
-/
import DmlcModel.Indexed.Wrap

namespace DmlcModel.Props.C06
open DmlcModel DmlcModel.Indexed
open DmlcModel.RecordIO (writeAll writeRecord)

/-- what the property quantifies over: `N ≥ 1` records as in C01 (each shorter than 2^29 bytes), a data
file below 2^62 bytes, index lines listing the record start offsets in any order -/
structure Input (rs : List Bytes) (idx : List Nat) : Prop where
  ne : rs ≠ []
  short : ∀ r ∈ rs, r.length < 2 ^ 29
  bnd : (writeAll rs).length < 2 ^ 62
  idx : idx.Perm (starts rs)

/-- the k-th of n contiguous slices of width `⌈N/n⌉` of the offset-sorted record list -/
def slice (rs : List Bytes) (n k : Nat) : List Bytes :=
  (rs.drop (k * Indexed.step rs.length n)).take (Indexed.step rs.length n)

/-- the records at the positions `p` (a shuffled pass) -/
def permuted (rs : List Bytes) (p : List Nat) : List Bytes := p.filterMap (fun i => rs[i]?)

/-- positions of slice `k` of `n` -/
def slicePositions (N n k : Nat) : List Nat := List.range' (sliceBegin N n k) (sliceEnd N n k - sliceBegin N n k)

/-- records obtained by consuming an object to the end, the i-th call being `sched i`
(`NextRecord` / `NextBatch(b)` / `NextChunk`); `none` = some call ended abnormally -/
def drainRecs (sched : Nat → Pull) (s : St) : Option (List Bytes) :=
  match drain sched (s.chunk.rest.length + s.file.length + 1) 0 s with
  | .ok evs => some (evs.flatMap decode)
  | .error _ => none

/-- part `k` of `n`, constructed and consumed to the end -/
def partRecs (rs : List Bytes) (idx : List Nat) (k n batch : Nat) (shuffle : Bool) (w : Nat) (p : List Nat)
    (sched : Nat → Pull) : Option (List Bytes) :=
  match mk (writeAll rs) idx k n batch shuffle w p with
  | .ok s => drainRecs sched s
  | .error _ => none

theorem seg_eq_slice (rs : List Bytes) (n k : Nat) :
    seg rs (sliceBegin rs.length n k) (sliceEnd rs.length n k) = slice rs n k := by
  unfold seg slice; exact slice_eq rs n k

theorem unread_length_le (rs : List Bytes) (s : St) (ib ie : Nat) (hc : Core rs s ib ie) :
    (unread rs s).length ≤ rs.length := by
  obtain ⟨cur, hcur, _, hcr⟩ := hc.cur
  have hleN := hc.leN
  unfold unread
  rw [hcur, hc.hie]
  by_cases hsh : s.shuffle = true
  · simp only [hsh, if_true]
    have hp := (hc.shuf hsh).length_eq
    have h1 := List.length_filterMap_le (fun i => rs[i]?) (s.perm.drop cur)
    have h2 : (s.perm.drop cur).length ≤ s.perm.length := by rw [List.length_drop]; omega
    simp at hp
    omega
  · simp only [hsh]
    unfold seg
    simp
    omega

theorem drainRecs_of_inv (rs : List Bytes) (idx : List Nat) (hin : Input rs idx) (s : St) (ib ie : Nat)
    (pend : List Bytes) (hi : Inv rs s ib ie pend) (sched : Nat → Pull) (hsched : ∀ i, PullOk (sched i)) :
    drainRecs sched s = some (pend ++ unread rs s) := by
  have hN := length_le_of_bnd rs hin.short
  have h1 : 8 * pend.length ≤ (writeAll pend).length := length_le_of_bnd pend hi.short
  have h2 := unread_length_le rs s ib ie hi.core
  have hlen : (pend ++ unread rs s).length < s.chunk.rest.length + s.file.length + 1 := by
    rw [hi.rest, hi.core.file, List.length_append]; omega
  obtain ⟨evs, e1, e2⟩ := drain_spec rs hin.short hin.bnd sched hsched _ 0 s ib ie pend hi hlen
  unfold drainRecs
  rw [e1]
  dsimp only
  rw [e2]


/-! ### slice arithmetic at the index level -/

/-- the `n` slices of width `⌈N/n⌉` tile the record list: parts together are every record exactly once, in order -/
theorem C06_slices_tile (rs : List Bytes) (n : Nat) (hn : 0 < n) : (List.range n).flatMap (slice rs n) = rs := by
  unfold slice
  rw [flatMap_slices rs (Indexed.step rs.length n) n, List.take_of_length_le (step_cover rs.length n hn)]

/-- at the level of index positions: the position ranges of the parts are consecutive and cover `[0, N)` -/
theorem C06_positions_tile (N n : Nat) (hn : 0 < n) : (List.range n).flatMap (slicePositions N n) = List.range N := by
  have key : ∀ k, slicePositions N n k = (List.range N |>.drop (k * Indexed.step N n)).take (Indexed.step N n) := by
    intro k
    have := slice_eq (List.range N) n k
    simp only [List.length_range] at this
    rw [← this]
    unfold slicePositions
    apply List.ext_getElem?
    intro i
    have hle := sliceBegin_le_end N n k
    have hN := sliceEnd_le N n k
    by_cases hi : i < sliceEnd N n k - sliceBegin N n k
    · rw [List.getElem?_range' hi, List.getElem?_take, if_pos hi, List.getElem?_drop, List.getElem?_range (by omega)]
      simp
    · rw [List.getElem?_eq_none (by simp; omega), List.getElem?_eq_none (by simp; omega)]
  have key' : slicePositions N n = fun k => (List.range N |>.drop (k * Indexed.step N n)).take (Indexed.step N n) :=
    funext key
  rw [key', flatMap_slices (List.range N) (Indexed.step N n) n, List.take_of_length_le (by simpa using step_cover N n hn)]

/-! ### the bare class -/

/-- **C06_slice.** Without shuffling, part `k` of `n` yields exactly the records at the sorted-index positions
of the k-th slice, byte-identical and in order — for index lines in any order, any batch size, whatever mix of
`NextRecord` / `NextBatch(b)` / `NextChunk` calls consumes it. -/
theorem C06_slice (rs : List Bytes) (idx : List Nat) (hin : Input rs idx) (k n batch w : Nat) (p : List Nat)
    (hn : 0 < n) (hn32 : n < 2 ^ 32) (hk : k < n) (hbatch : 1 ≤ batch ∧ batch < 2 ^ 32)
    (sched : Nat → Pull) (hsched : ∀ i, PullOk (sched i)) :
    partRecs rs idx k n batch false w p sched = some (slice rs n k) := by
  obtain ⟨s, e1, e2, e3, e4⟩ := mk_spec rs hin.short hin.bnd hin.ne idx hin.idx k n batch false w p hn hn32 hk hbatch
    (fun h => by simp at h)
  unfold partRecs
  rw [e1]
  dsimp only
  rw [drainRecs_of_inv rs idx hin s _ _ [] e2 sched hsched, e4]
  simp [passOrder, seg_eq_slice]

/-- **C06_parts_cover.** The parts `0 .. n-1` together yield every record exactly once, byte-identical. -/
theorem C06_parts_cover (rs : List Bytes) (idx : List Nat) (hin : Input rs idx) (n batch w : Nat)
    (hn : 0 < n) (hn32 : n < 2 ^ 32) (hbatch : 1 ≤ batch ∧ batch < 2 ^ 32)
    (sched : Nat → Nat → Pull) (hsched : ∀ k i, PullOk (sched k i)) :
    (∀ k, k < n → partRecs rs idx k n batch false w [] (sched k) = some (slice rs n k)) ∧
    (List.range n).flatMap (slice rs n) = rs :=
  ⟨fun k hk => C06_slice rs idx hin k n batch w [] hn hn32 hk hbatch (sched k) (hsched k), C06_slices_tile rs n hn⟩

theorem permuted_perm (rs : List Bytes) (p : List Nat) (ib ie : Nat) (hle : ib ≤ ie) (hN : ie ≤ rs.length)
    (hp : p.Perm (List.range' ib (ie - ib))) : (permuted rs p).Perm (seg rs ib ie) := by
  unfold permuted
  rw [← filterMap_range' rs ib ie hle hN]
  exact hp.filterMap _

/-- **C06_shuffled_pass.** With shuffling, after any history of pulls and `BeforeFirst` calls, the pass started
by `BeforeFirst` (whose shuffle produced `p`) yields exactly the slice's records in the order `p` — hence a
permutation of the slice that depends only on what the seeded generator produced — however it is consumed. -/
theorem C06_shuffled_pass (rs : List Bytes) (idx : List Nat) (hin : Input rs idx) (k n batch w : Nat) (p₀ : List Nat)
    (hn : 0 < n) (hn32 : n < 2 ^ 32) (hk : k < n) (hbatch : 1 ≤ batch ∧ batch < 2 ^ 32)
    (hp₀ : p₀.Perm (slicePositions rs.length n k))
    (ops : List Op) (hops : OpsOk rs.length true (sliceBegin rs.length n k) (sliceEnd rs.length n k) ops)
    (hnoreset : finalSlice rs.length (sliceBegin rs.length n k) (sliceEnd rs.length n k) ops =
      (sliceBegin rs.length n k, sliceEnd rs.length n k))
    (p : List Nat) (hp : p.Perm (slicePositions rs.length n k))
    (sched : Nat → Pull) (hsched : ∀ i, PullOk (sched i)) :
    ∃ s₀ s₁ s₂, mk (writeAll rs) idx k n batch true w p₀ = .ok s₀ ∧ run s₀ ops = .ok s₁ ∧
      beforeFirst s₁ p = .ok s₂ ∧ drainRecs sched s₂ = some (permuted rs p) ∧
      (permuted rs p).Perm (slice rs n k) := by
  obtain ⟨s₀, e1, e2, e3, _⟩ := mk_spec rs hin.short hin.bnd hin.ne idx hin.idx k n batch true w p₀ hn hn32 hk hbatch
    (fun _ => hp₀)
  obtain ⟨s₁, pend, f1, f2, f3⟩ := run_spec rs hin.short hin.bnd ops s₀ _ _ [] e2 (by rw [e3]; exact hops)
  rw [hnoreset] at f2
  obtain ⟨s₂, g1, g2, g3, g4⟩ := bf_inv rs hin.short hin.bnd s₁ _ _ pend p f2 (fun _ => hp)
  refine ⟨s₀, s₁, s₂, e1, f1, g1, ?_, ?_⟩
  · rw [drainRecs_of_inv rs idx hin s₂ _ _ [] g2 sched hsched, g4, f3, e3]
    simp [passOrder, permuted]
  · rw [← seg_eq_slice]
    exact permuted_perm rs p _ _ (sliceBegin_le_end _ _ _) (sliceEnd_le _ _ _) hp

/-- **C06_batch_independent.** The record list of a part does not depend on the batch size given at
construction, nor on how the part is consumed (singly, in batches of any sizes, in chunks, or any mixture). -/
theorem C06_batch_independent (rs : List Bytes) (idx : List Nat) (hin : Input rs idx) (k n w : Nat) (shuffle : Bool)
    (p : List Nat) (hn : 0 < n) (hn32 : n < 2 ^ 32) (hk : k < n)
    (hp : shuffle = true → p.Perm (slicePositions rs.length n k))
    (b₁ b₂ : Nat) (hb₁ : 1 ≤ b₁ ∧ b₁ < 2 ^ 32) (hb₂ : 1 ≤ b₂ ∧ b₂ < 2 ^ 32)
    (sched₁ sched₂ : Nat → Pull) (h₁ : ∀ i, PullOk (sched₁ i)) (h₂ : ∀ i, PullOk (sched₂ i)) :
    partRecs rs idx k n b₁ shuffle w p sched₁ = partRecs rs idx k n b₂ shuffle w p sched₂ ∧
    partRecs rs idx k n b₁ shuffle w p sched₁ =
      some (if shuffle then permuted rs p else slice rs n k) := by
  have key : ∀ b (hb : 1 ≤ b ∧ b < 2 ^ 32) sched (hs : ∀ i, PullOk (sched i)),
      partRecs rs idx k n b shuffle w p sched = some (if shuffle then permuted rs p else slice rs n k) := by
    intro b hb sched hs
    obtain ⟨s, e1, e2, e3, e4⟩ := mk_spec rs hin.short hin.bnd hin.ne idx hin.idx k n b shuffle w p hn hn32 hk hb hp
    unfold partRecs
    rw [e1]
    dsimp only
    rw [drainRecs_of_inv rs idx hin s _ _ [] e2 sched hs, e4]
    cases shuffle <;> simp [passOrder, permuted, seg_eq_slice]
  exact ⟨by rw [key b₁ hb₁ sched₁ h₁, key b₂ hb₂ sched₂ h₂], key b₁ hb₁ sched₁ h₁⟩

/-- **C06_no_uninit.** No history of `NextRecord` / `NextBatch` / `NextChunk` / `BeforeFirst` / `ResetPartition`
calls on an object constructed for any part — including parts that receive no records — ends abnormally: no
read of an uninitialised member, no out-of-range access, no failed `CHECK`; and the object can still be
consumed to the end afterwards. -/
theorem C06_no_uninit (rs : List Bytes) (idx : List Nat) (hin : Input rs idx) (k n batch w : Nat) (shuffle : Bool)
    (p₀ : List Nat) (hn : 0 < n) (hn32 : n < 2 ^ 32) (hk : k < n) (hbatch : 1 ≤ batch ∧ batch < 2 ^ 32)
    (hp₀ : shuffle = true → p₀.Perm (slicePositions rs.length n k))
    (ops : List Op) (hops : OpsOk rs.length shuffle (sliceBegin rs.length n k) (sliceEnd rs.length n k) ops)
    (sched : Nat → Pull) (hsched : ∀ i, PullOk (sched i)) :
    ∃ s₀ s₁ recs, mk (writeAll rs) idx k n batch shuffle w p₀ = .ok s₀ ∧ run s₀ ops = .ok s₁ ∧
      drainRecs sched s₁ = some recs := by
  obtain ⟨s₀, e1, e2, e3, _⟩ := mk_spec rs hin.short hin.bnd hin.ne idx hin.idx k n batch shuffle w p₀ hn hn32 hk hbatch hp₀
  obtain ⟨s₁, pend, f1, f2, _⟩ := run_spec rs hin.short hin.bnd ops s₀ _ _ [] e2 (by rw [e3]; exact hops)
  exact ⟨s₀, s₁, _, e1, f1, drainRecs_of_inv rs idx hin s₁ _ _ pend f2 sched hsched⟩

/-- **C06_reset_history.** However many `ResetPartition` (and other) calls an object has seen, after
`ResetPartition(k, n)` it yields exactly what a freshly constructed part `(k, n)` yields: the slice, in order
without shuffling, in the order of the shuffle result `p` with shuffling. -/
theorem C06_reset_history (rs : List Bytes) (idx : List Nat) (hin : Input rs idx) (k₀ n₀ batch w : Nat) (shuffle : Bool)
    (p₀ : List Nat) (hn₀ : 0 < n₀) (hn₀32 : n₀ < 2 ^ 32) (hk₀ : k₀ < n₀) (hbatch : 1 ≤ batch ∧ batch < 2 ^ 32)
    (hp₀ : shuffle = true → p₀.Perm (slicePositions rs.length n₀ k₀))
    (ops : List Op) (hops : OpsOk rs.length shuffle (sliceBegin rs.length n₀ k₀) (sliceEnd rs.length n₀ k₀) ops)
    (k n : Nat) (p : List Nat) (hn : 0 < n) (hn32 : n < 2 ^ 32) (hk : k < n)
    (hp : shuffle = true → p.Perm (slicePositions rs.length n k))
    (sched : Nat → Pull) (hsched : ∀ i, PullOk (sched i)) :
    ∃ s₀ s₁ s₂, mk (writeAll rs) idx k₀ n₀ batch shuffle w p₀ = .ok s₀ ∧ run s₀ ops = .ok s₁ ∧
      resetPartition s₁ k n p = .ok s₂ ∧
      drainRecs sched s₂ = some (if shuffle then permuted rs p else slice rs n k) := by
  obtain ⟨s₀, e1, e2, e3, _⟩ := mk_spec rs hin.short hin.bnd hin.ne idx hin.idx k₀ n₀ batch shuffle w p₀ hn₀ hn₀32 hk₀ hbatch hp₀
  obtain ⟨s₁, pend, f1, f2, f3⟩ := run_spec rs hin.short hin.bnd ops s₀ _ _ [] e2 (by rw [e3]; exact hops)
  obtain ⟨s₂, g1, g2, g3, g4⟩ := reset_inv rs hin.short hin.bnd s₁ k n p f2.core.file f2.core.index f2.batch hn hn32 hk
    (by rw [f3, e3]; exact hp)
  refine ⟨s₀, s₁, s₂, e1, f1, g1, ?_⟩
  rw [drainRecs_of_inv rs idx hin s₂ _ _ [] g2 sched hsched, g4, f3, e3]
  cases shuffle <;> simp [passOrder, permuted, seg_eq_slice]


/-! ### the public path: `InputSplit::Create(uri, index_uri, k, n, "indexed_recordio", shuffle, seed, batch)`

`W` is the object `Create` returns (the prefetching wrapper around the splitter): it pulls `NextBatchEx(batch)`
and hands out records (`NextRecord`) or whole batches (`NextChunk`). -/

/-- records obtained by consuming the wrapped object to the end -/
def wdrainRecs (dw : Nat) (sched : Nat → WPull) (w : W) : Option (List Bytes) :=
  match wdrain dw sched ((match w.cur with | some c => c.rest.length | none => 0) + w.base.file.length + 1) 0 w with
  | .ok evs => some (evs.flatMap wdecode)
  | .error _ => none

theorem wdrainRecs_of_inv (rs : List Bytes) (idx : List Nat) (hin : Input rs idx) (dw : Nat) (w : W) (ib ie : Nat)
    (pend : List Bytes) (hi : WInv rs w ib ie pend) (sched : Nat → WPull) :
    wdrainRecs dw sched w = some (pend ++ unread rs w.base) := by
  have hN := length_le_of_bnd rs hin.short
  have h1 : 8 * pend.length ≤ (writeAll pend).length := length_le_of_bnd pend hi.short
  have h2 := unread_length_le rs w.base ib ie hi.core
  have hlen : (pend ++ unread rs w.base).length <
      (match w.cur with | some c => c.rest.length | none => 0) + w.base.file.length + 1 := by
    have hc := hi.cur
    rw [hi.core.file, List.length_append]
    cases hw : w.cur with
    | none => rw [hw] at hc; subst hc; simp; omega
    | some c => rw [hw] at hc; dsimp only; rw [hc.1]; omega
  obtain ⟨evs, e1, e2⟩ := wdrain_spec rs hin.short hin.bnd dw sched _ 0 w ib ie pend hi hlen
  unfold wdrainRecs
  rw [e1]
  dsimp only
  rw [e2]

/-- **C06, public path, one statement for every history.**  For every part `(k₀, n₀)` (also one that receives no
records), every batch size, shuffle on or off, every history `ops` of `NextRecord` / `NextChunk` / `BeforeFirst`
/ `ResetPartition` calls on the created object: nothing ends abnormally (no uninitialised read, no
out-of-range access, no failed `CHECK`), and a pass started afterwards by `ResetPartition(k, n)` — consumed by
records, by chunks or any mixture — yields exactly slice `k` of `n`: in index order without shuffling, in the
order of the shuffle result with shuffling (a permutation of the slice). -/
theorem C06_public_history (rs : List Bytes) (idx : List Nat) (hin : Input rs idx) (k₀ n₀ batch dw : Nat)
    (shuffle : Bool) (p₀ : List Nat) (hn₀ : 0 < n₀) (hn₀32 : n₀ < 2 ^ 32) (hk₀ : k₀ < n₀)
    (hbatch : 1 ≤ batch ∧ batch < 2 ^ 32) (hp₀ : shuffle = true → p₀.Perm (slicePositions rs.length n₀ k₀))
    (ops : List WOp) (hops : WOpsOk rs.length shuffle (sliceBegin rs.length n₀ k₀) (sliceEnd rs.length n₀ k₀) ops)
    (k n : Nat) (p₁ p₂ : List Nat) (hn : 0 < n) (hn32 : n < 2 ^ 32) (hk : k < n)
    (hp : shuffle = true → p₁.Perm (slicePositions rs.length n k) ∧ p₂.Perm (slicePositions rs.length n k))
    (sched : Nat → WPull) :
    ∃ w₀ w₁ w₂, W.create (writeAll rs) idx k₀ n₀ batch shuffle dw p₀ = .ok w₀ ∧ wrun dw w₀ ops = .ok w₁ ∧
      w₁.resetPartition k n p₁ p₂ = .ok w₂ ∧
      wdrainRecs dw sched w₂ = some (if shuffle then permuted rs p₂ else slice rs n k) ∧
      (shuffle = true → (permuted rs p₂).Perm (slice rs n k)) := by
  obtain ⟨w₀, e1, e2, e3, _⟩ := create_spec rs hin.short hin.bnd hin.ne idx hin.idx k₀ n₀ batch shuffle dw p₀ hn₀ hn₀32 hk₀
    hbatch hp₀
  obtain ⟨w₁, pend, f1, f2, f3⟩ := wrun_spec rs hin.short hin.bnd dw ops w₀ _ _ [] e2 (by rw [e3]; exact hops)
  obtain ⟨w₂, g1, g2, g3, g4⟩ := wreset_inv rs hin.short hin.bnd w₁ k n p₁ p₂ f2.core.file f2.core.index f2.batch hn hn32 hk
    (by rw [f3, e3]; exact hp)
  refine ⟨w₀, w₁, w₂, e1, f1, g1, ?_, ?_⟩
  · rw [wdrainRecs_of_inv rs idx hin dw w₂ _ _ [] g2 sched, g4, f3, e3]
    cases shuffle <;> simp [passOrder, permuted, seg_eq_slice]
  · intro hsh
    rw [← seg_eq_slice]
    exact permuted_perm rs p₂ _ _ (sliceBegin_le_end _ _ _) (sliceEnd_le _ _ _) (hp hsh).2

/-- **C06, public path: a freshly created part.**  `Create(.., k, n, .., shuffle, seed, batch)` consumed to the end
by records, by chunks or any mixture yields slice `k` of `n` (permuted by the first shuffle result `p` when
shuffling), independently of `batch`. -/
theorem C06_public_slice (rs : List Bytes) (idx : List Nat) (hin : Input rs idx) (k n batch dw : Nat) (shuffle : Bool)
    (p : List Nat) (hn : 0 < n) (hn32 : n < 2 ^ 32) (hk : k < n) (hbatch : 1 ≤ batch ∧ batch < 2 ^ 32)
    (hp : shuffle = true → p.Perm (slicePositions rs.length n k)) (sched : Nat → WPull) :
    ∃ w, W.create (writeAll rs) idx k n batch shuffle dw p = .ok w ∧
      wdrainRecs dw sched w = some (if shuffle then permuted rs p else slice rs n k) := by
  obtain ⟨w, e1, e2, e3, e4⟩ := create_spec rs hin.short hin.bnd hin.ne idx hin.idx k n batch shuffle dw p hn hn32 hk hbatch hp
  refine ⟨w, e1, ?_⟩
  rw [wdrainRecs_of_inv rs idx hin dw w _ _ [] e2 sched, e4]
  cases shuffle <;> simp [passOrder, permuted, seg_eq_slice]

/-- **C06, public path: every pass.**  After any history, `BeforeFirst` (shuffle result `p`) starts a pass that
yields the records of the slice currently selected, in the order `p` (shuffling) or in index order. -/
theorem C06_public_pass (rs : List Bytes) (idx : List Nat) (hin : Input rs idx) (k₀ n₀ batch dw : Nat)
    (shuffle : Bool) (p₀ : List Nat) (hn₀ : 0 < n₀) (hn₀32 : n₀ < 2 ^ 32) (hk₀ : k₀ < n₀)
    (hbatch : 1 ≤ batch ∧ batch < 2 ^ 32) (hp₀ : shuffle = true → p₀.Perm (slicePositions rs.length n₀ k₀))
    (ops : List WOp) (hops : WOpsOk rs.length shuffle (sliceBegin rs.length n₀ k₀) (sliceEnd rs.length n₀ k₀) ops)
    (p : List Nat)
    (hp : shuffle = true → p.Perm (List.range'
            (wfinalSlice rs.length (sliceBegin rs.length n₀ k₀) (sliceEnd rs.length n₀ k₀) ops).1
            ((wfinalSlice rs.length (sliceBegin rs.length n₀ k₀) (sliceEnd rs.length n₀ k₀) ops).2 -
              (wfinalSlice rs.length (sliceBegin rs.length n₀ k₀) (sliceEnd rs.length n₀ k₀) ops).1)))
    (sched : Nat → WPull) :
    ∃ w₀ w₁ w₂, W.create (writeAll rs) idx k₀ n₀ batch shuffle dw p₀ = .ok w₀ ∧ wrun dw w₀ ops = .ok w₁ ∧
      w₁.beforeFirst p = .ok w₂ ∧
      wdrainRecs dw sched w₂ = some (if shuffle then permuted rs p else
        seg rs (wfinalSlice rs.length (sliceBegin rs.length n₀ k₀) (sliceEnd rs.length n₀ k₀) ops).1
               (wfinalSlice rs.length (sliceBegin rs.length n₀ k₀) (sliceEnd rs.length n₀ k₀) ops).2) := by
  obtain ⟨w₀, e1, e2, e3, _⟩ := create_spec rs hin.short hin.bnd hin.ne idx hin.idx k₀ n₀ batch shuffle dw p₀ hn₀ hn₀32 hk₀
    hbatch hp₀
  obtain ⟨w₁, pend, f1, f2, f3⟩ := wrun_spec rs hin.short hin.bnd dw ops w₀ _ _ [] e2 (by rw [e3]; exact hops)
  obtain ⟨w₂, g1, g2, g3, g4⟩ := wbf_inv rs hin.short hin.bnd w₁ _ _ p f2.core.base f2.bchunk f2.batch
    (by rw [f3, e3]; exact hp)
  refine ⟨w₀, w₁, w₂, e1, f1, g1, ?_⟩
  rw [wdrainRecs_of_inv rs idx hin dw w₂ _ _ [] g2 sched, g4, f3, e3]
  cases shuffle <;> simp [passOrder, permuted]

end DmlcModel.Props.C06
