/-
C05 / C03, end to end for InputSplitShuffle over text files: the wrapper model (Split/Shuffle.lean) with its inner split
instantiated by the Split model itself.  `C05_shuffle_text_cover`: for every file list, every number of parts n, every number
of shuffle parts m, every buffer size and EVERY order the shuffles produce, the n parts together deliver each non-empty line
exactly once.
-/
import DmlcModel.Props.C03
import DmlcModel.Props.C05Shuffle
namespace DmlcModel.Props.C05
open DmlcModel DmlcModel.Split DmlcModel.Split.Shuffle

/-- what a freshly created text split delivers for part `i` of `N` (NextRecord, canonical lines): the contract `sub` of
the InputSplitShuffle model, instantiated with the Split model -/
def textSub (files : List Bytes) (N w dw : Nat) (i : Nat) : Shuffle.Res (List Bytes) :=
  match partBlobs Fmt.text files i N w dw (fun _ => true) with
  | .ok bs => .ok (bs.flatMap canon)
  | .error e => .error e

theorem range_mul_flatMap {β : Type} (f : Nat → List β) (n m : Nat) :
    (List.range n).flatMap (fun k => (List.range m).flatMap (fun j => f (j + k * m))) = (List.range (n * m)).flatMap f := by
  induction n with
  | zero => simp
  | succ n ih =>
    rw [List.range_succ, List.flatMap_append, ih, Nat.succ_mul, List.range_add, List.flatMap_append]
    congr 1
    simp only [List.flatMap_cons, List.flatMap_nil, List.append_nil, List.flatMap_map]
    congr 1
    funext j
    rw [Nat.add_comm]

theorem perm_flatMap_congr {β γ : Type} (l : List β) (f g : β → List γ) (h : ∀ a ∈ l, (f a).Perm (g a)) :
    (l.flatMap f).Perm (l.flatMap g) := by
  induction l with
  | nil => exact List.Perm.refl _
  | cons a l ih =>
    simp only [List.flatMap_cons]
    exact List.Perm.append (h a (by simp)) (ih fun b hb => h b (by simp [hb]))

theorem mapM_ok_of_forall {β γ : Type} (g : β → Shuffle.Res γ) (h : β → γ) (l : List β) (hl : ∀ x ∈ l, g x = .ok (h x)) :
    l.mapM g = .ok (l.map h) := by
  induction l with
  | nil => rfl
  | cons x xs ih =>
    simp only [List.mapM_cons, hl x (by simp), ih (fun y hy => hl y (by simp [hy])), bind, Except.bind, pure, Except.pure,
      List.map_cons]

/-- **InputSplitShuffle over text files: the n shuffled parts together deliver every line exactly once**, whatever orders
`std::shuffle` produced (`π k` any permutation of `0 … m-1` for part `k`), for any chunk-buffer size.  Composition of
`C05_shuffle_cover` (the wrapper, any order) with `C03_parts_cover` (the `n*m` sub-parts of the inner text split tile
the files): each part's pass succeeds, and the passes laid end to end are a permutation of the non-empty lines. -/
theorem C05_shuffle_text_cover (files : List Bytes) (n m w dw : Nat) (hfiles : files ≠ [])
    (hne : ∀ f ∈ files, f ≠ [] ∧ NulFree f) (ht : totalSize files < 2^55) (hn0 : 0 < n) (hm0 : 0 < m)
    (hnm : n * m < 2^32) (hw : w < 2^56) (π : Nat → List Nat) (hπ : ∀ k, k < n → (π k).Perm (List.range m)) :
    ∃ r : Nat → List Bytes, (∀ k, k < n → passOf (textSub files (n * m) w dw) (π k) k m = .ok (r k)) ∧
      ((List.range n).flatMap r).Perm (files.flatMap lines) := by
  have hcov := C03.C03_parts_cover files (n * m) w dw hfiles hne ht (Nat.mul_pos hn0 hm0) hnm hw (fun _ _ => true)
  let L : Nat → List Bytes := fun i => linesOf (partBlobs Fmt.text files i (n * m) w dw (fun _ => true))
  have hsub : ∀ i, i < n * m → textSub files (n * m) w dw i = .ok (L i) := by
    intro i hi
    obtain ⟨bs, hbs⟩ := hcov.1 i hi
    simp only [textSub, L, hbs, linesOf]
  -- every part's pass succeeds and is a permutation of its sub-parts in index order
  have hpart : ∀ k, k < n → ∃ rk, passOf (textSub files (n * m) w dw) (π k) k m = .ok rk ∧
      rk.Perm ((List.range m).flatMap fun j => L (j + k * m)) := by
    intro k hk
    have hin : ∀ j, j < m → j + k * m < n * m := by
      intro j hj
      calc j + k * m < m + k * m := by omega
        _ = (k + 1) * m := by rw [Nat.succ_mul, Nat.add_comm]
        _ ≤ n * m := Nat.mul_le_mul_right m hk
    have hall : (List.range m).mapM (fun j => textSub files (n * m) w dw (j + k * m)) =
        .ok ((List.range m).map fun j => L (j + k * m)) :=
      mapM_ok_of_forall _ _ _ (fun j hj => hsub _ (hin j (List.mem_range.mp hj)))
    -- the pass in the order π k succeeds because π k is a permutation of range m
    obtain ⟨r1, h1, _⟩ := mapM_perm (fun j => textSub files (n * m) w dw (j + k * m)) (hπ k hk).symm _ hall
    have hpass : passOf (textSub files (n * m) w dw) (π k) k m = .ok r1.flatten := by
      simp only [passOf, h1, Except.map]
    obtain ⟨rss, h2, p2⟩ := C05_shuffle_cover (textSub files (n * m) w dw) (π k) k m (hπ k hk) r1.flatten hpass
    rw [hall] at h2
    simp only [Except.ok.injEq] at h2
    subst h2
    refine ⟨r1.flatten, hpass, ?_⟩
    simpa [List.flatMap_def] using p2
  -- choose the passes
  let r : Nat → List Bytes := fun k =>
    match passOf (textSub files (n * m) w dw) (π k) k m with
    | .ok rk => rk
    | .error _ => []
  refine ⟨r, fun k hk => ?_, ?_⟩
  · obtain ⟨rk, h1, _⟩ := hpart k hk
    simp only [r, h1]
  · have hr : ∀ k ∈ List.range n, (r k).Perm ((List.range m).flatMap fun j => L (j + k * m)) := by
      intro k hk
      obtain ⟨rk, h1, h2⟩ := hpart k (List.mem_range.mp hk)
      simp only [r, h1]
      exact h2
    have h1 : ((List.range n).flatMap r).Perm ((List.range n).flatMap fun k => (List.range m).flatMap fun j => L (j + k * m)) :=
      perm_flatMap_congr _ _ _ hr
    rw [range_mul_flatMap L n m] at h1
    rw [← hcov.2]
    exact h1

end DmlcModel.Props.C05
