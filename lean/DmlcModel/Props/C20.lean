/-
C20 — tracker link maps: spanning tree + single ring for every worker count.
Property theorems only; helper lemmas live in DmlcModel/Tracker/{Lemmas,Ring,LinkMap,Final}.lean.

Every theorem is for ALL `n ≥ 1` and EVERY child-order oracle `ord` (the iteration order CPython uses
for `set(tree_map[r]) - {parent_map[r]}` is not modelled; whatever it is, it is some `ord`).
`getLinkMap n ord = .ok lm` is the model of `tree_map, parent_map, ring_map = get_link_map(n)`;
dict lookups are `List.lookup` on the insertion-ordered association lists.
-/
import DmlcModel.Tracker.Final

namespace DmlcModel.Props.C20
open DmlcModel DmlcModel.Tracker DmlcModel.Gen.Tracker

/-- the list built by `find_share_ring(tree_map, parent_map, 0)` visits every rank exactly once,
starting at rank 0 -/
theorem C20_ring_is_perm (n : Nat) (hn : 1 ≤ n) (ord : Nat → List Nat) :
    ∃ L, ringList n ord = .ok L ∧ L.Perm (List.range n) ∧ L.head? = some 0 := by
  obtain ⟨L, hL, hp, t, ht⟩ := ringList_ok n hn ord
  exact ⟨L, hL, hp, by rw [ht]; rfl⟩

/-- neither `assert` in `get_ring` fires (nor any KeyError / IndexError / recursion overflow):
`get_ring` and `get_link_map` return normally -/
theorem C20_asserts_hold (n : Nat) (hn : 1 ≤ n) (ord : Nat → List Nat) :
    (∃ rm, getRing (getTree n).1 (getTree n).2 ord = .ok rm) ∧ (∃ lm, getLinkMap n ord = .ok lm) := by
  obtain ⟨L, hL, h, hlm⟩ := getLinkMap_eq n hn ord
  exact ⟨⟨_, getRing_eq n hn ord hL h⟩, ⟨_, hlm⟩⟩

/-- the relabelling `rmap` built by the walk `k = ring_map[k][1]` is a bijection of `0..n-1`
(keys: every rank once; values: every label once) with `rmap[0] = 0` -/
theorem C20_relabel_bij (n : Nat) (hn : 1 ≤ n) (ord : Nat → List Nat) :
    ∃ rm rmap, getRing (getTree n).1 (getTree n).2 ord = .ok rm ∧
      relabelWalk rm (List.range (relabelCount n)) relabelStart [(0, 0)] = .ok rmap ∧
      rmap.lookup 0 = some 0 ∧ (rmap.map Prod.fst).Perm (List.range n) ∧ rmap.map Prod.snd = List.range n := by
  obtain ⟨L, hL, h, _⟩ := getLinkMap_eq n hn ord
  refine ⟨_, _, getRing_eq n hn ord hL h, relabelWalk_full n hn L h, ?_, ?_, ?_⟩
  · have := dget_rmapSpec n L h (show 0 < n by omega)
    unfold dget at this
    rw [h.pos_zero] at this
    split at this
    · rename_i v hv; cases this; exact hv
    · cases this
  · rw [rmapSpec_keys n L h]; exact h.perm
  · simp [rmapSpec, List.map_map, Function.comp_def]

/-- the returned ring: keys are exactly `0..n-1` and rank `r` is linked to `(r-1) mod n` and
`(r+1) mod n` – one cycle through all ranks, in rank order -/
theorem C20_ring (n : Nat) (hn : 1 ≤ n) (ord : Nat → List Nat) (lm : LinkMap)
    (hlm : getLinkMap n ord = .ok lm) :
    lm.ring.map Prod.fst = List.range n ∧
      ∀ r, r < n → lm.ring.lookup r = some ((r + n - 1) % n, (r + 1) % n) := by
  obtain ⟨L, _, h, e⟩ := getLinkMap_eq n hn ord
  rw [e] at hlm; cases hlm
  exact ⟨ringOut_keys n, fun r hr => ringOut_lookup hr⟩

/-- the returned tree has an entry for exactly the ranks `0..n-1` -/
theorem C20_tree_keys (n : Nat) (hn : 1 ≤ n) (ord : Nat → List Nat) (lm : LinkMap)
    (hlm : getLinkMap n ord = .ok lm) :
    (lm.tree.map Prod.fst).Perm (List.range n) ∧ (lm.parent.map Prod.fst).Perm (List.range n) ∧
      ∀ a, a < n → ∃ la, lm.tree.lookup a = some la := by
  obtain ⟨L, _, h, e⟩ := getLinkMap_eq n hn ord
  rw [e] at hlm; cases hlm
  refine ⟨?_, ?_, ?_⟩
  · rw [treeOut_keys]; exact h.map_pos_perm
  · rw [parentOut_keys]; exact h.map_pos_perm
  · intro a ha
    have := treeOut_lookup h (h.getD_lt ha)
    rw [h.pos_getD' ha] at this
    exact ⟨_, this⟩

/-- the returned tree neighbourhoods are symmetric, free of self-links and duplicates, and name only
valid ranks -/
theorem C20_tree_sym (n : Nat) (hn : 1 ≤ n) (ord : Nat → List Nat) (lm : LinkMap)
    (hlm : getLinkMap n ord = .ok lm) :
    (∀ a b la lb, lm.tree.lookup a = some la → lm.tree.lookup b = some lb → (b ∈ la ↔ a ∈ lb)) ∧
      ∀ a la, lm.tree.lookup a = some la → a < n ∧ a ∉ la ∧ la.Nodup ∧ ∀ x ∈ la, x < n := by
  obtain ⟨L, _, h, e⟩ := getLinkMap_eq n hn ord
  rw [e] at hlm; cases hlm
  constructor
  · intro a b la lb ha hb
    obtain ⟨r, hr, rfl, rfl⟩ := treeOut_lookup_inv ha
    obtain ⟨s, hs, rfl, rfl⟩ := treeOut_lookup_inv hb
    rw [mem_map_pos h hr hs, mem_map_pos h hs hr]
    exact getNeighbor_symm hr hs
  · intro a la ha
    obtain ⟨r, hr, rfl, rfl⟩ := treeOut_lookup_inv ha
    refine ⟨h.pos_lt' hr, ?_, map_pos_nb_nodup h hr, ?_⟩
    · rw [mem_map_pos h hr hr]; exact getNeighbor_irrefl r n
    · intro x hx
      obtain ⟨y, hy, rfl⟩ := List.mem_map.1 hx
      exact h.pos_lt' (getNeighbor_lt hr hy)

/-- rank 0 is the root (`parent_map[0] = -1`); every other rank's parent is a valid rank, is among its
tree neighbours, and following `parent_map` from any rank reaches rank 0 (so the tree is connected;
with `C20_edge_count` – n-1 edges – it is acyclic) -/
theorem C20_tree_parent (n : Nat) (hn : 1 ≤ n) (ord : Nat → List Nat) (lm : LinkMap)
    (hlm : getLinkMap n ord = .ok lm) :
    lm.parent.lookup 0 = some (-1) ∧
      (∀ a, 0 < a → a < n → ∃ p : Nat, lm.parent.lookup a = some (p : Int) ∧ p < n ∧
        ∃ la, lm.tree.lookup a = some la ∧ p ∈ la) ∧
      ∀ a, a < n → ∃ k, parentSteps lm.parent k a = some 0 := by
  obtain ⟨L, _, h, e⟩ := getLinkMap_eq n hn ord
  rw [e] at hlm; cases hlm
  refine ⟨?_, ?_, ?_⟩
  · have := parentOut_lookup h (show 0 < n by omega)
    rw [h.pos_zero] at this
    simpa using this
  · intro a ha0 ha
    have hr : nth L a < n := h.getD_lt ha
    have hne : nth L a ≠ 0 := by
      intro e0
      have := h.pos_getD' ha
      rw [e0, h.pos_zero] at this
      omega
    have hp := parentOut_lookup h hr
    have ht := treeOut_lookup h hr
    rw [h.pos_getD' ha] at hp ht
    simp only [hne, if_false] at hp
    refine ⟨_, hp, h.pos_lt' (by omega), _, ht, ?_⟩
    exact List.mem_map.2 ⟨_, parent_mem_getNeighbor (by omega), rfl⟩
  · intro a ha
    obtain ⟨k, hk⟩ := (Anc.root (nth L a)).climb
    refine ⟨k, ?_⟩
    have := parentSteps_climb h k _ _ (h.getD_lt ha) hk
    rwa [h.pos_getD' ha, h.pos_zero] at this

/-- the degrees of the returned tree add up to `2 (n - 1)`: exactly `n - 1` undirected edges -/
theorem C20_edge_count (n : Nat) (hn : 1 ≤ n) (ord : Nat → List Nat) (lm : LinkMap)
    (hlm : getLinkMap n ord = .ok lm) :
    (lm.tree.map fun e => e.2.length).sum = 2 * (n - 1) := by
  obtain ⟨L, _, h, e⟩ := getLinkMap_eq n hn ord
  rw [e] at hlm; cases hlm
  exact degree_sum_out hn

end DmlcModel.Props.C20
