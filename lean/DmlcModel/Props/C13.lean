/-
C13 — row blocks are structurally sound; containers and row iterators preserve rows.
Property theorems only; helper lemmas live in DmlcModel/RowBlock/{Lemmas,Push,SaveLoad,Iter,Parser}.lean.
The model follows the repaired code (fixes/C13-1..3).

Reading guide
  `Sound b`          the predicate of the property (offsets non-decreasing, every array absent or covering)
  `Good c`           the container invariant (`array[size+1]` / `array[size]` comments of RowBlockContainer + size_t range)
  `Compatible c b`   decidable side condition of Push(RowBlock): each optional array of the block is present exactly when
                     the container stores it (open finding class `mixed-presence-push`)
  `RowVal.norm`      a row without entries has no observable field/value pointer
  `RowVal.stored`    Push(Row) materialises weight (1.0f) and qid (0)
-/
import DmlcModel.RowBlock.Parser

namespace DmlcModel.Props.C13
open DmlcModel DmlcModel.RowBlock

/-- **Blocks handed out by `GetBlock` are sound** whenever the offsets are non-decreasing: the six CHECKs are
exactly what is needed (with the pinned three CHECKs this is false, see C13Witness). -/
theorem C13_getBlock_sound (c : Container) (b : Block) (hm : mono c.offset = true) (hs : ContainerSmall c)
    (h : getBlock c = .ok b) : Sound b = true :=
  sound_of_getBlock hm hs h

/-- **Parser blocks are sound** (libsvm / libfm / csv push disciplines, any list of per-line emissions, any mix
of weight / qid / value presence): if ParseBlock ends without dmlc::Error and `ParserImpl::Next` hands the
container out (through `GetBlock`) without dmlc::Error, the block is sound.  Equivalently: a parser that
cannot build a sound block raises dmlc::Error. -/
theorem C13_parser_blocks_sound (ls : List Line) (c : Container) (b : Block) (hs : ContainerSmall c)
    (hp : parseSvm ls = .ok c ∨ parseFm ls = .ok c ∨ parseCsv ls = .ok c)
    (ho : handOut c = .ok (some b)) : Sound b = true := by
  rcases hp with h | h | h
  · exact handOut_sound (parseSvm_mono h) hs ho
  · exact handOut_sound (parseFm_mono h) hs ho
  · exact handOut_sound (parseCsv_mono h) hs ho

/-- reading any row of a sound block stays inside every array (no `ub:oob`, no error) -/
theorem C13_sound_rows_readable (b : Block) (hs : Sound b = true) :
    (∀ i, i < b.size → ∃ r, b.row i = .ok r) ∧ ∃ rs, b.rows = .ok rs ∧ rs.length = b.size :=
  ⟨fun _ hi => ⟨_, row_eq_rowT hs hi⟩, b.rowsT, rows_sound hs, by simp [Block.rowsT]⟩

/-- **Slices**: `Slice(bgn, e)` of a sound block is sound and its rows are rows `bgn..e-1` of the block. -/
theorem C13_slice_sound (b : Block) (bgn e : Nat) (hs : Sound b = true) (h1 : bgn ≤ e) (h2 : e ≤ b.size)
    (h3 : b.size < 2 ^ 64) :
    ∃ s rs, b.slice bgn e = .ok s ∧ Sound s = true ∧ b.rows = .ok rs ∧
      s.rows = .ok ((rs.drop bgn).take (e - bgn)) :=
  ⟨b.sliceT bgn e, b.rowsT, slice_ok b h1 h2 h3, sound_slice hs h1 h2, rows_sound hs, by
    rw [rows_sound (sound_slice hs h1 h2), rowsT_slice b h1 h2]⟩

/-- **Push(RowBlock)**, `b` any sound block (in particular any slice): no exception, the invariant is kept,
the new container's block is sound, and its rows are the old rows followed by the rows of `b`. -/
theorem C13_push_block (lim : Nat) (c : Container) (b : Block) (g : Good c) (hs : Sound b = true)
    (hc : Compatible c b = true) (hfit : FitsLim lim b) (hb : b.off0 + b.ndata < 2 ^ 62)
    (hsm : c.offset.length + b.size < 2 ^ 62) (hnd : c.index.length + b.ndata < 2 ^ 62) :
    ∃ c' bc bc' rc rb rc', pushBlock lim c b = (c', none) ∧ Good c' ∧
      getBlock c = .ok bc ∧ getBlock c' = .ok bc' ∧ Sound bc' = true ∧
      bc.rows = .ok rc ∧ b.rows = .ok rb ∧ bc'.rows = .ok rc' ∧
      rc'.map RowVal.norm = rc.map RowVal.norm ++ rb.map RowVal.norm := by
  obtain ⟨mf, mi, e, _, _⟩ := pushBlock_closed g hs hfit hb hsm hnd
  have g' := good_pushed g hs hc hsm hnd mf mi
  exact ⟨_, view c, view (pushed c b mf mi), _, _, _, e, g', getBlock_good g, getBlock_good g', sound_view g',
    rows_sound (sound_view g), rows_sound hs, rows_sound (sound_view g'), rowsT_pushed g hs hc mf mi⟩

/-- **Push(Row)**: the rows afterwards are the old rows followed by the row as stored. -/
theorem C13_push_row (lim : Nat) (c : Container) (r : RowVal) (g : Good c) (wf : r.WF)
    (hc : Compatible c (rowBlock r) = true)
    (hix : ∀ x ∈ r.index, x ≤ lim) (hfl : ∀ fs, r.field = some fs → ∀ x ∈ fs, x ≤ lim)
    (hsm : c.offset.length + 1 < 2 ^ 62) (hnd : c.index.length + r.index.length < 2 ^ 62) :
    ∃ c' bc bc' rc rc', pushRow lim c r = (c', none) ∧ Good c' ∧
      getBlock c = .ok bc ∧ getBlock c' = .ok bc' ∧ Sound bc' = true ∧
      bc.rows = .ok rc ∧ bc'.rows = .ok rc' ∧
      rc'.map RowVal.norm = rc.map RowVal.norm ++ [r.stored.norm] := by
  obtain ⟨mf, mi, e, _, _⟩ := pushRow_eq_pushed (c := c) wf hix hfl
  have hnd' : (rowBlock r).ndata = r.index.length := by simp [Block.ndata, rowBlock]
  have hs := sound_rowBlock r wf (by omega)
  have g' := good_pushed g hs hc (by simpa [rowBlock] using hsm) (by rw [hnd']; exact hnd) mf mi
  refine ⟨_, view c, view (pushed c (rowBlock r) mf mi), _, _, e, g', getBlock_good g, getBlock_good g',
    sound_view g', rows_sound (sound_view g), rows_sound (sound_view g'), ?_⟩
  rw [rowsT_pushed g hs hc mf mi, rowBlock_rowsT r wf]
  rfl

/-- **Save / Load**: `Load` returns exactly the container saved and leaves exactly the bytes that follow
(so images can be read back to back); at the end of the stream it reports end-of-file. -/
theorem C13_save_load (iw : Nat) (hiw : 0 < iw) (c old : Container) (rest : Bytes) (h : InRange iw c) :
    load iw old (save iw c ++ rest) = .ok c rest ∧ load iw old [] = .eof :=
  ⟨load_save iw hiw c old rest h, load_nil iw old⟩

/-- containers reached by pushes are in range, hence survive Save/Load -/
theorem C13_save_load_good (iw : Nat) (hiw : 0 < iw) (c old : Container) (rest : Bytes) (g : Good c)
    (v : Vals iw c) : load iw old (save iw c ++ rest) = .ok c rest :=
  load_save iw hiw c old rest (inRange_of g v)

/-- **BasicRowIter**: for any list of sound blocks with the same optional arrays, every one of the `n` passes
delivers the rows of all blocks, in order. -/
theorem C13_iter_basic (P : Sig) (lim : Nat) (blocks : List Block) (n : Nat)
    (hok : ∀ b ∈ blocks, BlockOk P lim b) (h1 : 1 + sumSize blocks < 2 ^ 62) (h2 : sumData blocks < 2 ^ 62) :
    ∃ rs, basicPasses lim blocks n = .ok (List.replicate n rs) ∧ rs.map RowVal.norm = blocksRowsN blocks :=
  basicPasses_ok blocks n hok h1 h2

/-- **DiskRowIter**: for every page-size test (in particular `MemCostBytes() >= kPageSize`), the cache file
is built without error and a pass over it (now, later, or by a second iterator reusing the file: `diskPass`
depends on the file only) delivers the rows of all blocks, in order. -/
theorem C13_iter_disk (P : Sig) (full : Nat → Bool) (iw : Nat) (hiw : 0 < iw) (blocks : List Block)
    (hok : ∀ b ∈ blocks, BlockOk P (256 ^ iw - 1) b ∧ BlockRange b)
    (h1 : 1 + sumSize blocks < 2 ^ 62) (h2 : sumData blocks < 2 ^ 62) :
    ∃ file nc rs, buildCacheWith full iw (256 ^ iw - 1) blocks = .ok (file, nc) ∧ diskPass iw file = .ok rs ∧
      rs.map RowVal.norm = blocksRowsN blocks :=
  diskPass_ok full hiw blocks hok h1 h2

/-- the page test of the source is one instance -/
theorem C13_iter_disk_kPageSize (P : Sig) (iw : Nat) (hiw : 0 < iw) (blocks : List Block)
    (hok : ∀ b ∈ blocks, BlockOk P (256 ^ iw - 1) b ∧ BlockRange b)
    (h1 : 1 + sumSize blocks < 2 ^ 62) (h2 : sumData blocks < 2 ^ 62) :
    ∃ file nc rs, buildCache iw (256 ^ iw - 1) blocks = .ok (file, nc) ∧ diskPass iw file = .ok rs ∧
      rs.map RowVal.norm = blocksRowsN blocks :=
  diskPass_ok Gen.RowBlock.pageFull hiw blocks hok h1 h2

/-- the repaired `GetBlock` has exactly the six consistency CHECKs the soundness proof uses -/
theorem C13_getBlock_checks : Gen.RowBlock.gbCheckCount = 6 := gbCheckCount_spec

end DmlcModel.Props.C13
