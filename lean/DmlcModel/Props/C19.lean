/-
C19 — MemoryStringStream, MemoryFixedSizeStream, the local FileStream and the dmlc::ostream /
dmlc::istream adaptors behave as a byte array with a cursor.

Property theorems only; the models are in DmlcModel/Streams/Model.lean, helper lemmas in
DmlcModel/Streams/{Lemmas,Mem,OStream,IStream}.lean.  The theorems are about the models generated
from the *repaired* source (fixes/C19-1.diff, fixes/C19-2.diff); against the pinned source the
specification lemmas of the bounds tests do not compile (see C19Witness.lean for the refutations).

Reading guide.  `run step s ops` executes a history of `Read/Write/Seek/Tell` calls and returns the
list of observations (`Out`) and the final state; `Arr.step F` is the specification: a byte array
`data` with a cursor `cur` (flavours: fixed buffer / std::string / file).  `Op.fits64` says that the
arguments of a call are `size_t` values.  `orun` / `irun` execute histories on the adaptors; `none`
would be an access outside the adaptor's buffer.
-/
import DmlcModel.Streams.Mem
import DmlcModel.Streams.OStream
import DmlcModel.Streams.IStream
import DmlcModel.Streams.IStreamSet

namespace DmlcModel.Props.C19
open DmlcModel DmlcModel.Streams

/-! ## the specification itself says what the property says -/

/-- reads return the bytes at the cursor; fewer than requested only at the end of the data -/
theorem C19_spec_short_read_only_at_end (F : Flavor) (a : Arr) (n : Nat) (h : a.cur ≤ a.data.length) :
    Arr.step F a (.read n) =
      (.bytes (peek a.data a.cur n).length (peek a.data a.cur n), { a with cur := a.cur + (peek a.data a.cur n).length }) ∧
    ((peek a.data a.cur n).length < n → a.cur + (peek a.data a.cur n).length = a.data.length) := by
  refine ⟨by simp [Arr.step, h], ?_⟩
  rw [peek_length]; omega

/-- a write lands at the cursor: reading back at that position returns the bytes written, everything
in front of the cursor and behind the written range is untouched (a gap left by a seek past the end
reads as zeros), and the cursor moves behind the written range -/
theorem C19_spec_write_lands_at_cursor (F : Flavor) (a : Arr) (bs : Bytes) (hne : bs ≠ [])
    (hroom : F.room a.cur bs.length = none) :
    peek (Arr.step F a (.write bs)).2.data a.cur bs.length = bs ∧
    (Arr.step F a (.write bs)).2.data.take a.cur = (a.data ++ zeros (a.cur - a.data.length)).take a.cur ∧
    (Arr.step F a (.write bs)).2.data.drop (a.cur + bs.length) = a.data.drop (a.cur + bs.length) ∧
    (Arr.step F a (.write bs)).2.cur = a.cur + bs.length := by
  have hlen : a.cur ≤ (a.data ++ zeros (a.cur - a.data.length)).length := by
    simp only [List.length_append, zeros_length]; omega
  have htk : ((a.data ++ zeros (a.cur - a.data.length)).take a.cur).length = a.cur := by
    rw [List.length_take]; omega
  simp only [Arr.step, hne, if_false, hroom]
  refine ⟨?_, poke_take_before _ _ _ hlen, ?_, trivial⟩
  · simp only [peek, poke, List.append_assoc]
    rw [List.drop_append, List.drop_of_length_le (by omega), htk, Nat.sub_self, List.drop_zero, List.nil_append,
      List.take_append_of_le_length (Nat.le_refl _), List.take_of_length_le (Nat.le_refl _)]
  · simp only [poke, List.append_assoc]
    rw [List.drop_append, List.drop_of_length_le (by omega), htk, List.nil_append,
      List.drop_append, List.drop_of_length_le (by omega), List.nil_append]
    have : a.cur + bs.length - a.cur - bs.length = 0 := by omega
    rw [this, List.drop_zero, List.drop_append]
    have hz : List.drop (a.cur + bs.length - a.data.length) (zeros (a.cur - a.data.length)) = [] :=
      List.drop_of_length_le (by rw [zeros_length]; omega)
    rw [hz, List.append_nil]

/-- the specification never reports undefined behaviour -/
theorem C19_spec_never_ub (F : Flavor) (a : Arr) (ops : List Op) :
    Out.ub ∉ (run (Arr.step F) a ops).1 ∧ Out.dead ∉ (run (Arr.step F) a ops).1 :=
  run_spec_clean F ops a

/-! ## the three stores refine the specification, for every history -/

/-- MemoryStringStream = byte array with a cursor over a growable store (observations and final
contents/cursor), for every history of calls with 64-bit arguments -/
theorem C19_refines_array_memstr (init : Bytes) (hinit : init.length ≤ strMax) (ops : List Op)
    (hops : ∀ op ∈ ops, op.fits64) :
    (run (MemStr.step Arith.gen) { buf := init, cur := 0 } ops).1 =
      (run (Arr.step Flavor.string) { data := init, cur := 0 } ops).1 ∧
    (run (MemStr.step Arith.gen) { buf := init, cur := 0 } ops).2.abs =
      (run (Arr.step Flavor.string) { data := init, cur := 0 } ops).2 :=
  run_refines (MemStr.step Arith.gen) Flavor.string MemStr.abs MsInv (fun s op hs hop => ms_step s hs op hop)
    ops { buf := init, cur := 0 } ⟨hinit, by show 0 < 18446744073709551616; omega⟩ hops

/-- the local FileStream = byte array with a cursor (stdio trusted) -/
theorem C19_refines_array_file (init : Bytes) (ops : List Op) (hops : ∀ op ∈ ops, op.fits64) :
    (run File.step { data := init, pos := 0 } ops).1 = (run (Arr.step Flavor.file) { data := init, cur := 0 } ops).1 ∧
    (run File.step { data := init, pos := 0 } ops).2.abs = (run (Arr.step Flavor.file) { data := init, cur := 0 } ops).2 :=
  run_refines File.step Flavor.file File.abs (fun _ => True)
    (fun s op _ hop => ⟨(file_step s op hop).1, (file_step s op hop).2, trivial⟩) ops { data := init, pos := 0 } trivial hops

/-- MemoryFixedSizeStream = byte array with a cursor over a store that cannot grow -/
theorem C19_refines_array_memfixed (buf : Bytes) (hN : buf.length < 2 ^ 64) (ops : List Op)
    (hops : ∀ op ∈ ops, op.fits64) :
    (run (MemFixed.step Arith.gen) { buf := buf, cur := 0 } ops).1 =
      (run (Arr.step (Flavor.fixed buf.length)) { data := buf, cur := 0 } ops).1 ∧
    (run (MemFixed.step Arith.gen) { buf := buf, cur := 0 } ops).2.abs =
      (run (Arr.step (Flavor.fixed buf.length)) { data := buf, cur := 0 } ops).2 :=
  run_refines (MemFixed.step Arith.gen) (Flavor.fixed buf.length) MemFixed.abs (FxInv buf.length)
    (fun s op hs hop => fx_step buf.length hN s hs op hop) ops { buf := buf, cur := 0 } ⟨rfl, by show 0 < 18446744073709551616; omega⟩ hops

/-- **C19, stores.** MemoryStringStream and the FileStream behave, for every history of
Read/Write/Seek/Tell, like the byte array with a cursor: same return values, same bytes delivered,
same final contents and cursor. -/
theorem C19_refines_array (init : Bytes) (hinit : init.length ≤ strMax) (ops : List Op)
    (hops : ∀ op ∈ ops, op.fits64) :
    ((run (MemStr.step Arith.gen) { buf := init, cur := 0 } ops).1 =
        (run (Arr.step Flavor.string) { data := init, cur := 0 } ops).1 ∧
      (run (MemStr.step Arith.gen) { buf := init, cur := 0 } ops).2.abs =
        (run (Arr.step Flavor.string) { data := init, cur := 0 } ops).2) ∧
    ((run File.step { data := init, pos := 0 } ops).1 = (run (Arr.step Flavor.file) { data := init, cur := 0 } ops).1 ∧
      (run File.step { data := init, pos := 0 } ops).2.abs = (run (Arr.step Flavor.file) { data := init, cur := 0 } ops).2) :=
  ⟨C19_refines_array_memstr init hinit ops hops, C19_refines_array_file init ops hops⟩

/-- **C19, fixed buffer.** For every history, MemoryFixedSizeStream never performs an access outside
its buffer (no `ub`, hence no `dead`), and the buffer keeps its size. -/
theorem C19_fixed_no_oob (buf : Bytes) (hN : buf.length < 2 ^ 64) (ops : List Op) (hops : ∀ op ∈ ops, op.fits64) :
    Out.ub ∉ (run (MemFixed.step Arith.gen) { buf := buf, cur := 0 } ops).1 ∧
    Out.dead ∉ (run (MemFixed.step Arith.gen) { buf := buf, cur := 0 } ops).1 ∧
    (run (MemFixed.step Arith.gen) { buf := buf, cur := 0 } ops).2.buf.length = buf.length := by
  have h := C19_refines_array_memfixed buf hN ops hops
  have hc := run_spec_clean (Flavor.fixed buf.length) ops { data := buf, cur := 0 }
  refine ⟨by rw [h.1]; exact hc.1, by rw [h.1]; exact hc.2, ?_⟩
  -- the invariant `buf.length = N` is preserved along the run
  have key : ∀ (ops : List Op) (s : MemFixed), FxInv buf.length s → (∀ op ∈ ops, op.fits64) →
      FxInv buf.length (run (MemFixed.step Arith.gen) s ops).2 := by
    intro ops
    induction ops with
    | nil => intro s hs _; exact hs
    | cons op ops ih =>
      intro s hs hops
      obtain ⟨h1, _, h3⟩ := fx_step buf.length hN s hs op (hops op (by simp))
      have hnu : (MemFixed.step Arith.gen s op).1.isUb = false := by rw [h1]; exact Arr.step_not_ub _ _ _
      simp only [run, hnu]
      exact ih _ h3 (fun o ho => hops o (by simp [ho]))
  exact (key ops _ ⟨rfl, by show 0 < 18446744073709551616; omega⟩ hops).len

/-- a write that does not fit the buffer raises `dmlc::Error` and changes nothing (whatever the
cursor: no wrap-around) -/
theorem C19_fixed_write_rejects (s : MemFixed) (hN : s.buf.length < 2 ^ 64) (bs : Bytes)
    (hne : bs ≠ []) (h : s.buf.length < s.cur + bs.length) :
    MemFixed.step Arith.gen s (.write bs) = (.err .check, s) := by
  have hne' : bs.length ≠ 0 := fun h0 => hne (List.eq_nil_of_length_eq_zero h0)
  have hnf : ¬ s.cur + bs.length ≤ s.buf.length := by omega
  simp only [MemFixed.step, Arith.gen, fxWriteEmpty_spec, fxWriteOk_spec hN, hne', hnf, decide_false, if_false,
    Bool.false_eq_true]

/-- a read that straddles the end returns the bytes that are there (a short count), it does not raise -/
theorem C19_fixed_read_short (s : MemFixed) (hN : s.buf.length < 2 ^ 64) (n : Nat) (hcur : s.cur ≤ s.buf.length) :
    MemFixed.step Arith.gen s (.read n) =
      (.bytes (min n (s.buf.length - s.cur)) (peek s.buf s.cur n), { s with cur := s.cur + min n (s.buf.length - s.cur) }) := by
  have hk : min (s.buf.length - s.cur) n = min n (s.buf.length - s.cur) := Nat.min_comm _ _
  have hcurv : Gen.Streams.fxReadCur s.cur (min n (s.buf.length - s.cur)) = s.cur + min n (s.buf.length - s.cur) :=
    fxReadCur_spec (by omega)
  simp only [MemFixed.step, Arith.gen, fxReadOk_spec, fxReadCopies_spec, fxReadRet_spec, fxReadN_spec hcur hN, hcur,
    decide_true, if_true, hk, hcurv]
  by_cases h0 : min n (s.buf.length - s.cur) = 0
  · have hnil : peek s.buf s.cur n = [] := List.eq_nil_of_length_eq_zero (by rw [peek_length]; exact h0)
    simp only [h0, ne_eq, not_true_eq_false, decide_false, hnil, Bool.false_eq_true, if_false]
  · have hib : inBounds s.buf.length s.cur (min n (s.buf.length - s.cur)) = true := by
      simp only [inBounds, Bool.and_eq_true, decide_eq_true_eq]; omega
    have hpk : peek s.buf s.cur (min n (s.buf.length - s.cur)) = peek s.buf s.cur n := by
      rw [← hk]; exact peek_min _ _ _
    simp only [h0, ne_eq, not_false_eq_true, decide_true, if_true, hib, hpk]

/-! ## dmlc::ostream -/

/-- For every buffer size and every history of insertions, flushes, `set_stream`, `overflow(EOF)` and
seeks of the wrapped stream: no access outside the buffer, and at every moment the bytes handed to
the wrapped stream followed by the bytes pending in the put area are exactly the bytes inserted, in
order; `bytes_written()` counts the bytes handed over (modulo 2^64). -/
theorem C19_ostream_any_history (bufSize : Nat) (hb : bufSize < 2 ^ 31) (sink : Arr) (ops : List OOp) :
    ∃ s cs, orun { ob := OBuf.create bufSize, sink := sink } ops = some (s, cs) ∧
      cs.flatten ++ s.ob.pending = inserted ops ∧
      s.ob.pending.length < (if bufSize = 0 then 2 else bufSize) ∧
      s.ob.count = cs.flatten.length % 2 ^ 64 := by
  obtain ⟨hinv, hpend, hcnt⟩ := create_inv bufSize hb
  obtain ⟨s, cs, hr, heff⟩ := orun_eff ops { ob := OBuf.create bufSize, sink := sink } hinv
  refine ⟨s, cs, hr, ?_, ?_, ?_⟩
  · have := heff.bytes
    simp only at this
    rw [hpend, List.nil_append] at this
    exact this
  · have h1 := heff.inv.pending_length
    have h2 := heff.inv.pp; have h3 := heff.inv.ep; have h4 := heff.inv.pos
    have h5 : s.ob.cap = (OBuf.create bufSize).cap := heff.cap
    have h6 : (OBuf.create bufSize).cap = if bufSize = 0 then 2 else bufSize := by
      unfold OBuf.create
      simp only [obZero_spec, obZeroSize_spec]
      by_cases h0 : bufSize = 0 <;> simp [h0]
    rw [h1, ← h6, ← h5]; omega
  · have := heff.count
    simp only at this
    rw [hcnt, Nat.zero_add] at this
    rw [this]; rfl

/-- **C19, ostream.** After a flush or the destruction of the `ostream` the wrapped stream has
received exactly the concatenation of everything inserted, in order, and `bytes_written()` equals
that length -- for every buffer size (0, 1, ...), every chunking of the insertions and every
interleaving of flushes. -/
theorem C19_ostream (bufSize : Nat) (hb : bufSize < 2 ^ 31) (sink : Arr) (ops : List OOp) (fin : OOp)
    (hfin : fin.syncs = true) :
    ∃ s cs, orun { ob := OBuf.create bufSize, sink := sink } (ops ++ [fin]) = some (s, cs) ∧
      cs.flatten = inserted ops ∧ s.ob.count = (inserted ops).length % 2 ^ 64 := by
  obtain ⟨hinv, hpend, hcnt⟩ := create_inv bufSize hb
  obtain ⟨s1, cs1, hr1, heff1⟩ := orun_eff ops { ob := OBuf.create bufSize, sink := sink } hinv
  obtain ⟨ob2, cs2, ha, heff2, hsync⟩ := apply_eff s1.ob heff1.inv fin
  obtain ⟨s2, hs2, hob⟩ := OSt.step_of_apply s1 fin ob2 cs2 ha
  have hfi : inserted [fin] = [] := by cases fin <;> simp [OOp.syncs] at hfin <;> rfl
  have htot := heff1.trans heff2
  refine ⟨s2, cs1 ++ cs2, ?_, ?_, ?_⟩
  · rw [orun_append, hr1]; simp only [orun, hs2, List.append_nil]
  · have := htot.bytes
    rw [hsync hfin, hpend, hfi] at this
    simpa using this
  · have hb2 := htot.bytes
    rw [hsync hfin, hpend, hfi] at hb2
    have := htot.count
    simp only at this
    rw [hcnt, Nat.zero_add] at this
    rw [hob, this]
    have : (cs1 ++ cs2).flatten = inserted ops := by simpa using hb2
    rw [this]; rfl

/-! ## dmlc::istream -/

/-- For every buffer size and every history of extractions and seeks of the wrapped stream, no access
outside the buffer happens. -/
theorem C19_istream_any_history (bufSize : Nat) (hb : bufSize < 2 ^ 64) (data : Bytes) (ops : List IOp) :
    ∃ s outs, irun { ib := IBuf.create bufSize, src := { data := data, cur := 0 } } ops = some (s, outs) := by
  obtain ⟨s, outs, h, _⟩ := irun_total ops _ (create_iinv bufSize hb data).1
  exact ⟨s, outs, h⟩

/-- the specification of the consumer side hands out the stream's bytes in order: the bytes
delivered by `get`/`read` followed by what is still ahead are the stream -/
def deliveredAll : List IOp → List IOut → Bytes
  | op :: ops, o :: os => IOut.delivered op o ++ deliveredAll ops os
  | _, _ => []

theorem C19_istream_spec_in_order (rest : Bytes) (ops : List IOp) :
    deliveredAll ops (ispecRun rest ops).1 ++ (ispecRun rest ops).2 = rest := by
  induction ops generalizing rest with
  | nil => simp [deliveredAll, ispecRun]
  | cons op ops ih =>
    simp only [ispecRun, deliveredAll, List.append_assoc, ih]
    cases op with
    | get => cases rest <;> simp [ispec, IOut.delivered]
    | peek => cases rest <;> simp [ispec, IOut.delivered]
    | read n => simp [ispec, IOut.delivered]
    | useek p => simp [ispec, IOut.delivered]

/-- `get` reports EOF exactly when nothing is ahead, `read n` is short exactly when fewer than `n`
bytes are ahead -/
theorem C19_istream_spec_eof (rest : Bytes) (n : Nat) :
    ((ispec rest .get).2 = .char none ↔ rest = []) ∧
    (ispec rest (.read n)).2 = .block (rest.take n) ∧ ((rest.take n).length < n ↔ rest.length < n) := by
  refine ⟨?_, rfl, ?_⟩
  · cases rest <;> simp [ispec]
  · rw [List.length_take]; omega

/-- **C19, istream.** For every buffer size and every history of `get` / `peek` / `read n`, the
adaptor delivers exactly what the in-order consumer specification delivers from the wrapped stream's
bytes (so: a prefix of the stream, unchanged and in order; EOF exactly when the stream is exhausted);
`bytes_read()` is the number of bytes pulled from the stream, never exceeds the stream, and
(last clause, with `delivered = data.length - s.ahead.length`) equals bytes delivered + bytes still
buffered. -/
theorem C19_istream (bufSize : Nat) (hb : bufSize < 2 ^ 64) (data : Bytes) (hd : data.length < 2 ^ 64)
    (ops : List IOp) (hops : ∀ op ∈ ops, op.isSeek = false) :
    ∃ s, irun { ib := IBuf.create bufSize, src := { data := data, cur := 0 } } ops = some (s, (ispecRun data ops).1) ∧
      s.ahead = (ispecRun data ops).2 ∧
      s.ib.count = s.src.cur ∧ s.src.cur ≤ data.length ∧
      s.src.cur + s.ahead.length = data.length + s.buffered.length := by
  obtain ⟨hinv, hah, hcnt⟩ := create_iinv bufSize hb data
  obtain ⟨s, hr, hA, hi, hc⟩ := irun_spec ops _ hinv hops
  rw [hah] at hr hA
  have hle : s.src.cur ≤ s.src.data.length := hc.le (Nat.zero_le _)
  have hdat : s.src.data = data := hc.data
  have hcount := hc.count
  simp only at hcount
  rw [hcnt, Nat.zero_add, Nat.sub_zero] at hcount
  rw [hdat] at hle
  refine ⟨s, hr, hA, ?_, hle, ?_⟩
  · rw [hcount]; exact u64_of_lt (by omega)
  · simp only [ISt.ahead, List.length_append, List.length_drop, hdat]; omega

/-! ## set_stream -/

/-- `ostream::set_stream(stream j)`: the bytes pending in the put area go to the stream attached SO FAR
(nothing is lost, nothing reaches the new stream early), the put area is empty afterwards,
`bytes_written()` counts them, and stream `j` (if the caller has one) is the attached stream from now
on, untouched.  Histories containing `set_stream` are covered by `C19_ostream` /
`C19_ostream_any_history` (the operation alphabet `OOp` includes it). -/
theorem C19_ostream_set_stream (s : OSt) (h : OInv s.ob) (j : Nat) :
    ∃ s', s.step (.setStream j) = some (s', [s.ob.pending]) ∧ s'.ob.pending = [] ∧
      s'.ob.count = (s.ob.count + s.ob.pending.length) % 2 ^ 64 ∧
      (s'.parked.set s'.idx s'.sink)[s.idx]? = (s.parked.set s.idx (sinkWrite s.sink s.ob.pending))[s.idx]? ∧
      (∀ a, (s.parked.set s.idx (sinkWrite s.sink s.ob.pending))[j]? = some a → s'.idx = j ∧ s'.sink = a) := by
  obtain ⟨ob1, h1, heff, hp⟩ := setStream_eff s.ob h
  have hcnt : ob1.count = (s.ob.count + s.ob.pending.length) % 2 ^ 64 := by
    have := heff.count; simpa [u64] using this
  have hpend : ob1.pending = [] := by simp [OBuf.pending, hp]
  rw [OSt.step_setStream s j ob1 [s.ob.pending] h1]
  simp only [List.foldl_cons, List.foldl_nil]
  cases hl : (s.parked.set s.idx (sinkWrite s.sink s.ob.pending))[j]? with
  | none =>
    refine ⟨_, rfl, hpend, hcnt, ?_, fun a ha => by simp at ha⟩
    simp
  | some a =>
    refine ⟨_, rfl, hpend, hcnt, ?_, fun b hb => ⟨rfl, by simpa using hb⟩⟩
    simp only
    by_cases hj : j = s.idx
    · subst hj
      rw [hl]
      have : s.idx < (s.parked.set s.idx (sinkWrite s.sink s.ob.pending)).length := by
        rcases List.getElem?_eq_some_iff.mp hl with ⟨hlt, _⟩; exact hlt
      simp only [List.length_set] at this
      simp [this]
    · rw [List.getElem?_set_ne (fun h => hj h)]

/-- `istream::set_stream(stream a)`: whatever was buffered from the old stream is dropped, everything ahead
is exactly what `a` provides from its cursor on, `bytes_read()` keeps counting -/
theorem C19_istream_attach (s : ISt) (h : IInv s) (a : Arr) :
    IInv { ib := s.ib.setStream, src := a } ∧
    ISt.ahead { ib := s.ib.setStream, src := a } = a.data.drop a.cur ∧
    (IBuf.setStream s.ib).count = s.ib.count :=
  attach_inv s h a

theorem created_rel (bufSize : Nat) (hb : bufSize < 2 ^ 64) (a : Arr) (streams : List Arr) (idx : Nat)
    (hidx : idx < streams.length) :
    FRel streams.length
      { st := { ib := IBuf.create bufSize, src := a }, idx := idx, parked := streams, eofbit := false, failbit := false }
      { rest := a.data.drop a.cur, eofbit := false, failbit := false } := by
  obtain ⟨hinv, _, _⟩ := create_iinv bufSize hb []
  have hg : (IBuf.create bufSize).gptr = 0 ∧ (IBuf.create bufSize).egptr = 0 := by
    unfold IBuf.create; exact ⟨rfl, rfl⟩
  refine ⟨⟨hinv.len, hinv.pos, hinv.small, hinv.ge, hinv.ee, hinv.cnt⟩, ?_, rfl, rfl, rfl, hidx⟩
  simp [ISt.ahead, ISt.buffered, hg.1, hg.2, peek]

/-- For every buffer size and EVERY history on a `dmlc::istream` -- extractions through the stream
(with its state bits) or through its rdbuf, `clear`, `set_stream` to any of the caller's streams, seeks
of any stream at any time -- no access outside the buffer happens. -/
theorem C19_istream_set_stream_any_history (bufSize : Nat) (hb : bufSize < 2 ^ 64) (a : Arr) (streams : List Arr)
    (idx : Nat) (ops : List FOp) :
    ∃ s outs pr, frun { st := { ib := IBuf.create bufSize, src := a }, idx := idx, parked := streams,
                        eofbit := false, failbit := false } ops = some (s, outs, pr) := by
  obtain ⟨hinv, _, _⟩ := create_iinv bufSize hb []
  obtain ⟨s, outs, pr, h, _⟩ := frun_total ops
    { st := { ib := IBuf.create bufSize, src := a }, idx := idx, parked := streams, eofbit := false, failbit := false }
    ⟨hinv.len, hinv.pos, hinv.small, hinv.ge, hinv.ee, hinv.cnt⟩
  exact ⟨s, outs, pr, h⟩

/-- **C19, istream with set_stream.** For every buffer size and every history of extractions (through the
`std::istream` members or the rdbuf), `clear` and `set_stream` (to another stream, or to the same stream
after it was repositioned while detached; any number of switches; before, at or after EOF), the bytes
delivered are the concatenation of what each attached stream provides from the moment it is attached
(`pr`: its bytes from its cursor on), consumed in order; `set_stream` clears `eofbit`/`failbit`, so
extraction resumes on the new stream; a stream that is not `good()` delivers nothing. -/
theorem C19_istream_set_stream (bufSize : Nat) (hb : bufSize < 2 ^ 64) (a : Arr) (streams : List Arr) (idx : Nat)
    (hidx : idx < streams.length) (ops : List FOp) (hok : okHistory streams.length idx ops) :
    ∃ s pr, frun { st := { ib := IBuf.create bufSize, src := a }, idx := idx, parked := streams,
                   eofbit := false, failbit := false } ops =
      some (s, fspecRun { rest := a.data.drop a.cur, eofbit := false, failbit := false } pr ops, pr) :=
  frun_spec streams.length ops _ _ (created_rel bufSize hb a streams idx hidx) hok

end DmlcModel.Props.C19
