/-
C01 — RecordIO write/read round-trip is the identity on record sequences.
Property theorems only; helper lemmas live in DmlcModel/RecordIO/{Lemmas,RoundTrip}.lean.
-/
import DmlcModel.RecordIO.RoundTrip

namespace DmlcModel.Props.C01
open DmlcModel DmlcModel.RecordIO DmlcModel.Gen.RecordIO

/-- one record followed by arbitrary further stream content `s`: `NextRecord` returns exactly the
record and leaves exactly `s` (so streams can be read back to back). -/
theorem C01_roundtrip_suffix (r s : Bytes) (h : r.length < 2 ^ 29) :
    nextRecord ((writeRecord r).1 ++ s) = Rd.record r s := by
  unfold nextRecord writeRecord
  have hl := (writeGo_length _ 0 0 [] r (winv_init r h)).1
  have := writeGo_read _ 0 0 [] r (winv_init r h)
    (((writeGo (u32 r.length) 0 0 [] r).1 ++ s).length + 1) [] s
    (by simp only [List.length_append, hl]; omega)
  simpa using this

/-- the reader reports a clean end of stream exactly on the empty remainder -/
theorem C01_clean_eos : nextRecord [] = Rd.eos := by decide

/-- every encoded record occupies at least 8 bytes (used for the fuel of `readAll`) -/
theorem C01_record_image_ge8 (r : Bytes) (h : r.length < 2 ^ 29) : 8 ≤ (writeRecord r).1.length := by
  have := (writeGo_length _ 0 0 [] r (winv_init r h)).1
  unfold writeRecord; omega

theorem readAllFuel_writeAll (rs : List Bytes) (h : ∀ r ∈ rs, r.length < 2 ^ 29) :
    ∀ fuel, rs.length < fuel → readAllFuel fuel (writeAll rs) = some rs := by
  induction rs with
  | nil =>
    intro fuel hf
    obtain ⟨k, rfl⟩ : ∃ k, fuel = k + 1 := ⟨fuel - 1, by simp at hf; omega⟩
    simp [readAllFuel, writeAll, C01_clean_eos]
  | cons r rs ih =>
    intro fuel hf
    obtain ⟨k, rfl⟩ : ∃ k, fuel = k + 1 := ⟨fuel - 1, by simp at hf; omega⟩
    have hr : r.length < 2 ^ 29 := h r (by simp)
    simp only [readAllFuel, writeAll, C01_roundtrip_suffix r _ hr]
    rw [ih (fun x hx => h x (by simp [hx])) k (by simp at hf; omega)]
    rfl

theorem writeAll_length_ge (rs : List Bytes) (h : ∀ r ∈ rs, r.length < 2 ^ 29) :
    8 * rs.length ≤ (writeAll rs).length := by
  induction rs with
  | nil => simp [writeAll]
  | cons r rs ih =>
    have := C01_record_image_ge8 r (h r (by simp))
    have := ih (fun x hx => h x (by simp [hx]))
    simp only [writeAll, List.length_append, List.length_cons]; omega

/-- **C01, main statement.** Any sequence of records (each shorter than 2^29 bytes, any content)
written by `WriteRecord` is returned by `NextRecord` as the identical sequence, followed by a clean
end of stream. -/
theorem C01_roundtrip (rs : List Bytes) (h : ∀ r ∈ rs, r.length < 2 ^ 29) :
    readAll (writeAll rs) = some rs := by
  unfold readAll
  exact readAllFuel_writeAll rs h _ (by have := writeAll_length_ge rs h; omega)

/-- the number of bytes a record occupies: 8 per part, the payload minus the elided magic words,
padding to a multiple of 4 -/
theorem C01_record_image_length (r : Bytes) (h : r.length < 2 ^ 29) :
    (writeRecord r).1.length = 8 + 4 * alignedMagicCount r + (r.length + 3) / 4 * 4 := by
  have hw := writeGo_length _ 0 0 [] r (winv_init r h)
  unfold writeRecord
  rw [hw.1, hw.2, u32_length r h]
  simp only [List.length_nil]; omega

/-- the total length of the stream is always a multiple of 4 -/
theorem C01_len_mod4 (rs : List Bytes) (h : ∀ r ∈ rs, r.length < 2 ^ 29) :
    (writeAll rs).length % 4 = 0 := by
  induction rs with
  | nil => rfl
  | cons r rs ih =>
    have h1 := C01_record_image_length r (h r (by simp))
    have h2 := ih (fun x hx => h x (by simp [hx]))
    simp only [writeAll, List.length_append]; omega

/-- `except_counter()` grows by the number of 4-byte-aligned magic words of the record -/
theorem C01_except_counter (r : Bytes) (h : r.length < 2 ^ 29) :
    (writeRecord r).2 = alignedMagicCount r :=
  (writeGo_length _ 0 0 [] r (winv_init r h)).2

/-- records of 2^29 bytes or more are rejected by the `CHECK`, all others accepted -/
theorem C01_reject_large (r : Bytes) :
    writeRecordE r = .error .check ↔ 2 ^ 29 ≤ r.length := by
  unfold writeRecordE
  by_cases h : r.length < 2 ^ 29
  · simp [(sizeOk_iff _).mpr h]; omega
  · have : sizeOk r.length = false := by
      cases hs : sizeOk r.length
      · rfl
      · exact absurd ((sizeOk_iff _).mp hs) h
    simp [this]; omega

/-- the emitted bytes depend only on the records: the stream of a concatenated sequence is the
concatenation of the streams (no hidden writer state) -/
theorem C01_bytes_depend_only_on_records (rs₁ rs₂ : List Bytes) :
    writeAll (rs₁ ++ rs₂) = writeAll rs₁ ++ writeAll rs₂ := by
  induction rs₁ with
  | nil => rfl
  | cons r rs ih => simp [writeAll, ih]

end DmlcModel.Props.C01
