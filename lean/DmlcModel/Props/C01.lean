import DmlcModel.RecordIO.Model
namespace DmlcModel.Props.C01
open DmlcModel DmlcModel.RecordIO
theorem C01_stub : (writeRecord []).2 = 0 := by decide
end DmlcModel.Props.C01
