/-
C05 — BeforeFirst / ResetPartition at any point equal a fresh split.
Property theorems only; definitions in DmlcModel/Split/{Model,Spec}.lean (`step`, `drain`, `mkSt`, `Clean`,
`WrapEquiv`, `partBlobs`, `linesOf`, `rangeStream`), `bndT` in DmlcModel/Split/SnapText.lean, `SeekOk` in
DmlcModel/Split/SnapLemmas.lean, `ExtractNoneIff` in DmlcModel/Split/CleanLemmas.lean; lemmas in
DmlcModel/Split/*.lean, assembled in DmlcModel/Split/CoverReset.lean.

Reading guide.  `s` is the object (`St`: the `InputSplitBase` state, bare or behind `SingleThreadedInputSplit`)
at ANY point of ANY history: nothing is assumed about `s` beyond what each theorem lists (no reachability, no
invariant).  `step F s op = (s', .done)` says that the call returned normally.  `(drain F pick s').2` is the
outcome of consuming `s'` to the end with `NextRecord` (`pick i = true`) / `NextChunk` chosen per call: the
list of blobs, or the abnormal outcome.  `ExtractNoneIff F` ("ExtractNextRecord returns false exactly on an
exhausted chunk") holds for both formats: `extractNoneIff_text`, `extractNoneIff_recordio`.
All of this is about the source tree with fix C05-1 (the early returns for an empty part drop the buffered
chunk and the carry-over): on the unrepaired tree the lemma layer does not build and the statements are false
(witness: Props/C05Witness.lean, defect F1).
-/
import DmlcModel.Split.CoverReset

namespace DmlcModel.Props.C05
open DmlcModel DmlcModel.Split

/-- `BeforeFirst` establishes a clean state (nothing buffered, read position at the start of the part) from
ANY state and keeps the file list, the byte range and the buffer size.  `hlt`: the start offset of a
non-empty part is a `size_t` value (the model's offsets are unbounded naturals). -/
theorem C05_beforeFirst_clean (s s' : Base) (h : beforeFirst s = .ok s')
    (hlt : s.offBegin < s.offEnd → s.offBegin < 2^64) :
    Clean s' ∧ s'.files = s.files ∧ s'.offBegin = s.offBegin ∧ s'.offEnd = s.offEnd ∧
      s'.bufWords = s.bufWords := by
  obtain ⟨h1, h2, h3, h4, h5, _⟩ := beforeFirst_clean s s' h hlt
  exact ⟨h1, h2, h3, h4, h5⟩

/-- `ResetPartition(k, n)` establishes a clean state from ANY state, for ANY `(k, n)` — also `k ≥ n`, and
parts that are or become empty — and keeps the file list and the buffer size.  `SeekOk F` (SeekRecordBegin
stays inside its file; `seekOk_text`) and `ht` keep the new start offset a `size_t` value. -/
theorem C05_reset_clean (F : Fmt) (hS : SeekOk F) (s s' : Base) (k n : Nat)
    (ht : totalSize s.files < 2^63) (h : resetPartition F s k n = .ok s') :
    Clean s' ∧ s'.files = s.files ∧ s'.bufWords = s.bufWords := by
  obtain ⟨h1, h2, h3, _⟩ := reset_clean F hS s s' k n ht h
  exact ⟨h1, h2, h3⟩

/-- the same for any record format, with the `size_t` range of the new start offset as a hypothesis -/
theorem C05_reset_clean_gen (F : Fmt) (s s' : Base) (k n : Nat) (h : resetPartition F s k n = .ok s')
    (hlt : s'.offBegin < s'.offEnd → s'.offBegin < 2^64) :
    Clean s' ∧ s'.files = s.files ∧ s'.bufWords = s.bufWords := by
  obtain ⟨h1, h2, h3, _⟩ := resetPartition_clean F s s' k n h hlt
  exact ⟨h1, h2, h3⟩

/-- nothing buffered survives either call (no hypothesis at all on the state, the format or `(k, n)`): the
chunk and the carry-over of the base are empty, a wrapper holds no chunk -/
theorem C05_nothing_stale (F : Fmt) (s s' : St) (op : Op)
    (hop : op = .beforeFirst ∨ ∃ k n, op = .reset k n) (h : step F s op = (s', .done)) :
    s'.base.chunk.rest = [] ∧ s'.base.overflow = [] ∧ (∀ w, s'.wrap = some w → w.chunk = none) :=
  nothing_stale F s s' op hop h

/-- MAIN (reset): after `ResetPartition(k, n)` on ANY state `s` (bare or wrapped, any `(k, n)`), every further
consumption delivers blob for blob — and ends like — that of a fresh object `fresh` for part `k` of `n`:
`fresh.base` is the result of `ResetPartition(k, n)` on ANY base state `b0` over the same file list with
the same buffer size (in particular the blank state the constructor starts from), and `fresh` is wrapped iff
`s` is, with the same wrapper buffer size and no chunk (`WrapEquiv`; e.g. `fresh.wrap = s'.wrap`). -/
theorem C05_reset (F : Fmt) (hF : ExtractNoneIff F) (s s' : St) (k n : Nat)
    (h : step F s (.reset k n) = (s', .done))
    (b0 : Base) (hfiles : b0.files = s.base.files) (hbw : b0.bufWords = s.base.bufWords)
    (fresh : St) (hfb : resetPartition F b0 k n = .ok fresh.base) (hfw : WrapEquiv s'.wrap fresh.wrap)
    (pick : Nat → Bool) : (drain F pick s').2 = (drain F pick fresh).2 :=
  reset_eq_fresh F hF s s' k n h b0 hfiles hbw fresh hfb hfw pick

/-- MAIN (reset), against the constructor path of the model: `fresh` is literally the object `mkSt` builds for
part `k` of `n` over `files` (`s` holds the non-empty ones) with the buffer size of `s`; any format, bare or
wrapped (`WrapEquiv`: both bare, or both wrapped with wrapper buffer size `dw`) -/
theorem C05_reset_mkSt (F : Fmt) (hF : ExtractNoneIff F) (s s' : St) (k n : Nat)
    (h : step F s (.reset k n) = (s', .done))
    (files : List Bytes) (w dw : Nat) (wrapped : Bool)
    (hfiles : s.base.files = files.filter (fun f => !f.isEmpty)) (hw : s.base.bufWords = w)
    (fresh : St) (hfresh : mkSt F files k n w wrapped dw = .ok fresh) (hwrap : WrapEquiv s'.wrap fresh.wrap)
    (pick : Nat → Bool) : (drain F pick s').2 = (drain F pick fresh).2 :=
  reset_eq_mkSt F hF s s' k n h files w dw wrapped hfiles hw fresh hfresh hwrap pick

/-- history independence: `ResetPartition(k, n)` succeeds on `s` iff it does on any other object `t` over the
same file list with the same buffer sizes (`hwrap`: both bare, or both wrapped with equal wrapper buffer
size), and afterwards the two are indistinguishable, whatever was read or buffered before -/
theorem C05_reset_any_two (F : Fmt) (hF : ExtractNoneIff F) (s t s' : St) (k n : Nat)
    (hfiles : t.base.files = s.base.files) (hbw : t.base.bufWords = s.base.bufWords)
    (hwrap : WrapEquiv (s.wrap.map fun w => { w with chunk := none }) (t.wrap.map fun w => { w with chunk := none }))
    (h : step F s (.reset k n) = (s', .done)) :
    ∃ t', step F t (.reset k n) = (t', .done) ∧
      ∀ pick : Nat → Bool, (drain F pick s').2 = (drain F pick t').2 :=
  reset_any_two F hF s t s' k n hfiles hbw hwrap h

/-- MAIN (beforeFirst): after `BeforeFirst` on ANY state the object behaves as ANY clean object `t` on the same
byte range with the same buffer sizes (`WrapEquiv`: both bare, or both wrapped with equal wrapper buffer
size and `t`'s wrapper holding no unconsumed bytes) — in particular as the object right after its
construction or its last `ResetPartition`, whose range it still has (`C05_range_stable`).  Exact equality of
the outcomes of every full consumption, empty parts included. -/
theorem C05_beforeFirst (F : Fmt) (hF : ExtractNoneIff F) (s s' : St)
    (h : step F s .beforeFirst = (s', .done))
    (hlt : s.base.offBegin < s.base.offEnd → s.base.offBegin < 2^64)
    (t : St) (ht : Clean t.base) (hfiles : t.base.files = s.base.files)
    (hb : t.base.offBegin = s.base.offBegin) (he : t.base.offEnd = s.base.offEnd)
    (hw : t.base.bufWords = s.base.bufWords) (hwrap : WrapEquiv s'.wrap t.wrap)
    (pick : Nat → Bool) : (drain F pick s').2 = (drain F pick t).2 :=
  beforeFirst_eq_clean_strict F hF s s' h hlt t ht hfiles hb he hw hwrap pick

/-- when the part selected by `ResetPartition` is (or becomes, after snapping) empty — or `BeforeFirst` is called
on an empty part — nothing at all is delivered afterwards, whatever was buffered before: every consumption
ends at once, normally, with no blob (the regression statement of defect F1) -/
theorem C05_empty_part (F : Fmt) (hF : ExtractNoneIff F) (s s' : St) (op : Op)
    (hop : op = .beforeFirst ∨ ∃ k n, op = .reset k n) (h : step F s op = (s', .done))
    (he : s'.base.offEnd ≤ s'.base.offBegin) (pick : Nat → Bool) : (drain F pick s').2 = .ok [] :=
  empty_part_exhausted F hF s s' op hop h he pick

/-- the file list and the byte range are not changed by any operation other than `ResetPartition` — whatever the
outcome, on any state, bare or wrapped — so "the current part" is well defined between two `ResetPartition`s -/
theorem C05_range_stable (F : Fmt) (s : St) (op : Op) (hop : ∀ k n, op ≠ .reset k n) :
    (step F s op).1.base.files = s.base.files ∧ (step F s op).1.base.offBegin = s.base.offBegin ∧
      (step F s op).1.base.offEnd = s.base.offEnd :=
  range_stable F s op hop

/-- … nor by any history of such operations -/
theorem C05_range_stable_history (F : Fmt) (s : St) (ops : List Op)
    (hops : ∀ op ∈ ops, ∀ k n, op ≠ .reset k n) :
    (ops.foldl (fun s op => (step F s op).1) s).base.files = s.base.files ∧
      (ops.foldl (fun s op => (step F s op).1) s).base.offBegin = s.base.offBegin ∧
      (ops.foldl (fun s op => (step F s op).1) s).base.offEnd = s.base.offEnd :=
  range_stable_hist F ops s hops

/-- TEXT: `ResetPartition(k, n)` (`k < n`) on a bare split in ANY state does not fail -/
theorem C05_reset_text_ok (files : List Bytes) (hfiles : files ≠ []) (hne : ∀ f ∈ files, f ≠ [])
    (ht : totalSize files < 2^62) (s : St) (hs : s.base.files = files) (k n : Nat) (hk : k < n)
    (hn : n < 2^32) : ∃ s', step Fmt.text s (.reset k n) = (s', .done) :=
  reset_text_ok files hfiles hne ht s hs k n hk hn

/-- TEXT, any buffer size and any mix of `NextRecord` / `NextChunk`: after `ResetPartition(k, n)` (`k < n`) at
any point of any history of a bare split, a full consumption ends normally and the canonical lines it
delivers are exactly the lines of part `k` of `n` (cf. `C03_part_lines`); nothing read or buffered before
the call shows up, no blob is empty -/
theorem C05_reset_text_lines (files : List Bytes) (hne : ∀ f ∈ files, f ≠ [] ∧ NulFree f)
    (ht : totalSize files < 2^55) (s s' : St) (hs : s.base.files = files) (hbare : s.wrap = none)
    (hbw : s.base.bufWords < 2^56) (k n : Nat) (hk : k < n) (hn : n < 2^32)
    (h : step Fmt.text s (.reset k n) = (s', .done)) (pick : Nat → Bool) :
    ∃ bs s'', drain Fmt.text pick s' = (s'', .ok bs) ∧
      bs.flatMap canon = lines (rangeStream true files (bndT files n k) (bndT files n (k + 1))) ∧
      (∀ (i : Nat) (b : Bytes), bs[i]? = some b → b ≠ []) := by
  obtain ⟨bs, s'', h1, h2, h3⟩ := reset_text_lines files hne ht s s' hs hbare hbw k n hk hn h pick
  exact ⟨bs, s'', h1, h2, fun i b hb => (h3 i b hb).1⟩

/-- … the same lines as a freshly constructed split for part `k` of `n` delivers with ANY buffer size `w`, any
`kBufferSize` `dw` and any mix `pick'` of the two calls (ties C05 to `C03_buffer_independent`) -/
theorem C05_reset_text_as_fresh (files : List Bytes) (hfiles : files ≠ [])
    (hne : ∀ f ∈ files, f ≠ [] ∧ NulFree f)
    (ht : totalSize files < 2^55) (s s' : St) (hs : s.base.files = files) (hbare : s.wrap = none)
    (hbw : s.base.bufWords < 2^56) (k n : Nat) (hk : k < n) (hn : n < 2^32)
    (h : step Fmt.text s (.reset k n) = (s', .done)) (pick : Nat → Bool)
    (w dw : Nat) (hw : w < 2^56) (pick' : Nat → Bool) :
    linesOf (drain Fmt.text pick s').2 = linesOf (partBlobs Fmt.text files k n w dw pick') :=
  reset_text_lines_fresh files hfiles hne ht s s' hs hbare hbw k n hk hn h pick w dw hw pick'

end DmlcModel.Props.C05
