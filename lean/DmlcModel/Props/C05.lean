/-
C05 — BeforeFirst / ResetPartition at any point equal a fresh split.
Property theorems only; definitions in DmlcModel/Split/{Model,Spec}.lean, lemmas in DmlcModel/Split/*Lemmas.lean.
-/
import DmlcModel.Split.Spec

namespace DmlcModel.Props.C05
open DmlcModel DmlcModel.Split

end DmlcModel.Props.C05
