/-
Non-vacuity of the C06 hypotheses and regressions of defect F2 (DESIGN section 6) evaluated on the model
(kernel `decide`).  The model follows the code that exists; these examples hold for the repaired code.
-/
import DmlcModel.Props.C06
namespace DmlcModel.Props.C06
open DmlcModel DmlcModel.Indexed
open DmlcModel.RecordIO (writeAll writeRecord)

/-- two records: "A" and the magic word followed by "B" (a two-part record image) -/
def w2 : List Bytes := [[65], [0x0a, 0x23, 0xd7, 0xce, 66]]

example : writeAll w2 = [0x0a, 0x23, 0xd7, 0xce, 1, 0, 0, 0, 65, 0, 0, 0,
                         0x0a, 0x23, 0xd7, 0xce, 0, 0, 0, 0x20, 0x0a, 0x23, 0xd7, 0xce, 1, 0, 0, 0x60, 66, 0, 0, 0] := by decide
example : starts w2 = [0, 12] := by decide
/-- the hypotheses of the theorems are satisfiable: index lines in reverse order -/
example : Input w2 [12, 0] := ⟨by decide, by decide, by decide, by decide⟩
example : slicePositions 2 3 0 = [0] ∧ slicePositions 2 3 1 = [1] ∧ slicePositions 2 3 2 = [] := by decide
example : [1, 0].Perm (slicePositions 2 1 0) := by decide
example : OpsOk 2 true 0 2 [.pull .record, .bf [1, 0], .pull (.batch 3), .reset 2 3 [], .bf [], .pull .chunk] := by
  refine ⟨trivial, fun _ => by decide, ⟨by decide, by decide⟩, by decide, by decide, by decide, fun _ => by decide,
    fun _ => by decide, trivial, trivial⟩

/-- outputs of a history on a bare object for part `k` of `n` over `w2` (index lines reversed) -/
inductive Out
  | nothing                 -- end of the part / a call without result (BeforeFirst, ResetPartition)
  | blob (b : Bytes)
  | err (e : Err)
  deriving DecidableEq, Repr

/-- `index_` as `ReadIndexFile` leaves it for `w2` (`List.mergeSort` is defined by well-founded recursion and
does not evaluate in the kernel, so the examples start behind it) -/
example : goodIndex w2 = [(0, 12), (12, 20), (32, 0)] := by decide

def hist (k n batch : Nat) (shuffle : Bool) (p : List Nat) (ops : List Op) : List Out :=
  match resetPartition { file := writeAll w2, index := [(0, 12), (12, 20), (32, 0)], shuffle := shuffle, batch := batch,
                         chunk := { dataWords := 9 }, bufWords := 8 } k n p with
  | .error e => [.err e]
  | .ok s =>
    (ops.foldl (fun (acc : Option St × List Out) op =>
      match acc.1 with
      | none => (none, acc.2)
      | some s =>
        match stepOp s op with
        | .error e => (none, acc.2 ++ [.err e])
        | .ok (none, s') => (some s', acc.2 ++ [.nothing])
        | .ok (some b, s') => (some s', acc.2 ++ [.blob b])) (some s, [])).2

/-- F2 (i) regression: part 2 of 3 of two records receives nothing; every call must report the end (the
unrepaired code read `n_overflow_`, `current_index_`, `index_end_` uninitialised) -/
example : hist 2 3 1 false [] [.pull (.batch 1), .pull .record, .bf [], .pull .chunk] =
    [.nothing, .nothing, .nothing, .nothing] := by decide
example : hist 2 3 1 true [] [.pull .chunk, .bf [], .pull .record] = [.nothing, .nothing, .nothing] := by decide

/-- F2 (ii) regression: `reset 0 1; reset 0 1; reset 1 2` then `NextRecord` must deliver record 1 (the
unrepaired code had pushed two sentinels, took one for a record and indexed `files_[1]`) -/
example : hist 0 1 1 false [] [.reset 0 1 [], .reset 0 1 [], .reset 1 2 [], .pull .record, .pull .record] =
    [.nothing, .nothing, .nothing, .blob ([0x0a, 0x23, 0xd7, 0xce, 66]), .nothing] := by decide

/-- F2 (iii) regression: `NextRecord` and `NextBatch` mixed within one pass deliver each record once -/
example : hist 0 1 2 false [] [.pull .record, .pull (.batch 1), .pull .record] =
    [.blob ([65]), .blob (((writeRecord [0x0a, 0x23, 0xd7, 0xce, 66]).1)), .nothing] := by decide

/-- a shuffled pass delivers the slice in the order of the shuffle result, then the next pass in its order -/
example : hist 0 1 1 true [1, 0] [.pull .record, .pull .record, .pull .record, .bf [0, 1], .pull .record] =
    [.blob ([0x0a, 0x23, 0xd7, 0xce, 66]), .blob ([65]), .nothing, .nothing, .blob ([65])] := by decide

end DmlcModel.Props.C06
