/- non-vacuity / regression witnesses for C04: concrete inputs evaluated on the model (kernel `decide`) -/
import DmlcModel.Props.C04
namespace DmlcModel.Props.C04
open DmlcModel DmlcModel.Split DmlcModel.RecordIO

/-- a record with the magic word at offsets 0 and 4 plus a tail (three parts on disk), an empty record, a short one -/
def w9 : Bytes := [0x0a, 0x23, 0xd7, 0xce, 0x0a, 0x23, 0xd7, 0xce, 0x71]
def wrss : List (List Bytes) := [[w9, []], [[1, 2, 3, 4, 5]]]

example : (wrss.map writeAll).map List.length = [36, 16] := by decide
/-- 7 parts over 52 bytes with a 2-word buffer: boundaries inside the multi-part record, empty parts -/
example : ((List.range 7).map fun k => okOf (partBlobs Fmt.recordio (wrss.map writeAll) k 7 2 4 (fun _ => true)))
    = [some [w9], some [], some [], some [[]], some [[1, 2, 3, 4, 5]], some [], some []] := by decide

/-! ### non-vacuity of the C04 theorems: their hypotheses hold for `wrss`, `n = 7`, `w = 2`, `dw = 4` -/

example : ∃ parts : List (List Bytes),
    (List.range 7).map (fun k => okOf (partBlobs Fmt.recordio (wrss.map writeAll) k 7 2 4 (fun _ => true)))
      = parts.map some ∧ parts.flatten = wrss.flatten :=
  C04_parts_cover wrss 7 2 4 (by decide) (by decide) (by decide) (by decide) (by decide) (by decide) (by decide)

example : partBlobs Fmt.recordio (wrss.map writeAll) 3 7 2 4 (fun _ => true)
    = .ok (recsIn wrss.flatten 0 (bndR wrss 7 3) (bndR wrss 7 4)) :=
  C04_part_records wrss 7 2 4 (by decide) (by decide) (by decide) (by decide) (by decide) (by decide) 3 (by decide)

/-- alternating `NextRecord` / `NextChunk`, differently per part -/
example :
    (∀ k, k < 7 → ∃ bs, partBlobs Fmt.recordio (wrss.map writeAll) k 7 2 4 (fun i => (k + i) % 2 == 0) = .ok bs) ∧
    (List.range 7).flatMap (fun k => recordsOf (fun i => (k + i) % 2 == 0)
        (partBlobs Fmt.recordio (wrss.map writeAll) k 7 2 4 (fun i => (k + i) % 2 == 0))) = wrss.flatten :=
  C04_parts_cover_any_mode wrss 7 2 4 (by decide) (by decide) (by decide) (by decide) (by decide) (by decide)
    (by decide) (fun k i => (k + i) % 2 == 0)

example : ∃ (bs : List Bytes) (runs : List (List Bytes)),
    partBlobs Fmt.recordio (wrss.map writeAll) 0 7 2 4 (fun _ => false) = .ok bs ∧ runs.length = bs.length ∧
    runs.flatten = recsIn wrss.flatten 0 (bndR wrss 7 0) (bndR wrss 7 1) ∧
    (∀ (i : Nat) (b : Bytes) (run : List Bytes), bs[i]? = some b → runs[i]? = some run →
      run ≠ [] ∧ (if (fun _ => false) i then run = [b] else b = writeAll run)) :=
  C04_chunks_whole_records wrss 7 2 4 (by decide) (by decide) (by decide) (by decide) (by decide) (by decide) 0
    (by decide) (fun _ => false)

example : bndR wrss 7 0 = 0 ∧ bndR wrss 7 7 = totalSize (wrss.map writeAll) ∧
    (∀ i j, i ≤ j → bndR wrss 7 i ≤ bndR wrss 7 j) ∧ (∀ j, GHead wrss (bndR wrss 7 j)) ∧
    (∀ j, bndR wrss 7 j % 4 = 0) :=
  C04_boundaries wrss 7 (by decide) (by decide) (by decide) (by decide)

/-- consumed with `NextChunk` only: the chunks of the parts, read back with `RecordIOReader`, are the records
(evaluated on the model) -/
example : ((List.range 7).map fun k =>
      recordsOf (fun _ => false) (partBlobs Fmt.recordio (wrss.map writeAll) k 7 2 4 (fun _ => false)))
    = [[w9], [], [], [[]], [[1, 2, 3, 4, 5]], [], []] := by decide
end DmlcModel.Props.C04
