/- non-vacuity / regression witnesses for C04: concrete inputs evaluated on the model (kernel `decide`) -/
import DmlcModel.Props.C04
namespace DmlcModel.Props.C04
open DmlcModel DmlcModel.Split DmlcModel.RecordIO

/-- a record with the magic word at offsets 0 and 4 plus a tail (three parts on disk), an empty record, a short one -/
def w9 : Bytes := [0x0a, 0x23, 0xd7, 0xce, 0x0a, 0x23, 0xd7, 0xce, 0x71]
def wrss : List (List Bytes) := [[w9, []], [[1, 2, 3, 4, 5]]]

example : (wrss.map writeAll).map List.length = [36, 16] := by decide
/-- 7 parts over 52 bytes with a 2-word buffer: boundaries inside the multi-part record, empty parts -/
example : ((List.range 7).map fun k => okOf (partBlobs Fmt.recordio (wrss.map writeAll) k 7 2 4 (fun _ => true)))
    = [some [w9], some [], some [], some [[]], some [[1, 2, 3, 4, 5]], some [], some []] := by decide
end DmlcModel.Props.C04
