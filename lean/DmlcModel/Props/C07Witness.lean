/-
C07 witnesses (non-vacuity of the hypotheses `Reachable P s`, `inCall s`, `NoFail P`, and of the bounds).
Each run is a schedule of the model; the harness replays schedules of the same shape on the real code.
-/
import DmlcModel.TIter.Corollaries

namespace DmlcModel.Props.C07Witness
open DmlcModel DmlcModel.TIter DmlcModel.Gen.TIter

/-- a source of 3 items per pass -/
def P3 (cap : Nat) : Params := { src := fun p i => if i < 3 then .item (100 * p + i) else .fin, rew := fun _ => .ok, cap := cap }

theorem C07_witness_noFail : NoFail (P3 1) := by
  constructor
  · intro p i; simp only [P3]; split <;> simp
  · intro p; simp [P3]

/-- two consumers wait in Next, the queue is empty, the producer is inside its callback -/
theorem C07_witness_two_waiters :
    ∃ t, runEvents true (P3 2) init
      [.nStart false, .nStart false, .nLoadSig, .nLoadSig, .nExc, .nExc, .nLock, .nLock, .prod] = some t ∧
      t.nW = 2 ∧ t.nwaitC = 2 ∧ t.queue = [] ∧ t.ploc = .call ∧ inCall t := by
  refine ⟨_, rfl, rfl, rfl, rfl, rfl, Or.inl (by decide)⟩

/-- the allocation bound is attained: max_capacity = 1, a consumer holds cell 0 while the producer allocates
cell 1 (allocated = 2 = cap + maxLent), and the consumer's item is position 0 -/
theorem C07_witness_alloc_bound_tight :
    ∃ t, runEvents true (P3 1) init
      [.prod, .prod, .prod, .prod, .nStart false, .nLoadSig, .nExc, .nLock, .prod, .prod] = some t ∧
      t.allocated = 2 ∧ t.maxLent = 1 ∧ t.lent = [0] ∧ t.pcell = some 1 ∧
      t.delivered = [⟨0, 0, 0⟩] ∧ t.pitem = some ⟨0, 1, 1⟩ := by
  refine ⟨_, rfl, rfl, rfl, rfl, rfl, rfl, rfl⟩

/-- the queue can exceed max_capacity (the bound is on allocations, not on the queue length): cap = 1, the
consumer recycles cell 0 while cell 1 is queued, the producer refills cell 0 -/
theorem C07_witness_queue_exceeds_cap :
    ∃ t, runEvents true (P3 1) init
      [.prod, .prod, .prod, .prod, .nStart false, .nLoadSig, .nExc, .nLock, .prod, .prod, .prod, .prod,
       .nRetItem, .rStart 0, .rExc 0, .rLock 0, .prod, .prod, .prod, .prod] = some t ∧
      t.queue.length = 2 ∧ t.allocated = 2 := by
  refine ⟨_, rfl, rfl, rfl⟩

/-- Next returns false after the end: a complete pass over the 3 items through Next()/Value() -/
theorem C07_witness_end :
    ∃ t, runEvents true { (P3 3) with src := fun _ _ => .fin } init
      [.prod, .prod, .prod, .nStart false, .nLoadSig, .nExc, .nLock, .nRetEnd] = some t ∧ t.ret = .nextEnd ∧
      t.srcEnded = true := by
  refine ⟨_, rfl, rfl, rfl⟩

end DmlcModel.Props.C07Witness
