/-
C16 — JSONWriter / JSONReader: round trip for all values of the schema family, well-formed output,
malformed input is safe.  Property theorems only; the proofs live in
DmlcModel/Json/{IStreamIntLemmas,Lemmas,WriterSpec,WellFormed,Total,RoundTrip}.lean.

The model follows json.h *with fixes/C16-1.diff applied* (object keys go through `WriteString`):
`Gen.Json.keyEscaped` is extracted from the source on every run and the proofs use `keyEscaped = true`
(on the pinned tree it is `false`, these theorems do not compile and the oracle shows finding C16-F9;
`C16Witness.lean` holds the refutation for the pinned behaviour).

Quantification: every schema type `t : JTy` (strings, 16/32/64-bit integers of both signs — indeed
any width —, bool, pair, vector, list, map, unordered_map, any with an arbitrary registry, classes
with required / optional fields, nested arbitrarily) and every value `v` with `hasType t v`; strings,
map keys, any names and field names range over all byte strings.
-/
import DmlcModel.Json.Lemmas
import DmlcModel.Json.WriterSpec
import DmlcModel.Json.WellFormed
import DmlcModel.Json.Total
import DmlcModel.Json.RoundTrip

namespace DmlcModel.Props.C16
open DmlcModel DmlcModel.Json

/-- **Round trip (main statement).** For every well-formed schema type and every value of it, the
writer succeeds, and the reader applied to the produced text followed by any `rest` that does not
begin with a decimal digit (i.e. does not start inside a number token) returns the value and leaves
exactly `rest` unread with an empty scope stack.  `canon t v` is `v` with every map re-built by
insertion of its pairs (`mapOfList`): the identity for `std::map` (see `C16_roundtrip_exact`), the
key-sorted form for `unordered_map`, whose iteration order carries no information. -/
theorem C16_roundtrip (t : JTy) (v : Val) (hwf : t.wf = true) (ht : hasType t v = true) (rest : Bytes)
    (hrest : IStreamInt.startsWithDigit rest = false) :
    ∃ bs, writeTop t v = .ok bs ∧
      ∃ st, readTop t (bs ++ rest) = .ok (canon t v, st) ∧ st.inp = rest ∧ st.scope = [] :=
  readTop_writeTop t v hwf ht rest hrest

/-- For types without `unordered_map` the value read back is *equal* to the value written. -/
theorem C16_roundtrip_exact (t : JTy) (v : Val) (hwf : t.wf = true) (hn : noUmap t = true)
    (ht : hasType t v = true) (rest : Bytes) (hrest : IStreamInt.startsWithDigit rest = false) :
    ∃ bs, writeTop t v = .ok bs ∧ ∃ st, readTop t (bs ++ rest) = .ok (v, st) ∧ st.inp = rest ∧ st.scope = [] := by
  have h := readTop_writeTop t v hwf ht rest hrest
  rwa [canon_eq_self t v hn ht] at h

/-- The same inside any context: after arbitrary whitespace, under any multi-line stack of the writer
and any scope stack / line counters of the reader (this is what makes the statement compositional:
a value embedded in a larger document is read back by the handler of its type). -/
theorem C16_roundtrip_embedded (t : JTy) (v : Val) (hwf : t.wf = true) (ht : hasType t v = true)
    (ml : List Bool) (ws rest : Bytes) (hws : ∀ c ∈ ws, Gen.Json.isSpace c.toNat = true)
    (hrest : IStreamInt.startsWithDigit rest = false) (lr ln : Nat) (sc : List Nat) :
    ∃ lr' ln', read t { inp := ws ++ enc t v ml ++ rest, lineR := lr, lineN := ln, scope := sc }
      = .ok (canon t v, { inp := rest, lineR := lr', lineN := ln', scope := sc }) :=
  read_enc t v hwf ht ml ws rest hws hrest lr ln sc

/-- **Well-formed output.** If no string, map key, any name or field name contains a control
character other than TAB, LF, CR, the text the writer produces is accepted by the independent
RFC 8259 recogniser `wellFormed`. -/
theorem C16_wellformed (t : JTy) (v : Val) (ht : hasType t v = true) (hct : cleanTy t = true)
    (hc : clean t v = true) : ∃ bs, writeTop t v = .ok bs ∧ wellFormed bs = true :=
  ⟨enc t v [], writeTop_eq_enc t v ht, wellFormed_enc t v ht hct hc⟩

/-- **Totality / no hang.** `read` is a total function by construction; its three loops carry a budget
of (remaining input length + 1) iterations and this budget is never exhausted, for any type and any
input whatsoever: the outcome `fuel` (the model's rendering of a hang) is unreachable. -/
theorem C16_total (t : JTy) (st : RState) : read t st ≠ .error .fuel :=
  (read_ok t st).1

/-- fuel adequacy of the array loop itself: any budget above the remaining input length suffices -/
theorem C16_fuel_adequate (t : JTy) (fuel : Nat) (st : RState) (c : Nat) (sc : List Nat)
    (hs : st.scope = c :: sc) (hf : st.inp.length < fuel) : arrayLoop (read t) fuel st ≠ .error .fuel :=
  (arrayLoop_ok (read t) (read_ok t) fuel st c sc hs hf).1

/-- **Malformed input is safe.** Whatever the bytes, reading ends in a value or in a thrown
dmlc::Error (`check`); a value is returned only after consuming at least one byte. -/
theorem C16_malformed_safe (t : JTy) (s : Bytes) :
    readTop t s = .error .check ∨ ∃ v st, readTop t s = .ok (v, st) ∧ st.inp.length < s.length ∧ st.scope = [] := by
  have h := readTop_ok t s
  cases hr : readTop t s with
  | error e =>
    left
    cases e with
    | check => rfl
    | scope => exact absurd hr h.2.1
    | fuel => exact absurd hr h.1
    | type => exact absurd hr h.2.2.1
  | ok p =>
    right
    obtain ⟨v, st⟩ := p
    exact ⟨v, st, rfl, (h.2.2.2 v st hr).2, (h.2.2.2 v st hr).1⟩

/-- **No scope underflow (reader).** Started on any state — even with an empty scope stack — the
handlers never call `back()` / `pop_back()` on an empty `scope_counter_`, and a successful read
leaves the stack exactly as it found it. -/
theorem C16_no_scope_underflow (t : JTy) (st : RState) :
    read t st ≠ .error .scope ∧ ∀ v st', read t st = .ok (v, st') → st'.scope = st.scope :=
  ⟨(read_ok t st).2.1, fun v st' h => ((read_ok t st).2.2.2 v st' h).1⟩

/-- **No scope underflow (writer).** For a value of the type the writer never touches an empty scope
stack, never trips the `CHECK`s of `EndArray` / `EndObject` / `Write`, emits exactly `enc t v` and
restores both stacks. -/
theorem C16_no_scope_underflow_writer (t : JTy) (v : Val) (ht : hasType t v = true) (st : WState) :
    write t v st = .ok { out := st.out ++ enc t v st.ml, cnt := st.cnt, ml := st.ml } :=
  write_eq_enc t v ht st

/-! ### non-vacuity: a concrete nested type and value that satisfy every hypothesis -/

set_option maxRecDepth 20000

/-- `std::map<std::string, std::pair<std::vector<int32_t>, Rec>>` with a class `Rec {s; opt u16}` -/
def exTy : JTy :=
  .map (.pair (.vec (.int 32 true)) (.cls false (.cons [110] false .str (.cons [120, 34, 121] true (.int 16 false) .nil))))

/-- keys `a"b` and `c\`; a string holding quote, backslash, CR, LF, TAB, 0xff -/
def exVal : Val :=
  .obj [([97, 34, 98], .pair (.arr [.int 1, .int (-2)]) (.cls [.str [34, 92, 13, 10, 9, 255], .int 65535])),
        ([99, 92], .pair (.arr []) (.cls [.str [], .int 0]))]

example : exTy.wf = true := by decide
example : hasType exTy exVal = true := by decide
example : noUmap exTy = true := by decide
example : cleanTy exTy = true := by decide
example : clean exTy exVal = true := by decide
example : IStreamInt.startsWithDigit [44, 49] = false := by decide
example : (match writeTop exTy exVal with
    | .ok bs => (match readTop exTy (bs ++ [44, 49]) with
      | .ok (_, st) => st.inp == [44, 49] && wellFormed bs
      | .error _ => false)
    | .error _ => false) = true := by decide +kernel

end DmlcModel.Props.C16
