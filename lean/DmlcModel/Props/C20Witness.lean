/- non-vacuity: concrete worker counts and child orders that meet the hypotheses of the C20 theorems,
evaluated on the model by the kernel (`decide`) -/
import DmlcModel.Props.C20
namespace DmlcModel.Props.C20
open DmlcModel DmlcModel.Tracker

/-- no oracle information: the model's own (ascending) order everywhere – CPython's order for n ≤ 7 -/
def ordAsc : Nat → List Nat := fun _ => []
/-- the children of ranks 0 and 2 are iterated in descending order -/
def ordMixed : Nat → List Nat := fun r => if r = 0 then [2, 1] else if r = 2 then [6, 5] else []
/-- an "order" that is not an order of the child set is ignored by the model -/
def ordJunk : Nat → List Nat := fun _ => [9, 9, 9]

example : (1 : Nat) ≤ 7 := by decide

-- the ring list depends on the child order …
example : (ringList 7 ordAsc).toOption = some [0, 1, 3, 4, 6, 5, 2] := by decide
example : (ringList 7 ordMixed).toOption = some [0, 2, 6, 5, 4, 3, 1] := by decide
example : (ringList 7 ordJunk).toOption = (ringList 7 ordAsc).toOption := by decide
example : [0, 2, 6, 5, 4, 3, 1].Perm (List.range 7) := by decide

-- … the returned ring does not
example : (getLinkMap 7 ordAsc).toOption.map (·.ring) =
    some [(0, (6, 1)), (1, (0, 2)), (2, (1, 3)), (3, (2, 4)), (4, (3, 5)), (5, (4, 6)), (6, (5, 0))] := by decide
example : (getLinkMap 7 ordMixed).toOption.map (·.ring) = (getLinkMap 7 ordAsc).toOption.map (·.ring) := by decide

-- relabelled tree and parents for the mixed order (heap node 2 becomes rank 1, heap node 1 rank 6)
example : (getLinkMap 7 ordMixed).toOption.map (fun lm => (lm.tree.lookup 0, lm.tree.lookup 1, lm.tree.lookup 6)) =
    some (some [6, 1], some [0, 3, 2], some [0, 5, 4]) := by decide
example : (getLinkMap 7 ordMixed).toOption.map (fun lm => (lm.parent.lookup 0, lm.parent.lookup 4, lm.parent.lookup 6)) =
    some (some (-1), some 6, some 0) := by decide
example : (getLinkMap 7 ordMixed).toOption.map (fun lm => parentSteps lm.parent 2 4) = some (some 0) := by decide
example : (getLinkMap 7 ordMixed).toOption.map (fun lm => (lm.tree.map fun e => e.2.length).sum) = some 12 := by decide

-- smallest cases
example : (getLinkMap 1 ordAsc).toOption = some { tree := [(0, [])], parent := [(0, -1)], ring := [(0, (0, 0))] } := by decide
example : (getLinkMap 2 ordAsc).toOption =
    some { tree := [(0, [1]), (1, [0])], parent := [(0, -1), (1, 0)], ring := [(0, (1, 1)), (1, (0, 0))] } := by decide

-- the hypothesis `1 ≤ n` is needed: `get_link_map(0)` raises KeyError (`parent_map[0]`)
example : (match getLinkMap 0 ordAsc with | .error .key => true | _ => false) = true := by decide

end DmlcModel.Props.C20
