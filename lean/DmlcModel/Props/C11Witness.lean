import DmlcModel.Parse.Model
namespace DmlcModel.Props.C11Witness
end DmlcModel.Props.C11Witness
