/-
C11 — witnesses.
(1) Non-vacuity: a concrete conversion satisfying `Conv.Local`, and concrete texts satisfying the
    hypotheses of the C11 theorems.
(2) The misbehaviour of the pinned source (`Fixes.pinned` = the model with none of the repairs),
    decided on the model: the findings C11-F1..F5, and the same inputs under the repaired source.
-/
import DmlcModel.Props.C11

namespace DmlcModel.Props.C11Witness
open DmlcModel DmlcModel.Parse DmlcModel.Props.C11

deriving instance DecidableEq for Except

def isDig (b : UInt8) : Bool := 48 ≤ b.toNat && b.toNat ≤ 57
/-- decimal value of the leading digits -/
def dig (s : Bytes) : Nat := (s.takeWhile isDig).foldl (fun a b => a * 10 + (b.toNat - 48)) 0

/-- a conversion that is local by construction: decimal digits at the start of the token run -/
def convRun : Conv :=
  { real := fun mem p => .ok (dig (runAt mem p))
    index := fun mem p => .ok (dig (runAt mem p))
    qid := fun mem p => .ok (dig (runAt mem p))
    cell := fun mem p => .ok (dig (runAt mem p), p + ((runAt mem p).takeWhile isDig).length) }

theorem convRun_local : convRun.Local :=
  ⟨fun r => .ok (dig r), fun r => .ok (dig r), fun r => .ok (dig r),
   fun r => .ok (dig r, (r.takeWhile isDig).length),
   ⟨fun _ _ _ => rfl, fun _ _ _ => rfl, fun _ _ _ => rfl, fun _ _ _ => rfl⟩⟩

/-- "1 1:3\n# 5 2:3\n \n2 4:1\n": a comment line and a blank line between two rows -/
def doc1 : Bytes := [49, 32, 49, 58, 51, 10, 35, 32, 53, 32, 50, 58, 51, 10, 32, 10, 50, 32, 52, 58, 49, 10]

def row (l : Nat) (i v : List Nat) : Row :=
  { label := some l, weight := none, qid := none, field := none, index := i, value := some v }

/-- the hypotheses of `C11_block_is_concat_of_lines_libsvm` hold for `doc1` … -/
example : (eolSplit doc1).mapM (rows (.libsvm 32 0) convRun) = .ok [[row 1 [1] [3]], [], [], [row 2 [4] [1]], []] := by
  decide
example : AgreeRows ([[row 1 [1] [3]], [], [], [row 2 [4] [1]], []] : List (List Row)).flatten :=
  ⟨Or.inl (by decide), Or.inr (by decide), Or.inr (by decide), Or.inl (by decide)⟩
/-- … and so does its conclusion, computed directly -/
example : rows (.libsvm 32 0) convRun doc1 = .ok [row 1 [1] [3], row 2 [4] [1]] := by decide

/-! ### the pinned source (no repairs) -/

def isWs (b : UInt8) : Bool := Gen.Parse.isspace b.toNat
/-- what the real conversions do: skip white space *including end-of-line bytes*, then convert -/
def convSkip : Conv :=
  { real := fun mem p => .ok (dig ((mem.drop p).dropWhile isWs))
    index := fun mem p => .ok (dig ((mem.drop p).dropWhile isWs))
    qid := fun mem p => .ok (dig ((mem.drop p).dropWhile isWs))
    cell := fun mem p =>
      let s := mem.drop p
      .ok (dig (s.dropWhile isWs), p + (s.takeWhile isWs).length + ((s.dropWhile isWs).takeWhile isDig).length) }

def pinnedRows (f : Format) (t : Bytes) : Res (List Row) :=
  (f.parseBlock Fixes.pinned convSkip (t ++ [0]) 0 t.length).bind rowsOf
def repairedRows (f : Format) (t : Bytes) : Res (List Row) :=
  (f.parseBlock Fixes.repaired convSkip (t ++ [0]) 0 t.length).bind rowsOf

/-- "1 1:\n9 2:2\n" -/
def docColon : Bytes := [49, 32, 49, 58, 10, 57, 32, 50, 58, 50, 10]
/-- C11-F1 on the pinned source: the value of row 0 is the label of the next line (9); the line alone gives 0 -/
example : pinnedRows (.libsvm 32 0) docColon = .ok [row 1 [1] [9], row 9 [2] [2]] := by decide
example : pinnedRows (.libsvm 32 0) [49, 32, 49, 58] = .ok [row 1 [1] [0]] := by decide
/-- repaired: the dangling colon yields an entry without value; mixed with a valued row the block is rejected by GetBlock -/
example : repairedRows (.libsvm 32 0) [49, 32, 49, 58] =
    .ok [{ label := some 1, weight := none, qid := none, field := none, index := [1], value := none }] := by decide

/-- "1 qid:\n7 1:1\n": C11-F2, the qid of row 0 is taken from the next line -/
def docQid : Bytes := [49, 32, 113, 105, 100, 58, 10, 55, 32, 49, 58, 49, 10]
example : ((Format.libsvm 32 0).parseBlock Fixes.pinned convSkip (docQid ++ [0]) 0 docQid.length).map (·.qid) = .ok [7] := by
  decide
example : ((Format.libsvm 32 0).parseBlock Fixes.repaired convSkip (docQid ++ [0]) 0 docQid.length).map (·.qid) = .ok [0] := by
  decide

/-- "1 1:1\n# 5 2:3\n2 1:1\n": C11-F4, the comment line is parsed as a row unless it is first in its block -/
def docComment : Bytes := [49, 32, 49, 58, 49, 10, 35, 32, 53, 32, 50, 58, 51, 10, 50, 32, 49, 58, 49, 10]
example : pinnedRows (.libsvm 32 0) docComment = .ok [row 1 [1] [1], row 5 [2] [3], row 2 [1] [1]] := by decide
example : repairedRows (.libsvm 32 0) docComment = .ok [row 1 [1] [1], row 2 [1] [1]] := by decide
/-- … and with a block boundary in front of the comment the pinned source gives 2 rows: the row stream depends on the cut -/
example : pinnedRows (.libsvm 32 0) (docComment.drop 6) = .ok [row 2 [1] [1]] := by decide

/-- "1, \n3,4\n": C11-F3, the blank csv cell takes the first cell of the next line -/
def docCsv : Bytes := [49, 44, 32, 10, 51, 44, 52, 10]
def csvPrm : CsvParam := { labelCol := 4294967295, weightCol := 4294967295, delim := 44, isReal := true }
def crow (i v : List Nat) : Row :=
  { label := none, weight := none, qid := none, field := none, index := i, value := some v }
example : pinnedRows (.csv csvPrm) docCsv = .ok [crow [0, 1] [1, 3], crow [0, 1] [3, 4]] := by decide
example : repairedRows (.csv csvPrm) docCsv = .ok [crow [0] [1], crow [0, 1] [3, 4]] := by decide

/-- "1 2:\n9\n": C11-F1 for libfm (ParseTriple) -/
def docFm : Bytes := [49, 32, 50, 58, 10, 57, 10]
example : ((Format.libfm 32 0).parseBlock Fixes.pinned convSkip (docFm ++ [0]) 0 docFm.length).map (·.index) = .ok [9] := by
  decide
example : ((Format.libfm 32 0).parseBlock Fixes.repaired convSkip (docFm ++ [0]) 0 docFm.length).map (·.index) = .ok [] := by
  decide

/-- "1,2\n" followed by a UTF-8 BOM as the last bytes of the block: C11-F5, the pinned line loop runs past the end -/
def docBom : Bytes := [49, 44, 50, 10, 239, 187, 191]
example : pinnedRows (.csv csvPrm) docBom = .error .oob := by decide
example : repairedRows (.csv csvPrm) docBom = .ok [crow [0, 1] [1, 2]] := by decide

/-- `C11_fillData_slices`: the slices the model computes for: "1 1:1\n2 2:2\n3\n", 3 threads -/
example : (List.range 3).map (fun tid => threadSlice [49, 32, 49, 58, 49, 10, 50, 32, 50, 58, 50, 10, 51, 10, 0] 14 3 tid)
    = [.ok (0, 5), .ok (5, 5), .ok (5, 14)] := by decide

end DmlcModel.Props.C11Witness
