/-
C04, file-list part — the cover theorems of C04 restated for a RecordIO splitter constructed from a URI
string over a file system (`InputSplitBase::Init` / `InitInputFileInfo` / `ConvertToURIs`).
Property theorems only; model in DmlcModel/Split/Files.lean, `partBlobsUri` and lemmas in
DmlcModel/Split/FilesLemmas.lean.
-/
import DmlcModel.Split.FilesLemmas
import DmlcModel.Props.C04

namespace DmlcModel.Props.C04
open DmlcModel DmlcModel.Split DmlcModel.RecordIO
open DmlcModel.Split.CoverAux

/-- what a successful file-list construction contributes to the hypotheses of C04: with the listed contents
being the writer images of `rss`, there is at least one record list and none is empty -/
theorem C04_listed_images (rx : Name → Name → Bool) (fs : FileSys) (uri : Bytes) (rc : Bool) (infos : List Info)
    (hU : fs.Pairwise (fun a b => a.1 ≠ b.1)) (h : initInputFileInfo rx fs uri rc = .ok infos)
    (rss : List (List Bytes)) (himg : infos.map (fun i => contentOf fs i.name) = rss.map writeAll) :
    rss ≠ [] ∧ ∀ rs ∈ rss, rs ≠ [] := by
  obtain ⟨g1, g2, _⟩ := contents_of_ok rx fs uri rc infos hU h
  rw [himg] at g1 g2
  refine ⟨fun hn => g1 (by rw [hn]; rfl), fun rs hrs hn => ?_⟩
  exact g2 (writeAll rs) (List.mem_map.2 ⟨rs, hrs, rfl⟩) (by rw [hn]; rfl)

/-- `C04_parts_cover` from the URI: if the URI expands to `infos` whose contents are the writer images of the
record lists `rss` (records shorter than 2^29 bytes, less than 2^56 bytes in all, `1 ≤ n < 2^32`,
`2 ≤ w < 2^56`), then for any matcher / recursion flag, consumed with `NextRecord`, no part fails and the
parts deliver exactly the written records, in list order, each exactly once -/
theorem C04_parts_cover_uri (rx : Name → Name → Bool) (fs : FileSys) (uri : Bytes) (rc : Bool) (infos : List Info)
    (hU : fs.Pairwise (fun a b => a.1 ≠ b.1)) (h : initInputFileInfo rx fs uri rc = .ok infos)
    (rss : List (List Bytes)) (himg : infos.map (fun i => contentOf fs i.name) = rss.map writeAll)
    (hshort : ∀ rs ∈ rss, ∀ r ∈ rs, r.length < 2^29) (ht : totalSize (rss.map writeAll) < 2^56)
    (n w dw : Nat) (hn0 : 0 < n) (hn : n < 2^32) (hw2 : 2 ≤ w) (hw : w < 2^56) :
    ∃ parts : List (List Bytes),
      (List.range n).map (fun k => okOf (partBlobsUri Fmt.recordio rx fs uri rc k n w dw (fun _ => true)))
        = parts.map some ∧
      parts.flatten = rss.flatten := by
  obtain ⟨g1, g2⟩ := C04_listed_images rx fs uri rc infos hU h rss himg
  simp only [partBlobsUri_eq Fmt.recordio rx fs uri rc infos h, himg]
  exact C04_parts_cover rss n w dw g1 (fun rs hrs => ⟨g2 rs hrs, hshort rs hrs⟩) ht hn0 hn hw2 hw

/-- `C04_parts_cover_any_mode` from the URI: the same for any mix of `NextRecord` / `NextChunk` per part and
per call — no part fails, and the records extracted from the blobs concatenate to the written records -/
theorem C04_parts_cover_any_mode_uri (rx : Name → Name → Bool) (fs : FileSys) (uri : Bytes) (rc : Bool)
    (infos : List Info) (hU : fs.Pairwise (fun a b => a.1 ≠ b.1)) (h : initInputFileInfo rx fs uri rc = .ok infos)
    (rss : List (List Bytes)) (himg : infos.map (fun i => contentOf fs i.name) = rss.map writeAll)
    (hshort : ∀ rs ∈ rss, ∀ r ∈ rs, r.length < 2^29) (ht : totalSize (rss.map writeAll) < 2^56)
    (n w dw : Nat) (hn0 : 0 < n) (hn : n < 2^32) (hw2 : 2 ≤ w) (hw : w < 2^56) (pick : Nat → Nat → Bool) :
    (∀ k, k < n → ∃ bs, partBlobsUri Fmt.recordio rx fs uri rc k n w dw (pick k) = .ok bs) ∧
    (List.range n).flatMap
        (fun k => recordsOf (pick k) (partBlobsUri Fmt.recordio rx fs uri rc k n w dw (pick k)))
      = rss.flatten := by
  obtain ⟨g1, g2⟩ := C04_listed_images rx fs uri rc infos hU h rss himg
  simp only [partBlobsUri_eq Fmt.recordio rx fs uri rc infos h, himg]
  exact C04_parts_cover_any_mode rss n w dw g1 (fun rs hrs => ⟨g2 rs hrs, hshort rs hrs⟩) ht hn0 hn hw2 hw pick

/-! non-vacuity (closed data in `DmlcModel.Split.FilesEx`): the file system { "/q/a" ↦ writeAll ["ab"],
"/q/b" ↦ writeAll ["", "c"] } has unique names, and the URI "/q" (a directory) expands to a list whose contents
are the writer images of [["ab"], ["", "c"]]: the hypotheses `hU`, `h`, `himg`, `hshort`, `ht` hold -/
example : FilesEx.fsRec.Pairwise (fun a b => a.1 ≠ b.1) := by decide
example : (okOf (initInputFileInfo (fun a b => a == b) FilesEx.fsRec FilesEx.uriRec false)).map
    (fun l => l.map (fun i => contentOf FilesEx.fsRec i.name)) = some ([[[97, 98]], [[], [99]]].map writeAll) := by decide
example : ∀ rs ∈ ([[[97, 98]], [[], [99]]] : List (List Bytes)), ∀ r ∈ rs, r.length < 2^29 := by decide
example : totalSize (([[[97, 98]], [[], [99]]] : List (List Bytes)).map writeAll) < 2^56 := by decide

end DmlcModel.Props.C04
