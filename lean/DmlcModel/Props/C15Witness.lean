/- C15: non-vacuity witnesses -/
import DmlcModel.Props.C15

set_option linter.unusedSimpArgs false

namespace DmlcModel.Props.C15
open DmlcModel DmlcModel.Ser

def le : Cfg := ⟨true, true⟩     -- little-endian host, default build
def be : Cfg := ⟨true, false⟩    -- little-endian host, -DDMLC_IO_USE_LITTLE_ENDIAN=0 (swap path)

/-- `vector<pair<string, map<uint32_t, list<int16_t>>>>` -/
abbrev wT : Ty := .vec (.pair .str (.map (.arith .u 4) (.list (.arith .i 2))))
/-- a string with a NUL, an empty list, an empty string, an empty map, extreme integers -/
def wV : Val wT := [([0x61, 0x00, 0x62], [(1, []), (0x80000000, [0xFFFF, 0x8000])]), ([], [])]

example : wT.ok = true := by decide
example : wT.podFree = true ∧ wT.padFree = true := by decide
example : supported le wT = true ∧ supported be wT = true := by decide
theorem wV_wf : wf wT wV := by
  simp [wf, wT, wV, wfList, natBelow, StrictSorted, Ty.lt, natLt]
  rintro a b (⟨rfl, rfl⟩ | ⟨rfl, rfl⟩) <;> simp

example : encode le wT wV =
    [2,0,0,0,0,0,0,0,  3,0,0,0,0,0,0,0, 0x61,0,0x62,  2,0,0,0,0,0,0,0,
       1,0,0,0, 0,0,0,0,0,0,0,0,   0,0,0,0x80, 2,0,0,0,0,0,0,0, 0xFF,0xFF, 0x00,0x80,
     0,0,0,0,0,0,0,0,  0,0,0,0,0,0,0,0] := by decide
example : encode be wT wV =
    [0,0,0,0,0,0,0,2,  0,0,0,0,0,0,0,3, 0x61,0,0x62,  0,0,0,0,0,0,0,2,
       0,0,0,1, 0,0,0,0,0,0,0,0,   0x80,0,0,0, 0,0,0,0,0,0,0,2, 0xFF,0xFF, 0x80,0x00,
     0,0,0,0,0,0,0,0,  0,0,0,0,0,0,0,0] := by decide
example : decode le wT (encode le wT wV ++ [7, 7]) = some (wV, [7, 7]) := by rfl
example : decode be wT (encode be wT wV ++ [7, 7]) = some (wV, [7, 7]) := by rfl
example : encode le wT wV = layout true wT wV ∧ encode be wT wV = layout false wT wV := by decide
example : (List.range (encode be wT wV).length).all (fun k => (decode be wT ((encode be wT wV).take k)).isNone) = true := by
  decide
/-- a big-endian host reading the little-endian stream of a little-endian host -/
example : decode ⟨false, true⟩ wT (encode ⟨true, true⟩ wT wV) = some (wV, []) := by rfl

/-- `set<int16_t>`: iteration order is the signed order (-32768 < -1 < 0 < 1) -/
abbrev sT : Ty := .set (.arith .i 2)
def sV : Val sT := [0x8000, 0xFFFF, 0, 1]
example : wf sT sV := by simp [wf, sT, sV, wfList, natBelow, StrictSorted, Ty.lt, natLt, signedKey]
example : decode be sT (encode be sT sV) = some (sV, []) := by decide
/-- an unsorted stream with a duplicate is read into the sorted duplicate-free set -/
example : decode le sT (encode le (.vec (.arith .i 2)) [1, 0xFFFF, 1, 0x8000]) = some ([0x8000, 0xFFFF, 1], []) := by decide

/-- a class with Save/Load holding a POD struct (8 bytes, 4-aligned) and a multimap; default build only -/
abbrev cT : Ty := Ty.cls [.pod 8 4, .mmap .str (.arith .f 8), .uset (.arith .u 1)]
def cV : Val cT := ([1, 2, 3, 4, 5, 6, 7, 8], [([], 0x7FF8000000000001), ([], 0)], [3, 1], ())
example : cT.ok = true ∧ supported le cT = true ∧ supported be cT = false := by decide
example : wf cT cV := by
  simp [wf, cT, cV, Ty.cls, wfList, natBelow, lenIs, WeakSorted, Distinct, Ty.lt, Ty.keyEq, natEq, lexLt]
example : decode le cT (encode le cT cV ++ [9]) = some (cV, [9]) := by rfl

/-- back to back: three values of different types in one stream -/
example : decodeAll le [wT, sT, cT] (encodeAll le [⟨wT, wV⟩, ⟨sT, sV⟩, ⟨cT, cV⟩]) =
    some ([⟨wT, wV⟩, ⟨sT, sV⟩, ⟨cT, cV⟩], []) := by
  have := C15_back_to_back le [⟨wT, wV⟩, ⟨sT, sV⟩, ⟨cT, cV⟩] (by
    intro tv h
    simp at h
    rcases h with rfl | rfl | rfl
    · exact ⟨by decide, by decide, wV_wf⟩
    · exact ⟨by decide, by decide, by simp [wf, sT, sV, wfList, natBelow, StrictSorted, Ty.lt, natLt, signedKey]⟩
    · exact ⟨by decide, by decide, by
        simp [wf, cT, cV, Ty.cls, wfList, natBelow, lenIs, WeakSorted, Distinct, Ty.lt, Ty.keyEq, natEq, lexLt]⟩) []
  simpa using this

/-! ### `std::pair` of PODs with padding (finding C15-F1, fixed) -/

/-- `pair<uint8_t, uint32_t>`: `sizeof` = 8, members at offsets 0 and 4 -/
abbrev pT : Ty := .pair (.arith .u 1) (.arith .u 4)
def pV : Val pT := (0x11, 0x22334455)

example : pT.ok = true ∧ pT.podFree = true ∧ pT.padFree = false := by decide
example : wf pT pV := by simp [wf, pT, pV, natBelow]
/-- members one after the other in every build, no padding on the stream -/
example : encode le pT pV = [0x11, 0x55, 0x44, 0x33, 0x22] := by decide
example : layout true pT pV = [0x11, 0x55, 0x44, 0x33, 0x22] := by decide
example : encode ⟨false, true⟩ pT pV = [0x11, 0x55, 0x44, 0x33, 0x22] := by decide
example : decode le pT (encode le pT pV ++ [9]) = some (pV, [9]) := by decide
example : decode ⟨false, true⟩ pT (encode le pT pV) = some (pV, []) := by decide

end DmlcModel.Props.C15
