/-
C10 — the prefetching wrapper (ThreadedInputSplit) and the on-disk cache (CachedInputSplit) are transparent
and race-free.  Property theorems only; model in DmlcModel/Wrap/Model.lean, lemmas in DmlcModel/Wrap/*.lean.

The theorems are stated for the code in VERIF_REPO: `Gen.Wrap.cacheBufWords` (F4) and
`Gen.Wrap.resetOnCaller` (F5) are regenerated from the source on every run; on the pinned tree
`C10_cache_buffer_fits` and `C10_race_free` do not compile (their refutations are in C10Witness.lean).
-/
import DmlcModel.Wrap.Cached
import DmlcModel.Wrap.Threaded
import DmlcModel.Wrap.TIterLink
import DmlcModel.Wrap.BaseLink
import DmlcModel.Wrap.NameLemmas

namespace DmlcModel.Props.C10
open DmlcModel DmlcModel.Wrap DmlcModel.Gen.Wrap

/-- **Chunks of any size fit their replay buffer**: the buffer the cache reader sizes for a chunk of `len`
bytes (`len` is a `size_t`) holds the chunk and the `'\0'` that `ExtractNextRecord` may store at `end`. -/
theorem C10_cache_buffer_fits (len : Nat) (h : len < 2 ^ 64) : 4 * cacheBufWords len ≥ len + 1 :=
  cacheBufWords_fits len h

example : 4 * cacheBufWords 8 ≥ 8 + 1 := by decide

/-- **Cache file format**: what the replay producer reads back from the file the first pass wrote is the
chunk list, for every chunk list (the length prefix written and the one read have the same width). -/
theorem C10_cache_format (cs : List Bytes) (h : ∀ c ∈ cs, c.length < 2 ^ 64) :
    decodeFile (encAll cs) = cs.map Item.chunk ∧ readOverflows (decodeFile (encAll cs)) = false := by
  rw [decodeFile_encAll cs h]
  exact ⟨rfl, readOverflows_chunkItems cs h⟩

example : decodeFile (encAll [[1, 2, 3], [], [7]]) = [Item.chunk [1, 2, 3], Item.chunk [], Item.chunk [7]] := by decide

/-- **CachedInputSplit is transparent**, for every base chunk sequence `cs` (no BaseFacts needed: the cache
wrapper never rewinds its base split, `cs` is simply what `NextChunkEx` yields until it returns false) and
every history: the first
object fetches exactly the base split's cells (pass 1 = base pass); in every state reachable by
`NextRecord` / `NextChunk` / `BeforeFirst` / destroy-and-reopen (`CReach`) what the iterator will still
fetch is a suffix of the base pass (chunks come in order, none invented); `BeforeFirst` at any point
succeeds and starts a pass over ALL chunks of the base pass (pass j ≥ 2 = pass 1) with the complete cache
file on disk; and an object destroyed in ANY reachable state (also in the middle of its first pass: the
destructor finishes the pass, `Gen.Wrap.dtorDrains`, fixes/C10-3.diff) leaves the complete file, which a
later object replays chunk for chunk, whatever base split it is given. -/
theorem C10_cached_transparent (cs : List Chunk) (hl : ∀ c ∈ cs, c.bytes.length < 2 ^ 64) :
    (∃ s0, cOpen none cs = .ok s0 ∧ s0.tmp = none ∧ s0.rest = cs ∧ CReach cs s0) ∧
    ∀ s, CReach cs s →
      (∃ k, upcoming s = (allBytes cs).drop k) ∧
      (∃ s', cBeforeFirst s = .ok s' ∧ s'.tmp = none ∧ upcoming s' = allBytes cs ∧ s'.file = encAll (allBytes cs)) ∧
      (cClose s = some (encAll (allBytes cs)) ∧
        ∀ cs', ∃ s', cOpen (some (encAll (allBytes cs))) cs' = .ok s' ∧ s'.tmp = none ∧ upcoming s' = allBytes cs ∧
          CReach cs s') := by
  have hl' : ∀ b ∈ allBytes cs, b.length < 2 ^ 64 := by
    intro b hb
    simp only [allBytes, List.mem_map] at hb
    obtain ⟨c, hc, rfl⟩ := hb
    exact hl c hc
  refine ⟨⟨{ phase := .preproc, rest := cs }, rfl, rfl, rfl, CReach.first⟩, ?_⟩
  intro s hs
  have hg := good_of_reach cs hl' s hs
  refine ⟨upcoming_of_good _ s hg, ?_, ?_⟩
  · obtain ⟨s', h1, h2, h3, h4, h5⟩ := good_beforeFirst _ hl' s hg
    refine ⟨s', h1, h5, ?_, h3⟩
    unfold upcoming
    rw [h2, h4]
    exact filterMap_chunkItems _
  · obtain ⟨f, hc⟩ := close_total (by decide) s
    have hf := good_close _ s hg f hc
    subst hf
    refine ⟨hc, ?_⟩
    intro cs'
    have ho : cOpen (some (encAll (allBytes cs))) cs' =
        .ok { phase := .replay, file := encAll (allBytes cs), items := chunkItems (allBytes cs) } := by
      unfold cOpen
      exact startReplay_encAll _ hl'
    refine ⟨_, ho, rfl, ?_, CReach.reopen cs' hs hc ho⟩
    unfold upcoming
    exact filterMap_chunkItems _

/-- non-vacuity: a two-chunk base pass, one record read, BeforeFirst, reopened -/
example : ∃ s, CReach [⟨[97, 10], 2⟩, ⟨[98, 10], 2⟩] s ∧ s.phase = .replay :=
  ⟨_, CReach.bf CReach.first rfl, rfl⟩

/-- **Cache-file names** (`URISpec`, `uri#cachefile`): for a fixed cache prefix, distinct parts `(k, n)`,
`(k', n')` (`k < n`, `k' < n'`; any magnitude) get distinct cache files -- so no object ever replays a file
another part wrote. -/
theorem C10_cache_name_injective (base : List Char) (k n k' n' : Nat) (hk : k < n) (hk' : k' < n')
    (h : cacheName base k n = cacheName base k' n') : k = k' ∧ n = n' :=
  cacheSuffix_injective k n k' n' hk hk' (List.append_cancel_left h)

/-- ... and the name has the documented form `<cachefile>.split<n>.part<k>` (nothing for a single part), `<n>`
and `<k>` being the full decimal renderings (`dec`: digits only, `fromDigits (dec n) = n`) -/
theorem C10_cache_name_form (base : List Char) (k n : Nat) :
    cacheName base k n = (if n = 1 then base else base ++ (".split".toList ++ dec n ++ ".part".toList ++ dec k)) ∧
    fromDigits (dec n) 0 = n ∧ (∀ c ∈ dec n, c.isDigit = true) := by
  refine ⟨?_, fromDigits_dec n, dec_digits n⟩
  unfold cacheName cacheSuffixChars
  by_cases h : n = 1
  · simp [h, cacheSuffixNeeded]
  · have e : cacheSuffixNeeded n = true := by simp [cacheSuffixNeeded, h]
    have t1 : cacheSplitTag.toList = ".split".toList := by decide
    have t2 : cachePartTag.toList = ".part".toList := by decide
    simp only [e, h, if_true, if_false, t1, t2]

example : String.ofList (cacheName "cc".toList 10 100) = "cc.split100.part10" := by decide
example : dec 65536 = "65536".toList ∧ dec 0 = ['0'] := by decide
example : cacheName "cc".toList 10 100 ≠ cacheName "cc".toList 1 100 := by decide

/-- **BaseFacts — what the wrapper theorems assume about the base split, and why it holds.**  The Wrap model
treats a pass of the base split over partition `(k, n)` as ONE chunk list `B k n` (`BasePass`; `iterParams B
parts` makes item `i` of pass `p` the `i`-th element of `B (parts p)`), i.e. it assumes: whatever the base
split has read or buffered before, the `ResetPartition(k, n)` / `BeforeFirst` that starts a pass (executed by
the prefetch thread's rewind callback) makes the following `NextChunkEx` calls deliver exactly the chunk
sequence of a freshly constructed split for that partition.  For the Split model this is C05:
`C05_reset_mkSt` (used here) for `ResetPartition`, `C05_beforeFirst` + `C05_range_stable` for `BeforeFirst`
(the object behaves as any clean object on the same byte range, in particular as right after its last
`ResetPartition`), both for every format with `ExtractNoneIff` (`extractNoneIff_text`, `extractNoneIff_recordio`).
Statement: after `ResetPartition(k, n)` on a bare split `s` in ANY state, consuming it to the end with
`NextChunk` yields exactly the chunk byte strings of `splitPass F files w dw k n` -- the instantiation of
`B` the driver runs (`Wrap/Base.lean`).  Not proved in Lean, tied by correspondence and by the harness
oracle (chunk stream / cache file = the bare split's `NextChunk` stream): that `NextChunkEx` into a cell of
the iterator yields the same bytes as `NextChunk` through the split's own `tmp_chunk_` (`Chunk::Load` does
not depend on the cell it fills). -/
theorem C10_base_pass (F : Split.Fmt) (hF : Split.ExtractNoneIff F) (s s' : Split.St) (k n : Nat) (hn : n ≠ 0)
    (h : Split.step F s (.reset k n) = (s', .done)) (hbare : s'.wrap = none)
    (files : List Bytes) (w dw : Nat)
    (hfiles : s.base.files = files.filter (fun f => !f.isEmpty)) (hw : s.base.bufWords = w)
    (fresh : Split.St) (hfresh : Split.mkSt F files k n w false dw = .ok fresh) :
    convRes (Split.drain F (fun _ => false) s').2 = (splitPass F files w dw k n).map allBytes := by
  rw [splitPass_partBlobs F files w dw k n hn]
  unfold Split.partBlobs
  rw [hfresh]
  simp only
  congr 1
  apply DmlcModel.Props.C05.C05_reset_mkSt F hF s s' k n h files w dw false hfiles hw fresh hfresh
  rw [hbare, mkSt_bare F files k n w dw fresh hfresh]
  trivial

/-- both formats of the repository satisfy the side condition -/
example := C10_base_pass Split.Fmt.text Split.extractNoneIff_text
example := C10_base_pass Split.Fmt.recordio Split.extractNoneIff_recordio

/-- the instantiated base on a concrete input: "ab\ncd\n", 1-word buffer, part 0 of 1 = two chunks -/
example : (match splitPass Split.Fmt.text [[97, 98, 10, 99, 100, 10]] 1 4 0 1 with
    | .ok cs => some (allBytes cs)
    | .error _ => none) = some [[97, 98, 10], [99, 100, 10]] := by
  decide

/-- **ThreadedInputSplit is transparent for every schedule** (corollary of the ThreadedIter theorems C07_order,
C07_produced, C07_end_sound, C07_src_end, C07_no_failure, C08_fresh_pass, via `Wrap.titerFacts`; the base split
is the data source: item `i` of pass `p` is chunk `i` of `B (parts p)`, see `iterParams`; that a pass of the
base split is such a fixed list is BaseFacts = C05, see `C10_base_pass`; `parts p` = the partition the
latest `ResetPartition` before the `p`-th rewind asked for, any function -- the theorem holds for all).  In every
reachable state of the iterator -- i.e. under every interleaving of the prefetch thread with the wrapper's
calls, spurious wake-ups included -- the chunks handed to the caller so far in the current pass are an
initial segment of the base split's chunk sequence for that pass, each delivered item is a chunk of it, and
`Next` reports the end of the pass only when the whole sequence has been handed out.  After a successful
`BeforeFirst` the next pass starts with nothing delivered. -/
theorem C10_threaded_transparent (B : Nat → Nat → List Chunk) (parts : Nat → Nat × Nat)
    (s : TIter.State) (h : TIter.Reachable (iterParams B parts) s) :
    (s.delivered.filterMap (chunkOf B parts) <+: B (parts s.pass).1 (parts s.pass).2) ∧
    (∀ it ∈ s.delivered, (chunkOf B parts it).isSome = true) ∧
    (∀ e s', TIter.step (iterParams B parts) s e = some s' → s'.ret = .nextEnd →
      s.delivered.filterMap (chunkOf B parts) = B (parts s.pass).1 (parts s.pass).2) ∧
    (∀ s', TIter.step (iterParams B parts) s .xStep = some s' → s.xloc = .bExc1 → s'.ret = .ok →
      s'.pass = s'.bfPass + 1 ∧ s'.delivered = []) :=
  threaded_transparent_of_facts B parts (titerFacts _) s h

/-- non-vacuity: the initial state, and the state after the prefetch thread's first transition -/
example : TIter.Reachable (iterParams (fun _ _ => [⟨[97, 10], 2⟩]) (fun _ => (0, 1))) {} := TIter.ReachableR.init

/-- **No data race on the base split or on a lent chunk** (for the code in VERIF_REPO; needs the repair
of F5: `Gen.Wrap.resetOnCaller = false`).  In every reachable state of the wrapper + iterator system, for
every source / capacity: the calling thread is never inside the base split -- neither while the prefetch
thread is in the produce callback (`NextBatchEx`) nor during a transition in which it runs the rewind
callback (`BeforeFirst`, `ResetPartition`) --, and the chunk the caller works on (`ExtractNext*`, reading
the blob) is neither the cell the prefetch thread is filling nor in its queue or free list (C07_cells). -/
theorem C10_race_free (P : TIter.Params) (s : TW) (h : WReachable P s) :
    ¬ (producerInBase s = true ∧ s.callerInBase = true) ∧
    (∀ e, rewindsNow P s e = true → s.callerInBase = false) ∧
    (∀ c, s.touching = some c → s.it.pcell ≠ some c ∧ c ∉ TIter.qcells s.it ∧ c ∉ s.it.free) :=
  race_free_of_facts P (titerFacts P) s h

end DmlcModel.Props.C10
