/-
# C15 for the library's own class with Save/Load: RowBlockContainer (src/data/row_block.h)

Property theorems only; model `DmlcModel.RowBlock.save / load` (DmlcModel/RowBlock/Model.lean), lemmas in
DmlcModel/RowBlock/SaveLoad.lean and LoadPrefix.lean.  Finding C15-F2: the pinned code wrote / read `max_field` and
`max_index` as raw memory (`fo->Write(&x, sizeof(IndexType))`, `CHECK(fi->Read(&x, sizeof(IndexType)))`): the CHECK
passes on a short read, so a stream cut inside one of the two scalars was reported as a successful `Load`, and the
two scalars bypassed the stream byte order.  Repaired in /repo (typed `Write<T>` / `Read<T>`); the two Gen flags
below are read from the source on every run.  The byte-order clause for this class is carried by the Ser model
(`C15_layout`, `C15_cross_host`): the harness presents RowBlockContainer to it as the class of its nine members.
-/
import DmlcModel.RowBlock.SerBridge
import DmlcModel.Props.C15

namespace DmlcModel.Props.C15RowBlock
open DmlcModel DmlcModel.RowBlock DmlcModel.Ser

/-- the source carries the repair: both scalars go through the typed stream functions -/
theorem C15_rowblock_fix_present :
    Gen.RowBlock.saveScalarTyped = true ∧ Gen.RowBlock.loadScalarTyped = true := by decide

/-- **round trip and exact consumption**: `Load` returns the container `Save` wrote and leaves exactly the bytes
that follow it, for every index width, every in-range container, every destination object and every tail -/
theorem C15_rowblock_roundtrip (iw : Nat) (hiw : 0 < iw) (c old : Container) (rest : Bytes) (h : InRange iw c) :
    load iw old (save iw c ++ rest) = .ok c rest :=
  load_save iw hiw c old rest h

/-- **a stream that ends early is never reported as success**: for every strict prefix of the image `Load` returns
false (`eof`) or raises "Bad RowBlock format" (`bad`) -/
theorem C15_rowblock_truncation (iw : Nat) (hiw : 0 < iw) (c old : Container) (h : InRange iw c)
    (k : Nat) (hk : k < (save iw c).length) :
    load iw old ((save iw c).take k) = .eof ∨ load iw old ((save iw c).take k) = .bad := by
  cases hl : load iw old ((save iw c).take k) with
  | eof => exact Or.inl rfl
  | bad => exact Or.inr rfl
  | ok c' r => exact absurd hl (load_truncated C15_rowblock_fix_present.2 iw hiw c old h k hk c' r)

/-- what `Load` returns depends only on the bytes it consumed (so images can be streamed back to back) -/
theorem C15_rowblock_prefix_determines (iw : Nat) (old : Container) (bs : Bytes) (c : Container) (rest : Bytes)
    (h : load iw old bs = .ok c rest) :
    ∃ pre, bs = pre ++ rest ∧ ∀ tail old', load iw old' (pre ++ tail) = .ok c tail :=
  load_stable C15_rowblock_fix_present.2 iw old bs c rest h

/-- **the image is the serializer's encoding of the class of the nine members**: the RowBlock model's `save` (what
C13 and the disk cache use) and the Ser model's `encode` (what the C15 theorems are about) agree -/
theorem C15_rowblock_is_serializer_class (iw : Nat) (c : Container) (h : InRange iw c) :
    save iw c = encode ⟨true, true⟩ (rbcTy iw) (rbcVal iw c) :=
  save_eq_encode iw c h

/-- **the image does not depend on the byte order of the host that writes it** (little-endian stream configuration,
`IndexType` of 4 or 8 bytes): also a big-endian host produces exactly `save iw c` -- all nine members, the two
trailing scalars included, go through the byte-order aware handlers -/
theorem C15_rowblock_image_host_independent (hostLE : Bool) (iw : Nat) (hiw : iw = 4 ∨ iw = 8) (c : Container)
    (h : InRange iw c) : encode ⟨hostLE, true⟩ (rbcTy iw) (rbcVal iw c) = save iw c := by
  rw [save_eq_encode iw c h]
  exact Props.C15.C15_layout_host_independent hostLE true true (rbcTy iw) (rbcTy_ok iw hiw).1 (rbcTy_ok iw hiw).2
    (rbcVal iw c) (rbcVal_wf iw c h)

/-- **a block saved on one host type is loaded on the other** -/
theorem C15_rowblock_cross_host (hostLE : Bool) (iw : Nat) (hiw : iw = 4 ∨ iw = 8) (c : Container) (h : InRange iw c) :
    decode ⟨!hostLE, true⟩ (rbcTy iw) (encode ⟨hostLE, true⟩ (rbcTy iw) (rbcVal iw c)) = some (rbcVal iw c, []) :=
  Props.C15.C15_cross_host hostLE true (rbcTy iw) (rbcTy_ok iw hiw).1 (rbcTy_ok iw hiw).2 (rbcVal iw c) (rbcVal_wf iw c h)

/-- a two-row block with labels and values -/
def sample : Container :=
  { offset := [0, 1, 2], label := [1065353216, 0], weight := [], qid := [], field := [], index := [3, 7],
    value := [1, 2], maxField := 0, maxIndex := 7 }

/-- non-vacuity: the sample is in range; its image has 112 bytes, and cutting it inside `max_index` (the cut the
pinned code accepted) is rejected -/
example : InRange 4 sample ∧ (save 4 sample).length = 112 ∧
    load 4 Container.empty ((save 4 sample).take 110) = .bad := by
  refine ⟨⟨⟨elemsLt_of_all _ _ ?_, ?_⟩, ⟨elemsLt_of_all _ _ ?_, ?_⟩, ⟨elemsLt_of_all _ _ ?_, ?_⟩,
    ⟨elemsLt_of_all _ _ ?_, ?_⟩, ⟨elemsLt_of_all _ _ ?_, ?_⟩, ⟨elemsLt_of_all _ _ ?_, ?_⟩,
    ⟨elemsLt_of_all _ _ ?_, ?_⟩, ?_, ?_⟩, ?_, ?_⟩ <;> decide

end DmlcModel.Props.C15RowBlock
