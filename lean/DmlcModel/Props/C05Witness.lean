/- witnesses for C05: the history of defect F1 (DESIGN section 6) evaluated on the model (kernel `decide`) -/
import DmlcModel.Props.C05
namespace DmlcModel.Props.C05
open DmlcModel DmlcModel.Split

/-- "aaa\nbbb\nccc\n" -/
def f1file : Bytes := [97, 97, 97, 10, 98, 98, 98, 10, 99, 99, 99, 10]

/-- outputs of a history on a bare text split over `[f1file]`, part 0 of 1, 2-word buffer -/
def runHist (ops : List Op) : List Out :=
  match mkSt Fmt.text [f1file] 0 1 2 false 4 with
  | .error e => [.err e]
  | .ok s => (ops.foldl (fun (acc : St × List Out) op => ((step Fmt.text acc.1 op).1, acc.2 ++ [(step Fmt.text acc.1 op).2])) (s, [])).2

/-- F1 regression: after reading one line, `ResetPartition(20, 24)` selects an empty part; nothing may be
delivered afterwards (the unrepaired code delivered "bbb") -/
example : runHist [.nextRec, .reset 20 24, .nextRec] = [.blob [97, 97, 97, 0], .done, .eof] := by decide
/-- a part that becomes empty only after snapping -/
example : runHist [.nextRec, .reset 1 12, .nextRec, .nextChunk] = [.blob [97, 97, 97, 0], .done, .eof, .eof] := by decide
/-- BeforeFirst in the middle of a chunk restarts the part -/
example : runHist [.nextRec, .nextRec, .beforeFirst, .nextRec] =
    [.blob [97, 97, 97, 0], .blob [98, 98, 98, 10], .done, .blob [97, 97, 97, 0]] := by decide

/-! ### non-vacuity of the theorems of Props/C05.lean on the history of defect F1

`st0` = the fresh bare split over `[f1file]`, part 0 of 1, 2-word buffer; `st1` = after one `NextRecord`
(the rest "bbb\n" of the first chunk is buffered); then `ResetPartition(20, 24)` (an empty part),
`ResetPartition(0, 1)` and `BeforeFirst`.  All hypotheses are closed by kernel evaluation. -/

def dummySt : St := { base := { files := [], chunk := { dataWords := 0 }, bufWords := 0 } }
def getSt : Except Err St → St
  | .ok s => s
  | .error _ => dummySt

private theorem eq_ok_of_okOf {α : Type} {r : Except Err α} {s : α} (h : okOf r = some s) : r = .ok s := by
  cases r with
  | error e => cases h
  | ok a => injection h with h; rw [h]

private theorem wrapEquiv_none {a b : Option Wrap} (ha : a = none) (hb : b = none) : WrapEquiv a b := by
  rw [ha, hb]; trivial

def st0 : St := getSt (mkSt Fmt.text [f1file] 0 1 2 false 4)
def st1 : St := (step Fmt.text st0 .nextRec).1
/-- after `ResetPartition(20, 24)`: an empty part -/
def st2 : St := (step Fmt.text st1 (.reset 20 24)).1
/-- after `ResetPartition(0, 1)` instead -/
def st3 : St := (step Fmt.text st1 (.reset 0 1)).1
/-- after `BeforeFirst` instead -/
def st4 : St := (step Fmt.text st1 .beforeFirst).1
def fresh2 : St := getSt (mkSt Fmt.text [f1file] 20 24 2 false 4)
/-- the same history behind `SingleThreadedInputSplit` -/
def sw0 : St := getSt (mkSt Fmt.text [f1file] 0 1 2 true 4)
def sw1 : St := (step Fmt.text sw0 .nextRec).1
def sw2 : St := (step Fmt.text sw1 (.reset 20 24)).1
def freshW2 : St := getSt (mkSt Fmt.text [f1file] 20 24 2 true 4)

/-- something IS buffered before the calls -/
example : st1.base.chunk.rest = [98, 98, 98, 10] := by decide
example : sw1.wrap.map (fun w => w.chunk.map (fun c => c.rest)) = some (some [98, 98, 98, 10]) := by decide

private theorem h12 : step Fmt.text st1 (.reset 20 24) = (st2, .done) := by decide
private theorem h13 : step Fmt.text st1 (.reset 0 1) = (st3, .done) := by decide
private theorem h14 : step Fmt.text st1 .beforeFirst = (st4, .done) := by decide
private theorem hw12 : step Fmt.text sw1 (.reset 20 24) = (sw2, .done) := by decide
private theorem hf2 : mkSt Fmt.text [f1file] 20 24 2 false 4 = .ok fresh2 := eq_ok_of_okOf (by decide)
private theorem hfw2 : mkSt Fmt.text [f1file] 20 24 2 true 4 = .ok freshW2 := eq_ok_of_okOf (by decide)

/-- `C05_beforeFirst_clean`, `C05_reset_clean` on the state with a buffered chunk -/
example : Clean st4.base := by
  have h : beforeFirst st1.base = .ok st4.base := eq_ok_of_okOf (by decide)
  exact (C05_beforeFirst_clean st1.base st4.base h (by decide)).1
example : Clean st2.base := by
  have h : resetPartition Fmt.text st1.base 20 24 = .ok st2.base := eq_ok_of_okOf (by decide)
  exact (C05_reset_clean Fmt.text seekOk_text st1.base st2.base 20 24 (by decide) h).1

/-- `C05_nothing_stale`, bare and wrapped, on the F1 history -/
example : st2.base.chunk.rest = [] ∧ st2.base.overflow = [] ∧ (∀ w, st2.wrap = some w → w.chunk = none) :=
  C05_nothing_stale Fmt.text st1 st2 (.reset 20 24) (Or.inr ⟨20, 24, rfl⟩) h12
example : sw2.base.chunk.rest = [] ∧ sw2.base.overflow = [] ∧ (∀ w, sw2.wrap = some w → w.chunk = none) :=
  C05_nothing_stale Fmt.text sw1 sw2 (.reset 20 24) (Or.inr ⟨20, 24, rfl⟩) hw12
example : st4.base.chunk.rest = [] ∧ st4.base.overflow = [] ∧ (∀ w, st4.wrap = some w → w.chunk = none) :=
  C05_nothing_stale Fmt.text st1 st4 .beforeFirst (Or.inl rfl) h14

/-- `C05_reset_mkSt` (hence `C05_reset`): the object after `ResetPartition(20, 24)` against the freshly
constructed object for part 20 of 24, bare and wrapped -/
example (pick : Nat → Bool) : (drain Fmt.text pick st2).2 = (drain Fmt.text pick fresh2).2 :=
  C05_reset_mkSt Fmt.text extractNoneIff_text st1 st2 20 24 h12 [f1file] 2 4 false (by decide) (by decide)
    fresh2 hf2 (wrapEquiv_none (by decide) (by decide)) pick
example (pick : Nat → Bool) : (drain Fmt.text pick sw2).2 = (drain Fmt.text pick freshW2).2 :=
  C05_reset_mkSt Fmt.text extractNoneIff_text sw1 sw2 20 24 hw12 [f1file] 2 4 true (by decide) (by decide)
    freshW2 hfw2
    (by
      have h1 : sw2.wrap = some { bufWords := 4 } := by decide
      have h2 : freshW2.wrap = some { bufWords := 4 } := by decide
      rw [h1, h2]; exact ⟨rfl, trivial⟩) pick
/-- … and what both deliver is nothing -/
example : okOf (drain Fmt.text (fun _ => true) fresh2).2 = some [] := by decide

/-- `C05_empty_part` on the F1 history, bare and wrapped -/
example (pick : Nat → Bool) : (drain Fmt.text pick st2).2 = .ok [] :=
  C05_empty_part Fmt.text extractNoneIff_text st1 st2 (.reset 20 24) (Or.inr ⟨20, 24, rfl⟩) h12 (by decide) pick
example (pick : Nat → Bool) : (drain Fmt.text pick sw2).2 = .ok [] :=
  C05_empty_part Fmt.text extractNoneIff_text sw1 sw2 (.reset 20 24) (Or.inr ⟨20, 24, rfl⟩) hw12 (by decide) pick

/-- `C05_reset_any_two`: the object in the middle of its first chunk against the untouched one -/
example : ∃ t', step Fmt.text st0 (.reset 20 24) = (t', .done) ∧
    ∀ pick : Nat → Bool, (drain Fmt.text pick st2).2 = (drain Fmt.text pick t').2 :=
  C05_reset_any_two Fmt.text extractNoneIff_text st1 st0 st2 20 24 (by decide) (by decide)
    (wrapEquiv_none (by decide) (by decide)) h12

/-- `C05_beforeFirst`: after `BeforeFirst` in the middle of a chunk the object is the fresh one again -/
example (pick : Nat → Bool) : (drain Fmt.text pick st4).2 = (drain Fmt.text pick st0).2 :=
  C05_beforeFirst Fmt.text extractNoneIff_text st1 st4 h14 (by decide) st0 (by unfold Clean; decide)
    (by decide) (by decide) (by decide) (by decide) (wrapEquiv_none (by decide) (by decide)) pick

/-- `C05_range_stable` -/
example : st4.base.offBegin = 0 ∧ st4.base.offEnd = 12 := by
  have h := C05_range_stable Fmt.text st1 .beforeFirst (fun k n h => by cases h)
  rw [h14] at h
  exact ⟨h.2.1.trans (by decide), h.2.2.trans (by decide)⟩

/-- `C05_reset_text_ok`, `C05_reset_text_lines`: `ResetPartition(0, 1)` in the middle of the first chunk -/
example : ∃ s', step Fmt.text st1 (.reset 0 1) = (s', .done) :=
  C05_reset_text_ok [f1file] (by decide) (by decide) (by decide) st1 (by decide) 0 1 (by decide) (by decide)
example (pick : Nat → Bool) : ∃ bs s'', drain Fmt.text pick st3 = (s'', .ok bs) ∧
      bs.flatMap canon = lines (rangeStream true [f1file] (bndT [f1file] 1 0) (bndT [f1file] 1 1)) ∧
      (∀ (i : Nat) (b : Bytes), bs[i]? = some b → b ≠ []) :=
  C05_reset_text_lines [f1file] (by decide) (by decide) st1 st3 (by decide) (by decide) (by decide) 0 1
    (by decide) (by decide) h13 pick
example : lines (rangeStream true [f1file] (bndT [f1file] 1 0) (bndT [f1file] 1 1))
    = [[97, 97, 97], [98, 98, 98], [99, 99, 99]] := by decide
end DmlcModel.Props.C05
