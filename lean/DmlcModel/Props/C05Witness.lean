/- witnesses for C05: the history of defect F1 (DESIGN section 6) evaluated on the model (kernel `decide`) -/
import DmlcModel.Props.C05
namespace DmlcModel.Props.C05
open DmlcModel DmlcModel.Split

/-- "aaa\nbbb\nccc\n" -/
def f1file : Bytes := [97, 97, 97, 10, 98, 98, 98, 10, 99, 99, 99, 10]

/-- outputs of a history on a bare text split over `[f1file]`, part 0 of 1, 2-word buffer -/
def runHist (ops : List Op) : List Out :=
  match mkSt Fmt.text [f1file] 0 1 2 false 4 with
  | .error e => [.err e]
  | .ok s => (ops.foldl (fun (acc : St × List Out) op => ((step Fmt.text acc.1 op).1, acc.2 ++ [(step Fmt.text acc.1 op).2])) (s, [])).2

/-- F1 regression: after reading one line, `ResetPartition(20, 24)` selects an empty part; nothing may be
delivered afterwards (the unrepaired code delivered "bbb") -/
example : runHist [.nextRec, .reset 20 24, .nextRec] = [.blob [97, 97, 97, 0], .done, .eof] := by decide
/-- a part that becomes empty only after snapping -/
example : runHist [.nextRec, .reset 1 12, .nextRec, .nextChunk] = [.blob [97, 97, 97, 0], .done, .eof, .eof] := by decide
/-- BeforeFirst in the middle of a chunk restarts the part -/
example : runHist [.nextRec, .nextRec, .beforeFirst, .nextRec] =
    [.blob [97, 97, 97, 0], .blob [98, 98, 98, 10], .done, .blob [97, 97, 97, 0]] := by decide
end DmlcModel.Props.C05
