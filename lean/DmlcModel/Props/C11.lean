/-
C11 — parsed rows depend only on the lines.  (theorems follow; correspondence is set up first)
-/
import DmlcModel.Parse.Model

namespace DmlcModel.Props.C11
open DmlcModel DmlcModel.Parse

end DmlcModel.Props.C11
