/-
C11 — parsed rows depend only on the lines: invariant under chunking, threads, parts.

Property theorems only; the machinery lives in DmlcModel/Parse/{Lemmas,Spec,Block,Rows,Concat,Svm,Fm,Cuts}.lean.
All theorems are generic in the numeric conversions `conv` (contract `Conv.Local`) and are about the
model instantiated with `Fixes.current`, i.e. with the repairs the source is found to carry
(`C11_source_is_repaired` stops compiling when one of the `fix:` commits of findings C11-F1..F5 is missing).
-/
import DmlcModel.Parse.Fm
import DmlcModel.Parse.Cuts
import DmlcModel.Parse.Csv
import DmlcModel.Parse.Slices
import DmlcModel.Parse.FillRows
import DmlcModel.Parse.ConvSimple

namespace DmlcModel.Props.C11
open DmlcModel DmlcModel.Parse

/-- the source carries the repairs of findings C11-F1..F5 (read off the source by `Gen.Parse.fix*`) -/
theorem C11_source_is_repaired : Fixes.current = Fixes.repaired := by decide

/-- the rows `P::ParseBlock` + `GetBlock` + `operator[]` hand out for the block `[a, b)` of `mem` -/
def rowsAt (f : Format) (conv : Conv) (mem : Bytes) (a b : Nat) : Res (List Row) :=
  (f.parseBlock Fixes.current conv mem a b).bind rowsOf

/-- … for a NUL-terminated text; applied to one line this is "the line parsed on its own" -/
def rows (f : Format) (conv : Conv) (t : Bytes) : Res (List Row) := rowsAt f conv (t ++ [0]) 0 t.length

/-- **C11, core statement** for a parser `f`: for every text in which no single line makes the parser
throw and whose rows agree on the optional parts they carry, the rows of the block are the
concatenation of the rows of its lines, each parsed on its own (no token of one line influences the
row of another line). -/
def C11_block_is_concat_of_lines_statement (f : Format) : Prop :=
  ∀ (conv : Conv), conv.Local → ∀ (t : Bytes), t.length + 2 < 2 ^ 64 → ∀ (rss : List (List Row)),
    (eolSplit t).mapM (rows f conv) = .ok rss → AgreeRows rss.flatten → rows f conv t = .ok rss.flatten

theorem rows_libsvm (conv : Conv) (iw mode : Nat) : rows (.libsvm iw mode) conv = svmRows Fixes.repaired conv iw mode := by
  funext t; simp [rows, rowsAt, Format.parseBlock, svmRows, svmRowsAt, C11_source_is_repaired]

theorem rows_libfm (conv : Conv) (iw mode : Nat) : rows (.libfm iw mode) conv = fmRows Fixes.repaired conv iw mode := by
  funext t; simp [rows, rowsAt, Format.parseBlock, fmRows, fmRowsAt, C11_source_is_repaired]

theorem C11_block_is_concat_of_lines_libsvm (iw mode : Nat) :
    C11_block_is_concat_of_lines_statement (.libsvm iw mode) := by
  intro conv ⟨gR, gI, gQ, gC, hL⟩ t hb rss hl ha
  rw [rows_libsvm] at hl ⊢
  exact (svm_lineFormat hL iw mode).concat_of_lines t (fun _ _ => rfl) hb rss hl ha

theorem C11_block_is_concat_of_lines_libfm (iw mode : Nat) :
    C11_block_is_concat_of_lines_statement (.libfm iw mode) := by
  intro conv ⟨gR, gI, gQ, gC, hL⟩ t hb rss hl ha
  rw [rows_libfm] at hl ⊢
  exact (fm_lineFormat hL iw mode).concat_of_lines t (fun _ _ => rfl) hb rss hl ha

theorem rows_csv (conv : Conv) (prm : CsvParam) : rows (.csv prm) conv = csvRows Fixes.repaired conv prm := by
  funext t; simp [rows, rowsAt, Format.parseBlock, csvRows, csvRowsAt, C11_source_is_repaired]

/-- the csv instance of the core statement, for texts without a NUL byte inside (a NUL ends the C string the
conversions read, which the locality contract of `conv.cell` does not cover).  "Blank line" for csv = empty
line; a line that holds nothing but a UTF-8 BOM counts as empty (C11-F5). -/
def C11_block_is_concat_of_lines_csv_statement (prm : CsvParam) : Prop :=
  ∀ (conv : Conv), conv.Local → ∀ (t : Bytes), (∀ b ∈ t, b ≠ 0) → t.length + 2 < 2 ^ 64 → ∀ (rss : List (List Row)),
    (eolSplit t).mapM (rows (.csv prm) conv) = .ok rss → AgreeRows rss.flatten → rows (.csv prm) conv t = .ok rss.flatten

theorem C11_block_is_concat_of_lines_csv (prm : CsvParam) : C11_block_is_concat_of_lines_csv_statement prm := by
  intro conv ⟨gR, gI, gQ, gC, hL⟩ t hn hb rss hl ha
  rw [rows_csv] at hl ⊢
  exact (csv_lineFormat hL prm).concat_of_lines t (fun b hb' => by simpa [nonNulB] using hn b hb') hb rss hl ha

/-! ### cuts at end-of-line bytes: thread slices, chunks, parts -/

/-- what a cut at the end-of-line byte `e` of the text `x e y` preserves, for a parser `f` -/
def C11_cut_statement (f : Format) : Prop :=
  ∀ (conv : Conv), conv.Local → ∀ (x y : Bytes) (e : UInt8), isEolB e = true → (x ++ e :: y).length + 2 < 2 ^ 64 →
    ∀ (rss : List (List Row)), (eolSplit (x ++ e :: y)).mapM (rows f conv) = .ok rss → AgreeRows rss.flatten →
    ∃ rx ry, rows f conv (x ++ e :: y) = .ok (rx ++ ry) ∧
      -- thread slices: the cut byte starts the right piece (BackFindEndLine returns its position)
      rows f conv x = .ok rx ∧ rows f conv (e :: y) = .ok ry ∧
      -- chunks and parts: the cut byte ends the left piece (C03: cuts fall directly after an end-of-line byte)
      rows f conv (x ++ [e]) = .ok rx ∧ rows f conv y = .ok ry

theorem cut_of_lineFormat {good : UInt8 → Bool} {rws : Bytes → Res (List Row)} {recS : Bytes → Res (Option LineRec)}
    (F : LineFormat good rws recS) (x y : Bytes) (e : UInt8) (he : isEolB e = true)
    (hg : ∀ b ∈ x ++ e :: y, good b = true) (hb : (x ++ e :: y).length + 2 < 2 ^ 64) (rss : List (List Row))
    (hl : (eolSplit (x ++ e :: y)).mapM rws = .ok rss) (ha : AgreeRows rss.flatten) :
    ∃ rx ry, rws (x ++ e :: y) = .ok (rx ++ ry) ∧ rws x = .ok rx ∧ rws (e :: y) = .ok ry ∧
      rws (x ++ [e]) = .ok rx ∧ rws y = .ok ry := by
  obtain ⟨rsx, rsy, _, _, _, _, h1, h2, h3, h4, h5⟩ := F.cut x y e he hg hb rss hl ha
  exact ⟨rsx.flatten, rsy.flatten, h5, h1, h3, h2, h4⟩

/-- two adjacent thread slices `[a,b)`, `[b,c)` of FillData (the cut `b` is the position of an end-of-line
byte, as `BackFindEndLine` returns it): their rows, in order, are the rows of `[a,c)` -/
theorem C11_thread_invariant_libsvm (iw mode : Nat) : C11_cut_statement (.libsvm iw mode) := by
  intro conv ⟨gR, gI, gQ, gC, hL⟩ x y e he hb rss hl ha
  rw [rows_libsvm] at hl ⊢
  exact cut_of_lineFormat (svm_lineFormat hL iw mode) x y e he (fun _ _ => rfl) hb rss hl ha

theorem C11_thread_invariant_libfm (iw mode : Nat) : C11_cut_statement (.libfm iw mode) := by
  intro conv ⟨gR, gI, gQ, gC, hL⟩ x y e he hb rss hl ha
  rw [rows_libfm] at hl ⊢
  exact cut_of_lineFormat (fm_lineFormat hL iw mode) x y e he (fun _ _ => rfl) hb rss hl ha

/-- **chunks** (any buffer size; C03: every chunk but the last of a part ends directly after an end-of-line byte —
the hypothesis `isEolB p.2`): the rows of the chunks `xᵢ eᵢ`, `z`, in order, are the rows of the whole text -/
def C11_pieces_after_eol_statement (f : Format) : Prop :=
  ∀ (conv : Conv), conv.Local → ∀ (ps : List (Bytes × UInt8)) (z : Bytes), (∀ p ∈ ps, isEolB p.2 = true) →
    (joinAfter ps z).length + 2 < 2 ^ 64 → ∀ (rss : List (List Row)),
    (eolSplit (joinAfter ps z)).mapM (rows f conv) = .ok rss → AgreeRows rss.flatten →
    ∃ rs rz, ps.mapM (fun p => rows f conv (p.1 ++ [p.2])) = .ok rs ∧ rows f conv z = .ok rz ∧
      rows f conv (joinAfter ps z) = .ok (rs.flatten ++ rz)

/-- **thread slices** of FillData (`BackFindEndLine` returns the position of an end-of-line byte, so every slice
but the first starts with one — the hypothesis `isEolB p.1`): rows of `z`, `(eᵢ yᵢ)` in order = rows of the chunk -/
def C11_pieces_at_eol_statement (f : Format) : Prop :=
  ∀ (conv : Conv), conv.Local → ∀ (ps : List (UInt8 × Bytes)) (z : Bytes), (∀ p ∈ ps, isEolB p.1 = true) →
    (joinAt z ps).length + 3 < 2 ^ 64 → ∀ (rss : List (List Row)),
    (eolSplit (joinAt z ps)).mapM (rows f conv) = .ok rss → AgreeRows rss.flatten →
    ∃ rz rs, rows f conv z = .ok rz ∧ ps.mapM (fun p => rows f conv (p.1 :: p.2)) = .ok rs ∧
      rows f conv (joinAt z ps) = .ok (rz ++ rs.flatten)

theorem C11_thread_invariant_nary_libsvm (iw mode : Nat) : C11_pieces_at_eol_statement (.libsvm iw mode) := by
  intro conv ⟨gR, gI, gQ, gC, hL⟩ ps z he hb rss hl ha
  rw [rows_libsvm] at hl ⊢
  exact (svm_lineFormat hL iw mode).pieces_at_eol ps z he (fun _ _ => rfl) hb rss hl ha

theorem C11_thread_invariant_nary_libfm (iw mode : Nat) : C11_pieces_at_eol_statement (.libfm iw mode) := by
  intro conv ⟨gR, gI, gQ, gC, hL⟩ ps z he hb rss hl ha
  rw [rows_libfm] at hl ⊢
  exact (fm_lineFormat hL iw mode).pieces_at_eol ps z he (fun _ _ => rfl) hb rss hl ha

theorem C11_chunk_invariant_libsvm (iw mode : Nat) : C11_pieces_after_eol_statement (.libsvm iw mode) := by
  intro conv ⟨gR, gI, gQ, gC, hL⟩ ps z he hb rss hl ha
  rw [rows_libsvm] at hl ⊢
  exact (svm_lineFormat hL iw mode).pieces_after_eol ps z he (fun _ _ => rfl) hb rss hl ha

theorem C11_chunk_invariant_libfm (iw mode : Nat) : C11_pieces_after_eol_statement (.libfm iw mode) := by
  intro conv ⟨gR, gI, gQ, gC, hL⟩ ps z he hb rss hl ha
  rw [rows_libfm] at hl ⊢
  exact (fm_lineFormat hL iw mode).pieces_after_eol ps z he (fun _ _ => rfl) hb rss hl ha

/-- **parts** (any num_parts; C03_parts_cover: the parts tile the input and every part but the last ends directly
after an end-of-line byte): the same statement one level up — the pieces are the parts, each of which is in turn
the concatenation of its chunks by `C11_chunk_invariant_*` -/
theorem C11_part_invariant_libsvm (iw mode : Nat) : C11_pieces_after_eol_statement (.libsvm iw mode) :=
  C11_chunk_invariant_libsvm iw mode
theorem C11_part_invariant_libfm (iw mode : Nat) : C11_pieces_after_eol_statement (.libfm iw mode) :=
  C11_chunk_invariant_libfm iw mode

/-- csv: thread slices (cuts at an end-of-line byte) and chunks / parts (cuts directly after one), any number of
pieces, NUL-free text -/
theorem C11_thread_invariant_nary_csv (prm : CsvParam) (conv : Conv) (hL : conv.Local)
    (ps : List (UInt8 × Bytes)) (z : Bytes) (he : ∀ p ∈ ps, isEolB p.1 = true) (hn : ∀ b ∈ joinAt z ps, b ≠ 0)
    (hb : (joinAt z ps).length + 3 < 2 ^ 64) (rss : List (List Row))
    (hl : (eolSplit (joinAt z ps)).mapM (rows (.csv prm) conv) = .ok rss) (ha : AgreeRows rss.flatten) :
    ∃ rz rs, rows (.csv prm) conv z = .ok rz ∧ ps.mapM (fun p => rows (.csv prm) conv (p.1 :: p.2)) = .ok rs ∧
      rows (.csv prm) conv (joinAt z ps) = .ok (rz ++ rs.flatten) := by
  obtain ⟨gR, gI, gQ, gC, hL⟩ := hL
  rw [rows_csv] at hl ⊢
  exact (csv_lineFormat hL prm).pieces_at_eol ps z he (fun b hb' => by simpa [nonNulB] using hn b hb') hb rss hl ha

theorem C11_chunk_invariant_csv (prm : CsvParam) (conv : Conv) (hL : conv.Local)
    (ps : List (Bytes × UInt8)) (z : Bytes) (he : ∀ p ∈ ps, isEolB p.2 = true) (hn : ∀ b ∈ joinAfter ps z, b ≠ 0)
    (hb : (joinAfter ps z).length + 2 < 2 ^ 64) (rss : List (List Row))
    (hl : (eolSplit (joinAfter ps z)).mapM (rows (.csv prm) conv) = .ok rss) (ha : AgreeRows rss.flatten) :
    ∃ rs rz, ps.mapM (fun p => rows (.csv prm) conv (p.1 ++ [p.2])) = .ok rs ∧ rows (.csv prm) conv z = .ok rz ∧
      rows (.csv prm) conv (joinAfter ps z) = .ok (rs.flatten ++ rz) := by
  obtain ⟨gR, gI, gQ, gC, hL⟩ := hL
  rw [rows_csv] at hl ⊢
  exact (csv_lineFormat hL prm).pieces_after_eol ps z he (fun b hb' => by simpa [nonNulB] using hn b hb') hb rss hl ha

/-- parts: the same statement one level up (see `C11_part_invariant_libsvm`) -/
theorem C11_part_invariant_csv (prm : CsvParam) (conv : Conv) (hL : conv.Local)
    (ps : List (Bytes × UInt8)) (z : Bytes) (he : ∀ p ∈ ps, isEolB p.2 = true) (hn : ∀ b ∈ joinAfter ps z, b ≠ 0)
    (hb : (joinAfter ps z).length + 2 < 2 ^ 64) (rss : List (List Row))
    (hl : (eolSplit (joinAfter ps z)).mapM (rows (.csv prm) conv) = .ok rss) (ha : AgreeRows rss.flatten) :
    ∃ rs rz, ps.mapM (fun p => rows (.csv prm) conv (p.1 ++ [p.2])) = .ok rs ∧ rows (.csv prm) conv z = .ok rz ∧
      rows (.csv prm) conv (joinAfter ps z) = .ok (rs.flatten ++ rz) :=
  C11_chunk_invariant_csv prm conv hL ps z he hn hb rss hl ha

/-- **FillData's thread slices satisfy the cut hypothesis** of `C11_thread_invariant_nary_*`: for a chunk of `size`
bytes at position 0 of `mem` (the byte behind it readable) and `nthread ≥ 1` threads, thread `tid` parses
`[cutAt tid, cutAt (tid + 1))` (the slice computed from Gen.nstep / sbegin / send and BackFindEndLine); the cuts
start at 0, end at `size` and are monotone — the slices are contiguous and cover the chunk — and every interior
cut is 0 (the slices in front of it are empty) or the position of an end-of-line byte.  So the non-empty slices
are `z, e₁y₁, e₂y₂, …` with every `eᵢ` an end-of-line byte, the shape `joinAt z ps` of the n-ary theorems. -/
theorem C11_fillData_slices (mem : Bytes) (size nthread : Nat) (h1 : 1 ≤ nthread) (hn : nthread < 4294967296)
    (hs : size + nthread < 9223372036854775808) (hr : size < mem.length) :
    cutAt mem size nthread 0 = 0 ∧ cutAt mem size nthread nthread = size ∧
    (∀ i, i < nthread → cutAt mem size nthread i ≤ cutAt mem size nthread (i + 1)) ∧
    (∀ i, 0 < i → i < nthread → cutAt mem size nthread i = 0 ∨
      ∃ b, mem[cutAt mem size nthread i]? = some b ∧ isEolB b = true) ∧
    (∀ tid, tid < nthread →
      threadSlice mem size nthread tid = .ok (cutAt mem size nthread tid, cutAt mem size nthread (tid + 1))) :=
  fillData_slices mem size nthread h1 hn hs hr

theorem svm_blockFormat {conv : Conv} {gR gI gQ : Bytes → Res Nat} {gC : Bytes → Res (Nat × Nat)}
    (hL : conv.LocalWith gR gI gQ gC) (iw mode : Nat) :
    BlockFormat (fun _ => true) (svmBlock Fixes.repaired conv iw mode) (svmRows Fixes.repaired conv iw mode)
      (svmRecS gR gI gQ iw mode) :=
  ⟨svm_lineFormat hL iw mode, fun mem a b t hAt hT _ _ _ hlen => by
    have hc := codeLines_length t
    have e1 := svm_block_eq_at hL iw mode hAt hT (by omega)
    have e2 := svm_block_eq hL iw mode t (by omega)
    simp only [svmRowsAt] at e1
    rw [e1, e2]⟩

theorem fm_blockFormat {conv : Conv} {gR gI gQ : Bytes → Res Nat} {gC : Bytes → Res (Nat × Nat)}
    (hL : conv.LocalWith gR gI gQ gC) (iw mode : Nat) :
    BlockFormat (fun _ => true) (fmBlock Fixes.repaired conv iw mode) (fmRows Fixes.repaired conv iw mode)
      (fmRecS gR gI iw mode) :=
  ⟨fm_lineFormat hL iw mode, fun mem a b t hAt hT _ _ _ hlen => by
    have hc := codeLines_length t
    have e1 := fm_block_eq_at hL iw mode hAt hT (by omega)
    have e2 := fm_block_eq hL iw mode t (by omega)
    simp only [fmRowsAt] at e1
    rw [e1, e2]⟩

theorem csv_blockFormat {conv : Conv} {gR gI gQ : Bytes → Res Nat} {gC : Bytes → Res (Nat × Nat)}
    (hL : conv.LocalWith gR gI gQ gC) (prm : CsvParam) :
    BlockFormat nonNulB (csvBlock Fixes.repaired conv prm) (csvRows Fixes.repaired conv prm) (csvRecS gC prm) :=
  ⟨csv_lineFormat hL prm, fun mem a b t hAt hT hr hb hg hlen => by
    have hn : ∀ x ∈ t, x ≠ 0 := fun x hx => by simpa [nonNulB] using hg x hx
    have e1 := csv_block_eq_at hL prm hAt hT hr hb hlen hn
    have e2 := csv_block_eq_at hL prm (At.whole t [0]) (Or.inl (term_whole t)) (by simp) (by omega) hlen hn
    simp only [csvRowsAt] at e1 e2
    unfold csvRows csvRowsAt
    rw [e1, e2]⟩

/-- the text of a chunk is acceptable to parser `f`: csv wants no NUL byte inside -/
def GoodText (f : Format) (t : Bytes) : Prop :=
  match f with
  | .csv _ => ∀ b ∈ t, b ≠ 0
  | _ => True

/-- **FillData.** For every chunk `t` (non-empty, at position 0 of `mem`, the byte behind it readable) whose end
is harmless — it ends with an end-of-line byte, as every chunk of an InputSplit does, or a NUL / end-of-line byte
follows it — every `nthread ≥ 1` and every parser: the rows of the blocks FillData + ParserImpl::Next emit, in
thread order, are the rows of ParseBlock on the whole chunk (= the rows of its lines parsed alone, by
`C11_block_is_concat_of_lines_*`).  The slices are the real ones: Gen nstep / sbegin / send + BackFindEndLine. -/
theorem C11_fillData_rows (f : Format) (conv : Conv) (hL : conv.Local) (mem : Bytes) (size nthread : Nat) (t : Bytes)
    (hAt : At mem 0 size t) (hT : TermOr mem size t) (hpos : 0 < size) (h1 : 1 ≤ nthread)
    (hn : nthread < 4294967296) (hs : size + nthread < 9223372036854775808) (hr : size < mem.length)
    (hg : GoodText f t) (rss : List (List Row))
    (hl : (eolSplit t).mapM (rows f conv) = .ok rss) (ha : AgreeRows rss.flatten) :
    ((fillData (f.parseBlock Fixes.current conv) mem size nthread).bind blocksOf).map List.flatten = .ok rss.flatten ∧
    rows f conv t = .ok rss.flatten := by
  obtain ⟨gR, gI, gQ, gC, hL⟩ := hL
  have hlen : size = t.length := by have := hAt.2; omega
  cases f with
  | libsvm iw mode =>
    rw [rows_libsvm] at hl ⊢
    have hp : (Format.libsvm iw mode).parseBlock Fixes.current conv = svmBlock Fixes.repaired conv iw mode := by
      funext m a b; simp [Format.parseBlock, C11_source_is_repaired]
    rw [hp]
    exact ⟨fillData_rows (svm_blockFormat hL iw mode) mem size nthread t hAt hT hpos h1 hn hs hr (fun _ _ => rfl) rss hl ha,
      (svm_lineFormat hL iw mode).concat_of_lines t (fun _ _ => rfl) (by omega) rss hl ha⟩
  | libfm iw mode =>
    rw [rows_libfm] at hl ⊢
    have hp : (Format.libfm iw mode).parseBlock Fixes.current conv = fmBlock Fixes.repaired conv iw mode := by
      funext m a b; simp [Format.parseBlock, C11_source_is_repaired]
    rw [hp]
    exact ⟨fillData_rows (fm_blockFormat hL iw mode) mem size nthread t hAt hT hpos h1 hn hs hr (fun _ _ => rfl) rss hl ha,
      (fm_lineFormat hL iw mode).concat_of_lines t (fun _ _ => rfl) (by omega) rss hl ha⟩
  | csv prm =>
    rw [rows_csv] at hl ⊢
    have hp : (Format.csv prm).parseBlock Fixes.current conv = csvBlock Fixes.repaired conv prm := by
      funext m a b; simp [Format.parseBlock, C11_source_is_repaired]
    rw [hp]
    have hg' : ∀ x ∈ t, nonNulB x = true := fun x hx => by simpa [nonNulB] using hg x hx
    exact ⟨fillData_rows (csv_blockFormat hL prm) mem size nthread t hAt hT hpos h1 hn hs hr hg' rss hl ha,
      (csv_lineFormat hL prm).concat_of_lines t hg' (by omega) rss hl ha⟩

/-! ### bytes after the block -/

/-- the rows of a block do not depend on the memory around it, as long as the byte after the block is a
NUL or an end-of-line byte (what FillData's slices and the InputSplit chunks guarantee) -/
theorem C11_trailing_bytes_irrelevant_libsvm (iw mode : Nat) (conv : Conv) (hL : conv.Local)
    (mem mem' : Bytes) (a b a' b' : Nat) (t : Bytes) (hb : t.length + 2 < 2 ^ 64)
    (h : At mem a b t) (h' : At mem' a' b' t) (hT : TermOr mem b t) (hT' : TermOr mem' b' t) :
    rowsAt (.libsvm iw mode) conv mem a b = rowsAt (.libsvm iw mode) conv mem' a' b' := by
  obtain ⟨gR, gI, gQ, gC, hL⟩ := hL
  have hc := codeLines_length t
  have e1 := svm_block_eq_at hL iw mode h hT (by omega)
  have e2 := svm_block_eq_at hL iw mode h' hT' (by omega)
  simp only [rowsAt, Format.parseBlock, C11_source_is_repaired]
  simp only [svmRowsAt] at e1 e2
  rw [e1, e2]

theorem C11_trailing_bytes_irrelevant_libfm (iw mode : Nat) (conv : Conv) (hL : conv.Local)
    (mem mem' : Bytes) (a b a' b' : Nat) (t : Bytes) (hb : t.length + 2 < 2 ^ 64)
    (h : At mem a b t) (h' : At mem' a' b' t) (hT : TermOr mem b t) (hT' : TermOr mem' b' t) :
    rowsAt (.libfm iw mode) conv mem a b = rowsAt (.libfm iw mode) conv mem' a' b' := by
  obtain ⟨gR, gI, gQ, gC, hL⟩ := hL
  have hc := codeLines_length t
  have e1 := fm_block_eq_at hL iw mode h hT (by omega)
  have e2 := fm_block_eq_at hL iw mode h' hT' (by omega)
  simp only [rowsAt, Format.parseBlock, C11_source_is_repaired]
  simp only [fmRowsAt] at e1 e2
  rw [e1, e2]

/-! ### blank and comment lines -/

theorem icbS_blank_comment (l rest : Bytes) (hl : ∀ b ∈ l, isBlankB b = true) :
    icbS l = [] ∧ icbS (l ++ 35 :: rest) = [] := by
  induction l with
  | nil => simp [icbS, isCommentB, Gen.Parse.icbIsComment, Gen.Parse.commentSymbol]
  | cons b l ih =>
    have hb : isBlankB b = true := hl b (by simp)
    have hnc : isCommentB b = false := by
      simp [isCommentB, Gen.Parse.icbIsComment, Gen.Parse.commentSymbol, isBlankB, Gen.Parse.isblank] at hb ⊢
      omega
    have hns : Gen.Parse.icbStops b.toNat = false := by
      simp [Gen.Parse.icbStops]; exact hb
    have := ih (fun x hx => hl x (by simp [hx]))
    simp [icbS, hnc, hns, this]

/-- a libsvm line of blanks, or of blanks followed by `#…`, contributes no row — wherever it stands,
by `C11_block_is_concat_of_lines_libsvm` -/
theorem C11_blank_and_comment_lines_libsvm (iw mode : Nat) (conv : Conv) (hL : conv.Local)
    (l rest : Bytes) (hl : ∀ b ∈ l, isBlankB b = true) (hrest : ∀ b ∈ rest, isEolB b = false)
    (hbl : l.length + 2 < 2 ^ 64) (hbl2 : (l ++ 35 :: rest).length + 2 < 2 ^ 64) :
    rows (.libsvm iw mode) conv l = .ok [] ∧ rows (.libsvm iw mode) conv (l ++ 35 :: rest) = .ok [] := by
  obtain ⟨gR, gI, gQ, gC, hL⟩ := hL
  have F := svm_lineFormat hL iw mode
  have hne : ∀ b ∈ l, isEolB b = false := fun b hb => by
    have := hl b hb
    simp [isBlankB, Gen.Parse.isblank, isEolB, Gen.Parse.backIsEol] at this ⊢; omega
  have hdw : ∀ s : Bytes, (∀ b ∈ s, isEolB b = false) → s.dropWhile isEolB = s := by
    intro s hs
    cases s with
    | nil => rfl
    | cons b s => simp [List.dropWhile, hs b (by simp)]
  have hnone : ∀ s : Bytes, (∀ b ∈ s, isEolB b = false) → icbS s = [] → svmRecS gR gI gQ iw mode s = .ok none := by
    intro s hs hi
    simp [svmRecS, svmLineS, hdw s hs, hi, pairS, bind, Except.bind, pure, Except.pure, Except.map,
      Gen.Parse.svmEmptyLine]
  have h2 : ∀ b ∈ l ++ 35 :: rest, isEolB b = false := by
    intro b hb
    simp at hb
    rcases hb with hb | rfl | hb
    · exact hne b hb
    · decide
    · exact hrest b hb
  rw [rows_libsvm]
  constructor
  · rw [F.rows_single l (fun _ _ => rfl) hbl hne, single, hnone l hne (icbS_blank_comment l rest hl).1]
    simp [Except.bind, rowsOf_build_nil]
  · rw [F.rows_single _ (fun _ _ => rfl) hbl2 h2, single, hnone _ h2 (icbS_blank_comment l rest hl).2]
    simp [Except.bind, rowsOf_build_nil]

/-- a libfm line of blanks contributes no row -/
theorem C11_blank_lines_libfm (iw mode : Nat) (conv : Conv) (hL : conv.Local)
    (l : Bytes) (hl : ∀ b ∈ l, isBlankB b = true) (hbl : l.length + 2 < 2 ^ 64) :
    rows (.libfm iw mode) conv l = .ok [] := by
  obtain ⟨gR, gI, gQ, gC, hL⟩ := hL
  have F := fm_lineFormat hL iw mode
  have hne : ∀ b ∈ l, isEolB b = false := fun b hb => by
    have := hl b hb
    simp [isBlankB, Gen.Parse.isblank, isEolB, Gen.Parse.backIsEol] at this ⊢; omega
  have hnd : l.dropWhile notDigitCharB = [] := by
    apply dropWhile_all
    intro b hb
    have := hl b hb
    simp [isBlankB, Gen.Parse.isblank, notDigitCharB, Gen.Parse.isdigitchars] at this ⊢; omega
  rw [rows_libfm, F.rows_single l (fun _ _ => rfl) hbl hne, single]
  simp [fmRecS, fmLineS, pairS, hnd, bind, Except.bind, pure, Except.pure, Except.map, Gen.Parse.fmEmptyLine,
    rowsOf_build_nil]

/-- csv: the rows of a block do not depend on the memory around it (the byte after the block readable and a NUL
or an end-of-line byte; NUL-free block) -/
theorem C11_trailing_bytes_irrelevant_csv (prm : CsvParam) (conv : Conv) (hL : conv.Local)
    (mem mem' : Bytes) (a b a' b' : Nat) (t : Bytes) (hb : t.length + 2 < 2 ^ 64) (hn : ∀ x ∈ t, x ≠ 0)
    (h : At mem a b t) (h' : At mem' a' b' t) (hT : TermOr mem b t) (hT' : TermOr mem' b' t)
    (hr : b < mem.length) (hr' : b' < mem'.length) (hb2 : b < 2 ^ 64) (hb2' : b' < 2 ^ 64) :
    rowsAt (.csv prm) conv mem a b = rowsAt (.csv prm) conv mem' a' b' := by
  obtain ⟨gR, gI, gQ, gC, hL⟩ := hL
  have e1 := csv_block_eq_at hL prm h hT hr hb2 hb hn
  have e2 := csv_block_eq_at hL prm h' hT' hr' hb2' hb hn
  simp only [rowsAt, Format.parseBlock, C11_source_is_repaired]
  simp only [csvRowsAt] at e1 e2
  rw [e1, e2]

/-- csv: an empty line, and a line that holds nothing but a UTF-8 BOM, contribute no row -/
theorem C11_blank_lines_csv (prm : CsvParam) (conv : Conv) (hL : conv.Local) :
    rows (.csv prm) conv [] = .ok [] ∧ rows (.csv prm) conv [239, 187, 191] = .ok [] := by
  obtain ⟨gR, gI, gQ, gC, hL⟩ := hL
  have F := csv_lineFormat hL prm
  rw [rows_csv]
  constructor
  · rw [F.rows_single [] (by simp) (by simp) (by simp), single, F.nil]; simp [Except.bind, rowsOf_build_nil]
  · rw [F.rows_single _ (by decide) (by simp) (by decide), single]
    have : csvRecS gC prm [239, 187, 191] = .ok none := by
      have hd : dropBOM ([239, 187, 191] : Bytes) = [] := by decide
      have he : ([239, 187, 191] : Bytes).dropWhile isEolB = [239, 187, 191] := by decide
      simp [csvRecS, csvLineS, he, hd, Except.map]
    rw [this]; simp [Except.bind, rowsOf_build_nil]

end DmlcModel.Props.C11
