/-
C11 / C13, the `Next` layer (src/data/parser.h): `ParserImpl::Next` and the prefetching `ThreadedParser::Next`
as loop models (DmlcModel/Parse/ParserNext.lean).

* `C11_parser_next_loop`: iterating the real cursor loop of `ParserImpl::Next` over the `ParseNext` results gives
  exactly the blocks the specification `pipeline` (used by every other C11 theorem) describes;
* `C11_threaded_parser_transparent`: `Parser::Create`'s `ThreadedParser` wrapper hands out the same blocks;
* `C11_threaded_block_owned`: every block is handed out while the parser still holds the cell it lies in – the
  cell goes back to the iterator only at the start of a later `Next` – and
  `C11_threaded_cells_balanced`: at most one cell is held at any time, every other cell taken was given back.
-/
import DmlcModel.Parse.ParserNext
import DmlcModel.Gen.Parse

namespace DmlcModel.Props.C11
open DmlcModel DmlcModel.Parse DmlcModel.Parse.PNext

theorem blocksOf_eq (cs : List Container) : blocksOf cs = (nonEmpty cs).mapM rowsOf := rfl

theorem mapM_nonEmpty_flatten {α : Type} (g : α → Res (List Container)) (xs : List α) (r : List (List Row)) :
    ((xs.mapM g).bind fun css => (nonEmpty css.flatten).mapM rowsOf) = .ok r ↔
      ∃ bss, xs.mapM (fun x => (g x).bind blocksOf) = .ok bss ∧ r = bss.flatten := by
  induction xs generalizing r with
  | nil =>
    simp only [List.mapM_nil, pure, Except.pure, Except.bind, List.flatten_nil, nonEmpty, List.filter_nil,
      Except.ok.injEq]
    constructor
    · rintro rfl; exact ⟨[], rfl, rfl⟩
    · rintro ⟨bss, rfl, rfl⟩; rfl
  | cons x xs ih =>
    rw [List.mapM_cons, List.mapM_cons]
    cases hX : xs.mapM (fun x => (g x).bind blocksOf) with
    | error e' =>
      have hno : ∀ r, ¬ ((xs.mapM g).bind fun css => (nonEmpty css.flatten).mapM rowsOf) = .ok r := by
        intro r h
        obtain ⟨_, h', _⟩ := (ih r).mp h
        rw [hX] at h'; cases h'
      constructor
      · intro h
        exfalso
        cases hg : g x with
        | error e => rw [hg] at h; cases h
        | ok cs =>
          rw [hg] at h
          cases hm : xs.mapM g with
          | error e => rw [hm] at h; cases h
          | ok css =>
            rw [hm] at h
            simp only [bind, Except.bind, pure, Except.pure, List.flatten_cons, nonEmpty, List.filter_append,
              List.mapM_append] at h
            cases hb : (List.filter (fun c => c.size != 0) cs).mapM rowsOf with
            | error e => rw [hb] at h; cases h
            | ok b =>
              rw [hb] at h; simp only at h
              cases hr : (List.filter (fun c => c.size != 0) css.flatten).mapM rowsOf with
              | error e => rw [hr] at h; cases h
              | ok r' => exact hno r' (by rw [hm]; exact hr)
      · rintro ⟨bss, h, _⟩
        exfalso
        cases hb : (g x).bind blocksOf with
        | error e => rw [hb] at h; cases h
        | ok b => rw [hb] at h; cases h
    | ok bss =>
      have hyes := (ih bss.flatten).mpr ⟨bss, hX, rfl⟩
      cases hg : g x with
      | error e =>
        constructor
        · intro h; cases h
        · rintro ⟨_, h, _⟩; cases h
      | ok cs =>
        cases hm : xs.mapM g with
        | error e => rw [hm] at hyes; cases hyes
        | ok css =>
          rw [hm] at hyes
          have hyes' : (nonEmpty css.flatten).mapM rowsOf = .ok bss.flatten := hyes
          simp only [bind, Except.bind, pure, Except.pure, List.flatten_cons]
          have happ : (nonEmpty (cs ++ css.flatten)).mapM rowsOf =
              ((nonEmpty cs).mapM rowsOf).bind fun b => .ok (b ++ bss.flatten) := by
            simp only [nonEmpty, List.filter_append, List.mapM_append] at hyes' ⊢
            rw [hyes']; rfl
          rw [happ, blocksOf_eq]
          cases hb : (nonEmpty cs).mapM rowsOf with
          | error e =>
            simp only [Except.bind]
            constructor
            · intro h; cases h
            · rintro ⟨_, h, _⟩; cases h
          | ok b =>
            simp only [Except.bind, Except.ok.injEq]
            constructor
            · rintro rfl; exact ⟨b :: bss, rfl, by simp⟩
            · rintro ⟨bss', h, rfl⟩; cases h; simp

theorem pipeline_eq (f : Format) (fx : Fixes) (conv : Conv) (nthread : Nat) (chunks : List (Bytes × Nat)) :
    pipeline f fx conv nthread chunks =
      (chunks.mapM fun c => (fillData (f.parseBlock fx conv) c.1 c.2 nthread).bind blocksOf).map List.flatten := by
  unfold pipeline
  have : (fun (x : Bytes × Nat) => match x with
      | (mem, size) => do
        let cs ← fillData (f.parseBlock fx conv) mem size nthread
        blocksOf cs) = fun c => (fillData (f.parseBlock fx conv) c.1 c.2 nthread).bind blocksOf := by
    funext ⟨mem, size⟩; rfl
  rw [this]
  cases chunks.mapM fun c => (fillData (f.parseBlock fx conv) c.1 c.2 nthread).bind blocksOf <;> rfl

theorem fill_eq (f : Format) (fx : Fixes) (conv : Conv) (nthread : Nat) :
    (fun (x : Bytes × Nat) => match x with
      | (mem, size) => fillData (f.parseBlock fx conv) mem size nthread) =
    fun c => fillData (f.parseBlock fx conv) c.1 c.2 nthread := by
  funext ⟨mem, size⟩; rfl

/-- **`ParserImpl::Next` as a loop = the specification** used by the other C11 theorems: one succeeds exactly when
the other does, with the same blocks in the same order.  (When they fail they may name different causes: the
loop runs every `ParseNext` of the list first, the real object interleaves them with the reads – either way the
consumer sees an exception.) -/
theorem C11_parser_next_loop (f : Format) (fx : Fixes) (conv : Conv) (nthread : Nat) (chunks : List (Bytes × Nat))
    (bs : List (List Row)) :
    pipelineLoop f fx conv nthread chunks = .ok bs ↔ pipeline f fx conv nthread chunks = .ok bs := by
  rw [pipeline_eq]
  unfold pipelineLoop
  rw [fill_eq]
  have key := mapM_nonEmpty_flatten (fun (c : Bytes × Nat) => fillData (f.parseBlock fx conv) c.1 c.2 nthread) chunks bs
  have hl : (do
      let css ← chunks.mapM fun c => fillData (f.parseBlock fx conv) c.1 c.2 nthread
      let cs ← piDrain {} css
      cs.mapM rowsOf) = ((chunks.mapM fun c => fillData (f.parseBlock fx conv) c.1 c.2 nthread).bind fun css =>
        (nonEmpty css.flatten).mapM rowsOf) := by
    cases chunks.mapM fun c => fillData (f.parseBlock fx conv) c.1 c.2 nthread with
    | error e => rfl
    | ok css => simp [bind, Except.bind, piDrain_fresh]
  rw [hl, key]
  cases chunks.mapM fun c => (fillData (f.parseBlock fx conv) c.1 c.2 nthread).bind blocksOf with
  | error e => simp [Except.map]
  | ok bss => simp [Except.map]; exact eq_comm

/-- **the `ThreadedParser` wrapper is transparent and every block is owned when handed out**: through the
prefetching wrapper the consumer sees exactly the blocks of the bare parser, each flagged `true` -/
theorem C11_threaded_parser_transparent (f : Format) (fx : Fixes) (conv : Conv) (nthread : Nat)
    (chunks : List (Bytes × Nat)) :
    pipelineThreaded f fx conv nthread chunks =
      (pipelineLoop f fx conv nthread chunks).map (·.map fun r => (r, true)) := by
  unfold pipelineThreaded pipelineLoop
  rw [fill_eq]
  cases hm : chunks.mapM fun (c : Bytes × Nat) => fillData (f.parseBlock fx conv) c.1 c.2 nthread with
  | error e => simp [hm, bind, Except.bind, Except.map]
  | ok css =>
    simp only [hm, bind, Except.bind, tpDrain_eq {} css TP.wf_init, piDrain_fresh, TP.cur, List.nil_append]
    generalize nonEmpty css.flatten = cs
    induction cs with
    | nil => simp [Except.map, pure, Except.pure]
    | cons c cs ih =>
      simp only [List.map_cons, List.mapM_cons, bind, Except.bind] at ih ⊢
      cases hr : rowsOf c with
      | error e => simp [Except.map]
      | ok r =>
        simp only [Except.map]
        cases hrs : cs.mapM rowsOf with
        | error e => simp [hrs, Except.map] at ih; simp [ih, pure, Except.pure]
        | ok rs => simp [hrs, Except.map] at ih; simp [ih, pure, Except.pure]

/-- **a block is handed out only while its cell is held**: whenever `ThreadedParser::Next` returns a block in a
state reached from the constructor, `tmp_` is the cell that contains it (`data_ptr_ - 1` indexes it) – the
`Recycle` of that cell has not happened yet – and when `Next` returns false no cell is held -/
theorem C11_threaded_block_owned (s : TP) (cells : List (List Container)) (hw : s.Wf) :
    ∃ o s' cells', tpNext s cells = .ok (o, s', cells') ∧ s'.Wf ∧
      (∀ c, o = some c → ∃ d, s'.tmp = some d ∧ 1 ≤ s'.ptr ∧ d[s'.ptr - 1]? = some c) ∧
      (o = none → s'.tmp = none ∧ cells' = []) := by
  obtain ⟨o, s', cells', h1, h2, _, h4, h5⟩ := tpNext_spec s cells hw
  exact ⟨o, s', cells', h1, h2, h4, h5⟩

/-- **cells are given back exactly once**: in every state reached from the constructor by `Next` calls, the number
of cells taken from the iterator = the number given back + the one held (if any) -/
theorem C11_threaded_cells_balanced (s : TP) (cells : List (List Container)) (hw : s.Wf)
    (o : Option Container) (s' : TP) (cells' : List (List Container)) (h : tpNext s cells = .ok (o, s', cells')) :
    s'.taken = s'.recycled + (if s'.tmp.isSome then 1 else 0) := by
  obtain ⟨o2, s2, c2, h1, h2, _⟩ := tpNext_spec s cells hw
  rw [h] at h1
  simp only [Except.ok.injEq, Prod.mk.injEq] at h1
  obtain ⟨rfl, rfl, rfl⟩ := h1
  exact h2.2

/-- the source gives the cell back where the model does: one `Recycle` in `ThreadedParser::Next`, after the scan loop
has run to its end, before `iter_.Next`, under `if (tmp_ != NULL)` (read off src/data/parser.h on every run) -/
theorem C11_threaded_source_shape :
    Gen.Parse.tpRecycleSites = 1 ∧ Gen.Parse.tpRecycleAfterScan = true ∧ Gen.Parse.tpRecycleGuarded = true := by decide

/-- the factories of src/data.cc have the modelled shape: all three read a "text" split, libsvm / libfm are wrapped in
`ThreadedParser` (whose transparency is `C11_threaded_parser_transparent`), csv is returned bare, and all pass the same
positive thread count – which, by `C11_thread_invariant_*`, does not influence the rows -/
theorem C11_factory_shape :
    Gen.Parse.factoryTextSplits = 3 ∧ Gen.Parse.factoryThreadedWrappers = 2 ∧ 1 ≤ Gen.Parse.factoryThreads := by decide

/-- non-vacuity: two cells, the first with an empty container in the middle and one at its end; the third `Next`
crosses into the second cell (one `Recycle`); every block is owned -/
example :
    tpDrain {} [[{ offset := [0, 1], label := [7], index := [3] }, {}, { offset := [0, 0], label := [9] }, {}], [{}],
      [{ offset := [0, 0], label := [9] }]] =
      .ok [({ offset := [0, 1], label := [7], index := [3] }, true), ({ offset := [0, 0], label := [9] }, true),
        ({ offset := [0, 0], label := [9] }, true)] := by
  rw [tpDrain_eq _ _ TP.wf_init]; simp [TP.cur, nonEmpty, Container.size]

end DmlcModel.Props.C11
