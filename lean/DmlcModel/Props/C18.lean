/-
C18 — ConcurrentBlockingQueue (FIFO and priority) and ManualEvent are correct under every schedule.
Property theorems only; the invariants and their preservation proofs live in
DmlcModel/CQueue/{Lemmas,Invariant,Event}.lean.  All theorems quantify over EVERY reachable state of
the transition systems of DmlcModel/CQueue/Model.lean: any number of threads, any program, any
interleaving at synchronisation operations, spurious wake-ups included.
-/
import DmlcModel.CQueue.Progress

namespace DmlcModel.Props.C18
open DmlcModel DmlcModel.CQueue DmlcModel.Gen.CQueue

/-! ## queue -/

/-- FIFO: the elements in delivery order (pushes in the order they took effect, front pushes before
everything still queued) are exactly the elements already handed out followed by the queue content:
every pushed element goes to exactly one successful Pop, in that order. -/
theorem C18_exactly_once_fifo {s : QState} (h : QReach .fifo s) : s.pushedEff = s.popped ++ s.q :=
  (qreach_inv h).2.fifo rfl

/-- both variants: as multisets, pushed = handed out + still queued (nothing lost, nothing duplicated) -/
theorem C18_exactly_once_multiset {m : Mode} {s : QState} (h : QReach m s) :
    s.pushedEff.Perm (s.popped ++ s.q) :=
  (qreach_inv h).2.perm

/-- FIFO: a successful Pop hands out the head of the queue -/
theorem C18_fifo_pop_front {s s' : QState} {hint : Option Elem}
    (hs : qstep .fifo s (.popAfterLoad hint) = some s') (ht : s'.holder = .popU true) :
    ∃ x, s.q = x :: s'.q ∧ s'.popped = s.popped ++ [x] := by
  simp only [qstep, popTakesFront_spec, if_true] at hs
  repeat' split at hs
  all_goals (first | (simp at hs; done) | skip)
  all_goals (simp only [Option.some.injEq] at hs; subst hs)
  all_goals (first | (simp at ht; done) | skip)
  rename_i x rest hq
  exact ⟨x, by simp [hq], rfl⟩

/-- priority variant: a successful Pop hands out an element of maximal priority among the queued ones -/
theorem C18_priority_order {s s' : QState} {hint : Option Elem}
    (hs : qstep .prio s (.popAfterLoad hint) = some s') (ht : s'.holder = .popU true) :
    ∃ x, x ∈ s.q ∧ (∀ y ∈ s.q, y.prio ≤ x.prio) ∧ s'.popped = s.popped ++ [x] ∧ s'.q = s.q.erase x := by
  simp only [qstep] at hs
  repeat' split at hs
  all_goals (first | (simp at hs; done) | skip)
  all_goals (simp only [Option.some.injEq] at hs; subst hs)
  all_goals (first | (simp at ht; done) | skip)
  rename_i x _ hx
  refine ⟨x, hx.1, ?_, rfl, rfl⟩
  have := hx.2
  simpa [isMax] using this

/-- Pop never executes `front()` / `pop_heap` on an empty container -/
theorem C18_no_undefined_pop {m : Mode} {s : QState} (h : QReach m s) : s.holder ≠ .ub :=
  (qreach_inv h).1.noUb

/-- a Pop is blocked only while the queue is empty, or a wake-up for it is under way: with a popper in
the wait set and no kill, every queued element is matched by a popper that is already awake, a
`notify_one` that is still to be issued, or the thread inside the critical section (no lost wake-up) -/
theorem C18_blocks_only_if_empty {m : Mode} {s : QState} (h : QReach m s) (hw : 0 < s.waitset)
    (he : s.exit = false) : s.q.length ≤ s.woken + s.pendNotify + hcredit s.holder :=
  (qreach_inv h).1.noLost hw he

/-- `nwait_consumer_` counts exactly the poppers between `++` and `--` -/
theorem C18_nwait_exact {m : Mode} {s : QState} (h : QReach m s) :
    s.nwait = s.waitset + s.woken + hcount s.holder :=
  (qreach_inv h).1.nwait_eq

/-- SignalForKill: the flag is never cleared; once it is set every Pop that reaches its decision
returns false, a popper never goes (back) to sleep, and every popper still in the wait set is covered
by a `notify_all` that is still to be issued -/
theorem C18_kill {m : Mode} {s s' : QState} (h : QReach m s) (hx : s.exit = true) :
    (∀ e, qstep m s e = some s' → s'.exit = true) ∧
    (∀ hint, qstep m s (.popAfterLoad hint) = some s' → s'.holder = .popU false) ∧
    (∀ e, qstep m s e = some s' → s'.holder = .popWait → s.holder = .popWait) ∧
    s.holder ≠ .popWait ∧
    (0 < s.waitset → 0 < s.pendKill ∨ s.holder = .killU) := by
  have hi := (qreach_inv h).1
  refine ⟨?_, ?_, ?_, ?_, hi.killPending hx⟩
  · intro e hs
    cases e <;> simp only [qstep, afterPred, killValue_spec] at hs
    all_goals (repeat' split at hs)
    all_goals (first | (simp at hs; done) | skip)
    all_goals (simp only [Option.some.injEq] at hs; subst hs; simp [hx])
  · intro hint hs
    simp only [qstep, popTakes_spec, hx] at hs
    repeat' split at hs
    all_goals (first | (simp at hs; done) | skip)
    all_goals (simp only [Option.some.injEq] at hs; subst hs)
    all_goals (first | rfl | simp_all)
  · intro e hs hw
    cases e <;> simp only [qstep, afterPred, popPred_spec, hx] at hs
    all_goals (repeat' split at hs)
    all_goals (first | (simp at hs; done) | skip)
    all_goals (simp only [Option.some.injEq] at hs; subst hs)
    all_goals (first | (simp at hw; done) | assumption | skip)
    all_goals simp_all
  · intro hw
    have := hi.waitNoExit hw
    simp [hx] at this

/-- no deadlock: whenever a popper is blocked although there is something to do for it (an element
is queued, or the kill flag is set), a step that continues a call in progress is enabled (not a new
call and not a spurious wake-up): the pending `notify`, the re-acquisition by an awake popper, or the
next step of the thread inside the critical section -/
theorem C18_deadlock_free {m : Mode} {s : QState} (h : QReach m s) (hw : 0 < s.waitset)
    (hwork : s.q ≠ [] ∨ s.exit = true) :
    ∃ e, e.continues = true ∧ (qstep m s e).isSome = true := by
  have hi := (qreach_inv h).1
  by_cases hf : s.holder = .free
  · cases hex : s.exit
    · have hq : s.q ≠ [] := by
        rcases hwork with hq | hx
        · exact hq
        · simp [hex] at hx
      have hl := hi.noLost hw hex
      have hpos : 0 < s.q.length := List.length_pos_iff.mpr hq
      simp only [hf, hcredit] at hl
      by_cases hwk : 0 < s.woken
      · exact ⟨.popRelock, rfl, by simp only [qstep, hf, hwk, and_self, if_true]; split <;> simp⟩
      · have hpn : 0 < s.pendNotify := by omega
        exact ⟨.pushNotify, rfl, by simp [qstep, hpn, hw]⟩
    · rcases hi.killPending hex hw with hk | hk
      · exact ⟨.killNotify, rfl, by simp [qstep, hk]⟩
      · simp [hf] at hk
  · exact holder_can_step m s hf hi.noUb

/-! ## ManualEvent (the model follows the generated `evWaitLoops`, i.e. the code as it is; the
theorems need `evWaitLoops = true`: wait() re-checks the flag after waking) -/

/-- wait() returns only if signal() has stored since the last store of reset() -/
theorem C18_event_safe {s s' : EState} (h : EReach evWaitLoops s) (hs : estep evWaitLoops s .wUnlock = some s') :
    s.sigAfterReset = true ∧ s'.badReturns = 0 := by
  rw [evWaitLoops_spec] at h hs
  have hi := ereach_inv h
  simp only [estep] at hs
  split at hs
  · rename_i hh
    have hsig := hi.retOk hh
    have hg := hi.ghostEq
    simp only [Option.some.injEq] at hs
    subst hs
    simp [hg, hsig, hi.noBad]
  · simp at hs

/-- no wait() ever returned without a signal, in any reachable state -/
theorem C18_event_safe_all {s : EState} (h : EReach evWaitLoops s) : s.badReturns = 0 := by
  rw [evWaitLoops_spec] at h
  exact (ereach_inv h).noBad

/-- once signalled (and not reset since) a waiter does not stay asleep: if the flag is set while a
thread is in the wait set, the `notify_all` of a signal() is still to come (no lost signal) -/
theorem C18_event_live_no_lost_signal {s : EState} (h : EReach evWaitLoops s) (hsig : s.signaled = true)
    (hw : 0 < s.waitset) : 0 < s.sigPending ∨ s.holder = .sNotify := by
  rw [evWaitLoops_spec] at h
  exact (ereach_inv h).noLostSignal hsig hw

/-- liveness: from EVERY reachable state in which the flag is set and no reset() is about to clear it
(the only excluded location is a reset() that holds the mutex before its store), there is a path of
steps each of which continues a call already in progress — no new call, no spurious wake-up, no step
of a reset() up to its store — after which every waiter has returned: nobody in the wait set, nobody
awake and waiting for the mutex, nobody inside the critical section, no signal() pending, the flag
still set, and no return was a bad one -/
theorem C18_event_live {s : EState} (h : EReach evWaitLoops s) (hsig : s.signaled = true)
    (hr : s.holder ≠ .rStore) :
    ∃ es : List EEvent, (∀ e ∈ es, e.continues = true ∧ e.isReset = false) ∧
      ∃ s', erun evWaitLoops s es = some s' ∧ s'.holder = .free ∧ s'.waitset = 0 ∧ s'.woken = 0 ∧
        s'.sigPending = 0 ∧ s'.signaled = true ∧ s'.badReturns = 0 := by
  rw [evWaitLoops_spec] at h ⊢
  obtain ⟨es, hes, s', hrun, hall, hbad⟩ := event_live_path h hsig hr
  exact ⟨es, hes, s', hrun, hall.1, hall.2.1, hall.2.2.1, hall.2.2.2.1, hall.2.2.2.2, hbad⟩

end DmlcModel.Props.C18
