/-
C14 — witnesses: the repaired defects (DESIGN F8 a, c, d, f + the two extra ones) behave as the property demands on
the model; the two OPEN classes (`exp-field-range`, `frac-leading-zeros-19`) refute the full statements of
`C14_stof_no_spurious` / `C14_accuracy_*`; non-vacuity samples.  All by kernel evaluation (`decide +kernel`).
-/
import DmlcModel.Props.C14

namespace DmlcModel.Props.C14Witness
open DmlcModel DmlcModel.StrToNum DmlcModel.Props.C14

/-- a C string literal with its terminating NUL -/
def bz (s : String) : Bytes := s.toList.map (fun c => c.toNat.toUInt8) ++ [0]

def endOf (r : Except Fault PRes) : Option Nat := match r with | .ok p => some p.endIdx | .error _ => none
def okOf {α : Type} (r : Except Fault α) : Option α := match r with | .ok a => some a | .error _ => none

/-! ### repaired defects -/
/-- F8(a): `stof("100e37")` throws `out_of_range` (used to return `inf`) -/
theorem C14_w_fixed_a : stof 0 (bz "100e37") = .throwRange ∧ stod 0 (bz "100e307") = .throwRange := by decide +kernel
/-- F8(c): a stale `errno == ERANGE` no longer makes `stof("inf")` throw; `errno` is left as it was -/
theorem C14_w_fixed_c : stof ERANGE (bz "inf") = .ok ⟨false, .inf⟩ 3 ERANGE ∧ stod 22 (bz "-nan") = .ok ⟨false, .nan⟩ 4 22 := by
  decide +kernel
/-- F8(d): end index of incomplete tokens -/
theorem C14_w_fixed_d :
    endOf (parseFloat .F32 false (bz "1e")) = some 1 ∧ endOf (parseFloat .F32 false (bz ".")) = some 0 ∧
    endOf (parseFloat .F64 true (bz "-")) = some 0 ∧ endOf (parseFloat .F64 false (bz "  x")) = some 0 ∧
    endOf (parseFloat .F32 false (bz "infinit")) = some 3 ∧ endOf (parseFloat .F32 false (bz "1e+f")) = some 1 ∧
    stof 0 (bz "-") = .throwInvalid ∧ stod 0 (bz ".") = .throwInvalid := by decide +kernel
/-- F8(f): an unterminated `nan(` is `nan` followed by `(` -/
theorem C14_w_fixed_f : endOf (parseFloat .F32 false (bz "nan(")) = some 3 ∧
    endOf (parseFloat .F32 false (bz "nan(ab_1)")) = some 9 ∧ stof 0 (bz "nan(x") = .ok ⟨false, .nan⟩ 3 0 := by
  decide +kernel
/-- the most negative values parse exactly; the range returns consume the `f` suffix -/
theorem C14_w_fixed_int : okOf (parseSigned 32 10 (bz "-2147483648")) = some (2147483648, 11) ∧
    okOf (parseSigned 64 10 (bz "-9223372036854775808")) = some (9223372036854775808, 20) ∧
    endOf (parseFloat .F32 true (bz "1e100f")) = some 6 := by decide +kernel

/-! ### open classes: refutations of the full statements -/

/-- class `exp-field-range` (DESIGN F8 b): "0.0000000001e39" denotes 1e29, well inside the float range, and
`stof` throws `out_of_range` because only the exponent field (39 > 38) is looked at -/
theorem C14_w_open_exp_field_stof : stof 0 (bz "0.0000000001e39") = .throwRange ∧
    stof 0 (bz "10000000000e-39") = .throwRange := by decide +kernel

def lex1 : Lexeme := { neg := false, intDigits := [0], hasDot := true, fracDigits := [0, 0, 0, 0, 0, 0, 0, 0, 0, 1],
                       exp := some (false, [3, 9]) }

theorem C14_w_lex1 : scanNum (cstr (bz "0.0000000001e39")) = some (.dec lex1, 15) ∧ decimalValue lex1 = 10 ^ 29 := by
  decide +kernel

/-- the full "no spurious exception" statement is false of the code (hence only `C14_stof_no_spurious_partial`) -/
theorem C14_w_no_spurious_refuted : ¬ C14_stof_no_spurious_statement := by
  intro H
  have h := H .F32 0 (bz "0.0000000001e39") (by decide +kernel)
  rw [C14_w_lex1.1] at h
  simp only [] at h
  have hv : (1 : Rat) / 10 ^ 30 ≤ absQ (decimalValue lex1) ∧ absQ (decimalValue lex1) ≤ 10 ^ 30 := by
    rw [C14_w_lex1.2]; decide +kernel
  obtain ⟨v, pos, e, hs⟩ := h hv
  have : stof 0 (bz "0.0000000001e39") = .throwRange := C14_w_open_exp_field_stof.1
  unfold stof at this
  rw [this] at hs
  cases hs

def lex2 : Lexeme := { neg := false, intDigits := [0], hasDot := true,
                       fracDigits := [0, 0, 0, 0, 0, 0, 0, 0, 0, 0, 0, 0, 0, 0, 0, 0, 0, 0, 0, 0, 0, 0, 1, 2, 3, 4], exp := none }

/-- class `frac-leading-zeros-19` (DESIGN F8 e): the first 19 fraction digits are zero, the value parses as 0 -/
theorem C14_w_open_frac_zeros :
    okOf (parseFloat .F32 false (bz "0.00000000000000000000001234")) = some ⟨⟨false, .fin 0⟩, 28, false⟩ ∧
    lexemeOf (cstr (bz "0.00000000000000000000001234")) = some lex2 ∧
    decimalValue lex2 = 1234 / 10 ^ 26 := by decide +kernel

/-- the full accuracy statement is false of the code for `float` (hence only `C14_accuracy_partial`) -/
theorem C14_w_accuracy_refuted : ¬ C14_accuracy_statement .F32 := by
  intro H
  obtain ⟨r, q, hr, hv, hb⟩ := H false (bz "0.00000000000000000000001234") lex2 (by decide +kernel)
    C14_w_open_frac_zeros.2.1 (by decide +kernel)
    (by rw [C14_w_open_frac_zeros.2.2]; decide +kernel) (by rw [C14_w_open_frac_zeros.2.2]; decide +kernel)
  have h1 := C14_w_open_frac_zeros.1
  rw [hr] at h1
  simp only [okOf, Option.some.injEq] at h1
  subst h1
  simp only [FVal.mk.injEq, Mag.fin.injEq] at hv
  obtain ⟨_, hq⟩ := hv
  subst hq
  rw [C14_w_open_frac_zeros.2.2] at hb
  revert hb
  decide +kernel

/-- class `exp-field-range` also breaks accuracy in the unchecked variant: "10000000000e-39" (= 1e-29) gives about 1e-28 -/
theorem C14_w_open_exp_field_value :
    (match parseFloat .F32 false (bz "10000000000e-39") with
     | .ok r => (match r.val.mag with | .fin q => decide ((9 : Rat) / 10 ^ 29 ≤ q) | _ => false)
     | .error _ => false) = true := by decide +kernel

/-- class `near-max-overflow` (finding C14-F9): FLT_MAX in its own 9-digit spelling lies in the normal range but inside the
margin `C14_accuracy_partial` excludes (`|v| (1 + δ) ≤ max` fails); the range-checking variant reports a range error
and returns infinity -/
theorem C14_w_open_near_max :
    (match parseFloat .F32 true (bz "3.40282347e+38") with
     | .ok r => (match r.val.mag with | .inf => r.erange | _ => false)
     | .error _ => false) = true := by decide +kernel

/-! ### non-vacuity samples of the proved theorems -/
/-- "  +12345:" is an integer lexeme (hypotheses of `C14_accuracy_partial`) and parses to 12345 exactly -/
theorem C14_w_accuracy_sample :
    (lexemeOf (cstr (bz "  +12345:"))).map (fun l => (l.intDigits, l.hasDot, l.exp)) = some ([1, 2, 3, 4, 5], false, none) ∧
    okOf (parseFloat .F32 false (bz "  +12345:")) = some ⟨⟨false, .fin 12345⟩, 8, false⟩ := by decide +kernel
/-- a hard stopper in the middle: the conversion of "1.5e3," does not depend on what follows the comma -/
theorem C14_w_local_sample : okOf (parseFloat .F64 true ((bz "1.5e3,").dropLast ++ [49, 50, 0])) =
    okOf (parseFloat .F64 true ((bz "1.5e3,").dropLast ++ [10, 55, 0])) := by decide +kernel

end DmlcModel.Props.C14Witness
