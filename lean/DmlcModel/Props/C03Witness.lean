/- non-vacuity / regression witnesses for C03: concrete inputs evaluated on the model (kernel `decide`) -/
import DmlcModel.Props.C03
namespace DmlcModel.Props.C03
open DmlcModel DmlcModel.Split

/-- "ab", "\r\ncd\r", "\n\nef": boundaries inside an EOL run, on a file boundary, a file without final
newline in the middle of a part, empty parts (n = 5, 1-word buffer: carry-over and doubling on every part) -/
def wfiles : List Bytes := [[97, 98], [13, 10, 99, 100, 13], [10, 10, 101, 102]]

example : wfiles ≠ [] ∧ (∀ f ∈ wfiles, f ≠ [] ∧ NulFree f) := by decide
example : ((List.range 5).flatMap fun k => linesOf (partBlobs Fmt.text wfiles k 5 1 4 (fun _ => true)))
    = [[97, 98], [99, 100], [101, 102]] := by decide
example : ((List.range 5).flatMap fun k => linesOf (partBlobs Fmt.text wfiles k 5 1 4 (fun _ => false)))
    = wfiles.flatMap lines := by decide
example : (List.range 5).map (fun k => okOf (partBlobs Fmt.text wfiles k 5 1 4 (fun _ => false)))
    = [some [[97, 98, 10, 13], [10, 10]], some [[99, 100, 13]], some [[10, 10], [101, 102, 10]], some [], some []] := by decide
end DmlcModel.Props.C03
