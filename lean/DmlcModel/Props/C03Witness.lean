/- non-vacuity / regression witnesses for C03: concrete inputs evaluated on the model (kernel `decide`) -/
import DmlcModel.Props.C03
namespace DmlcModel.Props.C03
open DmlcModel DmlcModel.Split

/-- "ab", "\r\ncd\r", "\n\nef": boundaries inside an EOL run, on a file boundary, a file without final
newline in the middle of a part, empty parts (n = 5, 1-word buffer: carry-over and doubling on every part) -/
def wfiles : List Bytes := [[97, 98], [13, 10, 99, 100, 13], [10, 10, 101, 102]]

example : wfiles ≠ [] ∧ (∀ f ∈ wfiles, f ≠ [] ∧ NulFree f) := by decide
example : ((List.range 5).flatMap fun k => linesOf (partBlobs Fmt.text wfiles k 5 1 4 (fun _ => true)))
    = [[97, 98], [99, 100], [101, 102]] := by decide
example : ((List.range 5).flatMap fun k => linesOf (partBlobs Fmt.text wfiles k 5 1 4 (fun _ => false)))
    = wfiles.flatMap lines := by decide
example : (List.range 5).map (fun k => okOf (partBlobs Fmt.text wfiles k 5 1 4 (fun _ => false)))
    = [some [[97, 98, 10, 13], [10, 10]], some [[99, 100, 13]], some [[10, 10], [101, 102, 10]], some [], some []] := by decide

/-! the hypotheses of the C03 theorems are satisfiable: the theorems instantiated on `wfiles`, `n = 5`, a 1-word
buffer, `kBufferSize = 4` -/
example (pick : Nat → Nat → Bool) := C03_parts_cover wfiles 5 1 4 (by decide) (by decide) (by decide) (by decide)
  (by decide) (by decide) pick
example (pick : Nat → Bool) := C03_part_lines wfiles 5 1 4 (by decide) (by decide) (by decide) (by decide)
  (by decide) 2 (by decide) pick
example (pick : Nat → Bool) := C03_no_error wfiles 5 1 4 (by decide) (by decide) (by decide) (by decide)
  (by decide) 4 (by decide) pick
/-- (the hypothesis `partBlobs … = .ok bs` holds with `bs = [[97, 98, 10, 13], [10, 10]]`: fourth example above) -/
example (bs : List Bytes) (h : partBlobs Fmt.text wfiles 0 5 1 4 (fun _ => false) = .ok bs) (i : Nat) (b : Bytes)
    (hb : bs[i]? = some b) := C03_chunk_ends_at_eol wfiles 5 1 4 (by decide) (by decide) (by decide) (by decide)
  (by decide) 0 (by decide) (fun _ => false) bs h i b hb
example (pick pick' : Nat → Bool) := C03_buffer_independent wfiles 5 1 4 (by decide) (by decide) (by decide)
  (by decide) (by decide) 1000 2097152 (by decide) 2 (by decide) pick pick'
example := C03_initial_invariant wfiles 5 1 4 (by decide) (by decide) (by decide) (by decide) (by decide) 0
  (by decide)
example := C03_boundaries wfiles 5 (by decide) (by decide) (by decide) (by decide)
/-- `C03_load_terminates`: its hypothesis `TInv` holds of every constructed state (`C03_initial_invariant`) -/
example : ∃ s, mkSt Fmt.text wfiles 0 5 1 false 4 = .ok s ∧ ∃ r, load Fmt.text s.base s.base.chunk = .ok r := by
  obtain ⟨s, h, _, hT, _⟩ := C03_initial_invariant wfiles 5 1 4 (by decide) (by decide) (by decide) (by decide)
    (by decide) 0 (by decide)
  exact ⟨s, h, C03_load_terminates s.base s.base.chunk hT⟩
end DmlcModel.Props.C03
