/-
C13 witnesses.
 (a) non-vacuity: concrete containers / blocks / rows meeting the hypotheses of the C13 theorems, and the
     model computing the stated results on them;
 (b) the misbehaviour of the PINNED code (before fixes/C13-1..3), on hand transcriptions of the pinned
     statements (`Pinned.*`), each refuting the corresponding property statement on a concrete input;
 (c) the open class `mixed-presence-push`: without `Compatible` the repaired code raises dmlc::Error.
-/
import DmlcModel.Props.C13

deriving instance DecidableEq for Except

namespace DmlcModel.Props.C13
open DmlcModel DmlcModel.RowBlock

def lim32 : Nat := 2 ^ 32 - 1

/-- three rows (2, 1, 0 entries) with label, weight, field and value; no qid -/
def b3 : Block :=
  { size := 3, offset := [0, 2, 3, 3], label := some [10, 11, 12], weight := some [20, 21, 22], qid := none,
    field := some [1, 2, 3], index := some [5, 6, 7], value := some [30, 31, 32] }

/-- the same rows without weight -/
def b3nw : Block := { b3 with weight := none }

def r1 : RowVal := { label := some 9, weight := none, qid := some 4, field := none, index := [8], value := some [33] }

-- (a) ------------------------------------------------------------------------------------------
example : Sound b3 = true := by decide
example : b3.off0 + b3.ndata < 2 ^ 62 := by decide
example : Compatible Container.empty b3 = true := by decide
example : FitsLim lim32 b3 := by
  refine ⟨by decide, ?_⟩
  intro l hl; cases hl; decide
example : r1.WF := ⟨fun fs h => (by cases h), fun vs h => (by cases h; rfl)⟩
example : Compatible Container.empty (rowBlock r1) = true := by decide
example : (b3.slice 1 3).map Sound = .ok true := by decide

/-- pushing the slice [1,3) of `b3` into an empty container stores exactly rows 1 and 2 -/
theorem C13_witness_slice_push :
    (match b3.slice 1 3 with
     | .ok s => (match getBlock (pushBlock lim32 Container.empty s).1 with
                 | .ok v => v.rows
                 | .error e => .error e)
     | .error e => .error e) =
    .ok [{ label := some 11, weight := some 21, qid := none, field := some [3], index := [7], value := some [32] },
         { label := some 12, weight := some 22, qid := none, field := some [], index := [], value := some [] }] := by
  decide

set_option maxRecDepth 16384 in
/-- Save then Load returns the container and consumes exactly the image (4 trailing bytes stay) -/
theorem C13_witness_save_load :
    load 4 Container.empty (save 4 (pushBlock lim32 Container.empty b3).1 ++ [1, 2, 3, 4]) =
      .ok (pushBlock lim32 Container.empty b3).1 [1, 2, 3, 4] := by decide

set_option maxRecDepth 16384 in
example : (save 4 (pushBlock lim32 Container.empty b3).1).length = 8 * 7 + 8 * 4 + 4 * 3 + 4 * 3 + 4 * 3 + 4 * 3 + 4 * 3 + 8 := by
  decide

set_option maxRecDepth 16384 in
/-- a two-page cache file (page test "at least 2 rows") is read back as all rows in order -/
theorem C13_witness_disk_pages :
    (match buildCacheWith (fun _ => true) 4 lim32 [b3, b3] with
     | .ok (file, _) => (match readPages 4 (file.length + 1) file, diskPass 4 file with
                         | .ok pages, .ok rs => some (pages.length, rs.length)
                         | _, _ => none)
     | .error _ => none) = some (2, 6) := by decide

-- (b) ------------------------------------------------------------------------------------------
namespace Pinned

/-- `GetBlock` of the pinned tree: the label / index / value CHECKs only -/
def getBlock (c : Container) : R Block :=
  match c.offset.getLast? with
  | none => .error .oob
  | some back =>
    if Gen.RowBlock.gbLabelGuard c.label.length && !Gen.RowBlock.gbLabelEq c.label.length c.offset.length then
      .error .check
    else if !Gen.RowBlock.gbIndexEq back c.index.length then .error .check
    else if !Gen.RowBlock.gbValueOk back c.value.length then .error .check
    else .ok { size := Gen.RowBlock.gbSize c.offset.length, offset := c.offset,
               label := beginPtr c.label, weight := beginPtr c.weight, qid := beginPtr c.qid,
               field := beginPtr c.field, index := beginPtr c.index, value := beginPtr c.value }

/-- `Push(RowBlock)` of the pinned tree for a block with label: entries read at `batch.index[i]`,
`batch.field[i]`, `batch.value` (position 0), `field` written at `offset.back()` -/
def pushBlock (lim : Nat) (c : Container) (b : Block) : Container × Option Err :=
  let stepFieldP (c : Container) : Container × Option Err :=
    match b.field with
    | none => (c, none)
    | some fl =>
      match ndataOf b, c.offset.getLast? with
      | .ok (_, nd), some back =>
        let f1 := c.field ++ List.replicate nd 0
        let res := copyGo (fun x => decide (x ≤ lim)) id fl id back nd 0 f1 c.maxField
        ({ c with field := res.1, maxField := res.2.1 }, res.2.2)
      | _, _ => (c, some .oob)
  let stepIndexP (c : Container) : Container × Option Err :=
    match ndataOf b, c.offset.getLast? with
    | .ok (_, nd), some back =>
      let i1 := c.index ++ List.replicate nd 0
      let res := copyGo (fun x => decide (x ≤ lim)) id (ext b.index) id back nd 0 i1 c.maxIndex
      ({ c with index := res.1, maxIndex := res.2.1 }, res.2.2)
    | _, _ => (c, some .oob)
  let stepValueP (c : Container) : Container × Option Err :=
    match b.value with
    | none => (c, none)
    | some vl =>
      match ndataOf b with
      | .ok (_, nd) =>
        let v1 := c.value ++ List.replicate nd 0
        match rdSeg vl 0 nd with
        | .error e => ({ c with value := v1 }, some e)
        | .ok xs =>
          match writeSeg v1 (v1.length - nd) xs with
          | .ok v2 => ({ c with value := v2 }, none)
          | .error e => ({ c with value := v1 }, some e)
      | .error e => (c, some e)
  andThen (andThen (andThen (andThen (andThen (andThen (stepLabel b c) (stepWeight b)) (stepQid b)) stepFieldP)
    stepIndexP) stepValueP) (stepOffset c.label.length b)

end Pinned

/-- the emissions of `"1:2 1:1\n3 1:1\n"` (DESIGN F7): two rows, only the first carries a weight -/
def f7lines : List Line :=
  [{ label := some 0x3f800000, weight := some 0x40000000, qid := none, entries := [{ index := 1, value := some 0x3f800000 }] },
   { label := some 0x40400000, weight := none, qid := none, entries := [{ index := 1, value := some 0x3f800000 }] }]

/-- PINNED: the libsvm parser hands out a block whose weight array is shorter than its rows; reading row 1
through `operator[]` leaves the array.  (C13-F1, fixed by C13-1.) -/
theorem C13_witness_pinned_short_weight :
    (match parseSvm f7lines with
     | .ok c => (match Pinned.getBlock c with
                 | .ok b => some (Sound b, b.size, (ext b.weight).length, b.row 1)
                 | .error _ => none)
     | .error _ => none) = some (false, 2, 1, .error .oob) := by decide

/-- REPAIRED: the same input makes the parser raise dmlc::Error -/
theorem C13_witness_fixed_short_weight :
    (match parseSvm f7lines with
     | .ok c => handOut c
     | .error e => .error e) = .error .check := by decide

/-- PINNED: pushing the slice [1,3) copies the entries of rows 0,1 (positions 0..) under the labels of rows 1,2
(C13-F2, fixed by C13-2); compare `C13_witness_slice_push`. -/
theorem C13_witness_pinned_slice_push :
    (match b3.slice 1 3 with
     | .ok s => (match getBlock (Pinned.pushBlock lim32 Container.empty s).1 with
                 | .ok v => v.rows
                 | .error e => .error e)
     | .error e => .error e) =
    .ok [{ label := some 11, weight := some 21, qid := none, field := some [1], index := [5], value := some [30] },
         { label := some 12, weight := some 22, qid := none, field := some [], index := [], value := some [] }] := by
  decide

/-- PINNED: a block with `field` pushed into a container that has entries but no `field` writes `field` at
`offset.back()`, i.e. outside the array (heap overflow under ASan) -/
theorem C13_witness_pinned_field_oob :
    (Pinned.pushBlock lim32 (pushBlock lim32 Container.empty { b3 with field := none }).1 b3).2 = some .oob := by
  decide

-- (c) ------------------------------------------------------------------------------------------
/-- open class `mixed-presence-push`: `Push(Row)` stores a weight, the following block has none; the pair is
not `Compatible`, and the repaired container refuses to hand out a block (dmlc::Error) -/
theorem C13_witness_mixed_presence :
    Compatible (pushRow lim32 Container.empty r1).1 b3nw = false ∧
    (pushBlock lim32 (pushRow lim32 Container.empty r1).1 b3nw).2 = none ∧
    getBlock (pushBlock lim32 (pushRow lim32 Container.empty r1).1 b3nw).1 = .error .check := by decide

/-- **The full statement of the property for `Push(RowBlock)`** -- no `Compatible` hypothesis: every sound block
pushed into every container satisfying the invariant is appended row by row.  It is FALSE of the code (pinned
and repaired): `C13_push_block_statement_false`.  `C13_push_block` is the proved part; its extra hypothesis
`Compatible c b` is exactly the complement of the open finding class `mixed-presence-push`. -/
def C13_push_block_statement : Prop :=
  ∀ (lim : Nat) (c : Container) (b : Block), Good c → Sound b = true → FitsLim lim b → b.off0 + b.ndata < 2 ^ 62 →
    c.offset.length + b.size < 2 ^ 62 → c.index.length + b.ndata < 2 ^ 62 →
    ∃ c' bc bc' rc rb rc', pushBlock lim c b = (c', none) ∧ getBlock c = .ok bc ∧ getBlock c' = .ok bc' ∧
      bc.rows = .ok rc ∧ b.rows = .ok rb ∧ bc'.rows = .ok rc' ∧
      rc'.map RowVal.norm = rc.map RowVal.norm ++ rb.map RowVal.norm

theorem C13_push_block_statement_false : ¬ C13_push_block_statement := by
  intro h
  have g : Good (pushRow lim32 Container.empty r1).1 :=
    good_of_getBlock (b := view (pushRow lim32 Container.empty r1).1) (by decide) (by decide) (by decide) (by decide)
  have fit : FitsLim lim32 b3nw := by
    refine ⟨by decide, ?_⟩
    intro l hl; cases hl; decide
  obtain ⟨c', _, bc', _, _, _, e, _, e', _⟩ :=
    h lim32 (pushRow lim32 Container.empty r1).1 b3nw g (by decide) fit (by decide) (by decide) (by decide)
  have hc : c' = (pushBlock lim32 (pushRow lim32 Container.empty r1).1 b3nw).1 := by rw [e]
  rw [hc, C13_witness_mixed_presence.2.2] at e'
  cases e'

end DmlcModel.Props.C13
