/-
C02 — RecordIO streams are self-synchronising; chunk-reader parts tile a chunk.
Property theorems only; helper lemmas live in DmlcModel/RecordIO/{Words,Shape,Resync,ChunkRead,Tiling}.lean.
-/
import DmlcModel.RecordIO.Tiling

namespace DmlcModel.Props.C02
open DmlcModel DmlcModel.RecordIO DmlcModel.Gen.RecordIO

/-- **Magic only in headers (word view).** The word image of every record is `magic, L, T` where `L`
is a length word with flag 0 or 1, and no later position of the image looks like a record head
(`magic` followed by a flag-0/1 length word) whatever bytes follow the record: continuation headers
carry flag 2/3, payload words and padded tails are never the magic word. -/
theorem C02_record_image_shape (r : Bytes) (h : r.length < 2 ^ 29) :
    ∃ L T, toWords (writeRecord r).1 = kMagic :: L :: T
      ∧ headAccept (decodeFlag L) = true ∧ skippable (L :: T) = true :=
  record_shape r h

/-- the magic constant can never be read as a length word with a legal flag -/
theorem C02_lrec_never_magic (f n : Nat) (hf : f < 4) (hn : n < 2 ^ 29) : encodeLRec f n ≠ kMagic :=
  lrec_ne_magic f n hf hn

/-- **Resynchronisation.** Scanning a writer-produced stream from ANY 4-byte-aligned offset with
`FindNextRecordIOHead` lands exactly on the start of the next logical record (the least record
start `≥ o`), or on the end of the stream — never inside a payload. -/
theorem C02_resync (rs : List Bytes) (h : ∀ r ∈ rs, r.length < 2 ^ 29) (o : Nat)
    (ha : o % 4 = 0) (hb : o ≤ (writeAll rs).length) :
    findNextHead (writeAll rs) o = some (nextStart rs 0 o) :=
  findNextHead_writeAll rs h o ha hb

/-- the value `nextStart` is a record boundary: the total image length of a prefix of the records -/
theorem C02_resync_is_record_start (rs : List Bytes) (o : Nat) :
    ∃ m, m ≤ rs.length ∧ nextStart rs 0 o = (writeAll (rs.take m)).length :=
  ⟨startIdx rs 0 o, startIdx_le rs 0 o, by rw [nextStart_eq]; simp⟩

/-- unaligned scan arguments are rejected by the `CHECK_EQ`s -/
theorem C02_scan_unaligned (s : Bytes) (o : Nat) (h : o % 4 ≠ 0) : findNextHead s o = none := by
  unfold findNextHead; simp [h]

/-- one `NextRecord` of the chunk reader positioned at a record start returns that record -/
theorem C02_next_at_record (chunk post r : Bytes) (pb pend : Nat) (hr : r.length < 2 ^ 29)
    (hdrop : chunk.drop pb = (writeRecord r).1 ++ post) (hfit : pb + imageLen r ≤ pend) :
    ChunkReader.next { chunk := chunk, pbegin := pb, pend := pend }
      = CRd.record r { chunk := chunk, pbegin := pb + imageLen r, pend := pend } :=
  next_at_record chunk post r pb pend hr hdrop hfit

/-! ### window arithmetic of the `RecordIOChunkReader` constructor -/

/-- size-fits-the-machine guard under which the constructor's `size_t`/`unsigned` arithmetic does
not wrap -/
def Fits (size n : Nat) : Prop := 1 ≤ n ∧ n + 1 < 2 ^ 32 ∧ (size + 3) * n < 2 ^ 64 ∧ size + n < 2 ^ 64

/-- part boundary `k` (byte offset), as computed by the constructor -/
def bound (size n k : Nat) : Nat := crBegin size (crStepAlign (crStepRaw size n)) k

theorem nstep_facts (size n : Nat) (hf : Fits size n) :
    crStepAlign (crStepRaw size n) % 4 = 0 ∧ size ≤ crStepAlign (crStepRaw size n) * n
      ∧ crStepAlign (crStepRaw size n) ≤ size + 3 := by
  obtain ⟨h1, h2, h3, h4⟩ := hf
  have hraw : crStepRaw size n = (size + n - 1) / n := by
    unfold crStepRaw sub64 u64; rw [Nat.mod_eq_of_lt h4]
    have : (size + n + 18446744073709551616 - 1 % 18446744073709551616) % 18446744073709551616 = size + n - 1 := by
      omega
    rw [this]
  have hq := Nat.div_add_mod (size + n - 1) n
  have hm := Nat.mod_lt (size + n - 1) (by omega : n > 0)
  have hqle : (size + n - 1) / n ≤ size := by
    by_cases hs : size = 0
    · subst hs; rw [Nat.zero_add]; rw [Nat.div_eq_of_lt (by omega)]; omega
    · apply Nat.div_le_of_le_mul
      obtain ⟨s', rfl⟩ : ∃ s', size = s' + 1 := ⟨size - 1, by omega⟩
      have e1 : n * (s' + 1) = n * s' + n := Nat.mul_succ n s'
      have e2 : s' ≤ n * s' := Nat.le_mul_of_pos_left s' (by omega)
      omega
  have halign : crStepAlign (crStepRaw size n) = ((size + n - 1) / n + 3) / 4 * 4 := by
    unfold crStepAlign u64; rw [hraw, Nat.shiftRight_eq_div_pow, Nat.shiftLeft_eq]
    have h7 : size + 3 ≤ (size + 3) * n := Nat.le_mul_of_pos_right _ (by omega)
    have : (size + n - 1) / n + 3 < 18446744073709551616 := by omega
    rw [Nat.mod_eq_of_lt this]
    apply Nat.mod_eq_of_lt; omega
  rw [halign]
  refine ⟨by omega, ?_, by omega⟩
  have hge : (size + n - 1) / n ≤ ((size + n - 1) / n + 3) / 4 * 4 := by omega
  have h5 : (size + n - 1) / n * n ≤ ((size + n - 1) / n + 3) / 4 * 4 * n := Nat.mul_le_mul_right n hge
  have h6 : n * ((size + n - 1) / n) = (size + n - 1) / n * n := Nat.mul_comm _ _
  omega

theorem bound_facts (size n : Nat) (hs4 : size % 4 = 0) (hf : Fits size n) :
    (∀ k, k ≤ n → bound size n k % 4 = 0 ∧ bound size n k ≤ size)
    ∧ bound size n 0 = 0 ∧ bound size n n = size
    ∧ (∀ k, k < n → bound size n k ≤ bound size n (k + 1))
    ∧ (∀ k, k < n → crEnd size (crStepAlign (crStepRaw size n)) k = bound size n (k + 1)) := by
  obtain ⟨hn4, hcov, hle⟩ := nstep_facts size n hf
  obtain ⟨h1, h2, h3, h4⟩ := hf
  simp only [bound]
  generalize crStepAlign (crStepRaw size n) = ns at *
  have hmul : ∀ k, k ≤ n → ns * k < 2 ^ 64 := by
    intro k hk
    have : ns * k ≤ (size + 3) * n := Nat.mul_le_mul hle hk
    omega
  have hb : ∀ k, k ≤ n → crBegin size ns k = min size (ns * k) := by
    intro k hk
    unfold crBegin u64; rw [Nat.mod_eq_of_lt (hmul k hk)]
  refine ⟨?_, ?_, ?_, ?_, ?_⟩
  · intro k hk
    rw [hb k hk]
    have : ns * k % 4 = 0 := by
      rw [Nat.mul_mod, hn4]; simp
    constructor
    · by_cases hc : size ≤ ns * k
      · rw [Nat.min_eq_left hc]; exact hs4
      · rw [Nat.min_eq_right (by omega)]; exact this
    · exact Nat.min_le_left _ _
  · rw [hb 0 (by omega)]; simp
  · rw [hb n (Nat.le_refl n)]; exact Nat.min_eq_left hcov
  · intro k hk
    rw [hb k (by omega), hb (k + 1) (by omega)]
    have : ns * k ≤ ns * (k + 1) := Nat.mul_le_mul_left ns (by omega)
    by_cases hc : size ≤ ns * k
    · rw [Nat.min_eq_left hc, Nat.min_eq_left (by omega)]; exact Nat.le_refl _
    · rw [Nat.min_eq_right (by omega)]
      exact Nat.le_min.mpr ⟨by omega, this⟩
  · intro k hk
    rw [hb (k + 1) (by omega)]
    unfold crEnd u64 u32
    have : (k + 1) % 4294967296 = k + 1 := Nat.mod_eq_of_lt (by omega)
    rw [this, Nat.mod_eq_of_lt (hmul (k + 1) (by omega))]

/-- the records part `k` of `n` returns: those whose start lies in `[bound k, bound (k+1))` -/
def partSlice (rs : List Bytes) (n k : Nat) : List Bytes :=
  let size := (writeAll rs).length
  (rs.drop (startIdx rs 0 (bound size n k))).take
    (startIdx rs 0 (bound size n (k + 1)) - startIdx rs 0 (bound size n k))

theorem writeAll_len4 (rs : List Bytes) (h : ∀ r ∈ rs, r.length < 2 ^ 29) : (writeAll rs).length % 4 = 0 := by
  induction rs with
  | nil => rfl
  | cons r rs ih =>
    have h1 := imageLen_eq r (h r (by simp))
    have h2 := ih (fun x hx => h x (by simp [hx]))
    simp only [writeAll, List.length_append]; unfold imageLen at h1; omega

/-- **Each part returns a run of complete records**: part `k` of `n` over a chunk made of whole
records yields exactly the records that start inside its window, no `CHECK` fires. -/
theorem C02_part (rs : List Bytes) (h : ∀ r ∈ rs, r.length < 2 ^ 29) (n k : Nat)
    (hf : Fits (writeAll rs).length n) (hk : k < n) :
    chunkPart (writeAll rs) k n = some (partSlice rs n k) := by
  obtain ⟨hb, _, _, hmono, hend⟩ := bound_facts (writeAll rs).length n (writeAll_len4 rs h) hf
  have h1 := hb k (by omega)
  have h2 := hb (k + 1) (by omega)
  unfold chunkPart ChunkReader.init
  simp only [hend k hk]
  have hbk : crBegin (writeAll rs).length (crStepAlign (crStepRaw (writeAll rs).length n)) k
      = bound (writeAll rs).length n k := rfl
  rw [hbk]
  rw [findNextHead_writeAll rs h _ h1.1 h1.2, findNextHead_writeAll rs h _ h2.1 h2.2]
  exact part_records' rs h _ _ h1.1 h2.1 (hmono k hk) h2.2

/-- record index of boundary `k` (clamped at `n`) -/
def bIdx (rs : List Bytes) (n k : Nat) : Nat :=
  startIdx rs 0 (bound (writeAll rs).length n (min k n))

theorem bIdx_mono (rs : List Bytes) (h : ∀ r ∈ rs, r.length < 2 ^ 29) (n : Nat)
    (hf : Fits (writeAll rs).length n) (k : Nat) : bIdx rs n k ≤ bIdx rs n (k + 1) := by
  obtain ⟨_, _, _, hmono, _⟩ := bound_facts (writeAll rs).length n (writeAll_len4 rs h) hf
  unfold bIdx
  by_cases hk : k < n
  · rw [Nat.min_eq_left (Nat.le_of_lt hk), Nat.min_eq_left hk]
    exact startIdx_mono rs 0 _ _ (hmono k hk)
  · rw [Nat.min_eq_right (Nat.le_of_not_lt hk), Nat.min_eq_right (Nat.le_succ_of_le (Nat.le_of_not_lt hk))]
    exact Nat.le_refl _

theorem bIdx_zero (rs : List Bytes) (h : ∀ r ∈ rs, r.length < 2 ^ 29) (n : Nat)
    (hf : Fits (writeAll rs).length n) : bIdx rs n 0 = 0 := by
  obtain ⟨_, h0, _, _, _⟩ := bound_facts (writeAll rs).length n (writeAll_len4 rs h) hf
  unfold bIdx
  rw [Nat.min_eq_left (Nat.zero_le n), h0]
  cases rs <;> simp [startIdx]

theorem bIdx_last (rs : List Bytes) (h : ∀ r ∈ rs, r.length < 2 ^ 29) (n : Nat)
    (hf : Fits (writeAll rs).length n) : bIdx rs n n = rs.length := by
  obtain ⟨_, _, hn, _, _⟩ := bound_facts (writeAll rs).length n (writeAll_len4 rs h) hf
  unfold bIdx
  rw [Nat.min_self, hn]
  have := startIdx_end rs h 0
  rw [Nat.zero_add] at this
  exact this

theorem partSlice_eq (rs : List Bytes) (n k : Nat) (hk : k < n) :
    partSlice rs n k = (rs.drop (bIdx rs n k)).take (bIdx rs n (k + 1) - bIdx rs n k) := by
  unfold partSlice bIdx
  rw [Nat.min_eq_left (Nat.le_of_lt hk), Nat.min_eq_left hk]

theorem flatMap_partSlice (rs : List Bytes) (n : Nat) :
    ∀ (m : Nat), m ≤ n → (List.range m).flatMap (partSlice rs n)
      = (List.range m).flatMap (fun k => (rs.drop (bIdx rs n k)).take (bIdx rs n (k + 1) - bIdx rs n k)) := by
  intro m hm
  induction m with
  | zero => simp only [List.range_zero, List.flatMap_nil]
  | succ m ih =>
    rw [List.range_succ, List.flatMap_append, List.flatMap_append, ih (Nat.le_of_succ_le hm)]
    simp only [List.flatMap_cons, List.flatMap_nil, List.append_nil]
    rw [partSlice_eq rs n m hm]

theorem flatMap_partSlice_all (rs : List Bytes) (h : ∀ r ∈ rs, r.length < 2 ^ 29) (n : Nat)
    (hf : Fits (writeAll rs).length n) : (List.range n).flatMap (partSlice rs n) = rs := by
  have hslices := flatMap_slices rs (bIdx rs n) (bIdx_mono rs h n hf) n
  rw [bIdx_zero rs h n hf, bIdx_last rs h n hf] at hslices
  rw [flatMap_partSlice rs n n (Nat.le_refl n), hslices]
  simp

/-- **Tiling.** For every chunk made of whole records and every `num_parts = n ≥ 1`, the parts
`0 … n-1` of `RecordIOChunkReader` return disjoint consecutive runs of complete records whose
concatenation is exactly the chunk's records, in order. -/
theorem C02_tiling (rs : List Bytes) (h : ∀ r ∈ rs, r.length < 2 ^ 29) (n : Nat)
    (hf : Fits (writeAll rs).length n) :
    (∀ k, k < n → chunkPart (writeAll rs) k n = some (partSlice rs n k))
    ∧ (List.range n).flatMap (partSlice rs n) = rs :=
  ⟨fun k hk => C02_part rs h n k hf hk, flatMap_partSlice_all rs h n hf⟩

end DmlcModel.Props.C02
