import DmlcModel.TIter.Measure
/-! the progress measure decreases: events xStep (generated layout, hand-written tactic) -/
namespace DmlcModel.TIter
open DmlcModel.Gen.TIter
set_option maxHeartbeats 2000000
set_option linter.unusedSimpArgs false
set_option linter.unusedVariables false

theorem mu_xStep {rk : Bool} {P : Params} {s s' : State} (hA : InvA s) (h : InvF P s)
    (hs : stepR rk P s .xStep = some s') : MuLt P s' s := by
  obtain ⟨a1, a2, a3, a4, a5, a6, a7, a8, a9, a10, a11, a12, a13, a14, a15, a16, a17, a18, a19, a20, a21, a22, a23, a24, a25, a26, a27, a28, a29, a30, a31⟩ := hA
  obtain ⟨f1⟩ := h
  simp only [kProduce, kBeforeFirst, kDestroy] at *
  cases hpe : s.produceEnd <;> open_step <;>
    (try simp only [Bool.not_eq_true, pPred_iff, pPred_false_iff, kProduce, kBeforeFirst, kDestroy] at *) <;>
    simp only [MuLt, Lt5, mK, mI, mY, mC, hpe, Bool.false_eq_true, if_false, if_true, List.length_append, List.length_map,
      optList_length, List.length_nil, List.length_cons] <;> grind [mP, xY, xC, kX, oX, busy, pWaiting]

end DmlcModel.TIter
