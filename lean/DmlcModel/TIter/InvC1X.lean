import DmlcModel.TIter.InvC
/-! Invariant group C1 (history of the pass: order, positions, source) -- preservation, events: xStep (generated layout, hand-written tactic) -/
namespace DmlcModel.TIter
open DmlcModel.Gen.TIter
set_option maxHeartbeats 2000000
set_option linter.unusedSimpArgs false
set_option linter.unusedVariables false

theorem invC1_xStep {rk : Bool} {P : Params} {s s' : State} (hA : InvA s) (h : InvC1 P s)
    (hs : stepR rk P s .xStep = some s') : InvC1 P s' := by
  obtain ⟨a1, a2, a3, a4, a5, a6, a7, a8, a9, a10, a11, a12, a13, a14, a15, a16, a17, a18, a19, a20, a21, a22, a23, a24, a25, a26, a27, a28, a29, a30, a31⟩ := hA
  obtain ⟨c1, c2, c3⟩ := h
  simp only [qitems] at c1
  open_step <;> constructor <;>
    (try simp only [qitems, optList, List.map_append, List.map_cons, List.map_nil, List.append_assoc, List.append_nil,
      List.nil_append, List.range_succ, List.range_zero, List.mem_append, List.mem_cons, List.not_mem_nil, List.cons_append,
      List.singleton_append] at *) <;>
    grind [optList]

end DmlcModel.TIter
