import DmlcModel.TIter.InvD
import DmlcModel.TIter.InvDP
import DmlcModel.TIter.InvDX
import DmlcModel.TIter.InvDN
import DmlcModel.TIter.InvDC
/-! Invariant group D (no lost wake-up; needs the repaired BeforeFirst or a producer that has not failed) -- preservation by every transition -/
namespace DmlcModel.TIter
open DmlcModel.Gen.TIter

theorem invD_step {rk : Bool} {P : Params} {s s' : State} {e : Event} (hx : rk = true ∨ s.exc = false) (hA : InvA s) (h : InvD P s)
    (hs : stepR rk P s e = some s') : InvD P s' := by
  cases e with
  | prod => exact invD_prod hx hA h hs
  | prodSpur => exact invD_prodSpur hx hA h hs
  | nStart b => exact invD_nStart hx hA h hs
  | nLoadSig => exact invD_nLoadSig hx hA h hs
  | nExc => exact invD_nExc hx hA h hs
  | nLock => exact invD_nLock hx hA h hs
  | nRelock => exact invD_nRelock hx hA h hs
  | nNotify => exact invD_nNotify hx hA h hs
  | nRetItem => exact invD_nRetItem hx hA h hs
  | nRetEnd => exact invD_nRetEnd hx hA h hs
  | nSpur => exact invD_nSpur hx hA h hs
  | rStart c => exact invD_rStart hx hA h hs
  | rStartOut => exact invD_rStartOut hx hA h hs
  | rExc c => exact invD_rExc hx hA h hs
  | rLock c => exact invD_rLock hx hA h hs
  | rNotify => exact invD_rNotify hx hA h hs
  | rRet => exact invD_rRet hx hA h hs
  | bStart => exact invD_bStart hx hA h hs
  | dStart => exact invD_dStart hx hA h hs
  | xStep => exact invD_xStep hx hA h hs
  | xSpur => exact invD_xSpur hx hA h hs

end DmlcModel.TIter
