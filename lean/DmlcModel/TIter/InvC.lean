import DmlcModel.TIter.InvA
/-!
Group C of the invariant: the history of the current pass.
`InvC1`: delivered ++ queued ++ in-flight = produced, in production order; the i-th produced item is what the
source script yields at position i of the current pass.
`InvC2`: the end flag, the `Next returns false` location and the failure flags.
-/
namespace DmlcModel.TIter
open DmlcModel.Gen.TIter

structure InvC1 (P : Params) (s : State) : Prop where
  order : s.delivered ++ qitems s ++ optList s.pitem = s.produced
  idx : s.produced.map (·.idx) = List.range s.pidx
  src : ∀ it, it ∈ s.produced → it.pass = s.pass ∧ P.src s.pass it.idx = .item it.val

structure InvC2 (P : Params) (s : State) : Prop where
  srcEnd : s.srcEnded = true → P.src s.pass s.pidx = .fin ∧ s.pitem = none
  pe : s.produceEnd = true → s.srcEnded = true ∨ s.thrown = true ∨ s.sig = kDestroy
  n6 : 0 < s.n6 → (s.thrown = true ∧ s.exc = true) ∨
        (s.thrown = false ∧ s.srcEnded = true ∧ s.queue = [] ∧ s.pitem = none)
  thr : s.thrown = true → s.exc = true ∨ (s.ploc = .catchRec ∧ (s.produceEnd = false ∨ s.sig = kBeforeFirst))
  why : s.thrown = true → (∃ p i, P.src p i = .throw) ∨ (∃ p, P.rew p = .throw)

theorem invC1_init (P : Params) : InvC1 P init := by
  constructor <;> simp [init, qitems, optList]

theorem invC2_init (P : Params) : InvC2 P init := by
  constructor <;> simp [init]

end DmlcModel.TIter
