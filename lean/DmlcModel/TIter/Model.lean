import DmlcModel.Gen.TIter
/-!
# ThreadedIter as a transition system (C07, C08, C09)   -- core Lean only

Source: `include/dmlc/threadediter.h`.  Conventions of DESIGN.md section 2 "Concurrency".

* One transition = what one thread does from one *visible* synchronisation operation up to (not
  including) its next visible one.  Visible: acquiring `mutex_` / `mutex_exception_` (the whole critical
  section, including a `notify` issued and a `cv.wait` entered while the mutex is held, is the same
  transition), re-acquiring `mutex_` after a wake-up, a `notify` issued without the mutex, an atomic
  access made without `mutex_` (`producer_sig_.load` at the top of `Next`, `produce_end_.store` after the
  produce callback), the produce callback itself, `join`, and the client's decision to start a call.
  (Sound because no thread holds a mutex between two transitions; the atomics read inside a critical
  section are written outside `mutex_` only by `produce_end_.store`, issued while `nwait_producer_ = 0`, so
  the interleavings inside a critical section are equivalent to one of the two orders.  The harness
  additionally runs the oracles under schedules that preempt at *every* shim operation.)
* Condition variables: wait sets; `notify_one` wakes one arbitrary waiter, `notify_all` all; a spurious
  wake-up is an event of its own.  A woken thread still has to re-acquire the mutex (`woken` locations).
* The producer is one thread (`ploc`).  Consumer threads running the thread-safe calls `Next(DType**)` /
  `Recycle` are interchangeable and are *counted* per program location (`n0 … n6`, `r0 … r3`).  The calls
  the documentation declares not thread-safe (`BeforeFirst`, `Destroy`, `Next()`/`Value()`) run on one
  "exclusive" caller: `xloc` for `BeforeFirst`/`Destroy`; `Next()` is `Recycle(&out_data_)` followed by
  `Next(&out_data_)`, i.e. the same locations with `outCall = true`.
* Most general client: every `…Start` event is enabled whenever the documented contract allows the call.
* The data source is an arbitrary script `src pass idx`, `rew pass`.
* Ghost history: `produced delivered pass pidx srcEnded thrown allocated maxLent lost freed rewCalls
  bfPosted bfPass ret`.  `produced`/`delivered`/`pidx`/`srcEnded` are the history of the *current pass* (reset
  when the pass is abandoned and its queued items are dropped: rewind, failure during a pending rewind, Destroy).
* DCHECKs are not transitions: they are compiled out in the configuration the correspondence runs in.  The one
  that matters, `DCHECK(producer_sig_ != kDestroy)` at the top of the catch block, is finding C09-F2 (it throws out
  of the producer thread when a failure races with Destroy); `Gen.TIter.catchDcheck` records whether the source still
  has it, `Props.C09.C09_fix2_present` requires that it does not, and the harness runs the DCHECK-live
  instantiation of the header against the oracles.
* A cell the producer holds when its callback throws is leaked by the C++ (`cell` is a local raw pointer): ghost
  list `lost`.
* `rk` = "BeforeFirst re-checks the recorded exception once it holds `mutex_`" (`Gen.TIter.bfRecheck`, read
  from the source: false for the pinned code, true with fixes/C09-1.diff).
-/
namespace DmlcModel.TIter
open DmlcModel.Gen.TIter

inductive SrcRes where
  | item (v : Nat)
  | fin
  | throw
  deriving DecidableEq, Repr

inductive RewRes where
  | ok
  | throw
  deriving DecidableEq, Repr

structure Item where
  pass : Nat
  idx : Nat
  val : Nat
  deriving DecidableEq, Repr

structure Params where
  src : Nat → Nat → SrcRes
  rew : Nat → RewRes
  cap : Nat

/-- program location of the producer thread (lines of `producer_fun`) -/
inductive PLoc where
  | top         -- about to lock `mutex_` at the top of the loop (:337)
  | waitSet     -- inside `producer_cond_.wait`, in the wait set (:339)
  | woken       -- left the wait set, has to re-acquire `mutex_`
  | call        -- inside the produce callback, no lock (:381)
  | store       -- callback returned; about to `produce_end_.store` (:381)
  | publish     -- about to lock for the publish section (:386)
  | notifyTop   -- about to `consumer_cond_.notify_all`, then `continue` (:368, :398)
  | notifyExit  -- about to `consumer_cond_.notify_all`, then `return` (:376, :420, :426)
  | catchRec    -- in the catch block, about to lock `mutex_exception_` (:404)
  | catchLock   -- in the catch block, about to lock `mutex_` (:411)
  | exited
  deriving DecidableEq, Repr

/-- program location of the exclusive caller (`BeforeFirst` :207-235, `Destroy` :282-312) -/
inductive XLoc where
  | idle
  | bExc0    -- first ThrowExceptionIfSet (:208)
  | bLock    -- about to lock `mutex_` (:209)
  | bWait    -- in the wait set of `consumer_cond_` (:225)
  | bWoken   -- woken, has to re-acquire
  | bNotify  -- about to `producer_cond_.notify_one` (:232)
  | bExc1    -- last ThrowExceptionIfSet (:234)
  | dLock    -- about to lock `mutex_` (:286)
  | dJoin    -- `producer_thread_.reset` = join (:293)
  deriving DecidableEq, Repr

/-- what the call that ended in the last transition returned -/
inductive Ret where
  | none
  | nextItem        -- Next returned true
  | nextEnd         -- Next returned false after the wait (:466)
  | nextDestroyed   -- Next returned false at :440
  | ok              -- Recycle / BeforeFirst / Destroy returned
  | err             -- dmlc::Error from ThrowExceptionIfSet
  | errCheck        -- dmlc::Error from a CHECK
  deriving DecidableEq, Repr

structure State where
  -- the object
  sig : Nat := kProduce
  processed : Bool := false
  produceEnd : Bool := false
  queue : List (Nat × Item) := []
  free : List Nat := []
  nwaitC : Nat := 0
  nwaitP : Nat := 0
  exc : Bool := false
  outData : Option (Nat × Item) := none
  joined : Bool := false            -- producer_thread_ == nullptr
  -- producer thread
  ploc : PLoc := .top
  pcell : Option Nat := none        -- `cell`
  pitem : Option Item := none       -- the item the callback wrote into `cell` (in flight)
  pres : Bool := false              -- what the callback returned
  -- consumers inside Next(DType**)
  n0 : Nat := 0   -- about to load producer_sig_ (:439)
  n1 : Nat := 0   -- ThrowExceptionIfSet (:442)
  n2 : Nat := 0   -- about to lock (:443)
  nW : Nat := 0   -- in the wait set of consumer_cond_ (:447)
  nK : Nat := 0   -- woken, has to re-acquire
  n4 : Nat := 0   -- about to notify_one the producer (:456)
  n5 : Nat := 0   -- ThrowExceptionIfSet, then return true (:459)
  n6 : Nat := 0   -- ThrowExceptionIfSet, then return false (:465)
  -- consumers inside Recycle
  r0 : Nat := 0   -- ThrowExceptionIfSet (:473)
  r1 : Nat := 0   -- about to lock (:475)
  r2 : Nat := 0   -- about to notify_one (:481)
  r3 : Nat := 0   -- ThrowExceptionIfSet (:483)
  outCall : Bool := false           -- the (only) call in progress belongs to Next(): works on out_data_
  xloc : XLoc := .idle
  -- cells held by consumers
  lent : List Nat := []
  recycling : List Nat := []        -- handed to a Recycle call that has not pushed it yet
  -- ghost
  produced : List Item := []
  delivered : List Item := []
  pass : Nat := 0
  pidx : Nat := 0
  srcEnded : Bool := false
  thrown : Bool := false
  allocated : Nat := 0
  maxLent : Nat := 0
  lost : List Nat := []             -- cell the producer held when its callback threw (never freed)
  freed : List Nat := []            -- deleted by Destroy
  rewCalls : Nat := 0
  bfPosted : Nat := 0
  bfPass : Nat := 0
  ret : Ret := .none
  ub : Bool := false                -- a branch the C++ cannot take without undefined behaviour

inductive Event where
  | prod                    -- the producer thread's next transition
  | prodSpur                -- spurious wake-up of the producer
  | nStart (toOut : Bool)   -- a consumer starts Next(DType**)  (toOut: as the second half of Next())
  | nLoadSig | nExc | nLock | nRelock | nNotify | nRetItem | nRetEnd
  | nSpur                   -- spurious wake-up of a consumer waiting in Next
  | rStart (c : Nat)        -- a consumer starts Recycle of a cell it holds
  | rStartOut               -- first half of Next(): Recycle(&out_data_)
  | rExc (c : Nat) | rLock (c : Nat) | rNotify | rRet
  | bStart                  -- BeforeFirst
  | dStart                  -- Destroy
  | xStep                   -- the exclusive caller's next transition
  | xSpur                   -- spurious wake-up of the BeforeFirst waiter
  deriving DecidableEq, Repr

def Event.isSpurious : Event → Bool
  | .prodSpur | .nSpur | .xSpur => true
  | _ => false

def Event.isStart : Event → Bool
  | .nStart _ | .rStart _ | .rStartOut | .bStart | .dStart => true
  | _ => false

def optCode : Option Nat → Nat
  | none => 0
  | some c => c + 1

def outCode (o : Option (Nat × Item)) : Nat := optCode (o.map (·.1))

def optList {α : Type} : Option α → List α
  | none => []
  | some a => [a]

def qcells (s : State) : List Nat := s.queue.map (·.1)
def qitems (s : State) : List Item := s.queue.map (·.2)

/-- number of consumer calls in progress -/
def busy (s : State) : Nat :=
  s.n0 + s.n1 + s.n2 + s.nW + s.nK + s.n4 + s.n5 + s.n6 + s.r0 + s.r1 + s.r2 + s.r3

/-- cells in the hands of consumers -/
def lentish (s : State) : Nat := s.lent.length + s.recycling.length + (optList s.outData).length

/-- every cell ever allocated is in exactly one of these places -/
def cells (s : State) : List Nat :=
  qcells s ++ s.free ++ optList s.pcell ++ s.lent ++ s.recycling ++ (optList s.outData).map (·.1)
    ++ s.lost ++ s.freed

def endCall (s : State) (r : Ret) : State := { s with ret := r, outCall := false }

def wokenLoc : PLoc → PLoc
  | .waitSet => .woken
  | l => l

/-- `producer_cond_.notify_one()` (the producer is the only thread that ever waits on it) -/
def wakeProducer (s : State) : State := { s with ploc := wokenLoc s.ploc }

/-- `consumer_cond_.notify_all()` -/
def wakeConsumers (s : State) : State :=
  { s with nK := s.nK + s.nW, nW := 0, xloc := match s.xloc with | .bWait => .bWoken | x => x }

/-- the producer's wait predicate (:339-347) -/
def pPred (P : Params) (s : State) : Bool :=
  if pWaitIsProduce s.sig then pWaitProduce s.produceEnd s.queue.length P.cap s.free.length else pWaitOther

/-- :348-378, after the wait returned and `--nwait_producer_` -/
def pEnter (P : Params) (s : State) : State :=
  if pTakeIsProduce s.sig then
    if pTakeHasFree s.free.length then
      match s.free with
      | c :: f => { s with ploc := .call, pcell := some c, free := f }
      | [] => { s with ub := true }
    else { s with ploc := .call, pcell := none }
  else if pTakeIsRewind s.sig then
    match P.rew s.pass with
    | .ok =>
      { s with free := s.free ++ qcells s, queue := [], produceEnd := false, processed := true, sig := kProduce,
               ploc := .notifyTop,
               pass := s.pass + 1, pidx := 0, produced := [], delivered := [], srcEnded := false,
               rewCalls := s.rewCalls + 1 }
    | .throw => { s with ploc := .catchRec, thrown := true, rewCalls := s.rewCalls + 1 }
  else
    { s with processed := true, produceEnd := true, ploc := .notifyExit }

/-- the produce callback (:381, `next(&cell)`) -/
def pCallback (P : Params) (s : State) : State :=
  match P.src s.pass s.pidx with
  | .item v =>
    let it : Item := ⟨s.pass, s.pidx, v⟩
    let s1 := { s with ploc := .store, pres := true, pitem := some it, produced := s.produced ++ [it], pidx := s.pidx + 1 }
    match s.pcell with
    | some _ => s1
    | none => { s1 with pcell := some s.allocated, allocated := s.allocated + 1 }
  | .fin => { s with ploc := .store, pres := false, srcEnded := true }
  | .throw => { s with ploc := .catchRec, thrown := true, pcell := none, lost := optList s.pcell ++ s.lost }

/-- the publish section (:384-396) -/
def pPublish (s : State) : State :=
  let s1 :=
    if pPublishIsItem s.produceEnd then
      match s.pcell, s.pitem with
      | some c, some it => { s with queue := s.queue ++ [(c, it)], pcell := none, pitem := none }
      | _, _ => { s with ub := true }
    else if pPublishHasCell (optCode s.pcell) then
      match s.pcell with
      | some c => { s with free := s.free ++ [c], pcell := none }
      | none => { s with ub := true }
    else s
  { s1 with ploc := if pPublishNotify s.nwaitC then .notifyTop else .top }

/-- the critical section of the catch block (:410-429) -/
def pCatch (s : State) : State :=
  if cIsRewind s.sig then
    { s with free := s.free ++ qcells s, queue := [], produceEnd := true, processed := true, ploc := .notifyExit,
             produced := [], delivered := [], pidx := 0, srcEnded := false }
  else if cIsProduce s.sig then
    if cNotify s.nwaitC then { s with produceEnd := true, ploc := .notifyExit }
    else { s with produceEnd := true, ploc := .exited }
  else { s with ploc := .exited }

def prodStep (P : Params) (s : State) : Option State :=
  match s.ploc with
  | .top =>
    if pPred P s then some (pEnter P s) else some { s with nwaitP := s.nwaitP + 1, ploc := .waitSet }
  | .waitSet => none
  | .woken =>
    if pPred P s then some (pEnter P { s with nwaitP := s.nwaitP - 1 }) else some { s with ploc := .waitSet }
  | .call => some (pCallback P s)
  | .store => some { s with produceEnd := pStoreEnd s.pres, ploc := .publish }
  | .publish => some (pPublish s)
  | .notifyTop => some { wakeConsumers s with ploc := .top }
  | .notifyExit => some { wakeConsumers s with ploc := .exited }
  | .catchRec => some { s with exc := true, ploc := .catchLock }
  | .catchLock => some (pCatch s)
  | .exited => none

/-- :449-467, after the wait returned and `--nwait_consumer_` -/
def nTake (s : State) : State :=
  if nHasItem s.queue.length then
    match s.queue with
    | (c, it) :: q =>
      let s2 : State :=
        if s.outCall then { s with queue := q, delivered := s.delivered ++ [it], outData := some (c, it) }
        else { s with queue := q, delivered := s.delivered ++ [it], lent := c :: s.lent }
      let s3 := { s2 with maxLent := max s.maxLent (lentish s2) }
      if nNotify s.nwaitP s.produceEnd then { s3 with n4 := s.n4 + 1 } else { s3 with n5 := s.n5 + 1 }
    | [] => { s with ub := true }
  else if nEndCheck s.produceEnd then { s with n6 := s.n6 + 1 }
  else endCall s .errCheck

/-- :227-234 of BeforeFirst, after the wait returned -/
def bAfter (s : State) : State :=
  { s with processed := false, xloc := if bNotify s.nwaitP s.produceEnd then .bNotify else .bExc1 }

/-- :210-213 of BeforeFirst: the cell of the Next()/Value() interface goes back to the free list -/
def bOut (s : State) : State :=
  { s with free := if bHasOut (outCode s.outData) then s.free ++ (optList s.outData).map (·.1) else s.free,
           outData := if bHasOut (outCode s.outData) then none else s.outData }

/-- Destroy's clean-up (:297-311) -/
def cleanup (s : State) : State :=
  { s with freed := s.freed ++ s.free ++ qcells s ++ (optList s.outData).map (·.1), free := [], queue := [],
           outData := none, produced := [], delivered := [], pidx := 0, srcEnded := false }

def xStep (rk : Bool) (s : State) : Option State :=
  match s.xloc with
  | .idle => none
  | .bExc0 => some (if s.exc then { s with xloc := .idle, ret := .err } else { s with xloc := .bLock })
  | .bLock =>
    if rk && s.exc then some { s with xloc := .idle, ret := .err }
    else if bIsDestroyed s.sig then some { bOut s with xloc := .idle, ret := .ok }
    else if !bProcCheck s.processed then
      some { bOut s with sig := kBeforeFirst, bfPosted := s.bfPosted + 1, xloc := .idle, ret := .errCheck }
    else
      let s3 : State :=
        { bOut s with sig := kBeforeFirst, bfPosted := s.bfPosted + 1,
                      ploc := if bPostNotify s.nwaitP then wokenLoc s.ploc else s.ploc }
      if bWaitPred s.processed then some (bAfter s3) else some { s3 with xloc := .bWait }
  | .bWait => none
  | .bWoken => if bWaitPred s.processed then some (bAfter s) else some { s with xloc := .bWait }
  | .bNotify => some { wakeProducer s with xloc := .bExc1 }
  | .bExc1 => some { s with xloc := .idle, ret := if s.exc then .err else .ok }
  | .dLock =>
    some { s with sig := kDestroy, ploc := if dNotify s.nwaitP then wokenLoc s.ploc else s.ploc, xloc := .dJoin }
  | .dJoin =>
    match s.ploc with
    | .exited => some { cleanup { s with joined := true } with xloc := .idle, ret := .ok }
    | _ => none

/-- :478-482 of Recycle -/
def rAfter (s : State) : State :=
  if rNotify s.nwaitP s.produceEnd then { s with r2 := s.r2 + 1 } else { s with r3 := s.r3 + 1 }

/-- the transition relation; `ret` is reset first -/
def stepR (rk : Bool) (P : Params) (s0 : State) (e : Event) : Option State :=
  let s := { s0 with ret := .none }
  match e with
  | .prod => prodStep P s
  | .prodSpur =>
    match s.ploc with
    | .waitSet => some { s with ploc := .woken }
    | _ => none
  | .nStart toOut =>
    if s.xloc = .idle ∧ s.outCall = false ∧ (toOut = true → busy s = 0 ∧ s.outData = none) then
      some { s with n0 := s.n0 + 1, outCall := toOut }
    else none
  | .nLoadSig =>
    if 0 < s.n0 then
      let s1 := { s with n0 := s.n0 - 1 }
      some (if nIsDestroyed s.sig then endCall s1 .nextDestroyed else { s1 with n1 := s.n1 + 1 })
    else none
  | .nExc =>
    if 0 < s.n1 then
      let s1 := { s with n1 := s.n1 - 1 }
      some (if s.exc then endCall s1 .err else { s1 with n2 := s.n2 + 1 })
    else none
  | .nLock =>
    if 0 < s.n2 then
      let s1 := { s with n2 := s.n2 - 1 }
      some (if !nSigOk s.sig then endCall s1 .errCheck
            else if nWaitPred s.queue.length s.produceEnd then nTake s1
            else { s1 with nwaitC := s.nwaitC + 1, nW := s.nW + 1 })
    else none
  | .nRelock =>
    if 0 < s.nK then
      let s1 := { s with nK := s.nK - 1 }
      some (if nWaitPred s.queue.length s.produceEnd then nTake { s1 with nwaitC := s.nwaitC - 1 }
            else { s1 with nW := s.nW + 1 })
    else none
  | .nNotify =>
    if 0 < s.n4 then some (wakeProducer { s with n4 := s.n4 - 1, n5 := s.n5 + 1 }) else none
  | .nRetItem =>
    if 0 < s.n5 then some (endCall { s with n5 := s.n5 - 1 } (if s.exc then .err else .nextItem)) else none
  | .nRetEnd =>
    if 0 < s.n6 then some (endCall { s with n6 := s.n6 - 1 } (if s.exc then .err else .nextEnd)) else none
  | .nSpur =>
    if 0 < s.nW then some { s with nW := s.nW - 1, nK := s.nK + 1 } else none
  | .rStart c =>
    if s.xloc = .idle ∧ s.outCall = false ∧ c ∈ s.lent then
      some { s with lent := s.lent.erase c, recycling := c :: s.recycling, r0 := s.r0 + 1 }
    else none
  | .rStartOut =>
    if s.xloc = .idle ∧ s.outCall = false ∧ busy s = 0 ∧ s.outData ≠ none then
      some { s with outCall := true, r0 := s.r0 + 1 }
    else none
  | .rExc c =>
    if 0 < s.r0 then
      let s1 := { s with r0 := s.r0 - 1 }
      if s.exc then
        -- the call fails before it touches the cell: the consumer keeps it (and may try again)
        if s.outCall then some (endCall s1 .err)
        else if c ∈ s.recycling then
          some (endCall { s1 with recycling := s.recycling.erase c, lent := c :: s.lent } .err)
        else none
      else some { s1 with r1 := s.r1 + 1 }
    else none
  | .rLock c =>
    if 0 < s.r1 then
      let s1 := { s with r1 := s.r1 - 1 }
      if s.outCall then
        match s.outData with
        | some (c', _) => some (rAfter { s1 with free := s.free ++ [c'], outData := none })
        | none => some { s1 with ub := true }
      else if c ∈ s.recycling then
        some (rAfter { s1 with free := s.free ++ [c], recycling := s.recycling.erase c })
      else none
    else none
  | .rNotify =>
    if 0 < s.r2 then some (wakeProducer { s with r2 := s.r2 - 1, r3 := s.r3 + 1 }) else none
  | .rRet =>
    if 0 < s.r3 then some (endCall { s with r3 := s.r3 - 1 } (if s.exc then .err else .ok)) else none
  | .bStart =>
    if s.xloc = .idle ∧ s.outCall = false ∧ busy s = 0 then some { s with xloc := .bExc0, bfPass := s.pass }
    else none
  | .dStart =>
    if s.xloc = .idle ∧ s.outCall = false ∧ busy s = 0 then
      some (if s.joined then { cleanup s with ret := .ok } else { s with xloc := .dLock })
    else none
  | .xStep => xStep rk s
  | .xSpur =>
    match s.xloc with
    | .bWait => some { s with xloc := .bWoken }
    | _ => none

/-- the model of the code in `VERIF_REPO` -/
def step (P : Params) (s : State) (e : Event) : Option State := stepR bfRecheck P s e

def init : State := {}

inductive ReachableR (rk : Bool) (P : Params) : State → Prop where
  | init : ReachableR rk P init
  | step {s s' : State} (e : Event) : ReachableR rk P s → stepR rk P s e = some s' → ReachableR rk P s'

abbrev Reachable (P : Params) (s : State) : Prop := ReachableR bfRecheck P s

end DmlcModel.TIter
