import DmlcModel.TIter.InvAStep
import DmlcModel.TIter.InvBStep
import DmlcModel.TIter.InvBcStep
import DmlcModel.TIter.InvC1Step
import DmlcModel.TIter.InvC2Step
import DmlcModel.TIter.InvDStep
import DmlcModel.TIter.InvEStep
import DmlcModel.TIter.Deadlock
/-!
The inductive invariant of the ThreadedIter transition system holds in every reachable state
(any schedule, any number of consumer threads, any client behaviour the contract allows, spurious wake-ups).
Groups A B C E: pinned and repaired code alike (`rk` arbitrary).  Group D: repaired code (`rk = true`).
-/
namespace DmlcModel.TIter
open DmlcModel.Gen.TIter

structure Inv (P : Params) (s : State) : Prop where
  a : InvA s
  b : InvB P s
  cells : CellsOK s
  c1 : InvC1 P s
  c2 : InvC2 P s
  e : InvE P s

theorem inv_init (P : Params) : Inv P init :=
  ⟨invA_init, invB_init P, cellsOK_init, invC1_init P, invC2_init P, invE_init P⟩

theorem inv_step {rk : Bool} {P : Params} {s s' : State} {e : Event} (h : Inv P s) (hs : stepR rk P s e = some s') :
    Inv P s' :=
  ⟨invA_step h.a hs, invB_step h.a h.b hs, invBc_step h.a h.cells hs, invC1_step h.a h.c1 hs, invC2_step h.a h.c2 hs,
   invE_step h.a h.e hs⟩

theorem inv_reachable {rk : Bool} {P : Params} {s : State} (h : ReachableR rk P s) : Inv P s := by
  induction h with
  | init => exact inv_init P
  | step e _ hs ih => exact inv_step ih hs

/-- scripts that never fail -/
def NoFail (P : Params) : Prop := (∀ p i, P.src p i ≠ .throw) ∧ (∀ p, P.rew p ≠ .throw)

theorem noThrow {rk : Bool} {P : Params} {s : State} (hn : NoFail P) (h : ReachableR rk P s) :
    s.thrown = false ∧ s.exc = false := by
  have hi := inv_reachable h
  have ht : s.thrown = false := by
    cases hth : s.thrown with
    | false => rfl
    | true =>
      rcases hi.c2.why hth with ⟨p, i, hpi⟩ | ⟨p, hp⟩
      · exact absurd hpi (hn.1 p i)
      · exact absurd hp (hn.2 p)
  refine ⟨ht, ?_⟩
  cases he : s.exc with
  | false => rfl
  | true => have := (hi.a.exc he).1; simp [ht] at this

/-- group D for the repaired code, any scripts -/
theorem invD_reachable {P : Params} {s : State} (h : ReachableR true P s) : InvD P s := by
  induction h with
  | init => exact invD_init P
  | step e hr hs ih => exact invD_step (Or.inl rfl) (inv_reachable hr).a ih hs

/-- group D for either version of the code when the scripts never fail -/
theorem invD_reachable_noFail {rk : Bool} {P : Params} {s : State} (hn : NoFail P) (h : ReachableR rk P s) : InvD P s := by
  induction h with
  | init => exact invD_init P
  | step e hr hs ih => exact invD_step (Or.inr (noThrow hn hr).2) (inv_reachable hr).a ih hs

end DmlcModel.TIter
