import DmlcModel.TIter.Invariant
/-! Consequences of the invariant used by the property theorems (Props/C07 C08 C09). -/
namespace DmlcModel.TIter
open DmlcModel.Gen.TIter

theorem range_prefix {a b : List Nat} {n : Nat} (h : a ++ b = List.range n) : a = List.range a.length := by
  have hl : a.length ≤ n := by
    have := congrArg List.length h
    simp at this; omega
  have h1 : (a ++ b).take a.length = a := by simp
  rw [h, List.take_range] at h1
  rw [← h1, Nat.min_eq_left hl]
  simp

/-- the items the source script yields at positions `0 .. n-1` of pass `p` -/
def prodList (src : Nat → Nat → SrcRes) (p : Nat) : Nat → List Item
  | 0 => []
  | n + 1 => prodList src p n ++ (match src p n with | .item v => [⟨p, n, v⟩] | _ => [])

theorem eq_prodList (src : Nat → Nat → SrcRes) (p : Nat) :
    ∀ (n : Nat) (l : List Item), l.map (·.idx) = List.range n →
      (∀ it, it ∈ l → it.pass = p ∧ src p it.idx = .item it.val) → l = prodList src p n := by
  intro n
  induction n with
  | zero => intro l h _; simp at h; simp [h, prodList]
  | succ n ih =>
    intro l h hs
    rw [List.range_succ] at h
    obtain ⟨l1, l2, rfl, h1, h2⟩ := List.map_eq_append_iff.mp h
    match l2, h2 with
    | [x], h2 =>
      have hx : x.idx = n := by simpa using h2
      have hxs := hs x (by simp)
      have := ih l1 h1 (fun it hit => hs it (by simp [hit]))
      rw [prodList, ← this]
      obtain ⟨xp, xi, xv⟩ := x
      simp only at hx hxs
      obtain ⟨hp, hv⟩ := hxs
      subst hx hp
      simp [hv]

/-- the set of threads that can still move without a new call being started is non-empty: see Deadlock.lean -/
theorem reachable_mono_pass {rk : Bool} {P : Params} {s s' : State} {e : Event} (hs : stepR rk P s e = some s') :
    s.pass ≤ s'.pass := by
  cases e <;> open_step <;> grind

/-- `t` is reached from `s` by zero or more transitions of the model of the code in `VERIF_REPO` -/
inductive Steps (P : Params) : State → State → Prop where
  | refl (s : State) : Steps P s s
  | tail {s t u : State} (e : Event) : Steps P s t → step P t e = some u → Steps P s u

theorem steps_pass_mono {P : Params} {s t : State} (h : Steps P s t) : s.pass ≤ t.pass := by
  induction h with
  | refl => exact Nat.le_refl _
  | tail e _ hs ih => exact Nat.le_trans ih (reachable_mono_pass hs)

theorem steps_reachable {P : Params} {s t : State} (hr : Reachable P s) (h : Steps P s t) : Reachable P t := by
  induction h with
  | refl => exact hr
  | tail e _ hs ih => exact ReachableR.step e ih hs

/-- replay of an event list (used by the witness files and mirrored by the driver) -/
def runEvents (rk : Bool) (P : Params) : State → List Event → Option State
  | s, [] => some s
  | s, e :: es => match stepR rk P s e with
    | some s' => runEvents rk P s' es
    | none => none

theorem reachable_run {rk : Bool} {P : Params} : ∀ (es : List Event) (s t : State), ReachableR rk P s →
    runEvents rk P s es = some t → ReachableR rk P t := by
  intro es
  induction es with
  | nil => intro s t hr h; simp [runEvents] at h; exact h ▸ hr
  | cons e es ih =>
    intro s t hr h
    simp only [runEvents] at h
    split at h
    · next s' hs' => exact ih s' t (ReachableR.step e hr hs') h
    · cases h

end DmlcModel.TIter
