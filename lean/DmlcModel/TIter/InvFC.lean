import DmlcModel.TIter.Measure
/-! Invariant group F (allocation only below max_capacity) -- preservation, events: prodSpur nNotify nRetItem nRetEnd nSpur rStart rStartOut rExc rLock rNotify rRet bStart dStart xSpur (generated layout, hand-written tactic) -/
namespace DmlcModel.TIter
open DmlcModel.Gen.TIter
set_option maxHeartbeats 2000000
set_option linter.unusedSimpArgs false
set_option linter.unusedVariables false

theorem invF_prodSpur {rk : Bool} {P : Params} {s s' : State} (hA : InvA s) (h : InvF P s)
    (hs : stepR rk P s .prodSpur = some s') : InvF P s' := by
  obtain ⟨a1, a2, a3, a4, a5, a6, a7, a8, a9, a10, a11, a12, a13, a14, a15, a16, a17, a18, a19, a20, a21, a22, a23, a24, a25, a26, a27, a28, a29, a30, a31⟩ := hA
  obtain ⟨f1⟩ := h
  simp only [kProduce, kBeforeFirst, kDestroy] at *
  open_step <;> (try simp only [Bool.not_eq_true, pPred_iff, pPred_false_iff, kProduce, kBeforeFirst, kDestroy] at *) <;>
    constructor <;> grind

theorem invF_nNotify {rk : Bool} {P : Params} {s s' : State} (hA : InvA s) (h : InvF P s)
    (hs : stepR rk P s .nNotify = some s') : InvF P s' := by
  obtain ⟨a1, a2, a3, a4, a5, a6, a7, a8, a9, a10, a11, a12, a13, a14, a15, a16, a17, a18, a19, a20, a21, a22, a23, a24, a25, a26, a27, a28, a29, a30, a31⟩ := hA
  obtain ⟨f1⟩ := h
  simp only [kProduce, kBeforeFirst, kDestroy] at *
  open_step <;> (try simp only [Bool.not_eq_true, pPred_iff, pPred_false_iff, kProduce, kBeforeFirst, kDestroy] at *) <;>
    constructor <;> grind

theorem invF_nRetItem {rk : Bool} {P : Params} {s s' : State} (hA : InvA s) (h : InvF P s)
    (hs : stepR rk P s .nRetItem = some s') : InvF P s' := by
  obtain ⟨a1, a2, a3, a4, a5, a6, a7, a8, a9, a10, a11, a12, a13, a14, a15, a16, a17, a18, a19, a20, a21, a22, a23, a24, a25, a26, a27, a28, a29, a30, a31⟩ := hA
  obtain ⟨f1⟩ := h
  simp only [kProduce, kBeforeFirst, kDestroy] at *
  open_step <;> (try simp only [Bool.not_eq_true, pPred_iff, pPred_false_iff, kProduce, kBeforeFirst, kDestroy] at *) <;>
    constructor <;> grind

theorem invF_nRetEnd {rk : Bool} {P : Params} {s s' : State} (hA : InvA s) (h : InvF P s)
    (hs : stepR rk P s .nRetEnd = some s') : InvF P s' := by
  obtain ⟨a1, a2, a3, a4, a5, a6, a7, a8, a9, a10, a11, a12, a13, a14, a15, a16, a17, a18, a19, a20, a21, a22, a23, a24, a25, a26, a27, a28, a29, a30, a31⟩ := hA
  obtain ⟨f1⟩ := h
  simp only [kProduce, kBeforeFirst, kDestroy] at *
  open_step <;> (try simp only [Bool.not_eq_true, pPred_iff, pPred_false_iff, kProduce, kBeforeFirst, kDestroy] at *) <;>
    constructor <;> grind

theorem invF_nSpur {rk : Bool} {P : Params} {s s' : State} (hA : InvA s) (h : InvF P s)
    (hs : stepR rk P s .nSpur = some s') : InvF P s' := by
  obtain ⟨a1, a2, a3, a4, a5, a6, a7, a8, a9, a10, a11, a12, a13, a14, a15, a16, a17, a18, a19, a20, a21, a22, a23, a24, a25, a26, a27, a28, a29, a30, a31⟩ := hA
  obtain ⟨f1⟩ := h
  simp only [kProduce, kBeforeFirst, kDestroy] at *
  open_step <;> (try simp only [Bool.not_eq_true, pPred_iff, pPred_false_iff, kProduce, kBeforeFirst, kDestroy] at *) <;>
    constructor <;> grind

theorem invF_rStart {rk : Bool} {P : Params} {s s' : State} {c : Nat} (hA : InvA s) (h : InvF P s)
    (hs : stepR rk P s (.rStart c) = some s') : InvF P s' := by
  obtain ⟨a1, a2, a3, a4, a5, a6, a7, a8, a9, a10, a11, a12, a13, a14, a15, a16, a17, a18, a19, a20, a21, a22, a23, a24, a25, a26, a27, a28, a29, a30, a31⟩ := hA
  obtain ⟨f1⟩ := h
  simp only [kProduce, kBeforeFirst, kDestroy] at *
  open_step <;> (try simp only [Bool.not_eq_true, pPred_iff, pPred_false_iff, kProduce, kBeforeFirst, kDestroy] at *) <;>
    constructor <;> grind

theorem invF_rStartOut {rk : Bool} {P : Params} {s s' : State} (hA : InvA s) (h : InvF P s)
    (hs : stepR rk P s .rStartOut = some s') : InvF P s' := by
  obtain ⟨a1, a2, a3, a4, a5, a6, a7, a8, a9, a10, a11, a12, a13, a14, a15, a16, a17, a18, a19, a20, a21, a22, a23, a24, a25, a26, a27, a28, a29, a30, a31⟩ := hA
  obtain ⟨f1⟩ := h
  simp only [kProduce, kBeforeFirst, kDestroy] at *
  open_step <;> (try simp only [Bool.not_eq_true, pPred_iff, pPred_false_iff, kProduce, kBeforeFirst, kDestroy] at *) <;>
    constructor <;> grind

theorem invF_rExc {rk : Bool} {P : Params} {s s' : State} {c : Nat} (hA : InvA s) (h : InvF P s)
    (hs : stepR rk P s (.rExc c) = some s') : InvF P s' := by
  obtain ⟨a1, a2, a3, a4, a5, a6, a7, a8, a9, a10, a11, a12, a13, a14, a15, a16, a17, a18, a19, a20, a21, a22, a23, a24, a25, a26, a27, a28, a29, a30, a31⟩ := hA
  obtain ⟨f1⟩ := h
  simp only [kProduce, kBeforeFirst, kDestroy] at *
  open_step <;> (try simp only [Bool.not_eq_true, pPred_iff, pPred_false_iff, kProduce, kBeforeFirst, kDestroy] at *) <;>
    constructor <;> grind

theorem invF_rLock {rk : Bool} {P : Params} {s s' : State} {c : Nat} (hA : InvA s) (h : InvF P s)
    (hs : stepR rk P s (.rLock c) = some s') : InvF P s' := by
  obtain ⟨a1, a2, a3, a4, a5, a6, a7, a8, a9, a10, a11, a12, a13, a14, a15, a16, a17, a18, a19, a20, a21, a22, a23, a24, a25, a26, a27, a28, a29, a30, a31⟩ := hA
  obtain ⟨f1⟩ := h
  simp only [kProduce, kBeforeFirst, kDestroy] at *
  open_step <;> (try simp only [Bool.not_eq_true, pPred_iff, pPred_false_iff, kProduce, kBeforeFirst, kDestroy] at *) <;>
    constructor <;> grind

theorem invF_rNotify {rk : Bool} {P : Params} {s s' : State} (hA : InvA s) (h : InvF P s)
    (hs : stepR rk P s .rNotify = some s') : InvF P s' := by
  obtain ⟨a1, a2, a3, a4, a5, a6, a7, a8, a9, a10, a11, a12, a13, a14, a15, a16, a17, a18, a19, a20, a21, a22, a23, a24, a25, a26, a27, a28, a29, a30, a31⟩ := hA
  obtain ⟨f1⟩ := h
  simp only [kProduce, kBeforeFirst, kDestroy] at *
  open_step <;> (try simp only [Bool.not_eq_true, pPred_iff, pPred_false_iff, kProduce, kBeforeFirst, kDestroy] at *) <;>
    constructor <;> grind

theorem invF_rRet {rk : Bool} {P : Params} {s s' : State} (hA : InvA s) (h : InvF P s)
    (hs : stepR rk P s .rRet = some s') : InvF P s' := by
  obtain ⟨a1, a2, a3, a4, a5, a6, a7, a8, a9, a10, a11, a12, a13, a14, a15, a16, a17, a18, a19, a20, a21, a22, a23, a24, a25, a26, a27, a28, a29, a30, a31⟩ := hA
  obtain ⟨f1⟩ := h
  simp only [kProduce, kBeforeFirst, kDestroy] at *
  open_step <;> (try simp only [Bool.not_eq_true, pPred_iff, pPred_false_iff, kProduce, kBeforeFirst, kDestroy] at *) <;>
    constructor <;> grind

theorem invF_bStart {rk : Bool} {P : Params} {s s' : State} (hA : InvA s) (h : InvF P s)
    (hs : stepR rk P s .bStart = some s') : InvF P s' := by
  obtain ⟨a1, a2, a3, a4, a5, a6, a7, a8, a9, a10, a11, a12, a13, a14, a15, a16, a17, a18, a19, a20, a21, a22, a23, a24, a25, a26, a27, a28, a29, a30, a31⟩ := hA
  obtain ⟨f1⟩ := h
  simp only [kProduce, kBeforeFirst, kDestroy] at *
  open_step <;> (try simp only [Bool.not_eq_true, pPred_iff, pPred_false_iff, kProduce, kBeforeFirst, kDestroy] at *) <;>
    constructor <;> grind

theorem invF_dStart {rk : Bool} {P : Params} {s s' : State} (hA : InvA s) (h : InvF P s)
    (hs : stepR rk P s .dStart = some s') : InvF P s' := by
  obtain ⟨a1, a2, a3, a4, a5, a6, a7, a8, a9, a10, a11, a12, a13, a14, a15, a16, a17, a18, a19, a20, a21, a22, a23, a24, a25, a26, a27, a28, a29, a30, a31⟩ := hA
  obtain ⟨f1⟩ := h
  simp only [kProduce, kBeforeFirst, kDestroy] at *
  open_step <;> (try simp only [Bool.not_eq_true, pPred_iff, pPred_false_iff, kProduce, kBeforeFirst, kDestroy] at *) <;>
    constructor <;> grind

theorem invF_xSpur {rk : Bool} {P : Params} {s s' : State} (hA : InvA s) (h : InvF P s)
    (hs : stepR rk P s .xSpur = some s') : InvF P s' := by
  obtain ⟨a1, a2, a3, a4, a5, a6, a7, a8, a9, a10, a11, a12, a13, a14, a15, a16, a17, a18, a19, a20, a21, a22, a23, a24, a25, a26, a27, a28, a29, a30, a31⟩ := hA
  obtain ⟨f1⟩ := h
  simp only [kProduce, kBeforeFirst, kDestroy] at *
  open_step <;> (try simp only [Bool.not_eq_true, pPred_iff, pPred_false_iff, kProduce, kBeforeFirst, kDestroy] at *) <;>
    constructor <;> grind

end DmlcModel.TIter
