import DmlcModel.TIter.ProgressP
import DmlcModel.TIter.ProgressX
import DmlcModel.TIter.ProgressN
import DmlcModel.TIter.ProgressC
import DmlcModel.TIter.InvFStep
import DmlcModel.TIter.Corollaries
/-!
Termination: the relation "t is reached from the reachable state s by a progress event" (a transition that is
neither a spurious wake-up nor the start of a new call) is well-founded, for the pinned and the repaired code,
any scripts, any capacity.  With deadlock freedom: every execution of the calls in progress is finite and can
only stop when every call has returned.
-/
namespace DmlcModel.TIter
open DmlcModel.Gen.TIter

theorem invF_reachable {rk : Bool} {P : Params} {s : State} (h : ReachableR rk P s) : InvF P s := by
  induction h with
  | init => exact invF_init P
  | step e hr hs ih => exact invF_step (inv_reachable hr).a ih hs

/-- every progress event decreases the measure -/
theorem mu_decreases {rk : Bool} {P : Params} {s s' : State} {e : Event} (hA : InvA s) (hF : InvF P s)
    (hp : e.isProgress = true) (hs : stepR rk P s e = some s') : MuLt P s' s := by
  cases e with
  | prod => exact mu_prod hA hF hs
  | xStep => exact mu_xStep hA hF hs
  | nLoadSig => exact mu_nLoadSig hA hF hs
  | nExc => exact mu_nExc hA hF hs
  | nLock => exact mu_nLock hA hF hs
  | nRelock => exact mu_nRelock hA hF hs
  | nNotify => exact mu_nNotify hA hF hs
  | nRetItem => exact mu_nRetItem hA hF hs
  | nRetEnd => exact mu_nRetEnd hA hF hs
  | rExc c => exact mu_rExc hA hF hs
  | rLock c => exact mu_rLock hA hF hs
  | rNotify => exact mu_rNotify hA hF hs
  | rRet => exact mu_rRet hA hF hs
  | prodSpur | nSpur | xSpur | nStart _ | rStart _ | rStartOut | bStart | dStart =>
    simp [Event.isProgress, Event.isSpurious, Event.isStart] at hp

def mu (P : Params) (s : State) : Nat × Nat × Nat × Nat × Nat := (mK s, mI P s, mY s, mP s.ploc, mC s)

def R5 : (Nat × Nat × Nat × Nat × Nat) → (Nat × Nat × Nat × Nat × Nat) → Prop :=
  Prod.Lex Nat.lt (Prod.Lex Nat.lt (Prod.Lex Nat.lt (Prod.Lex Nat.lt Nat.lt)))

theorem R5_wf : WellFounded R5 :=
  (Prod.lex Nat.lt_wfRel (Prod.lex Nat.lt_wfRel (Prod.lex Nat.lt_wfRel (Prod.lex Nat.lt_wfRel Nat.lt_wfRel)))).wf

theorem muLt_wf (P : Params) : WellFounded (MuLt P) := by
  refine Subrelation.wf ?_ (InvImage.wf (mu P) R5_wf)
  intro t s h
  unfold MuLt Lt5 at h
  simp only [InvImage, R5, mu, Prod.lex_def]
  exact h

/-- one progress step out of a reachable state (of the model of the code in `VERIF_REPO`) -/
def ProgStep (P : Params) (t s : State) : Prop :=
  Reachable P s ∧ ∃ e : Event, e.isProgress = true ∧ step P s e = some t

theorem progStep_wf (P : Params) : WellFounded (ProgStep P) := by
  refine Subrelation.wf ?_ (muLt_wf P)
  intro t s h
  obtain ⟨hr, e, hp, hs⟩ := h
  exact mu_decreases (inv_reachable hr).a (invF_reachable hr) hp hs

theorem no_infinite_chain {α : Type} {r : α → α → Prop} (hwf : WellFounded r) (f : Nat → α)
    (h : ∀ n, r (f (n + 1)) (f n)) : False := by
  have key : ∀ x, Acc r x → ∀ n, f n = x → False := by
    intro x hx
    induction hx with
    | intro x _ ih => intro n hn; exact ih (f (n + 1)) (hn ▸ h n) (n + 1) rfl
  exact key (f 0) (hwf.apply _) 0 rfl

/-- there is no infinite sequence of progress events from a reachable state -/
theorem no_infinite_progress {P : Params} {s : State} (hr : Reachable P s) :
    ¬ ∃ f : Nat → State, f 0 = s ∧ ∀ n, ∃ e : Event, e.isProgress = true ∧ step P (f n) e = some (f (n + 1)) := by
  rintro ⟨f, h0, hf⟩
  have hreach : ∀ n, Reachable P (f n) := by
    intro n
    induction n with
    | zero => exact h0 ▸ hr
    | succ n ih => obtain ⟨e, _, hs⟩ := hf n; exact ReachableR.step e ih hs
  exact no_infinite_chain (progStep_wf P) f (fun n => ⟨hreach n, hf n⟩)

/-- progress executions: `t` is reached from `s` by progress events only -/
inductive ProgSteps (P : Params) : State → State → Prop where
  | refl (s : State) : ProgSteps P s s
  | tail {s t u : State} (e : Event) : ProgSteps P s t → e.isProgress = true → step P t e = some u → ProgSteps P s u

theorem progSteps_reachable {P : Params} {s t : State} (hr : Reachable P s) (h : ProgSteps P s t) : Reachable P t := by
  induction h with
  | refl => exact hr
  | tail e _ _ hs ih => exact ReachableR.step e ih hs

/-- from every reachable state the calls in progress can be run to completion: some finite progress execution
ends in a state where no progress event is enabled -/
theorem exists_maximal {P : Params} {s : State} (hr : Reachable P s) :
    ∃ t, ProgSteps P s t ∧ ∀ e : Event, e.isProgress = true → step P t e = none := by
  have key : ∀ x, Acc (ProgStep P) x → Reachable P x →
      ∃ t, ProgSteps P x t ∧ ∀ e : Event, e.isProgress = true → step P t e = none := by
    intro x hx
    induction hx with
    | intro x _ ih =>
      intro hrx
      by_cases hen : ∃ e : Event, e.isProgress = true ∧ ∃ u, step P x e = some u
      · obtain ⟨e, hp, u, hs⟩ := hen
        obtain ⟨t, ht, hmax⟩ := ih u ⟨hrx, e, hp, hs⟩ (ReachableR.step e hrx hs)
        refine ⟨t, ?_, hmax⟩
        clear hmax ih
        induction ht with
        | refl => exact ProgSteps.tail e (ProgSteps.refl x) hp hs
        | tail e' _ hp' hs' ih' => exact ProgSteps.tail e' ih' hp' hs'
      · refine ⟨x, ProgSteps.refl x, ?_⟩
        intro e hp
        cases hst : step P x e with
        | none => rfl
        | some u => exact absurd ⟨e, hp, u, hst⟩ hen
  exact key s ((progStep_wf P).apply s) hr

end DmlcModel.TIter
