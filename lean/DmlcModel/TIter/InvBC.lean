import DmlcModel.TIter.InvB
/-! Invariant group B (allocation accounting) -- preservation, events: prodSpur nNotify nRetItem nRetEnd nSpur rStart rStartOut rExc rLock rNotify rRet bStart dStart xSpur (generated layout, hand-written tactic) -/
namespace DmlcModel.TIter
open DmlcModel.Gen.TIter
set_option maxHeartbeats 2000000
set_option linter.unusedSimpArgs false
set_option linter.unusedVariables false

theorem invB_prodSpur {rk : Bool} {P : Params} {s s' : State} (hA : InvA s) (h : InvB P s)
    (hs : stepR rk P s .prodSpur = some s') : InvB P s' := by
  obtain ⟨a1, a2, a3, a4, a5, a6, a7, a8, a9, a10, a11, a12, a13, a14, a15, a16, a17, a18, a19, a20, a21, a22, a23, a24, a25, a26, a27, a28, a29, a30, a31⟩ := hA
  obtain ⟨b1, b2, b3, b4, b5, b6, b7⟩ := h
  simp only [kProduce, kBeforeFirst, kDestroy, cells, qcells, lentish, List.length_append, List.length_map, optList_length] at *
  open_step <;> (try simp only [Bool.not_eq_true, pPred_iff, pPred_false_iff, kProduce, kBeforeFirst, kDestroy] at *) <;>
    constructor <;>
    (try simp only [kProduce, kBeforeFirst, kDestroy, cells, qcells, lentish, optList_length, List.length_append, List.length_map,
       List.length_cons, List.length_nil, List.map_append, List.map_cons, List.map_nil]) <;>
    grind [busy, pWaiting, List.length_erase_of_mem]

theorem invB_nNotify {rk : Bool} {P : Params} {s s' : State} (hA : InvA s) (h : InvB P s)
    (hs : stepR rk P s .nNotify = some s') : InvB P s' := by
  obtain ⟨a1, a2, a3, a4, a5, a6, a7, a8, a9, a10, a11, a12, a13, a14, a15, a16, a17, a18, a19, a20, a21, a22, a23, a24, a25, a26, a27, a28, a29, a30, a31⟩ := hA
  obtain ⟨b1, b2, b3, b4, b5, b6, b7⟩ := h
  simp only [kProduce, kBeforeFirst, kDestroy, cells, qcells, lentish, List.length_append, List.length_map, optList_length] at *
  open_step <;> (try simp only [Bool.not_eq_true, pPred_iff, pPred_false_iff, kProduce, kBeforeFirst, kDestroy] at *) <;>
    constructor <;>
    (try simp only [kProduce, kBeforeFirst, kDestroy, cells, qcells, lentish, optList_length, List.length_append, List.length_map,
       List.length_cons, List.length_nil, List.map_append, List.map_cons, List.map_nil]) <;>
    grind [busy, pWaiting, List.length_erase_of_mem]

theorem invB_nRetItem {rk : Bool} {P : Params} {s s' : State} (hA : InvA s) (h : InvB P s)
    (hs : stepR rk P s .nRetItem = some s') : InvB P s' := by
  obtain ⟨a1, a2, a3, a4, a5, a6, a7, a8, a9, a10, a11, a12, a13, a14, a15, a16, a17, a18, a19, a20, a21, a22, a23, a24, a25, a26, a27, a28, a29, a30, a31⟩ := hA
  obtain ⟨b1, b2, b3, b4, b5, b6, b7⟩ := h
  simp only [kProduce, kBeforeFirst, kDestroy, cells, qcells, lentish, List.length_append, List.length_map, optList_length] at *
  open_step <;> (try simp only [Bool.not_eq_true, pPred_iff, pPred_false_iff, kProduce, kBeforeFirst, kDestroy] at *) <;>
    constructor <;>
    (try simp only [kProduce, kBeforeFirst, kDestroy, cells, qcells, lentish, optList_length, List.length_append, List.length_map,
       List.length_cons, List.length_nil, List.map_append, List.map_cons, List.map_nil]) <;>
    grind [busy, pWaiting, List.length_erase_of_mem]

theorem invB_nRetEnd {rk : Bool} {P : Params} {s s' : State} (hA : InvA s) (h : InvB P s)
    (hs : stepR rk P s .nRetEnd = some s') : InvB P s' := by
  obtain ⟨a1, a2, a3, a4, a5, a6, a7, a8, a9, a10, a11, a12, a13, a14, a15, a16, a17, a18, a19, a20, a21, a22, a23, a24, a25, a26, a27, a28, a29, a30, a31⟩ := hA
  obtain ⟨b1, b2, b3, b4, b5, b6, b7⟩ := h
  simp only [kProduce, kBeforeFirst, kDestroy, cells, qcells, lentish, List.length_append, List.length_map, optList_length] at *
  open_step <;> (try simp only [Bool.not_eq_true, pPred_iff, pPred_false_iff, kProduce, kBeforeFirst, kDestroy] at *) <;>
    constructor <;>
    (try simp only [kProduce, kBeforeFirst, kDestroy, cells, qcells, lentish, optList_length, List.length_append, List.length_map,
       List.length_cons, List.length_nil, List.map_append, List.map_cons, List.map_nil]) <;>
    grind [busy, pWaiting, List.length_erase_of_mem]

theorem invB_nSpur {rk : Bool} {P : Params} {s s' : State} (hA : InvA s) (h : InvB P s)
    (hs : stepR rk P s .nSpur = some s') : InvB P s' := by
  obtain ⟨a1, a2, a3, a4, a5, a6, a7, a8, a9, a10, a11, a12, a13, a14, a15, a16, a17, a18, a19, a20, a21, a22, a23, a24, a25, a26, a27, a28, a29, a30, a31⟩ := hA
  obtain ⟨b1, b2, b3, b4, b5, b6, b7⟩ := h
  simp only [kProduce, kBeforeFirst, kDestroy, cells, qcells, lentish, List.length_append, List.length_map, optList_length] at *
  open_step <;> (try simp only [Bool.not_eq_true, pPred_iff, pPred_false_iff, kProduce, kBeforeFirst, kDestroy] at *) <;>
    constructor <;>
    (try simp only [kProduce, kBeforeFirst, kDestroy, cells, qcells, lentish, optList_length, List.length_append, List.length_map,
       List.length_cons, List.length_nil, List.map_append, List.map_cons, List.map_nil]) <;>
    grind [busy, pWaiting, List.length_erase_of_mem]

theorem invB_rStart {rk : Bool} {P : Params} {s s' : State} {c : Nat} (hA : InvA s) (h : InvB P s)
    (hs : stepR rk P s (.rStart c) = some s') : InvB P s' := by
  obtain ⟨a1, a2, a3, a4, a5, a6, a7, a8, a9, a10, a11, a12, a13, a14, a15, a16, a17, a18, a19, a20, a21, a22, a23, a24, a25, a26, a27, a28, a29, a30, a31⟩ := hA
  obtain ⟨b1, b2, b3, b4, b5, b6, b7⟩ := h
  simp only [kProduce, kBeforeFirst, kDestroy, cells, qcells, lentish, List.length_append, List.length_map, optList_length] at *
  open_step <;> (try simp only [Bool.not_eq_true, pPred_iff, pPred_false_iff, kProduce, kBeforeFirst, kDestroy] at *) <;>
    constructor <;>
    (try simp only [kProduce, kBeforeFirst, kDestroy, cells, qcells, lentish, optList_length, List.length_append, List.length_map,
       List.length_cons, List.length_nil, List.map_append, List.map_cons, List.map_nil]) <;>
    grind [busy, pWaiting, List.length_erase_of_mem]

theorem invB_rStartOut {rk : Bool} {P : Params} {s s' : State} (hA : InvA s) (h : InvB P s)
    (hs : stepR rk P s .rStartOut = some s') : InvB P s' := by
  obtain ⟨a1, a2, a3, a4, a5, a6, a7, a8, a9, a10, a11, a12, a13, a14, a15, a16, a17, a18, a19, a20, a21, a22, a23, a24, a25, a26, a27, a28, a29, a30, a31⟩ := hA
  obtain ⟨b1, b2, b3, b4, b5, b6, b7⟩ := h
  simp only [kProduce, kBeforeFirst, kDestroy, cells, qcells, lentish, List.length_append, List.length_map, optList_length] at *
  open_step <;> (try simp only [Bool.not_eq_true, pPred_iff, pPred_false_iff, kProduce, kBeforeFirst, kDestroy] at *) <;>
    constructor <;>
    (try simp only [kProduce, kBeforeFirst, kDestroy, cells, qcells, lentish, optList_length, List.length_append, List.length_map,
       List.length_cons, List.length_nil, List.map_append, List.map_cons, List.map_nil]) <;>
    grind [busy, pWaiting, List.length_erase_of_mem]

theorem invB_rExc {rk : Bool} {P : Params} {s s' : State} {c : Nat} (hA : InvA s) (h : InvB P s)
    (hs : stepR rk P s (.rExc c) = some s') : InvB P s' := by
  obtain ⟨a1, a2, a3, a4, a5, a6, a7, a8, a9, a10, a11, a12, a13, a14, a15, a16, a17, a18, a19, a20, a21, a22, a23, a24, a25, a26, a27, a28, a29, a30, a31⟩ := hA
  obtain ⟨b1, b2, b3, b4, b5, b6, b7⟩ := h
  simp only [kProduce, kBeforeFirst, kDestroy, cells, qcells, lentish, List.length_append, List.length_map, optList_length] at *
  open_step <;> (try simp only [Bool.not_eq_true, pPred_iff, pPred_false_iff, kProduce, kBeforeFirst, kDestroy] at *) <;>
    constructor <;>
    (try simp only [kProduce, kBeforeFirst, kDestroy, cells, qcells, lentish, optList_length, List.length_append, List.length_map,
       List.length_cons, List.length_nil, List.map_append, List.map_cons, List.map_nil]) <;>
    grind [busy, pWaiting, List.length_erase_of_mem]

theorem invB_rLock {rk : Bool} {P : Params} {s s' : State} {c : Nat} (hA : InvA s) (h : InvB P s)
    (hs : stepR rk P s (.rLock c) = some s') : InvB P s' := by
  obtain ⟨a1, a2, a3, a4, a5, a6, a7, a8, a9, a10, a11, a12, a13, a14, a15, a16, a17, a18, a19, a20, a21, a22, a23, a24, a25, a26, a27, a28, a29, a30, a31⟩ := hA
  obtain ⟨b1, b2, b3, b4, b5, b6, b7⟩ := h
  simp only [kProduce, kBeforeFirst, kDestroy, cells, qcells, lentish, List.length_append, List.length_map, optList_length] at *
  open_step <;> (try simp only [Bool.not_eq_true, pPred_iff, pPred_false_iff, kProduce, kBeforeFirst, kDestroy] at *) <;>
    constructor <;>
    (try simp only [kProduce, kBeforeFirst, kDestroy, cells, qcells, lentish, optList_length, List.length_append, List.length_map,
       List.length_cons, List.length_nil, List.map_append, List.map_cons, List.map_nil]) <;>
    grind [busy, pWaiting, List.length_erase_of_mem]

theorem invB_rNotify {rk : Bool} {P : Params} {s s' : State} (hA : InvA s) (h : InvB P s)
    (hs : stepR rk P s .rNotify = some s') : InvB P s' := by
  obtain ⟨a1, a2, a3, a4, a5, a6, a7, a8, a9, a10, a11, a12, a13, a14, a15, a16, a17, a18, a19, a20, a21, a22, a23, a24, a25, a26, a27, a28, a29, a30, a31⟩ := hA
  obtain ⟨b1, b2, b3, b4, b5, b6, b7⟩ := h
  simp only [kProduce, kBeforeFirst, kDestroy, cells, qcells, lentish, List.length_append, List.length_map, optList_length] at *
  open_step <;> (try simp only [Bool.not_eq_true, pPred_iff, pPred_false_iff, kProduce, kBeforeFirst, kDestroy] at *) <;>
    constructor <;>
    (try simp only [kProduce, kBeforeFirst, kDestroy, cells, qcells, lentish, optList_length, List.length_append, List.length_map,
       List.length_cons, List.length_nil, List.map_append, List.map_cons, List.map_nil]) <;>
    grind [busy, pWaiting, List.length_erase_of_mem]

theorem invB_rRet {rk : Bool} {P : Params} {s s' : State} (hA : InvA s) (h : InvB P s)
    (hs : stepR rk P s .rRet = some s') : InvB P s' := by
  obtain ⟨a1, a2, a3, a4, a5, a6, a7, a8, a9, a10, a11, a12, a13, a14, a15, a16, a17, a18, a19, a20, a21, a22, a23, a24, a25, a26, a27, a28, a29, a30, a31⟩ := hA
  obtain ⟨b1, b2, b3, b4, b5, b6, b7⟩ := h
  simp only [kProduce, kBeforeFirst, kDestroy, cells, qcells, lentish, List.length_append, List.length_map, optList_length] at *
  open_step <;> (try simp only [Bool.not_eq_true, pPred_iff, pPred_false_iff, kProduce, kBeforeFirst, kDestroy] at *) <;>
    constructor <;>
    (try simp only [kProduce, kBeforeFirst, kDestroy, cells, qcells, lentish, optList_length, List.length_append, List.length_map,
       List.length_cons, List.length_nil, List.map_append, List.map_cons, List.map_nil]) <;>
    grind [busy, pWaiting, List.length_erase_of_mem]

theorem invB_bStart {rk : Bool} {P : Params} {s s' : State} (hA : InvA s) (h : InvB P s)
    (hs : stepR rk P s .bStart = some s') : InvB P s' := by
  obtain ⟨a1, a2, a3, a4, a5, a6, a7, a8, a9, a10, a11, a12, a13, a14, a15, a16, a17, a18, a19, a20, a21, a22, a23, a24, a25, a26, a27, a28, a29, a30, a31⟩ := hA
  obtain ⟨b1, b2, b3, b4, b5, b6, b7⟩ := h
  simp only [kProduce, kBeforeFirst, kDestroy, cells, qcells, lentish, List.length_append, List.length_map, optList_length] at *
  open_step <;> (try simp only [Bool.not_eq_true, pPred_iff, pPred_false_iff, kProduce, kBeforeFirst, kDestroy] at *) <;>
    constructor <;>
    (try simp only [kProduce, kBeforeFirst, kDestroy, cells, qcells, lentish, optList_length, List.length_append, List.length_map,
       List.length_cons, List.length_nil, List.map_append, List.map_cons, List.map_nil]) <;>
    grind [busy, pWaiting, List.length_erase_of_mem]

theorem invB_dStart {rk : Bool} {P : Params} {s s' : State} (hA : InvA s) (h : InvB P s)
    (hs : stepR rk P s .dStart = some s') : InvB P s' := by
  obtain ⟨a1, a2, a3, a4, a5, a6, a7, a8, a9, a10, a11, a12, a13, a14, a15, a16, a17, a18, a19, a20, a21, a22, a23, a24, a25, a26, a27, a28, a29, a30, a31⟩ := hA
  obtain ⟨b1, b2, b3, b4, b5, b6, b7⟩ := h
  simp only [kProduce, kBeforeFirst, kDestroy, cells, qcells, lentish, List.length_append, List.length_map, optList_length] at *
  open_step <;> (try simp only [Bool.not_eq_true, pPred_iff, pPred_false_iff, kProduce, kBeforeFirst, kDestroy] at *) <;>
    constructor <;>
    (try simp only [kProduce, kBeforeFirst, kDestroy, cells, qcells, lentish, optList_length, List.length_append, List.length_map,
       List.length_cons, List.length_nil, List.map_append, List.map_cons, List.map_nil]) <;>
    grind [busy, pWaiting, List.length_erase_of_mem]

theorem invB_xSpur {rk : Bool} {P : Params} {s s' : State} (hA : InvA s) (h : InvB P s)
    (hs : stepR rk P s .xSpur = some s') : InvB P s' := by
  obtain ⟨a1, a2, a3, a4, a5, a6, a7, a8, a9, a10, a11, a12, a13, a14, a15, a16, a17, a18, a19, a20, a21, a22, a23, a24, a25, a26, a27, a28, a29, a30, a31⟩ := hA
  obtain ⟨b1, b2, b3, b4, b5, b6, b7⟩ := h
  simp only [kProduce, kBeforeFirst, kDestroy, cells, qcells, lentish, List.length_append, List.length_map, optList_length] at *
  open_step <;> (try simp only [Bool.not_eq_true, pPred_iff, pPred_false_iff, kProduce, kBeforeFirst, kDestroy] at *) <;>
    constructor <;>
    (try simp only [kProduce, kBeforeFirst, kDestroy, cells, qcells, lentish, optList_length, List.length_append, List.length_map,
       List.length_cons, List.length_nil, List.map_append, List.map_cons, List.map_nil]) <;>
    grind [busy, pWaiting, List.length_erase_of_mem]

end DmlcModel.TIter
