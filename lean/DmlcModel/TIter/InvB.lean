import DmlcModel.TIter.InvA
/-!
Group B of the invariant: cell ownership and allocation accounting.
`CellsOK`: every cell id below `allocated` occurs exactly once in `cells s`
(queue ++ free ++ producer's cell ++ lent ++ recycling ++ out_data_ ++ lost ++ freed), no other id occurs.
-/
namespace DmlcModel.TIter
open DmlcModel.Gen.TIter

def CellsOK (s : State) : Prop := ∀ c, (cells s).count c = if c < s.allocated then 1 else 0

structure InvB (P : Params) (s : State) : Prop where
  len : (cells s).length = s.allocated
  recy : (s.outCall = true → s.recycling.length = 0) ∧ (s.outCall = false → s.recycling.length = s.r0 + s.r1)
  alloc : s.allocated ≤ P.cap + s.maxLent
  alloc2 : s.ploc = .call → s.pcell = none → s.allocated + 1 ≤ P.cap + s.maxLent
  mlent : lentish s ≤ s.maxLent
  lost : s.thrown = false → s.lost.length = 0
  freed : s.joined = false → s.freed.length = 0

theorem cellsOK_init : CellsOK init := by
  intro c; simp [init, cells, qcells, optList]

theorem invB_init (P : Params) : InvB P init := by
  constructor <;> simp [init, cells, qcells, optList, lentish]

theorem optList_length {α : Type} [DecidableEq α] (o : Option α) : (optList o).length = if o = none then 0 else 1 := by
  cases o <;> simp [optList]

theorem count_pos_of_mem {l : List Nat} {c : Nat} (h : c ∈ l) : 0 < l.count c := List.count_pos_iff.mpr h

end DmlcModel.TIter
