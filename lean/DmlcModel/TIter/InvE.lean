import DmlcModel.TIter.InvA
/-!
Group E of the invariant: the rewind handshake (C08).  `bfPass` is the pass number when the running
`BeforeFirst` started; `bfPosted` counts posted rewind commands, `rewCalls` the runs of the rewind callback.
-/
namespace DmlcModel.TIter
open DmlcModel.Gen.TIter

structure InvE (P : Params) (s : State) : Prop where
  rew : s.thrown = false → s.bfPosted = s.rewCalls + (if s.sig = kBeforeFirst then 1 else 0)
  bf1 : (s.xloc = .bExc0 ∨ s.xloc = .bLock) → s.pass = s.bfPass
  bf2 : (s.xloc = .bWait ∨ s.xloc = .bWoken) →
        (s.sig = kBeforeFirst ∧ s.pass = s.bfPass) ∨ (s.sig = kProduce ∧ s.pass = s.bfPass + 1 ∧ s.delivered = [])
  bf3 : (s.xloc = .bNotify ∨ s.xloc = .bExc1) → s.exc = true ∨ (s.pass = s.bfPass + 1 ∧ s.delivered = [])

theorem invE_init (P : Params) : InvE P init := by
  constructor <;> simp [init, kProduce, kBeforeFirst]

end DmlcModel.TIter
