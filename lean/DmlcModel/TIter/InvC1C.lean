import DmlcModel.TIter.InvC
/-! Invariant group C1 (history of the pass: order, positions, source) -- preservation, events: prodSpur nNotify nRetItem nRetEnd nSpur rStart rStartOut rExc rLock rNotify rRet bStart dStart xSpur (generated layout, hand-written tactic) -/
namespace DmlcModel.TIter
open DmlcModel.Gen.TIter
set_option maxHeartbeats 2000000
set_option linter.unusedSimpArgs false
set_option linter.unusedVariables false

theorem invC1_prodSpur {rk : Bool} {P : Params} {s s' : State} (hA : InvA s) (h : InvC1 P s)
    (hs : stepR rk P s .prodSpur = some s') : InvC1 P s' := by
  obtain ⟨a1, a2, a3, a4, a5, a6, a7, a8, a9, a10, a11, a12, a13, a14, a15, a16, a17, a18, a19, a20, a21, a22, a23, a24, a25, a26, a27, a28, a29, a30, a31⟩ := hA
  obtain ⟨c1, c2, c3⟩ := h
  simp only [qitems] at c1
  open_step <;> constructor <;>
    (try simp only [qitems, optList, List.map_append, List.map_cons, List.map_nil, List.append_assoc, List.append_nil,
      List.nil_append, List.range_succ, List.range_zero, List.mem_append, List.mem_cons, List.not_mem_nil, List.cons_append,
      List.singleton_append] at *) <;>
    grind [optList]

theorem invC1_nNotify {rk : Bool} {P : Params} {s s' : State} (hA : InvA s) (h : InvC1 P s)
    (hs : stepR rk P s .nNotify = some s') : InvC1 P s' := by
  obtain ⟨a1, a2, a3, a4, a5, a6, a7, a8, a9, a10, a11, a12, a13, a14, a15, a16, a17, a18, a19, a20, a21, a22, a23, a24, a25, a26, a27, a28, a29, a30, a31⟩ := hA
  obtain ⟨c1, c2, c3⟩ := h
  simp only [qitems] at c1
  open_step <;> constructor <;>
    (try simp only [qitems, optList, List.map_append, List.map_cons, List.map_nil, List.append_assoc, List.append_nil,
      List.nil_append, List.range_succ, List.range_zero, List.mem_append, List.mem_cons, List.not_mem_nil, List.cons_append,
      List.singleton_append] at *) <;>
    grind [optList]

theorem invC1_nRetItem {rk : Bool} {P : Params} {s s' : State} (hA : InvA s) (h : InvC1 P s)
    (hs : stepR rk P s .nRetItem = some s') : InvC1 P s' := by
  obtain ⟨a1, a2, a3, a4, a5, a6, a7, a8, a9, a10, a11, a12, a13, a14, a15, a16, a17, a18, a19, a20, a21, a22, a23, a24, a25, a26, a27, a28, a29, a30, a31⟩ := hA
  obtain ⟨c1, c2, c3⟩ := h
  simp only [qitems] at c1
  open_step <;> constructor <;>
    (try simp only [qitems, optList, List.map_append, List.map_cons, List.map_nil, List.append_assoc, List.append_nil,
      List.nil_append, List.range_succ, List.range_zero, List.mem_append, List.mem_cons, List.not_mem_nil, List.cons_append,
      List.singleton_append] at *) <;>
    grind [optList]

theorem invC1_nRetEnd {rk : Bool} {P : Params} {s s' : State} (hA : InvA s) (h : InvC1 P s)
    (hs : stepR rk P s .nRetEnd = some s') : InvC1 P s' := by
  obtain ⟨a1, a2, a3, a4, a5, a6, a7, a8, a9, a10, a11, a12, a13, a14, a15, a16, a17, a18, a19, a20, a21, a22, a23, a24, a25, a26, a27, a28, a29, a30, a31⟩ := hA
  obtain ⟨c1, c2, c3⟩ := h
  simp only [qitems] at c1
  open_step <;> constructor <;>
    (try simp only [qitems, optList, List.map_append, List.map_cons, List.map_nil, List.append_assoc, List.append_nil,
      List.nil_append, List.range_succ, List.range_zero, List.mem_append, List.mem_cons, List.not_mem_nil, List.cons_append,
      List.singleton_append] at *) <;>
    grind [optList]

theorem invC1_nSpur {rk : Bool} {P : Params} {s s' : State} (hA : InvA s) (h : InvC1 P s)
    (hs : stepR rk P s .nSpur = some s') : InvC1 P s' := by
  obtain ⟨a1, a2, a3, a4, a5, a6, a7, a8, a9, a10, a11, a12, a13, a14, a15, a16, a17, a18, a19, a20, a21, a22, a23, a24, a25, a26, a27, a28, a29, a30, a31⟩ := hA
  obtain ⟨c1, c2, c3⟩ := h
  simp only [qitems] at c1
  open_step <;> constructor <;>
    (try simp only [qitems, optList, List.map_append, List.map_cons, List.map_nil, List.append_assoc, List.append_nil,
      List.nil_append, List.range_succ, List.range_zero, List.mem_append, List.mem_cons, List.not_mem_nil, List.cons_append,
      List.singleton_append] at *) <;>
    grind [optList]

theorem invC1_rStart {rk : Bool} {P : Params} {s s' : State} {c : Nat} (hA : InvA s) (h : InvC1 P s)
    (hs : stepR rk P s (.rStart c) = some s') : InvC1 P s' := by
  obtain ⟨a1, a2, a3, a4, a5, a6, a7, a8, a9, a10, a11, a12, a13, a14, a15, a16, a17, a18, a19, a20, a21, a22, a23, a24, a25, a26, a27, a28, a29, a30, a31⟩ := hA
  obtain ⟨c1, c2, c3⟩ := h
  simp only [qitems] at c1
  open_step <;> constructor <;>
    (try simp only [qitems, optList, List.map_append, List.map_cons, List.map_nil, List.append_assoc, List.append_nil,
      List.nil_append, List.range_succ, List.range_zero, List.mem_append, List.mem_cons, List.not_mem_nil, List.cons_append,
      List.singleton_append] at *) <;>
    grind [optList]

theorem invC1_rStartOut {rk : Bool} {P : Params} {s s' : State} (hA : InvA s) (h : InvC1 P s)
    (hs : stepR rk P s .rStartOut = some s') : InvC1 P s' := by
  obtain ⟨a1, a2, a3, a4, a5, a6, a7, a8, a9, a10, a11, a12, a13, a14, a15, a16, a17, a18, a19, a20, a21, a22, a23, a24, a25, a26, a27, a28, a29, a30, a31⟩ := hA
  obtain ⟨c1, c2, c3⟩ := h
  simp only [qitems] at c1
  open_step <;> constructor <;>
    (try simp only [qitems, optList, List.map_append, List.map_cons, List.map_nil, List.append_assoc, List.append_nil,
      List.nil_append, List.range_succ, List.range_zero, List.mem_append, List.mem_cons, List.not_mem_nil, List.cons_append,
      List.singleton_append] at *) <;>
    grind [optList]

theorem invC1_rExc {rk : Bool} {P : Params} {s s' : State} {c : Nat} (hA : InvA s) (h : InvC1 P s)
    (hs : stepR rk P s (.rExc c) = some s') : InvC1 P s' := by
  obtain ⟨a1, a2, a3, a4, a5, a6, a7, a8, a9, a10, a11, a12, a13, a14, a15, a16, a17, a18, a19, a20, a21, a22, a23, a24, a25, a26, a27, a28, a29, a30, a31⟩ := hA
  obtain ⟨c1, c2, c3⟩ := h
  simp only [qitems] at c1
  open_step <;> constructor <;>
    (try simp only [qitems, optList, List.map_append, List.map_cons, List.map_nil, List.append_assoc, List.append_nil,
      List.nil_append, List.range_succ, List.range_zero, List.mem_append, List.mem_cons, List.not_mem_nil, List.cons_append,
      List.singleton_append] at *) <;>
    grind [optList]

theorem invC1_rLock {rk : Bool} {P : Params} {s s' : State} {c : Nat} (hA : InvA s) (h : InvC1 P s)
    (hs : stepR rk P s (.rLock c) = some s') : InvC1 P s' := by
  obtain ⟨a1, a2, a3, a4, a5, a6, a7, a8, a9, a10, a11, a12, a13, a14, a15, a16, a17, a18, a19, a20, a21, a22, a23, a24, a25, a26, a27, a28, a29, a30, a31⟩ := hA
  obtain ⟨c1, c2, c3⟩ := h
  simp only [qitems] at c1
  open_step <;> constructor <;>
    (try simp only [qitems, optList, List.map_append, List.map_cons, List.map_nil, List.append_assoc, List.append_nil,
      List.nil_append, List.range_succ, List.range_zero, List.mem_append, List.mem_cons, List.not_mem_nil, List.cons_append,
      List.singleton_append] at *) <;>
    grind [optList]

theorem invC1_rNotify {rk : Bool} {P : Params} {s s' : State} (hA : InvA s) (h : InvC1 P s)
    (hs : stepR rk P s .rNotify = some s') : InvC1 P s' := by
  obtain ⟨a1, a2, a3, a4, a5, a6, a7, a8, a9, a10, a11, a12, a13, a14, a15, a16, a17, a18, a19, a20, a21, a22, a23, a24, a25, a26, a27, a28, a29, a30, a31⟩ := hA
  obtain ⟨c1, c2, c3⟩ := h
  simp only [qitems] at c1
  open_step <;> constructor <;>
    (try simp only [qitems, optList, List.map_append, List.map_cons, List.map_nil, List.append_assoc, List.append_nil,
      List.nil_append, List.range_succ, List.range_zero, List.mem_append, List.mem_cons, List.not_mem_nil, List.cons_append,
      List.singleton_append] at *) <;>
    grind [optList]

theorem invC1_rRet {rk : Bool} {P : Params} {s s' : State} (hA : InvA s) (h : InvC1 P s)
    (hs : stepR rk P s .rRet = some s') : InvC1 P s' := by
  obtain ⟨a1, a2, a3, a4, a5, a6, a7, a8, a9, a10, a11, a12, a13, a14, a15, a16, a17, a18, a19, a20, a21, a22, a23, a24, a25, a26, a27, a28, a29, a30, a31⟩ := hA
  obtain ⟨c1, c2, c3⟩ := h
  simp only [qitems] at c1
  open_step <;> constructor <;>
    (try simp only [qitems, optList, List.map_append, List.map_cons, List.map_nil, List.append_assoc, List.append_nil,
      List.nil_append, List.range_succ, List.range_zero, List.mem_append, List.mem_cons, List.not_mem_nil, List.cons_append,
      List.singleton_append] at *) <;>
    grind [optList]

theorem invC1_bStart {rk : Bool} {P : Params} {s s' : State} (hA : InvA s) (h : InvC1 P s)
    (hs : stepR rk P s .bStart = some s') : InvC1 P s' := by
  obtain ⟨a1, a2, a3, a4, a5, a6, a7, a8, a9, a10, a11, a12, a13, a14, a15, a16, a17, a18, a19, a20, a21, a22, a23, a24, a25, a26, a27, a28, a29, a30, a31⟩ := hA
  obtain ⟨c1, c2, c3⟩ := h
  simp only [qitems] at c1
  open_step <;> constructor <;>
    (try simp only [qitems, optList, List.map_append, List.map_cons, List.map_nil, List.append_assoc, List.append_nil,
      List.nil_append, List.range_succ, List.range_zero, List.mem_append, List.mem_cons, List.not_mem_nil, List.cons_append,
      List.singleton_append] at *) <;>
    grind [optList]

theorem invC1_dStart {rk : Bool} {P : Params} {s s' : State} (hA : InvA s) (h : InvC1 P s)
    (hs : stepR rk P s .dStart = some s') : InvC1 P s' := by
  obtain ⟨a1, a2, a3, a4, a5, a6, a7, a8, a9, a10, a11, a12, a13, a14, a15, a16, a17, a18, a19, a20, a21, a22, a23, a24, a25, a26, a27, a28, a29, a30, a31⟩ := hA
  obtain ⟨c1, c2, c3⟩ := h
  simp only [qitems] at c1
  open_step <;> constructor <;>
    (try simp only [qitems, optList, List.map_append, List.map_cons, List.map_nil, List.append_assoc, List.append_nil,
      List.nil_append, List.range_succ, List.range_zero, List.mem_append, List.mem_cons, List.not_mem_nil, List.cons_append,
      List.singleton_append] at *) <;>
    grind [optList]

theorem invC1_xSpur {rk : Bool} {P : Params} {s s' : State} (hA : InvA s) (h : InvC1 P s)
    (hs : stepR rk P s .xSpur = some s') : InvC1 P s' := by
  obtain ⟨a1, a2, a3, a4, a5, a6, a7, a8, a9, a10, a11, a12, a13, a14, a15, a16, a17, a18, a19, a20, a21, a22, a23, a24, a25, a26, a27, a28, a29, a30, a31⟩ := hA
  obtain ⟨c1, c2, c3⟩ := h
  simp only [qitems] at c1
  open_step <;> constructor <;>
    (try simp only [qitems, optList, List.map_append, List.map_cons, List.map_nil, List.append_assoc, List.append_nil,
      List.nil_append, List.range_succ, List.range_zero, List.mem_append, List.mem_cons, List.not_mem_nil, List.cons_append,
      List.singleton_append] at *) <;>
    grind [optList]

end DmlcModel.TIter
