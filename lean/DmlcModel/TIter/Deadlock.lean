import DmlcModel.TIter.InvB
import DmlcModel.TIter.InvD
/-!
Deadlock freedom: in every state satisfying the invariant groups A, B, D (D is where the repair of
`BeforeFirst` is needed) in which
some thread is inside a call, a transition that is neither a spurious wake-up nor the start of a new call is
enabled.
-/
namespace DmlcModel.TIter
open DmlcModel.Gen.TIter

/-- some consumer-side call is in progress -/
def inCall (s : State) : Prop := 0 < busy s ∨ s.xloc ≠ .idle

/-- events that make progress inside calls already started -/
def Event.isProgress (e : Event) : Bool := !e.isSpurious && !e.isStart

theorem prod_enabled (rk : Bool) (P : Params) (s : State) (h1 : s.ploc ≠ .waitSet) (h2 : s.ploc ≠ .exited) :
    (stepR rk P s .prod).isSome = true := by
  simp only [stepR, prodStep]
  split <;> simp_all <;> split <;> simp

theorem exists_mem_of_length_pos {l : List Nat} (h : 0 < l.length) : ∃ c, c ∈ l := by
  cases l with
  | nil => simp at h
  | cons a t => exact ⟨a, by simp⟩

theorem deadlock_free_of_inv {rk : Bool} {P : Params} {s : State} (hcap : 1 ≤ P.cap) (hA : InvA s) (hB : InvB P s)
    (hD : InvD P s) (hc : inCall s) : ∃ e : Event, e.isProgress = true ∧ (stepR rk P s e).isSome = true := by
  by_cases hp : s.ploc ≠ .waitSet ∧ s.ploc ≠ .exited
  · exact ⟨.prod, rfl, prod_enabled rk P s hp.1 hp.2⟩
  by_cases h0 : 0 < s.n0
  · exact ⟨.nLoadSig, rfl, by simp [stepR, h0]⟩
  by_cases h1 : 0 < s.n1
  · exact ⟨.nExc, rfl, by simp [stepR, h1]⟩
  by_cases h2 : 0 < s.n2
  · exact ⟨.nLock, rfl, by simp [stepR, h2]⟩
  by_cases hK : 0 < s.nK
  · exact ⟨.nRelock, rfl, by simp [stepR, hK]⟩
  by_cases h4 : 0 < s.n4
  · exact ⟨.nNotify, rfl, by simp [stepR, h4]⟩
  by_cases h5 : 0 < s.n5
  · exact ⟨.nRetItem, rfl, by simp [stepR, h5]⟩
  by_cases h6 : 0 < s.n6
  · exact ⟨.nRetEnd, rfl, by simp [stepR, h6]⟩
  by_cases hr2 : 0 < s.r2
  · exact ⟨.rNotify, rfl, by simp [stepR, hr2]⟩
  by_cases hr3 : 0 < s.r3
  · exact ⟨.rRet, rfl, by simp [stepR, hr3]⟩
  by_cases hr0 : 0 < s.r0
  · by_cases ho : s.outCall = true
    · refine ⟨.rExc 0, rfl, ?_⟩
      simp only [stepR, hr0, ho]
      repeat' split
      all_goals simp_all
    · have hlen : 0 < s.recycling.length := by have := hB.recy.2 (by simpa using ho); omega
      obtain ⟨c, hc⟩ := exists_mem_of_length_pos hlen
      refine ⟨.rExc c, rfl, ?_⟩
      simp only [stepR, hr0, ho, hc]
      repeat' split
      all_goals simp_all
  by_cases hr1 : 0 < s.r1
  · by_cases ho : s.outCall = true
    · have hne : s.outData ≠ none := hA.outR ho (by omega)
      refine ⟨.rLock 0, rfl, ?_⟩
      simp only [stepR, hr1, ho]
      cases hod : s.outData with
      | none => exact absurd hod hne
      | some x => simp
    · have hlen : 0 < s.recycling.length := by have := hB.recy.2 (by simpa using ho); omega
      obtain ⟨c, hc⟩ := exists_mem_of_length_pos hlen
      refine ⟨.rLock c, rfl, ?_⟩
      simp [stepR, hr1, ho, hc]
  -- every consumer inside a thread-safe call is now in the wait set of Next
  have hbusy : busy s = s.nW := by simp only [busy]; omega
  have hploc : s.ploc = .waitSet ∨ s.ploc = .exited := by
    by_cases h : s.ploc = .waitSet
    · exact Or.inl h
    · by_cases h' : s.ploc = .exited
      · exact Or.inr h'
      · exact absurd ⟨h, h'⟩ hp
  obtain ⟨a1, a2, a3, a4, a5, a6, a7, a8, a9, a10, a11, a12, a13, a14, a15, a16, a17, a18, a19, a20, a21, a22, a23, a24, a25, a26, a27, a28, a29, a30, a31⟩ := hA
  obtain ⟨d1, d2, d3, d4, d5⟩ := hD
  simp only [kProduce, kBeforeFirst, kDestroy] at *
  -- the exclusive caller
  cases hx : s.xloc with
  | idle =>
    -- only Next waiters remain: their predicate is false, so the producer's is true
    have hW : 0 < s.nW := by
      rcases hc with hc | hc
      · omega
      · exact absurd hx hc
    grind
  | bExc0 => exact ⟨.xStep, rfl, by simp only [stepR, xStep, hx]; split <;> simp⟩
  | bLock =>
    refine ⟨.xStep, rfl, ?_⟩
    simp only [stepR, xStep, hx]
    repeat' split
    all_goals simp
  | bWait => grind
  | bWoken => exact ⟨.xStep, rfl, by simp only [stepR, xStep, hx]; split <;> simp⟩
  | bNotify => exact ⟨.xStep, rfl, by simp [stepR, xStep, hx]⟩
  | bExc1 => exact ⟨.xStep, rfl, by simp [stepR, xStep, hx]⟩
  | dLock => exact ⟨.xStep, rfl, by simp [stepR, xStep, hx]⟩
  | dJoin =>
    have he : s.ploc = .exited := by grind
    exact ⟨.xStep, rfl, by simp [stepR, xStep, hx, he]⟩

end DmlcModel.TIter
