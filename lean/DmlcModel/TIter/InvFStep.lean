import DmlcModel.TIter.Measure
import DmlcModel.TIter.InvFP
import DmlcModel.TIter.InvFX
import DmlcModel.TIter.InvFN
import DmlcModel.TIter.InvFC
/-! Invariant group F (allocation only below max_capacity) -- every transition -/
namespace DmlcModel.TIter
open DmlcModel.Gen.TIter

theorem invF_step {rk : Bool} {P : Params} {s s' : State} {e : Event} (hA : InvA s) (h : InvF P s)
    (hs : stepR rk P s e = some s') : InvF P s' := by
  cases e with
  | prod => exact invF_prod hA h hs
  | prodSpur => exact invF_prodSpur hA h hs
  | nStart b => exact invF_nStart hA h hs
  | nLoadSig => exact invF_nLoadSig hA h hs
  | nExc => exact invF_nExc hA h hs
  | nLock => exact invF_nLock hA h hs
  | nRelock => exact invF_nRelock hA h hs
  | nNotify => exact invF_nNotify hA h hs
  | nRetItem => exact invF_nRetItem hA h hs
  | nRetEnd => exact invF_nRetEnd hA h hs
  | nSpur => exact invF_nSpur hA h hs
  | rStart c => exact invF_rStart hA h hs
  | rStartOut => exact invF_rStartOut hA h hs
  | rExc c => exact invF_rExc hA h hs
  | rLock c => exact invF_rLock hA h hs
  | rNotify => exact invF_rNotify hA h hs
  | rRet => exact invF_rRet hA h hs
  | bStart => exact invF_bStart hA h hs
  | dStart => exact invF_dStart hA h hs
  | xStep => exact invF_xStep hA h hs
  | xSpur => exact invF_xSpur hA h hs

end DmlcModel.TIter
