import DmlcModel.TIter.InvA
/-! Invariant group A (control structure) -- preservation, events: xStep (generated layout, hand-written tactic) -/
namespace DmlcModel.TIter
open DmlcModel.Gen.TIter
set_option maxHeartbeats 2000000
set_option linter.unusedSimpArgs false
set_option linter.unusedVariables false

theorem invA_xStep {rk : Bool} {P : Params} {s s' : State} (h : InvA s)
    (hs : stepR rk P s .xStep = some s') : InvA s' := by
  obtain ⟨h1, h2, h3, h4, h5, h6, h7, h8, h9, h10, h11, h12, h13, h14, h15, h16, h17, h18, h19, h20, h21, h22, h23, h24, h25, h26, h27, h28, h29, h30, h31⟩ := h
  simp only [kProduce, kBeforeFirst, kDestroy] at *
  open_step <;> (try simp only [Bool.not_eq_true, pPred_iff, pPred_false_iff, kProduce, kBeforeFirst, kDestroy] at *) <;>
    constructor <;> (try simp only [kProduce, kBeforeFirst, kDestroy]) <;> grind [busy, pWaiting]

end DmlcModel.TIter
