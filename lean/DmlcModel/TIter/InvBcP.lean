import DmlcModel.TIter.InvB
/-! Invariant group B (every allocated cell is in exactly one place) -- preservation, events: prod (generated layout, hand-written tactic) -/
namespace DmlcModel.TIter
open DmlcModel.Gen.TIter
set_option maxHeartbeats 2000000
set_option linter.unusedSimpArgs false
set_option linter.unusedVariables false

theorem invBc_prod {rk : Bool} {P : Params} {s s' : State} (hA : InvA s) (h : CellsOK s)
    (hs : stepR rk P s .prod = some s') : CellsOK s' := by
  obtain ⟨a1, a2, a3, a4, a5, a6, a7, a8, a9, a10, a11, a12, a13, a14, a15, a16, a17, a18, a19, a20, a21, a22, a23, a24, a25, a26, a27, a28, a29, a30, a31⟩ := hA
  open_step <;> intro c0 <;> have hc := h c0 <;>
    simp only [cells, qcells, optList, List.count_append, List.count_cons, List.count_nil, List.map_append, List.map_cons,
      List.map_nil, List.append_nil, List.nil_append, List.count_erase] at hc ⊢ <;>
    (try simp only [*, List.map_cons, List.count_cons, List.count_nil, optList, List.map_nil] at hc ⊢) <;> grind [count_pos_of_mem]

end DmlcModel.TIter
