import DmlcModel.TIter.Invariant
/-!
# Life cycle of one ThreadedIter object: `Init` again after `Destroy`

`Destroy` leaves the members in the state described by `C09_destroy_clean` and the invariant (command word
`kDestroy`, the flags whatever they were, no cell left, producer thread joined); `Init(next, beforefirst)` assigns the
command word, the two flags and the stored exception (`Gen.TIter.initSig / initProcessed / initProduceEnd /
initClearsExc`, read from the source) and starts a new producer thread.  `reinit_eq_init`: after a completed `Destroy`,
with no call in progress and every lent cell given back, the object is exactly in its initial state again -- so the
second life of the object is an execution of the same transition system from `init`, and every theorem about reachable
states (C07, C08, C09) applies to it unchanged.  A source whose `Init` forgets one of the assignments (for example
relies on the constructor for `produce_end_`) fails this theorem.
-/
namespace DmlcModel.TIter
open DmlcModel.Gen.TIter

/-- `Init(next, beforefirst)` on an object whose previous life was ended by `Destroy`: the assignments of the source,
a new producer thread at the top of its loop, and a new observation epoch (ghost history reset) -/
def reinit (s : State) : State :=
  { s with
    sig := initSig.getD s.sig
    processed := initProcessed.getD s.processed
    produceEnd := initProduceEnd.getD s.produceEnd
    exc := if initClearsExc then false else s.exc
    joined := false
    ploc := .top, pcell := none, pitem := none, pres := false
    produced := [], delivered := [], pass := 0, pidx := 0, srcEnded := false, thrown := false, allocated := 0,
    maxLent := 0, lost := [], freed := [], rewCalls := 0, bfPosted := 0, bfPass := 0, ret := .none }

/-- `Destroy` has returned, no call is in progress, the consumers have given back what they held -/
structure AfterDestroy (s : State) : Prop where
  joined : s.joined = true
  idle : s.xloc = .idle
  quiet : busy s = 0
  noOut : s.outCall = false
  queue : s.queue = []
  free : s.free = []
  outData : s.outData = none
  lent : s.lent = []
  recycling : s.recycling = []

/-- **the second life starts in the initial state** -/
theorem reinit_eq_init {s : State} (ha : InvA s) (h : AfterDestroy s) : reinit s = init := by
  have hj := ha.joined h.joined
  have hsd := ha.sigD hj.2
  have hq : s.n0 = 0 ∧ s.n1 = 0 ∧ s.n2 = 0 ∧ s.nW = 0 ∧ s.nK = 0 ∧ s.n4 = 0 ∧ s.n5 = 0 ∧ s.n6 = 0 ∧
      s.r0 = 0 ∧ s.r1 = 0 ∧ s.r2 = 0 ∧ s.r3 = 0 := by
    have := h.quiet
    simp only [busy] at this
    omega
  have hnp : s.nwaitP = 0 := by rw [ha.nwp, hj.1]; rfl
  have hnc : s.nwaitC = 0 := by rw [ha.nwc]; omega
  have hub := ha.ub
  obtain ⟨h0, h1, h2, hW, hK, h4, h5, h6, g0, g1, g2, g3⟩ := hq
  have e1 : initSig = some kProduce := by decide
  have e2 : initProcessed = some false := by decide
  have e3 : initProduceEnd = some false := by decide
  have e4 : initClearsExc = true := by decide
  obtain ⟨_, hidle, _, hno, hqe, hfe, hoe, hle, hre⟩ := h
  cases s
  simp only [reinit, init, e1, e2, e3, e4, Option.getD_some, if_true] at *
  simp_all

/-- the state `Destroy` leaves behind (C09_destroy_clean) satisfies `AfterDestroy` once nothing is lent -/
theorem afterDestroy_of_join {rk : Bool} {P : Params} {s s' : State} (hex : busy s = 0 ∧ s.outCall = false)
    (hs : stepR rk P s .xStep = some s') (hx : s.xloc = .dJoin) (hl : s.lent = []) (hr : s.recycling = []) :
    AfterDestroy s' := by
  simp only [stepR, xStep, hx] at hs
  split at hs
  · injection hs with hs
    subst hs
    exact ⟨rfl, rfl, by simpa [busy, cleanup] using hex.1, by simpa [cleanup] using hex.2, rfl, rfl, rfl,
      by simpa [cleanup] using hl, by simpa [cleanup] using hr⟩
  · cases hs

end DmlcModel.TIter
