import DmlcModel.TIter.InvA
import DmlcModel.TIter.InvAP
import DmlcModel.TIter.InvAX
import DmlcModel.TIter.InvAN
import DmlcModel.TIter.InvAC
/-! Invariant group A (control structure) -- preservation by every transition -/
namespace DmlcModel.TIter
open DmlcModel.Gen.TIter

theorem invA_step {rk : Bool} {P : Params} {s s' : State} {e : Event} (h : InvA s)
    (hs : stepR rk P s e = some s') : InvA s' := by
  cases e with
  | prod => exact invA_prod h hs
  | prodSpur => exact invA_prodSpur h hs
  | nStart b => exact invA_nStart h hs
  | nLoadSig => exact invA_nLoadSig h hs
  | nExc => exact invA_nExc h hs
  | nLock => exact invA_nLock h hs
  | nRelock => exact invA_nRelock h hs
  | nNotify => exact invA_nNotify h hs
  | nRetItem => exact invA_nRetItem h hs
  | nRetEnd => exact invA_nRetEnd h hs
  | nSpur => exact invA_nSpur h hs
  | rStart c => exact invA_rStart h hs
  | rStartOut => exact invA_rStartOut h hs
  | rExc c => exact invA_rExc h hs
  | rLock c => exact invA_rLock h hs
  | rNotify => exact invA_rNotify h hs
  | rRet => exact invA_rRet h hs
  | bStart => exact invA_bStart h hs
  | dStart => exact invA_dStart h hs
  | xStep => exact invA_xStep h hs
  | xSpur => exact invA_xSpur h hs

end DmlcModel.TIter
