import DmlcModel.TIter.InvB
/-!
A lexicographic progress measure for the ThreadedIter transition system: five natural numbers that decrease
(lexicographically) with every transition that is neither a spurious wake-up nor the start of a new call.

1. `mK`   a rewind may still happen for the BeforeFirst call in progress (it refills the free list);
2. `mI`   how many more produce callbacks the producer can run before it has to wait: free cells (a cell in its
          hands counts until it is filled), room below max_capacity (an item in flight counts as queued), cells
          and room that the calls IN PROGRESS may still hand back (pops, recycles, the `out_data_` cell), and one
          for the end of the source;  0 once the producer has exited;
3. `mY`   `notify_one`s the calls in progress may still issue (each can send the producer round its wait loop);
4. `mP`   the producer's program location (woken > store > publish > notify > top > waitSet > call > catch ...);
5. `mC`   the consumers' program locations.
Invariant `InvF`: an allocation is only ever attempted below max_capacity.
-/
namespace DmlcModel.TIter
open DmlcModel.Gen.TIter

def b2n (p : Prop) [Decidable p] : Nat := if p then 1 else 0

def kX : XLoc → Bool → Nat
  | .bExc0, _ => 1
  | .bLock, _ => 1
  | .bWait, p => if p = false then 1 else 0
  | .bWoken, p => if p = false then 1 else 0
  | _, _ => 0

def mK (s : State) : Nat := kX s.xloc s.processed

def oX : XLoc → Nat
  | .bExc0 | .bLock => 1
  | _ => 0

def mI (P : Params) (s : State) : Nat :=
  if s.ploc = .exited then 0
  else
    s.free.length + (if s.pcell ≠ none ∧ s.pitem = none then 1 else 0)
      + (P.cap - (s.queue.length + (if s.pitem ≠ none then 1 else 0)))
      + (s.n0 + s.n1 + s.n2 + s.nW + s.nK) + (s.r0 + s.r1)
      + (if s.outData ≠ none then oX s.xloc else 0)
      + (if s.srcEnded = false then 1 else 0)

def xY : XLoc → Nat
  | .bExc0 | .bLock => 2
  | .bWait | .bWoken | .bNotify | .dLock => 1
  | _ => 0

def mY (s : State) : Nat := s.n0 + s.n1 + s.n2 + s.nW + s.nK + s.n4 + s.r0 + s.r1 + s.r2 + xY s.xloc

def mP : PLoc → Nat
  | .woken => 12 | .store => 11 | .publish => 10 | .notifyTop => 9 | .top => 8 | .waitSet => 7 | .call => 6
  | .catchRec => 5 | .catchLock => 4 | .notifyExit => 3 | .exited => 0

def xC : XLoc → Nat
  | .bExc0 => 7 | .bLock => 6 | .bWoken => 5 | .bWait => 4 | .bNotify => 3 | .bExc1 => 2 | .dLock => 2 | .dJoin => 1
  | .idle => 0

def mC (s : State) : Nat :=
  8 * s.n0 + 7 * s.n1 + 6 * s.n2 + 5 * s.nK + 4 * s.nW + 3 * s.n4 + 2 * s.n5 + 2 * s.n6
    + 4 * s.r0 + 3 * s.r1 + 2 * s.r2 + s.r3 + xC s.xloc

/-- lexicographic "less than" on the five components -/
def Lt5 (a1 a2 a3 a4 a5 b1 b2 b3 b4 b5 : Nat) : Prop :=
  a1 < b1 ∨ (a1 = b1 ∧ (a2 < b2 ∨ (a2 = b2 ∧ (a3 < b3 ∨ (a3 = b3 ∧ (a4 < b4 ∨ (a4 = b4 ∧ a5 < b5)))))))

def MuLt (P : Params) (t s : State) : Prop :=
  Lt5 (mK t) (mI P t) (mY t) (mP t.ploc) (mC t) (mK s) (mI P s) (mY s) (mP s.ploc) (mC s)

structure InvF (P : Params) (s : State) : Prop where
  room : s.ploc = .call → s.pcell = none → s.queue.length < P.cap

theorem invF_init (P : Params) : InvF P init := by
  constructor; simp [init]

end DmlcModel.TIter
