import DmlcModel.TIter.Lemmas
/-!
Group A of the inductive invariant of the ThreadedIter transition system: control structure
(wait counters, exclusivity of the non-thread-safe calls, the `out_data_` discipline, the command word,
the producer's program locations, the exception flag).  Holds for the pinned and for the repaired code
(`rk` arbitrary), any script, any capacity.
-/
namespace DmlcModel.TIter
open DmlcModel.Gen.TIter

def pWaiting (l : PLoc) : Nat := match l with | .waitSet => 1 | .woken => 1 | _ => 0

attribute [grind cases] Option

structure InvA (s : State) : Prop where
  ub : s.ub = false
  nwp : s.nwaitP = pWaiting s.ploc
  nwc : s.nwaitC = s.nW + s.nK
  excl : s.xloc ≠ .idle → busy s = 0 ∧ s.outCall = false
  out1 : s.outCall = true → busy s = 1
  outR : s.outCall = true → 0 < s.r0 + s.r1 → s.outData ≠ none
  outN : s.outCall = true → 0 < s.n0 + s.n1 + s.n2 + s.nW + s.nK → s.outData = none
  sig3 : s.sig = kProduce ∨ s.sig = kBeforeFirst ∨ s.sig = kDestroy
  sigBF : s.sig = kBeforeFirst →
    s.xloc = .bWait ∨ s.xloc = .bWoken ∨ (s.exc = true ∧ (s.ploc = .notifyExit ∨ s.ploc = .exited))
  sigD : s.sig = kDestroy → s.n1 = 0 ∧ s.n2 = 0 ∧ s.nW = 0 ∧ s.nK = 0 ∧ s.n4 = 0 ∧ s.n5 = 0 ∧ s.n6 = 0
  proc : s.processed = true → s.sig = kDestroy ∨ s.xloc = .bWait ∨ s.xloc = .bWoken
  bfproc : s.sig = kBeforeFirst → s.processed = true → s.exc = true ∧ (s.ploc = .notifyExit ∨ s.ploc = .exited)
  call : s.ploc = .call → s.produceEnd = false ∧ s.srcEnded = false
  srcE : s.srcEnded = true → s.produceEnd = true ∨ s.ploc = .store
  storeE : s.ploc = .store → (s.srcEnded = true ↔ s.pres = false)
  pitem : s.pitem ≠ none → (s.ploc = .store ∨ s.ploc = .publish) ∧ s.pcell ≠ none
  store : s.ploc = .store → s.produceEnd = false ∧ (s.pres = true ↔ s.pitem ≠ none)
  publish : s.ploc = .publish → (s.produceEnd = false ↔ s.pitem ≠ none)
  pcell : s.pcell ≠ none → s.ploc = .call ∨ s.ploc = .store ∨ s.ploc = .publish
  thrown : s.thrown = true → s.ploc = .catchRec ∨ s.ploc = .catchLock ∨ s.ploc = .notifyExit ∨ s.ploc = .exited
  exc : s.exc = true → s.thrown = true ∧ s.ploc ≠ .catchRec
  catchRec : s.ploc = .catchRec → s.thrown = true ∧ s.exc = false
  catchLock : s.ploc = .catchLock → s.exc = true
  dead : s.ploc = .notifyExit ∨ s.ploc = .exited → s.exc = true ∨ s.sig = kDestroy
  joined : s.joined = true → s.ploc = .exited ∧ s.sig = kDestroy
  xd : s.xloc = .dLock ∨ s.xloc = .dJoin → s.joined = false
  dJoin : s.xloc = .dJoin → s.sig = kDestroy
  sigDj : s.sig = kDestroy → s.xloc = .dJoin ∨ s.joined = true
  sigBFn : s.sig = kBeforeFirst → s.n2 = 0 ∧ s.nW = 0 ∧ s.nK = 0
  storeOK : s.ploc = .store → s.pres = true → ∃ c it, s.pcell = some c ∧ s.pitem = some it
  pubOK : s.ploc = .publish → s.produceEnd = false → ∃ c it, s.pcell = some c ∧ s.pitem = some it

theorem invA_init : InvA init := by
  constructor <;> simp [init, pWaiting, busy, kProduce, kBeforeFirst, kDestroy]

end DmlcModel.TIter
