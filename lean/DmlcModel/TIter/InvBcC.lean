import DmlcModel.TIter.InvB
/-! Invariant group B (every allocated cell is in exactly one place) -- preservation, events: prodSpur nNotify nRetItem nRetEnd nSpur rStart rStartOut rExc rLock rNotify rRet bStart dStart xSpur (generated layout, hand-written tactic) -/
namespace DmlcModel.TIter
open DmlcModel.Gen.TIter
set_option maxHeartbeats 2000000
set_option linter.unusedSimpArgs false
set_option linter.unusedVariables false

theorem invBc_prodSpur {rk : Bool} {P : Params} {s s' : State} (hA : InvA s) (h : CellsOK s)
    (hs : stepR rk P s .prodSpur = some s') : CellsOK s' := by
  obtain ⟨a1, a2, a3, a4, a5, a6, a7, a8, a9, a10, a11, a12, a13, a14, a15, a16, a17, a18, a19, a20, a21, a22, a23, a24, a25, a26, a27, a28, a29, a30, a31⟩ := hA
  open_step <;> intro c0 <;> have hc := h c0 <;>
    simp only [cells, qcells, optList, List.count_append, List.count_cons, List.count_nil, List.map_append, List.map_cons,
      List.map_nil, List.append_nil, List.nil_append, List.count_erase] at hc ⊢ <;>
    (try simp only [*, List.map_cons, List.count_cons, List.count_nil, optList, List.map_nil] at hc ⊢) <;> grind [count_pos_of_mem]

theorem invBc_nNotify {rk : Bool} {P : Params} {s s' : State} (hA : InvA s) (h : CellsOK s)
    (hs : stepR rk P s .nNotify = some s') : CellsOK s' := by
  obtain ⟨a1, a2, a3, a4, a5, a6, a7, a8, a9, a10, a11, a12, a13, a14, a15, a16, a17, a18, a19, a20, a21, a22, a23, a24, a25, a26, a27, a28, a29, a30, a31⟩ := hA
  open_step <;> intro c0 <;> have hc := h c0 <;>
    simp only [cells, qcells, optList, List.count_append, List.count_cons, List.count_nil, List.map_append, List.map_cons,
      List.map_nil, List.append_nil, List.nil_append, List.count_erase] at hc ⊢ <;>
    (try simp only [*, List.map_cons, List.count_cons, List.count_nil, optList, List.map_nil] at hc ⊢) <;> grind [count_pos_of_mem]

theorem invBc_nRetItem {rk : Bool} {P : Params} {s s' : State} (hA : InvA s) (h : CellsOK s)
    (hs : stepR rk P s .nRetItem = some s') : CellsOK s' := by
  obtain ⟨a1, a2, a3, a4, a5, a6, a7, a8, a9, a10, a11, a12, a13, a14, a15, a16, a17, a18, a19, a20, a21, a22, a23, a24, a25, a26, a27, a28, a29, a30, a31⟩ := hA
  open_step <;> intro c0 <;> have hc := h c0 <;>
    simp only [cells, qcells, optList, List.count_append, List.count_cons, List.count_nil, List.map_append, List.map_cons,
      List.map_nil, List.append_nil, List.nil_append, List.count_erase] at hc ⊢ <;>
    (try simp only [*, List.map_cons, List.count_cons, List.count_nil, optList, List.map_nil] at hc ⊢) <;> grind [count_pos_of_mem]

theorem invBc_nRetEnd {rk : Bool} {P : Params} {s s' : State} (hA : InvA s) (h : CellsOK s)
    (hs : stepR rk P s .nRetEnd = some s') : CellsOK s' := by
  obtain ⟨a1, a2, a3, a4, a5, a6, a7, a8, a9, a10, a11, a12, a13, a14, a15, a16, a17, a18, a19, a20, a21, a22, a23, a24, a25, a26, a27, a28, a29, a30, a31⟩ := hA
  open_step <;> intro c0 <;> have hc := h c0 <;>
    simp only [cells, qcells, optList, List.count_append, List.count_cons, List.count_nil, List.map_append, List.map_cons,
      List.map_nil, List.append_nil, List.nil_append, List.count_erase] at hc ⊢ <;>
    (try simp only [*, List.map_cons, List.count_cons, List.count_nil, optList, List.map_nil] at hc ⊢) <;> grind [count_pos_of_mem]

theorem invBc_nSpur {rk : Bool} {P : Params} {s s' : State} (hA : InvA s) (h : CellsOK s)
    (hs : stepR rk P s .nSpur = some s') : CellsOK s' := by
  obtain ⟨a1, a2, a3, a4, a5, a6, a7, a8, a9, a10, a11, a12, a13, a14, a15, a16, a17, a18, a19, a20, a21, a22, a23, a24, a25, a26, a27, a28, a29, a30, a31⟩ := hA
  open_step <;> intro c0 <;> have hc := h c0 <;>
    simp only [cells, qcells, optList, List.count_append, List.count_cons, List.count_nil, List.map_append, List.map_cons,
      List.map_nil, List.append_nil, List.nil_append, List.count_erase] at hc ⊢ <;>
    (try simp only [*, List.map_cons, List.count_cons, List.count_nil, optList, List.map_nil] at hc ⊢) <;> grind [count_pos_of_mem]

theorem invBc_rStart {rk : Bool} {P : Params} {s s' : State} {c : Nat} (hA : InvA s) (h : CellsOK s)
    (hs : stepR rk P s (.rStart c) = some s') : CellsOK s' := by
  obtain ⟨a1, a2, a3, a4, a5, a6, a7, a8, a9, a10, a11, a12, a13, a14, a15, a16, a17, a18, a19, a20, a21, a22, a23, a24, a25, a26, a27, a28, a29, a30, a31⟩ := hA
  open_step <;> intro c0 <;> have hc := h c0 <;>
    simp only [cells, qcells, optList, List.count_append, List.count_cons, List.count_nil, List.map_append, List.map_cons,
      List.map_nil, List.append_nil, List.nil_append, List.count_erase] at hc ⊢ <;>
    (try simp only [*, List.map_cons, List.count_cons, List.count_nil, optList, List.map_nil] at hc ⊢) <;> grind [count_pos_of_mem]

theorem invBc_rStartOut {rk : Bool} {P : Params} {s s' : State} (hA : InvA s) (h : CellsOK s)
    (hs : stepR rk P s .rStartOut = some s') : CellsOK s' := by
  obtain ⟨a1, a2, a3, a4, a5, a6, a7, a8, a9, a10, a11, a12, a13, a14, a15, a16, a17, a18, a19, a20, a21, a22, a23, a24, a25, a26, a27, a28, a29, a30, a31⟩ := hA
  open_step <;> intro c0 <;> have hc := h c0 <;>
    simp only [cells, qcells, optList, List.count_append, List.count_cons, List.count_nil, List.map_append, List.map_cons,
      List.map_nil, List.append_nil, List.nil_append, List.count_erase] at hc ⊢ <;>
    (try simp only [*, List.map_cons, List.count_cons, List.count_nil, optList, List.map_nil] at hc ⊢) <;> grind [count_pos_of_mem]

theorem invBc_rExc {rk : Bool} {P : Params} {s s' : State} {c : Nat} (hA : InvA s) (h : CellsOK s)
    (hs : stepR rk P s (.rExc c) = some s') : CellsOK s' := by
  obtain ⟨a1, a2, a3, a4, a5, a6, a7, a8, a9, a10, a11, a12, a13, a14, a15, a16, a17, a18, a19, a20, a21, a22, a23, a24, a25, a26, a27, a28, a29, a30, a31⟩ := hA
  open_step <;> intro c0 <;> have hc := h c0 <;>
    simp only [cells, qcells, optList, List.count_append, List.count_cons, List.count_nil, List.map_append, List.map_cons,
      List.map_nil, List.append_nil, List.nil_append, List.count_erase] at hc ⊢ <;>
    (try simp only [*, List.map_cons, List.count_cons, List.count_nil, optList, List.map_nil] at hc ⊢) <;> grind [count_pos_of_mem]

theorem invBc_rLock {rk : Bool} {P : Params} {s s' : State} {c : Nat} (hA : InvA s) (h : CellsOK s)
    (hs : stepR rk P s (.rLock c) = some s') : CellsOK s' := by
  obtain ⟨a1, a2, a3, a4, a5, a6, a7, a8, a9, a10, a11, a12, a13, a14, a15, a16, a17, a18, a19, a20, a21, a22, a23, a24, a25, a26, a27, a28, a29, a30, a31⟩ := hA
  open_step <;> intro c0 <;> have hc := h c0 <;>
    simp only [cells, qcells, optList, List.count_append, List.count_cons, List.count_nil, List.map_append, List.map_cons,
      List.map_nil, List.append_nil, List.nil_append, List.count_erase] at hc ⊢ <;>
    (try simp only [*, List.map_cons, List.count_cons, List.count_nil, optList, List.map_nil] at hc ⊢) <;> grind [count_pos_of_mem]

theorem invBc_rNotify {rk : Bool} {P : Params} {s s' : State} (hA : InvA s) (h : CellsOK s)
    (hs : stepR rk P s .rNotify = some s') : CellsOK s' := by
  obtain ⟨a1, a2, a3, a4, a5, a6, a7, a8, a9, a10, a11, a12, a13, a14, a15, a16, a17, a18, a19, a20, a21, a22, a23, a24, a25, a26, a27, a28, a29, a30, a31⟩ := hA
  open_step <;> intro c0 <;> have hc := h c0 <;>
    simp only [cells, qcells, optList, List.count_append, List.count_cons, List.count_nil, List.map_append, List.map_cons,
      List.map_nil, List.append_nil, List.nil_append, List.count_erase] at hc ⊢ <;>
    (try simp only [*, List.map_cons, List.count_cons, List.count_nil, optList, List.map_nil] at hc ⊢) <;> grind [count_pos_of_mem]

theorem invBc_rRet {rk : Bool} {P : Params} {s s' : State} (hA : InvA s) (h : CellsOK s)
    (hs : stepR rk P s .rRet = some s') : CellsOK s' := by
  obtain ⟨a1, a2, a3, a4, a5, a6, a7, a8, a9, a10, a11, a12, a13, a14, a15, a16, a17, a18, a19, a20, a21, a22, a23, a24, a25, a26, a27, a28, a29, a30, a31⟩ := hA
  open_step <;> intro c0 <;> have hc := h c0 <;>
    simp only [cells, qcells, optList, List.count_append, List.count_cons, List.count_nil, List.map_append, List.map_cons,
      List.map_nil, List.append_nil, List.nil_append, List.count_erase] at hc ⊢ <;>
    (try simp only [*, List.map_cons, List.count_cons, List.count_nil, optList, List.map_nil] at hc ⊢) <;> grind [count_pos_of_mem]

theorem invBc_bStart {rk : Bool} {P : Params} {s s' : State} (hA : InvA s) (h : CellsOK s)
    (hs : stepR rk P s .bStart = some s') : CellsOK s' := by
  obtain ⟨a1, a2, a3, a4, a5, a6, a7, a8, a9, a10, a11, a12, a13, a14, a15, a16, a17, a18, a19, a20, a21, a22, a23, a24, a25, a26, a27, a28, a29, a30, a31⟩ := hA
  open_step <;> intro c0 <;> have hc := h c0 <;>
    simp only [cells, qcells, optList, List.count_append, List.count_cons, List.count_nil, List.map_append, List.map_cons,
      List.map_nil, List.append_nil, List.nil_append, List.count_erase] at hc ⊢ <;>
    (try simp only [*, List.map_cons, List.count_cons, List.count_nil, optList, List.map_nil] at hc ⊢) <;> grind [count_pos_of_mem]

theorem invBc_dStart {rk : Bool} {P : Params} {s s' : State} (hA : InvA s) (h : CellsOK s)
    (hs : stepR rk P s .dStart = some s') : CellsOK s' := by
  obtain ⟨a1, a2, a3, a4, a5, a6, a7, a8, a9, a10, a11, a12, a13, a14, a15, a16, a17, a18, a19, a20, a21, a22, a23, a24, a25, a26, a27, a28, a29, a30, a31⟩ := hA
  open_step <;> intro c0 <;> have hc := h c0 <;>
    simp only [cells, qcells, optList, List.count_append, List.count_cons, List.count_nil, List.map_append, List.map_cons,
      List.map_nil, List.append_nil, List.nil_append, List.count_erase] at hc ⊢ <;>
    (try simp only [*, List.map_cons, List.count_cons, List.count_nil, optList, List.map_nil] at hc ⊢) <;> grind [count_pos_of_mem]

theorem invBc_xSpur {rk : Bool} {P : Params} {s s' : State} (hA : InvA s) (h : CellsOK s)
    (hs : stepR rk P s .xSpur = some s') : CellsOK s' := by
  obtain ⟨a1, a2, a3, a4, a5, a6, a7, a8, a9, a10, a11, a12, a13, a14, a15, a16, a17, a18, a19, a20, a21, a22, a23, a24, a25, a26, a27, a28, a29, a30, a31⟩ := hA
  open_step <;> intro c0 <;> have hc := h c0 <;>
    simp only [cells, qcells, optList, List.count_append, List.count_cons, List.count_nil, List.map_append, List.map_cons,
      List.map_nil, List.append_nil, List.nil_append, List.count_erase] at hc ⊢ <;>
    (try simp only [*, List.map_cons, List.count_cons, List.count_nil, optList, List.map_nil] at hc ⊢) <;> grind [count_pos_of_mem]

end DmlcModel.TIter
