import DmlcModel.TIter.InvB
import DmlcModel.TIter.InvBP
import DmlcModel.TIter.InvBX
import DmlcModel.TIter.InvBN
import DmlcModel.TIter.InvBC
/-! Invariant group B (allocation accounting) -- preservation by every transition -/
namespace DmlcModel.TIter
open DmlcModel.Gen.TIter

theorem invB_step {rk : Bool} {P : Params} {s s' : State} {e : Event} (hA : InvA s) (h : InvB P s)
    (hs : stepR rk P s e = some s') : InvB P s' := by
  cases e with
  | prod => exact invB_prod hA h hs
  | prodSpur => exact invB_prodSpur hA h hs
  | nStart b => exact invB_nStart hA h hs
  | nLoadSig => exact invB_nLoadSig hA h hs
  | nExc => exact invB_nExc hA h hs
  | nLock => exact invB_nLock hA h hs
  | nRelock => exact invB_nRelock hA h hs
  | nNotify => exact invB_nNotify hA h hs
  | nRetItem => exact invB_nRetItem hA h hs
  | nRetEnd => exact invB_nRetEnd hA h hs
  | nSpur => exact invB_nSpur hA h hs
  | rStart c => exact invB_rStart hA h hs
  | rStartOut => exact invB_rStartOut hA h hs
  | rExc c => exact invB_rExc hA h hs
  | rLock c => exact invB_rLock hA h hs
  | rNotify => exact invB_rNotify hA h hs
  | rRet => exact invB_rRet hA h hs
  | bStart => exact invB_bStart hA h hs
  | dStart => exact invB_dStart hA h hs
  | xStep => exact invB_xStep hA h hs
  | xSpur => exact invB_xSpur hA h hs

end DmlcModel.TIter
