import DmlcModel.TIter.InvB
import DmlcModel.TIter.InvBcP
import DmlcModel.TIter.InvBcX
import DmlcModel.TIter.InvBcN
import DmlcModel.TIter.InvBcC
/-! Invariant group B (every allocated cell is in exactly one place) -- preservation by every transition -/
namespace DmlcModel.TIter
open DmlcModel.Gen.TIter

theorem invBc_step {rk : Bool} {P : Params} {s s' : State} {e : Event} (hA : InvA s) (h : CellsOK s)
    (hs : stepR rk P s e = some s') : CellsOK s' := by
  cases e with
  | prod => exact invBc_prod hA h hs
  | prodSpur => exact invBc_prodSpur hA h hs
  | nStart b => exact invBc_nStart hA h hs
  | nLoadSig => exact invBc_nLoadSig hA h hs
  | nExc => exact invBc_nExc hA h hs
  | nLock => exact invBc_nLock hA h hs
  | nRelock => exact invBc_nRelock hA h hs
  | nNotify => exact invBc_nNotify hA h hs
  | nRetItem => exact invBc_nRetItem hA h hs
  | nRetEnd => exact invBc_nRetEnd hA h hs
  | nSpur => exact invBc_nSpur hA h hs
  | rStart c => exact invBc_rStart hA h hs
  | rStartOut => exact invBc_rStartOut hA h hs
  | rExc c => exact invBc_rExc hA h hs
  | rLock c => exact invBc_rLock hA h hs
  | rNotify => exact invBc_rNotify hA h hs
  | rRet => exact invBc_rRet hA h hs
  | bStart => exact invBc_bStart hA h hs
  | dStart => exact invBc_dStart hA h hs
  | xStep => exact invBc_xStep hA h hs
  | xSpur => exact invBc_xSpur hA h hs

end DmlcModel.TIter
