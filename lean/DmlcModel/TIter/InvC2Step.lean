import DmlcModel.TIter.InvC
import DmlcModel.TIter.InvC2P
import DmlcModel.TIter.InvC2X
import DmlcModel.TIter.InvC2N
import DmlcModel.TIter.InvC2C
/-! Invariant group C2 (end flag, failure flags) -- preservation by every transition -/
namespace DmlcModel.TIter
open DmlcModel.Gen.TIter

theorem invC2_step {rk : Bool} {P : Params} {s s' : State} {e : Event} (hA : InvA s) (h : InvC2 P s)
    (hs : stepR rk P s e = some s') : InvC2 P s' := by
  cases e with
  | prod => exact invC2_prod hA h hs
  | prodSpur => exact invC2_prodSpur hA h hs
  | nStart b => exact invC2_nStart hA h hs
  | nLoadSig => exact invC2_nLoadSig hA h hs
  | nExc => exact invC2_nExc hA h hs
  | nLock => exact invC2_nLock hA h hs
  | nRelock => exact invC2_nRelock hA h hs
  | nNotify => exact invC2_nNotify hA h hs
  | nRetItem => exact invC2_nRetItem hA h hs
  | nRetEnd => exact invC2_nRetEnd hA h hs
  | nSpur => exact invC2_nSpur hA h hs
  | rStart c => exact invC2_rStart hA h hs
  | rStartOut => exact invC2_rStartOut hA h hs
  | rExc c => exact invC2_rExc hA h hs
  | rLock c => exact invC2_rLock hA h hs
  | rNotify => exact invC2_rNotify hA h hs
  | rRet => exact invC2_rRet hA h hs
  | bStart => exact invC2_bStart hA h hs
  | dStart => exact invC2_dStart hA h hs
  | xStep => exact invC2_xStep hA h hs
  | xSpur => exact invC2_xSpur hA h hs

end DmlcModel.TIter
