import DmlcModel.TIter.InvC
import DmlcModel.TIter.InvC1P
import DmlcModel.TIter.InvC1X
import DmlcModel.TIter.InvC1N
import DmlcModel.TIter.InvC1C
/-! Invariant group C1 (history of the pass: order, positions, source) -- preservation by every transition -/
namespace DmlcModel.TIter
open DmlcModel.Gen.TIter

theorem invC1_step {rk : Bool} {P : Params} {s s' : State} {e : Event} (hA : InvA s) (h : InvC1 P s)
    (hs : stepR rk P s e = some s') : InvC1 P s' := by
  cases e with
  | prod => exact invC1_prod hA h hs
  | prodSpur => exact invC1_prodSpur hA h hs
  | nStart b => exact invC1_nStart hA h hs
  | nLoadSig => exact invC1_nLoadSig hA h hs
  | nExc => exact invC1_nExc hA h hs
  | nLock => exact invC1_nLock hA h hs
  | nRelock => exact invC1_nRelock hA h hs
  | nNotify => exact invC1_nNotify hA h hs
  | nRetItem => exact invC1_nRetItem hA h hs
  | nRetEnd => exact invC1_nRetEnd hA h hs
  | nSpur => exact invC1_nSpur hA h hs
  | rStart c => exact invC1_rStart hA h hs
  | rStartOut => exact invC1_rStartOut hA h hs
  | rExc c => exact invC1_rExc hA h hs
  | rLock c => exact invC1_rLock hA h hs
  | rNotify => exact invC1_rNotify hA h hs
  | rRet => exact invC1_rRet hA h hs
  | bStart => exact invC1_bStart hA h hs
  | dStart => exact invC1_dStart hA h hs
  | xStep => exact invC1_xStep hA h hs
  | xSpur => exact invC1_xSpur hA h hs

end DmlcModel.TIter
