import DmlcModel.TIter.InvA
/-! Invariant group A (control structure) -- preservation, events: prodSpur nNotify nRetItem nRetEnd nSpur rStart rStartOut rExc rLock rNotify rRet bStart dStart xSpur (generated layout, hand-written tactic) -/
namespace DmlcModel.TIter
open DmlcModel.Gen.TIter
set_option maxHeartbeats 2000000
set_option linter.unusedSimpArgs false
set_option linter.unusedVariables false

theorem invA_prodSpur {rk : Bool} {P : Params} {s s' : State} (h : InvA s)
    (hs : stepR rk P s .prodSpur = some s') : InvA s' := by
  obtain ⟨h1, h2, h3, h4, h5, h6, h7, h8, h9, h10, h11, h12, h13, h14, h15, h16, h17, h18, h19, h20, h21, h22, h23, h24, h25, h26, h27, h28, h29, h30, h31⟩ := h
  simp only [kProduce, kBeforeFirst, kDestroy] at *
  open_step <;> (try simp only [Bool.not_eq_true, pPred_iff, pPred_false_iff, kProduce, kBeforeFirst, kDestroy] at *) <;>
    constructor <;> (try simp only [kProduce, kBeforeFirst, kDestroy]) <;> grind [busy, pWaiting]

theorem invA_nNotify {rk : Bool} {P : Params} {s s' : State} (h : InvA s)
    (hs : stepR rk P s .nNotify = some s') : InvA s' := by
  obtain ⟨h1, h2, h3, h4, h5, h6, h7, h8, h9, h10, h11, h12, h13, h14, h15, h16, h17, h18, h19, h20, h21, h22, h23, h24, h25, h26, h27, h28, h29, h30, h31⟩ := h
  simp only [kProduce, kBeforeFirst, kDestroy] at *
  open_step <;> (try simp only [Bool.not_eq_true, pPred_iff, pPred_false_iff, kProduce, kBeforeFirst, kDestroy] at *) <;>
    constructor <;> (try simp only [kProduce, kBeforeFirst, kDestroy]) <;> grind [busy, pWaiting]

theorem invA_nRetItem {rk : Bool} {P : Params} {s s' : State} (h : InvA s)
    (hs : stepR rk P s .nRetItem = some s') : InvA s' := by
  obtain ⟨h1, h2, h3, h4, h5, h6, h7, h8, h9, h10, h11, h12, h13, h14, h15, h16, h17, h18, h19, h20, h21, h22, h23, h24, h25, h26, h27, h28, h29, h30, h31⟩ := h
  simp only [kProduce, kBeforeFirst, kDestroy] at *
  open_step <;> (try simp only [Bool.not_eq_true, pPred_iff, pPred_false_iff, kProduce, kBeforeFirst, kDestroy] at *) <;>
    constructor <;> (try simp only [kProduce, kBeforeFirst, kDestroy]) <;> grind [busy, pWaiting]

theorem invA_nRetEnd {rk : Bool} {P : Params} {s s' : State} (h : InvA s)
    (hs : stepR rk P s .nRetEnd = some s') : InvA s' := by
  obtain ⟨h1, h2, h3, h4, h5, h6, h7, h8, h9, h10, h11, h12, h13, h14, h15, h16, h17, h18, h19, h20, h21, h22, h23, h24, h25, h26, h27, h28, h29, h30, h31⟩ := h
  simp only [kProduce, kBeforeFirst, kDestroy] at *
  open_step <;> (try simp only [Bool.not_eq_true, pPred_iff, pPred_false_iff, kProduce, kBeforeFirst, kDestroy] at *) <;>
    constructor <;> (try simp only [kProduce, kBeforeFirst, kDestroy]) <;> grind [busy, pWaiting]

theorem invA_nSpur {rk : Bool} {P : Params} {s s' : State} (h : InvA s)
    (hs : stepR rk P s .nSpur = some s') : InvA s' := by
  obtain ⟨h1, h2, h3, h4, h5, h6, h7, h8, h9, h10, h11, h12, h13, h14, h15, h16, h17, h18, h19, h20, h21, h22, h23, h24, h25, h26, h27, h28, h29, h30, h31⟩ := h
  simp only [kProduce, kBeforeFirst, kDestroy] at *
  open_step <;> (try simp only [Bool.not_eq_true, pPred_iff, pPred_false_iff, kProduce, kBeforeFirst, kDestroy] at *) <;>
    constructor <;> (try simp only [kProduce, kBeforeFirst, kDestroy]) <;> grind [busy, pWaiting]

theorem invA_rStart {rk : Bool} {P : Params} {s s' : State} {c : Nat} (h : InvA s)
    (hs : stepR rk P s (.rStart c) = some s') : InvA s' := by
  obtain ⟨h1, h2, h3, h4, h5, h6, h7, h8, h9, h10, h11, h12, h13, h14, h15, h16, h17, h18, h19, h20, h21, h22, h23, h24, h25, h26, h27, h28, h29, h30, h31⟩ := h
  simp only [kProduce, kBeforeFirst, kDestroy] at *
  open_step <;> (try simp only [Bool.not_eq_true, pPred_iff, pPred_false_iff, kProduce, kBeforeFirst, kDestroy] at *) <;>
    constructor <;> (try simp only [kProduce, kBeforeFirst, kDestroy]) <;> grind [busy, pWaiting]

theorem invA_rStartOut {rk : Bool} {P : Params} {s s' : State} (h : InvA s)
    (hs : stepR rk P s .rStartOut = some s') : InvA s' := by
  obtain ⟨h1, h2, h3, h4, h5, h6, h7, h8, h9, h10, h11, h12, h13, h14, h15, h16, h17, h18, h19, h20, h21, h22, h23, h24, h25, h26, h27, h28, h29, h30, h31⟩ := h
  simp only [kProduce, kBeforeFirst, kDestroy] at *
  open_step <;> (try simp only [Bool.not_eq_true, pPred_iff, pPred_false_iff, kProduce, kBeforeFirst, kDestroy] at *) <;>
    constructor <;> (try simp only [kProduce, kBeforeFirst, kDestroy]) <;> grind [busy, pWaiting]

theorem invA_rExc {rk : Bool} {P : Params} {s s' : State} {c : Nat} (h : InvA s)
    (hs : stepR rk P s (.rExc c) = some s') : InvA s' := by
  obtain ⟨h1, h2, h3, h4, h5, h6, h7, h8, h9, h10, h11, h12, h13, h14, h15, h16, h17, h18, h19, h20, h21, h22, h23, h24, h25, h26, h27, h28, h29, h30, h31⟩ := h
  simp only [kProduce, kBeforeFirst, kDestroy] at *
  open_step <;> (try simp only [Bool.not_eq_true, pPred_iff, pPred_false_iff, kProduce, kBeforeFirst, kDestroy] at *) <;>
    constructor <;> (try simp only [kProduce, kBeforeFirst, kDestroy]) <;> grind [busy, pWaiting]

theorem invA_rLock {rk : Bool} {P : Params} {s s' : State} {c : Nat} (h : InvA s)
    (hs : stepR rk P s (.rLock c) = some s') : InvA s' := by
  obtain ⟨h1, h2, h3, h4, h5, h6, h7, h8, h9, h10, h11, h12, h13, h14, h15, h16, h17, h18, h19, h20, h21, h22, h23, h24, h25, h26, h27, h28, h29, h30, h31⟩ := h
  simp only [kProduce, kBeforeFirst, kDestroy] at *
  open_step <;> (try simp only [Bool.not_eq_true, pPred_iff, pPred_false_iff, kProduce, kBeforeFirst, kDestroy] at *) <;>
    constructor <;> (try simp only [kProduce, kBeforeFirst, kDestroy]) <;> grind [busy, pWaiting]

theorem invA_rNotify {rk : Bool} {P : Params} {s s' : State} (h : InvA s)
    (hs : stepR rk P s .rNotify = some s') : InvA s' := by
  obtain ⟨h1, h2, h3, h4, h5, h6, h7, h8, h9, h10, h11, h12, h13, h14, h15, h16, h17, h18, h19, h20, h21, h22, h23, h24, h25, h26, h27, h28, h29, h30, h31⟩ := h
  simp only [kProduce, kBeforeFirst, kDestroy] at *
  open_step <;> (try simp only [Bool.not_eq_true, pPred_iff, pPred_false_iff, kProduce, kBeforeFirst, kDestroy] at *) <;>
    constructor <;> (try simp only [kProduce, kBeforeFirst, kDestroy]) <;> grind [busy, pWaiting]

theorem invA_rRet {rk : Bool} {P : Params} {s s' : State} (h : InvA s)
    (hs : stepR rk P s .rRet = some s') : InvA s' := by
  obtain ⟨h1, h2, h3, h4, h5, h6, h7, h8, h9, h10, h11, h12, h13, h14, h15, h16, h17, h18, h19, h20, h21, h22, h23, h24, h25, h26, h27, h28, h29, h30, h31⟩ := h
  simp only [kProduce, kBeforeFirst, kDestroy] at *
  open_step <;> (try simp only [Bool.not_eq_true, pPred_iff, pPred_false_iff, kProduce, kBeforeFirst, kDestroy] at *) <;>
    constructor <;> (try simp only [kProduce, kBeforeFirst, kDestroy]) <;> grind [busy, pWaiting]

theorem invA_bStart {rk : Bool} {P : Params} {s s' : State} (h : InvA s)
    (hs : stepR rk P s .bStart = some s') : InvA s' := by
  obtain ⟨h1, h2, h3, h4, h5, h6, h7, h8, h9, h10, h11, h12, h13, h14, h15, h16, h17, h18, h19, h20, h21, h22, h23, h24, h25, h26, h27, h28, h29, h30, h31⟩ := h
  simp only [kProduce, kBeforeFirst, kDestroy] at *
  open_step <;> (try simp only [Bool.not_eq_true, pPred_iff, pPred_false_iff, kProduce, kBeforeFirst, kDestroy] at *) <;>
    constructor <;> (try simp only [kProduce, kBeforeFirst, kDestroy]) <;> grind [busy, pWaiting]

theorem invA_dStart {rk : Bool} {P : Params} {s s' : State} (h : InvA s)
    (hs : stepR rk P s .dStart = some s') : InvA s' := by
  obtain ⟨h1, h2, h3, h4, h5, h6, h7, h8, h9, h10, h11, h12, h13, h14, h15, h16, h17, h18, h19, h20, h21, h22, h23, h24, h25, h26, h27, h28, h29, h30, h31⟩ := h
  simp only [kProduce, kBeforeFirst, kDestroy] at *
  open_step <;> (try simp only [Bool.not_eq_true, pPred_iff, pPred_false_iff, kProduce, kBeforeFirst, kDestroy] at *) <;>
    constructor <;> (try simp only [kProduce, kBeforeFirst, kDestroy]) <;> grind [busy, pWaiting]

theorem invA_xSpur {rk : Bool} {P : Params} {s s' : State} (h : InvA s)
    (hs : stepR rk P s .xSpur = some s') : InvA s' := by
  obtain ⟨h1, h2, h3, h4, h5, h6, h7, h8, h9, h10, h11, h12, h13, h14, h15, h16, h17, h18, h19, h20, h21, h22, h23, h24, h25, h26, h27, h28, h29, h30, h31⟩ := h
  simp only [kProduce, kBeforeFirst, kDestroy] at *
  open_step <;> (try simp only [Bool.not_eq_true, pPred_iff, pPred_false_iff, kProduce, kBeforeFirst, kDestroy] at *) <;>
    constructor <;> (try simp only [kProduce, kBeforeFirst, kDestroy]) <;> grind [busy, pWaiting]

end DmlcModel.TIter
