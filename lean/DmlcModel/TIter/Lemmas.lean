import DmlcModel.TIter.Model
/-!
Specification lemmas for the generated predicates (`Gen/TIter.lean`) and the proof automation shared by the
invariant files.  If an anchored expression of `threadediter.h` is edited, these lemmas (and with them every
theorem downstream) stop compiling.
-/
namespace DmlcModel.TIter
open DmlcModel.Gen.TIter

theorem signals_spec : kProduce = 0 ∧ kBeforeFirst = 1 ∧ kDestroy = 2 := ⟨rfl, rfl, rfl⟩

/-- the producer's wait predicate: a command other than `produce`, or the pass is not over and there is room -/
theorem pPred_iff (P : Params) (s : State) :
    pPred P s = true ↔ (s.sig = kProduce → s.produceEnd = false ∧ (s.queue.length < P.cap ∨ s.free.length ≠ 0)) := by
  simp only [pPred, pWaitIsProduce, pWaitProduce, pWaitOther, kProduce]
  by_cases h : s.sig = 0 <;> simp [h]

theorem pPred_false_iff (P : Params) (s : State) :
    pPred P s = false ↔ (s.sig = kProduce ∧ (s.produceEnd = true ∨ (P.cap ≤ s.queue.length ∧ s.free.length = 0))) := by
  simp only [pPred, pWaitIsProduce, pWaitProduce, pWaitOther, kProduce]
  by_cases h : s.sig = 0 <;> by_cases h2 : s.produceEnd = true <;> simp [h, h2] <;> omega

theorem nWaitPred_iff (q : Nat) (e : Bool) : nWaitPred q e = true ↔ (q ≠ 0 ∨ e = true) := by
  simp [nWaitPred]

theorem notify_specs (n : Nat) (e : Bool) :
    (nNotify n e = true ↔ (n ≠ 0 ∧ e = false)) ∧ (rNotify n e = true ↔ (n ≠ 0 ∧ e = false)) ∧
    (bNotify n e = true ↔ (n ≠ 0 ∧ e = false)) ∧ (bPostNotify n = true ↔ n ≠ 0) ∧ (dNotify n = true ↔ n ≠ 0) ∧
    (pPublishNotify n = true ↔ n ≠ 0) ∧ (cNotify n = true ↔ n ≠ 0) := by
  simp [nNotify, rNotify, bNotify, bPostNotify, dNotify, pPublishNotify, cNotify]

theorem wokenLoc_eq (l : PLoc) : wokenLoc l = if l = .waitSet then .woken else l := by
  cases l <;> rfl

/-- the cell of the Next()/Value() interface goes back to the free list (nothing happens if there is none) -/
theorem bOut_eq (s : State) :
    bOut s = { s with free := s.free ++ (optList s.outData).map (·.1), outData := none } := by
  cases h : s.outData <;> simp [bOut, bHasOut, outCode, optCode, optList, h]

set_option hygiene false in
/-- case split of `hs : stepR rk P s e = some s'` into all branches of the transition (every `if`/`match` of the
model, including those inside the new state), with `s'` substituted by a structure literal.  The producer's
wait predicate stays folded (`pPred P s = true/false`, see `pPred_iff`). -/
macro "open_step" : tactic => `(tactic|
  (simp only [stepR, prodStep, xStep, pEnter, pCallback, pPublish, pCatch, nTake, bAfter, cleanup, endCall, wakeProducer,
     wakeConsumers, rAfter, bOut_eq, wokenLoc_eq, pTakeIsProduce, pTakeHasFree, pTakeIsRewind,
     pStoreEnd, pPublishIsItem, pPublishHasCell, pPublishNotify, cIsRewind, cIsProduce, cNotify, nIsDestroyed, nSigOk,
     nWaitPred, nHasItem, nNotify, nEndCheck, rNotify, bIsDestroyed, bProcCheck, bPostNotify, bWaitPred, bNotify,
     dNotify, kProduce, kBeforeFirst, kDestroy, optCode, beq_iff_eq, bne_iff_ne, ne_eq, decide_eq_true_eq, Bool.and_eq_true,
     Bool.or_eq_true, Bool.not_eq_true', Bool.not_eq_true] at hs
   repeat' (first | contradiction | split at hs | injection hs with hs | subst hs)))

end DmlcModel.TIter
