import DmlcModel.TIter.InvE
import DmlcModel.TIter.InvEP
import DmlcModel.TIter.InvEX
import DmlcModel.TIter.InvEN
import DmlcModel.TIter.InvEC
/-! Invariant group E (rewind handshake) -- preservation by every transition -/
namespace DmlcModel.TIter
open DmlcModel.Gen.TIter

theorem invE_step {rk : Bool} {P : Params} {s s' : State} {e : Event} (hA : InvA s) (h : InvE P s)
    (hs : stepR rk P s e = some s') : InvE P s' := by
  cases e with
  | prod => exact invE_prod hA h hs
  | prodSpur => exact invE_prodSpur hA h hs
  | nStart b => exact invE_nStart hA h hs
  | nLoadSig => exact invE_nLoadSig hA h hs
  | nExc => exact invE_nExc hA h hs
  | nLock => exact invE_nLock hA h hs
  | nRelock => exact invE_nRelock hA h hs
  | nNotify => exact invE_nNotify hA h hs
  | nRetItem => exact invE_nRetItem hA h hs
  | nRetEnd => exact invE_nRetEnd hA h hs
  | nSpur => exact invE_nSpur hA h hs
  | rStart c => exact invE_rStart hA h hs
  | rStartOut => exact invE_rStartOut hA h hs
  | rExc c => exact invE_rExc hA h hs
  | rLock c => exact invE_rLock hA h hs
  | rNotify => exact invE_rNotify hA h hs
  | rRet => exact invE_rRet hA h hs
  | bStart => exact invE_bStart hA h hs
  | dStart => exact invE_dStart hA h hs
  | xStep => exact invE_xStep hA h hs
  | xSpur => exact invE_xSpur hA h hs

end DmlcModel.TIter
