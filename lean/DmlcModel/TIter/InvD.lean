import DmlcModel.TIter.InvA
/-!
Group D of the invariant: no lost wake-up.  Whoever sits in a wait set either still has a false predicate or
a notification for it is already committed.  `dB1` needs the repaired `BeforeFirst` (`rk = true`,
fixes/C09-1.diff): for the pinned code it is false (see Props/C09Witness.lean).
-/
namespace DmlcModel.TIter
open DmlcModel.Gen.TIter

structure InvD (P : Params) (s : State) : Prop where
  dC : 0 < s.nW → (s.queue = [] ∧ s.produceEnd = false) ∨ s.ploc = .publish ∨ s.ploc = .notifyTop ∨ s.ploc = .notifyExit
  dP : s.ploc = .waitSet → s.sig = kProduce ∧
        (s.produceEnd = true ∨ (P.cap ≤ s.queue.length ∧ s.free.length = 0) ∨ 0 < s.n4 + s.r2)
  dB1 : (s.xloc = .bWait ∨ s.xloc = .bWoken) → s.processed = false →
        s.sig = kBeforeFirst ∧ s.ploc ≠ .waitSet ∧ s.ploc ≠ .exited ∧ s.ploc ≠ .notifyExit
  dB2 : s.xloc = .bWait → s.processed = true → s.ploc = .notifyTop ∨ s.ploc = .notifyExit
  dX : (s.ploc = .exited ∨ s.ploc = .notifyExit) → s.produceEnd = true ∨ s.sig = kDestroy

theorem invD_init (P : Params) : InvD P init := by
  constructor <;> simp [init]

end DmlcModel.TIter
