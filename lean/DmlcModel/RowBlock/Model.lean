/-
Executable model of the row-block layer of dmlc-core (C13), core Lean only.

  src/data/row_block.h      RowBlockContainer: Clear, Push(Row), Push(RowBlock), GetBlock, Save, Load, MemCostBytes
  include/dmlc/data.h       RowBlock: Slice, operator[]  (+ reading a Row through its accessors)
  src/data/basic_row_iter.h BasicRowIter::Init
  src/data/disk_row_iter.h  DiskRowIter::BuildCache / TryLoadCache / Next
  src/data/*_parser.h       only the container bookkeeping of the three ParseBlock functions and their
                            end-of-block CHECKs, driven by an abstract list of per-line emissions

The model follows the REPAIRED code (fixes/C13-1..3).  All arithmetic comes from `Gen.RowBlock`.
Element values are raw bit patterns (`Nat`): `float` label/weight/value = 4 bytes, qid/offset = 8 bytes,
field/index = `iw` bytes (4 or 8).  A pointer is `Option (List Nat)`: `none` = NULL, `some l` = the
allocated extent visible from the pointer, so a too-short array is representable and a read past it is
the outcome `Err.oob`.
-/
import DmlcModel.Basic
import DmlcModel.Gen.RowBlock

namespace DmlcModel.RowBlock
open DmlcModel

/-- `check` = a failed CHECK / LOG(FATAL) (dmlc::Error); `oob` = a read or write outside an array -/
inductive Err
  | check
  | oob
  deriving DecidableEq, Repr

abbrev R (α : Type) := Except Err α

/-- bit pattern of `1.0f` (default weight of `Row::get_weight`) -/
def oneF : Nat := 0x3f800000

-- ------------------------------------------------------------------------------------------------
-- container and block view
-- ------------------------------------------------------------------------------------------------

structure Container where
  offset : List Nat
  label : List Nat
  weight : List Nat
  qid : List Nat
  field : List Nat
  index : List Nat
  value : List Nat
  maxField : Nat
  maxIndex : Nat
  deriving DecidableEq, Repr

/-- the state `Clear()` establishes (and the constructor, which calls `Clear`) -/
def Container.empty : Container :=
  { offset := [0], label := [], weight := [], qid := [], field := [], index := [], value := [],
    maxField := 0, maxIndex := 0 }

def Container.clear (_c : Container) : Container := Container.empty

/-- `Size()` -/
def Container.size (c : Container) : Nat := Gen.RowBlock.gbSize c.offset.length

/-- `BeginPtr(vec)`: NULL for an empty vector -/
def beginPtr (l : List Nat) : Option (List Nat) :=
  match l with
  | [] => none
  | _ :: _ => some l

/-- `RowBlock`: a view; every array is a pointer with the extent that is really allocated behind it -/
structure Block where
  size : Nat
  offset : List Nat
  label : Option (List Nat)
  weight : Option (List Nat)
  qid : Option (List Nat)
  field : Option (List Nat)
  index : Option (List Nat)
  value : Option (List Nat)
  deriving DecidableEq, Repr

/-- the extent behind a pointer (nothing behind NULL) -/
def ext (p : Option (List Nat)) : List Nat :=
  match p with
  | none => []
  | some l => l

/-- `RowBlockContainer::GetBlock`: its CHECKs and nothing more -/
def getBlock (c : Container) : R Block :=
  match c.offset.getLast? with
  | none => .error .oob                               -- offset.back() of an empty vector
  | some back =>
    if Gen.RowBlock.gbLabelGuard c.label.length && !Gen.RowBlock.gbLabelEq c.label.length c.offset.length then
      .error .check
    else if !Gen.RowBlock.gbIndexEq back c.index.length then .error .check
    else if !Gen.RowBlock.gbValueOk back c.value.length then .error .check
    else if !Gen.RowBlock.gbWeightOk c.weight.length c.offset.length then .error .check
    else if !Gen.RowBlock.gbQidOk c.qid.length c.offset.length then .error .check
    else if !Gen.RowBlock.gbFieldOk c.field.length c.index.length then .error .check
    else .ok { size := Gen.RowBlock.gbSize c.offset.length, offset := c.offset,
               label := beginPtr c.label, weight := beginPtr c.weight, qid := beginPtr c.qid,
               field := beginPtr c.field, index := beginPtr c.index, value := beginPtr c.value }

/-- `RowBlock::Slice(begin, end)`: label/weight/qid/offset pointers advance, the entry arrays stay -/
def Block.slice (b : Block) (bgn e : Nat) : R Block :=
  if Gen.RowBlock.sliceOk bgn e b.size then
    .ok { size := Gen.RowBlock.sliceSize bgn e, offset := b.offset.drop bgn,
          label := b.label.map (·.drop bgn), weight := b.weight.map (·.drop bgn),
          qid := b.qid.map (·.drop bgn), field := b.field, index := b.index, value := b.value }
  else .error .check

-- ------------------------------------------------------------------------------------------------
-- rows
-- ------------------------------------------------------------------------------------------------

/-- the content of one `Row` as a consumer reads it through the pointers: `none` = NULL pointer.
`field`, `index`, `value` all have the row's `length`. -/
structure RowVal where
  label : Option Nat
  weight : Option Nat
  qid : Option Nat
  field : Option (List Nat)
  index : List Nat
  value : Option (List Nat)
  deriving DecidableEq, Repr

/-- `n` elements starting at `lo` -/
def seg (l : List Nat) (lo n : Nat) : List Nat := (l.drop lo).take n

/-- read `p[i]` if `p` is not NULL -/
def rd1 (p : Option (List Nat)) (i : Nat) : R (Option Nat) :=
  match p with
  | none => .ok none
  | some l =>
    match l[i]? with
    | some x => .ok (some x)
    | none => .error .oob

/-- read `l[lo .. lo+n)`; nothing is touched when `n = 0` -/
def rdSeg (l : List Nat) (lo n : Nat) : R (List Nat) :=
  if n = 0 then .ok []
  else if lo + n ≤ l.length then .ok (seg l lo n)
  else .error .oob

def rdSegOpt (p : Option (List Nat)) (lo n : Nat) : R (Option (List Nat)) :=
  match p with
  | none => .ok none
  | some l =>
    match rdSeg l lo n with
    | .ok xs => .ok (some xs)
    | .error e => .error e

/-- reading every element of the row `operator[]` returned (label, weight, qid through the pointers that are
not NULL; `n` entries starting at `lo`), which is what the harness does under AddressSanitizer -/
def Block.readRow (b : Block) (i lo n : Nat) : R RowVal := do
  let l ← rd1 b.label i
  let w ← rd1 b.weight i
  let q ← rd1 b.qid i
  let f ← rdSegOpt b.field lo n
  let ix ← rdSeg (ext b.index) lo n
  let v ← rdSegOpt b.value lo n
  pure { label := l, weight := w, qid := q, field := f, index := ix, value := v }

/-- `RowBlock::operator[](rowid)` followed by reading the row -/
def Block.row (b : Block) (i : Nat) : R RowVal :=
  if Gen.RowBlock.rowIdOk i b.size then
    match b.offset[i]?, b.offset[i + 1]? with
    | some lo, some hi => b.readRow i lo (Gen.RowBlock.rowLen hi lo)
    | _, _ => .error .oob
  else .error .check

/-- rows `i, i+1, …, i+n-1` -/
def Block.rowsFrom (b : Block) : Nat → Nat → R (List RowVal)
  | _, 0 => .ok []
  | i, n + 1 =>
    match b.row i with
    | .error e => .error e
    | .ok r =>
      match b.rowsFrom (i + 1) n with
      | .error e => .error e
      | .ok rs => .ok (r :: rs)

/-- all rows of a block, read in order -/
def Block.rows (b : Block) : R (List RowVal) := b.rowsFrom 0 b.size

-- ------------------------------------------------------------------------------------------------
-- Push(Row)
-- ------------------------------------------------------------------------------------------------

/-- the `for` loops of `Push(Row)`: CHECK_LE against the container's index type, push_back, running max -/
def pushVals (lim : Nat) : List Nat → List Nat → Nat → List Nat × Nat × Bool
  | [], dst, m => (dst, m, true)
  | x :: xs, dst, m =>
    if x ≤ lim then pushVals lim xs (dst ++ [x]) (Nat.max m x) else (dst, m, false)

/-- `RowBlockContainer::Push(Row)`.  `lim` = `numeric_limits<IndexType>::max()`.  The second component
is the exception thrown, if any; the container is the (partially updated) state left behind. -/
def pushRow (lim : Nat) (c : Container) (r : RowVal) : Container × Option Err :=
  let c1 : Container :=
    { c with label := (match r.label with | some l => c.label ++ [l] | none => c.label),
             weight := c.weight ++ [match r.weight with | some w => w | none => oneF],
             qid := c.qid ++ [match r.qid with | some q => q | none => 0] }
  let fr : Container × Bool :=
    match r.field with
    | some fs =>
      let res := pushVals lim fs c1.field c1.maxField
      ({ c1 with field := res.1, maxField := res.2.1 }, res.2.2)
    | none => (c1, true)
  if !fr.2 then (fr.1, some .check)
  else
    let res := pushVals lim r.index fr.1.index fr.1.maxIndex
    let c3 : Container := { fr.1 with index := res.1, maxIndex := res.2.1 }
    if !res.2.2 then (c3, some .check)
    else
      let c4 : Container :=
        match r.value with
        | some vs => { c3 with value := c3.value ++ vs }
        | none => c3
      ({ c4 with offset := c4.offset ++ [Gen.RowBlock.prOffNew c4.index.length] }, none)

-- ------------------------------------------------------------------------------------------------
-- Push(RowBlock)
-- ------------------------------------------------------------------------------------------------

/-- one pass of `for (i = 0; i < n; ++i) { x = src[srcIdx i]; CHECK(chk x); dst[base + i] = f x; m = max(m, f x) }`
(`rem` = iterations left, `i` = loop counter) -/
def copyGo (chk : Nat → Bool) (f : Nat → Nat) (src : List Nat) (srcIdx : Nat → Nat) (base : Nat) :
    Nat → Nat → List Nat → Nat → List Nat × Nat × Option Err
  | 0, _, dst, m => (dst, m, none)
  | rem + 1, i, dst, m =>
    match src[srcIdx i]? with
    | none => (dst, m, some .oob)
    | some x =>
      if chk x then
        if base + i < dst.length then
          copyGo chk f src srcIdx base rem (i + 1) (dst.set (base + i) (f x)) (Nat.max m (f x))
        else (dst, m, some .oob)
      else (dst, m, some .check)

/-- sequencing of the statements of a member function that may throw -/
def andThen (x : Container × Option Err) (f : Container → Container × Option Err) : Container × Option Err :=
  match x.2 with
  | none => f x.1
  | some _ => x

/-- `vec.insert(vec.end(), p, p + n)` guarded by `p != NULL` -/
def insertRows (dst : List Nat) (p : Option (List Nat)) (n : Nat) : R (List Nat) :=
  match p with
  | none => .ok dst
  | some l =>
    match rdSeg l 0 n with
    | .ok xs => .ok (dst ++ xs)
    | .error e => .error e

/-- `batch.offset[0]` and `ndata = batch.offset[batch.size] - batch.offset[0]` -/
def ndataOf (b : Block) : R (Nat × Nat) :=
  match b.offset[0]?, b.offset[b.size]? with
  | some off0, some offEnd => .ok (off0, Gen.RowBlock.pbNdata offEnd off0)
  | _, _ => .error .oob

def stepLabel (b : Block) (c : Container) : Container × Option Err :=
  match insertRows c.label b.label b.size with
  | .ok l => ({ c with label := l }, none)
  | .error e => (c, some e)

def stepWeight (b : Block) (c : Container) : Container × Option Err :=
  match insertRows c.weight b.weight b.size with
  | .ok l => ({ c with weight := l }, none)
  | .error e => (c, some e)

def stepQid (b : Block) (c : Container) : Container × Option Err :=
  match insertRows c.qid b.qid b.size with
  | .ok l => ({ c with qid := l }, none)
  | .error e => (c, some e)

def stepField (lim : Nat) (b : Block) (c : Container) : Container × Option Err :=
  match b.field with
  | none => (c, none)
  | some fl =>
    match ndataOf b, c.offset.getLast? with
    | .ok (off0, nd), some back =>
      let f1 := c.field ++ List.replicate nd 0                         -- field.resize(field.size() + ndata)
      let base := Gen.RowBlock.pbFieldDst f1.length nd back
      let res := copyGo (fun x => decide (x ≤ lim)) id fl (Gen.RowBlock.pbFieldSrc off0) base nd 0 f1 c.maxField
      ({ c with field := res.1, maxField := res.2.1 }, res.2.2)
    | _, _ => (c, some .oob)

def stepIndex (lim : Nat) (b : Block) (c : Container) : Container × Option Err :=
  match ndataOf b, c.offset.getLast? with
  | .ok (off0, nd), some back =>
    let i1 := c.index ++ List.replicate nd 0                           -- index.resize(index.size() + ndata)
    let base := Gen.RowBlock.pbIndexDst back i1.length nd
    let res := copyGo (fun x => decide (x ≤ lim)) id (ext b.index) (Gen.RowBlock.pbIndexSrc off0) base nd 0 i1
      c.maxIndex
    ({ c with index := res.1, maxIndex := res.2.1 }, res.2.2)
  | _, _ => (c, some .oob)

/-- `memcpy(dst + base, xs, …)` into a vector of the given contents -/
def writeSeg (l : List Nat) (base : Nat) (xs : List Nat) : R (List Nat) :=
  if xs.length = 0 then .ok l
  else if base + xs.length ≤ l.length then .ok (l.take base ++ xs ++ l.drop (base + xs.length))
  else .error .oob

def stepValue (b : Block) (c : Container) : Container × Option Err :=
  match b.value with
  | none => (c, none)
  | some vl =>
    match ndataOf b with
    | .ok (off0, nd) =>
      let v1 := c.value ++ List.replicate nd 0                         -- value.resize(value.size() + ndata)
      let base := Gen.RowBlock.pbValueDst v1.length nd
      match rdSeg vl (Gen.RowBlock.pbValueSrc off0) (Gen.RowBlock.pbValueBytes nd 4 / 4) with
      | .error e => ({ c with value := v1 }, some e)
      | .ok xs =>
        match writeSeg v1 base xs with
        | .ok v2 => ({ c with value := v2 }, none)
        | .error e => ({ c with value := v1 }, some e)
    | .error e => (c, some e)

/-- `size` = the number of rows before the push (computed first in the C++) -/
def stepOffset (size : Nat) (b : Block) (c : Container) : Container × Option Err :=
  match c.offset[Gen.RowBlock.pbShiftIdx size]?, b.offset[0]? with
  | some shift, some off0 =>
    let o1 := c.offset ++ List.replicate b.size 0                       -- offset.resize(offset.size() + batch.size)
    let res := copyGo (fun _ => true) (fun x => Gen.RowBlock.pbOffNew shift x off0) b.offset
      Gen.RowBlock.pbOffNextIdx (Gen.RowBlock.pbOffDst size) b.size 0 o1 0
    ({ c with offset := res.1 }, res.2.2)
  | _, _ => (c, some .oob)

/-- `RowBlockContainer::Push(RowBlock)` -/
def pushBlock (lim : Nat) (c : Container) (b : Block) : Container × Option Err :=
  let size := Gen.RowBlock.pbRows c.offset.length
  andThen (andThen (andThen (andThen (andThen (andThen (stepLabel b c) (stepWeight b)) (stepQid b))
    (stepField lim b)) (stepIndex lim b)) (stepValue b)) (stepOffset size b)

-- ------------------------------------------------------------------------------------------------
-- Save / Load (serializer vector format: u64 LE count + raw elements; two raw IndexType)
-- ------------------------------------------------------------------------------------------------

/-- `w` little-endian bytes of `n` -/
def leN : Nat → Nat → Bytes
  | 0, _ => []
  | w + 1, n => UInt8.ofNat (n % 256) :: leN w (n / 256)

/-- the number a little-endian byte string denotes -/
def deN : Bytes → Nat
  | [] => 0
  | b :: bs => b.toNat + 256 * deN bs

def saveVec (w : Nat) (l : List Nat) : Bytes := leN 8 l.length ++ l.flatMap (leN w)

/-- `RowBlockContainer::Save`; `iw = sizeof(IndexType)` -/
def save (iw : Nat) (c : Container) : Bytes :=
  saveVec 8 c.offset ++ saveVec 4 c.label ++ saveVec 4 c.weight ++ saveVec 8 c.qid ++ saveVec iw c.field ++
    saveVec iw c.index ++ saveVec 4 c.value ++ leN iw c.maxField ++ leN iw c.maxIndex

def decodeElems (w : Nat) : Nat → Bytes → List Nat
  | 0, _ => []
  | n + 1, bs => deN (bs.take w) :: decodeElems w n (bs.drop w)

/-- `NativePODVectorHandler::Read`: `none` = the function returns false -/
def loadVec (w : Nat) (bs : Bytes) : Option (List Nat × Bytes) :=
  if 8 ≤ bs.length then
    let n := deN (bs.take 8)
    let rest := bs.drop 8
    if n = 0 then some ([], rest)
    else if n * w ≤ rest.length then some (decodeElems w n (rest.take (n * w)), rest.drop (n * w))
    else none
  else none

/-- reading `max_field` / `max_index`.  Repaired code (`Gen.RowBlock.loadScalarTyped`, C15-F2): `fi->Read(&x)`, the
typed read -- all `w` bytes or failure.  Pinned code: `fi->Read(&x, sizeof(IndexType))` with the CHECK on its
(non-zero) return value: a short read overwrites only the low bytes of the old (`w`-byte) value and counts as
success. -/
def loadRaw (w : Nat) (old : Nat) (bs : Bytes) : Option (Nat × Bytes) :=
  if Gen.RowBlock.loadScalarTyped then
    if w ≤ bs.length then some (deN (bs.take w), bs.drop w) else none
  else
    let k := Nat.min w bs.length
    if k = 0 then none
    else some (deN (bs.take k) + old % 256 ^ w / 256 ^ k * 256 ^ k, bs.drop k)

inductive LoadRes
  | eof                                  -- Load returned false
  | bad                                  -- a CHECK "Bad RowBlock format" failed
  | ok (c : Container) (rest : Bytes)
  deriving DecidableEq, Repr

/-- `RowBlockContainer::Load` into a container whose current `max_field/max_index` are `old` -/
def load (iw : Nat) (old : Container) (bs : Bytes) : LoadRes :=
  match loadVec 8 bs with
  | none => .eof
  | some (offset, b1) =>
    match loadVec 4 b1 with
    | none => .bad
    | some (label, b2) =>
      match loadVec 4 b2 with
      | none => .bad
      | some (weight, b3) =>
        match loadVec 8 b3 with
        | none => .bad
        | some (qid, b4) =>
          match loadVec iw b4 with
          | none => .bad
          | some (field, b5) =>
            match loadVec iw b5 with
            | none => .bad
            | some (index, b6) =>
              match loadVec 4 b6 with
              | none => .bad
              | some (value, b7) =>
                match loadRaw iw old.maxField b7 with
                | none => .bad
                | some (mf, b8) =>
                  match loadRaw iw old.maxIndex b8 with
                  | none => .bad
                  | some (mi, b9) =>
                    .ok { offset := offset, label := label, weight := weight, qid := qid, field := field,
                          index := index, value := value, maxField := mf, maxIndex := mi } b9

/-- `MemCostBytes()`; `float` data -/
def memCost (iw : Nat) (c : Container) : Nat :=
  Gen.RowBlock.memCost c.offset.length c.label.length c.weight.length c.qid.length c.field.length
    c.index.length c.value.length iw 4

-- ------------------------------------------------------------------------------------------------
-- row iterators.  The parser is the list of blocks its `Next()/Value()` hand out.
-- ------------------------------------------------------------------------------------------------

/-- the `while (parser->Next()) data.Push(parser->Value())` loop -/
def pushAll (lim : Nat) : Container → List Block → Container × Option Err
  | c, [] => (c, none)
  | c, b :: bs => andThen (pushBlock lim c b) (fun c' => pushAll lim c' bs)

/-- `BasicRowIter::Init`: the single block every pass hands out -/
def basicInit (lim : Nat) (blocks : List Block) : R Block :=
  match pushAll lim Container.empty blocks with
  | (c, none) => getBlock c
  | (_, some e) => .error e

/-- rows seen by `npass` passes (`BeforeFirst(); while (Next()) …`) of a `BasicRowIter` -/
def basicPasses (lim : Nat) (blocks : List Block) (npass : Nat) : R (List (List RowVal)) :=
  match basicInit lim blocks with
  | .error e => .error e
  | .ok b =>
    match b.rows with
    | .error e => .error e
    | .ok rs => .ok (List.replicate npass rs)

structure BuildSt where
  data : Container
  file : Bytes
  numCol : Nat
  deriving DecidableEq, Repr

/-- `DiskRowIter::BuildCache` with the page test as a parameter (`full (MemCostBytes())`) -/
def buildGo (full : Nat → Bool) (iw lim : Nat) : BuildSt → List Block → BuildSt × Option Err
  | st, [] =>
    if Gen.RowBlock.finalSave st.data.size then
      ({ st with file := st.file ++ save iw st.data,
                 numCol := Nat.max st.numCol (Gen.RowBlock.numColOf st.data.maxIndex) }, none)
    else (st, none)
  | st, b :: bs =>
    match pushBlock lim st.data b with
    | (d, some e) => ({ st with data := d }, some e)
    | (d, none) =>
      if full (memCost iw d) then
        buildGo full iw lim { data := Container.empty, file := st.file ++ save iw d,
                              numCol := Nat.max st.numCol (Gen.RowBlock.numColOf d.maxIndex) } bs
      else buildGo full iw lim { st with data := d } bs

def buildCacheWith (full : Nat → Bool) (iw lim : Nat) (blocks : List Block) : R (Bytes × Nat) :=
  match buildGo full iw lim { data := Container.empty, file := [], numCol := 0 } blocks with
  | (st, none) => .ok (st.file, st.numCol)
  | (_, some e) => .error e

/-- the cache file `BuildCache` writes (page test of the source: `MemCostBytes() >= kPageSize`) -/
def buildCache (iw lim : Nat) (blocks : List Block) : R (Bytes × Nat) :=
  buildCacheWith Gen.RowBlock.pageFull iw lim blocks

/-- the loader of `TryLoadCache`: `Load` until it returns false -/
def readPages (iw : Nat) : Nat → Bytes → R (List Container)
  | 0, _ => .ok []
  | fuel + 1, bs =>
    match load iw Container.empty bs with
    | .eof => .ok []
    | .bad => .error .check
    | .ok c rest =>
      match readPages iw fuel rest with
      | .ok cs => .ok (c :: cs)
      | .error e => .error e

/-- the blocks one pass over the cache file hands out (`DiskRowIter::Next` = load page, `GetBlock`) -/
def pageBlocks : List Container → R (List Block)
  | [] => .ok []
  | c :: cs =>
    match getBlock c with
    | .error e => .error e
    | .ok b =>
      match pageBlocks cs with
      | .ok bs => .ok (b :: bs)
      | .error e => .error e

def blocksRows : List Block → R (List RowVal)
  | [] => .ok []
  | b :: bs =>
    match b.rows with
    | .error e => .error e
    | .ok rs =>
      match blocksRows bs with
      | .ok rest => .ok (rs ++ rest)
      | .error e => .error e

/-- the rows one pass over a cache file delivers, in order -/
def diskPass (iw : Nat) (file : Bytes) : R (List RowVal) :=
  match readPages iw (file.length + 1) file with
  | .error e => .error e
  | .ok pages =>
    match pageBlocks pages with
    | .error e => .error e
    | .ok bs => blocksRows bs

-- ------------------------------------------------------------------------------------------------
-- parser side, abstract: what one ParseBlock run pushes into its container, line by line
-- ------------------------------------------------------------------------------------------------

/-- one `index[:value]` (libsvm), `field:index[:value]` (libfm) or cell (csv) -/
structure Entry where
  field : Nat := 0
  index : Nat
  value : Option Nat
  deriving DecidableEq, Repr

/-- what one text line makes the parser push.  `fatal`: csv only, LOG(FATAL) "Delimiter not found". -/
structure Line where
  label : Option Nat
  weight : Option Nat
  qid : Option Nat
  entries : List Entry
  fatal : Bool := false
  deriving DecidableEq, Repr

def pushOpt (l : List Nat) (x : Option Nat) : List Nat :=
  match x with
  | some v => l ++ [v]
  | none => l

/-- libsvm: `index.push_back`, `value.push_back` if the pair had a value -/
def svmEntries (c : Container) : List Entry → Container
  | [] => c
  | e :: es => svmEntries { c with index := c.index ++ [e.index], value := pushOpt c.value e.value } es

/-- `LibSVMParser::ParseBlock`, one accepted line (a line always has a label) -/
def svmLine (c : Container) (ln : Line) : Container :=
  let c1 := { c with weight := pushOpt c.weight ln.weight }
  let c2 := if Gen.RowBlock.svmOffGuard c1.label.length then { c1 with offset := c1.offset ++ [c1.index.length] } else c1
  let c3 := { c2 with label := pushOpt c2.label ln.label, qid := pushOpt c2.qid ln.qid }
  svmEntries c3 ln.entries

def svmEnd (c : Container) : R Container :=
  let c1 := if Gen.RowBlock.svmOffGuard c.label.length then { c with offset := c.offset ++ [c.index.length] } else c
  if Gen.RowBlock.svmEndOk c1.label.length c1.offset.length then .ok c1 else .error .check

def parseSvm (lines : List Line) : R Container := svmEnd (lines.foldl svmLine Container.empty)

/-- libfm: field and index are always pushed together -/
def fmEntries (c : Container) : List Entry → Container
  | [] => c
  | e :: es =>
    fmEntries { c with field := c.field ++ [e.field], index := c.index ++ [e.index],
                       value := pushOpt c.value e.value } es

def fmLine (c : Container) (ln : Line) : Container :=
  let c1 := { c with weight := pushOpt c.weight ln.weight }
  let c2 := if Gen.RowBlock.fmOffGuard c1.label.length then { c1 with offset := c1.offset ++ [c1.index.length] } else c1
  let c3 := { c2 with label := pushOpt c2.label ln.label }
  fmEntries c3 ln.entries

def fmEnd (c : Container) : R Container :=
  let c1 := if Gen.RowBlock.fmOffGuard c.label.length then { c with offset := c.offset ++ [c.index.length] } else c
  if !Gen.RowBlock.fmEndField c1.field.length c1.index.length then .error .check
  else if Gen.RowBlock.fmEndOk c1.label.length c1.offset.length then .ok c1 else .error .check

def parseFm (lines : List Line) : R Container := fmEnd (lines.foldl fmLine Container.empty)

/-- csv: value and index are pushed together; the label cell (if the line has one) where it occurs -/
def csvEntries (c : Container) : List Entry → Container
  | [] => c
  | e :: es => csvEntries { c with value := pushOpt c.value e.value, index := c.index ++ [e.index] } es

def csvGo : Container → List Line → R Container
  | c, [] => .ok c
  | c, ln :: rest =>
    if ln.fatal then .error .check
    else
      let c1 := csvEntries { c with label := pushOpt c.label ln.label } ln.entries
      let c2 := { c1 with weight := pushOpt c1.weight ln.weight }
      csvGo { c2 with offset := c2.offset ++ [c2.index.length] } rest

def parseCsv (lines : List Line) : R Container :=
  match csvGo Container.empty lines with
  | .error e => .error e
  | .ok c =>
    if !Gen.RowBlock.csvEndLabel c.label.length c.offset.length then .error .check
    else if Gen.RowBlock.csvEndWeight c.weight.length c.offset.length then .ok c else .error .check

/-- `ParserImpl::Next`: a parsed container is handed out (through `GetBlock`) only when it has rows -/
def handOut (c : Container) : R (Option Block) :=
  if Gen.RowBlock.handOut c.size then
    match getBlock c with
    | .ok b => .ok (some b)
    | .error e => .error e
  else .ok none

-- ------------------------------------------------------------------------------------------------
-- soundness of a block (the predicate of C13); decidable
-- ------------------------------------------------------------------------------------------------

/-- non-decreasing -/
def mono : List Nat → Bool
  | [] => true
  | [_] => true
  | a :: b :: rest => decide (a ≤ b) && mono (b :: rest)

/-- an optional per-row / per-entry array is absent or covers `n` elements -/
def covers (p : Option (List Nat)) (n : Nat) : Bool :=
  match p with
  | none => true
  | some l => decide (n ≤ l.length)

/-- the offsets of the block's rows: `offset[0..size]` -/
def Block.offs (b : Block) : List Nat := b.offset.take (b.size + 1)

/-- C13 "structurally sound": `size+1` offsets, non-decreasing; label/weight/qid absent or covering every
row; field/value absent or covering every entry up to `offset[size]`; index covering it. -/
def Sound (b : Block) : Bool :=
  decide (b.size + 1 ≤ b.offset.length) && mono b.offs &&
  covers b.label b.size && covers b.weight b.size && covers b.qid b.size &&
  (match b.offset[b.size]? with
   | none => false
   | some last =>
     covers b.field last && covers b.value last && decide (last ≤ (ext b.index).length) &&
     decide (last < 2 ^ 64))

end DmlcModel.RowBlock
