/-
C13: closed forms of `Push(Row)` / `Push(RowBlock)` on containers satisfying the invariant, preservation of the
invariant, and the effect on the rows.
-/
import DmlcModel.RowBlock.Lemmas

namespace DmlcModel.RowBlock
open DmlcModel DmlcModel.Gen.RowBlock

-- ------------------------------------------------------------------------------------------------
-- the copy loop
-- ------------------------------------------------------------------------------------------------
theorem take_set_succ (l : List Nat) (k v : Nat) (h : k < l.length) : (l.set k v).take (k + 1) = l.take k ++ [v] := by
  induction l generalizing k with
  | nil => simp at h
  | cons a t ih =>
    cases k with
    | zero => simp
    | succ k => simp at h; simp [List.set, ih k (by omega)]

theorem drop_set_gt (l : List Nat) (k v n : Nat) (h : k < n) : (l.set k v).drop n = l.drop n := by
  induction l generalizing k n with
  | nil => simp
  | cons a t ih =>
    cases n with
    | zero => omega
    | succ n =>
      cases k with
      | zero => simp
      | succ k => simp [List.set, ih k n (by omega)]

theorem take_set_le (l : List Nat) (k v n : Nat) (h : n ≤ k) : (l.set k v).take n = l.take n := by
  induction l generalizing k n with
  | nil => simp
  | cons a t ih =>
    cases n with
    | zero => simp
    | succ n =>
      cases k with
      | zero => omega
      | succ k => simp [List.set, ih k n (by omega)]

/-- running maximum of the copy loop -/
def maxOver (f g : Nat → Nat) : Nat → Nat → Nat → Nat
  | 0, _, m => m
  | rem + 1, i, m => maxOver f g rem (i + 1) (Nat.max m (f (g i)))

theorem maxOver_le (f g : Nat → Nat) (lim : Nat) : ∀ (rem i m : Nat), m ≤ lim → (∀ j, j < rem → f (g (i + j)) ≤ lim) →
    maxOver f g rem i m ≤ lim
  | 0, _, _, hm, _ => hm
  | rem + 1, i, m, hm, h => by
    apply maxOver_le f g lim rem (i + 1)
    · have := h 0 (by omega); simp at this; exact Nat.max_le.mpr ⟨hm, this⟩
    · intro j hj; have := h (j + 1) (by omega); rwa [show i + (j + 1) = i + 1 + j by omega] at this

theorem copyGo_spec (chk : Nat → Bool) (f : Nat → Nat) (src : List Nat) (srcIdx : Nat → Nat) (base : Nat)
    (g : Nat → Nat) : ∀ (rem i : Nat) (dst : List Nat) (m : Nat),
    (∀ j, j < rem → src[srcIdx (i + j)]? = some (g (i + j)) ∧ chk (g (i + j)) = true) →
    base + i + rem ≤ dst.length →
    copyGo chk f src srcIdx base rem i dst m =
      (dst.take (base + i) ++ (List.range' i rem).map (fun j => f (g j)) ++ dst.drop (base + i + rem),
       maxOver f g rem i m, none)
  | 0, i, dst, m, _, _ => by simp [copyGo, maxOver]
  | rem + 1, i, dst, m, h, hlen => by
    have h0 := h 0 (by omega)
    simp only [Nat.add_zero] at h0
    have hk : base + i < dst.length := by omega
    have ih := copyGo_spec chk f src srcIdx base g rem (i + 1) (dst.set (base + i) (f (g i)))
      (Nat.max m (f (g i))) (fun j hj => by
        have := h (j + 1) (by omega)
        rwa [show i + (j + 1) = i + 1 + j by omega] at this) (by simp; omega)
    simp only [copyGo, h0.1, h0.2, if_true, hk, maxOver]
    rw [ih]
    rw [show base + (i + 1) = base + i + 1 by omega, take_set_succ _ _ _ hk,
      drop_set_gt _ _ _ _ (by omega : base + i < base + i + 1 + rem), List.range'_succ]
    simp [show base + i + 1 + rem = base + i + (rem + 1) by omega]

theorem seg_eq_map_range (l : List Nat) (lo n : Nat) (h : lo + n ≤ l.length) :
    (List.range' 0 n).map (fun j => l.getD (lo + j) 0) = seg l lo n := by
  apply List.ext_getElem?
  intro i
  simp only [seg, List.getElem?_map, List.getElem?_range', List.getElem?_take, List.getElem?_drop]
  by_cases hi : i < n
  · have : lo + i < l.length := by omega
    simp [hi, List.getD_eq_getElem?_getD, List.getElem?_eq_getElem this]
  · simp [hi]

/-- the resize-then-copy idiom of `Push(RowBlock)`: appending `n` zeros to `a` and copying `src[lo..lo+n)` to
position `a.length` yields `a ++ src[lo..lo+n)` -/
theorem copyGo_append (lim : Nat) (src a : List Nat) (lo n m : Nat) (srcIdx : Nat → Nat)
    (hidx : ∀ j, j < n → srcIdx j = lo + j) (hsrc : lo + n ≤ src.length) (hlim : ∀ x ∈ seg src lo n, x ≤ lim) :
    copyGo (fun x => decide (x ≤ lim)) id src srcIdx a.length n 0 (a ++ List.replicate n 0) m =
      (a ++ seg src lo n, maxOver id (fun j => src.getD (lo + j) 0) n 0 m, none) := by
  have hmem : ∀ j, j < n → src.getD (lo + j) 0 ∈ seg src lo n := by
    intro j hj
    rw [← seg_eq_map_range src lo n hsrc]
    exact List.mem_map.mpr ⟨j, by simp [List.mem_range']; omega, rfl⟩
  rw [copyGo_spec _ _ _ _ _ (fun j => src.getD (lo + j) 0) n 0 _ m (fun j hj => by
    have : lo + j < src.length := by omega
    simp only [Nat.zero_add, hidx j hj]
    refine ⟨by simp [List.getD_eq_getElem?_getD, List.getElem?_eq_getElem this], ?_⟩
    simpa using hlim _ (hmem j hj)) (by simp)]
  simp only [Nat.add_zero, id, seg_eq_map_range src lo n hsrc]
  simp

theorem maxOver_id_le (src : List Nat) (lo n m lim : Nat) (hsrc : lo + n ≤ src.length)
    (hlim : ∀ x ∈ seg src lo n, x ≤ lim) (hm : m ≤ lim) :
    maxOver id (fun j => src.getD (lo + j) 0) n 0 m ≤ lim := by
  apply maxOver_le _ _ lim n 0 m hm
  intro j hj
  simp only [id, Nat.zero_add]
  apply hlim
  rw [← seg_eq_map_range src lo n hsrc]
  exact List.mem_map.mpr ⟨j, by simp [List.mem_range']; omega, rfl⟩

-- ------------------------------------------------------------------------------------------------
-- Push(RowBlock): closed form
-- ------------------------------------------------------------------------------------------------

/-- one optional array: the block carries it exactly when the container stores it for all its `rows` rows
(entries); vacuous when the block contributes nothing or the container array is still empty -/
def compatArr (a : List Nat) (rows : Nat) (p : Option (List Nat)) (m : Nat) : Bool :=
  decide (m = 0) ||
    (match p with
     | some _ => decide (a.length = rows)
     | none => a.isEmpty)

/-- first entry position and number of entries of a block -/
def Block.off0 (b : Block) : Nat := b.offset.getD 0 0
def Block.ndata (b : Block) : Nat := b.offset.getD b.size 0 - b.offset.getD 0 0

/-- the decidable side condition of `Push(RowBlock)` (finding C13-F3, class `mixed-presence-push`):
every optional array of the block is present exactly when the container stores it -/
def Compatible (c : Container) (b : Block) : Bool :=
  compatArr c.label (c.offset.length - 1) b.label b.size &&
  compatArr c.weight (c.offset.length - 1) b.weight b.size &&
  compatArr c.qid (c.offset.length - 1) b.qid b.size &&
  compatArr c.field c.index.length b.field b.ndata &&
  compatArr c.value c.index.length b.value b.ndata

def appendOpt (a : List Nat) (p : Option (List Nat)) (lo n : Nat) : List Nat :=
  match p with
  | some l => a ++ seg l lo n
  | none => a

/-- the offsets `Push(RowBlock)` appends: `shift + batch.offset[k+1] - batch.offset[0]` -/
def newOffs (b : Block) (shift : Nat) : List Nat :=
  (List.range' 0 b.size).map (fun k => shift + (b.offset.getD (k + 1) 0 - b.off0))

/-- every index/field value the push copies fits the container's index type -/
def FitsLim (lim : Nat) (b : Block) : Prop :=
  (∀ x ∈ seg (ext b.index) b.off0 b.ndata, x ≤ lim) ∧
  (∀ l, b.field = some l → ∀ x ∈ seg l b.off0 b.ndata, x ≤ lim)

/-- the container after `Push(RowBlock)` (up to the two running maxima) -/
def pushed (c : Container) (b : Block) (mf mi : Nat) : Container :=
  { offset := c.offset ++ newOffs b c.index.length,
    label := appendOpt c.label b.label 0 b.size, weight := appendOpt c.weight b.weight 0 b.size,
    qid := appendOpt c.qid b.qid 0 b.size,
    field := appendOpt c.field b.field b.off0 b.ndata, index := c.index ++ seg (ext b.index) b.off0 b.ndata,
    value := appendOpt c.value b.value b.off0 b.ndata, maxField := mf, maxIndex := mi }

theorem insertRows_ok (a : List Nat) (p : Option (List Nat)) (n : Nat) (h : covers p n = true) :
    insertRows a p n = .ok (appendOpt a p 0 n) := by
  cases p with
  | none => rfl
  | some l =>
    have := covers_some h
    simp [insertRows, appendOpt, rdSeg_ok l 0 n (by omega)]

/-- facts about a sound block used by the push lemmas -/
theorem sound_facts {b : Block} (hs : Sound b = true) :
    ∃ last, b.offset[0]? = some b.off0 ∧ b.offset[b.size]? = some last ∧ b.off0 ≤ last ∧ last < 2 ^ 64 ∧
      b.ndata = last - b.off0 ∧ covers b.field last = true ∧ covers b.value last = true ∧
      last ≤ (ext b.index).length ∧ covers b.label b.size = true ∧ covers b.weight b.size = true ∧
      covers b.qid b.size = true := by
  obtain ⟨x, y, last, hx, hy, hl, hxy, _, hl64, gx, gy⟩ := sound_offsets hs (Nat.zero_le b.size) (Nat.le_refl _)
  obtain ⟨_, _, cl, cw, cq, last', hlast', cf, cv, ci, _⟩ := (sound_iff b).mp hs
  have e1 : last' = y := by rw [hy] at hlast'; exact (Option.some.inj hlast').symm
  have e2 : y = last := by rw [hy] at hl; exact Option.some.inj hl
  rw [e1] at cf cv ci
  refine ⟨y, ?_, hy, ?_, by omega, ?_, cf, cv, ci, cl, cw, cq⟩
  · unfold Block.off0; rw [gx]; exact hx
  · unfold Block.off0; rw [gx]; exact hxy
  · unfold Block.ndata Block.off0; rw [gx, gy]

theorem ndataOf_ok {b : Block} (hs : Sound b = true) : ndataOf b = .ok (b.off0, b.ndata) := by
  obtain ⟨last, h0, hl, hle, h64, hnd, _⟩ := sound_facts hs
  simp [ndataOf, h0, hl, pbNdata_spec hle h64, hnd]

theorem replicate_take_drop (a : List Nat) (n : Nat) :
    (a ++ List.replicate n 0).take a.length = a ∧ (a ++ List.replicate n 0).drop (a.length + n) = [] := by
  constructor
  · simp
  · apply List.drop_eq_nil_of_le; simp

theorem stepField_ok {lim : Nat} {b : Block} {c : Container} (hs : Sound b = true) (N : Nat)
    (hlast : c.offset.getLast? = some N) (hsm : c.field.length + b.ndata < 2 ^ 64)
    (hoff : b.off0 + b.ndata < 2 ^ 64)
    (hlim : ∀ l, b.field = some l → ∀ x ∈ seg l b.off0 b.ndata, x ≤ lim) :
    ∃ mf, stepField lim b c = ({ c with field := appendOpt c.field b.field b.off0 b.ndata, maxField := mf }, none) ∧
      (c.maxField ≤ lim → mf ≤ lim) := by
  obtain ⟨last, h0, hl, hle, h64, hnd, cf, _⟩ := sound_facts hs
  unfold stepField
  cases hf : b.field with
  | none => exact ⟨c.maxField, by simp [appendOpt], id⟩
  | some fl =>
    rw [hf] at cf
    have hcov := covers_some cf
    simp only [ndataOf_ok hs, hlast]
    have hbase : pbFieldDst (c.field ++ List.replicate b.ndata 0).length b.ndata N = c.field.length := by
      rw [pbFieldDst_spec (by simp) (by simp; omega)]; simp
    rw [hbase]
    rw [copyGo_append lim fl c.field b.off0 b.ndata c.maxField (pbFieldSrc b.off0)
      (fun j hj => pbFieldSrc_spec (by omega)) (by omega) (hlim fl hf)]
    exact ⟨_, by simp [appendOpt], fun hm => maxOver_id_le fl _ _ _ lim (by omega) (hlim fl hf) hm⟩

theorem stepIndex_ok {lim : Nat} {b : Block} {c : Container} (hs : Sound b = true)
    (hlast : c.offset.getLast? = some c.index.length) (hoff : b.off0 + b.ndata < 2 ^ 64)
    (hlim : ∀ x ∈ seg (ext b.index) b.off0 b.ndata, x ≤ lim) :
    ∃ mi, stepIndex lim b c = ({ c with index := c.index ++ seg (ext b.index) b.off0 b.ndata, maxIndex := mi }, none) ∧
      (c.maxIndex ≤ lim → mi ≤ lim) := by
  obtain ⟨last, h0, hl, hle, h64, hnd, _, _, ci, _⟩ := sound_facts hs
  unfold stepIndex
  simp only [ndataOf_ok hs, hlast, pbIndexDst_spec]
  rw [copyGo_append lim (ext b.index) c.index b.off0 b.ndata c.maxIndex (pbIndexSrc b.off0)
    (fun j hj => pbIndexSrc_spec (by omega)) (by omega) hlim]
  exact ⟨_, rfl, fun hm => maxOver_id_le _ _ _ _ lim (by omega) hlim hm⟩

theorem stepValue_ok {b : Block} {c : Container} (hs : Sound b = true) (hsm : c.value.length + b.ndata < 2 ^ 62) :
    stepValue b c = ({ c with value := appendOpt c.value b.value b.off0 b.ndata }, none) := by
  obtain ⟨last, h0, hl, hle, h64, hnd, _, cv, _⟩ := sound_facts hs
  unfold stepValue
  cases hv : b.value with
  | none => simp [appendOpt]
  | some vl =>
    rw [hv] at cv
    have hcov := covers_some cv
    simp only [ndataOf_ok hs, pbValueSrc_spec, pbValueBytes_spec (by omega : b.ndata < 2 ^ 62)]
    rw [rdSeg_ok vl b.off0 b.ndata (by omega)]
    have hbase : pbValueDst (c.value ++ List.replicate b.ndata 0).length b.ndata = c.value.length := by
      rw [pbValueDst_spec (by simp) (by simp; omega)]; simp
    simp only [hbase]
    have hlen := seg_length vl b.off0 b.ndata (by omega)
    unfold writeSeg
    by_cases hz : b.ndata = 0
    · simp [hz, seg_zero, appendOpt]
    · have := replicate_take_drop c.value b.ndata
      simp [hlen, hz, this.1, this.2, appendOpt]

theorem stepOffset_ok {b : Block} {c : Container} (hs : Sound b = true) (N : Nat) {len : Nat}
    (hlen : len = c.offset.length) (hne0 : c.offset ≠ [])
    (hlast : c.offset.getLast? = some N)
    (hsm : c.offset.length + b.size < 2 ^ 62) (hnd : N + b.ndata + b.off0 < 2 ^ 64) :
    stepOffset (pbRows len) b c = ({ c with offset := c.offset ++ newOffs b N }, none) := by
  subst hlen
  obtain ⟨last, h0, hl, hle, h64, hndv, _⟩ := sound_facts hs
  have hne := length_pos_of_ne hne0
  have hshift : c.offset[c.offset.length - 1]? = some N := by
    rw [← List.getLast?_eq_getElem?]; exact hlast
  unfold stepOffset
  rw [pbRows_spec hne (by omega), pbShiftIdx_spec, hshift, h0]
  simp only []
  rw [pbOffDst_spec (by omega), show c.offset.length - 1 + 1 = c.offset.length by omega]
  have hm : (List.range' 0 b.size).map (fun j => pbOffNew N (b.offset.getD (j + 1) 0) b.off0) =
      newOffs b N := by
    unfold newOffs
    apply List.map_congr_left
    intro k hk
    have hk' : k < b.size := by simp [List.mem_range'] at hk; omega
    obtain ⟨x, y, last', hx, hy, hl', hxy, hyl, _, gx, gy⟩ :=
      sound_offsets hs (Nat.zero_le (k + 1)) (by omega : k + 1 ≤ b.size)
    have e : last' = last := by rw [hl] at hl'; exact (Option.some.inj hl').symm
    have ex : x = b.off0 := by rw [h0] at hx; exact (Option.some.inj hx).symm
    rw [pbOffNew_spec (by rw [gy, ← ex]; exact hxy) (by rw [gy]; omega)]
  rw [copyGo_spec _ _ _ _ _ (fun j => b.offset.getD (j + 1) 0) b.size 0 _ 0 (fun j hj => by
    obtain ⟨x, y, _, _, hy, _, _, _, _, _, gy⟩ := sound_offsets hs (Nat.zero_le (j + 1)) (by omega : j + 1 ≤ b.size)
    simp only [Nat.zero_add]
    rw [pbOffNextIdx_spec (by omega)]
    exact ⟨by rw [hy, gy], trivial⟩) (by simp)]
  have := replicate_take_drop c.offset b.size
  simp only [Nat.add_zero, this.1, this.2, List.append_nil, hm]

theorem andThen_ok (c : Container) (f : Container → Container × Option Err) : andThen (c, none) f = f c := rfl

/-- **closed form of `Push(RowBlock)`** on a container satisfying the invariant and a sound block whose
values fit the container's index type: no exception, and the container is `pushed c b mf mi` -/
theorem pushBlock_closed {lim : Nat} {c : Container} {b : Block} (g : Good c) (hs : Sound b = true)
    (hfit : FitsLim lim b) (hb : b.off0 + b.ndata < 2 ^ 62)
    (hsm : c.offset.length + b.size < 2 ^ 62) (hnd : c.index.length + b.ndata < 2 ^ 62) :
    ∃ mf mi, pushBlock lim c b = (pushed c b mf mi, none) ∧ (c.maxField ≤ lim → mf ≤ lim) ∧
      (c.maxIndex ≤ lim → mi ≤ lim) := by
  obtain ⟨last, h0, hl, hle, h64, hndv, cf, cv, ci, cl, cw, cq⟩ := sound_facts hs
  have hfl : c.field.length ≤ c.index.length := by rcases g.fld with h | h <;> simp [h]
  have hvl : c.value.length ≤ c.index.length := by rcases g.val with h | h <;> simp [h]
  unfold pushBlock
  have h1 : stepLabel b c = ({ c with label := appendOpt c.label b.label 0 b.size }, none) := by
    simp [stepLabel, insertRows_ok _ _ _ cl]
  rw [h1, andThen_ok]
  have h2 : ∀ c' : Container, stepWeight b c' = ({ c' with weight := appendOpt c'.weight b.weight 0 b.size }, none) := by
    intro c'; simp [stepWeight, insertRows_ok _ _ _ cw]
  rw [h2, andThen_ok]
  have h3 : ∀ c' : Container, stepQid b c' = ({ c' with qid := appendOpt c'.qid b.qid 0 b.size }, none) := by
    intro c'; simp [stepQid, insertRows_ok _ _ _ cq]
  rw [h3, andThen_ok]
  obtain ⟨mf, h4, hmf⟩ := stepField_ok (lim := lim) (b := b)
    (c := { c with label := appendOpt c.label b.label 0 b.size, weight := appendOpt c.weight b.weight 0 b.size,
                   qid := appendOpt c.qid b.qid 0 b.size }) hs c.index.length g.last
    (by simp only []; omega) (by omega) hfit.2
  rw [h4, andThen_ok]
  obtain ⟨mi, h5, hmi⟩ := stepIndex_ok (lim := lim) (b := b)
    (c := { c with label := appendOpt c.label b.label 0 b.size, weight := appendOpt c.weight b.weight 0 b.size,
                   qid := appendOpt c.qid b.qid 0 b.size,
                   field := appendOpt c.field b.field b.off0 b.ndata, maxField := mf }) hs g.last (by omega) hfit.1
  rw [h5, andThen_ok]
  rw [stepValue_ok hs (by simp only []; omega), andThen_ok]
  refine ⟨mf, mi, ?_, hmf, hmi⟩
  refine (stepOffset_ok hs c.index.length ?_ ?_ ?_ ?_ ?_).trans ?_
  · rfl
  · exact g.ne
  · exact g.last
  · exact hsm
  · omega
  · rfl

-- ------------------------------------------------------------------------------------------------
-- the invariant is preserved
-- ------------------------------------------------------------------------------------------------
theorem compatArr_iff (a : List Nat) (rows : Nat) (p : Option (List Nat)) (m : Nat) :
    compatArr a rows p m = true ↔ (m = 0 ∨ ((∀ l, p = some l → a.length = rows) ∧ (p = none → a = []))) := by
  cases p with
  | none => simp [compatArr, List.isEmpty_iff]
  | some l => simp [compatArr]

theorem appendOpt_zero (a : List Nat) (p : Option (List Nat)) (lo : Nat) : appendOpt a p lo 0 = a := by
  cases p <;> simp [appendOpt, seg_zero]

theorem appendOpt_rows (a : List Nat) (p : Option (List Nat)) (rows m lo : Nat)
    (hc : compatArr a rows p m = true) (hcov : ∀ l, p = some l → lo + m ≤ l.length)
    (ha : a.length = rows ∨ a = []) :
    (appendOpt a p lo m).length = rows + m ∨ appendOpt a p lo m = [] := by
  rcases (compatArr_iff _ _ _ _).mp hc with hm | ⟨h1, h2⟩
  · subst hm
    rw [appendOpt_zero]
    rcases ha with ha | ha
    · left; omega
    · right; exact ha
  · cases p with
    | none => right; simp [appendOpt, h2 rfl]
    | some l =>
      left
      simp [appendOpt, h1 l rfl, seg_length l lo m (hcov l rfl)]

theorem newOffs_length (b : Block) (N : Nat) : (newOffs b N).length = b.size := by simp [newOffs]

theorem newOffs_get (b : Block) (N k : Nat) (hk : k < b.size) :
    (newOffs b N)[k]? = some (N + (b.offset.getD (k + 1) 0 - b.off0)) := by
  simp [newOffs, List.getElem?_range', hk]

theorem compatible_iff (c : Container) (b : Block) : Compatible c b = true ↔
    (compatArr c.label (c.offset.length - 1) b.label b.size = true ∧
     compatArr c.weight (c.offset.length - 1) b.weight b.size = true ∧
     compatArr c.qid (c.offset.length - 1) b.qid b.size = true ∧
     compatArr c.field c.index.length b.field b.ndata = true ∧
     compatArr c.value c.index.length b.value b.ndata = true) := by
  simp [Compatible, Bool.and_eq_true, and_assoc]

theorem offs_rel {b : Block} (hs : Sound b = true) {k : Nat} (hk : k ≤ b.size) :
    b.off0 ≤ b.offset.getD k 0 ∧ b.offset.getD k 0 ≤ b.off0 + b.ndata ∧
    (∀ j, j ≤ k → b.offset.getD j 0 ≤ b.offset.getD k 0) ∧ b.offset.getD b.size 0 = b.off0 + b.ndata := by
  obtain ⟨last, h0, hl, hle, h64, hndv, _⟩ := sound_facts hs
  obtain ⟨x, y, last', hx, hy, hl', hxy, hyl, _, gx, gy⟩ := sound_offsets hs (Nat.zero_le k) hk
  have e : last' = last := by rw [hl] at hl'; exact (Option.some.inj hl').symm
  have ex : x = b.off0 := by rw [h0] at hx; exact (Option.some.inj hx).symm
  have hsz : b.offset.getD b.size 0 = last := by
    simp [List.getD_eq_getElem?_getD, hl]
  refine ⟨by rw [gy, ← ex]; exact hxy, by rw [gy]; omega, ?_, by omega⟩
  intro j hj
  obtain ⟨x', y', _, _, _, _, hxy', _, _, gx', gy'⟩ := sound_offsets hs hj hk
  rw [gx', gy']; exact hxy'

theorem good_pushed {c : Container} {b : Block} (g : Good c) (hs : Sound b = true) (hc : Compatible c b = true)
    (hsm : c.offset.length + b.size < 2 ^ 62) (hnd : c.index.length + b.ndata < 2 ^ 62) (mf mi : Nat) :
    Good (pushed c b mf mi) := by
  obtain ⟨last, h0, hl, hle, h64, hndv, cf, cv, ci, cl, cw, cq⟩ := sound_facts hs
  obtain ⟨kl, kw, kq, kf, kv⟩ := (compatible_iff c b).mp hc
  have hne := length_pos_of_ne g.ne
  have hoff : b.off0 + b.ndata = last := by omega
  have hix : (seg (ext b.index) b.off0 b.ndata).length = b.ndata := seg_length _ _ _ (by omega)
  have hlenO : (pushed c b mf mi).offset.length = c.offset.length + b.size := by simp [pushed, newOffs_length]
  have hlenI : (pushed c b mf mi).index.length = c.index.length + b.ndata := by simp [pushed, hix]
  have cov0 : ∀ (p : Option (List Nat)), covers p b.size = true → ∀ l, p = some l → 0 + b.size ≤ l.length := by
    intro p hp l hl; subst hl; have := covers_some hp; omega
  have covE : ∀ (p : Option (List Nat)), covers p last = true → ∀ l, p = some l → b.off0 + b.ndata ≤ l.length := by
    intro p hp l hl; subst hl; have := covers_some hp; omega
  refine ⟨by simp [pushed, g.ne], ?_, ?_, ?_, ?_, ?_, ?_, ?_, by rw [hlenO, hlenI]; omega⟩
  · -- offsets stay non-decreasing
    apply mono_of_get
    intro i x y hx hy
    simp only [pushed] at hx hy
    by_cases h1 : i + 1 < c.offset.length
    · rw [List.getElem?_append_left (by omega)] at hx hy
      exact mono_get _ g.mono i (i + 1) (by omega) x y hx hy
    · obtain ⟨k, hk0⟩ : ∃ k, i + 1 = c.offset.length + k := ⟨i + 1 - c.offset.length, by omega⟩
      rw [List.getElem?_append_right (by omega), show i + 1 - c.offset.length = k by omega] at hy
      have hk : k < b.size := by
        have := (List.getElem?_eq_some_iff.mp hy).1
        simpa [newOffs_length] using this
      rw [newOffs_get b _ _ hk] at hy
      have hy' := Option.some.inj hy
      cases k with
      | zero =>
        rw [List.getElem?_append_left (by omega)] at hx
        have hxl : c.offset[c.offset.length - 1]? = some c.index.length := by
          rw [← List.getLast?_eq_getElem?]; exact g.last
        rw [show i = c.offset.length - 1 by omega, hxl] at hx
        have := Option.some.inj hx
        omega
      | succ k =>
        rw [List.getElem?_append_right (by omega), show i - c.offset.length = k by omega] at hx
        rw [newOffs_get b _ _ (by omega)] at hx
        have hx' := Option.some.inj hx
        have hrel := (offs_rel hs (by omega : k + 1 + 1 ≤ b.size)).2.2.1 (k + 1) (by omega)
        have r0 := (offs_rel hs (by omega : k + 1 ≤ b.size)).1
        omega
  · -- offset.back() == index.size()
    rw [List.getLast?_eq_getElem?, hlenO, hlenI]
    simp only [pushed]
    by_cases hz : b.size = 0
    · have hnd0 : b.ndata = 0 := by
        have := (offs_rel hs (Nat.le_refl b.size)).2.2.2
        have h00 : b.offset.getD b.size 0 = b.off0 := by rw [hz]; rfl
        omega
      rw [List.getElem?_append_left (by omega), hz, hnd0, Nat.add_zero, ← List.getLast?_eq_getElem?]
      simpa using g.last
    · rw [List.getElem?_append_right (by omega)]
      rw [newOffs_get b _ _ (by omega)]
      have := (offs_rel hs (Nat.le_refl b.size)).2.2.2
      rw [show c.offset.length + b.size - 1 - c.offset.length + 1 = b.size by omega, this]
      congr 1; omega
  · rcases appendOpt_rows c.label b.label (c.offset.length - 1) b.size 0 kl (cov0 _ cl)
      (by rcases g.lab with h | h; exact Or.inl (by omega); exact Or.inr h) with h | h
    · left; rw [hlenO]; simp only [pushed]; omega
    · right; exact h
  · rcases appendOpt_rows c.weight b.weight (c.offset.length - 1) b.size 0 kw (cov0 _ cw)
      (by rcases g.wgt with h | h; exact Or.inl (by omega); exact Or.inr h) with h | h
    · left; rw [hlenO]; simp only [pushed]; omega
    · right; exact h
  · rcases appendOpt_rows c.qid b.qid (c.offset.length - 1) b.size 0 kq (cov0 _ cq)
      (by rcases g.qid with h | h; exact Or.inl (by omega); exact Or.inr h) with h | h
    · left; rw [hlenO]; simp only [pushed]; omega
    · right; exact h
  · rcases appendOpt_rows c.field b.field c.index.length b.ndata b.off0 kf (covE _ cf) g.fld with h | h
    · left; rw [hlenI]; exact h
    · right; exact h
  · rcases appendOpt_rows c.value b.value c.index.length b.ndata b.off0 kv (covE _ cv) g.val with h | h
    · left; rw [hlenI]; exact h
    · right; exact h

-- ------------------------------------------------------------------------------------------------
-- rows after a push
-- ------------------------------------------------------------------------------------------------

/-- a row without entries carries no observable `field` / `value` pointer -/
def RowVal.norm (r : RowVal) : RowVal := if r.index = [] then { r with field := none, value := none } else r

theorem norm_eq_of {r s : RowVal} (h1 : r.label = s.label) (h2 : r.weight = s.weight) (h3 : r.qid = s.qid)
    (h4 : r.index = s.index) (h5 : r.index = [] ∨ (r.field = s.field ∧ r.value = s.value)) : r.norm = s.norm := by
  cases r; cases s
  simp only at h1 h2 h3 h4 h5
  subst h1 h2 h3 h4
  unfold RowVal.norm
  rcases h5 with h | ⟨h, h'⟩
  · simp [h]
  · subst h h'; rfl

theorem beginPtr_ne {l : List Nat} (h : l ≠ []) : beginPtr l = some l := by
  cases l with
  | nil => exact absurd rfl h
  | cons _ _ => rfl

theorem getD_append_left (a x : List Nat) (i : Nat) (h : i < a.length) : (a ++ x).getD i 0 = a.getD i 0 := by
  simp [List.getD_eq_getElem?_getD, List.getElem?_append_left h]

theorem getD_append_right (a x : List Nat) (k : Nat) : (a ++ x).getD (a.length + k) 0 = x.getD k 0 := by
  simp [List.getD_eq_getElem?_getD, List.getElem?_append_right]

theorem getD_seg (l : List Nat) (lo n k : Nat) (hk : k < n) (h : lo + n ≤ l.length) :
    (seg l lo n).getD k 0 = l.getD (lo + k) 0 := by
  simp [seg, List.getD_eq_getElem?_getD, List.getElem?_take, hk, List.getElem?_drop]

/-- per-row optional array, rows that were already there -/
theorem prow_old (a : List Nat) (p : Option (List Nat)) (rows m i : Nat) (hc : compatArr a rows p m = true)
    (hi : i < rows) :
    (beginPtr (appendOpt a p 0 m)).map (fun l => l.getD i 0) = (beginPtr a).map (fun l => l.getD i 0) := by
  rcases (compatArr_iff _ _ _ _).mp hc with hm | ⟨h1, _⟩
  · subst hm; rw [appendOpt_zero]
  · cases p with
    | none => rfl
    | some l =>
      have hl := h1 l rfl
      have hne : a ≠ [] := by intro h; simp [h] at hl; omega
      have hne' : a ++ seg l 0 m ≠ [] := by simp [hne]
      simp only [appendOpt, beginPtr_ne hne, beginPtr_ne hne', Option.map_some]
      rw [getD_append_left _ _ _ (by omega)]

/-- per-row optional array, rows that come from the block -/
theorem prow_new (a : List Nat) (p : Option (List Nat)) (rows m k : Nat) (hc : compatArr a rows p m = true)
    (hcov : covers p m = true) (hk : k < m) :
    (beginPtr (appendOpt a p 0 m)).map (fun l => l.getD (rows + k) 0) = p.map (fun l => l.getD k 0) := by
  rcases (compatArr_iff _ _ _ _).mp hc with hm | ⟨h1, h2⟩
  · omega
  cases p with
  | none => simp [appendOpt, h2 rfl, beginPtr]
  | some l =>
    have hl := h1 l rfl
    have hcl := covers_some hcov
    have hsl := seg_length l 0 m (by omega)
    have hne' : a ++ seg l 0 m ≠ [] := by
      intro h; have := congrArg List.length h; simp [hsl] at this; omega
    simp only [appendOpt, beginPtr_ne hne', Option.map_some]
    rw [← hl, getD_append_right, getD_seg l 0 m k hk (by omega)]
    simp

/-- per-entry optional array, rows that were already there (`lo + n ≤ N` entries of the old part) -/
theorem pent_old (a : List Nat) (p : Option (List Nat)) (N off0 nd lo n : Nat)
    (hc : compatArr a N p nd = true) (ha : a.length = N ∨ a = []) (hlo : lo + n ≤ N) :
    n = 0 ∨ (beginPtr (appendOpt a p off0 nd)).map (fun l => seg l lo n) = (beginPtr a).map (fun l => seg l lo n) := by
  by_cases hn : n = 0
  · exact Or.inl hn
  · right
    rcases (compatArr_iff _ _ _ _).mp hc with hm | ⟨h1, _⟩
    · subst hm; rw [appendOpt_zero]
    cases p with
    | none => rfl
    | some l =>
      have hl := h1 l rfl
      have hne : a ≠ [] := by intro h; simp [h] at hl; omega
      have hne' : a ++ seg l off0 nd ≠ [] := by simp [hne]
      simp only [appendOpt, beginPtr_ne hne, beginPtr_ne hne', Option.map_some]
      rw [seg_append_left _ _ _ _ (by omega)]

/-- per-entry optional array, rows that come from the block (`d + n ≤ nd`) -/
theorem pent_new (a : List Nat) (p : Option (List Nat)) (N off0 nd d n last : Nat)
    (hc : compatArr a N p nd = true) (hcov : covers p last = true) (hlast : off0 + nd ≤ last) (hd : d + n ≤ nd) :
    n = 0 ∨ (beginPtr (appendOpt a p off0 nd)).map (fun l => seg l (N + d) n) = p.map (fun l => seg l (off0 + d) n) := by
  by_cases hn : n = 0
  · exact Or.inl hn
  · right
    rcases (compatArr_iff _ _ _ _).mp hc with hm | ⟨h1, h2⟩
    · omega
    cases p with
    | none => simp [appendOpt, h2 rfl, beginPtr]
    | some l =>
      have hl := h1 l rfl
      have hcl := covers_some hcov
      have hsl := seg_length l off0 nd (by omega)
      have hne' : a ++ seg l off0 nd ≠ [] := by
        intro h; have := congrArg List.length h; simp [hsl] at this; omega
      simp only [appendOpt, beginPtr_ne hne', Option.map_some]
      rw [← hl, seg_append_right, seg_seg _ _ _ _ _ hd]

theorem getD_of_getElem? {l : List Nat} {i x : Nat} (h : l[i]? = some x) : l.getD i 0 = x := by
  simp [List.getD_eq_getElem?_getD, h]

/-- position `rows + k` of the new offset array -/
theorem pushed_off {c : Container} {b : Block} (g : Good c) (hs : Sound b = true) (mf mi k : Nat) (hk : k ≤ b.size) :
    (pushed c b mf mi).offset.getD (c.offset.length - 1 + k) 0 = c.index.length + (b.offset.getD k 0 - b.off0) := by
  have hne := length_pos_of_ne g.ne
  simp only [pushed]
  cases k with
  | zero =>
    have hxl : c.offset[c.offset.length - 1]? = some c.index.length := by
      rw [← List.getLast?_eq_getElem?]; exact g.last
    rw [Nat.add_zero, getD_append_left _ _ _ (by omega), getD_of_getElem? hxl]
    have : b.offset.getD 0 0 = b.off0 := rfl
    omega
  | succ k =>
    rw [show c.offset.length - 1 + (k + 1) = c.offset.length + k by omega, getD_append_right]
    exact getD_of_getElem? (newOffs_get b _ k (by omega))

theorem pushed_off_old {c : Container} {b : Block} (mf mi i : Nat) (hi : i < c.offset.length) :
    (pushed c b mf mi).offset.getD i 0 = c.offset.getD i 0 := by
  simp only [pushed]; exact getD_append_left _ _ _ hi

/-- offsets of a container satisfying the invariant -/
theorem good_offs {c : Container} (g : Good c) {i : Nat} (hi : i + 1 < c.offset.length) :
    c.offset.getD i 0 ≤ c.offset.getD (i + 1) 0 ∧ c.offset.getD (i + 1) 0 ≤ c.index.length := by
  have h1 : c.offset[i]? = some (c.offset.getD i 0) := by
    simp [List.getD_eq_getElem?_getD, List.getElem?_eq_getElem (by omega : i < c.offset.length)]
  have h2 : c.offset[i + 1]? = some (c.offset.getD (i + 1) 0) := by
    simp [List.getD_eq_getElem?_getD, List.getElem?_eq_getElem hi]
  have h3 : c.offset[c.offset.length - 1]? = some c.index.length := by
    rw [← List.getLast?_eq_getElem?]; exact g.last
  exact ⟨mono_get _ g.mono i (i + 1) (by omega) _ _ h1 h2,
    mono_get _ g.mono (i + 1) (c.offset.length - 1) (by omega) _ _ h2 h3⟩

theorem rowT_pushed_old {c : Container} {b : Block} (g : Good c) (hs : Sound b = true)
    (hc : Compatible c b = true) (mf mi : Nat) {i : Nat} (hi : i + 1 < c.offset.length) :
    ((view (pushed c b mf mi)).rowT i).norm = ((view c).rowT i).norm := by
  obtain ⟨kl, kw, kq, kf, kv⟩ := (compatible_iff c b).mp hc
  obtain ⟨hlo, hhi⟩ := good_offs g hi
  have e1 := pushed_off_old (c := c) (b := b) mf mi i (by omega)
  have e2 := pushed_off_old (c := c) (b := b) mf mi (i + 1) hi
  apply norm_eq_of
  · simp only [Block.rowT, view]; exact prow_old _ _ _ _ _ kl (by omega)
  · simp only [Block.rowT, view]; exact prow_old _ _ _ _ _ kw (by omega)
  · simp only [Block.rowT, view]; exact prow_old _ _ _ _ _ kq (by omega)
  · simp only [Block.rowT, view, ext_beginPtr, e1, e2]
    simp only [pushed]
    rw [seg_append_left _ _ _ _ (by omega)]
  · simp only [Block.rowT, view, ext_beginPtr, e1, e2]
    rcases pent_old c.field b.field c.index.length b.off0 b.ndata (c.offset.getD i 0)
      (c.offset.getD (i + 1) 0 - c.offset.getD i 0) kf g.fld (by omega) with h | hf
    · left; rw [h]; exact seg_zero _ _
    · rcases pent_old c.value b.value c.index.length b.off0 b.ndata (c.offset.getD i 0)
        (c.offset.getD (i + 1) 0 - c.offset.getD i 0) kv g.val (by omega) with h | hv
      · left; rw [h]; exact seg_zero _ _
      · right; exact ⟨hf, hv⟩

theorem rowT_pushed_new {c : Container} {b : Block} (g : Good c) (hs : Sound b = true)
    (hc : Compatible c b = true) (mf mi : Nat) {k : Nat} (hk : k < b.size) :
    ((view (pushed c b mf mi)).rowT (c.offset.length - 1 + k)).norm = (b.rowT k).norm := by
  obtain ⟨kl, kw, kq, kf, kv⟩ := (compatible_iff c b).mp hc
  obtain ⟨last, h0, hl, hle, h64, hndv, cf, cv, ci, cl, cw, cq⟩ := sound_facts hs
  have e1 := pushed_off g hs mf mi k (by omega)
  have e2 := pushed_off g hs mf mi (k + 1) (by omega)
  rw [show c.offset.length - 1 + (k + 1) = c.offset.length - 1 + k + 1 by omega] at e2
  obtain ⟨r1, r2, r3, r4⟩ := offs_rel hs (by omega : k + 1 ≤ b.size)
  have r5 := r3 k (by omega)
  have r6 := (offs_rel hs (by omega : k ≤ b.size)).1
  have hn : c.index.length + (b.offset.getD (k + 1) 0 - b.off0) - (c.index.length + (b.offset.getD k 0 - b.off0)) =
      b.offset.getD (k + 1) 0 - b.offset.getD k 0 := by omega
  have hlo : b.off0 + (b.offset.getD k 0 - b.off0) = b.offset.getD k 0 := by omega
  apply norm_eq_of
  · simp only [Block.rowT, view]; exact prow_new _ _ _ _ _ kl cl hk
  · simp only [Block.rowT, view]; exact prow_new _ _ _ _ _ kw cw hk
  · simp only [Block.rowT, view]; exact prow_new _ _ _ _ _ kq cq hk
  · simp only [Block.rowT, view, ext_beginPtr, e1, e2, hn]
    simp only [pushed]
    rw [seg_append_right, seg_seg _ _ _ _ _ (by omega), hlo]
  · simp only [Block.rowT, view, ext_beginPtr, e1, e2, hn]
    rcases pent_new c.field b.field c.index.length b.off0 b.ndata (b.offset.getD k 0 - b.off0)
      (b.offset.getD (k + 1) 0 - b.offset.getD k 0) last kf cf (by omega) (by omega) with h | hf
    · left; rw [h]; exact seg_zero _ _
    · rcases pent_new c.value b.value c.index.length b.off0 b.ndata (b.offset.getD k 0 - b.off0)
        (b.offset.getD (k + 1) 0 - b.offset.getD k 0) last kv cv (by omega) (by omega) with h | hv
      · left; rw [h]; exact seg_zero _ _
      · right; rw [hlo] at hf hv; exact ⟨hf, hv⟩

/-- rows of the pushed container = old rows followed by the rows of the block (up to `norm`) -/
theorem rowsT_pushed {c : Container} {b : Block} (g : Good c) (hs : Sound b = true)
    (hc : Compatible c b = true) (mf mi : Nat) :
    (view (pushed c b mf mi)).rowsT.map RowVal.norm = (view c).rowsT.map RowVal.norm ++ b.rowsT.map RowVal.norm := by
  have hne := length_pos_of_ne g.ne
  have hsz : (view (pushed c b mf mi)).size = (c.offset.length - 1) + b.size := by
    simp [view, pushed, newOffs_length]; omega
  unfold Block.rowsT
  rw [hsz, List.range_eq_range', List.range_eq_range', List.range_eq_range']
  rw [show List.range' 0 (c.offset.length - 1 + b.size) =
      List.range' 0 (c.offset.length - 1) ++ List.range' (c.offset.length - 1) b.size by
    have := List.range'_append_1 (s := 0) (m := c.offset.length - 1) (n := b.size)
    simpa using this.symm]
  simp only [List.map_append, List.map_map]
  congr 1
  · apply List.map_congr_left
    intro i hi
    have : i + 1 < c.offset.length := by simp [List.mem_range', view] at hi; omega
    exact rowT_pushed_old g hs hc mf mi this
  · have hview : (view c).size = c.offset.length - 1 := rfl
    rw [show List.range' (c.offset.length - 1) b.size = (List.range' 0 b.size).map (fun k => c.offset.length - 1 + k) by
      rw [List.map_add_range']; simp]
    rw [List.map_map]
    apply List.map_congr_left
    intro k hk
    have : k < b.size := by simp [List.mem_range'] at hk; omega
    exact rowT_pushed_new g hs hc mf mi this

-- ------------------------------------------------------------------------------------------------
-- Push(Row) = Push(RowBlock) of the one-row block that stores weight and qid
-- ------------------------------------------------------------------------------------------------
theorem seg_one (x : Nat) : seg [x] 0 1 = [x] := rfl

theorem pushVals_ok (lim : Nat) : ∀ (xs dst : List Nat) (m : Nat), (∀ x ∈ xs, x ≤ lim) →
    ∃ m', pushVals lim xs dst m = (dst ++ xs, m', true) ∧ (m ≤ lim → m' ≤ lim)
  | [], dst, m, _ => ⟨m, by simp [pushVals], id⟩
  | x :: xs, dst, m, h => by
    have hx : x ≤ lim := h x (by simp)
    obtain ⟨m', e, hm⟩ := pushVals_ok lim xs (dst ++ [x]) (Nat.max m x) (fun y hy => h y (by simp [hy]))
    refine ⟨m', by simp [pushVals, hx, e], fun hml => hm (Nat.max_le.mpr ⟨hml, hx⟩)⟩

/-- the row as `Push(Row)` stores it: weight and qid are materialised (`get_weight()`, `get_qid()`) -/
def RowVal.stored (r : RowVal) : RowVal :=
  { r with weight := some (match r.weight with | some w => w | none => oneF),
           qid := some (match r.qid with | some q => q | none => 0) }

/-- `field` and `value`, when present, have the row's length -/
def RowVal.WF (r : RowVal) : Prop :=
  (∀ fs, r.field = some fs → fs.length = r.index.length) ∧ (∀ vs, r.value = some vs → vs.length = r.index.length)

/-- the one-row block `Push(Row)` amounts to -/
def rowBlock (r : RowVal) : Block :=
  { size := 1, offset := [0, r.index.length], label := r.label.map (fun l => [l]),
    weight := some [match r.weight with | some w => w | none => oneF],
    qid := some [match r.qid with | some q => q | none => 0],
    field := r.field, index := some r.index, value := r.value }

theorem sound_rowBlock (r : RowVal) (wf : r.WF) (hlen : r.index.length < 2 ^ 64) : Sound (rowBlock r) = true := by
  rw [sound_iff]
  refine ⟨by simp [rowBlock], by simp [rowBlock, Block.offs, mono], ?_, by simp [rowBlock, covers],
    by simp [rowBlock, covers], r.index.length, by simp [rowBlock], ?_, ?_, by simp [rowBlock, ext], hlen⟩
  · cases h : r.label <;> simp [rowBlock, covers, h]
  · cases h : r.field with
    | none => simp [rowBlock, covers, h]
    | some fs => simp [rowBlock, covers, h, wf.1 fs h]
  · cases h : r.value with
    | none => simp [rowBlock, covers, h]
    | some vs => simp [rowBlock, covers, h, wf.2 vs h]

theorem rowBlock_rowsT (r : RowVal) (wf : r.WF) : (rowBlock r).rowsT = [r.stored] := by
  have h1 : ∀ fs : List Nat, fs.length = r.index.length → seg fs 0 r.index.length = fs := by
    intro fs h; rw [← h]; exact seg_full fs
  simp only [Block.rowsT, rowBlock, List.range_one, List.map_cons, List.map_nil, Block.rowT, RowVal.stored]
  congr 1
  cases r with
  | mk l w q f ix v =>
    simp only [RowVal.WF] at wf
    simp only [List.getD_eq_getElem?_getD, List.getElem?_cons_zero, List.getElem?_cons_succ, Option.getD_some,
      Nat.sub_zero, ext, Option.map_some, List.getD_cons_zero]
    have hf : f.map (fun l => seg l 0 ix.length) = f := by
      cases f with
      | none => rfl
      | some fs => simp [h1 fs (wf.1 fs rfl)]
    have hv : v.map (fun l => seg l 0 ix.length) = v := by
      cases v with
      | none => rfl
      | some vs => simp [h1 vs (wf.2 vs rfl)]
    have hl : Option.map (fun l => l[0]?.getD 0) (Option.map (fun l => [l]) l) = l := by cases l <;> rfl
    simp [hf, hv, hl, seg_full]

theorem pushRow_eq_pushed {lim : Nat} {c : Container} {r : RowVal} (wf : r.WF)
    (hix : ∀ x ∈ r.index, x ≤ lim) (hfl : ∀ fs, r.field = some fs → ∀ x ∈ fs, x ≤ lim) :
    ∃ mf mi, pushRow lim c r = (pushed c (rowBlock r) mf mi, none) ∧ (c.maxField ≤ lim → mf ≤ lim) ∧
      (c.maxIndex ≤ lim → mi ≤ lim) := by
  have h1 : ∀ fs : List Nat, fs.length = r.index.length → seg fs 0 r.index.length = fs := by
    intro fs h; rw [← h]; exact seg_full fs
  have hnd : (rowBlock r).ndata = r.index.length := by simp [Block.ndata, rowBlock]
  have ho : (rowBlock r).off0 = 0 := rfl
  have hno : ∀ N, newOffs (rowBlock r) N = [N + r.index.length] := by
    intro N; simp [newOffs, rowBlock, Block.off0, List.range'_succ]
  cases r with
  | mk l w q f ix v =>
    simp only [RowVal.WF] at wf
    simp only at hix hfl h1 hnd hno
    unfold pushRow
    cases f with
    | none =>
      obtain ⟨mi, ei, hmi⟩ := pushVals_ok lim ix c.index c.maxIndex hix
      refine ⟨c.maxField, mi, ?_, id, hmi⟩
      simp only [ei, Bool.not_true, Bool.false_eq_true, if_false, prOffNew_spec]
      cases v with
      | none =>
        cases l <;> cases w <;> cases q <;> simp [seg_one, pushed, appendOpt, rowBlock, newOffs, List.range'_succ, seg, ext, Block.off0, Block.ndata]
      | some vs =>
        cases l <;> cases w <;> cases q <;> simp [seg_one, pushed, appendOpt, rowBlock, newOffs, List.range'_succ, ext, Block.off0, Block.ndata, h1 vs (wf.2 vs rfl),
          seg_full]
    | some fs =>
      obtain ⟨mf, ef, hmf⟩ := pushVals_ok lim fs c.field c.maxField (hfl fs rfl)
      obtain ⟨mi, ei, hmi⟩ := pushVals_ok lim ix c.index c.maxIndex hix
      refine ⟨mf, mi, ?_, hmf, hmi⟩
      simp only [ef, ei, Bool.not_true, Bool.false_eq_true, if_false, prOffNew_spec]
      cases v with
      | none =>
        cases l <;> cases w <;> cases q <;> simp [seg_one, pushed, appendOpt, rowBlock, newOffs, List.range'_succ, ext, Block.off0, Block.ndata, h1 fs (wf.1 fs rfl),
          seg_full]
      | some vs =>
        cases l <;> cases w <;> cases q <;> simp [seg_one, pushed, appendOpt, rowBlock, newOffs, List.range'_succ, ext, Block.off0, Block.ndata, h1 fs (wf.1 fs rfl),
          h1 vs (wf.2 vs rfl), seg_full]

end DmlcModel.RowBlock
