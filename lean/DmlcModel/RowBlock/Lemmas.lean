/-
Helper lemmas for C13: specification lemmas for the Gen items, list segments, the container invariant
`Good`, soundness of `getBlock`, total row function of a sound block, slices.
-/
import DmlcModel.RowBlock.Model

namespace DmlcModel.RowBlock
open DmlcModel DmlcModel.Gen.RowBlock

-- ------------------------------------------------------------------------------------------------
-- Gen items (an edit of the C++ expression changes the definition and breaks these)
-- ------------------------------------------------------------------------------------------------
theorem u64_of_lt {n : Nat} (h : n < 2 ^ 64) : u64 n = n := by unfold u64; omega
theorem sub64_of_le {a b : Nat} (ha : a < 2 ^ 64) (hb : b ≤ a) : sub64 a b = a - b := by unfold sub64; omega

theorem gbCheckCount_spec : gbCheckCount = 6 := by decide
theorem gbSize_spec {n : Nat} (h1 : 1 ≤ n) (h : n < 2 ^ 64) : gbSize n = n - 1 := by
  unfold gbSize; exact sub64_of_le h h1
theorem pbRows_spec {n : Nat} (h1 : 1 ≤ n) (h : n < 2 ^ 64) : pbRows n = n - 1 := by
  unfold pbRows; exact sub64_of_le h h1
theorem gbLabelGuard_iff (l : Nat) : gbLabelGuard l = true ↔ l ≠ 0 := by simp [gbLabelGuard]
theorem gbLabelEq_iff {l o : Nat} (h : l + 1 < 2 ^ 64) : gbLabelEq l o = true ↔ l + 1 = o := by
  simp [gbLabelEq, u64_of_lt h]
theorem gbIndexEq_iff (a b : Nat) : gbIndexEq a b = true ↔ a = b := by simp [gbIndexEq]
theorem gbValueOk_iff (a v : Nat) : gbValueOk a v = true ↔ (a = v ∨ v = 0) := by simp [gbValueOk]
theorem gbWeightOk_iff {w o : Nat} (h : w + 1 < 2 ^ 64) : gbWeightOk w o = true ↔ (w = 0 ∨ w + 1 = o) := by
  simp [gbWeightOk, u64_of_lt h]
theorem gbQidOk_iff {w o : Nat} (h : w + 1 < 2 ^ 64) : gbQidOk w o = true ↔ (w = 0 ∨ w + 1 = o) := by
  simp [gbQidOk, u64_of_lt h]
theorem gbFieldOk_iff (f i : Nat) : gbFieldOk f i = true ↔ (f = 0 ∨ f = i) := by simp [gbFieldOk]
theorem sliceOk_iff (a e n : Nat) : sliceOk a e n = true ↔ (a ≤ e ∧ e ≤ n) := by simp [sliceOk]
theorem sliceSize_spec {a e : Nat} (h : a ≤ e) (he : e < 2 ^ 64) : sliceSize a e = e - a := by
  unfold sliceSize; exact sub64_of_le he h
theorem rowIdOk_iff (i n : Nat) : rowIdOk i n = true ↔ i < n := by simp [rowIdOk]
theorem rowLen_spec {hi lo : Nat} (h : lo ≤ hi) (hh : hi < 2 ^ 64) : rowLen hi lo = hi - lo := by
  unfold rowLen; exact sub64_of_le hh h
theorem pbNdata_spec {a b : Nat} (h : b ≤ a) (ha : a < 2 ^ 64) : pbNdata a b = a - b := by
  unfold pbNdata; exact sub64_of_le ha h
/-- the entries of a pushed block are read starting at `batch.offset[0]` (C13-2) -/
theorem pbFieldSrc_spec {o i : Nat} (h : o + i < 2 ^ 64) : pbFieldSrc o i = o + i := by
  unfold pbFieldSrc; exact u64_of_lt h
theorem pbIndexSrc_spec {o i : Nat} (h : o + i < 2 ^ 64) : pbIndexSrc o i = o + i := by
  unfold pbIndexSrc; exact u64_of_lt h
theorem pbFieldChk_eq : pbFieldChk = pbFieldSrc := rfl
theorem pbIndexChk_eq : pbIndexChk = pbIndexSrc := rfl
theorem pbValueSrc_spec (o : Nat) : pbValueSrc o = o := rfl
/-- `field` is written at its own end (C13-2), `index` at `offset.back()`, `value` at its own end -/
theorem pbFieldDst_spec {f n b : Nat} (h : n ≤ f) (hf : f < 2 ^ 64) : pbFieldDst f n b = f - n := by
  unfold pbFieldDst; exact sub64_of_le hf h
theorem pbIndexDst_spec (b i n : Nat) : pbIndexDst b i n = b := rfl
theorem pbValueDst_spec {v n : Nat} (h : n ≤ v) (hv : v < 2 ^ 64) : pbValueDst v n = v - n := by
  unfold pbValueDst; exact sub64_of_le hv h
theorem pbValueBytes_spec {n : Nat} (h : n < 2 ^ 62) : pbValueBytes n 4 / 4 = n := by
  unfold pbValueBytes u64; omega
theorem pbShiftIdx_spec (n : Nat) : pbShiftIdx n = n := rfl
theorem pbOffDst_spec {n : Nat} (h : n + 1 < 2 ^ 64) : pbOffDst n = n + 1 := by
  unfold pbOffDst; exact u64_of_lt h
theorem pbOffNextIdx_spec {i : Nat} (h : i + 1 < 2 ^ 64) : pbOffNextIdx i = i + 1 := by
  unfold pbOffNextIdx; exact u64_of_lt h
theorem pbOffNew_spec {s x o : Nat} (h : o ≤ x) (hs : s + x < 2 ^ 64) : pbOffNew s x o = s + (x - o) := by
  unfold pbOffNew u64 sub64; omega
theorem prOffNew_spec (n : Nat) : prOffNew n = n := rfl
theorem finalSave_iff (n : Nat) : finalSave n = true ↔ n ≠ 0 := by simp [finalSave]
theorem handOut_iff (n : Nat) : Gen.RowBlock.handOut n = true ↔ n ≠ 0 := by simp [Gen.RowBlock.handOut]
theorem kPageSize_spec : kPageSize = 64 * 1024 * 1024 := by decide
theorem pageFull_iff (n : Nat) : pageFull n = true ↔ 67108864 ≤ n := by
  simp [pageFull, kPageSize_spec]
theorem svmOffGuard_iff (n : Nat) : svmOffGuard n = true ↔ n ≠ 0 := by simp [svmOffGuard]
theorem fmOffGuard_iff (n : Nat) : fmOffGuard n = true ↔ n ≠ 0 := by simp [fmOffGuard]
theorem svmEndOk_iff {l o : Nat} (h : l + 1 < 2 ^ 64) : svmEndOk l o = true ↔ l + 1 = o := by
  simp [svmEndOk, u64_of_lt h]
theorem fmEndOk_iff {l o : Nat} (h : l + 1 < 2 ^ 64) : fmEndOk l o = true ↔ l + 1 = o := by
  simp [fmEndOk, u64_of_lt h]
theorem fmEndField_iff (f i : Nat) : fmEndField f i = true ↔ f = i := by simp [fmEndField]
theorem csvEndLabel_iff {l o : Nat} (h : l + 1 < 2 ^ 64) : csvEndLabel l o = true ↔ (l = 0 ∨ l + 1 = o) := by
  simp [csvEndLabel, u64_of_lt h]
theorem csvEndWeight_iff {l o : Nat} (h : l + 1 < 2 ^ 64) : csvEndWeight l o = true ↔ (l = 0 ∨ l + 1 = o) := by
  simp [csvEndWeight, u64_of_lt h]
theorem memCost_spec {o l w q f i v : Nat} (h : o + l + w + q + f + i + v < 2 ^ 58) :
    Gen.RowBlock.memCost o l w q f i v 4 4 = 8 * o + 4 * l + 4 * w + 8 * q + 4 * f + 4 * i + 4 * v := by
  unfold Gen.RowBlock.memCost
  simp (disch := omega) only [u64_of_lt]
  omega

-- ------------------------------------------------------------------------------------------------
-- lists
-- ------------------------------------------------------------------------------------------------
theorem seg_length (l : List Nat) (lo n : Nat) (h : lo + n ≤ l.length) : (seg l lo n).length = n := by
  unfold seg; simp; omega

theorem seg_zero (l : List Nat) (lo : Nat) : seg l lo 0 = [] := by simp [seg]

theorem seg_append_left (a x : List Nat) (lo n : Nat) (h : lo + n ≤ a.length) :
    seg (a ++ x) lo n = seg a lo n := by
  unfold seg
  rw [List.drop_append_of_le_length (by omega)]
  rw [List.take_append_of_le_length (by simp; omega)]

theorem seg_append_right (a x : List Nat) (p n : Nat) : seg (a ++ x) (a.length + p) n = seg x p n := by
  unfold seg
  rw [List.drop_append]
  have : List.drop (a.length + p) a = [] := List.drop_eq_nil_of_le (by omega)
  rw [this]
  simp

theorem seg_seg (l : List Nat) (o m p n : Nat) (h : p + n ≤ m) : seg (seg l o m) p n = seg l (o + p) n := by
  unfold seg
  rw [List.drop_take, List.take_take, List.drop_drop]
  congr 1
  omega

theorem seg_full (l : List Nat) : seg l 0 l.length = l := by simp [seg]

theorem seg_drop (l : List Nat) (a lo n : Nat) : seg (l.drop a) lo n = seg l (a + lo) n := by
  unfold seg; rw [List.drop_drop]

/-- `mono` as a statement about positions -/
theorem mono_get : ∀ (l : List Nat), mono l = true → ∀ (i j : Nat), i ≤ j → ∀ (x y : Nat), l[i]? = some x → l[j]? = some y → x ≤ y
  | [], _, i, j, _, x, y, hx, _ => by simp at hx
  | [a], _, i, j, hij, x, y, hx, hy => by
    cases i <;> cases j <;> simp_all
  | a :: b :: rest, h, i, j, hij, x, y, hx, hy => by
    simp only [mono, Bool.and_eq_true, decide_eq_true_eq] at h
    cases j with
    | zero =>
      have : i = 0 := by omega
      subst this
      simp_all
    | succ j =>
      cases i with
      | zero =>
        simp only [List.getElem?_cons_zero, Option.some.injEq] at hx
        subst hx
        have hb : (b :: rest)[0]? = some b := rfl
        have := mono_get (b :: rest) h.2 0 j (by omega) b y hb (by simpa using hy)
        omega
      | succ i =>
        exact mono_get (b :: rest) h.2 i j (by omega) x y (by simpa using hx) (by simpa using hy)

theorem mono_of_get : ∀ (l : List Nat), (∀ (i x y : Nat), l[i]? = some x → l[i + 1]? = some y → x ≤ y) → mono l = true
  | [], _ => rfl
  | [_], _ => rfl
  | a :: b :: rest, h => by
    simp only [mono, Bool.and_eq_true, decide_eq_true_eq]
    refine ⟨h 0 a b rfl rfl, mono_of_get (b :: rest) ?_⟩
    intro i x y hx hy
    exact h (i + 1) x y (by simpa using hx) (by simpa using hy)

theorem mono_take (l : List Nat) (n : Nat) (h : mono l = true) : mono (l.take n) = true := by
  apply mono_of_get
  intro i x y hx hy
  have hx' : l[i]? = some x := by
    rw [List.getElem?_take] at hx; split at hx <;> simp_all
  have hy' : l[i + 1]? = some y := by
    rw [List.getElem?_take] at hy; split at hy <;> simp_all
  exact mono_get l h i (i + 1) (by omega) x y hx' hy'

theorem mono_drop (l : List Nat) (n : Nat) (h : mono l = true) : mono (l.drop n) = true := by
  apply mono_of_get
  intro i x y hx hy
  rw [List.getElem?_drop] at hx hy
  exact mono_get l h (n + i) (n + (i + 1)) (by omega) x y hx hy

theorem mono_append_singleton (l : List Nat) (x : Nat) (h : mono l = true)
    (hx : ∀ y, l.getLast? = some y → y ≤ x) : mono (l ++ [x]) = true := by
  apply mono_of_get
  intro i a b ha hb
  by_cases hi : i + 1 < l.length
  · rw [List.getElem?_append_left (by omega)] at ha hb
    exact mono_get l h i (i + 1) (by omega) a b ha hb
  · have hlen : i + 1 = l.length := by
      have := (List.getElem?_eq_some_iff.mp hb).1
      simp at this; omega
    rw [List.getElem?_append_left (by omega)] at ha
    rw [List.getElem?_append_right (by omega)] at hb
    have hb' : x = b := by
      have : i + 1 - l.length = 0 := by omega
      rw [this] at hb; simpa using hb
    subst hb'
    apply hx
    rw [List.getLast?_eq_getElem?]
    have : l.length - 1 = i := by omega
    rw [this]; exact ha

-- ------------------------------------------------------------------------------------------------
-- the container invariant and GetBlock
-- ------------------------------------------------------------------------------------------------

/-- the invariant `Clear`/`Push` maintain and `GetBlock` checks (documented in the comments of the struct:
`array[size+1]`, `array[size]`), with the `size_t` range made explicit -/
structure Good (c : Container) : Prop where
  ne : c.offset ≠ []
  mono : mono c.offset = true
  last : c.offset.getLast? = some c.index.length
  lab : c.label.length + 1 = c.offset.length ∨ c.label = []
  wgt : c.weight.length + 1 = c.offset.length ∨ c.weight = []
  qid : c.qid.length + 1 = c.offset.length ∨ c.qid = []
  fld : c.field.length = c.index.length ∨ c.field = []
  val : c.value.length = c.index.length ∨ c.value = []
  small : c.offset.length < 2 ^ 62 ∧ c.index.length < 2 ^ 62

/-- the block `GetBlock` returns when its CHECKs pass -/
def view (c : Container) : Block :=
  { size := c.offset.length - 1, offset := c.offset, label := beginPtr c.label, weight := beginPtr c.weight,
    qid := beginPtr c.qid, field := beginPtr c.field, index := beginPtr c.index, value := beginPtr c.value }

theorem Good.empty : Good Container.empty := by
  refine ⟨by simp [Container.empty], rfl, rfl, ?_, ?_, ?_, ?_, ?_, ?_⟩ <;> simp [Container.empty]

theorem length_pos_of_ne {l : List Nat} (h : l ≠ []) : 1 ≤ l.length := by
  cases l with
  | nil => exact absurd rfl h
  | cons _ _ => simp

theorem eq_nil_of_length {l : List Nat} (h : l.length = 0) : l = [] := List.eq_nil_of_length_eq_zero h

theorem getBlock_good {c : Container} (g : Good c) : getBlock c = .ok (view c) := by
  have hne := length_pos_of_ne g.ne
  have hs := g.small
  unfold getBlock
  rw [g.last]
  have hl : (gbLabelGuard c.label.length && !gbLabelEq c.label.length c.offset.length) = false := by
    rcases g.lab with h | h
    · have := (gbLabelEq_iff (o := c.offset.length) (l := c.label.length) (by omega)).mpr h
      simp [this]
    · simp [h, gbLabelGuard]
  have hi : gbIndexEq c.index.length c.index.length = true := (gbIndexEq_iff _ _).mpr rfl
  have hv : gbValueOk c.index.length c.value.length = true := by
    rw [gbValueOk_iff]; rcases g.val with h | h
    · exact Or.inl h.symm
    · exact Or.inr (by simp [h])
  have hw : gbWeightOk c.weight.length c.offset.length = true := by
    rw [gbWeightOk_iff (by rcases g.wgt with h | h <;> simp_all <;> omega)]
    rcases g.wgt with h | h
    · exact Or.inr h
    · exact Or.inl (by simp [h])
  have hq : gbQidOk c.qid.length c.offset.length = true := by
    rw [gbQidOk_iff (by rcases g.qid with h | h <;> simp_all <;> omega)]
    rcases g.qid with h | h
    · exact Or.inr h
    · exact Or.inl (by simp [h])
  have hf : gbFieldOk c.field.length c.index.length = true := by
    rw [gbFieldOk_iff]; rcases g.fld with h | h
    · exact Or.inr h
    · exact Or.inl (by simp [h])
  simp only [hl, hi, hv, hw, hq, hf, Bool.not_true, Bool.false_eq_true, if_false]
  rw [gbSize_spec hne (by omega)]
  rfl

/-- conversely: whatever `GetBlock` hands out comes from a container satisfying the invariant, provided
the offsets are non-decreasing (which every producer in the library guarantees) -/
theorem good_of_getBlock {c : Container} {b : Block} (hm : mono c.offset = true)
    (hs : c.offset.length < 2 ^ 62 ∧ c.index.length < 2 ^ 62)
    (hl : c.label.length < 2 ^ 62 ∧ c.weight.length < 2 ^ 62 ∧ c.qid.length < 2 ^ 62)
    (h : getBlock c = .ok b) : Good c := by
  unfold getBlock at h
  cases hlast : c.offset.getLast? with
  | none => simp [hlast] at h
  | some back =>
    rw [hlast] at h
    simp only [] at h
    split at h
    · simp at h
    · rename_i h1
      split at h
      · simp at h
      · rename_i h2
        split at h
        · simp at h
        · rename_i h3
          split at h
          · simp at h
          · rename_i h4
            split at h
            · simp at h
            · rename_i h5
              split at h
              · simp at h
              · rename_i h6
                have hne : c.offset ≠ [] := by
                  intro h0; simp [h0] at hlast
                simp only [Bool.not_eq_true, Bool.not_eq_eq_eq_not, Bool.not_true, Bool.not_false] at h2 h3 h4 h5 h6
                have e2 : back = c.index.length := by
                  have : gbIndexEq back c.index.length = true := by
                    cases hh : gbIndexEq back c.index.length <;> simp_all
                  exact (gbIndexEq_iff _ _).mp this
                subst e2
                have e3 := (gbValueOk_iff _ _).mp (by cases hh : gbValueOk c.index.length c.value.length <;> simp_all)
                have e4 := (gbWeightOk_iff (o := c.offset.length) (w := c.weight.length) (by omega)).mp
                  (by cases hh : gbWeightOk c.weight.length c.offset.length <;> simp_all)
                have e5 := (gbQidOk_iff (o := c.offset.length) (w := c.qid.length) (by omega)).mp
                  (by cases hh : gbQidOk c.qid.length c.offset.length <;> simp_all)
                have e6 := (gbFieldOk_iff _ _).mp (by cases hh : gbFieldOk c.field.length c.index.length <;> simp_all)
                refine ⟨hne, hm, hlast, ?_, ?_, ?_, ?_, ?_, hs⟩
                · by_cases hz : c.label.length = 0
                  · exact Or.inr (eq_nil_of_length hz)
                  · left
                    have hg : gbLabelGuard c.label.length = true := (gbLabelGuard_iff _).mpr hz
                    have : gbLabelEq c.label.length c.offset.length = true := by
                      cases hh : gbLabelEq c.label.length c.offset.length <;> simp_all
                    exact (gbLabelEq_iff (by omega)).mp this
                · rcases e4 with e | e
                  · exact Or.inr (eq_nil_of_length e)
                  · exact Or.inl e
                · rcases e5 with e | e
                  · exact Or.inr (eq_nil_of_length e)
                  · exact Or.inl e
                · rcases e6 with e | e
                  · exact Or.inr (eq_nil_of_length e)
                  · exact Or.inl e
                · rcases e3 with e | e
                  · exact Or.inl e.symm
                  · exact Or.inr (eq_nil_of_length e)

theorem view_of_getBlock {c : Container} {b : Block} (g : Good c) (h : getBlock c = .ok b) : b = view c := by
  rw [getBlock_good g] at h
  exact (Except.ok.inj h).symm

end DmlcModel.RowBlock

namespace DmlcModel.RowBlock
open DmlcModel DmlcModel.Gen.RowBlock

-- ------------------------------------------------------------------------------------------------
-- sound blocks: reading rows never fails, total row function
-- ------------------------------------------------------------------------------------------------

/-- what `Sound` says, as propositions -/
theorem sound_iff (b : Block) : Sound b = true ↔
    (b.size + 1 ≤ b.offset.length ∧ mono b.offs = true ∧ covers b.label b.size = true ∧
     covers b.weight b.size = true ∧ covers b.qid b.size = true ∧
     ∃ last, b.offset[b.size]? = some last ∧ covers b.field last = true ∧ covers b.value last = true ∧
       last ≤ (ext b.index).length ∧ last < 2 ^ 64) := by
  unfold Sound
  cases h : b.offset[b.size]? with
  | none => simp
  | some last => simp [Bool.and_eq_true, and_assoc]

theorem covers_some {l : List Nat} {n : Nat} (h : covers (some l) n = true) : n ≤ l.length := by
  simpa [covers] using h

/-- total version of `Block.row` (used only in statements and proofs) -/
def Block.rowT (b : Block) (i : Nat) : RowVal :=
  let lo := b.offset.getD i 0
  let hi := b.offset.getD (i + 1) 0
  { label := b.label.map (fun l => l.getD i 0), weight := b.weight.map (fun l => l.getD i 0),
    qid := b.qid.map (fun l => l.getD i 0),
    field := b.field.map (fun l => seg l lo (hi - lo)), index := seg (ext b.index) lo (hi - lo),
    value := b.value.map (fun l => seg l lo (hi - lo)) }

theorem rd1_ok (p : Option (List Nat)) (i n : Nat) (h : covers p n = true) (hi : i < n) :
    rd1 p i = .ok (p.map (fun l => l.getD i 0)) := by
  cases p with
  | none => rfl
  | some l =>
    have := covers_some h
    have hl : i < l.length := by omega
    simp [rd1, List.getElem?_eq_getElem hl, List.getD_eq_getElem?_getD]

theorem rdSeg_ok (l : List Nat) (lo n : Nat) (h : lo + n ≤ l.length) : rdSeg l lo n = .ok (seg l lo n) := by
  unfold rdSeg
  by_cases hn : n = 0
  · simp [hn, seg]
  · simp [hn, h]

theorem rdSegOpt_ok (p : Option (List Nat)) (lo n m : Nat) (h : covers p m = true) (hm : lo + n ≤ m) :
    rdSegOpt p lo n = .ok (p.map (fun l => seg l lo n)) := by
  cases p with
  | none => rfl
  | some l =>
    have := covers_some h
    simp [rdSegOpt, rdSeg_ok l lo n (by omega)]

/-- offsets of a sound block: positions `i ≤ j ≤ size` hold values `x ≤ y ≤ last` -/
theorem sound_offsets {b : Block} (hs : Sound b = true) {i j : Nat} (hij : i ≤ j) (hj : j ≤ b.size) :
    ∃ x y last, b.offset[i]? = some x ∧ b.offset[j]? = some y ∧ b.offset[b.size]? = some last ∧
      x ≤ y ∧ y ≤ last ∧ last < 2 ^ 64 ∧ b.offset.getD i 0 = x ∧ b.offset.getD j 0 = y := by
  obtain ⟨hlen, hm, _, _, _, last, hlast, _, _, _, hl64⟩ := (sound_iff b).mp hs
  have hi' : i < b.offset.length := by omega
  have hj' : j < b.offset.length := by omega
  refine ⟨b.offset[i], b.offset[j], last, List.getElem?_eq_getElem hi', List.getElem?_eq_getElem hj', hlast, ?_, ?_,
    hl64, ?_, ?_⟩
  · apply mono_get b.offs hm i j hij
    · simp [Block.offs, List.getElem?_take]; omega
    · simp [Block.offs, List.getElem?_take]; omega
  · apply mono_get b.offs hm j b.size hj
    · simp [Block.offs, List.getElem?_take]; omega
    · simp [Block.offs, List.getElem?_take, hlast]
  · simp [List.getD_eq_getElem?_getD, List.getElem?_eq_getElem hi']
  · simp [List.getD_eq_getElem?_getD, List.getElem?_eq_getElem hj']

theorem row_eq_rowT {b : Block} (hs : Sound b = true) {i : Nat} (hi : i < b.size) :
    b.row i = .ok (b.rowT i) := by
  obtain ⟨x, y, last, hx, hy, _, hxy, hyl, hl64, gx, gy⟩ := sound_offsets hs (Nat.le_succ i) hi
  obtain ⟨_, _, cl, cw, cq, last', hlast', cf, cv, ci, _⟩ := (sound_iff b).mp hs
  have : last' = last := by simp_all
  subst this
  unfold Block.row
  rw [(rowIdOk_iff i b.size).mpr hi]
  simp only [if_true, hx, hy]
  rw [rowLen_spec hxy (by omega)]
  unfold Block.readRow
  rw [rd1_ok _ i b.size cl hi, rd1_ok _ i b.size cw hi, rd1_ok _ i b.size cq hi,
    rdSegOpt_ok _ x (y - x) last' cf (by omega), rdSegOpt_ok _ x (y - x) last' cv (by omega),
    rdSeg_ok _ x (y - x) (by omega)]
  simp [Block.rowT, List.getD_eq_getElem?_getD, hx, hy, bind, Except.bind, pure, Except.pure]

theorem rowsFrom_ok (b : Block) (f : Nat → RowVal) : ∀ (n i : Nat),
    (∀ j, j < n → b.row (i + j) = .ok (f (i + j))) → b.rowsFrom i n = .ok ((List.range' i n).map f)
  | 0, _, _ => rfl
  | n + 1, i, h => by
    have h0 := h 0 (by omega)
    simp only [Nat.add_zero] at h0
    have ih := rowsFrom_ok b f n (i + 1) (fun j hj => by
      have := h (j + 1) (by omega)
      rwa [show i + (j + 1) = i + 1 + j by omega] at this)
    simp [Block.rowsFrom, h0, ih, List.range'_succ]

/-- the rows of a sound block -/
def Block.rowsT (b : Block) : List RowVal := (List.range b.size).map b.rowT

theorem rows_sound {b : Block} (hs : Sound b = true) : b.rows = .ok b.rowsT := by
  unfold Block.rows Block.rowsT
  rw [rowsFrom_ok b b.rowT b.size 0 (fun j hj => by simpa using row_eq_rowT hs hj)]
  rw [List.range_eq_range']

-- ------------------------------------------------------------------------------------------------
-- Good containers hand out sound blocks
-- ------------------------------------------------------------------------------------------------
theorem covers_beginPtr (l : List Nat) (n : Nat) (h : l.length = n ∨ l = []) : covers (beginPtr l) n = true := by
  cases l with
  | nil => rfl
  | cons a t =>
    rcases h with h | h
    · simp [beginPtr, covers]; simp at h; omega
    · simp at h

theorem ext_beginPtr (l : List Nat) : ext (beginPtr l) = l := by cases l <;> rfl

theorem sound_view {c : Container} (g : Good c) : Sound (view c) = true := by
  have hne := length_pos_of_ne g.ne
  rw [sound_iff]
  have hlast : c.offset[c.offset.length - 1]? = some c.index.length := by
    rw [← List.getLast?_eq_getElem?]; exact g.last
  refine ⟨by simp [view]; omega, ?_, ?_, ?_, ?_, c.index.length, hlast, ?_, ?_, ?_, ?_⟩
  · simp only [Block.offs, view]
    exact mono_take _ _ g.mono
  · exact covers_beginPtr _ _ (by rcases g.lab with h | h; exact Or.inl (by simp [view]; omega); exact Or.inr h)
  · exact covers_beginPtr _ _ (by rcases g.wgt with h | h; exact Or.inl (by simp [view]; omega); exact Or.inr h)
  · exact covers_beginPtr _ _ (by rcases g.qid with h | h; exact Or.inl (by simp [view]; omega); exact Or.inr h)
  · exact covers_beginPtr _ _ g.fld
  · exact covers_beginPtr _ _ g.val
  · simp [view, ext_beginPtr]
  · have := g.small; omega

-- ------------------------------------------------------------------------------------------------
-- slices
-- ------------------------------------------------------------------------------------------------
/-- the block `Slice(bgn, e)` returns when its CHECK passes -/
def Block.sliceT (b : Block) (bgn e : Nat) : Block :=
  { size := e - bgn, offset := b.offset.drop bgn, label := b.label.map (·.drop bgn),
    weight := b.weight.map (·.drop bgn), qid := b.qid.map (·.drop bgn), field := b.field, index := b.index,
    value := b.value }

theorem slice_ok (b : Block) {bgn e : Nat} (h1 : bgn ≤ e) (h2 : e ≤ b.size) (h3 : b.size < 2 ^ 64) :
    b.slice bgn e = .ok (b.sliceT bgn e) := by
  unfold Block.slice
  rw [(sliceOk_iff bgn e b.size).mpr ⟨h1, h2⟩, sliceSize_spec h1 (by omega)]
  rfl

theorem covers_drop (p : Option (List Nat)) (n a k : Nat) (h : covers p n = true) (hk : a + k ≤ n) :
    covers (p.map (·.drop a)) k = true := by
  cases p with
  | none => rfl
  | some l =>
    have := covers_some h
    simp [covers]; omega

theorem sound_slice {b : Block} (hs : Sound b = true) {bgn e : Nat} (h1 : bgn ≤ e) (h2 : e ≤ b.size) :
    Sound (b.sliceT bgn e) = true := by
  obtain ⟨hlen, hm, cl, cw, cq, last, hlast, cf, cv, ci, hl64⟩ := (sound_iff b).mp hs
  obtain ⟨x, y, last', _, hy, hlast', _, hyl, _, _, _⟩ := sound_offsets hs h1 h2
  have : last' = last := by simp_all
  subst this
  rw [sound_iff]
  refine ⟨by simp [Block.sliceT]; omega, ?_, covers_drop _ b.size bgn (e - bgn) cl (by omega),
    covers_drop _ b.size bgn (e - bgn) cw (by omega), covers_drop _ b.size bgn (e - bgn) cq (by omega), y, ?_, ?_, ?_,
    ?_, ?_⟩
  · have : (b.sliceT bgn e).offs = (b.offs.drop bgn).take (e - bgn + 1) := by
      simp only [Block.offs, Block.sliceT]
      rw [List.drop_take, List.take_take]
      congr 1
      omega
    rw [this]
    exact mono_take _ _ (mono_drop _ _ hm)
  · simp only [Block.sliceT, List.getElem?_drop]
    rw [show bgn + (e - bgn) = e by omega]; exact hy
  · cases hf : b.field with
    | none => simp [Block.sliceT, hf, covers]
    | some l => rw [hf] at cf; have := covers_some cf; simp [Block.sliceT, hf, covers]; omega
  · cases hf : b.value with
    | none => simp [Block.sliceT, hf, covers]
    | some l => rw [hf] at cv; have := covers_some cv; simp [Block.sliceT, hf, covers]; omega
  · simp only [Block.sliceT]; omega
  · omega

theorem rowT_slice (b : Block) (bgn e i : Nat) : (b.sliceT bgn e).rowT i = b.rowT (bgn + i) := by
  simp only [Block.rowT, Block.sliceT, List.getD_eq_getElem?_getD, List.getElem?_drop, Option.map_map]
  rw [show bgn + (i + 1) = bgn + i + 1 by omega]
  congr 1 <;> cases b.label <;> cases b.weight <;> cases b.qid <;> simp [Function.comp_def, List.getElem?_drop]

theorem map_range_segment (f : Nat → RowVal) (n a k : Nat) (h : a + k ≤ n) :
    (((List.range n).map f).drop a).take k = (List.range' a k).map f := by
  apply List.ext_getElem?
  intro i
  simp only [List.getElem?_take, List.getElem?_drop, List.getElem?_map, List.getElem?_range']
  by_cases hi : i < k
  · have : a + i < n := by omega
    simp [hi, List.getElem?_range, this]
  · simp [hi]

theorem rowsT_slice (b : Block) {bgn e : Nat} (h1 : bgn ≤ e) (h2 : e ≤ b.size) :
    (b.sliceT bgn e).rowsT = (b.rowsT.drop bgn).take (e - bgn) := by
  unfold Block.rowsT
  rw [map_range_segment _ _ _ _ (by omega)]
  rw [List.range_eq_range']
  have hsz : (b.sliceT bgn e).size = e - bgn := rfl
  rw [hsz]
  apply List.ext_getElem?
  intro i
  simp only [List.getElem?_map, List.getElem?_range']
  by_cases hi : i < e - bgn
  · simp [hi, rowT_slice]
  · simp [hi]

end DmlcModel.RowBlock
