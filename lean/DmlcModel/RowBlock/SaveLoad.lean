/-
C13: `Load` inverts `Save` and consumes exactly the bytes written; a cache file made of page images is read
back page by page.
-/
import DmlcModel.RowBlock.Push

namespace DmlcModel.RowBlock
open DmlcModel DmlcModel.Gen.RowBlock

theorem leN_length : ∀ (w n : Nat), (leN w n).length = w
  | 0, _ => rfl
  | w + 1, n => by simp [leN, leN_length w]

theorem deN_leN : ∀ (w n : Nat), n < 256 ^ w → deN (leN w n) = n
  | 0, n, h => by simp at h; simp [leN, deN, h]
  | w + 1, n, h => by
    have h2 : n / 256 < 256 ^ w := by
      rw [Nat.pow_succ] at h
      exact Nat.div_lt_of_lt_mul (by omega)
    simp only [leN, deN, deN_leN w (n / 256) h2]
    have : (UInt8.ofNat (n % 256)).toNat = n % 256 := by
      simp [UInt8.toNat_ofNat']
    omega

/-- every element fits `w` bytes -/
def ElemsLt (w : Nat) (l : List Nat) : Prop := ∀ x ∈ l, x < 256 ^ w

theorem flatMap_length (w : Nat) : ∀ (l : List Nat), (l.flatMap (leN w)).length = l.length * w
  | [] => by simp
  | x :: xs => by
    simp only [List.flatMap_cons, List.length_append, leN_length, flatMap_length w xs, List.length_cons]
    rw [Nat.add_mul]; omega

theorem decodeElems_flatMap (w : Nat) : ∀ (l : List Nat), ElemsLt w l →
    decodeElems w l.length (l.flatMap (leN w)) = l
  | [], _ => rfl
  | x :: xs, h => by
    have hx : x < 256 ^ w := h x (by simp)
    have ih := decodeElems_flatMap w xs (fun y hy => h y (by simp [hy]))
    simp only [List.length_cons, decodeElems, List.flatMap_cons]
    rw [List.take_left' (leN_length w x), List.drop_left' (leN_length w x), deN_leN w x hx, ih]

theorem loadVec_saveVec (w : Nat) (l : List Nat) (rest : Bytes) (h : ElemsLt w l) (hl : l.length < 2 ^ 64) :
    loadVec w (saveVec w l ++ rest) = some (l, rest) := by
  unfold loadVec saveVec
  have h8 : (leN 8 l.length).length = 8 := leN_length 8 _
  have hlen : 8 ≤ (leN 8 l.length ++ l.flatMap (leN w) ++ rest).length := by simp [h8]
  rw [if_pos hlen]
  rw [List.append_assoc, List.take_left' h8, List.drop_left' h8]
  have h256 : (256 : Nat) ^ 8 = 2 ^ 64 := by decide
  rw [deN_leN 8 l.length (by rw [h256]; exact hl)]
  simp only []
  cases l with
  | nil => simp
  | cons x xs =>
    have hfl := flatMap_length w (x :: xs)
    simp only [List.length_cons, Nat.add_one_ne_zero, if_false]
    rw [if_pos (by simp only [List.length_append]; rw [hfl]; simp)]
    rw [List.take_left' (by rw [hfl]; simp), List.drop_left' (by rw [hfl]; simp)]
    have := decodeElems_flatMap w (x :: xs) h
    simp only [List.length_cons] at this
    rw [this]

theorem loadRaw_leN (w n old : Nat) (rest : Bytes) (hw : 0 < w) (hn : n < 256 ^ w) :
    loadRaw w old (leN w n ++ rest) = some (n, rest) := by
  unfold loadRaw
  have hl := leN_length w n
  split
  · rw [if_pos (by simp only [List.length_append, hl]; omega), List.take_left' hl, List.drop_left' hl, deN_leN w n hn]
  · have hk : Nat.min w (leN w n ++ rest).length = w := by
      simp only [List.length_append, hl]; exact Nat.min_eq_left (by omega)
    simp only [hk]
    rw [if_neg (by omega), List.take_left' hl, List.drop_left' hl, deN_leN w n hn]
    have : old % 256 ^ w / 256 ^ w = 0 := Nat.div_eq_of_lt (Nat.mod_lt _ (Nat.pow_pos (by omega)))
    simp [this]

/-- every stored value fits the width it is written with, every vector length fits the 64-bit count -/
structure InRange (iw : Nat) (c : Container) : Prop where
  offset : ElemsLt 8 c.offset ∧ c.offset.length < 2 ^ 64
  label : ElemsLt 4 c.label ∧ c.label.length < 2 ^ 64
  weight : ElemsLt 4 c.weight ∧ c.weight.length < 2 ^ 64
  qid : ElemsLt 8 c.qid ∧ c.qid.length < 2 ^ 64
  field : ElemsLt iw c.field ∧ c.field.length < 2 ^ 64
  index : ElemsLt iw c.index ∧ c.index.length < 2 ^ 64
  value : ElemsLt 4 c.value ∧ c.value.length < 2 ^ 64
  maxF : c.maxField < 256 ^ iw
  maxI : c.maxIndex < 256 ^ iw

theorem load_save (iw : Nat) (hiw : 0 < iw) (c old : Container) (rest : Bytes) (h : InRange iw c) :
    load iw old (save iw c ++ rest) = .ok c rest := by
  unfold load save
  simp only [List.append_assoc]
  rw [loadVec_saveVec 8 c.offset _ h.offset.1 h.offset.2]
  simp only []
  rw [loadVec_saveVec 4 c.label _ h.label.1 h.label.2]
  simp only []
  rw [loadVec_saveVec 4 c.weight _ h.weight.1 h.weight.2]
  simp only []
  rw [loadVec_saveVec 8 c.qid _ h.qid.1 h.qid.2]
  simp only []
  rw [loadVec_saveVec iw c.field _ h.field.1 h.field.2]
  simp only []
  rw [loadVec_saveVec iw c.index _ h.index.1 h.index.2]
  simp only []
  rw [loadVec_saveVec 4 c.value _ h.value.1 h.value.2]
  simp only []
  rw [loadRaw_leN iw c.maxField _ _ hiw h.maxF]
  simp only []
  rw [loadRaw_leN iw c.maxIndex _ _ hiw h.maxI]

theorem save_length_pos (iw : Nat) (c : Container) : 0 < (save iw c).length := by
  simp [save, saveVec, leN_length]; omega

theorem load_nil (iw : Nat) (old : Container) : load iw old [] = .eof := by
  simp [load, loadVec]

theorem flatMap_save_length (iw : Nat) : ∀ (pages : List Container),
    pages.length ≤ (pages.flatMap (save iw)).length
  | [] => by simp
  | p :: ps => by
    have := save_length_pos iw p
    have := flatMap_save_length iw ps
    simp only [List.flatMap_cons, List.length_append, List.length_cons]; omega

/-- a file made of page images is read back as exactly those pages, then end-of-file -/
theorem readPages_flatMap (iw : Nat) (hiw : 0 < iw) : ∀ (pages : List Container) (fuel : Nat),
    (∀ p ∈ pages, InRange iw p) → pages.length < fuel → readPages iw fuel (pages.flatMap (save iw)) = .ok pages
  | [], fuel, _, hf => by
    obtain ⟨k, rfl⟩ : ∃ k, fuel = k + 1 := ⟨fuel - 1, by simp at hf; omega⟩
    simp [readPages, load_nil]
  | p :: ps, fuel, h, hf => by
    obtain ⟨k, rfl⟩ : ∃ k, fuel = k + 1 := ⟨fuel - 1, by simp at hf; omega⟩
    simp only [List.flatMap_cons, readPages]
    rw [load_save iw hiw p _ _ (h p (by simp))]
    simp only []
    rw [readPages_flatMap iw hiw ps k (fun q hq => h q (by simp [hq])) (by simp at hf; omega)]

end DmlcModel.RowBlock
