/-
Bridge between the two models of `RowBlockContainer::Save` (src/data/row_block.h): the byte image of the RowBlock
model (`RowBlock.save`, used by C13) IS the Ser model's encoding (`Ser.encode`, C15) of the class with the nine
members in Save order, on every host byte order, for the little-endian stream configuration.  Through this equation
the C15 theorems of the serializer (layout independent of the host, cross-host readability) speak about the image the
RowBlock model and the C13 / C15 correspondence runs use.
-/
import DmlcModel.RowBlock.LoadPrefix
import DmlcModel.Ser.Layout

namespace DmlcModel.RowBlock
open DmlcModel DmlcModel.Ser

/-- `RowBlockContainer<IndexType, float>` as a class with Save/Load: its nine members in Save order
(`iw = sizeof(IndexType)`) -/
def rbcTy (iw : Nat) : Ty :=
  .ccons (.vec (.arith .u 8)) (.ccons (.vec (.arith .f 4)) (.ccons (.vec (.arith .f 4)) (.ccons (.vec (.arith .u 8))
    (.ccons (.vec (.arith .u iw)) (.ccons (.vec (.arith .u iw)) (.ccons (.vec (.arith .f 4))
      (.ccons (.arith .u iw) (.ccons (.arith .u iw) .cnil))))))))

/-- the container as a value of that class -/
def rbcVal (iw : Nat) (c : Container) : Val (rbcTy iw) :=
  (c.offset, c.label, c.weight, c.qid, c.field, c.index, c.value, c.maxField, c.maxIndex, ())

theorem toLE_eq_leN : ∀ (w n : Nat), toLE w n = leN w n
  | 0, _ => rfl
  | w + 1, n => by simp [toLE, leN, toLE_eq_leN w]

theorem noSwap_le (h : Bool) : (Cfg.noSwap ⟨h, h⟩) = true := by
  cases h <;> decide

theorem nativeImg_le (k : AK) (w : Nat) : nativeImg ⟨true, true⟩ (Ty.arith k w) = leN w := by
  funext v
  simp [nativeImg, image, toLE_eq_leN]

/-- a vector of `w`-byte numbers on a little-endian host writing a little-endian stream (the raw-block path of
NativePODVectorHandler: the element writer is not used) -/
theorem vecWrite_le {k : AK} (w : Nat) (enc : Nat → Bytes) (l : List Nat) (hl : l.length < 2 ^ 64) :
    vecWrite ⟨true, true⟩ (Ty.arith k w).isPod (nativeImg ⟨true, true⟩ (Ty.arith k w)) enc l = saveVec w l := by
  have h256 : (256 : Nat) ^ 8 = 2 ^ 64 := by decide
  have hm : l.length % 256 ^ 8 = l.length := by rw [h256]; exact Nat.mod_eq_of_lt hl
  rw [nativeImg_le]
  simp only [vecWrite, Ty.isPod, Ty.isArith, noSwap_le true, Gen.Ser.vecRawW, Bool.and_self, if_true,
    countWrite, arithWrite, Gen.Ser.arithSwapW, Bool.not_true, Gen.Ser.countBytes, hm, image,
    Bool.false_eq_true, if_false, saveVec, toLE_eq_leN]
  cases l with
  | nil => simp
  | cons x xs =>
    have : ((x :: xs).length != 0) = true := by simp
    rw [if_pos this]

theorem arithWrite_le (w v : Nat) : arithWrite ⟨true, true⟩ w v = leN w v := by
  simp [arithWrite, noSwap_le true, Gen.Ser.arithSwapW, image, toLE_eq_leN]

/-- **the RowBlock image is the serializer's encoding of the nine members** (little-endian host and stream) -/
theorem save_eq_encode (iw : Nat) (c : Container) (h : InRange iw c) :
    save iw c = encode ⟨true, true⟩ (rbcTy iw) (rbcVal iw c) := by
  simp only [rbcTy, rbcVal, encode, noSwap_le true, Gen.Ser.genericW, Bool.false_eq_true, if_false, if_true,
    Bool.and_true]
  rw [vecWrite_le 8 _ c.offset h.offset.2, vecWrite_le 4 _ c.label h.label.2, vecWrite_le 4 _ c.weight h.weight.2,
    vecWrite_le 8 _ c.qid h.qid.2, vecWrite_le iw _ c.field h.field.2, vecWrite_le iw _ c.index h.index.2,
    vecWrite_le 4 _ c.value h.value.2, arithWrite_le, arithWrite_le]
  simp only [save, List.append_assoc, List.append_nil]

theorem elemsLt_wf (k : AK) (w : Nat) (l : List Nat) (h : ElemsLt w l) (hl : l.length < 2 ^ 64) :
    wf (.vec (.arith k w)) l :=
  ⟨hl, fun x hx => h x hx⟩

/-- an in-range container is a well-formed value of the class -/
theorem rbcVal_wf (iw : Nat) (c : Container) (h : InRange iw c) : wf (rbcTy iw) (rbcVal iw c) :=
  ⟨elemsLt_wf .u 8 _ h.offset.1 h.offset.2, elemsLt_wf .f 4 _ h.label.1 h.label.2, elemsLt_wf .f 4 _ h.weight.1 h.weight.2,
   elemsLt_wf .u 8 _ h.qid.1 h.qid.2, elemsLt_wf .u iw _ h.field.1 h.field.2, elemsLt_wf .u iw _ h.index.1 h.index.2,
   elemsLt_wf .f 4 _ h.value.1 h.value.2, h.maxF, h.maxI, trivial⟩

theorem rbcTy_ok (iw : Nat) (h : iw = 4 ∨ iw = 8) : (rbcTy iw).ok = true ∧ (rbcTy iw).podFree = true := by
  rcases h with rfl | rfl <;> decide

end DmlcModel.RowBlock
