/-
C13: whatever the three ParseBlock disciplines leave in the container has non-decreasing offsets, so a block
that passes the CHECKs of `GetBlock` is sound.
-/
import DmlcModel.RowBlock.Iter

namespace DmlcModel.RowBlock
open DmlcModel DmlcModel.Gen.RowBlock

/-- the `size_t` range of the vectors `GetBlock` compares -/
def ContainerSmall (c : Container) : Prop :=
  c.offset.length < 2 ^ 62 ∧ c.index.length < 2 ^ 62 ∧ c.label.length < 2 ^ 62 ∧ c.weight.length < 2 ^ 62 ∧
  c.qid.length < 2 ^ 62

/-- a block that `GetBlock` hands out is sound as soon as the offsets are non-decreasing -/
theorem sound_of_getBlock {c : Container} {b : Block} (hm : mono c.offset = true) (hs : ContainerSmall c)
    (h : getBlock c = .ok b) : Sound b = true := by
  have g := good_of_getBlock hm ⟨hs.1, hs.2.1⟩ ⟨hs.2.2.1, hs.2.2.2.1, hs.2.2.2.2⟩ h
  rw [view_of_getBlock g h]
  exact sound_view g

/-- offsets recorded so far are non-decreasing and none exceeds the number of entries stored -/
def PInv (c : Container) : Prop :=
  mono c.offset = true ∧ ∀ y, c.offset.getLast? = some y → y ≤ c.index.length

theorem PInv.empty : PInv Container.empty := by
  refine ⟨rfl, ?_⟩
  intro y hy; simp [Container.empty] at hy; omega

theorem PInv.pushOffset {c : Container} (h : PInv c) :
    PInv { c with offset := c.offset ++ [c.index.length] } := by
  refine ⟨mono_append_singleton _ _ h.1 h.2, ?_⟩
  intro y hy
  simp only [List.getLast?_append, List.getLast?_singleton, Option.some_or, Option.some.injEq] at hy
  subst hy
  exact Nat.le_refl _

theorem PInv.grow {c c' : Container} (h : PInv c) (ho : c'.offset = c.offset) (hi : c.index.length ≤ c'.index.length) :
    PInv c' := by
  refine ⟨by rw [ho]; exact h.1, ?_⟩
  intro y hy; rw [ho] at hy; have := h.2 y hy; omega

theorem svmEntries_inv : ∀ (es : List Entry) (c : Container), PInv c → PInv (svmEntries c es)
  | [], _, h => h
  | e :: es, c, h => svmEntries_inv es _ (h.grow rfl (by simp))

theorem fmEntries_inv : ∀ (es : List Entry) (c : Container), PInv c → PInv (fmEntries c es)
  | [], _, h => h
  | e :: es, c, h => fmEntries_inv es _ (h.grow rfl (by simp))

theorem csvEntries_inv : ∀ (es : List Entry) (c : Container), PInv c → PInv (csvEntries c es)
  | [], _, h => h
  | e :: es, c, h => csvEntries_inv es _ (h.grow rfl (by simp))

theorem svmLine_inv (c : Container) (ln : Line) (h : PInv c) : PInv (svmLine c ln) := by
  unfold svmLine
  apply svmEntries_inv
  have h1 : PInv { c with weight := pushOpt c.weight ln.weight } := h.grow rfl (Nat.le_refl _)
  split
  · exact (PInv.pushOffset h1).grow rfl (Nat.le_refl _)
  · exact h1.grow rfl (Nat.le_refl _)

theorem fmLine_inv (c : Container) (ln : Line) (h : PInv c) : PInv (fmLine c ln) := by
  unfold fmLine
  apply fmEntries_inv
  have h1 : PInv { c with weight := pushOpt c.weight ln.weight } := h.grow rfl (Nat.le_refl _)
  split
  · exact (PInv.pushOffset h1).grow rfl (Nat.le_refl _)
  · exact h1.grow rfl (Nat.le_refl _)

theorem foldl_inv (f : Container → Line → Container) (hf : ∀ c ln, PInv c → PInv (f c ln)) :
    ∀ (ls : List Line) (c : Container), PInv c → PInv (ls.foldl f c)
  | [], _, h => h
  | l :: ls, c, h => foldl_inv f hf ls _ (hf c l h)

theorem parseSvm_mono {ls : List Line} {c : Container} (h : parseSvm ls = .ok c) : mono c.offset = true := by
  have hi := foldl_inv svmLine svmLine_inv ls _ PInv.empty
  unfold parseSvm svmEnd at h
  simp only [] at h
  split at h
  · split at h
    · cases h; exact (PInv.pushOffset hi).1
    · cases h
  · split at h
    · cases h; exact hi.1
    · cases h

theorem parseFm_mono {ls : List Line} {c : Container} (h : parseFm ls = .ok c) : mono c.offset = true := by
  have hi := foldl_inv fmLine fmLine_inv ls _ PInv.empty
  unfold parseFm fmEnd at h
  simp only [] at h
  split at h
  · split at h
    · cases h
    · split at h
      · cases h; exact (PInv.pushOffset hi).1
      · cases h
  · split at h
    · cases h
    · split at h
      · cases h; exact hi.1
      · cases h

theorem csvGo_inv : ∀ (ls : List Line) (c c' : Container), PInv c → csvGo c ls = .ok c' → PInv c'
  | [], c, c', h, e => by simp [csvGo] at e; subst e; exact h
  | ln :: rest, c, c', h, e => by
    simp only [csvGo] at e
    split at e
    · cases e
    · refine csvGo_inv rest _ c' ?_ e
      have h1 : PInv { c with label := pushOpt c.label ln.label } := h.grow rfl (Nat.le_refl _)
      have h2 := csvEntries_inv ln.entries _ h1
      exact PInv.pushOffset (h2.grow rfl (Nat.le_refl _))

theorem parseCsv_mono {ls : List Line} {c : Container} (h : parseCsv ls = .ok c) : mono c.offset = true := by
  unfold parseCsv at h
  cases hg : csvGo Container.empty ls with
  | error e => simp [hg] at h
  | ok c0 =>
    have hi := csvGo_inv ls _ _ PInv.empty hg
    simp only [hg] at h
    split at h
    · cases h
    · split at h
      · cases h; exact hi.1
      · cases h

theorem handOut_sound {c : Container} {b : Block} (hm : mono c.offset = true) (hs : ContainerSmall c)
    (h : handOut c = .ok (some b)) : Sound b = true := by
  unfold handOut at h
  split at h
  · cases hg : getBlock c with
    | error e => simp [hg] at h
    | ok b' =>
      simp [hg] at h
      subst h
      exact sound_of_getBlock hm hs hg
  · cases h

end DmlcModel.RowBlock
