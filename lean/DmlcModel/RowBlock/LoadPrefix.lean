/-
C15-F2 (RowBlockContainer::Save / Load, src/data/row_block.h): on the repaired code (`max_field` / `max_index`
go through the typed `Stream::Read<T>`, `Gen.RowBlock.loadScalarTyped`) `Load` consumes a prefix of the stream
that alone determines its result, hence never reports success on a strict prefix of a `Save` image.
-/
import DmlcModel.RowBlock.SaveLoad

namespace DmlcModel.RowBlock
open DmlcModel DmlcModel.Gen.RowBlock

/-- a successful `loadVec` read a prefix `pre` of the stream; that prefix alone determines the result -/
theorem loadVec_stable (w : Nat) (bs : Bytes) (l : List Nat) (rest : Bytes) (h : loadVec w bs = some (l, rest)) :
    ∃ pre, bs = pre ++ rest ∧ ∀ tail, loadVec w (pre ++ tail) = some (l, tail) := by
  unfold loadVec at h
  by_cases h8 : 8 ≤ bs.length
  · rw [if_pos h8] at h
    simp only [] at h
    by_cases hn : deN (bs.take 8) = 0
    · rw [if_pos hn] at h
      simp only [Option.some.injEq, Prod.mk.injEq] at h
      obtain ⟨hl, hr⟩ := h
      refine ⟨bs.take 8, ?_, ?_⟩
      · rw [← hr]; exact (List.take_append_drop 8 bs).symm
      · intro tail
        have ht : (bs.take 8).length = 8 := by simp [List.length_take]; omega
        unfold loadVec
        rw [if_pos (by simp only [List.length_append, ht]; omega)]
        simp only []
        rw [List.take_left' ht, List.drop_left' ht, if_pos hn, hl]
    · rw [if_neg hn] at h
      by_cases hm : deN (bs.take 8) * w ≤ (bs.drop 8).length
      · rw [if_pos hm] at h
        simp only [Option.some.injEq, Prod.mk.injEq] at h
        obtain ⟨hl, hr⟩ := h
        refine ⟨bs.take 8 ++ (bs.drop 8).take (deN (bs.take 8) * w), ?_, ?_⟩
        · rw [← hr, List.append_assoc, List.take_append_drop, List.take_append_drop]
        · intro tail
          have ht : (bs.take 8).length = 8 := by simp [List.length_take]; omega
          have ht2 : ((bs.drop 8).take (deN (bs.take 8) * w)).length = deN (bs.take 8) * w := by
            simp only [List.length_take]; omega
          unfold loadVec
          rw [if_pos (by simp only [List.length_append, ht]; omega)]
          simp only []
          rw [List.append_assoc, List.take_left' ht, List.drop_left' ht, if_neg hn]
          rw [if_pos (by simp only [List.length_append, ht2]; omega)]
          rw [List.take_left' ht2, List.drop_left' ht2, hl]
      · rw [if_neg hm] at h; exact absurd h (by simp)
  · rw [if_neg h8] at h; exact absurd h (by simp)

/-- the same for the typed scalar read of the repaired code -/
theorem loadRaw_stable (hT : loadScalarTyped = true) (w old : Nat) (bs : Bytes) (v : Nat) (rest : Bytes)
    (h : loadRaw w old bs = some (v, rest)) :
    ∃ pre, bs = pre ++ rest ∧ ∀ tail old', loadRaw w old' (pre ++ tail) = some (v, tail) := by
  unfold loadRaw at h
  rw [if_pos hT] at h
  by_cases hw : w ≤ bs.length
  · rw [if_pos hw] at h
    simp only [Option.some.injEq, Prod.mk.injEq] at h
    obtain ⟨hv, hr⟩ := h
    refine ⟨bs.take w, ?_, ?_⟩
    · rw [← hr]; exact (List.take_append_drop w bs).symm
    · intro tail old'
      have ht : (bs.take w).length = w := by simp only [List.length_take]; omega
      unfold loadRaw
      rw [if_pos hT, if_pos (by simp only [List.length_append, ht]; omega), List.take_left' ht, List.drop_left' ht, hv]
  · rw [if_neg hw] at h; exact absurd h (by simp)

/-- **`Load` reads a prefix that alone determines its result** (repaired code) -/
theorem load_stable (hT : loadScalarTyped = true) (iw : Nat) (old : Container) (bs : Bytes) (c : Container)
    (rest : Bytes) (h : load iw old bs = .ok c rest) :
    ∃ pre, bs = pre ++ rest ∧ ∀ tail old', load iw old' (pre ++ tail) = .ok c tail := by
  unfold load at h
  cases h1 : loadVec 8 bs with
  | none => rw [h1] at h; exact absurd h (by simp)
  | some r1 =>
    obtain ⟨offset, b1⟩ := r1
    rw [h1] at h; simp only [] at h
    cases h2 : loadVec 4 b1 with
    | none => rw [h2] at h; exact absurd h (by simp)
    | some r2 =>
      obtain ⟨label, b2⟩ := r2
      rw [h2] at h; simp only [] at h
      cases h3 : loadVec 4 b2 with
      | none => rw [h3] at h; exact absurd h (by simp)
      | some r3 =>
        obtain ⟨weight, b3⟩ := r3
        rw [h3] at h; simp only [] at h
        cases h4 : loadVec 8 b3 with
        | none => rw [h4] at h; exact absurd h (by simp)
        | some r4 =>
          obtain ⟨qid, b4⟩ := r4
          rw [h4] at h; simp only [] at h
          cases h5 : loadVec iw b4 with
          | none => rw [h5] at h; exact absurd h (by simp)
          | some r5 =>
            obtain ⟨field, b5⟩ := r5
            rw [h5] at h; simp only [] at h
            cases h6 : loadVec iw b5 with
            | none => rw [h6] at h; exact absurd h (by simp)
            | some r6 =>
              obtain ⟨index, b6⟩ := r6
              rw [h6] at h; simp only [] at h
              cases h7 : loadVec 4 b6 with
              | none => rw [h7] at h; exact absurd h (by simp)
              | some r7 =>
                obtain ⟨value, b7⟩ := r7
                rw [h7] at h; simp only [] at h
                cases h8 : loadRaw iw old.maxField b7 with
                | none => rw [h8] at h; exact absurd h (by simp)
                | some r8 =>
                  obtain ⟨mf, b8⟩ := r8
                  rw [h8] at h; simp only [] at h
                  cases h9 : loadRaw iw old.maxIndex b8 with
                  | none => rw [h9] at h; exact absurd h (by simp)
                  | some r9 =>
                    obtain ⟨mi, b9⟩ := r9
                    rw [h9] at h; simp only [LoadRes.ok.injEq] at h
                    obtain ⟨hc, hr⟩ := h
                    obtain ⟨p1, e1, s1⟩ := loadVec_stable 8 bs offset b1 h1
                    obtain ⟨p2, e2, s2⟩ := loadVec_stable 4 b1 label b2 h2
                    obtain ⟨p3, e3, s3⟩ := loadVec_stable 4 b2 weight b3 h3
                    obtain ⟨p4, e4, s4⟩ := loadVec_stable 8 b3 qid b4 h4
                    obtain ⟨p5, e5, s5⟩ := loadVec_stable iw b4 field b5 h5
                    obtain ⟨p6, e6, s6⟩ := loadVec_stable iw b5 index b6 h6
                    obtain ⟨p7, e7, s7⟩ := loadVec_stable 4 b6 value b7 h7
                    obtain ⟨p8, e8, s8⟩ := loadRaw_stable hT iw old.maxField b7 mf b8 h8
                    obtain ⟨p9, e9, s9⟩ := loadRaw_stable hT iw old.maxIndex b8 mi b9 h9
                    refine ⟨p1 ++ (p2 ++ (p3 ++ (p4 ++ (p5 ++ (p6 ++ (p7 ++ (p8 ++ p9))))))), ?_, ?_⟩
                    · rw [e1, e2, e3, e4, e5, e6, e7, e8, e9, hr]; simp only [List.append_assoc]
                    · intro tail old'
                      unfold load
                      simp only [List.append_assoc]
                      rw [s1]; simp only []
                      rw [s2]; simp only []
                      rw [s3]; simp only []
                      rw [s4]; simp only []
                      rw [s5]; simp only []
                      rw [s6]; simp only []
                      rw [s7]; simp only []
                      rw [s8]; simp only []
                      rw [s9]; simp only []
                      rw [hc]

/-- **no success on a truncated image** (repaired code): `Load` on the first `k` bytes of what `Save` wrote,
`k` smaller than the image, does not return a container -- it reports end-of-file or raises "Bad RowBlock format" -/
theorem load_truncated (hT : loadScalarTyped = true) (iw : Nat) (hiw : 0 < iw) (c old : Container) (h : InRange iw c)
    (k : Nat) (hk : k < (save iw c).length) (c' : Container) (r : Bytes) :
    load iw old ((save iw c).take k) ≠ .ok c' r := by
  intro hl
  obtain ⟨pre, e, s⟩ := load_stable hT iw old _ c' r hl
  have h1 := s (r ++ (save iw c).drop k) old
  rw [← List.append_assoc, ← e, List.take_append_drop] at h1
  have h2 := load_save iw hiw c old [] h
  rw [List.append_nil] at h2
  rw [h2] at h1
  simp only [LoadRes.ok.injEq] at h1
  have h3 : ((save iw c).drop k).length = 0 := by
    have := congrArg List.length h1.2
    simp only [List.length_nil, List.length_append] at this
    omega
  simp only [List.length_drop] at h3
  omega

/-- decidable form of `ElemsLt` (for witnesses) -/
theorem elemsLt_of_all (w : Nat) (l : List Nat) (h : l.all (fun x => decide (x < 256 ^ w)) = true) : ElemsLt w l := by
  intro x hx
  simpa using List.all_eq_true.mp h x hx

end DmlcModel.RowBlock
