/-
C13: the row iterators.  A parser is the list of blocks it hands out; all of them carry the same optional
arrays (`HasSig P`).  `BasicRowIter` pushes them into one container, `DiskRowIter` into pages that are saved
and loaded again.
-/
import DmlcModel.RowBlock.SaveLoad

namespace DmlcModel.RowBlock
open DmlcModel DmlcModel.Gen.RowBlock

/-- which optional arrays a stream of blocks carries -/
structure Sig where
  l : Bool
  w : Bool
  q : Bool
  f : Bool
  v : Bool

/-- the block carries exactly the arrays of `P` (irrelevant for a block without rows / entries) -/
def HasSig (P : Sig) (b : Block) : Prop :=
  (b.size = 0 ∨ b.label.isSome = P.l) ∧ (b.size = 0 ∨ b.weight.isSome = P.w) ∧ (b.size = 0 ∨ b.qid.isSome = P.q) ∧
  (b.ndata = 0 ∨ b.field.isSome = P.f) ∧ (b.ndata = 0 ∨ b.value.isSome = P.v)

/-- the container stores exactly the arrays of `P` -/
def CTyped (P : Sig) (c : Container) : Prop :=
  c.label.length = (if P.l then c.offset.length - 1 else 0) ∧
  c.weight.length = (if P.w then c.offset.length - 1 else 0) ∧
  c.qid.length = (if P.q then c.offset.length - 1 else 0) ∧
  c.field.length = (if P.f then c.index.length else 0) ∧
  c.value.length = (if P.v then c.index.length else 0)

theorem CTyped.empty (P : Sig) : CTyped P Container.empty := by
  simp [CTyped, Container.empty]

theorem compatArr_of_sig (a : List Nat) (rows : Nat) (p : Option (List Nat)) (m : Nat) (flag : Bool)
    (ha : a.length = if flag then rows else 0) (hp : m = 0 ∨ p.isSome = flag) : compatArr a rows p m = true := by
  rw [compatArr_iff]
  rcases hp with h | h
  · exact Or.inl h
  · right
    cases p with
    | none =>
      simp at h; subst h
      exact ⟨by simp, fun _ => eq_nil_of_length (by simpa using ha)⟩
    | some l =>
      simp at h; subst h
      exact ⟨fun _ _ => by simpa using ha, by simp⟩

theorem compatible_of_sig {P : Sig} {c : Container} {b : Block} (hc : CTyped P c) (hb : HasSig P b) :
    Compatible c b = true := by
  rw [compatible_iff]
  obtain ⟨c1, c2, c3, c4, c5⟩ := hc
  obtain ⟨b1, b2, b3, b4, b5⟩ := hb
  exact ⟨compatArr_of_sig _ _ _ _ _ c1 b1, compatArr_of_sig _ _ _ _ _ c2 b2, compatArr_of_sig _ _ _ _ _ c3 b3,
    compatArr_of_sig _ _ _ _ _ c4 b4, compatArr_of_sig _ _ _ _ _ c5 b5⟩

theorem appendOpt_typed (a : List Nat) (p : Option (List Nat)) (rows m lo : Nat) (flag : Bool)
    (ha : a.length = if flag then rows else 0) (hp : m = 0 ∨ p.isSome = flag)
    (hcov : ∀ l, p = some l → lo + m ≤ l.length) :
    (appendOpt a p lo m).length = if flag then rows + m else 0 := by
  rcases hp with h | h
  · subst h; rw [appendOpt_zero]; simpa using ha
  · cases p with
    | none => simp at h; subst h; simpa [appendOpt] using ha
    | some l =>
      simp at h; subst h
      simp only [appendOpt, List.length_append, seg_length l lo m (hcov l rfl)]
      simpa using ha

theorem ctyped_pushed {P : Sig} {c : Container} {b : Block} (g : Good c) (hs : Sound b = true)
    (hc : CTyped P c) (hb : HasSig P b) (mf mi : Nat) : CTyped P (pushed c b mf mi) := by
  obtain ⟨last, h0, hl, hle, h64, hndv, cf, cv, ci, cl, cw, cq⟩ := sound_facts hs
  obtain ⟨c1, c2, c3, c4, c5⟩ := hc
  obtain ⟨b1, b2, b3, b4, b5⟩ := hb
  have hne := length_pos_of_ne g.ne
  have hix : (seg (ext b.index) b.off0 b.ndata).length = b.ndata := seg_length _ _ _ (by omega)
  have hlenO : (pushed c b mf mi).offset.length - 1 = c.offset.length - 1 + b.size := by
    simp [pushed, newOffs_length]; omega
  have hlenI : (pushed c b mf mi).index.length = c.index.length + b.ndata := by simp [pushed, hix]
  have cov0 : ∀ (p : Option (List Nat)), covers p b.size = true → ∀ l, p = some l → 0 + b.size ≤ l.length := by
    intro p hp l hl; subst hl; have := covers_some hp; omega
  have covE : ∀ (p : Option (List Nat)), covers p last = true → ∀ l, p = some l → b.off0 + b.ndata ≤ l.length := by
    intro p hp l hl; subst hl; have := covers_some hp; omega
  unfold CTyped
  rw [hlenO, hlenI]
  exact ⟨appendOpt_typed _ _ _ _ _ _ c1 b1 (cov0 _ cl), appendOpt_typed _ _ _ _ _ _ c2 b2 (cov0 _ cw),
    appendOpt_typed _ _ _ _ _ _ c3 b3 (cov0 _ cq), appendOpt_typed _ _ _ _ _ _ c4 b4 (covE _ cf),
    appendOpt_typed _ _ _ _ _ _ c5 b5 (covE _ cv)⟩

/-- the normalised rows of a list of blocks, in order -/
def blocksRowsN (bs : List Block) : List RowVal := bs.flatMap (fun b => b.rowsT.map RowVal.norm)

/-- what the iterator theorems assume about each block the parser hands out -/
structure BlockOk (P : Sig) (lim : Nat) (b : Block) : Prop where
  sound : Sound b = true
  sig : HasSig P b
  fits : FitsLim lim b
  small : b.off0 + b.ndata < 2 ^ 62

def sumSize (bs : List Block) : Nat := (bs.map (·.size)).sum
def sumData (bs : List Block) : Nat := (bs.map (·.ndata)).sum

/-- one `Push(RowBlock)` of an admissible block -/
theorem push_step {P : Sig} {lim : Nat} {c : Container} {b : Block} (g : Good c) (hc : CTyped P c)
    (ok : BlockOk P lim b) (hsm : c.offset.length + b.size < 2 ^ 62) (hnd : c.index.length + b.ndata < 2 ^ 62) :
    ∃ c', pushBlock lim c b = (c', none) ∧ Good c' ∧ CTyped P c' ∧
      c'.offset.length = c.offset.length + b.size ∧ c'.index.length = c.index.length + b.ndata ∧
      (view c').rowsT.map RowVal.norm = (view c).rowsT.map RowVal.norm ++ b.rowsT.map RowVal.norm ∧
      (∃ mf mi, c' = pushed c b mf mi ∧ (c.maxField ≤ lim → mf ≤ lim) ∧ (c.maxIndex ≤ lim → mi ≤ lim)) := by
  obtain ⟨mf, mi, e, hmf, hmi⟩ := pushBlock_closed g ok.sound ok.fits ok.small hsm hnd
  have hcomp := compatible_of_sig hc ok.sig
  obtain ⟨last, h0, hl, hle, h64, hndv, cf, cv, ci, _⟩ := sound_facts ok.sound
  have hix : (seg (ext b.index) b.off0 b.ndata).length = b.ndata := seg_length _ _ _ (by omega)
  exact ⟨_, e, good_pushed g ok.sound hcomp hsm hnd mf mi, ctyped_pushed g ok.sound hc ok.sig mf mi,
    by simp [pushed, newOffs_length], by simp [pushed, hix], rowsT_pushed g ok.sound hcomp mf mi,
    mf, mi, rfl, hmf, hmi⟩

theorem pushAll_ok {P : Sig} {lim : Nat} : ∀ (bs : List Block) (c : Container), Good c → CTyped P c →
    (∀ b ∈ bs, BlockOk P lim b) → c.offset.length + sumSize bs < 2 ^ 62 → c.index.length + sumData bs < 2 ^ 62 →
    ∃ c', pushAll lim c bs = (c', none) ∧ Good c' ∧ CTyped P c' ∧
      (view c').rowsT.map RowVal.norm = (view c).rowsT.map RowVal.norm ++ blocksRowsN bs
  | [], c, g, hc, _, _, _ => ⟨c, rfl, g, hc, by simp [blocksRowsN]⟩
  | b :: bs, c, g, hc, hok, h1, h2 => by
    simp only [sumSize, sumData, List.map_cons, List.sum_cons] at h1 h2
    obtain ⟨c1, e1, g1, t1, l1, l2, r1, _⟩ := push_step g hc (hok b (by simp)) (by omega) (by omega)
    obtain ⟨c2, e2, g2, t2, r2⟩ := pushAll_ok bs c1 g1 t1 (fun x hx => hok x (by simp [hx]))
      (by rw [l1]; simp only [sumSize]; omega) (by rw [l2]; simp only [sumData]; omega)
    refine ⟨c2, ?_, g2, t2, ?_⟩
    · simp only [pushAll, e1, andThen_ok, e2]
    · rw [r2, r1]; simp [blocksRowsN]

theorem view_empty_rows : (view Container.empty).rowsT = [] := by
  simp [Block.rowsT, view, Container.empty]

/-- `BasicRowIter`: every pass delivers the rows of all blocks, in order -/
theorem basicPasses_ok {P : Sig} {lim : Nat} (bs : List Block) (n : Nat) (hok : ∀ b ∈ bs, BlockOk P lim b)
    (h1 : 1 + sumSize bs < 2 ^ 62) (h2 : sumData bs < 2 ^ 62) :
    ∃ rs, basicPasses lim bs n = .ok (List.replicate n rs) ∧ rs.map RowVal.norm = blocksRowsN bs := by
  obtain ⟨c, e, g, _, r⟩ := pushAll_ok (P := P) (lim := lim) bs Container.empty Good.empty (CTyped.empty P) hok
    (by simpa [Container.empty] using h1) (by simpa [Container.empty] using h2)
  refine ⟨(view c).rowsT, ?_, by rw [r, view_empty_rows]; simp⟩
  simp only [basicPasses, basicInit, e, getBlock_good g, rows_sound (sound_view g)]

-- ------------------------------------------------------------------------------------------------
-- DiskRowIter
-- ------------------------------------------------------------------------------------------------

/-- the values of the optional per-row arrays and of `value` fit their C++ types -/
structure BlockRange (b : Block) : Prop where
  label : ElemsLt 4 (ext b.label)
  weight : ElemsLt 4 (ext b.weight)
  qid : ElemsLt 8 (ext b.qid)
  value : ElemsLt 4 (ext b.value)

/-- element ranges of a container (lengths follow from `Good`) -/
structure Vals (iw : Nat) (c : Container) : Prop where
  label : ElemsLt 4 c.label
  weight : ElemsLt 4 c.weight
  qid : ElemsLt 8 c.qid
  field : ElemsLt iw c.field
  index : ElemsLt iw c.index
  value : ElemsLt 4 c.value
  maxF : c.maxField < 256 ^ iw
  maxI : c.maxIndex < 256 ^ iw

theorem Vals.empty (iw : Nat) : Vals iw Container.empty := by
  refine ⟨?_, ?_, ?_, ?_, ?_, ?_, Nat.pow_pos (by omega), Nat.pow_pos (by omega)⟩ <;>
    (intro x hx; simp [Container.empty] at hx)

theorem good_offsets_lt {c : Container} (g : Good c) : ElemsLt 8 c.offset := by
  intro x hx
  obtain ⟨i, hi, rfl⟩ := List.getElem_of_mem hx
  have h3 : c.offset[c.offset.length - 1]? = some c.index.length := by
    rw [← List.getLast?_eq_getElem?]; exact g.last
  have := mono_get _ g.mono i (c.offset.length - 1) (by omega) _ _ (List.getElem?_eq_getElem hi) h3
  have hs := g.small
  have : (256 : Nat) ^ 8 = 2 ^ 64 := by decide
  omega

theorem inRange_of {iw : Nat} {c : Container} (g : Good c) (v : Vals iw c) : InRange iw c := by
  have hs := g.small
  have hne := length_pos_of_ne g.ne
  refine ⟨⟨good_offsets_lt g, by omega⟩, ⟨v.label, ?_⟩, ⟨v.weight, ?_⟩, ⟨v.qid, ?_⟩, ⟨v.field, ?_⟩, ⟨v.index, by omega⟩,
    ⟨v.value, ?_⟩, v.maxF, v.maxI⟩
  · rcases g.lab with h | h <;> simp_all <;> omega
  · rcases g.wgt with h | h <;> simp_all <;> omega
  · rcases g.qid with h | h <;> simp_all <;> omega
  · rcases g.fld with h | h <;> simp_all <;> omega
  · rcases g.val with h | h <;> simp_all <;> omega

theorem mem_seg {l : List Nat} {lo n x : Nat} (h : x ∈ seg l lo n) : x ∈ l :=
  List.mem_of_mem_drop (List.mem_of_mem_take h)

theorem elemsLt_appendOpt (w : Nat) (a : List Nat) (p : Option (List Nat)) (lo n : Nat) (ha : ElemsLt w a)
    (hp : ElemsLt w (ext p)) : ElemsLt w (appendOpt a p lo n) := by
  intro x hx
  cases p with
  | none => exact ha x hx
  | some l =>
    simp only [appendOpt, List.mem_append] at hx
    rcases hx with h | h
    · exact ha x h
    · exact hp x (mem_seg h)

theorem vals_pushed {iw : Nat} {c : Container} {b : Block} (v : Vals iw c) (br : BlockRange b)
    (fits : FitsLim (256 ^ iw - 1) b) (mf mi : Nat) (hmf : mf ≤ 256 ^ iw - 1) (hmi : mi ≤ 256 ^ iw - 1) :
    Vals iw (pushed c b mf mi) := by
  have hp : 0 < 256 ^ iw := Nat.pow_pos (by omega)
  refine ⟨elemsLt_appendOpt 4 _ _ _ _ v.label br.label, elemsLt_appendOpt 4 _ _ _ _ v.weight br.weight,
    elemsLt_appendOpt 8 _ _ _ _ v.qid br.qid, ?_, ?_, elemsLt_appendOpt 4 _ _ _ _ v.value br.value, by simp [pushed]; omega,
    by simp [pushed]; omega⟩
  · intro x hx
    simp only [pushed] at hx
    cases hf : b.field with
    | none => rw [hf] at hx; exact v.field x hx
    | some l =>
      rw [hf] at hx
      simp only [appendOpt, List.mem_append] at hx
      rcases hx with h | h
      · exact v.field x h
      · have := fits.2 l hf x h; omega
  · intro x hx
    simp only [pushed, List.mem_append] at hx
    rcases hx with h | h
    · exact v.index x h
    · have := fits.1 x h; omega

theorem pageBlocks_good : ∀ (pages : List Container), (∀ p ∈ pages, Good p) → pageBlocks pages = .ok (pages.map view)
  | [], _ => rfl
  | p :: ps, h => by
    simp [pageBlocks, getBlock_good (h p (by simp)), pageBlocks_good ps (fun q hq => h q (by simp [hq]))]

theorem blocksRows_views : ∀ (pages : List Container), (∀ p ∈ pages, Good p) →
    blocksRows (pages.map view) = .ok (pages.flatMap (fun p => (view p).rowsT))
  | [], _ => rfl
  | p :: ps, h => by
    simp [blocksRows, rows_sound (sound_view (h p (by simp))),
      blocksRows_views ps (fun q hq => h q (by simp [hq]))]

theorem size_zero_rows {c : Container} (g : Good c) (h : finalSave c.size = false) : (view c).rowsT = [] := by
  have hne := length_pos_of_ne g.ne
  have hs := g.small
  have : c.size = 0 := by
    apply Classical.byContradiction
    intro hne0
    have := (finalSave_iff c.size).mpr hne0
    simp [this] at h
  unfold Container.size at this
  rw [gbSize_spec hne (by omega)] at this
  simp [Block.rowsT, view, this]

theorem buildGo_ok {P : Sig} (full : Nat → Bool) {iw : Nat} : ∀ (bs : List Block) (st : BuildSt),
    Good st.data → CTyped P st.data → Vals iw st.data →
    (∀ b ∈ bs, BlockOk P (256 ^ iw - 1) b ∧ BlockRange b) →
    st.data.offset.length + sumSize bs < 2 ^ 62 → st.data.index.length + sumData bs < 2 ^ 62 →
    ∃ (st' : BuildSt) (pages : List Container), buildGo full iw (256 ^ iw - 1) st bs = (st', none) ∧ st'.file = st.file ++ pages.flatMap (save iw) ∧
      (∀ p ∈ pages, Good p ∧ InRange iw p) ∧
      pages.flatMap (fun p => (view p).rowsT.map RowVal.norm) = (view st.data).rowsT.map RowVal.norm ++ blocksRowsN bs
  | [], st, g, _, v, _, _, _ => by
    simp only [buildGo]
    cases hf : finalSave st.data.size
    · exact ⟨st, [], by simp, by simp, by simp, by simp [blocksRowsN, size_zero_rows g hf]⟩
    · refine ⟨{ st with file := st.file ++ save iw st.data,
                          numCol := Nat.max st.numCol (numColOf st.data.maxIndex) }, [st.data], by simp, by simp, ?_,
        by simp [blocksRowsN]⟩
      intro p hp; simp at hp; subst hp; exact ⟨g, inRange_of g v⟩
  | b :: bs, st, g, t, v, hok, h1, h2 => by
    simp only [sumSize, sumData, List.map_cons, List.sum_cons] at h1 h2
    have hne := length_pos_of_ne g.ne
    obtain ⟨c1, e1, g1, t1, l1, l2, r1, mf, mi, ec, hmf, hmi⟩ := push_step g t (hok b (by simp)).1 (by omega) (by omega)
    have hp : 0 < 256 ^ iw := Nat.pow_pos (by omega)
    have v1 : Vals iw c1 := by
      rw [ec]
      exact vals_pushed v (hok b (by simp)).2 (hok b (by simp)).1.fits mf mi
        (hmf (by have := v.maxF; omega)) (hmi (by have := v.maxI; omega))
    simp only [buildGo, e1]
    cases hfull : full (memCost iw c1)
    · obtain ⟨st', pages, e2, f2, p2, r2⟩ := buildGo_ok full bs { st with data := c1 } g1 t1 v1
        (fun x hx => hok x (by simp [hx])) (by simp only [sumSize]; rw [l1]; omega) (by simp only [sumData]; rw [l2]; omega)
      refine ⟨st', pages, by simpa using e2, f2, p2, ?_⟩
      rw [r2, r1]; simp [blocksRowsN]
    · obtain ⟨st', pages, e2, f2, p2, r2⟩ := buildGo_ok full bs
        { data := Container.empty, file := st.file ++ save iw c1,
          numCol := Nat.max st.numCol (numColOf c1.maxIndex) } Good.empty (CTyped.empty P) (Vals.empty iw)
        (fun x hx => hok x (by simp [hx])) (by simp only [sumSize, Container.empty, List.length_singleton]; omega)
        (by simp only [sumData, Container.empty, List.length_nil]; omega)
      refine ⟨st', c1 :: pages, by simpa using e2, by simp [f2], ?_, ?_⟩
      · intro p hp
        simp at hp
        rcases hp with rfl | hp
        · exact ⟨g1, inRange_of g1 v1⟩
        · exact p2 p hp
      · simp only [List.flatMap_cons, r2, r1, view_empty_rows]
        simp [blocksRowsN]

/-- `DiskRowIter`: the cache file is built without error, and a pass over it delivers the rows of all blocks
in order -- for every page-size test `full` -/
theorem diskPass_ok {P : Sig} (full : Nat → Bool) {iw : Nat} (hiw : 0 < iw) (bs : List Block)
    (hok : ∀ b ∈ bs, BlockOk P (256 ^ iw - 1) b ∧ BlockRange b)
    (h1 : 1 + sumSize bs < 2 ^ 62) (h2 : sumData bs < 2 ^ 62) :
    ∃ file nc rs, buildCacheWith full iw (256 ^ iw - 1) bs = .ok (file, nc) ∧ diskPass iw file = .ok rs ∧
      rs.map RowVal.norm = blocksRowsN bs := by
  obtain ⟨st', pages, e, f, p, r⟩ := buildGo_ok (P := P) full bs { data := Container.empty, file := [], numCol := 0 }
    Good.empty (CTyped.empty P) (Vals.empty iw) hok (by simpa [Container.empty] using h1)
    (by simpa [Container.empty] using h2)
  simp only [List.nil_append] at f
  refine ⟨st'.file, st'.numCol, pages.flatMap (fun p => (view p).rowsT), by simp [buildCacheWith, e], ?_, ?_⟩
  · unfold diskPass
    rw [f, readPages_flatMap iw hiw pages _ (fun q hq => (p q hq).2)
      (by have := flatMap_save_length iw pages; omega)]
    simp only [pageBlocks_good pages (fun q hq => (p q hq).1), blocksRows_views pages (fun q hq => (p q hq).1)]
  · rw [List.map_flatMap, r, view_empty_rows]; simp

end DmlcModel.RowBlock
