/-
Pull operations, operation histories and drains of the repaired `IndexedRecordIOSplitter` model.
-/
import DmlcModel.Indexed.Batch
import DmlcModel.Props.C01

namespace DmlcModel.Indexed
open DmlcModel DmlcModel.Gen.Indexed
open DmlcModel.RecordIO (writeAll writeRecord)
open DmlcModel.Split (Short)

theorem Core.withChunk {rs : List Bytes} {s : St} {ib ie : Nat} (h : Core rs s ib ie) (c : Chunk) :
    Core rs { s with chunk := c } ib ie :=
  ⟨h.file, h.index, h.hib, h.hie, h.hob, h.hoe, h.le, h.leN, h.no, h.cur, h.fp, h.seq, h.shuf⟩

theorem unread_withChunk (rs : List Bytes) (s : St) (c : Chunk) : unread rs { s with chunk := c } = unread rs s := rfl

theorem unread_empty {rs : List Bytes} {s : St} {ib : Nat} (h : Core rs s ib ib) : unread rs s = [] := by
  obtain ⟨cur, hcur, _, hcr⟩ := h.cur
  unfold unread
  rw [hcur, h.hie]
  by_cases hsh : s.shuffle = true
  · have := h.shuf hsh
    simp at this
    simp [hsh, this]
  · have hsh' : s.shuffle = false := by simpa using hsh
    have := hcr hsh'
    have : cur = ib := by omega
    simp [hsh', this, seg_self]

theorem writeAll_eq_nil (pend : List Bytes) (h : Short pend) : writeAll pend = [] ↔ pend = [] := by
  constructor
  · intro e
    cases pend with
    | nil => rfl
    | cons r rs =>
      have := (Split.writeRecord_length r (h r (by simp))).1
      simp [writeAll] at e
      rw [e.1] at this; simp at this
  · intro e; subst e; rfl

/-- the whole object: `Core` plus a chunk that holds the images of the records `pend` -/
structure Inv (rs : List Bytes) (s : St) (ib ie : Nat) (pend : List Bytes) : Prop where
  core : Core rs s ib ie
  rest : s.chunk.rest = writeAll pend
  short : Short pend
  beg : s.chunk.begin % 4 = 0
  empty : ib = ie → pend = [] ∧ s.chunk.begin = 0
  batch : 1 ≤ s.batch ∧ s.batch < 2 ^ 32

/-- result of a pull: nothing left, or a non-empty group of records `pre` taken off the front of what remains -/
def PullPost (rs : List Bytes) (s : St) (pend : List Bytes) (ib ie : Nat) (isRec : Bool)
    (r : Option Bytes) (s' : St) : Prop :=
  ∃ pend', Inv rs s' ib ie pend' ∧ s'.shuffle = s.shuffle ∧
    match r with
    | none => pend ++ unread rs s = [] ∧ pend' ++ unread rs s' = []
    | some x => ∃ pre, pre ≠ [] ∧ pend ++ unread rs s = pre ++ (pend' ++ unread rs s') ∧
        (if isRec then pre = [x] else x = writeAll pre)

theorem nextBatch_spec (rs : List Bytes) (hs : Short rs) (hb : Bnd rs) (s : St) (ib ie b : Nat) (pend : List Bytes)
    (hi : Inv rs s ib ie pend) (hb1 : 1 ≤ b) (hb32 : b < 2 ^ 32) :
    ∃ r s', nextBatch s b = .ok (r, s') ∧ PullPost rs s pend ib ie false r s' := by
  have hm4 := Split.writeAll_length_mod4 pend hi.short
  unfold nextBatch nextBatchLoop extractChunk
  by_cases hp : pend = []
  · subst hp
    have hr : s.chunk.rest = [] := hi.rest
    rw [if_pos (by simp [hr])]
    dsimp only
    obtain ⟨flag, s1, c1, e1, e2, e3, e4, e5, e6, e7⟩ := nbe_spec rs hs hb s s.chunk ib ie b hi.core hb1 hb32
    rw [e1]
    cases flag with
    | false =>
      obtain ⟨u1, u2, u3, u4⟩ := e7 rfl
      refine ⟨none, _, rfl, [], ⟨e2.withChunk c1, by rw [show ({ s1 with chunk := c1 } : St).chunk.rest = c1.rest from rfl, u3, hr]; rfl,
        fun _ h => by simp at h, by show c1.begin % 4 = 0; rw [u4]; exact hi.beg,
        fun h => ⟨rfl, by show c1.begin = 0; rw [u4]; exact (hi.empty h).2⟩, by rw [show ({ s1 with chunk := c1 } : St).batch = s1.batch from rfl, e4]; exact hi.batch⟩,
        e3, by simpa using u1, by rw [unread_withChunk]; simpa using u2⟩
    | true =>
      obtain ⟨pre, p1, p2, p3, p4⟩ := e6 rfl
      have hshort : Short pre := by
        intro r hr'
        have : r ∈ unread rs s := by rw [p4]; simp [hr']
        unfold unread at this
        split at this
        · split at this
          · simp only [List.mem_filterMap] at this
            obtain ⟨i, _, hi'⟩ := this
            have := List.mem_of_getElem? hi'
            exact hs r this
          · exact short_seg rs hs _ _ r this
        · simp at this
      have hne : writeAll pre ≠ [] := fun h => p1 ((writeAll_eq_nil pre hshort).mp h)
      dsimp only
      unfold nextBatchLoop extractChunk
      dsimp only
      rw [if_neg (by rw [p3]; simpa using hne)]
      have hm4' := Split.writeAll_length_mod4 pre hshort
      refine ⟨some _, _, rfl, [], ⟨(e2.withChunk _), rfl, fun _ h => by simp at h,
        by show (c1.begin + c1.rest.length) % 4 = 0; rw [p2, p3]; omega,
        fun h => by
          subst h
          have := unread_empty hi.core
          rw [this] at p4
          exact absurd (List.append_eq_nil_iff.mp p4.symm).1 p1,
        by rw [show ({ s1 with chunk := ({ c1 with begin := c1.begin + c1.rest.length, rest := [] } : Chunk) } : St).batch = s1.batch from rfl, e4]; exact hi.batch⟩,
        e3, pre, p1, by show [] ++ unread rs s = pre ++ ([] ++ unread rs s1); simpa using p4, by simp [p3]⟩
  · have hne : s.chunk.rest ≠ [] := by
      rw [hi.rest]; exact fun h => hp ((writeAll_eq_nil pend hi.short).mp h)
    rw [if_neg (by simpa using hne)]
    refine ⟨some _, _, rfl, [], ⟨hi.core.withChunk _, rfl, fun _ h => by simp at h,
      by show (s.chunk.begin + s.chunk.rest.length) % 4 = 0; have := hi.beg; rw [hi.rest]; omega,
      fun h => absurd (hi.empty h).1 hp, hi.batch⟩, rfl, pend, hp, by simp [unread], by simp [hi.rest]⟩


theorem unread_short (rs : List Bytes) (hs : Short rs) (s : St) : Short (unread rs s) := by
  intro r this
  unfold unread at this
  split at this
  · split at this
    · simp only [List.mem_filterMap] at this
      obtain ⟨i, _, hi'⟩ := this
      exact hs r (List.mem_of_getElem? hi')
    · exact short_seg rs hs _ _ r this
  · simp at this

theorem nextRecord_spec (rs : List Bytes) (hs : Short rs) (hb : Bnd rs) (s : St) (ib ie : Nat) (pend : List Bytes)
    (hi : Inv rs s ib ie pend) :
    ∃ r s', nextRecord s = .ok (r, s') ∧ PullPost rs s pend ib ie true r s' := by
  unfold nextRecord nextRecordLoop
  cases pend with
  | cons r pend' =>
    rw [extractRecord_spec r pend' hi.short s.chunk hi.rest hi.beg]
    dsimp only
    have hl := (Split.writeRecord_length r (hi.short r (by simp))).2
    refine ⟨some r, _, rfl, pend', ⟨hi.core.withChunk _, rfl, fun x hx => hi.short x (by simp [hx]),
      by show (s.chunk.begin + (writeRecord r).1.length) % 4 = 0; have := hi.beg; omega,
      fun h => by have := (hi.empty h).1; simp at this, hi.batch⟩, rfl, [r], by simp, ?_, by simp⟩
    show r :: pend' ++ unread rs s = [r] ++ (pend' ++ unread rs s)
    simp
  | nil =>
    have hr : s.chunk.rest = [] := hi.rest
    rw [extractRecord_nil s.chunk hr]
    dsimp only
    rw [if_neg (by rw [fix_nextRecordOwn]; simp)]
    obtain ⟨flag, s1, c1, e1, e2, e3, e4, e5, e6, e7⟩ :=
      nbe_spec rs hs hb s s.chunk ib ie s.batch hi.core hi.batch.1 hi.batch.2
    rw [e1]
    cases flag with
    | false =>
      obtain ⟨u1, u2, u3, u4⟩ := e7 rfl
      refine ⟨none, _, rfl, [], ⟨e2.withChunk c1, by show c1.rest = writeAll []; rw [u3, hr]; rfl,
        fun _ h => by simp at h, by show c1.begin % 4 = 0; rw [u4]; exact hi.beg,
        fun h => ⟨rfl, by show c1.begin = 0; rw [u4]; exact (hi.empty h).2⟩,
        by show 1 ≤ s1.batch ∧ s1.batch < 2 ^ 32; rw [e4]; exact hi.batch⟩,
        e3, by simpa using u1, by show [] ++ unread rs s1 = []; simpa using u2⟩
    | true =>
      obtain ⟨pre, p1, p2, p3, p4⟩ := e6 rfl
      have hshort : Short pre := by
        intro x hx
        exact unread_short rs hs s x (by rw [p4]; simp [hx])
      dsimp only
      unfold nextRecordLoop
      dsimp only
      cases pre with
      | nil => exact absurd rfl p1
      | cons r pre' =>
        rw [extractRecord_spec r pre' hshort c1 p3 (by rw [p2])]
        dsimp only
        have hl := (Split.writeRecord_length r (hshort r (by simp))).2
        refine ⟨some r, _, rfl, pre', ⟨e2.withChunk _, rfl, fun x hx => hshort x (by simp [hx]),
          by show (c1.begin + (writeRecord r).1.length) % 4 = 0; rw [p2]; omega,
          fun h => by
            subst h
            have := unread_empty hi.core
            rw [this] at p4
            simp at p4,
          by show 1 ≤ s1.batch ∧ s1.batch < 2 ^ 32; rw [e4]; exact hi.batch⟩, e3, [r], by simp, ?_, by simp⟩
        show [] ++ unread rs s = [r] ++ (pre' ++ unread rs s1)
        simpa using p4


/-! ### pulls, histories, drains -/

inductive Pull | record | batch (b : Nat) | chunk
  deriving Repr, DecidableEq

def Pull.isRec : Pull → Bool
  | .record => true
  | _ => false

def PullOk : Pull → Prop
  | .batch b => 1 ≤ b ∧ b < 2 ^ 32
  | _ => True

/-- one call of `NextRecord` / `NextBatch(b)` / `NextChunk` on the bare class -/
def pull (s : St) : Pull → Except Err (Option Bytes × St)
  | .record => nextRecord s
  | .batch b => nextBatch s b
  | .chunk => nextChunk s

theorem pull_spec (rs : List Bytes) (hs : Short rs) (hb : Bnd rs) (s : St) (ib ie : Nat) (pend : List Bytes)
    (hi : Inv rs s ib ie pend) (p : Pull) (hp : PullOk p) :
    ∃ r s', pull s p = .ok (r, s') ∧ PullPost rs s pend ib ie p.isRec r s' := by
  cases p with
  | record => exact nextRecord_spec rs hs hb s ib ie pend hi
  | batch b => exact nextBatch_spec rs hs hb s ib ie b pend hi hp.1 hp.2
  | chunk => exact nextBatch_spec rs hs hb s ib ie s.batch pend hi hi.batch.1 hi.batch.2

inductive Op
  | pull (p : Pull)
  | bf (perm : List Nat)
  | reset (k n : Nat) (perm : List Nat)
  deriving Repr

/-- one public operation; the permutation arguments are the results of `std::shuffle` -/
def stepOp (s : St) : Op → Except Err (Option Bytes × St)
  | .pull p => pull s p
  | .bf p => (beforeFirst s p).map fun s' => (none, s')
  | .reset k n p => (resetPartition s k n p).map fun s' => (none, s')

/-- a history; any abnormal outcome (uninitialised read, out-of-range access, `CHECK`) aborts it -/
def run (s : St) : List Op → Except Err St
  | [] => .ok s
  | o :: os =>
    match stepOp s o with
    | .error e => .error e
    | .ok (_, s') => run s' os

/-- the arguments of a history are within the documented contract (`k < n`, batch sizes ≥ 1, 32-bit
parameters) and every shuffle result is a permutation of the slice it was applied to -/
def OpsOk (N : Nat) (shuffle : Bool) : Nat → Nat → List Op → Prop
  | _, _, [] => True
  | ib, ie, .pull p :: os => PullOk p ∧ OpsOk N shuffle ib ie os
  | ib, ie, .bf p :: os => (shuffle = true → p.Perm (List.range' ib (ie - ib))) ∧ OpsOk N shuffle ib ie os
  | _, _, .reset k n p :: os =>
    0 < n ∧ n < 2 ^ 32 ∧ k < n ∧
    (shuffle = true → p.Perm (List.range' (sliceBegin N n k) (sliceEnd N n k - sliceBegin N n k))) ∧
    OpsOk N shuffle (sliceBegin N n k) (sliceEnd N n k) os

theorem bf_inv (rs : List Bytes) (hs : Short rs) (hb : Bnd rs) (s : St) (ib ie : Nat) (pend : List Bytes) (p : List Nat)
    (hi : Inv rs s ib ie pend) (hp : s.shuffle = true → p.Perm (List.range' ib (ie - ib))) :
    ∃ s', beforeFirst s p = .ok s' ∧ Inv rs s' ib ie [] ∧ s'.shuffle = s.shuffle ∧
      unread rs s' = passOrder rs s.shuffle p ib ie := by
  obtain ⟨s', e1, e2, e3, e4, e5, e6, e7⟩ := bf_spec rs hs hb s ib ie p hi.core.base hp
    (fun h => by have := hi.empty h; exact ⟨by rw [hi.rest, this.1]; rfl, this.2⟩)
  exact ⟨s', e1, ⟨e2, by rw [e5]; rfl, fun _ h => by simp at h, by rw [e6], fun _ => ⟨rfl, e6⟩, by rw [e4]; exact hi.batch⟩, e3, e7⟩

theorem reset_inv (rs : List Bytes) (hs : Short rs) (hb : Bnd rs) (s : St) (k n : Nat) (p : List Nat)
    (hfile : s.file = writeAll rs) (hindex : s.index = goodIndex rs) (hbatch : 1 ≤ s.batch ∧ s.batch < 2 ^ 32)
    (hn : 0 < n) (hn32 : n < 2 ^ 32) (hk : k < n)
    (hp : s.shuffle = true → p.Perm (List.range' (sliceBegin rs.length n k)
            (sliceEnd rs.length n k - sliceBegin rs.length n k))) :
    ∃ s', resetPartition s k n p = .ok s' ∧ Inv rs s' (sliceBegin rs.length n k) (sliceEnd rs.length n k) [] ∧
      s'.shuffle = s.shuffle ∧
      unread rs s' = passOrder rs s.shuffle p (sliceBegin rs.length n k) (sliceEnd rs.length n k) := by
  obtain ⟨s', e1, e2, e3, e4, e5, e6, e7⟩ := reset_spec rs hs hb s k n p hfile hindex hn hn32 hk hp
  exact ⟨s', e1, ⟨e2, by rw [e5]; rfl, fun _ h => by simp at h, by rw [e6], fun _ => ⟨rfl, e6⟩, by rw [e4]; exact hbatch⟩, e3, e7⟩

/-- the slice the object serves after a history (only `ResetPartition` changes it) -/
def finalSlice (N : Nat) : Nat → Nat → List Op → Nat × Nat
  | ib, ie, [] => (ib, ie)
  | _, _, .reset k n _ :: os => finalSlice N (sliceBegin N n k) (sliceEnd N n k) os
  | ib, ie, _ :: os => finalSlice N ib ie os

/-- **no history of the bare class leaves the invariant** (in particular: no abnormal outcome) -/
theorem run_spec (rs : List Bytes) (hs : Short rs) (hb : Bnd rs) : ∀ (ops : List Op) (s : St) (ib ie : Nat) (pend : List Bytes),
    Inv rs s ib ie pend → OpsOk rs.length s.shuffle ib ie ops →
    ∃ s' pend', run s ops = .ok s' ∧
      Inv rs s' (finalSlice rs.length ib ie ops).1 (finalSlice rs.length ib ie ops).2 pend' ∧ s'.shuffle = s.shuffle := by
  intro ops
  induction ops with
  | nil => intro s ib ie pend hi _; exact ⟨s, pend, rfl, hi, rfl⟩
  | cons o os ih =>
    intro s ib ie pend hi hok
    cases o with
    | pull p =>
      obtain ⟨hp, hrest⟩ := hok
      obtain ⟨r, s1, e1, pend1, e2, e3, _⟩ := pull_spec rs hs hb s ib ie pend hi p hp
      obtain ⟨s', pend', f1, f2, f3⟩ := ih s1 ib ie pend1 e2 (by rw [e3]; exact hrest)
      exact ⟨s', pend', by simp only [run, stepOp, e1]; exact f1, f2, by rw [f3, e3]⟩
    | bf p =>
      obtain ⟨hp, hrest⟩ := hok
      obtain ⟨s1, e1, e2, e3, _⟩ := bf_inv rs hs hb s ib ie pend p hi hp
      obtain ⟨s', pend', f1, f2, f3⟩ := ih s1 ib ie [] e2 (by rw [e3]; exact hrest)
      exact ⟨s', pend', by simp only [run, stepOp, e1, Except.map]; exact f1, f2, by rw [f3, e3]⟩
    | reset k n p =>
      obtain ⟨hn, hn32, hk, hp, hrest⟩ := hok
      obtain ⟨s1, e1, e2, e3, _⟩ := reset_inv rs hs hb s k n p hi.core.file hi.core.index hi.batch hn hn32 hk hp
      obtain ⟨s', pend', f1, f2, f3⟩ := ih s1 _ _ [] e2 (by rw [e3]; exact hrest)
      exact ⟨s', pend', by simp only [run, stepOp, e1, Except.map]; exact f1, f2, by rw [f3, e3]⟩

/-- consume to the end; `sched i` chooses the style of the i-th call -/
def drain (sched : Nat → Pull) : Nat → Nat → St → Except Err (List (Pull × Bytes))
  | 0, _, _ => .error .fuel
  | fuel + 1, i, s =>
    match pull s (sched i) with
    | .error e => .error e
    | .ok (none, _) => .ok []
    | .ok (some x, s') =>
      match drain sched fuel (i + 1) s' with
      | .error e => .error e
      | .ok evs => .ok ((sched i, x) :: evs)

/-- the records a consumer obtains from one delivered blob: the blob itself for `NextRecord`, the
`RecordIOReader` view of a chunk / batch -/
def decode : Pull × Bytes → List Bytes
  | (.record, r) => [r]
  | (_, b) => match RecordIO.readAll b with
    | some rs => rs
    | none => []

theorem decode_blob (p : Pull) (pre : List Bytes) (x : Bytes) (hs : Short pre)
    (h : if p.isRec then pre = [x] else x = writeAll pre) : decode (p, x) = pre := by
  cases p with
  | record => simp [Pull.isRec] at h; simp [decode, h]
  | batch b =>
    simp [Pull.isRec] at h
    simp [decode, h, Props.C01.C01_roundtrip pre hs]
  | chunk =>
    simp [Pull.isRec] at h
    simp [decode, h, Props.C01.C01_roundtrip pre hs]

theorem drain_spec (rs : List Bytes) (hs : Short rs) (hb : Bnd rs) (sched : Nat → Pull) (hsched : ∀ i, PullOk (sched i)) :
    ∀ (fuel i : Nat) (s : St) (ib ie : Nat) (pend : List Bytes), Inv rs s ib ie pend →
      (pend ++ unread rs s).length < fuel →
      ∃ evs, drain sched fuel i s = .ok evs ∧ evs.flatMap decode = pend ++ unread rs s := by
  intro fuel
  induction fuel with
  | zero => intro i s ib ie pend _ h; omega
  | succ fuel ih =>
    intro i s ib ie pend hi hf
    obtain ⟨r, s1, e1, pend1, e2, e3, e4⟩ := pull_spec rs hs hb s ib ie pend hi (sched i) (hsched i)
    unfold drain
    rw [e1]
    cases r with
    | none =>
      obtain ⟨u1, _⟩ := e4
      exact ⟨[], rfl, by rw [u1]; rfl⟩
    | some x =>
      obtain ⟨pre, p1, p2, p3⟩ := e4
      have hlen : (pend1 ++ unread rs s1).length < fuel := by
        have := congrArg List.length p2
        simp only [List.length_append] at this hf ⊢
        have : 0 < pre.length := List.length_pos_iff.mpr p1
        omega
      obtain ⟨evs, f1, f2⟩ := ih (i + 1) s1 ib ie pend1 e2 hlen
      have hshort : Short pre := by
        intro y hy
        have hy' : y ∈ pend ++ unread rs s := by rw [p2]; simp [hy]
        rcases List.mem_append.mp hy' with h | h
        · exact hi.short y h
        · exact unread_short rs hs s y h
      dsimp only
      rw [f1]
      exact ⟨_, rfl, by rw [List.flatMap_cons, decode_blob _ pre x hshort p3, f2, p2]⟩

end DmlcModel.Indexed
