/-
The public path: the consumer side of `ThreadedInputSplit` around the repaired `IndexedRecordIOSplitter`
(what `InputSplit::Create(.., "indexed_recordio", ..)` returns).
-/
import DmlcModel.Indexed.Index

namespace DmlcModel.Indexed
open DmlcModel DmlcModel.Gen.Indexed
open DmlcModel.RecordIO (writeAll writeRecord)
open DmlcModel.Split (Short)

/-- invariant of the wrapped object: the base satisfies `Core`, its own `tmp_chunk_` stays empty, the
consumer's chunk holds the images of the records `pend` -/
structure WInv (rs : List Bytes) (w : W) (ib ie : Nat) (pend : List Bytes) : Prop where
  core : Core rs w.base ib ie
  bchunk : w.base.chunk.rest = [] ∧ w.base.chunk.begin = 0
  cur : match w.cur with
    | none => pend = []
    | some c => c.rest = writeAll pend ∧ c.begin % 4 = 0
  short : Short pend
  batch : 1 ≤ w.base.batch ∧ w.base.batch < 2 ^ 32

def WPullPost (rs : List Bytes) (w : W) (pend : List Bytes) (ib ie : Nat) (isRec : Bool)
    (r : Option Bytes) (w' : W) : Prop :=
  ∃ pend', WInv rs w' ib ie pend' ∧ w'.base.shuffle = w.base.shuffle ∧
    match r with
    | none => pend ++ unread rs w.base = [] ∧ pend' ++ unread rs w'.base = []
    | some x => ∃ pre, pre ≠ [] ∧ pend ++ unread rs w.base = pre ++ (pend' ++ unread rs w'.base) ∧
        (if isRec then pre = [x] else x = writeAll pre)

/-- a consumer step on a chunk: `ExtractNextRecord` or `ExtractNextChunk` -/
structure ExtSpec (ext : Chunk → Except Err (Option (Bytes × Chunk))) (isRec : Bool) : Prop where
  nil : ∀ c : Chunk, c.rest = [] → ext c = .ok none
  cons : ∀ (c : Chunk) (pend : List Bytes), pend ≠ [] → Short pend → c.rest = writeAll pend → c.begin % 4 = 0 →
    ∃ x c' pre pend', ext c = .ok (some (x, c')) ∧ pend = pre ++ pend' ∧ pre ≠ [] ∧ c'.rest = writeAll pend' ∧
      c'.begin % 4 = 0 ∧ (if isRec then pre = [x] else x = writeAll pre)

theorem extSpec_record : ExtSpec extractRecord true where
  nil := extractRecord_nil
  cons := by
    intro c pend hne hs hr hb
    cases pend with
    | nil => exact absurd rfl hne
    | cons r pend' =>
      have hl := (Split.writeRecord_length r (hs r (by simp))).2
      exact ⟨r, _, [r], pend', extractRecord_spec r pend' hs c hr hb, rfl, by simp, rfl,
        by show (c.begin + (writeRecord r).1.length) % 4 = 0; omega, by simp⟩

theorem extSpec_chunk : ExtSpec (fun c => .ok (extractChunk c)) false where
  nil := by intro c h; simp [extractChunk, h]
  cons := by
    intro c pend hne hs hr hb
    have hne' : c.rest ≠ [] := by rw [hr]; exact fun h => hne ((writeAll_eq_nil pend hs).mp h)
    have hm4 := Split.writeAll_length_mod4 pend hs
    refine ⟨c.rest, { c with begin := c.begin + c.rest.length, rest := [] }, pend, [], by simp [extractChunk, hne'], by simp, hne, rfl, ?_, by simp [hr]⟩
    show (c.begin + c.rest.length) % 4 = 0
    rw [hr]; omega

theorem W.nextLoop_spec (rs : List Bytes) (hs : Short rs) (hb : Bnd rs)
    (ext : Chunk → Except Err (Option (Bytes × Chunk))) (isRec : Bool) (hext : ExtSpec ext isRec) (dw : Nat) :
    ∀ (fuel : Nat) (w : W) (ib ie : Nat) (pend : List Bytes), WInv rs w ib ie pend →
      (match w.cur with | none => 2 | some _ => if pend = [] then 3 else 1) < fuel + 1 →
      ∃ r w', W.nextLoop ext dw fuel w = .ok (r, w') ∧ WPullPost rs w pend ib ie isRec r w' := by
  intro fuel
  induction fuel with
  | zero =>
    intro w ib ie pend hi hf
    cases hc : w.cur with
    | none => rw [hc] at hf; exact absurd (show 2 < 0 + 1 from hf) (by omega)
    | some c =>
      rw [hc] at hf
      by_cases hp : pend = []
      · rw [if_pos hp] at hf; exact absurd (show 3 < 0 + 1 from hf) (by omega)
      · rw [if_neg hp] at hf; exact absurd (show 1 < 0 + 1 from hf) (by omega)
  | succ fuel ih =>
    intro w ib ie pend hi hf
    unfold W.nextLoop
    cases hc : w.cur with
    | none =>
      have hpend : pend = [] := by have := hi.cur; rw [hc] at this; exact this
      subst hpend
      dsimp only
      unfold W.produce
      obtain ⟨flag, s1, c1, e1, e2, e3, e4, e5, e6, e7⟩ :=
        nbe_spec rs hs hb w.base { dataWords := dw + 1 } ib ie w.base.batch hi.core hi.batch.1 hi.batch.2
      rw [e1]
      cases flag with
      | false =>
        obtain ⟨u1, u2, _, _⟩ := e7 rfl
        exact ⟨none, _, rfl, [], ⟨e2, by rw [e5]; exact hi.bchunk, rfl, fun _ h => by simp at h, by rw [e4]; exact hi.batch⟩,
          e3, by simpa using u1, by simpa using u2⟩
      | true =>
        obtain ⟨pre, p1, p2, p3, p4⟩ := e6 rfl
        have hshort : Short pre := fun x hx => unread_short rs hs w.base x (by rw [p4]; simp [hx])
        dsimp only
        rw [hc] at hf
        have hf' : 2 < fuel + 1 + 1 := hf
        obtain ⟨r, w', f1, pend', f2, f3, f4⟩ := ih { base := s1, cur := some c1 } ib ie pre
          ⟨e2, by rw [e5]; exact hi.bchunk, ⟨p3, by rw [p2]⟩, hshort, by rw [e4]; exact hi.batch⟩
          (by show (if pre = [] then 3 else 1) < fuel + 1; rw [if_neg p1]; omega)
        refine ⟨r, w', f1, pend', f2, by rw [f3]; exact e3, ?_⟩
        cases r with
        | none =>
          obtain ⟨g1, _⟩ := f4
          exact absurd (List.append_eq_nil_iff.mp g1).1 p1
        | some x =>
          obtain ⟨pre', g1, g2, g3⟩ := f4
          exact ⟨pre', g1, by show [] ++ unread rs w.base = _; rw [List.nil_append, p4]; exact g2, g3⟩
    | some c =>
      have hcur : c.rest = writeAll pend ∧ c.begin % 4 = 0 := by have := hi.cur; rw [hc] at this; exact this
      dsimp only
      by_cases hp : pend = []
      · subst hp
        rw [hext.nil c hcur.1]
        dsimp only
        rw [hc] at hf
        have hf' : 3 < fuel + 1 + 1 := hf
        obtain ⟨r, w', f1, pend', f2, f3, f4⟩ := ih { w with cur := none } ib ie []
          ⟨hi.core, hi.bchunk, rfl, fun _ h => by simp at h, hi.batch⟩ (by show 2 < fuel + 1; omega)
        exact ⟨r, w', f1, pend', f2, f3, f4⟩
      · obtain ⟨x, c', pre, pend', g1, g2, g3, g4, g5, g6⟩ := hext.cons c pend hp hi.short hcur.1 hcur.2
        rw [g1]
        refine ⟨some x, _, rfl, pend', ⟨hi.core, hi.bchunk, ⟨g4, g5⟩,
          fun y hy => hi.short y (by rw [g2]; simp [hy]), hi.batch⟩, rfl, pre, g3, ?_, g6⟩
        show pend ++ unread rs w.base = pre ++ (pend' ++ unread rs w.base)
        rw [g2, List.append_assoc]


/-! ### operations of the wrapped object -/

inductive WPull | record | chunk
  deriving Repr, DecidableEq

def WPull.isRec : WPull → Bool
  | .record => true
  | .chunk => false

/-- `NextRecord` / `NextChunk` of the object `InputSplit::Create` returns; `dw` is `kBufferSize` -/
def wpull (dw : Nat) (w : W) : WPull → Except Err (Option Bytes × W)
  | .record => w.nextRecord dw
  | .chunk => w.nextChunk dw

theorem wpull_spec (rs : List Bytes) (hs : Short rs) (hb : Bnd rs) (dw : Nat) (w : W) (ib ie : Nat) (pend : List Bytes)
    (hi : WInv rs w ib ie pend) (p : WPull) :
    ∃ r w', wpull dw w p = .ok (r, w') ∧ WPullPost rs w pend ib ie p.isRec r w' := by
  have hm : (match w.cur with | none => 2 | some _ => if pend = [] then 3 else 1) < 4 + 1 := by
    cases w.cur with
    | none => show 2 < 4 + 1; omega
    | some c => by_cases h : pend = [] <;> simp [h]
  cases p with
  | record => exact W.nextLoop_spec rs hs hb extractRecord true extSpec_record dw 4 w ib ie pend hi hm
  | chunk => exact W.nextLoop_spec rs hs hb _ false extSpec_chunk dw 4 w ib ie pend hi hm

inductive WOp
  | pull (p : WPull)
  | bf (perm : List Nat)
  | reset (k n : Nat) (perm₁ perm₂ : List Nat)
  deriving Repr

def wstep (dw : Nat) (w : W) : WOp → Except Err (Option Bytes × W)
  | .pull p => wpull dw w p
  | .bf p => (w.beforeFirst p).map fun w' => (none, w')
  | .reset k n p₁ p₂ => (w.resetPartition k n p₁ p₂).map fun w' => (none, w')

def wrun (dw : Nat) (w : W) : List WOp → Except Err W
  | [] => .ok w
  | o :: os =>
    match wstep dw w o with
    | .error e => .error e
    | .ok (_, w') => wrun dw w' os

def WOpsOk (N : Nat) (shuffle : Bool) : Nat → Nat → List WOp → Prop
  | _, _, [] => True
  | ib, ie, .pull _ :: os => WOpsOk N shuffle ib ie os
  | ib, ie, .bf p :: os => (shuffle = true → p.Perm (List.range' ib (ie - ib))) ∧ WOpsOk N shuffle ib ie os
  | _, _, .reset k n p₁ p₂ :: os =>
    0 < n ∧ n < 2 ^ 32 ∧ k < n ∧
    (shuffle = true → p₁.Perm (List.range' (sliceBegin N n k) (sliceEnd N n k - sliceBegin N n k)) ∧
                      p₂.Perm (List.range' (sliceBegin N n k) (sliceEnd N n k - sliceBegin N n k))) ∧
    WOpsOk N shuffle (sliceBegin N n k) (sliceEnd N n k) os

def wfinalSlice (N : Nat) : Nat → Nat → List WOp → Nat × Nat
  | ib, ie, [] => (ib, ie)
  | _, _, .reset k n _ _ :: os => wfinalSlice N (sliceBegin N n k) (sliceEnd N n k) os
  | ib, ie, _ :: os => wfinalSlice N ib ie os

theorem wbf_inv (rs : List Bytes) (hs : Short rs) (hb : Bnd rs) (w : W) (ib ie : Nat) (p : List Nat)
    (hcore : Base rs w.base ib ie) (hchunk : w.base.chunk.rest = [] ∧ w.base.chunk.begin = 0)
    (hbatch : 1 ≤ w.base.batch ∧ w.base.batch < 2 ^ 32)
    (hp : w.base.shuffle = true → p.Perm (List.range' ib (ie - ib))) :
    ∃ w', w.beforeFirst p = .ok w' ∧ WInv rs w' ib ie [] ∧ w'.base.shuffle = w.base.shuffle ∧
      unread rs w'.base = passOrder rs w.base.shuffle p ib ie := by
  obtain ⟨s', e1, e2, e3, e4, e5, e6, e7⟩ := bf_spec rs hs hb w.base ib ie p hcore hp (fun _ => hchunk)
  unfold W.beforeFirst
  rw [e1]
  exact ⟨_, rfl, ⟨e2, ⟨e5, e6⟩, rfl, fun _ h => by simp at h, by rw [e4]; exact hbatch⟩, e3, e7⟩

theorem wreset_inv (rs : List Bytes) (hs : Short rs) (hb : Bnd rs) (w : W) (k n : Nat) (p₁ p₂ : List Nat)
    (hfile : w.base.file = writeAll rs) (hindex : w.base.index = goodIndex rs)
    (hbatch : 1 ≤ w.base.batch ∧ w.base.batch < 2 ^ 32)
    (hn : 0 < n) (hn32 : n < 2 ^ 32) (hk : k < n)
    (hp : w.base.shuffle = true →
      p₁.Perm (List.range' (sliceBegin rs.length n k) (sliceEnd rs.length n k - sliceBegin rs.length n k)) ∧
      p₂.Perm (List.range' (sliceBegin rs.length n k) (sliceEnd rs.length n k - sliceBegin rs.length n k))) :
    ∃ w', w.resetPartition k n p₁ p₂ = .ok w' ∧
      WInv rs w' (sliceBegin rs.length n k) (sliceEnd rs.length n k) [] ∧ w'.base.shuffle = w.base.shuffle ∧
      unread rs w'.base = passOrder rs w.base.shuffle p₂ (sliceBegin rs.length n k) (sliceEnd rs.length n k) := by
  obtain ⟨s', e1, e2, e3, e4, e5, e6, e7⟩ := reset_spec rs hs hb w.base k n p₁ hfile hindex hn hn32 hk (fun h => (hp h).1)
  unfold W.resetPartition
  rw [e1]
  dsimp only
  obtain ⟨w', f1, f2, f3, f4⟩ := wbf_inv rs hs hb { w with base := s' } _ _ p₂ e2.base ⟨e5, e6⟩ (by rw [e4]; exact hbatch)
    (fun h => (hp (by rw [← e3]; exact h)).2)
  exact ⟨w', f1, f2, by rw [f3]; exact e3, by rw [f4]; show passOrder rs s'.shuffle _ _ _ = _; rw [e3]⟩

theorem wrun_spec (rs : List Bytes) (hs : Short rs) (hb : Bnd rs) (dw : Nat) : ∀ (ops : List WOp) (w : W) (ib ie : Nat)
    (pend : List Bytes), WInv rs w ib ie pend → WOpsOk rs.length w.base.shuffle ib ie ops →
    ∃ w' pend', wrun dw w ops = .ok w' ∧
      WInv rs w' (wfinalSlice rs.length ib ie ops).1 (wfinalSlice rs.length ib ie ops).2 pend' ∧
      w'.base.shuffle = w.base.shuffle := by
  intro ops
  induction ops with
  | nil => intro w ib ie pend hi _; exact ⟨w, pend, rfl, hi, rfl⟩
  | cons o os ih =>
    intro w ib ie pend hi hok
    cases o with
    | pull p =>
      obtain ⟨r, w1, e1, pend1, e2, e3, _⟩ := wpull_spec rs hs hb dw w ib ie pend hi p
      obtain ⟨w', pend', f1, f2, f3⟩ := ih w1 ib ie pend1 e2 (by rw [e3]; exact hok)
      exact ⟨w', pend', by simp only [wrun, wstep, e1]; exact f1, f2, by rw [f3, e3]⟩
    | bf p =>
      obtain ⟨hp, hrest⟩ := hok
      obtain ⟨w1, e1, e2, e3, _⟩ := wbf_inv rs hs hb w ib ie p hi.core.base hi.bchunk hi.batch hp
      obtain ⟨w', pend', f1, f2, f3⟩ := ih w1 ib ie [] e2 (by rw [e3]; exact hrest)
      exact ⟨w', pend', by simp only [wrun, wstep, e1, Except.map]; exact f1, f2, by rw [f3, e3]⟩
    | reset k n p₁ p₂ =>
      obtain ⟨hn, hn32, hk, hp, hrest⟩ := hok
      obtain ⟨w1, e1, e2, e3, _⟩ := wreset_inv rs hs hb w k n p₁ p₂ hi.core.file hi.core.index hi.batch hn hn32 hk hp
      obtain ⟨w', pend', f1, f2, f3⟩ := ih w1 _ _ [] e2 (by rw [e3]; exact hrest)
      exact ⟨w', pend', by simp only [wrun, wstep, e1, Except.map]; exact f1, f2, by rw [f3, e3]⟩

def wdrain (dw : Nat) (sched : Nat → WPull) : Nat → Nat → W → Except Err (List (WPull × Bytes))
  | 0, _, _ => .error .fuel
  | fuel + 1, i, w =>
    match wpull dw w (sched i) with
    | .error e => .error e
    | .ok (none, _) => .ok []
    | .ok (some x, w') =>
      match wdrain dw sched fuel (i + 1) w' with
      | .error e => .error e
      | .ok evs => .ok ((sched i, x) :: evs)

def wdecode : WPull × Bytes → List Bytes
  | (.record, r) => [r]
  | (.chunk, b) => match RecordIO.readAll b with
    | some rs => rs
    | none => []

theorem wdecode_blob (p : WPull) (pre : List Bytes) (x : Bytes) (hs : Short pre)
    (h : if p.isRec then pre = [x] else x = writeAll pre) : wdecode (p, x) = pre := by
  cases p with
  | record => simp [WPull.isRec] at h; simp [wdecode, h]
  | chunk =>
    simp [WPull.isRec] at h
    simp [wdecode, h, Props.C01.C01_roundtrip pre hs]

theorem wdrain_spec (rs : List Bytes) (hs : Short rs) (hb : Bnd rs) (dw : Nat) (sched : Nat → WPull) :
    ∀ (fuel i : Nat) (w : W) (ib ie : Nat) (pend : List Bytes), WInv rs w ib ie pend →
      (pend ++ unread rs w.base).length < fuel →
      ∃ evs, wdrain dw sched fuel i w = .ok evs ∧ evs.flatMap wdecode = pend ++ unread rs w.base := by
  intro fuel
  induction fuel with
  | zero => intro i w ib ie pend _ h; omega
  | succ fuel ih =>
    intro i w ib ie pend hi hf
    obtain ⟨r, w1, e1, pend1, e2, e3, e4⟩ := wpull_spec rs hs hb dw w ib ie pend hi (sched i)
    unfold wdrain
    rw [e1]
    cases r with
    | none =>
      obtain ⟨u1, _⟩ := e4
      exact ⟨[], rfl, by rw [u1]; rfl⟩
    | some x =>
      obtain ⟨pre, p1, p2, p3⟩ := e4
      have hlen : (pend1 ++ unread rs w1.base).length < fuel := by
        have := congrArg List.length p2
        simp only [List.length_append] at this hf ⊢
        have : 0 < pre.length := List.length_pos_iff.mpr p1
        omega
      obtain ⟨evs, f1, f2⟩ := ih (i + 1) w1 ib ie pend1 e2 hlen
      have hshort : Short pre := by
        intro y hy
        have hy' : y ∈ pend ++ unread rs w.base := by rw [p2]; simp [hy]
        rcases List.mem_append.mp hy' with h | h
        · exact hi.short y h
        · exact unread_short rs hs w.base y h
      dsimp only
      rw [f1]
      exact ⟨_, rfl, by rw [List.flatMap_cons, wdecode_blob _ pre x hshort p3, f2, p2]⟩

/-- `InputSplit::Create(.., k, n, "indexed_recordio", shuffle, seed, batch)` on an indexed RecordIO file -/
theorem create_spec (rs : List Bytes) (hs : Short rs) (hb : Bnd rs) (hne : rs ≠ []) (idx : List Nat)
    (hidx : idx.Perm (starts rs)) (k n batch : Nat) (shuffle : Bool) (dw : Nat) (p : List Nat)
    (hn : 0 < n) (hn32 : n < 2 ^ 32) (hk : k < n) (hbatch : 1 ≤ batch ∧ batch < 2 ^ 32)
    (hp : shuffle = true → p.Perm (List.range' (sliceBegin rs.length n k)
            (sliceEnd rs.length n k - sliceBegin rs.length n k))) :
    ∃ w, W.create (writeAll rs) idx k n batch shuffle dw p = .ok w ∧
      WInv rs w (sliceBegin rs.length n k) (sliceEnd rs.length n k) [] ∧ w.base.shuffle = shuffle ∧
      unread rs w.base = passOrder rs shuffle p (sliceBegin rs.length n k) (sliceEnd rs.length n k) := by
  obtain ⟨s, e1, e2, e3, e4⟩ := mk_spec rs hs hb hne idx hidx k n batch shuffle dw p hn hn32 hk hbatch hp
  -- the base's own chunk is untouched by the constructor
  have hchunk : s.chunk.rest = [] ∧ s.chunk.begin = 0 := by
    have hN := length_le_of_bnd rs hs
    have hlen : 0 < rs.length := List.length_pos_iff.mpr hne
    have hm4 := Split.writeAll_length_mod4 rs hs
    unfold mk at e1
    rw [if_neg (by
      intro h
      have : (writeAll rs).length = 0 := by simpa using h
      omega)] at e1
    rw [if_neg (by simp [initAlign, ixAlign_eq]; omega), readIndex_spec rs hb hne idx hidx] at e1
    dsimp only at e1
    obtain ⟨s', f1, _, _, _, f5, f6, _⟩ := reset_spec rs hs hb
      { file := writeAll rs, index := goodIndex rs, shuffle := shuffle, batch := batch, chunk := { dataWords := dw + 1 }, bufWords := dw }
      k n p rfl rfl hn hn32 hk hp
    rw [f1] at e1
    injection e1 with e1
    subst e1
    exact ⟨f5, f6⟩
  obtain ⟨no, hno, _⟩ := e2.core.no
  obtain ⟨cur, hcur, _⟩ := e2.core.cur
  unfold W.create
  rw [if_neg (by simp [hk]), e1]
  dsimp only
  rw [hno, hcur, e2.core.hie]
  exact ⟨_, rfl, ⟨e2.core, hchunk, rfl, fun _ h => by simp at h, e2.batch⟩, e3, e4⟩

end DmlcModel.Indexed
