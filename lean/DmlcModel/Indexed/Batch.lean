/-
`NextBatchEx` on states that satisfy the invariant: it delivers the images of the next records of the pass
(a contiguous byte range without shuffling, record by record in permutation order with shuffling) and
reports the end exactly when no record is left.
-/
import DmlcModel.Indexed.Ops

namespace DmlcModel.Indexed
open DmlcModel DmlcModel.Gen.Indexed
open DmlcModel.RecordIO (writeAll writeRecord)
open DmlcModel.Split (Short)

/-- what a successful / unsuccessful `NextBatchEx` guarantees -/
def NbePost (rs : List Bytes) (s : St) (c : Chunk) (ib ie : Nat) (flag : Bool) (s' : St) (c' : Chunk) : Prop :=
  Core rs s' ib ie ∧ s'.shuffle = s.shuffle ∧ s'.batch = s.batch ∧ s'.chunk = s.chunk ∧
  (flag = true → ∃ pre, pre ≠ [] ∧ c'.begin = 0 ∧ c'.rest = writeAll pre ∧ unread rs s = pre ++ unread rs s') ∧
  (flag = false → unread rs s = [] ∧ unread rs s' = [] ∧ c'.rest = c.rest ∧ c'.begin = c.begin)

theorem ixAlign_eq : ixAlign = 4 := by decide

theorem nbe_seq (rs : List Bytes) (hs : Short rs) (hb : Bnd rs) (s : St) (c : Chunk) (ib ie b : Nat)
    (hc : Core rs s ib ie) (hsh : s.shuffle = false) (hb1 : 1 ≤ b) (hb32 : b < 2 ^ 32) :
    ∃ flag s' c', nextBatchEx s c b = .ok (flag, s', c') ∧ NbePost rs s c ib ie flag s' c' := by
  have hN := length_le_of_bnd rs hs
  have hb' := hb
  unfold Bnd at hb'
  obtain ⟨no, hno, hno32⟩ := hc.no
  obtain ⟨cur, hcur, _, hcr⟩ := hc.cur
  obtain ⟨hcl, hcu⟩ := hcr hsh
  have hleN := hc.leN
  -- the arithmetic of the sequential branch
  let cnt := if no = 0 then b else no
  have hcnt : 1 ≤ cnt ∧ cnt < 2 ^ 32 := by
    show 1 ≤ (if no = 0 then b else no) ∧ (if no = 0 then b else no) < 2 ^ 32
    split <;> omega
  let last := min (cur + cnt) ie
  have hlast : (if nbFresh no = true then nbLastA cur b ie else nbLastB cur no ie) = last := by
    show _ = min (cur + (if no = 0 then b else no)) ie
    unfold nbFresh nbLastA nbLastB
    by_cases h0 : no = 0
    · simp only [h0, beq_self_eq_true, if_true]; rw [u64_eq _ (by omega)]
    · have : (no == 0) = false := by simp [h0]
      simp only [this, Bool.false_eq_true, if_false, h0]; rw [u64_eq _ (by omega)]
  have hcarry : (if nbFresh no = true then nbCarryA cur b last else nbCarryB cur no last) = cur + cnt - last := by
    show _ = cur + (if no = 0 then b else no) - last
    unfold nbFresh nbCarryA nbCarryB
    have hl : last ≤ cur + cnt := Nat.min_le_left _ _
    by_cases h0 : no = 0
    · simp only [h0, beq_self_eq_true, if_true] at hl ⊢
      rw [u64_eq _ (by omega), sub64_eq _ _ (by simpa [cnt, h0] using hl) (by omega)]
    · have : (no == 0) = false := by simp [h0]
      simp only [this, Bool.false_eq_true, if_false, h0] at hl ⊢
      rw [u64_eq _ (by omega), sub64_eq _ _ (by simpa [cnt, h0] using hl) (by omega)]
  have hlast_le : last ≤ ie := Nat.min_le_right _ _
  have hlast_ge : cur ≤ last := by show cur ≤ min (cur + cnt) ie; omega
  have hidxL := goodIndex_get rs last (by omega)
  have hidxC := goodIndex_get rs cur (by omega)
  have hmono := start_mono rs cur last hlast_ge
  have htotL := start_le_total rs last
  have hm4a := start_mod4 rs hs cur
  have hm4b := start_mod4 rs hs last
  have hbw : nbRangeWords (start rs last) (start rs cur) ixAlign * 4 = start rs last - start rs cur := by
    unfold nbRangeWords
    rw [ixAlign_eq, sub64_eq _ _ hmono (by omega)]
    omega
  have hbwlt : nbRangeWords (start rs last) (start rs cur) ixAlign < 2 ^ 61 := by omega
  rw [← hc.index] at hidxL hidxC
  unfold nextBatchEx
  rw [if_neg (by simp [hsh])]
  split
  case h_2 hno' => exact absurd hc.hie (hno' _ _ _ hno hcur)
  rename_i no' cur' ie2 e1 e2 e3
  rw [hno] at e1; rw [hcur] at e2; rw [hc.hie] at e3
  injection e1 with e1; injection e2 with e2; injection e3 with e3
  subst e1; subst e2; subst e3
  dsimp only
  rw [hlast, hcarry]
  split
  case h_2 hno' => exact absurd hidxC (hno' _ _ _ _ hidxL)
  rename_i ol x oc y e4 e5
  rw [hidxL] at e4; rw [hidxC] at e5
  injection e4 with e4; injection e5 with e5
  injection e4 with e4 e4'; injection e5 with e5 e5'
  subst e4; subst e5
  by_cases hend : last = cur
  · -- nothing left: the byte range is empty and `Load` fails
    have hcie : cur = ie := by
      have : min (cur + cnt) ie = cur := hend
      omega
    have hz : nbRangeWords (start rs last) (start rs cur) ixAlign = 0 := by
      have : start rs last = start rs cur := by rw [hend]
      omega
    rw [hz]
    have hcond : s.fpos = none ∨ (∃ ob oe, s.offBegin = some ob ∧ s.offEnd = some oe ∧ (oe ≤ ob ∨
          (0 * 4 = 0 ∧ ∃ oc fp, s.offCurr = some oc ∧ s.filePtr = some fp ∧ oc ≤ oe ∧ oc < 2 ^ 63))) := by
      by_cases hne : ib < ie
      · obtain ⟨hptr, _, _⟩ := hc.fp hne
        obtain ⟨cur', h1, h2, h3⟩ := hc.seq hsh hne
        rw [hcur] at h1; injection h1 with h1; subst h1
        exact Or.inr ⟨_, _, hc.hob, hc.hoe, Or.inr ⟨rfl, _, _, h3, hptr, by rw [hcie]; exact Nat.le_refl _, by omega⟩⟩
      · have : ib = ie := by have := hc.le; omega
        subst this
        exact Or.inr ⟨_, _, hc.hob, hc.hoe, Or.inl (Nat.le_refl _)⟩
    rw [load_nothing { s with nOverflow := some (cur + cnt - last), bufWords := 0, curIdx := some last } c 0 (by omega)
      (read_nothing _ _ hcond)]
    refine ⟨false, _, _, rfl, ?_, rfl, rfl, rfl, fun h => by simp at h, fun _ => ⟨?_, ?_, rfl, rfl⟩⟩
    · exact ⟨hc.file, hc.index, hc.hib, hc.hie, hc.hob, hc.hoe, hc.le, hc.leN, ⟨_, rfl, by omega⟩,
        ⟨last, rfl, by omega, fun _ => ⟨by omega, hlast_le⟩⟩, hc.fp,
        fun h1 h2 => by
          obtain ⟨cur', e1, e2, e3⟩ := hc.seq h1 h2
          rw [hcur] at e1; injection e1 with e1; subst e1
          exact ⟨last, rfl, by rw [hend]; exact e2, by rw [hend]; exact e3⟩,
        hc.shuf⟩
    · unfold unread; rw [hcur, hc.hie]; simp [hsh, hcie, seg_self]
    · unfold unread; simp only [hc.hie]; simp [hsh, hend, hcie, seg_self]
  · have hlt : cur < last := by omega
    have hne : ib < ie := by omega
    obtain ⟨hptr, _, _⟩ := hc.fp hne
    obtain ⟨cur', h1, h2, h3⟩ := hc.seq hsh hne
    rw [hcur] at h1; injection h1 with h1; subst h1
    rw [load_window rs hs hb
      { s with nOverflow := some (cur + cnt - last),
               bufWords := nbRangeWords (start rs last) (start rs cur) ixAlign, curIdx := some last }
      c cur last (start rs ib) (start rs ie) _ hc.file h2 hc.hob hc.hoe
      (by have := start_strict rs hs ib ie hne hleN; omega) h3 hptr hlt (by omega)
      (start_mono rs last ie hlast_le) hbw]
    refine ⟨true, _, _, rfl, ?_, rfl, rfl, rfl, fun _ => ⟨seg rs cur last, seg_ne_nil rs cur last hlt (by omega), rfl, rfl, ?_⟩,
      fun h => by simp at h⟩
    · exact ⟨hc.file, hc.index, hc.hib, hc.hie, hc.hob, hc.hoe, hc.le, hc.leN, ⟨_, rfl, by omega⟩,
        ⟨last, rfl, by omega, fun _ => ⟨by omega, hlast_le⟩⟩, fun _ => ⟨hptr, _, rfl⟩,
        fun _ _ => ⟨last, rfl, rfl, rfl⟩, hc.shuf⟩
    · unfold unread; simp only [hcur, hc.hie]; simp only [hsh, Bool.false_eq_true, if_false]
      exact seg_append rs cur last ie (by omega) hlast_le


theorem writeAll_single (r : Bytes) : writeAll [r] = (writeRecord r).1 := by simp [writeAll]

/-- the `while (n_read < n)` loop of the shuffled branch -/
theorem shufLoop_spec (rs : List Bytes) (hs : Short rs) (hb : Bnd rs) (ib ie n : Nat) (hn : n < 2 ^ 33) :
    ∀ (fuel : Nat) (s : St) (c : Chunk) (nRead : Nat) (acc : List Bytes),
      Core rs s ib ie → s.shuffle = true → n - nRead < fuel →
      (0 < nRead → c.begin = 0 ∧ c.rest = writeAll acc) → (nRead = 0 → acc = []) →
      ∃ s' c' m taken, shufLoop fuel s c n nRead = .ok (s', c', nRead + m) ∧ Core rs s' ib ie ∧
        s'.shuffle = s.shuffle ∧ s'.batch = s.batch ∧ s'.chunk = s.chunk ∧ s'.nOverflow = s.nOverflow ∧
        unread rs s = taken ++ unread rs s' ∧ taken.length = m ∧ (nRead ≤ n → nRead + m ≤ n) ∧
        (nRead + m < n → unread rs s' = []) ∧
        (0 < nRead + m → c'.begin = 0 ∧ c'.rest = writeAll (acc ++ taken)) ∧
        (nRead + m = 0 → c' = c) := by
  have hN := length_le_of_bnd rs hs
  have hb' := hb
  unfold Bnd at hb'
  intro fuel
  induction fuel with
  | zero => intro s c nRead acc _ _ hf; omega
  | succ fuel ih =>
    intro s c nRead acc hc hsh hf hchunk hacc
    obtain ⟨cur, hcur, hc60, _⟩ := hc.cur
    have hperm := hc.shuf hsh
    have hplen : s.perm.length = ie - ib := by rw [hperm.length_eq]; simp
    unfold shufLoop
    by_cases hmore : nRead < n
    · rw [if_pos (by simp [nbMore, hmore])]
      split
      case h_1 e => rw [hcur] at e; exact absurd e (by simp)
      rename_i cur' e
      rw [hcur] at e; injection e with e; subst e
      by_cases hhas : cur < s.perm.length
      · rw [if_pos (by simp [nbHasPerm, hhas])]
        have hget : s.perm[cur]? = some s.perm[cur] := List.getElem?_eq_getElem hhas
        have hmem : s.perm[cur] ∈ List.range' ib (ie - ib) := hperm.subset (List.getElem_mem hhas)
        rw [List.mem_range'_1] at hmem
        have hleN := hc.leN
        have hpi : s.perm[cur] < rs.length := by omega
        have hne : ib < ie := by omega
        obtain ⟨hptr, pos, hpos⟩ := hc.fp hne
        have hidx : s.index[s.perm[cur]]? =
            some (start rs s.perm[cur], start rs (s.perm[cur] + 1) - start rs s.perm[cur]) := by
          rw [hc.index]; exact goodIndex_get rs _ (by omega)
        have hstr := start_strict rs hs s.perm[cur] (s.perm[cur] + 1) (by omega) (by omega)
        have htot := start_le_total rs (s.perm[cur] + 1)
        have hm4a := start_mod4 rs hs s.perm[cur]
        have hm4b := start_mod4 rs hs (s.perm[cur] + 1)
        have hfp0 : filePtrOf s.file.length (start rs s.perm[cur]) = 0 := by
          rw [hc.file]; exact filePtrOf_lt _ _ (by omega)
        have hseek : nbSeek (start rs s.perm[cur]) (foAt s.file.length 0) = start rs s.perm[cur] := by
          simp only [nbSeek, foAt]; rw [sub64_eq _ _ (by omega) (by omega)]; omega
        have hbw : nbRecWords (start rs (s.perm[cur] + 1) - start rs s.perm[cur]) * 4 =
            start rs (s.perm[cur] + 1) - start rs s.perm[cur] := by
          unfold nbRecWords; omega
        split
        case h_1 e => rw [hget] at e; exact absurd e (by simp)
        rename_i pi e
        rw [hget] at e; injection e with e; subst e
        split
        case h_1 e => rw [hidx] at e; exact absurd e (by simp)
        rename_i off len e
        rw [hidx] at e; injection e with e; injection e with e1 e2; subst e1; subst e2
        dsimp only
        rw [hfp0]
        split
        case h_1 e => rw [hptr] at e; exact absurd e (by simp)
        rename_i fp e
        rw [hptr] at e; injection e with e; subst e
        rw [if_neg (by simp [nbReopen]), if_neg (by simp [hpos]), hseek]
        have hstie : start rs (s.perm[cur] + 1) ≤ start rs ie := start_mono rs _ _ (by omega)
        have hobie := start_strict rs hs ib ie hne hleN
        -- the state handed to Load / Append
        have hwin : ∀ c0 : Chunk, (0 < nRead → c0.begin = 0) →
            (if nbFirst nRead = true then
                load { s with offCurr := some (start rs s.perm[cur]),
                              bufWords := nbRecWords (start rs (s.perm[cur] + 1) - start rs s.perm[cur]),
                              filePtr := some 0, fpos := some (start rs s.perm[cur]) } c0
                  (nbRecWords (start rs (s.perm[cur] + 1) - start rs s.perm[cur]))
              else
                append { s with offCurr := some (start rs s.perm[cur]),
                                bufWords := nbRecWords (start rs (s.perm[cur] + 1) - start rs s.perm[cur]),
                                filePtr := some 0, fpos := some (start rs s.perm[cur]) } c0
                  (nbRecWords (start rs (s.perm[cur] + 1) - start rs s.perm[cur]))) =
              .ok (true,
                { s with offCurr := some (start rs (s.perm[cur] + 1)),
                         bufWords := nbRecWords (start rs (s.perm[cur] + 1) - start rs s.perm[cur]),
                         filePtr := some 0, fpos := some (start rs (s.perm[cur] + 1)) },
                { dataWords := (if nRead = 0 then loadResize (nbRecWords (start rs (s.perm[cur] + 1) - start rs s.perm[cur]))
                               else appendResize c0.dataWords (nbRecWords (start rs (s.perm[cur] + 1) - start rs s.perm[cur]))),
                  begin := 0,
                  rest := (if nRead = 0 then [] else c0.rest) ++ writeAll [rs[s.perm[cur]]] }) := by
          intro c0 hc0
          by_cases h0 : nRead = 0
          · rw [if_pos (by simp [nbFirst, h0])]
            rw [load_window rs hs hb
              ({ s with offCurr := some (start rs s.perm[cur]),
                         bufWords := nbRecWords (start rs (s.perm[cur] + 1) - start rs s.perm[cur]),
                         filePtr := some 0, fpos := some (start rs s.perm[cur]) })
              c0 s.perm[cur] (s.perm[cur] + 1) (start rs ib) (start rs ie) _ hc.file rfl hc.hob
              hc.hoe (by omega) rfl rfl (by omega) (by omega) hstie hbw]
            simp [h0, seg_one rs _ hpi]
          · rw [if_neg (by simp [nbFirst, h0])]
            rw [append_window rs hs hb
              ({ s with offCurr := some (start rs s.perm[cur]),
                         bufWords := nbRecWords (start rs (s.perm[cur] + 1) - start rs s.perm[cur]),
                         filePtr := some 0, fpos := some (start rs s.perm[cur]) })
              c0 s.perm[cur] (s.perm[cur] + 1) (start rs ib) (start rs ie) _ hc.file rfl hc.hob
              hc.hoe (by omega) rfl rfl (by omega) (by omega) hstie hbw (hc0 (by omega))]
            simp [h0, seg_one rs _ hpi]
        rw [hwin c (fun h => (hchunk h).1)]
        dsimp only
        -- recursive call
        have hcore' : Core rs
            { s with offCurr := some (start rs (s.perm[cur] + 1)),
                     bufWords := nbRecWords (start rs (s.perm[cur] + 1) - start rs s.perm[cur]),
                     filePtr := some 0, fpos := some (start rs (s.perm[cur] + 1)), curIdx := some (cur + 1) } ib ie :=
          ⟨hc.file, hc.index, hc.hib, hc.hie, hc.hob, hc.hoe, hc.le, hc.leN, hc.no,
            ⟨cur + 1, rfl, by omega, fun h => by simp [hsh] at h⟩, fun _ => ⟨rfl, _, rfl⟩,
            fun h => by simp [hsh] at h, hc.shuf⟩
        obtain ⟨s', c', m, taken, e1, e2, e3, e4, e5, e6, e7, e8, e9, e10, e11, e12⟩ :=
          ih
            ({ s with offCurr := some (start rs (s.perm[cur] + 1)), bufWords := nbRecWords (start rs (s.perm[cur] + 1) - start rs s.perm[cur]), filePtr := some 0, fpos := some (start rs (s.perm[cur] + 1)), curIdx := some (cur + 1) })
            ({ dataWords := (if nRead = 0 then loadResize (nbRecWords (start rs (s.perm[cur] + 1) - start rs s.perm[cur])) else appendResize c.dataWords (nbRecWords (start rs (s.perm[cur] + 1) - start rs s.perm[cur]))), begin := 0, rest := (if nRead = 0 then [] else c.rest) ++ writeAll [rs[s.perm[cur]]] })
            (nRead + 1) (acc ++ [rs[s.perm[cur]]]) hcore' hsh (by omega)
            (fun _ => ⟨rfl, by
              by_cases h0 : nRead = 0
              · simp only [h0, if_true, hacc h0, List.nil_append]
              · simp only [h0, if_false]; rw [(hchunk (by omega)).2, Split.writeAll_append]⟩)
            (fun h => by omega)
        refine ⟨s', c', m + 1, rs[s.perm[cur]] :: taken, ?_, e2, e3, e4, e5, e6, ?_, by simp [e8], by omega,
          fun h => e10 (by omega), fun _ => ?_, fun h => by omega⟩
        · have hm1 : nRead + (m + 1) = nRead + 1 + m := by omega
          rw [hm1]; exact e1
        · rw [List.cons_append, ← e7]
          unfold unread
          simp only [hcur, hc.hie, hsh, if_true]
          rw [List.drop_eq_getElem_cons hhas, List.filterMap_cons, List.getElem?_eq_getElem hpi]
        · have := e11 (by omega)
          rw [List.append_assoc] at this
          exact this
      · rw [if_neg (by simp [nbHasPerm, hhas])]
        refine ⟨s, c, 0, [], rfl, hc, rfl, rfl, rfl, rfl, ?_, rfl, fun h => h, fun _ => ?_, fun h => ?_, fun _ => rfl⟩
        · unfold unread; simp only [hcur, hc.hie, hsh, if_true]
          rw [List.drop_eq_nil_of_le (by omega)]; rfl
        · unfold unread; simp only [hcur, hc.hie, hsh, if_true]
          rw [List.drop_eq_nil_of_le (by omega)]; rfl
        · simpa using hchunk (by omega)
    · rw [if_neg (by simp [nbMore, hmore])]
      refine ⟨s, c, 0, [], rfl, hc, rfl, rfl, rfl, rfl, rfl, rfl, fun h => h, fun h => by omega, fun h => ?_, fun _ => rfl⟩
      simpa using hchunk (by omega)


theorem nbe_shuf (rs : List Bytes) (hs : Short rs) (hb : Bnd rs) (s : St) (c : Chunk) (ib ie b : Nat)
    (hc : Core rs s ib ie) (hsh : s.shuffle = true) (hb1 : 1 ≤ b) (hb32 : b < 2 ^ 32) :
    ∃ flag s' c', nextBatchEx s c b = .ok (flag, s', c') ∧ NbePost rs s c ib ie flag s' c' := by
  obtain ⟨no, hno, hno32⟩ := hc.no
  have hn : 1 ≤ nbCount no b ∧ nbCount no b < 2 ^ 32 := by
    unfold nbCount
    by_cases h0 : no = 0
    · simp [h0]; omega
    · have : (no == 0) = false := by simp [h0]
      simp only [this, Bool.false_eq_true, if_false]; omega
  unfold nextBatchEx
  rw [if_pos hsh]
  split
  case h_1 e => rw [hno] at e; exact absurd e (by simp)
  rename_i no' e
  rw [hno] at e; injection e with e; subst e
  dsimp only
  obtain ⟨s1, c1, m, taken, e1, e2, e3, e4, e5, e6, e7, e8, e9, e10, e11, e12⟩ :=
    shufLoop_spec rs hs hb ib ie (nbCount no b) (by omega) (nbCount no b + 1) s c 0 [] hc hsh (by omega)
      (fun h => by omega) (fun _ => rfl)
  rw [e1]
  dsimp only
  by_cases hm : 0 < m
  · rw [if_pos (by simp [nbAny]; omega)]
    have hle := e9 (by omega)
    have hcarry : nbCarry (nbCount no b) (0 + m) = nbCount no b - m := by
      unfold nbCarry; rw [sub64_eq _ _ (by omega) (by omega)]; omega
    rw [hcarry]
    refine ⟨true, _, _, rfl, ⟨?_, e3, e4, e5, fun _ => ⟨taken, ?_, (e11 (by omega)).1, by simpa using (e11 (by omega)).2, e7⟩,
      fun h => by simp at h⟩⟩
    · exact ⟨e2.file, e2.index, e2.hib, e2.hie, e2.hob, e2.hoe, e2.le, e2.leN, ⟨_, rfl, by omega⟩, e2.cur, e2.fp,
        e2.seq, e2.shuf⟩
    · intro h; rw [h] at e8; simp at e8; omega
  · have hm0 : m = 0 := by omega
    subst hm0
    rw [if_neg (by simp [nbAny])]
    have htk : taken = [] := by simpa using e8
    subst htk
    have hu := e10 (by omega)
    refine ⟨false, _, _, rfl, ⟨e2, e3, e4, e5, fun h => by simp at h, fun _ => ⟨by rw [e7, hu]; rfl, hu, ?_, ?_⟩⟩⟩
    · rw [e12 rfl]
    · rw [e12 rfl]

/-- `NextBatchEx` in either mode -/
theorem nbe_spec (rs : List Bytes) (hs : Short rs) (hb : Bnd rs) (s : St) (c : Chunk) (ib ie b : Nat)
    (hc : Core rs s ib ie) (hb1 : 1 ≤ b) (hb32 : b < 2 ^ 32) :
    ∃ flag s' c', nextBatchEx s c b = .ok (flag, s', c') ∧ NbePost rs s c ib ie flag s' c' := by
  by_cases hsh : s.shuffle = true
  · exact nbe_shuf rs hs hb s c ib ie b hc hsh hb1 hb32
  · exact nbe_seq rs hs hb s c ib ie b hc (by simpa using hsh) hb1 hb32

end DmlcModel.Indexed
