/-
`IndexedRecordIOSplitter::ExtractNextRecord` is a textual copy of `RecordIOSplitter::ExtractNextRecord`;
the model functions `extractRecord` / `extractMore` are therefore the same functions as
`Split.recExtract` / `Split.recExtractMore` (C04) up to the renaming of the generated kernels and of the
outcome type.  This file proves that and transports `Split.recExtract_spec` (a chunk that starts with the
image of a record yields the record and the rest of the chunk).
-/
import DmlcModel.Indexed.Model
import DmlcModel.Split.RecLemmas

namespace DmlcModel.Indexed
open DmlcModel DmlcModel.Gen.Indexed
open DmlcModel.RecordIO (writeAll writeRecord)

def toS (c : Chunk) : Split.Chunk := { dataWords := c.dataWords, begin := c.begin, rest := c.rest }
def ofS (c : Split.Chunk) : Chunk := { dataWords := c.dataWords, begin := c.begin, rest := c.rest }

def errOfS : Split.Err → Err
  | .check => .check | .oob => .oob | .uninit => .uninit | .div => .div | .fuel => .fuel

def resOfS : Except Split.Err (Option (Bytes × Split.Chunk)) → Except Err (Option (Bytes × Chunk))
  | .error e => .error (errOfS e)
  | .ok none => .ok none
  | .ok (some (b, c)) => .ok (some (b, ofS c))

theorem exAdvance_eq : exAdvance = Gen.Split.rsExtAdvance := rfl
theorem exHeader_eq : exHeader = Gen.Split.rsExtHeader := rfl
theorem exSingle_eq : exSingle = Gen.Split.rsExtSingle := rfl
theorem exFirst_eq : exFirst = Gen.Split.rsExtFirst := rfl
theorem exMore_eq : exMore = Gen.Split.rsExtMore := rfl

theorem extractMore_eq (fuel : Nat) : ∀ (out : Bytes) (c : Chunk) (cflag : Nat),
    extractMore fuel out c cflag = resOfS (Split.recExtractMore fuel out (toS c) cflag) := by
  induction fuel with
  | zero => intro out c cflag; rfl
  | succ fuel ih =>
    intro out c cflag
    unfold extractMore Split.recExtractMore
    rw [exMore_eq]
    by_cases hm : Gen.Split.rsExtMore cflag = true
    · simp only [hm, if_true, toS]
      split
      · rename_i m0 m1 m2 m3 l0 l1 l2 l3 body heq
        simp only [heq]
        by_cases hk : word32 m0 m1 m2 m3 = Gen.RecordIO.kMagic
        · simp only [hk, if_true, exAdvance_eq]
          by_cases hb : body.length < Gen.RecordIO.decodeLength (word32 l0 l1 l2 l3) ∨
              (m0 :: m1 :: m2 :: m3 :: l0 :: l1 :: l2 :: l3 :: body).length <
                Gen.Split.rsExtAdvance (Gen.RecordIO.decodeLength (word32 l0 l1 l2 l3))
          · simp only [hb, ↓reduceIte]; rfl
          · simp only [hb, ↓reduceIte]; rw [ih]; rfl
        · simp only [hk, if_false]; rfl
      · rename_i hno
        split
        · rename_i m0 m1 m2 m3 l0 l1 l2 l3 body heq
          exact absurd heq (hno _ _ _ _ _ _ _ _ _)
        · rfl
    · simp only [hm]
      cases c; rfl

theorem extractRecord_eq (c : Chunk) : extractRecord c = resOfS (Split.recExtract (toS c)) := by
  rcases c with ⟨dw, bg, rest⟩
  unfold extractRecord Split.recExtract
  simp only [toS, exHeader_eq, exAdvance_eq, exSingle_eq, exFirst_eq]
  by_cases h1 : rest.isEmpty = true
  · simp only [h1, ↓reduceIte]; rfl
  · by_cases h2 : rest.length < Gen.Split.rsExtHeader
    · simp only [h1, h2, ↓reduceIte]; rfl
    · by_cases h3 : bg % 4 ≠ 0 ∨ (bg + rest.length) % 4 ≠ 0
      · simp only [h1, h2, h3, ↓reduceIte]; rfl
      · simp only [h1, h2, h3, ↓reduceIte]
        match rest with
        | m0 :: m1 :: m2 :: m3 :: l0 :: l1 :: l2 :: l3 :: body =>
          simp only
          by_cases h4 : (m0 :: m1 :: m2 :: m3 :: l0 :: l1 :: l2 :: l3 :: body : Bytes).length <
              Gen.Split.rsExtAdvance (Gen.RecordIO.decodeLength (word32 l0 l1 l2 l3))
          · simp only [h4, ↓reduceIte]; rfl
          · simp only [h4, ↓reduceIte]
            by_cases h5 : Gen.Split.rsExtSingle (Gen.RecordIO.decodeFlag (word32 l0 l1 l2 l3)) = true
            · simp only [h5, ↓reduceIte]; rfl
            · simp only [h5, ↓reduceIte]
              by_cases h6 : Gen.Split.rsExtFirst (Gen.RecordIO.decodeFlag (word32 l0 l1 l2 l3)) = true
              · simp only [h6, ↓reduceIte]; rw [extractMore_eq]; rfl
              · simp only [h6, ↓reduceIte]; rfl
        | [] => rfl
        | [_] => rfl
        | [_, _] => rfl
        | [_, _, _] => rfl
        | [_, _, _, _] => rfl
        | [_, _, _, _, _] => rfl
        | [_, _, _, _, _, _] => rfl
        | [_, _, _, _, _, _, _] => rfl

/-- `ExtractNextRecord` on a chunk window that starts with the image of `r` -/
theorem extractRecord_spec (r : Bytes) (rs : List Bytes) (h : ∀ x ∈ r :: rs, x.length < 2 ^ 29) (c : Chunk)
    (hc : c.rest = writeAll (r :: rs)) (hb : c.begin % 4 = 0) :
    extractRecord c = .ok (some (r, { c with begin := c.begin + (writeRecord r).1.length, rest := writeAll rs })) := by
  rw [extractRecord_eq, Split.recExtract_spec r rs h (toS c) hc hb]
  rfl

theorem extractRecord_nil (c : Chunk) (hc : c.rest = []) : extractRecord c = .ok none := by
  unfold extractRecord; simp [hc]

end DmlcModel.Indexed
