/-
Executable model of `IndexedRecordIOSplitter` (src/io/indexed_recordio_split.{h,cc}) on top of the pieces
of `InputSplitBase` it uses (`Read`, `BeforeFirst`, `Chunk::Load`, `Chunk::Append`, `ExtractNextChunk`,
the base `NextRecord` loop) and of the thin consumer side of `ThreadedInputSplit` that
`InputSplit::Create(.., "indexed_recordio", ..)` puts around it.

All arithmetic, comparisons and constants come from the *generated* `Gen/Indexed.lean` (rewritten from
/repo on every run).  Control flow is hand-modelled with the branch structure of the C++ and tied to the
code by the correspondence harness `harness/h_indexed.cc` (results and internal state after every
operation).  The model follows the code that exists; whether the three repairs of defect F2 are present
is itself read from the source (`readIndexSentinel` / `resetPushesSentinel`, `emptyAssigns`,
`nextRecordOwn`), so the same model corresponds to the pinned and to the repaired tree.

Representation:
* one data file (`files_` has one entry, `file_offset_ = [0, |file|]`); `fpos = none` is `fs_ == NULL`;
* members the constructor leaves uninitialised are `Option`; reading `none` is the outcome `uninit`;
* a `Chunk` is `data.size()` (words), `begin - data` and the bytes of `[begin, end)`;
* `std::shuffle` is a parameter: every `BeforeFirst` receives the list `p` that the harness recomputed with
  its own `std::mt19937(kRandMagic + seed)`; it must be a permutation of `[index_begin_, index_end_)`
  (outcome `perm` otherwise) and becomes `permutation_`.
-/
import DmlcModel.Basic
import DmlcModel.Gen.Indexed
import DmlcModel.RecordIO.Model

namespace DmlcModel.Indexed
open DmlcModel DmlcModel.Gen.Indexed
open DmlcModel.Gen.RecordIO (kMagic decodeFlag decodeLength)
open DmlcModel.RecordIO (magicBytes)

/-- abnormal outcomes: `check` = a `CHECK` / `LOG(FATAL)` fired (dmlc::Error); `oob` = an access outside a
vector (`index_[i]`, `permutation_[i]`, `files_[i]`); `uninit` = use of a member that was never assigned
(or of `fs_ == NULL`); `div` = division by `nsplit = 0`; `perm` = the supplied list is not a permutation of
the slice (protocol error of the caller, not a behaviour of the code); `fuel` = a loop of the model ran out
of its iteration bound (shown unreachable) -/
inductive Err | check | oob | uninit | div | perm | fuel
  deriving Repr, DecidableEq

/-- `InputSplitBase::Chunk` -/
structure Chunk where
  dataWords : Nat
  begin : Nat := 0
  rest : Bytes := []
  deriving Repr, DecidableEq

/-- `begin = end = NULL` -/
def Chunk.clear (c : Chunk) : Chunk := { c with begin := 0, rest := [] }

structure St where
  file : Bytes                          -- content of the single data file
  index : List (Nat × Nat)              -- `index_`: (offset, length), with whatever sentinels the code appended
  perm : List Nat := []                 -- `permutation_`
  shuffle : Bool
  batch : Nat                           -- `batch_size_`
  curIdx : Option Nat := none           -- `current_index_`
  idxBegin : Option Nat := none         -- `index_begin_`
  idxEnd : Option Nat := none           -- `index_end_`
  nOverflow : Option Nat := none        -- `n_overflow_`
  offBegin : Option Nat := none
  offEnd : Option Nat := none
  offCurr : Option Nat := none
  filePtr : Option Nat := none          -- `file_ptr_`
  fpos : Option Nat := none             -- position of `fs_`; `none` = NULL
  chunk : Chunk                         -- `tmp_chunk_`
  bufWords : Nat                        -- `buffer_size_`
  deriving Repr, DecidableEq

/-! ### file table of a one-file input -/

/-- `std::upper_bound(v.begin(), v.end(), x) - v.begin()` for a sorted vector -/
def upperBound : List Nat → Nat → Nat
  | [], _ => 0
  | v :: vs, x => if x < v then 0 else upperBound vs x + 1

/-- `upper_bound(file_offset_, x) - file_offset_.begin() - 1` with `file_offset_ = [0, total]` -/
def filePtrOf (total x : Nat) : Nat := upperBound [0, total] x - 1

/-- `file_offset_[i]` -/
def foAt (total : Nat) : Nat → Nat
  | 0 => 0
  | _ + 1 => total

/-- `files_.size()` -/
def nFiles : Nat := 1

/-! ### ReadIndexFile -/

/-- consecutive differences of the sorted offsets; the last length from the total size -/
def diffs (total : Nat) : List Nat → List (Nat × Nat)
  | [] => []
  | [a] => [(a, riLastLen total a)]
  | a :: b :: rest => (a, riLen b a) :: diffs total (b :: rest)

/-- `ReadIndexFile`: `offs` are the offsets of the index lines in file order -/
def readIndexFile (total : Nat) (offs : List Nat) : Except Err (List (Nat × Nat)) :=
  let temp := offs.mergeSort (fun a b => decide (a ≤ b))
  if temp.isEmpty then .error .oob                       -- `temp.back()` / `temp.size() - 1` on an empty vector
  else .ok (diffs total temp ++ (if readIndexSentinel then [(total, sentinelLen)] else []))

/-! ### InputSplitBase pieces -/

/-- `InputSplitBase::BeforeFirst` -/
def baseBeforeFirst (s : St) : Except Err St :=
  match s.offBegin, s.offEnd with
  | some ob, some oe =>
    if bfEmpty ob oe then .ok (if bfEmptyClears then { s with chunk := s.chunk.clear } else s)
    else
      let fp := filePtrOf s.file.length ob
      match s.filePtr with
      | none => .error .uninit
      | some cur =>
        if bfReopen cur fp then
          if nFiles ≤ fp then .error .oob                                   -- `files_[file_ptr_]`
          else .ok { s with filePtr := some fp, fpos := some (bfSeek ob (foAt s.file.length fp)),
                            offCurr := some ob, chunk := s.chunk.clear }
        else
          match s.fpos with
          | none => .error .uninit                                          -- `fs_->Seek` on NULL
          | some _ => .ok { s with fpos := some (bfSeek ob (foAt s.file.length fp)), offCurr := some ob,
                                   chunk := s.chunk.clear }
  | _, _ => .error .uninit

/-- `InputSplitBase::Read(ptr, size)` on a one-file input -/
def read (s : St) (size : Nat) : Except Err (Bytes × St) :=
  match s.fpos with
  | none => .ok ([], s)
  | some pos =>
    match s.offBegin, s.offEnd with
    | some ob, some oe =>
      if rdEmpty ob oe then .ok ([], s)
      else
        match s.offCurr, s.filePtr with
        | some oc, some fp =>
          let size := if rdClip oc size oe then rdClipped oc oe else size
          if size = 0 then .ok ([], s)
          else
            let got := (s.file.drop pos).take size                        -- fs_->Read(buf, nleft)
            if got.length = size then
              .ok (got, { s with fpos := some (pos + got.length), offCurr := some (oc + got.length) })
            else
              -- the file is exhausted: the next `fs_->Read` returns 0
              if rdOffsetBad (oc + got.length) (foAt s.file.length (fp + 1)) then .error .check
              else if rdLastFile fp nFiles then
                .ok (got, { s with fpos := some (pos + got.length), offCurr := some (oc + got.length) })
              else .error .oob
        | _, _ => .error .uninit
    | _, _ => .error .uninit

/-- the overriding `IndexedRecordIOSplitter::ReadChunk`: `none` = returns false -/
def readChunk (s : St) (maxSize : Nat) : Except Err (Option Bytes × St) :=
  match read s maxSize with
  | .error e => .error e
  | .ok (bytes, s) =>
    if rcNone bytes.length then .ok (none, s)
    else .ok (some (bytes.take (if rcShort bytes.length maxSize then bytes.length else maxSize)), s)

/-- `chunk->Load(split, buffer_size)`; the doubling branch (`size == 0`) cannot be taken with this
`ReadChunk` (it never returns true with `*size = 0`) -/
def load (s : St) (c : Chunk) (bufWords : Nat) : Except Err (Bool × St × Chunk) :=
  let dw := loadResize bufWords
  match readChunk s (loadSize dw) with
  | .error e => .error e
  | .ok (none, s) => .ok (false, s, { c with dataWords := dw })
  | .ok (some bytes, s) =>
    if bytes.isEmpty then .error .fuel
    else .ok (true, s, { dataWords := dw, begin := 0, rest := bytes })

/-- `chunk->Append(split, buffer_size)` (only ever called on a chunk whose `begin` is the start of `data`) -/
def append (s : St) (c : Chunk) (bufWords : Nat) : Except Err (Bool × St × Chunk) :=
  if c.begin ≠ 0 then .error .check
  else
    let dw := appendResize c.dataWords bufWords
    match readChunk s (appendSize bufWords) with
    | .error e => .error e
    | .ok (none, s) => .ok (false, s, { c with dataWords := dw })
    | .ok (some bytes, s) =>
      if bytes.isEmpty then .error .fuel
      else .ok (true, s, { dataWords := dw, begin := 0, rest := c.rest ++ bytes })

/-- `InputSplitBase::ExtractNextChunk` -/
def extractChunk (c : Chunk) : Option (Bytes × Chunk) :=
  if c.rest.isEmpty then none
  else some (c.rest, { c with begin := c.begin + c.rest.length, rest := [] })

/-! ### ExtractNextRecord -/

/-- the `while (cflag != 3U)` reassembly loop -/
def extractMore : Nat → Bytes → Chunk → Nat → Except Err (Option (Bytes × Chunk))
  | 0, _, _, _ => .error .fuel
  | fuel + 1, out, c, cflag =>
    if exMore cflag then
      match c.rest with
      | m0 :: m1 :: m2 :: m3 :: l0 :: l1 :: l2 :: l3 :: body =>
        if word32 m0 m1 m2 m3 = kMagic then
          let lrec := word32 l0 l1 l2 l3
          let clen := decodeLength lrec
          let adv := exAdvance clen
          if body.length < clen ∨ c.rest.length < adv then .error .oob     -- memmove / advance unchecked
          else
            extractMore fuel (out ++ magicBytes ++ body.take clen)
              { c with begin := c.begin + adv, rest := c.rest.drop adv } (decodeFlag lrec)
        else .error .check
      | _ => .error .check
    else .ok (some (out, c))

/-- `IndexedRecordIOSplitter::ExtractNextRecord`: `none` = returns false -/
def extractRecord (c : Chunk) : Except Err (Option (Bytes × Chunk)) :=
  if c.rest.isEmpty then .ok none
  else if c.rest.length < exHeader then .error .check
  else if c.begin % 4 ≠ 0 ∨ (c.begin + c.rest.length) % 4 ≠ 0 then .error .check
  else
    match c.rest with
    | _ :: _ :: _ :: _ :: l0 :: l1 :: l2 :: l3 :: body =>
      let lrec := word32 l0 l1 l2 l3
      let cflag := decodeFlag lrec
      let clen := decodeLength lrec
      let adv := exAdvance clen
      if c.rest.length < adv then .error .check                           -- CHECK(chunk->begin <= chunk->end)
      else
        let c' : Chunk := { c with begin := c.begin + adv, rest := c.rest.drop adv }
        let out := body.take clen
        if exSingle cflag then .ok (some (out, c'))
        else if exFirst cflag then extractMore (c.rest.length + 1) out c' cflag
        else .error .check
    | _ => .error .check

/-! ### IndexedRecordIOSplitter -/

/-- `IndexedRecordIOSplitter::BeforeFirst`; `p` = result of `std::shuffle` on the slice -/
def beforeFirst (s : St) (p : List Nat) : Except Err St :=
  if s.shuffle then
    match s.idxBegin, s.idxEnd with
    | some ib, some ie =>
      if p.isPerm (List.range' ib (ie - ib)) then baseBeforeFirst { s with perm := p, curIdx := some 0 }
      else .error .perm
    | _, _ => .error .uninit
  else
    match s.idxBegin with
    | some ib => baseBeforeFirst { s with curIdx := some ib }
    | none => .error .uninit

/-- `IndexedRecordIOSplitter::ResetPartition` -/
def resetPartition (s : St) (rank nsplit : Nat) (p : List Nat) : Except Err St :=
  if nsplit = 0 then .error .div
  else
    let ntotal := rpNtotal s.index.length
    let ntotalbytes := s.file.length
    let nstep := rpStep ntotal nsplit
    if rpEmpty rank nstep ntotal then
      .ok (if emptyAssigns then
            { s with idxBegin := some ntotal, idxEnd := some ntotal, curIdx := some ntotal,
                     offBegin := some ntotalbytes, offEnd := some ntotalbytes, offCurr := some ntotalbytes,
                     nOverflow := some 0, perm := [], chunk := s.chunk.clear }
           else s)
    else
      let ib := rpBegin rank nstep
      match s.index[ib]? with
      | none => .error .oob
      | some (ob, _) =>
        let r : Except Err (Nat × Nat × List (Nat × Nat)) :=
          if rpHasNext rank nstep ntotal then
            let ie := rpEnd rank nstep
            match s.index[ie]? with
            | none => .error .oob
            | some (oe, _) => .ok (ie, oe, s.index)
          else
            .ok (rpLastEnd s.index.length ntotal, ntotalbytes,
                 if resetPushesSentinel then s.index ++ [(ntotalbytes, sentinelLen)] else s.index)
        match r with
        | .error e => .error e
        | .ok (ie, oe, index) =>
          let fp := filePtrOf ntotalbytes ob
          if nFiles ≤ fp then .error .oob                                   -- `files_[file_ptr_]`
          else
            beforeFirst { s with index := index, idxBegin := some ib, idxEnd := some ie, offBegin := some ob,
                                 offEnd := some oe, offCurr := some ob, filePtr := some fp, fpos := some 0,
                                 curIdx := some ib, nOverflow := some 0 } p

/-- the `while (n_read < n)` loop of the shuffled branch of `NextBatchEx`; returns `n_read` -/
def shufLoop : Nat → St → Chunk → Nat → Nat → Except Err (St × Chunk × Nat)
  | 0, _, _, _, _ => .error .fuel
  | fuel + 1, s, c, n, nRead =>
    if nbMore nRead n then
      match s.curIdx with
      | none => .error .uninit
      | some cur =>
        if nbHasPerm cur s.perm.length then
          match s.perm[cur]? with
          | none => .error .oob
          | some pi =>
            match s.index[pi]? with
            | none => .error .oob
            | some (off, len) =>
              let bw := nbRecWords len
              let nfp := filePtrOf s.file.length off
              match s.filePtr with
              | none => .error .uninit
              | some fp =>
                if nbReopen nfp fp ∧ nFiles ≤ nfp then .error .oob          -- `files_[file_ptr_]`
                else if ¬ nbReopen nfp fp ∧ s.fpos.isNone then .error .uninit  -- `fs_->Seek` on NULL
                else
                  let s := { s with offCurr := some off, bufWords := bw, filePtr := some nfp,
                                    fpos := some (nbSeek off (foAt s.file.length nfp)) }
                  match (if nbFirst nRead then load s c bw else append s c bw) with
                  | .error e => .error e
                  | .ok (true, s, c) => shufLoop fuel { s with curIdx := some (cur + 1) } c n (nRead + 1)
                  | .ok (false, s, c) => .ok (s, c, nRead)
        else .ok (s, c, nRead)
    else .ok (s, c, nRead)

/-- `IndexedRecordIOSplitter::NextBatchEx(chunk, n_records)` -/
def nextBatchEx (s : St) (c : Chunk) (nRecords : Nat) : Except Err (Bool × St × Chunk) :=
  if s.shuffle then
    match s.nOverflow with
    | none => .error .uninit
    | some no =>
      let n := nbCount no nRecords
      match shufLoop (n + 1) s c n 0 with
      | .error e => .error e
      | .ok (s, c, nRead) =>
        if nbAny nRead then .ok (true, { s with nOverflow := some (nbCarry n nRead) }, c)
        else .ok (false, s, c)
  else
    match s.nOverflow, s.curIdx, s.idxEnd with
    | some no, some cur, some ie =>
      let last := if nbFresh no then nbLastA cur nRecords ie else nbLastB cur no ie
      let no' := if nbFresh no then nbCarryA cur nRecords last else nbCarryB cur no last
      match s.index[last]?, s.index[cur]? with
      | some (ol, _), some (oc, _) =>
        let bw := nbRangeWords ol oc ixAlign
        load { s with nOverflow := some no', bufWords := bw, curIdx := some last } c bw
      | _, _ => .error .oob
    | _, _, _ => .error .uninit

/-- `while (!ExtractNextChunk(out, &tmp_chunk_)) if (!NextBatchEx(&tmp_chunk_, n)) return false;` -/
def nextBatchLoop : Nat → St → Nat → Except Err (Option Bytes × St)
  | 0, _, _ => .error .fuel
  | fuel + 1, s, n =>
    match extractChunk s.chunk with
    | some (b, c) => .ok (some b, { s with chunk := c })
    | none =>
      match nextBatchEx s s.chunk n with
      | .error e => .error e
      | .ok (false, s, c) => .ok (none, { s with chunk := c })
      | .ok (true, s, c) => nextBatchLoop fuel { s with chunk := c } n

/-- `NextBatch(out_chunk, n)` -/
def nextBatch (s : St) (n : Nat) : Except Err (Option Bytes × St) := nextBatchLoop 3 s n

/-- `NextChunk(out_chunk)` = `NextBatch(out_chunk, batch_size_)` -/
def nextChunk (s : St) : Except Err (Option Bytes × St) := nextBatch s s.batch

/-- the `NextRecord` loop: the class's own override in the pinned code (`Load(this, buffer_size_)`,
`++current_index_`), the inherited `InputSplitBase::NextRecord` (`NextChunkEx` = `NextBatchEx(batch_size_)`)
once the override is removed -/
def nextRecordLoop : Nat → St → Except Err (Option Bytes × St)
  | 0, _ => .error .fuel
  | fuel + 1, s =>
    match extractRecord s.chunk with
    | .error e => .error e
    | .ok (some (b, c)) => .ok (some b, { s with chunk := c })
    | .ok none =>
      if nextRecordOwn then
        match load s s.chunk s.bufWords with
        | .error e => .error e
        | .ok (false, s, c) => .ok (none, { s with chunk := c })
        | .ok (true, s, c) =>
          match s.curIdx with
          | none => .error .uninit
          | some cur => nextRecordLoop fuel { s with chunk := c, curIdx := some (u64 (cur + 1)) }
      else
        match nextBatchEx s s.chunk s.batch with
        | .error e => .error e
        | .ok (false, s, c) => .ok (none, { s with chunk := c })
        | .ok (true, s, c) => nextRecordLoop fuel { s with chunk := c }

def nextRecord (s : St) : Except Err (Option Bytes × St) := nextRecordLoop 3 s

/-- the constructor: `Init` (one non-empty 4-aligned file), `ReadIndexFile`, `ResetPartition(rank, nsplit)`.
`defaultWords` is `InputSplitBase::kBufferSize`. -/
def mk (file : Bytes) (offs : List Nat) (rank nsplit batch : Nat) (shuffle : Bool) (defaultWords : Nat)
    (p : List Nat) : Except Err St :=
  if file.isEmpty then .error .check                                         -- CHECK_NE(files_.size(), 0U)
  else if file.length % initAlign ixAlign ≠ 0 then .error .check             -- "file do not align by 4 bytes"
  else
    match readIndexFile file.length offs with
    | .error e => .error e
    | .ok index =>
      resetPartition { file := file, index := index, shuffle := shuffle, batch := batch,
                       chunk := { dataWords := defaultWords + 1 }, bufWords := defaultWords } rank nsplit p

/-! ### consumer side of ThreadedInputSplit (what `InputSplit::Create` returns)

The prefetch thread only decides *when* `NextBatchEx(chunk, batch_size_)` is called; the model calls it
when the consumer needs the next chunk.  Observations on this path are records and concatenated chunk
bytes, which do not depend on how far the producer has run ahead (`C06_batch_independent`). -/

structure W where
  base : St
  cur : Option Chunk := none         -- `tmp_chunk_` (`none` = NULL)
  deriving Repr, DecidableEq

/-- `iter_.Next(&tmp_chunk_)`: the producer's `base_->NextBatchEx(*dptr, batch_size_)` on a fresh cell -/
def W.produce (w : W) (defaultWords : Nat) : Except Err (Option Chunk × St) :=
  match nextBatchEx w.base { dataWords := defaultWords + 1 } w.base.batch with
  | .error e => .error e
  | .ok (false, s, _) => .ok (none, s)
  | .ok (true, s, c) => .ok (some c, s)

/-- `if (tmp_chunk_ == NULL) Next; while (!Extract(tmp_chunk_)) { Recycle; if (!Next) return false; }` -/
def W.nextLoop (ext : Chunk → Except Err (Option (Bytes × Chunk))) (defaultWords : Nat) :
    Nat → W → Except Err (Option Bytes × W)
  | 0, _ => .error .fuel
  | fuel + 1, w =>
    match w.cur with
    | none =>
      match w.produce defaultWords with
      | .error e => .error e
      | .ok (none, s) => .ok (none, { base := s, cur := none })
      | .ok (some c, s) => W.nextLoop ext defaultWords fuel { base := s, cur := some c }
    | some c =>
      match ext c with
      | .error e => .error e
      | .ok (some (b, c)) => .ok (some b, { w with cur := some c })
      | .ok none => W.nextLoop ext defaultWords fuel { w with cur := none }

def W.nextRecord (w : W) (defaultWords : Nat) : Except Err (Option Bytes × W) :=
  W.nextLoop extractRecord defaultWords 4 w

def W.nextChunk (w : W) (defaultWords : Nat) : Except Err (Option Bytes × W) :=
  W.nextLoop (fun c => .ok (extractChunk c)) defaultWords 4 w

/-- `ThreadedInputSplit::BeforeFirst`: the producer runs `base_->BeforeFirst()`, the consumer's chunk is recycled -/
def W.beforeFirst (w : W) (p : List Nat) : Except Err W :=
  match Indexed.beforeFirst w.base p with
  | .error e => .error e
  | .ok s => .ok { base := s, cur := none }

/-- `ThreadedInputSplit::ResetPartition`: `base_->ResetPartition(k, n); this->BeforeFirst();` -/
def W.resetPartition (w : W) (rank nsplit : Nat) (p₁ p₂ : List Nat) : Except Err W :=
  match Indexed.resetPartition w.base rank nsplit p₁ with
  | .error e => .error e
  | .ok s => W.beforeFirst { w with base := s } p₂

/-- `InputSplit::Create(uri, index_uri, k, n, "indexed_recordio", shuffle, seed, batch)`; the prefetch thread
starts at once, so members the constructor left unassigned are consumed immediately -/
def W.create (file : Bytes) (offs : List Nat) (rank nsplit batch : Nat) (shuffle : Bool) (defaultWords : Nat)
    (p : List Nat) : Except Err W :=
  if ¬ rank < nsplit then .error .check                  -- CHECK(part < nsplit)
  else
    match Indexed.mk file offs rank nsplit batch shuffle defaultWords p with
    | .error e => .error e
    | .ok s =>
      match s.nOverflow, s.curIdx, s.idxEnd with
      | some _, some _, some _ => .ok { base := s }
      | _, _, _ => .error .uninit

end DmlcModel.Indexed
