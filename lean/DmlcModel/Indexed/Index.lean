/-
`ReadIndexFile` on an index file whose lines list the record start offsets in any order, and the
constructor `mk`.
-/
import DmlcModel.Indexed.Run

namespace DmlcModel.Indexed
open DmlcModel DmlcModel.Gen.Indexed
open DmlcModel.RecordIO (writeAll writeRecord)
open DmlcModel.Split (Short)

/-- the start offsets of the records, in file order -/
def starts (rs : List Bytes) : List Nat := (List.range rs.length).map (start rs)

theorem starts_pairwise (rs : List Bytes) : (starts rs).Pairwise (fun a b => decide (a ≤ b) = true) := by
  unfold starts
  rw [List.pairwise_map]
  have := @List.pairwise_lt_range rs.length
  exact this.imp (fun {a b} h => by simpa using start_mono rs a b (Nat.le_of_lt h))

theorem sort_starts (rs : List Bytes) (idx : List Nat) (h : idx.Perm (starts rs)) :
    idx.mergeSort (fun a b => decide (a ≤ b)) = starts rs := by
  apply List.Perm.eq_of_pairwise (le := fun a b => decide (a ≤ b) = true)
  · intro a b _ _ h1 h2
    simp at h1 h2; omega
  · exact List.pairwise_mergeSort (fun a b c h1 h2 => by simp at h1 h2 ⊢; omega)
      (fun a b => by simp; omega) idx
  · exact starts_pairwise rs
  · exact (List.mergeSort_perm idx _).trans h

theorem diffs_range' (rs : List Bytes) (hb : Bnd rs) : ∀ (k a : Nat), a + (k + 1) = rs.length →
    diffs (writeAll rs).length ((List.range' a (k + 1)).map (start rs)) =
      (List.range' a (k + 1)).map (fun i => (start rs i, start rs (i + 1) - start rs i)) := by
  unfold Bnd at hb
  intro k
  induction k with
  | zero =>
    intro a ha
    have h1 := start_total rs (a + 1) (by omega)
    have h2 := start_le_total rs a
    show diffs (writeAll rs).length [start rs a] = [(start rs a, start rs (a + 1) - start rs a)]
    simp only [diffs, riLastLen]
    rw [sub64_eq _ _ h2 (by omega), h1]
  | succ k ih =>
    intro a ha
    have h2 := start_le_total rs (a + 1)
    have h3 := start_mono rs a (a + 1) (by omega)
    rw [List.range'_succ, List.range'_succ]
    simp only [List.map_cons, diffs]
    have := ih (a + 1) (by omega)
    rw [List.range'_succ] at this
    simp only [List.map_cons] at this
    rw [this]
    simp only [riLen]
    rw [sub64_eq _ _ h3 (by omega)]

theorem readIndex_spec (rs : List Bytes) (hb : Bnd rs) (hne : rs ≠ []) (idx : List Nat) (h : idx.Perm (starts rs)) :
    readIndexFile (writeAll rs).length idx = .ok (goodIndex rs) := by
  have hlen : 0 < rs.length := List.length_pos_iff.mpr hne
  unfold readIndexFile
  simp only [sort_starts rs idx h]
  have hnotempty : (starts rs).isEmpty = false := by
    unfold starts
    cases hr : rs.length with
    | zero => omega
    | succ m => simp [List.range_succ]
  rw [hnotempty]
  simp only [Bool.false_eq_true, if_false, fix_readIndexSentinel, if_true]
  unfold starts goodIndex
  obtain ⟨k, hk⟩ : ∃ k, rs.length = k + 1 := ⟨rs.length - 1, by omega⟩
  rw [List.range_eq_range', hk, diffs_range' rs hb k 0 (by omega)]
  rw [← hk, start_total rs rs.length (Nat.le_refl _)]
  rfl

/-- the constructor on an indexed RecordIO file of the records `rs` -/
theorem mk_spec (rs : List Bytes) (hs : Short rs) (hb : Bnd rs) (hne : rs ≠ []) (idx : List Nat)
    (hidx : idx.Perm (starts rs)) (k n batch : Nat) (shuffle : Bool) (w : Nat) (p : List Nat)
    (hn : 0 < n) (hn32 : n < 2 ^ 32) (hk : k < n) (hbatch : 1 ≤ batch ∧ batch < 2 ^ 32)
    (hp : shuffle = true → p.Perm (List.range' (sliceBegin rs.length n k)
            (sliceEnd rs.length n k - sliceBegin rs.length n k))) :
    ∃ s, mk (writeAll rs) idx k n batch shuffle w p = .ok s ∧
      Inv rs s (sliceBegin rs.length n k) (sliceEnd rs.length n k) [] ∧ s.shuffle = shuffle ∧
      unread rs s = passOrder rs shuffle p (sliceBegin rs.length n k) (sliceEnd rs.length n k) := by
  have hN := length_le_of_bnd rs hs
  have hlen : 0 < rs.length := List.length_pos_iff.mpr hne
  have hm4 := Split.writeAll_length_mod4 rs hs
  unfold mk
  rw [if_neg (by
    intro h
    have : (writeAll rs).length = 0 := by simpa using h
    omega)]
  rw [if_neg (by simp [initAlign, ixAlign_eq]; omega), readIndex_spec rs hb hne idx hidx]
  dsimp only
  exact reset_inv rs hs hb _ k n p rfl rfl hbatch hn hn32 hk hp

end DmlcModel.Indexed
