/-
Specification side of C06: the slice arithmetic (`⌈N/n⌉`-wide slices tile `[0, N)`), the byte layout of an
indexed RecordIO file (`start`, `seg`, `goodIndex`) and the specification lemmas of the generated kernels.
-/
import DmlcModel.Indexed.Extract

namespace DmlcModel.Indexed
open DmlcModel DmlcModel.Gen.Indexed
open DmlcModel.RecordIO (writeAll writeRecord)
open DmlcModel.Split (Short)

/-! ### the repairs of defect F2 are present in the source the kernels were generated from -/

theorem fix_readIndexSentinel : readIndexSentinel = true := by decide
theorem fix_resetPushesSentinel : resetPushesSentinel = false := by decide
theorem fix_emptyAssigns : emptyAssigns = true := by decide
theorem fix_nextRecordOwn : nextRecordOwn = false := by decide

/-! ### slice arithmetic -/

/-- `⌈N/n⌉` -/
def step (N n : Nat) : Nat := (N + n - 1) / n
def sliceBegin (N n k : Nat) : Nat := min (k * step N n) N
def sliceEnd (N n k : Nat) : Nat := min ((k + 1) * step N n) N

theorem step_cover (N n : Nat) (hn : 0 < n) : N ≤ n * step N n := by
  unfold step
  have h1 := Nat.div_add_mod (N + n - 1) n
  have h2 := Nat.mod_lt (N + n - 1) hn
  omega

theorem step_mul_le (N n : Nat) : n * step N n ≤ N + n - 1 := by
  unfold step
  exact Nat.mul_div_le _ _

theorem mul_step_le (N n k : Nat) (hk : k < n) : (k + 1) * step N n ≤ N + n - 1 :=
  Nat.le_trans (Nat.mul_le_mul_right _ (by omega)) (step_mul_le N n)

theorem sliceBegin_le_end (N n k : Nat) : sliceBegin N n k ≤ sliceEnd N n k := by
  unfold sliceBegin sliceEnd
  have : k * step N n ≤ (k + 1) * step N n := Nat.mul_le_mul_right _ (by omega)
  omega

theorem sliceEnd_le (N n k : Nat) : sliceEnd N n k ≤ N := by unfold sliceEnd; omega

/-- slices of width `w` tile a list -/
theorem flatMap_slices {α : Type} (l : List α) (w : Nat) : ∀ m,
    (List.range m).flatMap (fun k => (l.drop (k * w)).take w) = l.take (m * w) := by
  intro m
  induction m with
  | zero => simp
  | succ m ih =>
    rw [List.range_succ, List.flatMap_append, ih]
    simp only [List.flatMap_cons, List.flatMap_nil, List.append_nil]
    rw [Nat.succ_mul, List.take_add]

/-- the slice of part `k` written with `drop`/`take` on the record list -/
theorem slice_eq {α : Type} (l : List α) (n k : Nat) :
    (l.drop (sliceBegin l.length n k)).take (sliceEnd l.length n k - sliceBegin l.length n k) =
      (l.drop (k * step l.length n)).take (step l.length n) := by
  unfold sliceBegin sliceEnd
  by_cases h : k * step l.length n ≤ l.length
  · rw [Nat.min_eq_left h]
    apply List.ext_getElem?
    intro i
    simp only [List.getElem?_take, List.getElem?_drop]
    have e : (k + 1) * step l.length n = k * step l.length n + step l.length n := Nat.succ_mul _ _
    by_cases hi : i < step l.length n
    · by_cases hj : k * step l.length n + i < l.length
      · rw [if_pos (by omega), if_pos hi]
      · rw [if_pos hi]
        rw [List.getElem?_eq_none (by omega)]
        split <;> rfl
    · rw [if_neg (by omega), if_neg hi]
  · have h' : l.length ≤ k * step l.length n := by omega
    rw [Nat.min_eq_right h', List.drop_eq_nil_of_le (Nat.le_refl _), List.drop_eq_nil_of_le h']
    simp

/-! ### byte layout -/

/-- offset at which record `i` starts (`= |file|` for `i ≥ N`) -/
def start (rs : List Bytes) (i : Nat) : Nat := (writeAll (rs.take i)).length

/-- records `a .. b-1` -/
def seg (rs : List Bytes) (a b : Nat) : List Bytes := (rs.drop a).take (b - a)

/-- `index_` as `ReadIndexFile` builds it (with the end sentinel) -/
def goodIndex (rs : List Bytes) : List (Nat × Nat) :=
  (List.range rs.length).map (fun i => (start rs i, start rs (i + 1) - start rs i)) ++ [(start rs rs.length, 0)]

theorem start_zero (rs : List Bytes) : start rs 0 = 0 := by simp [start, writeAll]

theorem start_total (rs : List Bytes) (i : Nat) (h : rs.length ≤ i) : start rs i = (writeAll rs).length := by
  unfold start; rw [List.take_of_length_le h]

theorem start_succ (rs : List Bytes) (i : Nat) (h : i < rs.length) :
    start rs (i + 1) = start rs i + (writeRecord rs[i]).1.length := by
  unfold start
  rw [List.take_succ_eq_append_getElem h, Split.writeAll_append]
  simp [writeAll]

theorem start_add_seg (rs : List Bytes) (a b : Nat) (hab : a ≤ b) :
    start rs b = start rs a + (writeAll (seg rs a b)).length := by
  unfold start seg
  have : rs.take b = rs.take a ++ (rs.drop a).take (b - a) := by
    have := @List.take_add _ rs a (b - a)
    rwa [Nat.add_sub_cancel' hab] at this
  rw [this, Split.writeAll_append, List.length_append]

theorem start_mono (rs : List Bytes) (a b : Nat) (hab : a ≤ b) : start rs a ≤ start rs b := by
  rw [start_add_seg rs a b hab]; omega

theorem start_le_total (rs : List Bytes) (a : Nat) : start rs a ≤ (writeAll rs).length := by
  by_cases h : a ≤ rs.length
  · rw [← start_total rs rs.length (Nat.le_refl _)]; exact start_mono rs a _ h
  · rw [start_total rs a (by omega)]; exact Nat.le_refl _

theorem short_take (rs : List Bytes) (h : Short rs) (i : Nat) : Short (rs.take i) :=
  fun r hr => h r (List.mem_of_mem_take hr)

theorem short_seg (rs : List Bytes) (h : Short rs) (a b : Nat) : Short (seg rs a b) :=
  fun r hr => h r (List.mem_of_mem_drop (List.mem_of_mem_take hr))

theorem start_mod4 (rs : List Bytes) (h : Short rs) (i : Nat) : start rs i % 4 = 0 :=
  Split.writeAll_length_mod4 _ (short_take rs h i)

theorem start_strict (rs : List Bytes) (h : Short rs) (a b : Nat) (hab : a < b) (hb : b ≤ rs.length) :
    start rs a + 8 ≤ start rs b := by
  have h1 := start_mono rs (a + 1) b hab
  have h2 := start_succ rs a (by omega)
  have h3 := (Split.writeRecord_length rs[a] (h _ (List.getElem_mem _))).1
  omega

/-- the bytes between two record starts are the images of the records in between -/
theorem file_seg (rs : List Bytes) (a b : Nat) (hab : a ≤ b) :
    ((writeAll rs).drop (start rs a)).take (start rs b - start rs a) = writeAll (seg rs a b) := by
  have e1 : writeAll rs = writeAll (rs.take b) ++ writeAll (rs.drop b) := by
    rw [← Split.writeAll_append, List.take_append_drop]
  have e2 : rs.take b = rs.take a ++ seg rs a b := by
    unfold seg
    have := @List.take_add _ rs a (b - a)
    rwa [Nat.add_sub_cancel' hab] at this
  have e3 : start rs b - start rs a = (writeAll (seg rs a b)).length := by
    rw [start_add_seg rs a b hab]; omega
  rw [e1, e2, Split.writeAll_append, e3]
  unfold start
  rw [List.append_assoc, List.drop_left, List.take_left]

theorem seg_self (rs : List Bytes) (a : Nat) : seg rs a a = [] := by simp [seg]

theorem seg_one (rs : List Bytes) (i : Nat) (h : i < rs.length) : seg rs i (i + 1) = [rs[i]] := by
  unfold seg
  rw [Nat.add_sub_cancel_left, List.drop_eq_getElem_cons h]
  rfl

theorem seg_append (rs : List Bytes) (a b c : Nat) (hab : a ≤ b) (hbc : b ≤ c) :
    seg rs a c = seg rs a b ++ seg rs b c := by
  unfold seg
  have e : c - a = (b - a) + (c - b) := by omega
  rw [e, List.take_add, List.drop_drop]
  congr 3
  omega

theorem seg_ne_nil (rs : List Bytes) (a b : Nat) (hab : a < b) (hb : b ≤ rs.length) : seg rs a b ≠ [] := by
  unfold seg
  intro h
  have := congrArg List.length h
  simp at this
  omega

theorem goodIndex_length (rs : List Bytes) : (goodIndex rs).length = rs.length + 1 := by
  simp [goodIndex]

theorem goodIndex_get (rs : List Bytes) (i : Nat) (h : i ≤ rs.length) :
    (goodIndex rs)[i]? = some (start rs i, start rs (i + 1) - start rs i) := by
  unfold goodIndex
  by_cases hi : i < rs.length
  · rw [List.getElem?_append_left (by simpa using hi)]
    simp [hi]
  · have : i = rs.length := by omega
    subst this
    rw [List.getElem?_append_right (by simp)]
    simp [start_total rs (rs.length + 1) (by omega), start_total rs rs.length (Nat.le_refl _)]

end DmlcModel.Indexed
