/-
Invariant of the repaired `IndexedRecordIOSplitter` model and the effect of its building blocks
(`Read`, `Chunk::Load`, `Chunk::Append`) on states that satisfy it.
-/
import DmlcModel.Indexed.Spec

namespace DmlcModel.Indexed
open DmlcModel DmlcModel.Gen.Indexed
open DmlcModel.RecordIO (writeAll writeRecord)
open DmlcModel.Split (Short)

/-- the data file is smaller than 2^62 bytes (so that no `size_t` expression of the code wraps) -/
def Bnd (rs : List Bytes) : Prop := (writeAll rs).length < 2 ^ 62

theorem sub64_eq (a b : Nat) (hb : b ≤ a) (ha : a < 2 ^ 64) : sub64 a b = a - b := by
  unfold sub64; omega

theorem u64_eq (a : Nat) (h : a < 2 ^ 64) : u64 a = a := by unfold u64; omega
theorem u32_eq (a : Nat) (h : a < 2 ^ 32) : u32 a = a := by unfold u32; omega

theorem filePtrOf_lt (total x : Nat) (h : x < total) : filePtrOf total x = 0 := by
  simp [filePtrOf, upperBound, h]

theorem length_le_of_bnd (rs : List Bytes) (hs : Short rs) : 8 * rs.length ≤ (writeAll rs).length := by
  have := start_strict rs hs
  induction rs with
  | nil => simp
  | cons r rs ih =>
    have h1 := (Split.writeRecord_length r (hs r (by simp))).1
    have h2 := ih (fun x hx => hs x (by simp [hx])) (start_strict rs (fun x hx => hs x (by simp [hx])))
    simp only [writeAll, List.length_append, List.length_cons]
    omega

/-- everything about a state except `tmp_chunk_`: it describes part `[ib, ie)` of the records `rs` -/
structure Core (rs : List Bytes) (s : St) (ib ie : Nat) : Prop where
  file : s.file = writeAll rs
  index : s.index = goodIndex rs
  hib : s.idxBegin = some ib
  hie : s.idxEnd = some ie
  hob : s.offBegin = some (start rs ib)
  hoe : s.offEnd = some (start rs ie)
  le : ib ≤ ie
  leN : ie ≤ rs.length
  no : ∃ no, s.nOverflow = some no ∧ no < 2 ^ 32
  cur : ∃ cur, s.curIdx = some cur ∧ cur < 2 ^ 60 ∧ (s.shuffle = false → ib ≤ cur ∧ cur ≤ ie)
  fp : ib < ie → s.filePtr = some 0 ∧ ∃ pos, s.fpos = some pos
  seq : s.shuffle = false → ib < ie →
    ∃ cur, s.curIdx = some cur ∧ s.fpos = some (start rs cur) ∧ s.offCurr = some (start rs cur)
  shuf : s.shuffle = true → s.perm.Perm (List.range' ib (ie - ib))

/-- the records not yet loaded into a chunk, in delivery order -/
def unread (rs : List Bytes) (s : St) : List Bytes :=
  match s.curIdx, s.idxEnd with
  | some cur, some ie =>
    if s.shuffle then (s.perm.drop cur).filterMap (fun i => rs[i]?) else seg rs cur ie
  | _, _ => []

/-! ### Read -/

theorem read_window (rs : List Bytes) (hs : Short rs) (hb : Bnd rs) (s : St) (a b ob oe : Nat)
    (hfile : s.file = writeAll rs) (hfp : s.fpos = some (start rs a)) (hob : s.offBegin = some ob)
    (hoe : s.offEnd = some oe) (hne : ob < oe) (hoc : s.offCurr = some (start rs a)) (hptr : s.filePtr = some 0)
    (hab : a < b) (hbN : b ≤ rs.length) (hbe : start rs b ≤ oe) :
    read s (start rs b - start rs a) =
      .ok (writeAll (seg rs a b), { s with fpos := some (start rs b), offCurr := some (start rs b) }) := by
  have hlt := start_strict rs hs a b hab hbN
  have htot := start_le_total rs b
  have hseg := file_seg rs a b (Nat.le_of_lt hab)
  have hlen := start_add_seg rs a b (Nat.le_of_lt hab)
  unfold Bnd at hb
  unfold read
  simp only [hfp, hob, hoe, hoc, hptr, hfile]
  have h1 : rdEmpty ob oe = false := by simp [rdEmpty]; omega
  have h2 : rdClip (start rs a) (start rs b - start rs a) oe = false := by
    simp only [rdClip, decide_eq_false_iff_not]
    rw [u64_eq _ (by omega)]; omega
  simp only [h1, h2, Bool.false_eq_true, if_false]
  rw [if_neg (by omega), hseg, if_pos (by omega)]
  congr 4 <;> omega

/-- a read of 0 bytes, or on an empty part, or without a stream, delivers nothing and changes nothing -/
theorem read_nothing (s : St) (size : Nat)
    (h : s.fpos = none ∨ (∃ ob oe, s.offBegin = some ob ∧ s.offEnd = some oe ∧ (oe ≤ ob ∨
          (size = 0 ∧ ∃ oc fp, s.offCurr = some oc ∧ s.filePtr = some fp ∧ oc ≤ oe ∧ oc < 2 ^ 63)))) :
    read s size = .ok ([], s) := by
  unfold read
  rcases h with h | ⟨ob, oe, h1, h2, h3⟩
  · simp [h]
  · cases hf : s.fpos with
    | none => simp
    | some pos =>
      simp only [h1, h2]
      rcases h3 with h3 | ⟨rfl, oc, fp, h4, h5, h6, h7⟩
      · have : rdEmpty ob oe = true := by simp [rdEmpty]; omega
        simp [this]
      · by_cases he : rdEmpty ob oe = true
        · simp [he]
        · have h2' : rdClip oc 0 oe = false := by
            simp only [rdClip, decide_eq_false_iff_not]
            rw [u64_eq _ (by omega)]; omega
          simp [he, h4, h5, h2']

/-! ### Chunk::Load / Chunk::Append -/

theorem loadSize_spec (bw : Nat) (h : bw < 2 ^ 61) : loadSize (loadResize bw) = bw * 4 := by
  unfold loadSize loadResize
  rw [u64_eq (bw + 1) (by omega), sub64_eq _ _ (by omega) (by omega), u64_eq _ (by omega)]
  omega

theorem appendSize_spec (bw : Nat) (h : bw < 2 ^ 61) : appendSize bw = bw * 4 := by
  unfold appendSize; rw [u64_eq _ (by omega)]

theorem readChunk_of_read (s s' : St) (size : Nat) (bytes : Bytes) (h : read s size = .ok (bytes, s'))
    (hl : bytes.length = size) (hpos : 0 < size) : readChunk s size = .ok (some bytes, s') := by
  unfold readChunk
  rw [h]
  simp only
  have h1 : rcNone bytes.length = false := by rw [hl]; simp [rcNone]; omega
  have h2 : rcShort bytes.length size = false := by simp [rcShort, hl]
  simp [h1, h2, ← hl]

theorem readChunk_nothing (s : St) (size : Nat) (h : read s size = .ok ([], s)) : readChunk s size = .ok (none, s) := by
  unfold readChunk; rw [h]; simp [rcNone]


theorem load_window (rs : List Bytes) (hs : Short rs) (hb : Bnd rs) (s : St) (c : Chunk) (a b ob oe bw : Nat)
    (hfile : s.file = writeAll rs) (hfp : s.fpos = some (start rs a)) (hob : s.offBegin = some ob)
    (hoe : s.offEnd = some oe) (hne : ob < oe) (hoc : s.offCurr = some (start rs a)) (hptr : s.filePtr = some 0)
    (hab : a < b) (hbN : b ≤ rs.length) (hbe : start rs b ≤ oe) (hbw : bw * 4 = start rs b - start rs a) :
    load s c bw = .ok (true, { s with fpos := some (start rs b), offCurr := some (start rs b) },
      { dataWords := loadResize bw, begin := 0, rest := writeAll (seg rs a b) }) := by
  have hlt := start_strict rs hs a b hab hbN
  have htot := start_le_total rs b
  have hlen := start_add_seg rs a b (Nat.le_of_lt hab)
  unfold Bnd at hb
  unfold load
  simp only
  rw [loadSize_spec bw (by omega), hbw,
    readChunk_of_read _ _ _ _ (read_window rs hs hb s a b ob oe hfile hfp hob hoe hne hoc hptr hab hbN hbe)
      (by omega) (by omega)]
  have : (writeAll (seg rs a b)).isEmpty = false := by
    cases h : writeAll (seg rs a b) with
    | nil => rw [h] at hlen; simp at hlen; omega
    | cons _ _ => rfl
  simp [this]

theorem load_nothing (s : St) (c : Chunk) (bw : Nat) (hbw : bw < 2 ^ 61) (h : read s (bw * 4) = .ok ([], s)) :
    load s c bw = .ok (false, s, { c with dataWords := loadResize bw }) := by
  unfold load
  simp only
  rw [loadSize_spec bw hbw, readChunk_nothing s _ h]

theorem append_window (rs : List Bytes) (hs : Short rs) (hb : Bnd rs) (s : St) (c : Chunk) (a b ob oe bw : Nat)
    (hfile : s.file = writeAll rs) (hfp : s.fpos = some (start rs a)) (hob : s.offBegin = some ob)
    (hoe : s.offEnd = some oe) (hne : ob < oe) (hoc : s.offCurr = some (start rs a)) (hptr : s.filePtr = some 0)
    (hab : a < b) (hbN : b ≤ rs.length) (hbe : start rs b ≤ oe) (hbw : bw * 4 = start rs b - start rs a)
    (hc0 : c.begin = 0) :
    append s c bw = .ok (true, { s with fpos := some (start rs b), offCurr := some (start rs b) },
      { dataWords := appendResize c.dataWords bw, begin := 0, rest := c.rest ++ writeAll (seg rs a b) }) := by
  have hlt := start_strict rs hs a b hab hbN
  have htot := start_le_total rs b
  have hlen := start_add_seg rs a b (Nat.le_of_lt hab)
  unfold Bnd at hb
  unfold append
  rw [if_neg (by simp [hc0])]
  simp only
  rw [appendSize_spec bw (by omega), hbw,
    readChunk_of_read _ _ _ _ (read_window rs hs hb s a b ob oe hfile hfp hob hoe hne hoc hptr hab hbN hbe)
      (by omega) (by omega)]
  have : (writeAll (seg rs a b)).isEmpty = false := by
    cases h : writeAll (seg rs a b) with
    | nil => rw [h] at hlen; simp at hlen; omega
    | cons _ _ => rfl
  simp [this]

/-! ### BeforeFirst / ResetPartition -/

/-- what `BeforeFirst` needs of a state -/
structure Base (rs : List Bytes) (s : St) (ib ie : Nat) : Prop where
  file : s.file = writeAll rs
  index : s.index = goodIndex rs
  hib : s.idxBegin = some ib
  hie : s.idxEnd = some ie
  hob : s.offBegin = some (start rs ib)
  hoe : s.offEnd = some (start rs ie)
  le : ib ≤ ie
  leN : ie ≤ rs.length
  no : ∃ no, s.nOverflow = some no ∧ no < 2 ^ 32
  fp : ib < ie → s.filePtr = some 0 ∧ ∃ pos, s.fpos = some pos

theorem Core.base {rs : List Bytes} {s : St} {ib ie : Nat} (h : Core rs s ib ie) : Base rs s ib ie :=
  ⟨h.file, h.index, h.hib, h.hie, h.hob, h.hoe, h.le, h.leN, h.no, h.fp⟩

/-- expected delivery order of a pass over `[ib, ie)` -/
def passOrder (rs : List Bytes) (shuffle : Bool) (p : List Nat) (ib ie : Nat) : List Bytes :=
  if shuffle then p.filterMap (fun i => rs[i]?) else seg rs ib ie

theorem clear_id (t : St) (h1 : t.chunk.rest = []) (h2 : t.chunk.begin = 0) :
    { t with chunk := t.chunk.clear } = t := by
  cases t with
  | mk file index perm shuffle batch curIdx idxBegin idxEnd nOverflow offBegin offEnd offCurr filePtr fpos chunk bufWords =>
    cases chunk
    simp_all [Chunk.clear]

theorem perm_nil_of_range (p : List Nat) (ib : Nat) (h : p.Perm (List.range' ib (ib - ib))) : p = [] := by
  simpa using h

/-- the base-class `BeforeFirst` on a state whose `current_index_` is `cur` -/
theorem baseBF_spec (rs : List Bytes) (hs : Short rs) (hb : Bnd rs) (t : St) (ib ie cur : Nat)
    (hc : Base rs t ib ie) (hch : ib = ie → t.chunk.rest = [] ∧ t.chunk.begin = 0)
    (hcur : t.curIdx = some cur) (hc60 : cur < 2 ^ 60) (hcs : t.shuffle = false → cur = ib)
    (hperm : t.shuffle = true → t.perm.Perm (List.range' ib (ie - ib))) :
    ∃ s', baseBeforeFirst t = .ok s' ∧ Core rs s' ib ie ∧ s'.shuffle = t.shuffle ∧ s'.batch = t.batch ∧
      s'.chunk.rest = [] ∧ s'.chunk.begin = 0 ∧ s'.curIdx = some cur ∧ s'.perm = t.perm := by
  obtain ⟨hfile, hindex, hib, hie, hob, hoe, hle, hleN, ⟨no, hno, hno32⟩, hfp⟩ := hc
  unfold Bnd at hb
  have htot := start_le_total rs ie
  unfold baseBeforeFirst
  simp only [hob, hoe]
  by_cases hemp : ib = ie
  · subst hemp
    obtain ⟨hr, hbg⟩ := hch rfl
    have h1 : bfEmpty (start rs ib) (start rs ib) = true := by simp [bfEmpty]
    simp only [h1, if_true]
    have hres : ∀ u : St, u = t → (if bfEmptyClears = true then u else t) = t := by
      intro u hu; rw [hu]; simp
    rw [hres _ (by
      have := clear_id t hr hbg
      rw [← this]
      simp [hob, hoe, Chunk.clear, hr, hbg])]
    refine ⟨t, rfl, ?_, rfl, rfl, hr, hbg, hcur, rfl⟩
    exact ⟨hfile, hindex, hib, hie, hob, hoe, Nat.le_refl _, hleN, ⟨no, hno, hno32⟩,
      ⟨cur, hcur, hc60, fun h => by rw [hcs h]; omega⟩, fun h => absurd h (Nat.lt_irrefl _),
      fun _ h => absurd h (Nat.lt_irrefl _), hperm⟩
  · have hlt : ib < ie := by omega
    have hst := start_strict rs hs ib ie hlt hleN
    obtain ⟨hptr, pos, hpos⟩ := hfp hlt
    have h1 : bfEmpty (start rs ib) (start rs ie) = false := by simp [bfEmpty]; omega
    have h2 : filePtrOf t.file.length (start rs ib) = 0 := by rw [hfile]; exact filePtrOf_lt _ _ (by omega)
    have h3 : bfReopen 0 0 = false := by simp [bfReopen]
    have h4 : bfSeek (start rs ib) (foAt t.file.length 0) = start rs ib := by
      simp only [bfSeek, foAt]; rw [sub64_eq _ _ (by omega) (by omega)]; omega
    simp only [h1, Bool.false_eq_true, if_false, h2, hptr, h3, hpos, h4]
    refine ⟨_, rfl, ?_, rfl, rfl, rfl, rfl, hcur, rfl⟩
    exact ⟨hfile, hindex, hib, hie, rfl, rfl, hle, hleN, ⟨no, hno, hno32⟩,
      ⟨cur, hcur, hc60, fun h => by rw [hcs h]; omega⟩, fun _ => ⟨rfl, _, rfl⟩,
      fun h _ => ⟨cur, hcur, by rw [hcs h], by rw [hcs h]⟩, hperm⟩

theorem filterMap_range'_aux (rs : List Bytes) : ∀ (k ib : Nat), ib + k ≤ rs.length →
    (List.range' ib k).filterMap (fun i => rs[i]?) = (rs.drop ib).take k := by
  intro k
  induction k with
  | zero => intro ib _; simp
  | succ k ih =>
    intro ib h
    have hlt : ib < rs.length := by omega
    rw [List.range'_succ, List.filterMap_cons, List.getElem?_eq_getElem hlt]
    simp only
    rw [ih (ib + 1) (by omega), List.drop_eq_getElem_cons hlt, List.take_succ_cons]

theorem filterMap_range' (rs : List Bytes) (ib ie : Nat) (hle : ib ≤ ie) (h : ie ≤ rs.length) :
    (List.range' ib (ie - ib)).filterMap (fun i => rs[i]?) = seg rs ib ie :=
  filterMap_range'_aux rs (ie - ib) ib (by omega)

theorem bf_spec (rs : List Bytes) (hs : Short rs) (hb : Bnd rs) (s : St) (ib ie : Nat) (p : List Nat)
    (hc : Base rs s ib ie) (hp : s.shuffle = true → p.Perm (List.range' ib (ie - ib)))
    (hch : ib = ie → s.chunk.rest = [] ∧ s.chunk.begin = 0) :
    ∃ s', beforeFirst s p = .ok s' ∧ Core rs s' ib ie ∧ s'.shuffle = s.shuffle ∧ s'.batch = s.batch ∧
      s'.chunk.rest = [] ∧ s'.chunk.begin = 0 ∧ unread rs s' = passOrder rs s.shuffle p ib ie := by
  have hN := length_le_of_bnd rs hs
  have hb' := hb
  unfold Bnd at hb'
  have hle := hc.le
  have hleN := hc.leN
  unfold beforeFirst
  by_cases hsh : s.shuffle = true
  · have hperm : p.isPerm (List.range' ib (ie - ib)) = true := List.isPerm_iff.mpr (hp hsh)
    obtain ⟨s', h1, h2, h3, h4, h5, h6, h7, h8⟩ := baseBF_spec rs hs hb { s with perm := p, curIdx := some 0 } ib ie 0
      ⟨hc.file, hc.index, hc.hib, hc.hie, hc.hob, hc.hoe, hc.le, hc.leN, hc.no, hc.fp⟩ hch rfl (by omega)
      (fun h => by simp [hsh] at h) (fun _ => hp hsh)
    rw [if_pos hsh]
    split
    · rename_i ib' ie' e1 e2
      rw [hc.hib] at e1; rw [hc.hie] at e2
      injection e1 with e1; injection e2 with e2
      subst e1; subst e2
      rw [if_pos hperm]
      refine ⟨s', h1, h2, h3, h4, h5, h6, ?_⟩
      unfold unread passOrder
      rw [h7, h2.hie, h3]
      simp [hsh, h8]
    · rename_i hno
      exact absurd hc.hie (hno _ _ hc.hib)
  · have hsh' : s.shuffle = false := by simpa using hsh
    obtain ⟨s', h1, h2, h3, h4, h5, h6, h7, h8⟩ := baseBF_spec rs hs hb { s with curIdx := some ib } ib ie ib
      ⟨hc.file, hc.index, hc.hib, hc.hie, hc.hob, hc.hoe, hc.le, hc.leN, hc.no, hc.fp⟩ hch rfl
      (by omega) (fun _ => rfl) (fun h => by simp [hsh'] at h)
    rw [if_neg hsh]
    split
    · rename_i ib' e1
      rw [hc.hib] at e1
      injection e1 with e1
      subst e1
      refine ⟨s', h1, h2, h3, h4, h5, h6, ?_⟩
      unfold unread passOrder
      rw [h7, h2.hie, h3]
      simp [hsh']
    · rename_i e1
      rw [hc.hib] at e1
      exact absurd e1 (by simp)


theorem rpStep_spec (N n : Nat) (hN : N < 2 ^ 60) (hn : 0 < n) (hn32 : n < 2 ^ 32) : rpStep N n = step N n := by
  unfold rpStep step
  rw [u64_eq _ (by omega), sub64_eq _ _ (by omega) (by omega)]

theorem reset_spec (rs : List Bytes) (hs : Short rs) (hb : Bnd rs) (s : St) (k n : Nat) (p : List Nat)
    (hfile : s.file = writeAll rs) (hindex : s.index = goodIndex rs)
    (hn : 0 < n) (hn32 : n < 2 ^ 32) (hk : k < n)
    (hp : s.shuffle = true → p.Perm (List.range' (sliceBegin rs.length n k)
            (sliceEnd rs.length n k - sliceBegin rs.length n k))) :
    ∃ s', resetPartition s k n p = .ok s' ∧ Core rs s' (sliceBegin rs.length n k) (sliceEnd rs.length n k) ∧
      s'.shuffle = s.shuffle ∧ s'.batch = s.batch ∧ s'.chunk.rest = [] ∧ s'.chunk.begin = 0 ∧
      unread rs s' = passOrder rs s.shuffle p (sliceBegin rs.length n k) (sliceEnd rs.length n k) := by
  have hN := length_le_of_bnd rs hs
  have hb' := hb
  unfold Bnd at hb'
  have hst1 := mul_step_le rs.length n k hk
  have hst0 : k * step rs.length n ≤ (k + 1) * step rs.length n := Nat.mul_le_mul_right _ (by omega)
  have hnt : rpNtotal s.index.length = rs.length := by
    rw [hindex, goodIndex_length]
    have := fix_readIndexSentinel
    unfold rpNtotal
    rw [sub64_eq _ _ (by omega) (by omega)]; omega
  unfold resetPartition
  rw [if_neg (by omega)]
  simp only [hnt, rpStep_spec rs.length n (by omega) hn hn32]
  by_cases hemp : rs.length ≤ k * step rs.length n
  · -- the part receives no records
    have h1 : rpEmpty k (step rs.length n) rs.length = true := by
      simp only [rpEmpty, decide_eq_true_eq]; rw [u64_eq _ (by omega)]; exact hemp
    have hsb : sliceBegin rs.length n k = rs.length := by unfold sliceBegin; omega
    have hse : sliceEnd rs.length n k = rs.length := by unfold sliceEnd; omega
    rw [hsb, hse] at hp ⊢
    simp only [h1, if_true, fix_emptyAssigns]
    refine ⟨_, rfl, ?_, rfl, rfl, rfl, rfl, ?_⟩
    · exact ⟨hfile, hindex, rfl, rfl, by simp [hfile, start_total], by simp [hfile, start_total], Nat.le_refl _,
        Nat.le_refl _, ⟨0, rfl, by omega⟩, ⟨rs.length, rfl, by omega, fun _ => ⟨Nat.le_refl _, Nat.le_refl _⟩⟩,
        fun h => absurd h (Nat.lt_irrefl _), fun _ h => absurd h (Nat.lt_irrefl _),
        fun _ => by simp⟩
    · unfold unread passOrder
      simp only [seg_self]
      by_cases hsh : s.shuffle = true
      · have := hp hsh
        simp at this
        simp [hsh, this]
      · simp [hsh]
  · have hlt : k * step rs.length n < rs.length := by omega
    have h1 : rpEmpty k (step rs.length n) rs.length = false := by
      simp only [rpEmpty, decide_eq_false_iff_not]; rw [u64_eq _ (by omega)]; omega
    have hsb : sliceBegin rs.length n k = k * step rs.length n := by unfold sliceBegin; omega
    have h2 : rpBegin k (step rs.length n) = k * step rs.length n := by
      unfold rpBegin; rw [u64_eq _ (by omega)]
    have hidx1 := goodIndex_get rs (k * step rs.length n) (by omega)
    have hfp0 : filePtrOf s.file.length (start rs (k * step rs.length n)) = 0 := by
      rw [hfile]
      apply filePtrOf_lt
      have := start_strict rs hs (k * step rs.length n) rs.length hlt (Nat.le_refl _)
      rw [start_total rs rs.length (Nat.le_refl _)] at this
      omega
    have hnf : ¬ (nFiles ≤ 0) := by simp [nFiles]
    simp only [h1, Bool.false_eq_true, if_false, h2, hindex, hidx1, fix_resetPushesSentinel]
    rw [← hindex]
    by_cases hnext : (k + 1) * step rs.length n < rs.length
    · have h3 : rpHasNext k (step rs.length n) rs.length = true := by
        simp only [rpHasNext, decide_eq_true_eq]; rw [u32_eq _ (by omega), u64_eq _ (by omega)]; exact hnext
      have h4 : rpEnd k (step rs.length n) = (k + 1) * step rs.length n := by
        unfold rpEnd; rw [u32_eq _ (by omega), u64_eq _ (by omega)]
      have hse : sliceEnd rs.length n k = (k + 1) * step rs.length n := by unfold sliceEnd; omega
      have hidx2 := goodIndex_get rs ((k + 1) * step rs.length n) (by omega)
      rw [hsb, hse] at hp ⊢
      simp only [h3, if_true, h4, hindex, hidx2, hfp0, hnf, if_false]
      rw [← hindex]
      have hlt2 : k * step rs.length n < (k + 1) * step rs.length n := by
        rcases Nat.eq_zero_or_pos (step rs.length n) with h0 | h0
        · have hcov := step_cover rs.length n hn
          rw [h0] at hcov hlt; omega
        · rw [Nat.succ_mul]; omega
      obtain ⟨s', e1, e2, e3, e4, e5, e6, e7⟩ := bf_spec rs hs hb
        ({ s with idxBegin := some (k * step rs.length n), idxEnd := some ((k + 1) * step rs.length n),
                       offBegin := some (start rs (k * step rs.length n)),
                       offEnd := some (start rs ((k + 1) * step rs.length n)),
                       offCurr := some (start rs (k * step rs.length n)), filePtr := some 0, fpos := some 0,
                       curIdx := some (k * step rs.length n), nOverflow := some 0 })
        (k * step rs.length n) ((k + 1) * step rs.length n) p
        ⟨hfile, hindex, rfl, rfl, rfl, rfl, by omega, by omega, ⟨0, rfl, by omega⟩, fun _ => ⟨rfl, 0, rfl⟩⟩
        hp (fun h => by omega)
      exact ⟨s', e1, e2, e3, e4, e5, e6, e7⟩
    · have h3 : rpHasNext k (step rs.length n) rs.length = false := by
        simp only [rpHasNext, decide_eq_false_iff_not]; rw [u32_eq _ (by omega), u64_eq _ (by omega)]; exact hnext
      have hse : sliceEnd rs.length n k = rs.length := by unfold sliceEnd; omega
      have h4 : rpLastEnd s.index.length rs.length = rs.length := by
        have := fix_resetPushesSentinel
        rfl
      rw [hsb, hse] at hp ⊢
      simp only [h3, Bool.false_eq_true, if_false, h4, hfp0, hnf]
      obtain ⟨s', e1, e2, e3, e4, e5, e6, e7⟩ := bf_spec rs hs hb
        ({ s with idxBegin := some (k * step rs.length n), idxEnd := some rs.length,
                       offBegin := some (start rs (k * step rs.length n)),
                       offEnd := some s.file.length,
                       offCurr := some (start rs (k * step rs.length n)), filePtr := some 0, fpos := some 0,
                       curIdx := some (k * step rs.length n), nOverflow := some 0 })
        (k * step rs.length n) rs.length p
        ⟨hfile, hindex, rfl, rfl, rfl, by simp [hfile, start_total], by omega, Nat.le_refl _, ⟨0, rfl, by omega⟩,
          fun _ => ⟨rfl, 0, rfl⟩⟩
        hp (fun h => by omega)
      exact ⟨s', e1, e2, e3, e4, e5, e6, e7⟩

end DmlcModel.Indexed
