/-
csv: what the cell loop of CSVParser::ParseBlock does on a rendered line (helper lemmas of C12_csv).

Part 1 (pure): the cell loop as a fold `csvFold` of `csvUpdate` over the cell values, and the row it
builds (`csvRowOfVals`, the formula of `expectCsvRow`).
Part 2 (bytes): `csvCellsS` on a rendered line `lineOf` = `csvFold` over the values of its cells.
Part 3: a document of rendered lines, glued by the csv `LineFormat` (C11).
-/
import DmlcModel.Parse.Render

namespace DmlcModel.Parse
open DmlcModel

/-! ## part 1: the fold over cell values -/

/-- numbering from `c` on -/
def enumF {α : Type} (c : Nat) : List α → List (Nat × α)
  | [] => []
  | x :: xs => (c, x) :: enumF (c + 1) xs

theorem range'_zip_eq {α : Type} (c : Nat) (xs : List α) : (List.range' c xs.length).zip xs = enumF c xs := by
  induction xs generalizing c with
  | nil => rfl
  | cons x xs ih => simp [List.range'_succ, enumF, ih]

theorem range_zip_eq {α : Type} (xs : List α) : (List.range xs.length).zip xs = enumF 0 xs := by
  rw [List.range_eq_range', range'_zip_eq]

theorem enumF_mem {α : Type} (c : Nat) (xs : List α) (z : Nat × α) (h : z ∈ enumF c xs) :
    c ≤ z.1 ∧ z.1 < c + xs.length ∧ z.2 ∈ xs := by
  induction xs generalizing c with
  | nil => simp [enumF] at h
  | cons x xs ih =>
    simp only [enumF, List.mem_cons] at h
    rcases h with rfl | h
    · simp
    · have := ih (c + 1) h
      simp only [List.length_cons, List.mem_cons]
      exact ⟨by omega, by omega, Or.inr this.2.2⟩

theorem enumF_map_snd {α : Type} (c : Nat) (xs : List α) : (enumF c xs).map (·.2) = xs := by
  induction xs generalizing c with
  | nil => rfl
  | cons x xs ih => simp [enumF, ih]

/-- column `col` is the label column -/
def labP (prm : CsvParam) (col : Nat) : Bool := u32 col == prm.labelCol
/-- column `col` is the weight column (real-valued cells only) -/
def wgtP (prm : CsvParam) (col : Nat) : Bool := prm.isReal && u32 col == prm.weightCol
/-- column `col` holds a feature -/
def featP (prm : CsvParam) (col : Nat) : Bool := u32 col != prm.labelCol && !(prm.isReal && u32 col == prm.weightCol)

/-- one step of the cell loop on a cell value (`none`: an empty cell, nothing converted) -/
def csvStep (prm : CsvParam) (st : CsvLine) (c : Option Nat) : CsvLine :=
  match c with
  | some v => csvUpdate prm st v true
  | none => csvUpdate prm st 0 false

def csvFold (prm : CsvParam) (st : CsvLine) (vals : List (Option Nat)) : CsvLine := vals.foldl (csvStep prm) st

/-- in a feature column the value of an empty cell is not looked at -/
theorem csvUpdate_absent (prm : CsvParam) (st : CsvLine) (v : Nat) (h : featP prm st.col = true) :
    csvUpdate prm st v false = csvStep prm st none := by
  simp only [featP, Bool.and_eq_true, bne_iff_ne, ne_eq, Bool.not_eq_true'] at h
  have h1 : Gen.Parse.csvIsLabel (u32 st.col) prm.labelCol = false := by simp [Gen.Parse.csvIsLabel, h.1]
  have h2 : Gen.Parse.csvIsWeight prm.isReal (u32 st.col) prm.weightCol = false := by
    simpa [Gen.Parse.csvIsWeight] using h.2
  simp [csvStep, csvUpdate, h1, h2]

theorem csvStep_col (prm : CsvParam) (st : CsvLine) (c : Option Nat) : (csvStep prm st c).col = st.col + 1 := by
  cases c <;> simp only [csvStep, csvUpdate] <;> (repeat' split) <;> rfl

/-- the row the formula of `expectCsvRow` gives for the cell values `vals` -/
def csvRowOfVals (prm : CsvParam) (vals : List (Option Nat)) : Row :=
  let cols := (List.range vals.length).zip vals
  let feats := (cols.filter fun cv => u32 cv.1 != prm.labelCol && !(prm.isReal && u32 cv.1 == prm.weightCol))
  let numbered := (List.range feats.length).zip (feats.map (·.2))
  let present := numbered.filterMap fun iv => iv.2.map fun v => (iv.1, v)
  { label := (cols.find? fun cv => u32 cv.1 == prm.labelCol).bind (·.2)
    weight := if prm.isReal then (cols.find? fun cv => u32 cv.1 == prm.weightCol).bind (·.2) else none
    qid := none, field := none, index := present.map (·.1)
    value := if present.isEmpty then none else some (present.map (·.2)) }

/-- the feature cells of `vals` (columns from `c` on) -/
def featCells (prm : CsvParam) (c : Nat) (vals : List (Option Nat)) : List (Option Nat) :=
  ((enumF c vals).filter fun cv => featP prm cv.1).map (·.2)

/-- the present feature cells, numbered from `i` on -/
def presentF (i : Nat) (fs : List (Option Nat)) : List (Nat × Nat) :=
  (enumF i fs).filterMap fun iv => iv.2.map fun v => (iv.1, v)

theorem featCells_cons (prm : CsvParam) (c : Nat) (v : Option Nat) (vs : List (Option Nat)) :
    featCells prm c (v :: vs) = if featP prm c then v :: featCells prm (c + 1) vs else featCells prm (c + 1) vs := by
  by_cases h : featP prm c = true <;> simp [featCells, enumF, h]

theorem presentF_cons (i : Nat) (v : Option Nat) (fs : List (Option Nat)) :
    presentF i (v :: fs) = (match v with | some x => [(i, x)] | none => []) ++ presentF (i + 1) fs := by
  cases v <;> simp [presentF, enumF]

/-- the entries and the running index the loop builds -/
theorem csvFold_feats (prm : CsvParam) (vals : List (Option Nat)) (st : CsvLine) :
    (csvFold prm st vals).feats.reverse = st.feats.reverse ++ presentF st.idx (featCells prm st.col vals) ∧
    (csvFold prm st vals).idx = st.idx + (featCells prm st.col vals).length := by
  induction vals generalizing st with
  | nil => simp [csvFold, featCells, presentF, enumF]
  | cons v vs ih =>
    have hstep := ih (csvStep prm st v)
    have hfold : csvFold prm st (v :: vs) = csvFold prm (csvStep prm st v) vs := rfl
    rw [hfold, csvStep_col] at *
    rw [hstep.1, hstep.2, featCells_cons]
    by_cases hl : (u32 st.col == prm.labelCol) = true
    · have hl' : u32 st.col = prm.labelCol := by simpa using hl
      have hf : featP prm st.col = false := by simp [featP, hl']
      have h1 : Gen.Parse.csvIsLabel (u32 st.col) prm.labelCol = true := hl
      cases v <;> simp [hf, csvStep, csvUpdate, h1]
    · have h1 : Gen.Parse.csvIsLabel (u32 st.col) prm.labelCol = false := by simpa [Gen.Parse.csvIsLabel] using hl
      by_cases hw : (prm.isReal && u32 st.col == prm.weightCol) = true
      · have hf : featP prm st.col = false := by simp [featP, hw]
        have h2 : Gen.Parse.csvIsWeight prm.isReal (u32 st.col) prm.weightCol = true := hw
        cases v <;> simp [hf, csvStep, csvUpdate, h1, h2]
      · have h2 : Gen.Parse.csvIsWeight prm.isReal (u32 st.col) prm.weightCol = false := by
          simpa [Gen.Parse.csvIsWeight] using hw
        have hf : featP prm st.col = true := by
          simp only [featP, Bool.and_eq_true, bne_iff_ne, ne_eq, Bool.not_eq_true']
          exact ⟨by simpa using hl, by simpa using hw⟩
        cases v with
        | none =>
          simp only [hf, if_true, csvStep, csvUpdate, h1, h2, Bool.false_eq_true, if_false, presentF_cons,
            List.length_cons, List.nil_append]
          constructor <;> first | rfl | trivial | omega
        | some x =>
          simp only [hf, if_true, csvStep, csvUpdate, h1, h2, Bool.false_eq_true, if_false, presentF_cons,
            List.length_cons, List.reverse_cons, List.append_assoc, List.singleton_append]
          constructor <;> first | rfl | trivial | omega

/-! ### label and weight -/

/-- the row fits the label / weight columns: at most 2^32 columns (so that `column_index` does not wrap), the
cells in the label and in the weight column are not empty, and the two columns differ -/
structure ColsOk (prm : CsvParam) (c : Nat) (vals : List (Option Nat)) : Prop where
  width : c + vals.length ≤ 4294967296
  label : ∀ cv ∈ enumF c vals, labP prm cv.1 = true → cv.2 ≠ none
  weight : ∀ cv ∈ enumF c vals, wgtP prm cv.1 = true → cv.2 ≠ none ∧ labP prm cv.1 = false

theorem ColsOk.tail {prm : CsvParam} {c : Nat} {v : Option Nat} {vs : List (Option Nat)} (h : ColsOk prm c (v :: vs)) :
    ColsOk prm (c + 1) vs :=
  ⟨by have := h.width; simp only [List.length_cons] at this; omega,
   fun cv hcv => h.label cv (by simp [enumF, hcv]), fun cv hcv => h.weight cv (by simp [enumF, hcv])⟩

theorem csvStep_label_keep (prm : CsvParam) (st : CsvLine) (v : Option Nat) (h : labP prm st.col = false) :
    (csvStep prm st v).label = st.label := by
  have h1 : Gen.Parse.csvIsLabel (u32 st.col) prm.labelCol = false := h
  cases v <;> simp only [csvStep, csvUpdate, h1] <;> (repeat' split) <;> first | rfl | contradiction

theorem csvStep_weight_keep (prm : CsvParam) (st : CsvLine) (v : Option Nat) (h : wgtP prm st.col = false) :
    (csvStep prm st v).weight = st.weight := by
  have h1 : Gen.Parse.csvIsWeight prm.isReal (u32 st.col) prm.weightCol = false := h
  cases v <;> simp only [csvStep, csvUpdate, h1] <;> (repeat' split) <;> first | rfl | contradiction

theorem csvFold_label_keep (prm : CsvParam) (vals : List (Option Nat)) (st : CsvLine)
    (h : ∀ cv ∈ enumF st.col vals, labP prm cv.1 = false) : (csvFold prm st vals).label = st.label := by
  induction vals generalizing st with
  | nil => rfl
  | cons v vs ih =>
    have hfold : csvFold prm st (v :: vs) = csvFold prm (csvStep prm st v) vs := rfl
    rw [hfold, ih _ (fun cv hcv => h cv (by rw [csvStep_col] at hcv; simp [enumF, hcv])),
      csvStep_label_keep prm st v (h (st.col, v) (by simp [enumF]))]

theorem csvFold_weight_keep (prm : CsvParam) (vals : List (Option Nat)) (st : CsvLine)
    (h : ∀ cv ∈ enumF st.col vals, wgtP prm cv.1 = false) : (csvFold prm st vals).weight = st.weight := by
  induction vals generalizing st with
  | nil => rfl
  | cons v vs ih =>
    have hfold : csvFold prm st (v :: vs) = csvFold prm (csvStep prm st v) vs := rfl
    rw [hfold, ih _ (fun cv hcv => h cv (by rw [csvStep_col] at hcv; simp [enumF, hcv])),
      csvStep_weight_keep prm st v (h (st.col, v) (by simp [enumF]))]

/-- behind column `c` (fewer than 2^32 columns in all) no column number wraps to `u32 c` -/
theorem later_cols_differ (c : Nat) (vs : List (Option Nat)) (hw : c + (vs.length + 1) ≤ 4294967296)
    (cv : Nat × Option Nat) (hcv : cv ∈ enumF (c + 1) vs) : u32 cv.1 ≠ u32 c := by
  have := enumF_mem (c + 1) vs cv hcv
  unfold u32; omega

theorem csvFold_label (prm : CsvParam) (vals : List (Option Nat)) (st : CsvLine) (hok : ColsOk prm st.col vals) :
    (csvFold prm st vals).label =
      match (enumF st.col vals).find? fun cv => u32 cv.1 == prm.labelCol with
      | some cv => cv.2
      | none => st.label := by
  induction vals generalizing st with
  | nil => rfl
  | cons v vs ih =>
    have hfold : csvFold prm st (v :: vs) = csvFold prm (csvStep prm st v) vs := rfl
    rw [hfold]
    by_cases hl : (u32 st.col == prm.labelCol) = true
    · have hv := hok.label (st.col, v) (by simp [enumF]) hl
      obtain ⟨x, rfl⟩ : ∃ x, v = some x := by cases v with | none => exact absurd rfl hv | some x => exact ⟨x, rfl⟩
      have hl' : u32 st.col = prm.labelCol := by simpa using hl
      rw [csvFold_label_keep prm vs _ (fun cv hcv => by
        rw [csvStep_col] at hcv
        have := later_cols_differ st.col vs (by simpa using hok.width) cv hcv
        simp only [labP, beq_eq_false_iff_ne, ne_eq]; rw [← hl']; exact this)]
      have h1 : Gen.Parse.csvIsLabel (u32 st.col) prm.labelCol = true := hl
      simp [enumF, hl, csvStep, csvUpdate, h1]
    · have hl' : labP prm st.col = false := by simpa [labP] using hl
      have := ih (csvStep prm st (v)) (by rw [csvStep_col]; exact hok.tail)
      rw [this, csvStep_col, csvStep_label_keep prm st v hl']
      simp [enumF, hl]

theorem csvFold_weight (prm : CsvParam) (vals : List (Option Nat)) (st : CsvLine) (hok : ColsOk prm st.col vals)
    (hr : prm.isReal = true) :
    (csvFold prm st vals).weight =
      match ((enumF st.col vals).find? fun cv => u32 cv.1 == prm.weightCol).bind (·.2) with
      | some w => w
      | none => st.weight := by
  induction vals generalizing st with
  | nil => rfl
  | cons v vs ih =>
    have hfold : csvFold prm st (v :: vs) = csvFold prm (csvStep prm st v) vs := rfl
    rw [hfold]
    by_cases hl : (u32 st.col == prm.weightCol) = true
    · have hwp : wgtP prm st.col = true := by simp [wgtP, hr, hl]
      obtain ⟨hv, hnl⟩ := hok.weight (st.col, v) (by simp [enumF]) hwp
      obtain ⟨x, rfl⟩ : ∃ x, v = some x := by cases v with | none => exact absurd rfl hv | some x => exact ⟨x, rfl⟩
      have hl' : u32 st.col = prm.weightCol := by simpa using hl
      rw [csvFold_weight_keep prm vs _ (fun cv hcv => by
        rw [csvStep_col] at hcv
        have := later_cols_differ st.col vs (by simpa using hok.width) cv hcv
        simp only [wgtP, Bool.and_eq_false_iff, beq_eq_false_iff_ne, ne_eq]; rw [← hl']; exact Or.inr this)]
      have h1 : Gen.Parse.csvIsLabel (u32 st.col) prm.labelCol = false := hnl
      have h2 : Gen.Parse.csvIsWeight prm.isReal (u32 st.col) prm.weightCol = true := hwp
      simp [enumF, hl, csvStep, csvUpdate, h1, h2]
    · have hl' : wgtP prm st.col = false := by simp [wgtP, hl]
      have := ih (csvStep prm st (v)) (by rw [csvStep_col]; exact hok.tail)
      rw [this, csvStep_col, csvStep_weight_keep prm st v hl']
      simp [enumF, hl]

theorem isNaN_quietNaN : isNaNBits quietNaN = true := by decide

/-- **the row of the fold is the row of the formula** -/
theorem toRow_csvFold (prm : CsvParam) (vals : List (Option Nat)) (hok : ColsOk prm 0 vals)
    (hnan : ∀ w, (csvRowOfVals prm vals).weight = some w → isNaNBits w = false) :
    toRow (csvRec (csvFold prm {} vals)) = csvRowOfVals prm vals := by
  have hf := (csvFold_feats prm vals {}).1
  have hl := csvFold_label prm vals {} hok
  have hpres : ((List.range ((enumF 0 vals).filter fun cv => u32 cv.1 != prm.labelCol &&
        !(prm.isReal && u32 cv.1 == prm.weightCol)).length).zip
        (((enumF 0 vals).filter fun cv => u32 cv.1 != prm.labelCol && !(prm.isReal && u32 cv.1 == prm.weightCol)).map
          (·.2))).filterMap (fun iv => iv.2.map fun v => (iv.1, v)) = presentF 0 (featCells prm 0 vals) := by
    have := range_zip_eq (featCells prm 0 vals)
    simp only [featCells, List.length_map, featP] at this
    simp only [presentF, featCells, featP, this]
  simp only [List.reverse_nil, List.nil_append] at hf
  have hf' : (csvFold prm {} vals).feats.reverse = presentF 0 (featCells prm 0 vals) := hf
  have hlab : (csvFold prm {} vals).label =
      ((enumF 0 vals).find? fun cv => u32 cv.1 == prm.labelCol).bind (·.2) := by
    rw [hl]
    cases (enumF ({} : CsvLine).col vals).find? fun cv => u32 cv.1 == prm.labelCol <;> rfl
  have hwgt : (if isNaNBits (csvFold prm {} vals).weight = true then none else some (csvFold prm {} vals).weight) =
      (if prm.isReal = true then ((enumF 0 vals).find? fun cv => u32 cv.1 == prm.weightCol).bind (·.2) else none) := by
    by_cases hr : prm.isReal = true
    · have hw := csvFold_weight prm vals {} hok hr
      have hn := hnan
      simp only [csvRowOfVals, range_zip_eq, hr, if_true] at hn
      rw [hw, if_pos hr]
      cases hfd : ((enumF 0 vals).find? fun cv => u32 cv.1 == prm.weightCol).bind (·.2) with
      | none =>
        exact if_pos isNaN_quietNaN
      | some w =>
        have := hn w hfd
        simp [this]
    · have hw := csvFold_weight_keep prm vals {} (fun cv _ => by simp [wgtP, hr])
      rw [hw, if_neg hr]; exact if_pos isNaN_quietNaN
  simp only [toRow, csvRec, csvRowOfVals, range_zip_eq, hpres, hf', hlab, hwgt, List.isEmpty_nil, Bool.true_or, if_true]
  congr 1
  cases presentF 0 (featCells prm 0 vals) <;> simp

/-! ## part 2: the cell loop on a rendered line -/

/-- a cell with the blanks around it: (cell, (blanks in front, blanks behind)); `none` = empty cell -/
abbrev CellP := Option Bytes × (Bytes × Bytes)

def cellBytes (cp : CellP) : Bytes :=
  match cp.1 with
  | some lex => cp.2.1 ++ lex ++ cp.2.2
  | none => []

/-- the cells joined by the delimiter `d` -/
def lineOf (d : UInt8) : List CellP → Bytes
  | [] => []
  | [cp] => cellBytes cp
  | cp :: cp' :: rest => cellBytes cp ++ d :: lineOf d (cp' :: rest)

theorem lineOf_eq (d : UInt8) (cps : List CellP) :
    ((cps.map cellBytes).intersperse [d]).flatten = lineOf d cps := by
  induction cps with
  | nil => rfl
  | cons cp rest ih =>
    cases rest with
    | nil => simp [lineOf]
    | cons cp' rest' =>
      simp only [List.map_cons, List.intersperse_cons_cons, List.flatten_cons, lineOf] at ih ⊢
      rw [ih]; simp

/-- what a cell means -/
def cellVal (gC : Bytes → Res (Nat × Nat)) (c : Option Bytes) : Res (Option Nat) :=
  match c with
  | some lex => (gC lex).map fun vk => some vk.1
  | none => pure none

/-- the cell conversion skips blanks in front of a lexeme (as strtof / strtoll do) -/
def SkipsBlanks (gC : Bytes → Res (Nat × Nat)) : Prop :=
  ∀ bl lex tail : Bytes, blanksOnly bl → IsLexeme lex → (∀ b, tail.head? = some b → isDelimB b = true) →
    gC (bl ++ (lex ++ tail)) = (gC lex).map fun vk => (vk.1, bl.length + vk.2)

/-- the contract of `C12_csv_statement` for the cell conversion: exact on a lexeme followed by a delimiter byte,
end pointer directly behind the lexeme -/
def CellExact (gC : Bytes → Res (Nat × Nat)) : Prop :=
  ∀ lex tail : Bytes, IsLexeme lex → (∀ b, tail.head? = some b → isDelimB b = true) →
    gC (lex ++ tail) = gC lex ∧ ∀ v k, gC lex = .ok (v, k) → k = lex.length

structure CellOk (gC : Bytes → Res (Nat × Nat)) (d : UInt8) (cp : CellP) : Prop where
  lead : blanksOnly cp.2.1
  trail : blanksOnly cp.2.2
  blankDelim : isBlankB d = true → cp.2.1 = [] ∧ cp.2.2 = []
  lex : ∀ lex, cp.1 = some lex → IsLexeme lex
  lead0 : SkipsBlanks gC ∨ cp.2.1 = []

/-- the last cell of the row is not empty -/
def LastSome : List CellP → Prop
  | [] => False
  | [cp] => cp.1 ≠ none
  | _ :: cp' :: rest => LastSome (cp' :: rest)

theorem lastSome_of_getLast (cps : List CellP) (hne : cps ≠ []) (h : (cps.map (·.1)).getLast? ≠ some none) :
    LastSome cps := by
  induction cps with
  | nil => exact absurd rfl hne
  | cons cp rest ih =>
    cases rest with
    | nil => simpa [LastSome] using h
    | cons cp' rest' =>
      simp only [LastSome]
      exact ih (by simp) (by simpa [List.getLast?_cons_cons] using h)

theorem notDelimB_self {d : UInt8} {delim : Nat} (hd : d.toNat = delim) : notDelimB delim d = false := by
  simp [notDelimB, Gen.Parse.csvNotDelim, hd]

theorem notDelimB_ne {d b : UInt8} {delim : Nat} (hd : d.toNat = delim) (h : b ≠ d) : notDelimB delim b = true := by
  simp only [notDelimB, Gen.Parse.csvNotDelim, bne_iff_ne, ne_eq, ← hd]
  intro e; exact h (UInt8.toNat_inj.mp e)

theorem pad_ne_delim {d : UInt8} {p : Bytes} (hp : blanksOnly p) (hbd : isBlankB d = true → p = []) :
    ∀ b ∈ p, b ≠ d := by
  intro b hb e
  subst e
  have := hbd (hp b hb)
  rw [this] at hb; simp at hb

theorem dropWhile_pad_delim {d : UInt8} {delim : Nat} (hd : d.toNat = delim) {p : Bytes} (hp : blanksOnly p)
    (hbd : isBlankB d = true → p = []) (R : Bytes) :
    (p ++ d :: R).dropWhile (notDelimB delim) = d :: R :=
  dropWhile_append_all _ p (d :: R) (fun b hb => notDelimB_ne hd (pad_ne_delim hp hbd b hb))
    (fun b hb => by simp at hb; subst hb; exact notDelimB_self hd)

theorem dropWhile_pad {d : UInt8} {delim : Nat} (hd : d.toNat = delim) {p : Bytes} (hp : blanksOnly p)
    (hbd : isBlankB d = true → p = []) : p.dropWhile (notDelimB delim) = [] :=
  dropWhile_all _ p (fun b hb => notDelimB_ne hd (pad_ne_delim hp hbd b hb))

theorem digit_notCellSpace (b : UInt8) (h : isDigitCharB b = true) : isCellSpaceB b = false := by
  simp [isCellSpaceB, Gen.Parse.isspace, isDigitCharB, Gen.Parse.isdigitchars] at *; omega

theorem blank_isCellSpace (b : UInt8) (h : isBlankB b = true) : isCellSpaceB b = true := by
  simp [isBlankB, Gen.Parse.isblank, isCellSpaceB, Gen.Parse.isspace] at *; omega

/-- the blank-cell guard on a rendered non-empty cell: the skip loop runs over the blanks in front (which are not the
delimiter) and stops at the first byte of the lexeme, so the cell is converted -/
theorem csvCellS_lex (gC : Bytes → Res (Nat × Nat)) {d : UInt8} {delim : Nat} (hd : d.toNat = delim)
    (hdd : isDelimB d = true) (p1 lex tail : Bytes) (hp1 : blanksOnly p1) (hbd : isBlankB d = true → p1 = [])
    (hlex : IsLexeme lex) :
    csvCellS gC delim (p1 ++ (lex ++ tail)) = gC ((p1 ++ (lex ++ tail)).takeWhile nonStopB) := by
  obtain ⟨y, r, hy, hyd⟩ := lex_head hlex
  have hyne : y ≠ d := by
    intro e; subst e; rw [delim_notDigit y hdd] at hyd; cases hyd
  have hynd : notDelimB delim y = true := notDelimB_ne hd hyne
  have hdw : (p1 ++ (lex ++ tail)).dropWhile (isCellSpaceNotDelimB delim) = y :: (r ++ tail) := by
    rw [hy]
    exact dropWhile_append_all _ p1 _ (fun b hb => by
        have h1 : Gen.Parse.csvNotDelim b.toNat delim = true := notDelimB_ne hd (pad_ne_delim hp1 hbd b hb)
        simp [isCellSpaceNotDelimB, h1, blank_isCellSpace b (hp1 b hb)])
      (fun b hb => by
        simp at hb; subst hb
        simp [isCellSpaceNotDelimB, digit_notCellSpace y hyd])
  simp only [csvCellS, hdw, hynd, if_true]

/-- … and on an empty cell in front of the delimiter: the skip loop stops at the delimiter, a missing value -/
theorem csvCellS_delim (gC : Bytes → Res (Nat × Nat)) {d : UInt8} {delim : Nat} (hd : d.toNat = delim) (R : Bytes) :
    csvCellS gC delim (d :: R) = .ok (0, 0) := by
  have h1 : Gen.Parse.csvNotDelim d.toNat delim = false := notDelimB_self hd
  have h2 : isCellSpaceNotDelimB delim d = false := by simp [isCellSpaceNotDelimB, h1]
  simp [csvCellS, List.dropWhile, h2, notDelimB_self hd]

theorem cellBytes_some (cp : CellP) (lex : Bytes) (h : cp.1 = some lex) : cellBytes cp = cp.2.1 ++ lex ++ cp.2.2 := by
  simp [cellBytes, h]

theorem cellBytes_none (cp : CellP) (h : cp.1 = none) : cellBytes cp = [] := by
  simp [cellBytes, h]

theorem cellBytes_bytes {gC : Bytes → Res (Nat × Nat)} {d : UInt8} {cp : CellP} (h : CellOk gC d cp) :
    ∀ b ∈ cellBytes cp, isBlankB b = true ∨ isDigitCharB b = true := by
  intro b hb
  cases hc : cp.1 with
  | none => rw [cellBytes_none cp hc] at hb; simp at hb
  | some lex =>
    rw [cellBytes_some cp lex hc] at hb
    simp only [List.mem_append] at hb
    rcases hb with (hb | hb) | hb
    · exact Or.inl (h.lead b hb)
    · exact Or.inr ((h.lex lex hc).2 b hb)
    · exact Or.inl (h.trail b hb)

/-- the bytes of a rendered line: blanks, number characters, the delimiter -/
theorem lineOf_bytes {gC : Bytes → Res (Nat × Nat)} {d : UInt8} (cps : List CellP) (h : ∀ cp ∈ cps, CellOk gC d cp) :
    ∀ b ∈ lineOf d cps, isBlankB b = true ∨ isDigitCharB b = true ∨ b = d := by
  induction cps with
  | nil => intro b hb; simp [lineOf] at hb
  | cons cp rest ih =>
    cases rest with
    | nil =>
      intro b hb
      rcases cellBytes_bytes (h cp (by simp)) b (by simpa [lineOf] using hb) with h1 | h1
      · exact Or.inl h1
      · exact Or.inr (Or.inl h1)
    | cons cp' rest' =>
      intro b hb
      simp only [lineOf, List.mem_append, List.mem_cons] at hb
      rcases hb with hb | rfl | hb
      · rcases cellBytes_bytes (h cp (by simp)) b hb with h1 | h1
        · exact Or.inl h1
        · exact Or.inr (Or.inl h1)
      · exact Or.inr (Or.inr rfl)
      · exact ih (fun x hx => h x (by simp [hx])) b hb

theorem lineOf_clean {gC : Bytes → Res (Nat × Nat)} {d : UInt8} (hde : isEolB d = false) (hd0 : d ≠ 0)
    (cps : List CellP) (h : ∀ cp ∈ cps, CellOk gC d cp) : Clean (lineOf d cps) := by
  intro b hb
  rcases lineOf_bytes cps h b hb with h1 | h1 | rfl
  · exact blank_nonStop b h1
  · exact digitChar_nonStop b h1
  · simp [nonStopB, isStopB, hde, hd0]

theorem lineOf_hasDigit {gC : Bytes → Res (Nat × Nat)} {d : UInt8} (cps : List CellP) (h : ∀ cp ∈ cps, CellOk gC d cp)
    (hl : LastSome cps) : ∃ b ∈ lineOf d cps, isDigitCharB b = true := by
  induction cps with
  | nil => exact absurd hl id
  | cons cp rest ih =>
    cases rest with
    | nil =>
      simp only [LastSome] at hl
      cases hc : cp.1 with
      | none => exact absurd hc hl
      | some lex =>
        obtain ⟨x, r, hx, hxd⟩ := lex_head ((h cp (by simp)).lex lex hc)
        refine ⟨x, ?_, hxd⟩
        simp [lineOf, cellBytes_some cp lex hc, hx]
    | cons cp' rest' =>
      obtain ⟨b, hb, hbd⟩ := ih (fun x hx => h x (by simp [hx])) hl
      exact ⟨b, by simp only [lineOf, List.mem_append, List.mem_cons]; exact Or.inr (Or.inr hb), hbd⟩

theorem lineOf_ne_nil {gC : Bytes → Res (Nat × Nat)} {d : UInt8} (cps : List CellP) (h : ∀ cp ∈ cps, CellOk gC d cp)
    (hl : LastSome cps) : lineOf d cps ≠ [] := by
  obtain ⟨b, hb, _⟩ := lineOf_hasDigit cps h hl
  intro e; rw [e] at hb; simp at hb

/-- the conversion of a rendered non-empty cell -/
theorem cell_conv {gC : Bytes → Res (Nat × Nat)} (hC : CellExact gC) (p1 lex tail : Bytes) (v k : Nat)
    (hlead : SkipsBlanks gC ∨ p1 = []) (hp1 : blanksOnly p1) (hlex : IsLexeme lex)
    (ht : ∀ b, tail.head? = some b → isDelimB b = true) (hv : gC lex = .ok (v, k)) :
    gC (p1 ++ (lex ++ tail)) = .ok (v, p1.length + lex.length) := by
  have hk := (hC lex tail hlex ht).2 v k hv
  subst hk
  rcases hlead with hs | rfl
  · rw [hs p1 lex tail hp1 hlex ht, hv]; rfl
  · simp [(hC lex tail hlex ht).1, hv]

theorem csvCellsS_cell (gC : Bytes → Res (Nat × Nat)) (prm : CsvParam) (fuel : Nat) (s : Bytes) (st : CsvLine)
    (v k : Nat) (rest : Bytes) (hs : s ≠ []) (hc : csvCellS gC prm.delim s = .ok (v, k))
    (hr : (s.drop k).dropWhile (notDelimB prm.delim) = rest) :
    csvCellsS gC prm (fuel + 1) s st =
      if rest.isEmpty && (csvUpdate prm st v (k % 18446744073709551616 != 0)).idx == 0 then .error .check
      else csvCellsS gC prm fuel (rest.drop 1) (csvUpdate prm st v (k % 18446744073709551616 != 0)) := by
  cases s with
  | nil => exact absurd rfl hs
  | cons b s => simp only [csvCellsS, hc, hr, bind, Except.bind]

theorem cellVal_some_ok {gC : Bytes → Res (Nat × Nat)} {lex : Bytes} {o : Option Nat}
    (h : cellVal gC (some lex) = .ok o) : ∃ x k, gC lex = .ok (x, k) ∧ o = some x := by
  simp only [cellVal] at h
  cases hg : gC lex with
  | error e => simp [hg, Except.map] at h
  | ok vk => simp [hg, Except.map] at h; exact ⟨vk.1, vk.2, rfl, h.symm⟩

theorem delim_head {d : UInt8} (hdd : isDelimB d = true) {p : Bytes} (hp : blanksOnly p) (X : Bytes)
    (hX : X = [] ∨ ∃ R, X = d :: R) : ∀ b, (p ++ X).head? = some b → isDelimB b = true := by
  intro b hb
  cases p with
  | nil =>
    rcases hX with rfl | ⟨R, rfl⟩
    · simp at hb
    · simp at hb; subst hb; exact hdd
  | cons x xs => simp at hb; subst hb; exact blank_isDelim _ (hp _ (by simp))

/-- **the cell loop on a rendered line** is the fold of `csvUpdate` over the values of its cells -/
theorem csvCellsS_line {gC : Bytes → Res (Nat × Nat)} (hC : CellExact gC) (prm : CsvParam) {d : UInt8}
    (hd : d.toNat = prm.delim) (hdd : isDelimB d = true) (hde : isEolB d = false) (hd0 : d ≠ 0) :
    ∀ (cps : List CellP) (vals : List (Option Nat)) (st : CsvLine) (fuel : Nat), LastSome cps →
      (∀ cp ∈ cps, CellOk gC d cp) → (cps.map (·.1)).mapM (cellVal gC) = .ok vals →
      (lineOf d cps).length + 1 ≤ fuel → (lineOf d cps).length < 18446744073709551616 →
      (∀ cv ∈ enumF st.col (cps.map (·.1)), cv.2 = none → featP prm cv.1 = true) →
      (csvFold prm st vals).idx ≠ 0 →
      csvCellsS gC prm fuel (lineOf d cps) st = .ok (csvFold prm st vals) := by
  intro cps
  induction cps with
  | nil => intro _ _ _ hl; exact absurd hl id
  | cons cp rest ih =>
    intro vals st fuel hl hok hvals hfuel hlen hnone hidx
    have hcp := hok cp (by simp)
    obtain ⟨o, vals', ho, hvals', rfl⟩ := mapM_cons_ok _ _ _ _ (show (cp.1 :: rest.map (·.1)).mapM (cellVal gC) = .ok vals from hvals)
    have hfold : csvFold prm st (o :: vals') = csvFold prm (csvStep prm st o) vals' := rfl
    cases rest with
    | nil =>
      -- the last cell: not empty
      simp only [LastSome] at hl
      cases hc : cp.1 with
      | none => exact absurd hc hl
      | some lex =>
        rw [hc] at ho
        obtain ⟨x, k, hg, rfl⟩ := cellVal_some_ok ho
        simp [pure, Except.pure] at hvals'
        subst hvals'
        have hlex := hcp.lex lex hc
        have hline : lineOf d [cp] = cp.2.1 ++ (lex ++ cp.2.2) := by
          simp [lineOf, cellBytes_some cp lex hc]
        rw [hline] at hfuel hlen ⊢
        have hclean : Clean (cp.2.1 ++ (lex ++ cp.2.2)) := by rw [← hline]; exact lineOf_clean hde hd0 _ hok
        obtain ⟨y, r, hy, hyd⟩ := lex_head hlex
        have hne : cp.2.1 ++ (lex ++ cp.2.2) ≠ [] := by rw [hy]; simp
        have hcell : csvCellS gC prm.delim (cp.2.1 ++ (lex ++ cp.2.2)) = .ok (x, cp.2.1.length + lex.length) := by
          rw [csvCellS_lex gC hd hdd _ _ _ hcp.lead (fun h => (hcp.blankDelim h).1) hlex, hclean.takeWhile]
          have := cell_conv hC cp.2.1 lex cp.2.2 x k hcp.lead0 hcp.lead hlex
            (by simpa using delim_head hdd hcp.trail [] (Or.inl rfl)) hg
          simpa using this
        have hdrop : ((cp.2.1 ++ (lex ++ cp.2.2)).drop (cp.2.1.length + lex.length)).dropWhile (notDelimB prm.delim) = [] := by
          rw [← List.append_assoc, List.drop_left' (by simp)]
          exact dropWhile_pad hd hcp.trail (fun h => (hcp.blankDelim h).2)
        obtain ⟨f, rfl⟩ : ∃ f, fuel = f + 1 := ⟨fuel - 1, by omega⟩
        have hlexlen : 0 < lex.length := by rw [hy]; simp
        have hpres : ((cp.2.1.length + lex.length) % 18446744073709551616 != 0) = true := by
          simp only [List.length_append] at hlen
          rw [Nat.mod_eq_of_lt (by omega)]; simp only [bne_iff_ne, ne_eq]; omega
        rw [csvCellsS_cell gC prm f _ st x _ [] hne hcell hdrop, hpres]
        have hst : csvUpdate prm st x true = csvFold prm st [some x] := rfl
        rw [hst]
        have hidx' : ((csvFold prm st [some x]).idx == 0) = false := by simpa using hidx
        simp only [List.isEmpty_nil, hidx', Bool.and_false, Bool.false_eq_true, if_false, List.drop_nil]
        obtain ⟨f', rfl⟩ : ∃ f', f = f' + 1 := ⟨f - 1, by simp only [List.length_append] at hfuel; omega⟩
        rfl
    | cons cp' rest' =>
      simp only [LastSome] at hl
      have hok' : ∀ x ∈ cp' :: rest', CellOk gC d x := fun x hx => hok x (by simp [hx])
      have hnone' : ∀ cv ∈ enumF (csvStep prm st o).col ((cp' :: rest').map (·.1)), cv.2 = none → featP prm cv.1 = true := by
        intro cv hcv
        rw [csvStep_col] at hcv
        exact hnone cv (by simp only [List.map_cons, enumF, List.mem_cons] at hcv ⊢; exact Or.inr hcv)
      obtain ⟨f, rfl⟩ : ∃ f, fuel = f + 1 := ⟨fuel - 1, by omega⟩
      cases hc : cp.1 with
      | none =>
        rw [hc] at ho
        simp [cellVal, pure, Except.pure] at ho
        subst ho
        have hline : lineOf d (cp :: cp' :: rest') = d :: lineOf d (cp' :: rest') := by
          simp [lineOf, cellBytes_none cp hc]
        rw [hline] at hfuel hlen ⊢
        -- the guard of fixes/C12-3.diff: the skip loop stops at the delimiter, whatever the conversion would do there
        have hcell : csvCellS gC prm.delim (d :: lineOf d (cp' :: rest')) = .ok (0, 0) := csvCellS_delim gC hd _
        have hdrop : ((d :: lineOf d (cp' :: rest')).drop 0).dropWhile (notDelimB prm.delim) = d :: lineOf d (cp' :: rest') := by
          simp [notDelimB_self hd]
        rw [csvCellsS_cell gC prm f _ st 0 0 _ (by simp) hcell hdrop]
        have hfeat : featP prm st.col = true := hnone (st.col, none) (by simp [enumF, hc]) rfl
        have hupd : csvUpdate prm st 0 (0 % 18446744073709551616 != 0) = csvStep prm st none :=
          csvUpdate_absent prm st 0 hfeat
        rw [hupd]
        simp only [List.isEmpty_cons, Bool.false_and, Bool.false_eq_true, if_false, List.drop_one, List.tail_cons]
        rw [hfold]
        exact ih vals' _ f hl hok' hvals' (by simp only [List.length_cons] at hfuel; omega)
          (by simp only [List.length_cons] at hlen; omega) hnone' (by rw [← hfold]; exact hidx)
      | some lex =>
        rw [hc] at ho
        obtain ⟨x, k, hg, rfl⟩ := cellVal_some_ok ho
        have hlex := hcp.lex lex hc
        have hline : lineOf d (cp :: cp' :: rest') = cp.2.1 ++ (lex ++ (cp.2.2 ++ d :: lineOf d (cp' :: rest'))) := by
          simp [lineOf, cellBytes_some cp lex hc]
        rw [hline] at hfuel hlen ⊢
        have hclean : Clean (cp.2.1 ++ (lex ++ (cp.2.2 ++ d :: lineOf d (cp' :: rest')))) := by
          rw [← hline]; exact lineOf_clean hde hd0 _ hok
        obtain ⟨y, r, hy, hyd⟩ := lex_head hlex
        have hne : cp.2.1 ++ (lex ++ (cp.2.2 ++ d :: lineOf d (cp' :: rest'))) ≠ [] := by rw [hy]; simp
        have hcell : csvCellS gC prm.delim (cp.2.1 ++ (lex ++ (cp.2.2 ++ d :: lineOf d (cp' :: rest')))) =
            .ok (x, cp.2.1.length + lex.length) := by
          rw [csvCellS_lex gC hd hdd _ _ _ hcp.lead (fun h => (hcp.blankDelim h).1) hlex, hclean.takeWhile]
          exact cell_conv hC cp.2.1 lex _ x k hcp.lead0 hcp.lead hlex
            (delim_head hdd hcp.trail _ (Or.inr ⟨_, rfl⟩)) hg
        have hdrop : ((cp.2.1 ++ (lex ++ (cp.2.2 ++ d :: lineOf d (cp' :: rest')))).drop (cp.2.1.length + lex.length)).dropWhile
            (notDelimB prm.delim) = d :: lineOf d (cp' :: rest') := by
          rw [← List.append_assoc, List.drop_left' (by simp)]
          exact dropWhile_pad_delim hd hcp.trail (fun h => (hcp.blankDelim h).2) _
        have hlexlen : 0 < lex.length := by rw [hy]; simp
        have hpres : ((cp.2.1.length + lex.length) % 18446744073709551616 != 0) = true := by
          simp only [List.length_append] at hlen
          rw [Nat.mod_eq_of_lt (by omega)]; simp only [bne_iff_ne, ne_eq]; omega
        rw [csvCellsS_cell gC prm f _ st x _ _ hne hcell hdrop, hpres]
        have hst : csvUpdate prm st x true = csvStep prm st (some x) := rfl
        rw [hst]
        simp only [List.isEmpty_cons, Bool.false_and, Bool.false_eq_true, if_false, List.drop_one, List.tail_cons]
        rw [hfold]
        exact ih vals' _ f hl hok' hvals'
          (by simp only [List.length_append, List.length_cons] at hfuel; omega)
          (by simp only [List.length_append, List.length_cons] at hlen; omega) hnone' (by rw [← hfold]; exact hidx)

/-! ## part 3: lines and documents -/

theorem clean_noEol' {s : Bytes} (h : Clean s) : ∀ b ∈ s, isEolB b = false := by
  intro b hb
  have := h b hb
  simp [nonStopB, isStopB] at this
  exact this.2


/-- a rendered line does not start with a UTF-8 BOM: its bytes are blanks, number characters and one delimiter -/
theorem dropBOM_of_bytes (l : Bytes) (d : UInt8)
    (h : ∀ b ∈ l, isBlankB b = true ∨ isDigitCharB b = true ∨ b = d) : dropBOM l = l := by
  have key : ∀ x : UInt8, (isBlankB x = true ∨ isDigitCharB x = true ∨ x = d) → x.toNat = 239 ∨ x.toNat = 187 → x = d := by
    intro x hx hx2
    rcases hx with h1 | h1 | h1
    · simp [isBlankB, Gen.Parse.isblank] at h1; omega
    · simp [isDigitCharB, Gen.Parse.isdigitchars] at h1; omega
    · exact h1
  unfold dropBOM
  split
  · rename_i hcond
    exfalso
    rcases l with _ | ⟨a, _ | ⟨b, _ | ⟨c, l⟩⟩⟩ <;> simp [Gen.Parse.bomLen, Gen.Parse.bomBytes] at hcond
    have ha := key a (h a (by simp)) (Or.inl hcond.1)
    have hb := key b (h b (by simp)) (Or.inr hcond.2.1)
    have : a.toNat = b.toNat := by rw [ha, hb]
    omega
  · rfl

/-- the cells of a row fit the label / weight columns (a decidable condition on the table row): at most 2^32
cells; the cells in the label and in the weight column are not empty; the weight column is not the label column;
some column holds a feature -/
def CsvRowFits (prm : CsvParam) (r : List (Option Bytes)) : Prop :=
  r.length ≤ 4294967296 ∧
  (∀ cv ∈ enumF 0 r, labP prm cv.1 = true → cv.2 ≠ none) ∧
  (∀ cv ∈ enumF 0 r, wgtP prm cv.1 = true → cv.2 ≠ none ∧ labP prm cv.1 = false) ∧
  (∃ cv ∈ enumF 0 r, featP prm cv.1 = true)

instance (prm : CsvParam) (r : List (Option Bytes)) : Decidable (CsvRowFits prm r) := by
  unfold CsvRowFits; infer_instance

theorem cellVal_rel (gC : Bytes → Res (Nat × Nat)) (cells : List (Option Bytes)) :
    ∀ (vals : List (Option Nat)) (c : Nat), cells.mapM (cellVal gC) = .ok vals →
      (∀ cv ∈ enumF c vals, ∃ cb, (cv.1, cb) ∈ enumF c cells ∧ (cv.2 = none → cb = none)) ∧
      (∀ cb ∈ enumF c cells, ∃ v, (cb.1, v) ∈ enumF c vals) ∧ vals.length = cells.length := by
  induction cells with
  | nil => intro vals c h; simp [pure, Except.pure] at h; subst h; simp [enumF]
  | cons x xs ih =>
    intro vals c h
    obtain ⟨o, vals', ho, hvals', rfl⟩ := mapM_cons_ok _ _ _ _ h
    obtain ⟨i1, i2, i3⟩ := ih vals' (c + 1) hvals'
    refine ⟨?_, ?_, by simp [i3]⟩
    · intro cv hcv
      simp only [enumF, List.mem_cons] at hcv
      rcases hcv with rfl | hcv
      · refine ⟨x, by simp [enumF], ?_⟩
        intro hn
        cases x with
        | none => rfl
        | some lex => obtain ⟨_, _, _, e⟩ := cellVal_some_ok ho; simp only at hn; rw [e] at hn; cases hn
      · obtain ⟨cb, h1, h2⟩ := i1 cv hcv
        exact ⟨cb, by simp [enumF, h1], h2⟩
    · intro cb hcb
      simp only [enumF, List.mem_cons] at hcb
      rcases hcb with rfl | hcb
      · exact ⟨o, by simp [enumF]⟩
      · obtain ⟨v, hv⟩ := i2 cb hcb
        exact ⟨v, by simp [enumF, hv]⟩

theorem colsOk_of_fits {gC : Bytes → Res (Nat × Nat)} {prm : CsvParam} {cells : List (Option Bytes)}
    {vals : List (Option Nat)} (hv : cells.mapM (cellVal gC) = .ok vals) (hf : CsvRowFits prm cells) :
    ColsOk prm 0 vals ∧ featCells prm 0 vals ≠ [] ∧
      (∀ cv ∈ enumF 0 cells, cv.2 = none → featP prm cv.1 = true) := by
  obtain ⟨h1, h2, h3, cf, hcf, hcff⟩ := hf
  obtain ⟨r1, r2, r3⟩ := cellVal_rel gC cells vals 0 hv
  refine ⟨⟨by omega, ?_, ?_⟩, ?_, ?_⟩
  · intro cv hcv hl hn
    obtain ⟨cb, hcb, himp⟩ := r1 cv hcv
    exact h2 (cv.1, cb) hcb hl (himp hn)
  · intro cv hcv hw
    obtain ⟨cb, hcb, himp⟩ := r1 cv hcv
    exact ⟨fun hn => (h3 (cv.1, cb) hcb hw).1 (himp hn), (h3 (cv.1, cb) hcb hw).2⟩
  · obtain ⟨v, hv'⟩ := r2 cf hcf
    intro e
    have : v ∈ featCells prm 0 vals := by
      simp only [featCells, List.mem_map, List.mem_filter]
      exact ⟨(cf.1, v), ⟨hv', hcff⟩, rfl⟩
    rw [e] at this; simp at this
  · intro cv hcv hn
    have hl : labP prm cv.1 = false := by
      cases hh : labP prm cv.1 with
      | false => rfl
      | true => exact absurd hn (h2 cv hcv hh)
    have hw : wgtP prm cv.1 = false := by
      cases hh : wgtP prm cv.1 with
      | false => rfl
      | true => exact absurd hn (h3 cv hcv hh).1
    simp only [labP, beq_eq_false_iff_ne, ne_eq] at hl
    simp only [wgtP] at hw
    simp [featP, hl, hw]

theorem csvLineS_line {gC : Bytes → Res (Nat × Nat)} (hC : CellExact gC) (prm : CsvParam) {d : UInt8}
    (hd : d.toNat = prm.delim) (hdd : isDelimB d = true) (hde : isEolB d = false) (hd0 : d ≠ 0)
    (cps : List CellP) (vals : List (Option Nat)) (hl : LastSome cps) (hok : ∀ cp ∈ cps, CellOk gC d cp)
    (hvals : (cps.map (·.1)).mapM (cellVal gC) = .ok vals) (hfit : CsvRowFits prm (cps.map (·.1)))
    (hlen : (lineOf d cps).length < 18446744073709551616) :
    csvLineS gC prm (lineOf d cps) = .ok (some (csvFold prm {} vals)) := by
  obtain ⟨hcols, hfeat, hnone⟩ := colsOk_of_fits hvals hfit
  have hidx : (csvFold prm {} vals).idx ≠ 0 := by
    rw [(csvFold_feats prm vals {}).2]
    have : (featCells prm ({} : CsvLine).col vals).length ≠ 0 := fun e => hfeat (List.eq_nil_of_length_eq_zero e)
    have h0 : ({} : CsvLine).idx = 0 := rfl
    omega
  have hloop := csvCellsS_line hC prm hd hdd hde hd0 cps vals {} ((lineOf d cps).length + 1) hl hok hvals
    (Nat.le_refl _) hlen hnone hidx
  obtain ⟨c, l', hcl⟩ : ∃ c l', lineOf d cps = c :: l' := by
    cases h : lineOf d cps with
    | nil => exact absurd h (lineOf_ne_nil cps hok hl)
    | cons c l' => exact ⟨c, l', rfl⟩
  unfold csvLineS
  rw [dropBOM_of_bytes _ d (lineOf_bytes cps hok)]
  rw [hcl] at hloop ⊢
  simp only [hloop, Except.map]

theorem csvRows_nil {conv : Conv} {gR gI gQ : Bytes → Res Nat} {gC : Bytes → Res (Nat × Nat)}
    (hL : conv.LocalWith gR gI gQ gC) (prm : CsvParam) : csvRows Fixes.repaired conv prm [] = .ok [] := by
  have F := csv_lineFormat hL prm
  rw [F.rows_single [] (by simp) (by simp) (by simp), single, F.nil]; simp [Except.bind, rowsOf_build_nil]

/-- **one rendered line, parsed on its own**, gives exactly the row of its cell values -/
theorem csv_line_rows {conv : Conv} {gR gI gQ : Bytes → Res Nat} {gC : Bytes → Res (Nat × Nat)}
    (hL : conv.LocalWith gR gI gQ gC) (hC : CellExact gC) (prm : CsvParam) {d : UInt8}
    (hd : d.toNat = prm.delim) (hdd : isDelimB d = true) (hde : isEolB d = false) (hd0 : d ≠ 0)
    (cps : List CellP) (vals : List (Option Nat)) (hl : LastSome cps) (hok : ∀ cp ∈ cps, CellOk gC d cp)
    (hvals : (cps.map (·.1)).mapM (cellVal gC) = .ok vals) (hfit : CsvRowFits prm (cps.map (·.1)))
    (hlen : (lineOf d cps).length + 2 < 18446744073709551616)
    (hnan : ∀ w, (csvRowOfVals prm vals).weight = some w → isNaNBits w = false) :
    csvRows Fixes.repaired conv prm (lineOf d cps) = .ok [csvRowOfVals prm vals] := by
  have F := csv_lineFormat hL prm
  have hclean := lineOf_clean hde hd0 cps hok
  have hline := csvLineS_line hC prm hd hdd hde hd0 cps vals hl hok hvals hfit (by omega)
  rw [F.rows_single _ (fun b hb => by
        have := hclean b hb
        simp only [nonStopB, isStopB, Bool.not_eq_true', Bool.or_eq_false_iff, beq_eq_false_iff_ne, ne_eq] at this
        simp [nonNulB, this.1]) hlen (clean_noEol' hclean), single]
  simp only [csvRecS, clean_dropEol _ hclean, hline, Except.map, Except.bind, Option.map, Option.toList_some]
  have hag : AgreeRecs [csvRec (csvFold prm {} vals)] :=
    agreeRecs_single _ (Or.inl (by simp [csvRec])) (Or.inr rfl)
  rw [rowsOf_build _ hag (by simp)]
  simp only [List.map_cons, List.map_nil]
  rw [toRow_csvFold prm vals (colsOk_of_fits hvals hfit).1 hnan]

theorem joinPieces_cons (p : Bytes × Bytes) (ps : List (Bytes × Bytes)) :
    joinPieces (p :: ps) = p.1 ++ p.2 ++ joinPieces ps := by
  simp [joinPieces]

theorem eolStr_nonNul {e : Bytes} (h : isEolStr e) : ∀ b ∈ e, b ≠ 0 := by
  intro b hb h0
  have := h.2 b hb
  subst h0
  revert this; decide

/-- the rendered rows of a table with their end-of-line strings -/
def csvPieces (d : UInt8) (Z : List (List CellP × Bytes)) : List (Bytes × Bytes) :=
  Z.map fun z => (lineOf d z.1, z.2)

/-- **a document of rendered lines** is parsed to the rows of the cell values, in order -/
theorem csv_doc_rows {conv : Conv} {gR gI gQ : Bytes → Res Nat} {gC : Bytes → Res (Nat × Nat)}
    (hL : conv.LocalWith gR gI gQ gC) (hC : CellExact gC) (prm : CsvParam) {d : UInt8}
    (hd : d.toNat = prm.delim) (hdd : isDelimB d = true) (hde : isEolB d = false) (hd0 : d ≠ 0)
    (Z : List (List CellP × Bytes)) (valss : List (List (Option Nat)))
    (hZ : ∀ z ∈ Z, LastSome z.1 ∧ (∀ cp ∈ z.1, CellOk gC d cp) ∧ CsvRowFits prm (z.1.map (·.1)) ∧ isEolStr z.2)
    (hv : Z.mapM (fun z => (z.1.map (·.1)).mapM (cellVal gC)) = .ok valss)
    (hag : AgreeRows (valss.map (csvRowOfVals prm)))
    (hnan : ∀ r ∈ valss.map (csvRowOfVals prm), ∀ w, r.weight = some w → isNaNBits w = false)
    (hb : (joinPieces (csvPieces d Z)).length + 2 < 18446744073709551616) :
    csvRows Fixes.repaired conv prm (joinPieces (csvPieces d Z)) = .ok (valss.map (csvRowOfVals prm)) := by
  have F := csv_lineFormat hL prm
  -- the pieces one by one
  have hpieces : ∀ (Z : List (List CellP × Bytes)) (valss : List (List (Option Nat))),
      (∀ z ∈ Z, LastSome z.1 ∧ (∀ cp ∈ z.1, CellOk gC d cp) ∧ CsvRowFits prm (z.1.map (·.1)) ∧ isEolStr z.2) →
      Z.mapM (fun z => (z.1.map (·.1)).mapM (cellVal gC)) = .ok valss →
      (∀ r ∈ valss.map (csvRowOfVals prm), ∀ w, r.weight = some w → isNaNBits w = false) →
      (joinPieces (csvPieces d Z)).length + 2 < 18446744073709551616 →
      (csvPieces d Z).mapM (fun p => csvRows Fixes.repaired conv prm p.1) =
        .ok (valss.map fun vals => [csvRowOfVals prm vals]) := by
    intro Z
    induction Z with
    | nil => intro valss _ h _ _; simp [pure, Except.pure] at h; subst h; rfl
    | cons z Z ih =>
      intro valss hZ h hnan hb
      obtain ⟨vals, valss', hvals, hvalss', rfl⟩ := mapM_cons_ok _ _ _ _ h
      obtain ⟨h1, h2, h3, _⟩ := hZ z (by simp)
      have hb' : (lineOf d z.1).length + z.2.length + (joinPieces (csvPieces d Z)).length + 2 < 18446744073709551616 := by
        simp only [csvPieces, List.map_cons, joinPieces_cons, List.length_append] at hb ⊢; exact hb
      have hrow := csv_line_rows hL hC prm hd hdd hde hd0 z.1 vals h1 h2 hvals h3 (by omega)
        (hnan _ (by simp))
      have hrest := ih valss' (fun x hx => hZ x (by simp [hx])) hvalss'
        (fun r hr => hnan r (by simp only [List.map_cons, List.mem_cons]; exact Or.inr hr)) (by omega)
      simp only [csvPieces, List.map_cons, List.mapM_cons, hrow, bind, Except.bind, pure, Except.pure] at hrest ⊢
      rw [hrest]
  have hR := hpieces Z valss hZ hv hnan hb
  have hpw : ∀ p ∈ csvPieces d Z, (∀ b ∈ p.1, isEolB b = false) ∧ isEolStr p.2 := by
    intro p hp
    obtain ⟨z, hz, rfl⟩ := List.mem_map.mp hp
    obtain ⟨_, h2, _, h4⟩ := hZ z hz
    exact ⟨clean_noEol' (lineOf_clean hde hd0 z.1 h2), h4⟩
  obtain ⟨rss, hl, hfl⟩ := rows_pieces _ (csvRows_nil hL prm) _ _ hR hpw
  have hfl' : rss.flatten = valss.map (csvRowOfVals prm) := by
    rw [hfl]
    clear hR hfl hv hag hnan
    induction valss with
    | nil => rfl
    | cons v vs ih => simp [ih]
  have hnn : ∀ b ∈ joinPieces (csvPieces d Z), nonNulB b = true := by
    intro b hb'
    simp only [joinPieces, csvPieces, List.mem_flatMap, List.mem_map] at hb'
    obtain ⟨p, ⟨z, hz, rfl⟩, hbp⟩ := hb'
    obtain ⟨_, h2, _, h4⟩ := hZ z hz
    simp only [List.mem_append] at hbp
    rcases hbp with hbp | hbp
    · have := lineOf_clean hde hd0 z.1 h2 b hbp
      simp only [nonStopB, isStopB, Bool.not_eq_true', Bool.or_eq_false_iff, beq_eq_false_iff_ne, ne_eq] at this
      simp [nonNulB, this.1]
    · simpa [nonNulB] using eolStr_nonNul h4 b hbp
  rw [F.concat_of_lines _ hnn hb rss hl (by rw [hfl']; exact hag), hfl']

/-! ### tables -/

theorem mem_zip_zip {α β γ : Type} (xs : List α) (ys : List β) (zs : List γ) (a : α) (b : β) (c : γ)
    (h : (a, (b, c)) ∈ xs.zip (ys.zip zs)) : (a, c) ∈ xs.zip zs ∧ b ∈ ys := by
  induction xs generalizing ys zs with
  | nil => simp at h
  | cons x xs ih =>
    cases ys with
    | nil => simp at h
    | cons y ys =>
      cases zs with
      | nil => simp at h
      | cons z zs =>
        simp only [List.zip_cons_cons, List.mem_cons, Prod.mk.injEq] at h ⊢
        rcases h with ⟨rfl, rfl, rfl⟩ | h
        · exact ⟨Or.inl ⟨rfl, rfl⟩, Or.inl rfl⟩
        · have := ih ys zs h
          exact ⟨Or.inr this.1, Or.inr this.2⟩

theorem mapM_ok_map {α β : Type} (f : α → β) (xs : List α) :
    xs.mapM (fun x => (.ok (f x) : Res β)) = .ok (xs.map f) := by
  induction xs with
  | nil => rfl
  | cons x xs ih => simp [List.mapM_cons, ih, bind, Except.bind, pure, Except.pure]

/-- the rendered document of a table: row `i` with the pads `pads[i]` around its cells and the end-of-line
string `eols[i]` -/
def csvDoc (d : UInt8) (T : List (List (Option Bytes))) (eols : List Bytes) (pads : List (List (Bytes × Bytes))) : Bytes :=
  joinPieces (csvPieces d ((T.zip (eols.zip pads)).map fun r => (r.1.zip r.2.2, r.2.1)))

/-- **a rendered table** is parsed to the rows of its cell values, in order -/
theorem csv_table_rows {conv : Conv} {gR gI gQ : Bytes → Res Nat} {gC : Bytes → Res (Nat × Nat)}
    (hL : conv.LocalWith gR gI gQ gC) (hC : CellExact gC) (prm : CsvParam) {d : UInt8}
    (hd : d.toNat = prm.delim) (hdd : isDelimB d = true) (hde : isEolB d = false) (hd0 : d ≠ 0)
    (T : List (List (Option Bytes))) (eols : List Bytes) (pads : List (List (Bytes × Bytes)))
    (hel : eols.length = T.length) (hpl : pads.length = T.length) (heol : ∀ e ∈ eols, isEolStr e)
    (hT : ∀ r ∈ T, r ≠ [] ∧ r.getLast? ≠ some none ∧ ∀ c ∈ r, ∀ lex, c = some lex → IsLexeme lex)
    (hpad : ∀ ps ∈ pads, ∀ p ∈ ps, blanksOnly p.1 ∧ blanksOnly p.2 ∧ (isBlankB d = true → p.1 = [] ∧ p.2 = []))
    (hpw : ∀ z ∈ T.zip pads, z.1.length ≤ z.2.length)
    (hlead : SkipsBlanks gC ∨ ∀ ps ∈ pads, ∀ p ∈ ps, p.1 = [])
    (hfit : ∀ r ∈ T, CsvRowFits prm r)
    (valss : List (List (Option Nat))) (hv : T.mapM (fun r => r.mapM (cellVal gC)) = .ok valss)
    (hag : AgreeRows (valss.map (csvRowOfVals prm)))
    (hnan : ∀ r ∈ valss.map (csvRowOfVals prm), ∀ w, r.weight = some w → isNaNBits w = false)
    (hb : (csvDoc d T eols pads).length + 2 < 18446744073709551616) :
    csvRows Fixes.repaired conv prm (csvDoc d T eols pads) = .ok (valss.map (csvRowOfVals prm)) := by
  have hmem : ∀ te ∈ T.zip (eols.zip pads), te.1 ∈ T ∧ te.2.1 ∈ eols ∧ te.2.2 ∈ pads ∧ te.1.length ≤ te.2.2.length := by
    intro te hte
    obtain ⟨r, e, ps⟩ := te
    obtain ⟨h1, h2⟩ := mem_zip_zip T eols pads r e ps hte
    exact ⟨(List.of_mem_zip h1).1, h2, (List.of_mem_zip h1).2, hpw (r, ps) h1⟩
  have hfst : ∀ te ∈ T.zip (eols.zip pads), (te.1.zip te.2.2).map (·.1) = te.1 := fun te hte =>
    List.map_fst_zip (hmem te hte).2.2.2
  unfold csvDoc
  refine csv_doc_rows hL hC prm hd hdd hde hd0 _ valss ?_ ?_ hag hnan hb
  · intro z hz
    obtain ⟨te, hte, rfl⟩ := List.mem_map.mp hz
    obtain ⟨m1, m2, m3, m4⟩ := hmem te hte
    obtain ⟨t1, t2, t3⟩ := hT te.1 m1
    simp only
    rw [hfst te hte]
    refine ⟨lastSome_of_getLast _ ?_ (by rw [hfst te hte]; exact t2), ?_, hfit te.1 m1, heol te.2.1 m2⟩
    · intro e
      have := hfst te hte
      rw [e] at this
      exact t1 this.symm
    · intro cp hcp
      obtain ⟨c1, c2⟩ := List.of_mem_zip hcp
      obtain ⟨p1, p2, p3⟩ := hpad te.2.2 m3 cp.2 c2
      refine ⟨p1, p2, p3, fun lex hl => t3 cp.1 c1 lex hl, ?_⟩
      rcases hlead with h | h
      · exact Or.inl h
      · exact Or.inr (h te.2.2 m3 cp.2 c2)
  · rw [mapM_map']
    simp only
    rw [mapM_congr _ (fun te => te.1.mapM (cellVal gC)) _ (fun te hte => by rw [hfst te hte])]
    have := mapM_map' (fun te : List (Option Bytes) × Bytes × List (Bytes × Bytes) => te.1)
      (fun r => r.mapM (cellVal gC)) (T.zip (eols.zip pads))
    rw [← this, List.map_fst_zip (by simp only [List.length_zip]; omega)]
    exact hv

/-! ### a concrete cell conversion that satisfies the contracts (non-vacuity of C12_csv) -/

def isDecB (b : UInt8) : Bool := 48 ≤ b.toNat && b.toNat ≤ 57
/-- decimal value of the leading decimal digits -/
def decVal (s : Bytes) : Nat := (s.takeWhile isDecB).foldl (fun a b => a * 10 + (b.toNat - 48)) 0
/-- the number token behind leading blanks -/
def numTok (r : Bytes) : Bytes := (r.dropWhile isBlankB).takeWhile isDigitCharB
/-- a strtof-like cell conversion: skip blanks, consume the number characters; nothing consumed when there are none -/
def gCBlank (r : Bytes) : Res (Nat × Nat) :=
  .ok (decVal (numTok r), if (numTok r).isEmpty then 0 else (r.takeWhile isBlankB).length + (numTok r).length)
/-- … as a pointer-level conversion (local by construction) -/
def cellBlank (mem : Bytes) (p : Nat) : Res (Nat × Nat) := (gCBlank (runAt mem p)).map fun vk => (vk.1, p + vk.2)

theorem numTok_lex (bl lex tail : Bytes) (hbl : blanksOnly bl) (hlex : IsLexeme lex)
    (ht : ∀ b, tail.head? = some b → isDelimB b = true) :
    numTok (bl ++ (lex ++ tail)) = lex ∧ (bl ++ (lex ++ tail)).takeWhile isBlankB = bl := by
  obtain ⟨y, r, hy, hyd⟩ := lex_head hlex
  have hnb : ∀ b, (lex ++ tail).head? = some b → isBlankB b = false := by
    intro b hb; rw [hy] at hb; simp at hb; subst hb; exact digit_notBlank _ hyd
  constructor
  · unfold numTok
    rw [dropWhile_blanks bl _ hbl hnb, takeWhile_append_stop _ _ _ (fun b hb => delim_notDigit b (ht b hb))]
    exact takeWhile_all _ _ hlex.2
  · rw [takeWhile_append_stop _ _ _ hnb]
    exact takeWhile_all _ _ hbl

theorem gCBlank_skips : SkipsBlanks gCBlank := by
  intro bl lex tail hbl hlex ht
  obtain ⟨h1, h2⟩ := numTok_lex bl lex tail hbl hlex ht
  obtain ⟨h3, h4⟩ := numTok_lex [] lex [] (by intro b hb; simp at hb) hlex (by simp)
  simp only [List.nil_append, List.append_nil] at h3 h4
  have hne : lex.isEmpty = false := by cases lex with | nil => exact absurd rfl hlex.1 | cons _ _ => rfl
  simp [gCBlank, h1, h2, h3, h4, hne, Except.map]

theorem gCBlank_exact : CellExact gCBlank := by
  intro lex tail hlex ht
  obtain ⟨h1, h2⟩ := numTok_lex [] lex tail (by intro b hb; simp at hb) hlex ht
  obtain ⟨h3, h4⟩ := numTok_lex [] lex [] (by intro b hb; simp at hb) hlex (by simp)
  simp only [List.nil_append, List.append_nil] at h1 h2 h3 h4
  have hne : lex.isEmpty = false := by cases lex with | nil => exact absurd rfl hlex.1 | cons _ _ => rfl
  constructor
  · simp [gCBlank, h1, h2, h3, h4]
  · intro v k hk
    simp [gCBlank, h3, h4, hne] at hk
    exact hk.2.symm

end DmlcModel.Parse
