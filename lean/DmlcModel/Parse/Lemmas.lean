/-
Pointer loops of the Parse model as list functions: the segment invariant `At`, the specification
of `scan` / `scanRd` / `byteAt` / `IgnoreCommentAndBlank`, the token run seen by a conversion, and
the character-class facts (spec lemmas of the Gen items) the parsers rely on.
-/
import DmlcModel.Parse.Model

namespace DmlcModel.Parse
open DmlcModel

/-! ## Gen character classes -/

/-- bytes at which a conversion certainly stops: NUL and the end-of-line bytes -/
def isStopB (b : UInt8) : Bool := b == 0 || isEolB b
def nonStopB (b : UInt8) : Bool := !isStopB b
/-- white space a conversion may skip without leaving the line (space, \t, \v, \f) -/
def isLineSpaceB (b : UInt8) : Bool := b == 32 || b == 9 || b == 11 || b == 12

theorem isEolB_iff (b : UInt8) : isEolB b = true ↔ b = 10 ∨ b = 13 := by
  simp [isEolB, Gen.Parse.backIsEol, ← UInt8.toNat_inj]

theorem svmNotEol_eq (b : UInt8) : Gen.Parse.svmNotEol b.toNat = !isEolB b := by
  simp [isEolB, Gen.Parse.backIsEol, Gen.Parse.svmNotEol, bne]

theorem fmNotEol_eq (b : UInt8) : Gen.Parse.fmNotEol b.toNat = !isEolB b := by
  simp [isEolB, Gen.Parse.backIsEol, Gen.Parse.fmNotEol, bne]

theorem csvNotEol_eq (b : UInt8) : Gen.Parse.csvNotEol b.toNat = !isEolB b := by
  simp [isEolB, Gen.Parse.backIsEol, Gen.Parse.csvNotEol, bne]

theorem csvLeadIsEol_eq (b : UInt8) : Gen.Parse.csvLeadIsEol b.toNat = isEolB b := by
  simp [isEolB, Gen.Parse.backIsEol, Gen.Parse.csvLeadIsEol]

theorem csvTrailIsEol_eq (b : UInt8) : Gen.Parse.csvTrailIsEol b.toNat = isEolB b := by
  simp [isEolB, Gen.Parse.backIsEol, Gen.Parse.csvTrailIsEol]

theorem digitChar_nonStop (b : UInt8) (h : isDigitCharB b = true) : nonStopB b = true := by
  simp [isDigitCharB, Gen.Parse.isdigitchars, nonStopB, isStopB, isEolB, Gen.Parse.backIsEol, ← UInt8.toNat_inj] at *
  omega

theorem digitChar_nonSpace (b : UInt8) (h : isDigitCharB b = true) : isLineSpaceB b = false := by
  simp [isDigitCharB, Gen.Parse.isdigitchars, isLineSpaceB, ← UInt8.toNat_inj] at *
  omega

theorem digitChar_notEol (b : UInt8) (h : isDigitCharB b = true) : isEolB b = false := by
  simp [isDigitCharB, Gen.Parse.isdigitchars, isEolB, Gen.Parse.backIsEol] at *
  omega

theorem eol_notDigitChar (b : UInt8) (h : isEolB b = true) : notDigitCharB b = true := by
  simp [notDigitCharB, Gen.Parse.isdigitchars, isEolB, Gen.Parse.backIsEol] at *
  omega

/-! ## segments -/

/-- `s` is the segment `[p, stop)` of `mem` -/
def At (mem : Bytes) (p stop : Nat) (s : Bytes) : Prop :=
  mem.drop p = s ++ mem.drop stop ∧ stop = p + s.length

theorem At.eq_stop_iff {mem : Bytes} {p stop : Nat} {s : Bytes} (h : At mem p stop s) : p = stop ↔ s = [] := by
  have := h.2
  constructor
  · intro e; apply List.eq_nil_of_length_eq_zero; omega
  · intro e; subst e; simp at this; omega

theorem At.le_length {mem : Bytes} {p stop : Nat} {s : Bytes} (h : At mem p stop s) (hs : stop ≤ mem.length) :
    p ≤ stop := by have := h.2; omega

theorem At.drop {mem : Bytes} {p stop : Nat} {s : Bytes} (h : At mem p stop s) (k : Nat) (hk : k ≤ s.length) :
    At mem (p + k) stop (s.drop k) := by
  refine ⟨?_, ?_⟩
  · rw [← List.drop_drop, h.1, List.drop_append_of_le_length hk]
  · have := h.2; simp; omega

theorem At.tail {mem : Bytes} {p stop : Nat} {b : UInt8} {s : Bytes} (h : At mem p stop (b :: s)) :
    At mem (p + 1) stop s := by
  simpa using h.drop 1 (by simp)

theorem At.nil (mem : Bytes) (stop : Nat) : At mem stop stop [] := ⟨by simp, by simp⟩

/-- the whole block -/
theorem At.whole (t post : Bytes) : At (t ++ post) 0 t.length t := by
  refine ⟨?_, by simp⟩
  simp

theorem drop_takeWhile_length (pred : UInt8 → Bool) (s : Bytes) :
    s.drop (s.takeWhile pred).length = s.dropWhile pred := by
  induction s with
  | nil => rfl
  | cons b s ih => by_cases hb : pred b <;> simp [List.takeWhile, List.dropWhile, hb, ih]

theorem takeWhile_length_le (pred : UInt8 → Bool) (s : Bytes) : (s.takeWhile pred).length ≤ s.length := by
  induction s with
  | nil => simp
  | cons b s ih => by_cases hb : pred b <;> simp [List.takeWhile, hb]; omega

/-! ## scan -/

theorem scanGo_spec (pred : UInt8 → Bool) (stop : Nat) (s rest : Bytes) (p : Nat) (hstop : stop = p + s.length) :
    scanGo pred stop (s ++ rest) p = .ok (p + (s.takeWhile pred).length) := by
  induction s generalizing p with
  | nil =>
    have : p = stop := by simp at hstop; omega
    cases rest <;> simp [scanGo, this]
  | cons b s ih =>
    have hne : p ≠ stop := by simp at hstop; omega
    by_cases hb : pred b
    · simp only [List.cons_append, scanGo, hne, if_false, hb, if_true, List.takeWhile_cons_of_pos hb, List.length_cons]
      rw [ih (p + 1) (by simp at hstop; omega)]
      congr 1; omega
    · simp [scanGo, hne, hb, List.takeWhile]

theorem scan_at {pred : UInt8 → Bool} {mem : Bytes} {p stop : Nat} {s : Bytes} (h : At mem p stop s) :
    ∃ q, scan pred mem stop p = .ok q ∧ At mem q stop (s.dropWhile pred) := by
  refine ⟨p + (s.takeWhile pred).length, ?_, ?_⟩
  · unfold scan; rw [h.1]; exact scanGo_spec pred stop s _ p h.2
  · rw [← drop_takeWhile_length]
    exact h.drop _ (takeWhile_length_le _ _)

theorem byteAt_at {mem : Bytes} {p stop : Nat} {b : UInt8} {s : Bytes} (h : At mem p stop (b :: s)) :
    byteAt mem p = .ok b := by
  have : mem[p]? = some b := by
    have h1 : (mem.drop p)[0]? = some b := by rw [h.1]; simp
    simpa using h1
  simp [byteAt, this]

/-- `mem[stop]` is a NUL or an end-of-line byte, or lies outside `mem` -/
def Term (mem : Bytes) (stop : Nat) : Prop := ∀ b, mem[stop]? = some b → isStopB b = true

theorem scanRdGo_spec (pred : UInt8 → Bool) (stop : Nat) (s : Bytes) (t : UInt8) (rest : Bytes) (p : Nat)
    (hstop : stop = p + s.length) :
    scanRdGo pred stop (s ++ t :: rest) p = .ok (p + (s.takeWhile pred).length) := by
  induction s generalizing p with
  | nil =>
    have : p = stop := by simp at hstop; omega
    simp [scanRdGo, this]
  | cons b s ih =>
    have hne : p ≠ stop := by simp at hstop; omega
    by_cases hb : pred b
    · simp only [List.cons_append, scanRdGo, hb, Bool.true_and, bne_iff_ne, ne_eq, hne, not_false_eq_true,
        decide_true, if_true, List.takeWhile_cons_of_pos hb, List.length_cons]
      rw [ih (p + 1) (by simp at hstop; omega)]
      congr 1; omega
    · simp [scanRdGo, hb, List.takeWhile]

/-- `scanRd` needs the byte at `stop` to be readable -/
theorem scanRd_at {pred : UInt8 → Bool} {mem : Bytes} {p stop : Nat} {s : Bytes} (h : At mem p stop s)
    (hr : stop < mem.length) :
    ∃ q, scanRd pred mem stop p = .ok q ∧ At mem q stop (s.dropWhile pred) := by
  refine ⟨p + (s.takeWhile pred).length, ?_, ?_⟩
  · unfold scanRd; rw [h.1]
    obtain ⟨t, rest, hd⟩ : ∃ t rest, mem.drop stop = t :: rest := by
      cases hd : mem.drop stop with
      | nil => simp at hd; omega
      | cons t rest => exact ⟨t, rest, rfl⟩
    rw [hd]; exact scanRdGo_spec pred stop s t rest p h.2
  · rw [← drop_takeWhile_length]
    exact h.drop _ (takeWhile_length_le _ _)

/-! ## the token run a conversion sees -/

def runAt (mem : Bytes) (p : Nat) : Bytes := (mem.drop p).takeWhile nonStopB

theorem takeWhile_append_stop (pred : UInt8 → Bool) (s rest : Bytes)
    (h : ∀ b, rest.head? = some b → pred b = false) :
    (s ++ rest).takeWhile pred = s.takeWhile pred := by
  induction s with
  | nil =>
    cases rest with
    | nil => rfl
    | cons b r => simp [List.takeWhile, h b (by simp)]
  | cons b s ih => by_cases hb : pred b <;> simp [List.takeWhile, hb, ih]

theorem runAt_at {mem : Bytes} {p stop : Nat} {s : Bytes} (h : At mem p stop s) (ht : Term mem stop) :
    runAt mem p = s.takeWhile nonStopB := by
  unfold runAt; rw [h.1]
  apply takeWhile_append_stop
  intro b hb
  have : mem[stop]? = some b := by
    have h1 : (mem.drop stop)[0]? = some b := by
      cases hd : mem.drop stop with
      | nil => rw [hd] at hb; simp at hb
      | cons x r => rw [hd] at hb; simp at hb; simp [hb]
    simpa using h1
  simp [nonStopB, ht b this]

/-! ## IgnoreCommentAndBlank -/

def isCommentB (b : UInt8) : Bool := Gen.Parse.icbIsComment b.toNat Gen.Parse.commentSymbol

/-- what is left of the line after `IgnoreCommentAndBlank` -/
def icbS : Bytes → Bytes
  | [] => []
  | b :: s => if isCommentB b then [] else if Gen.Parse.icbStops b.toNat then b :: s else icbS s

theorem icbGo_spec (stop : Nat) (s rest : Bytes) (p : Nat) (hstop : stop = p + s.length) :
    icbGo stop (s ++ rest) p = .ok (stop - (icbS s).length) := by
  induction s generalizing p with
  | nil =>
    have : p = stop := by simp at hstop; omega
    cases rest <;> simp [icbGo, icbS, this]
  | cons b s ih =>
    have hne : p ≠ stop := by simp at hstop; omega
    simp only [List.cons_append, icbGo, hne, if_false, icbS]
    by_cases hc : isCommentB b
    · simp [isCommentB] at hc; simp [hc, isCommentB]
    · simp [isCommentB] at hc
      by_cases hs : Gen.Parse.icbStops b.toNat
      · simp [hc, hs, isCommentB]; simp at hstop; omega
      · simp only [hc, hs, isCommentB]; exact ih (p + 1) (by simp at hstop; omega)

theorem icbS_suffix (s : Bytes) : ∃ k, k ≤ s.length ∧ icbS s = s.drop k := by
  induction s with
  | nil => exact ⟨0, by simp, rfl⟩
  | cons b s ih =>
    simp only [icbS]
    by_cases hc : isCommentB b
    · exact ⟨s.length + 1, by simp, by simp [hc]⟩
    · by_cases hs : Gen.Parse.icbStops b.toNat
      · exact ⟨0, by simp, by simp [hc, hs]⟩
      · obtain ⟨k, hk, he⟩ := ih
        exact ⟨k + 1, by simp; omega, by simp [hc, hs, he]⟩

theorem icb_at {mem : Bytes} {p stop : Nat} {s : Bytes} (h : At mem p stop s) :
    ∃ q, ignoreCommentAndBlank mem p stop = .ok q ∧ At mem q stop (icbS s) := by
  refine ⟨stop - (icbS s).length, ?_, ?_⟩
  · unfold ignoreCommentAndBlank; rw [h.1]; exact icbGo_spec stop s _ p h.2
  · obtain ⟨k, hk, he⟩ := icbS_suffix s
    rw [he]
    have := h.drop k hk
    have h2 := h.2
    have : stop - (s.drop k).length = p + k := by simp; omega
    rw [this]; assumption

end DmlcModel.Parse
