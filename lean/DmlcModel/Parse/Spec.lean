/-
List-level specification of ParsePair / ParseTriple and of the per-line work of the three parsers,
and the proofs that the pointer model computes them (under the locality contract of the conversions).
-/
import DmlcModel.Parse.Lemmas

namespace DmlcModel.Parse
open DmlcModel

/-- locality of one conversion: on a token run that is not all white space it is a pure function `g` of the run -/
def LocalFn (c : Bytes → Nat → Res Nat) (g : Bytes → Res Nat) : Prop :=
  ∀ mem p, (runAt mem p).any (fun b => !isLineSpaceB b) = true → c mem p = g (runAt mem p)

theorem At.suffix {mem : Bytes} {p stop : Nat} {s : Bytes} (h : At mem p stop s) (k : Nat) (hk : k ≤ s.length) :
    At mem (stop - (s.drop k).length) stop (s.drop k) := by
  have := h.drop k hk
  have h2 := h.2
  have e : stop - (s.drop k).length = p + k := by simp; omega
  rw [e]; assumption

theorem At.pos_eq {mem : Bytes} {p stop : Nat} {s : Bytes} (h : At mem p stop s) : p = stop - s.length := by
  have := h.2; omega

structure PairS where
  r : Nat
  rest : Bytes
  v1 : Nat := 0
  v2 : Nat := 0
  v3 : Nat := 0

def PairS.out (stop : Nat) (o : PairS) : PairOut :=
  { r := o.r, endp := stop - o.rest.length, v1 := o.v1, v2 := o.v2, v3 := o.v3 }

/-- `ParsePair` (repaired source) on the bytes `s` of the range -/
def pairS (g1 g2 : Bytes → Res Nat) (s : Bytes) : Res PairS :=
  match s.dropWhile notDigitCharB with
  | [] => .ok { r := 0, rest := [] }
  | d :: s1 => do
    let v1 ← g1 ((d :: s1).takeWhile nonStopB)
    match ((d :: s1).dropWhile isDigitCharB).dropWhile isBlankB with
    | [] => .ok { r := 1, rest := [], v1 := v1 }
    | b :: s4 =>
      if b != 58 then .ok { r := 1, rest := b :: s4, v1 := v1 } else
      match s4.dropWhile notDigitCharB with
      | [] => .ok { r := 1, rest := [], v1 := v1 }
      | d2 :: s5 => do
        let v2 ← g2 ((d2 :: s5).takeWhile nonStopB)
        .ok { r := 2, rest := (d2 :: s5).dropWhile isDigitCharB, v1 := v1, v2 := v2 }

theorem dropWhile_head_false (pred : UInt8 → Bool) (s : Bytes) (d : UInt8) (r : Bytes)
    (h : s.dropWhile pred = d :: r) : pred d = false := by
  induction s with
  | nil => simp at h
  | cons b s ih =>
    by_cases hb : pred b
    · simp [List.dropWhile, hb] at h; exact ih h
    · simp [List.dropWhile, hb] at h; obtain ⟨rfl, _⟩ := h; simpa using hb

theorem run_any_of_digit (d : UInt8) (r : Bytes) (hd : isDigitCharB d = true) :
    ((d :: r).takeWhile nonStopB).any (fun b => !isLineSpaceB b) = true := by
  simp [List.takeWhile, digitChar_nonStop d hd, digitChar_nonSpace d hd]

theorem conv_at {c : Bytes → Nat → Res Nat} {g : Bytes → Res Nat} (hc : LocalFn c g)
    {mem : Bytes} {p stop : Nat} {d : UInt8} {r : Bytes} (h : At mem p stop (d :: r)) (ht : Term mem stop)
    (hd : isDigitCharB d = true) : c mem p = g ((d :: r).takeWhile nonStopB) := by
  have hr := runAt_at h ht
  rw [hc mem p (by rw [hr]; exact run_any_of_digit d r hd), hr]

theorem parsePair_at {c1 c2 : Bytes → Nat → Res Nat} {g1 g2 : Bytes → Res Nat}
    (hc1 : LocalFn c1 g1) (hc2 : LocalFn c2 g2)
    {mem : Bytes} {p stop : Nat} {s : Bytes} (h : At mem p stop s) (ht : Term mem stop) :
    parsePair Fixes.repaired c1 c2 mem p stop = (pairS g1 g2 s).map (PairS.out stop) := by
  unfold parsePair pairS
  obtain ⟨q1, e1, a1⟩ := scan_at (pred := notDigitCharB) h
  simp only [e1, bind, Except.bind]
  cases hs1 : s.dropWhile notDigitCharB with
  | nil =>
    rw [hs1] at a1
    have : q1 = stop := a1.eq_stop_iff.mpr rfl
    simp [this, PairS.out, Except.map, pure, Except.pure]
  | cons d s1 =>
    rw [hs1] at a1
    have hd : isDigitCharB d = true := by
      have := dropWhile_head_false _ _ _ _ hs1
      simpa [notDigitCharB, isDigitCharB] using this
    have hne1 : q1 ≠ stop := by intro e; have := a1.eq_stop_iff.mp e; simp at this
    obtain ⟨q2, e2, a2⟩ := scan_at (pred := isDigitCharB) a1
    obtain ⟨q3, e3, a3⟩ := scan_at (pred := isBlankB) a2
    simp only [hne1, if_false, e2, conv_at hc1 a1 ht hd]
    cases hv1 : g1 ((d :: s1).takeWhile nonStopB) with
    | error e => simp [Except.map]
    | ok v1 =>
      simp only [e3]
      cases hs3 : ((d :: s1).dropWhile isDigitCharB).dropWhile isBlankB with
      | nil =>
        rw [hs3] at a3
        have : q3 = stop := a3.eq_stop_iff.mpr rfl
        simp [this, PairS.out, Except.map, pure, Except.pure]
      | cons b s4 =>
        rw [hs3] at a3
        have hne3 : q3 ≠ stop := by intro e; have := a3.eq_stop_iff.mp e; simp at this
        have hq3 := a3.pos_eq
        simp only [hne3, if_false, byteAt_at a3]
        by_cases hb : (b != 58) = true
        · simp [hb, PairS.out, Except.map, pure, Except.pure, hq3]
        · simp only [hb, if_false]
          obtain ⟨q4, e4, a4⟩ := scan_at (pred := notDigitCharB) a3.tail
          simp only [e4]
          cases hs5 : s4.dropWhile notDigitCharB with
          | nil =>
            rw [hs5] at a4
            have : q4 = stop := a4.eq_stop_iff.mpr rfl
            simp [this, Fixes.repaired, PairS.out, Except.map, pure, Except.pure]
          | cons d2 s5 =>
            rw [hs5] at a4
            have hd2 : isDigitCharB d2 = true := by
              have := dropWhile_head_false _ _ _ _ hs5
              simpa [notDigitCharB, isDigitCharB] using this
            have hne4 : q4 ≠ stop := by intro e; have := a4.eq_stop_iff.mp e; simp at this
            obtain ⟨q5, e5, a5⟩ := scan_at (pred := isDigitCharB) a4
            have hq5 := a5.pos_eq
            simp only [hne4, e5, conv_at hc2 a4 ht hd2]
            cases hv2 : g2 ((d2 :: s5).takeWhile nonStopB) with
            | error e => simp [Except.map]
            | ok v2 => simp [PairS.out, Except.map, pure, Except.pure, hq5]

theorem At.of_suffix {mem : Bytes} {p stop : Nat} {s r : Bytes} (h : At mem p stop s) (hr : r <:+ s) :
    At mem (stop - r.length) stop r := by
  obtain ⟨t, rfl⟩ := hr
  have := h.suffix t.length (by simp)
  simpa using this

theorem pairS_suffix {g1 g2 : Bytes → Res Nat} {s : Bytes} {o : PairS} (h : pairS g1 g2 s = .ok o) :
    o.rest <:+ s := by
  unfold pairS at h
  split at h
  · cases h; exact List.nil_suffix
  · rename_i d s1 hs1
    have h1 : (d :: s1) <:+ s := hs1 ▸ List.dropWhile_suffix _
    cases hv1 : g1 ((d :: s1).takeWhile nonStopB) with
    | error e => simp [hv1, bind, Except.bind] at h
    | ok v1 =>
      simp only [hv1, bind, Except.bind] at h
      split at h
      · cases h; exact List.nil_suffix
      · rename_i b s4 hs3
        have h3 : (b :: s4) <:+ s :=
          (hs3 ▸ List.dropWhile_suffix _).trans ((List.dropWhile_suffix _).trans h1)
        split at h
        · cases h; exact h3
        · split at h
          · cases h; exact List.nil_suffix
          · rename_i d2 s5 hs5
            have h5 : (d2 :: s5) <:+ s :=
              (hs5 ▸ List.dropWhile_suffix _).trans ((List.suffix_cons b s4).trans h3)
            cases hv2 : g2 ((d2 :: s5).takeWhile nonStopB) with
            | error e => simp [hv2] at h
            | ok v2 =>
              simp only [hv2] at h
              cases h
              exact (List.dropWhile_suffix _).trans h5

/-- a parsed pair consumes at least one byte -/
theorem pairS_progress {g1 g2 : Bytes → Res Nat} {s : Bytes} {o : PairS} (h : pairS g1 g2 s = .ok o)
    (hr : 1 ≤ o.r) : o.rest.length < s.length := by
  unfold pairS at h
  split at h
  · cases h; simp at hr
  · rename_i d s1 hs1
    have h1 : (d :: s1) <:+ s := hs1 ▸ List.dropWhile_suffix _
    have hd : isDigitCharB d = true := by
      have := dropWhile_head_false _ _ _ _ hs1
      simpa [notDigitCharB, isDigitCharB] using this
    have hlen1 := h1.length_le
    have hdw : ((d :: s1).dropWhile isDigitCharB).length ≤ s1.length := by
      simp only [List.dropWhile, hd]
      exact (List.dropWhile_suffix _).length_le
    cases hv1 : g1 ((d :: s1).takeWhile nonStopB) with
    | error e => simp [hv1, bind, Except.bind] at h
    | ok v1 =>
      simp only [hv1, bind, Except.bind] at h
      split at h
      · cases h; simp at hlen1 ⊢; omega
      · rename_i b s4 hs3
        have h3 : (b :: s4).length ≤ s1.length := by
          have := (hs3 ▸ List.dropWhile_suffix (l := (d :: s1).dropWhile isDigitCharB) isBlankB).length_le
          omega
        split at h
        · cases h; simp at hlen1 h3 ⊢; omega
        · split at h
          · cases h; simp at hlen1 ⊢; omega
          · rename_i d2 s5 hs5
            have h5 : (d2 :: s5).length ≤ s4.length :=
              (hs5 ▸ List.dropWhile_suffix (l := s4) notDigitCharB).length_le
            cases hv2 : g2 ((d2 :: s5).takeWhile nonStopB) with
            | error e => simp [hv2] at h
            | ok v2 =>
              simp only [hv2] at h
              cases h
              have := (List.dropWhile_suffix (l := d2 :: s5) isDigitCharB).length_le
              simp at hlen1 h3 h5 this ⊢; omega

theorem pairS_r0_rest {g1 g2 : Bytes → Res Nat} {s : Bytes} {o : PairS} (h : pairS g1 g2 s = .ok o)
    (hr : o.r < 1) : o.rest = [] := by
  unfold pairS at h
  split at h
  · cases h; rfl
  · rename_i d s1 hs1
    cases hv1 : g1 ((d :: s1).takeWhile nonStopB) with
    | error e => simp [hv1, bind, Except.bind] at h
    | ok v1 =>
      simp only [hv1, bind, Except.bind] at h
      split at h
      · cases h; rfl
      · rename_i b s4 hs3
        split at h
        · cases h; simp at hr
        · split at h
          · cases h; rfl
          · rename_i d2 s5 hs5
            cases hv2 : g2 ((d2 :: s5).takeWhile nonStopB) with
            | error e => simp [hv2] at h
            | ok v2 => simp only [hv2] at h; cases h; simp at hr

/-! ## libsvm: one line -/

/-- the conversions of a `Conv` are local, with pure functions `gR gI gQ` (and `gC` for csv cells) -/
structure Conv.LocalWith (conv : Conv) (gR gI gQ : Bytes → Res Nat) (gC : Bytes → Res (Nat × Nat)) : Prop where
  real : LocalFn conv.real gR
  index : LocalFn conv.index gI
  qid : LocalFn conv.qid gQ
  cell : ∀ mem p, (runAt mem p).any (fun b => !isLineSpaceB b) = true →
    conv.cell mem p = (gC (runAt mem p)).map fun vk => (vk.1, p + vk.2)

def Conv.Local (conv : Conv) : Prop := ∃ gR gI gQ gC, conv.LocalWith gR gI gQ gC

def svmFeatsS (gI gR : Bytes → Res Nat) : Nat → Bytes → List (Nat × Option Nat) → Res (List (Nat × Option Nat))
  | 0, _, _ => .error .oob
  | fuel + 1, s, acc =>
    match s with
    | [] => .ok acc.reverse
    | _ :: _ => do
      let o ← pairS gI gR (icbS s)
      if Gen.Parse.svmNoFeature o.r then svmFeatsS gI gR fuel o.rest acc
      else svmFeatsS gI gR fuel o.rest ((o.v1, if Gen.Parse.svmHasValue o.r then some o.v2 else none) :: acc)

theorem icbS_suffix' (s : Bytes) : icbS s <:+ s := by
  obtain ⟨k, _, he⟩ := icbS_suffix s
  rw [he]; exact List.drop_suffix _ _

theorem svmFeats_at {conv : Conv} {gR gI gQ : Bytes → Res Nat} {gC : Bytes → Res (Nat × Nat)}
    (hL : conv.LocalWith gR gI gQ gC) {mem : Bytes} {lend : Nat} (ht : Term mem lend) :
    ∀ (fuel p : Nat) (s : Bytes) (acc : List (Nat × Option Nat)), At mem p lend s →
      svmFeats Fixes.repaired conv mem lend fuel p acc = svmFeatsS gI gR fuel s acc := by
  intro fuel
  induction fuel with
  | zero => intro p s acc _; rfl
  | succ fuel ih =>
    intro p s acc h
    cases s with
    | nil =>
      have : p = lend := h.eq_stop_iff.mpr rfl
      simp [svmFeats, svmFeatsS, this]
    | cons b s =>
      have hne : p ≠ lend := by intro e; have := h.eq_stop_iff.mp e; simp at this
      obtain ⟨q, eq, aq⟩ := icb_at h
      simp only [svmFeats, svmFeatsS, hne, if_false, eq, bind, Except.bind, parsePair_at hL.index hL.real aq ht]
      cases ho : pairS gI gR (icbS (b :: s)) with
      | error e => simp [Except.map]
      | ok o =>
        have hsuf := (pairS_suffix ho)
        have ar := aq.of_suffix hsuf
        simp only [Except.map, PairS.out]
        split <;> exact ih _ _ _ ar

def qidSkipB (b : UInt8) : Bool := Gen.Parse.svmQidSkips b.toNat
def qidDigitB (b : UInt8) : Bool := Gen.Parse.svmQidDigit b.toNat

/-- the per-line work of `LibSVMParser::ParseBlock` (repaired source) on the bytes `l` of the line -/
def svmLineS (gR gI gQ : Bytes → Res Nat) (l : Bytes) : Res (Option SvmLine) := do
  let o ← pairS gR gR (icbS (l.dropWhile isEolB))
  if Gen.Parse.svmEmptyLine o.r then return none
  let weight := if Gen.Parse.svmHasWeight o.r then some o.v2 else none
  let s2 := o.rest.dropWhile qidSkipB
  let (s3, qid) ←
    (if !s2.isEmpty && (s2.take Gen.Parse.qidPrefix.length).map UInt8.toNat == Gen.Parse.qidPrefix then do
      let s3 := s2.drop Gen.Parse.qidAdvance
      let q ← (match s3 with
        | [] => pure 0
        | b :: _ => if Gen.Parse.isdigitchars b.toNat then gQ (s3.takeWhile nonStopB) else pure 0)
      pure (s3.dropWhile qidDigitB, some q)
    else pure (s2, none) : Res (Bytes × Option Nat))
  let feats ← svmFeatsS gI gR (s3.length + 1) s3 []
  return some { label := o.v1, weight, qid, feats }

theorem At.append {mem : Bytes} {p mid stop : Nat} {s r : Bytes} (h : At mem p mid s) (hr : At mem mid stop r) :
    At mem p stop (s ++ r) := by
  refine ⟨?_, ?_⟩
  · rw [h.1, hr.1, List.append_assoc]
  · have := h.2; have := hr.2; simp; omega

theorem At.unappend {mem : Bytes} {q mid stop : Nat} {s r : Bytes} (h : At mem q stop (s ++ r)) (hr : At mem mid stop r) :
    At mem q mid s := by
  refine ⟨?_, ?_⟩
  · rw [h.1, hr.1, List.append_assoc]
  · have := h.2; have := hr.2; simp at *; omega

theorem dropWhile_append_stop (pred : UInt8 → Bool) (s rest : Bytes)
    (h : ∀ b, rest.head? = some b → pred b = false) :
    (s ++ rest).dropWhile pred = s.dropWhile pred ++ rest := by
  induction s with
  | nil =>
    cases rest with
    | nil => rfl
    | cons b r => simp [List.dropWhile, h b (by simp)]
  | cons b s ih => by_cases hb : pred b <;> simp [List.dropWhile, hb, ih]

/-- a scan bounded by the end of the block stays inside the line when the byte after the line stops it -/
theorem scan_at_far {pred : UInt8 → Bool} {mem : Bytes} {p lend stop : Nat} {s r : Bytes}
    (h : At mem p lend s) (hr : At mem lend stop r) (hstop : ∀ b, r.head? = some b → pred b = false) :
    ∃ q, scan pred mem stop p = .ok q ∧ At mem q lend (s.dropWhile pred) := by
  obtain ⟨q, e, a⟩ := scan_at (pred := pred) (h.append hr)
  rw [dropWhile_append_stop pred s r hstop] at a
  exact ⟨q, e, a.unappend hr⟩

theorem eol_not_qidSkip (b : UInt8) (h : isEolB b = true) : qidSkipB b = false := by
  simp [qidSkipB, Gen.Parse.svmQidSkips, Gen.Parse.isblank, isEolB, Gen.Parse.backIsEol] at *
  omega

theorem stop_toNat (b : UInt8) (h : isStopB b = true) : b.toNat = 0 ∨ b.toNat = 10 ∨ b.toNat = 13 := by
  simp [isStopB, isEolB, Gen.Parse.backIsEol, ← UInt8.toNat_inj] at h
  omega

/-- the `strncmp(p, "qid:", 4)` test cannot reach past a line that is followed by a NUL / end-of-line byte -/
theorem hasPrefixAt_at {mem : Bytes} {p lend : Nat} {s : Bytes} (h : At mem p lend s) (ht : Term mem lend) :
    hasPrefixAt mem p Gen.Parse.qidPrefix
      = ((s.take Gen.Parse.qidPrefix.length).map UInt8.toNat == Gen.Parse.qidPrefix) := by
  unfold hasPrefixAt
  rw [h.1]
  have hh : ∀ b, (mem.drop lend).head? = some b → b.toNat = 0 ∨ b.toNat = 10 ∨ b.toNat = 13 := by
    intro b hb
    apply stop_toNat
    apply ht
    cases hd : mem.drop lend with
    | nil => rw [hd] at hb; simp at hb
    | cons x r =>
      rw [hd] at hb; simp at hb; subst hb
      have : (mem.drop lend)[0]? = some x := by rw [hd]; rfl
      simpa using this
  generalize mem.drop lend = rest at hh
  have hp : Gen.Parse.qidPrefix = [113, 105, 100, 58] := rfl
  rw [hp]
  rcases s with _ | ⟨a, _ | ⟨b, _ | ⟨c, _ | ⟨d, s⟩⟩⟩⟩
  · rcases rest with _ | ⟨x, rest⟩
    · simp
    · have := hh x rfl; simp; intro h1; omega
  · rcases rest with _ | ⟨x, rest⟩
    · simp
    · have := hh x rfl; simp; intro _ h1; omega
  · rcases rest with _ | ⟨x, rest⟩
    · simp
    · have := hh x rfl; simp; intro _ _ h1; omega
  · rcases rest with _ | ⟨x, rest⟩
    · simp
    · have := hh x rfl; simp; intro _ _ _ h1; omega
  · simp

theorem svmLine_at {conv : Conv} {gR gI gQ : Bytes → Res Nat} {gC : Bytes → Res (Nat × Nat)}
    (hL : conv.LocalWith gR gI gQ gC) {mem : Bytes} {lbegin lend stop : Nat} {l r : Bytes}
    (h : At mem lbegin lend l) (hr : At mem lend stop r) (hrh : ∀ b, r.head? = some b → isEolB b = true)
    (ht : Term mem lend) :
    svmLine Fixes.repaired conv mem lbegin lend stop = svmLineS gR gI gQ l := by
  unfold svmLine svmLineS
  obtain ⟨p1, e1, a1⟩ := scan_at (pred := isEolB) h
  obtain ⟨p2, e2, a2⟩ := icb_at a1
  have hfx1 : Fixes.repaired.svmEolSkip = true := rfl
  have hfx2 : Fixes.repaired.qidGuard = true := rfl
  simp only [hfx1, hfx2, if_true, e1, e2, bind, Except.bind, parsePair_at hL.real hL.real a2 ht]
  cases ho : pairS gR gR (icbS (l.dropWhile isEolB)) with
  | error e => simp [Except.map]
  | ok o =>
    simp only [Except.map, PairS.out]
    by_cases hem : Gen.Parse.svmEmptyLine o.r = true
    · simp [hem, pure, Except.pure]
    · simp only [hem, Bool.false_eq_true, if_false]
      have ar := a2.of_suffix (pairS_suffix ho)
      obtain ⟨p3, e3, a3⟩ := scan_at_far (pred := qidSkipB) ar hr (fun b hb => eol_not_qidSkip b (hrh b hb))
      have e3' : scan (fun b => Gen.Parse.svmQidSkips b.toNat) mem stop (lend - o.rest.length) = .ok p3 := e3
      simp only [e3']
      have hpe : (p3 != lend) = !(o.rest.dropWhile qidSkipB).isEmpty := by
        cases hl : o.rest.dropWhile qidSkipB with
        | nil => rw [hl] at a3; have : p3 = lend := a3.eq_stop_iff.mpr rfl; simp [this]
        | cons x xs =>
          rw [hl] at a3
          have : p3 ≠ lend := by intro e; have := a3.eq_stop_iff.mp e; simp at this
          simp [this]
      rw [hpe, hasPrefixAt_at a3 ht]
      by_cases hq : (!(o.rest.dropWhile qidSkipB).isEmpty &&
          ((o.rest.dropWhile qidSkipB).take Gen.Parse.qidPrefix.length).map UInt8.toNat == Gen.Parse.qidPrefix) = true
      · simp only [hq, if_true]
        have hlen : Gen.Parse.qidAdvance ≤ (o.rest.dropWhile qidSkipB).length := by
          simp only [Bool.and_eq_true, beq_iff_eq] at hq
          have := congrArg List.length hq.2
          rw [List.length_map, List.length_take] at this
          have h4 : Gen.Parse.qidPrefix.length = 4 := rfl
          have h5 : Gen.Parse.qidAdvance = 4 := rfl
          omega
        have a4 := a3.drop Gen.Parse.qidAdvance hlen
        obtain ⟨p5, e5, a5⟩ := scan_at (pred := qidDigitB) a4
        have e5' : scan (fun b => Gen.Parse.svmQidDigit b.toNat) mem lend (p3 + Gen.Parse.qidAdvance) = .ok p5 := e5
        cases hs3 : (o.rest.dropWhile qidSkipB).drop Gen.Parse.qidAdvance with
        | nil =>
          rw [hs3] at a4 a5
          have hp4 : p3 + Gen.Parse.qidAdvance = lend := a4.eq_stop_iff.mpr rfl
          have hp5 : p5 = lend := a5.eq_stop_iff.mpr (by simp)
          subst hp5
          rw [hp4] at e5'
          simp only [hp4, if_true, pure, Except.pure, e5']
          have hf : p5 + 1 - p5 = ([] : Bytes).length + 1 := by simp
          rw [hf, svmFeats_at hL ht _ _ _ _ (At.nil mem p5)]
          simp [List.dropWhile]
        | cons b s3 =>
          rw [hs3] at a4
          have hne4 : p3 + Gen.Parse.qidAdvance ≠ lend := by intro e; have := a4.eq_stop_iff.mp e; simp at this
          simp only [hne4, if_false, byteAt_at a4, pure, Except.pure]
          by_cases hd : Gen.Parse.isdigitchars b.toNat = true
          · have hdc : isDigitCharB b = true := hd
            simp only [hd, if_true, conv_at hL.qid a4 ht hdc]
            cases hv : gQ ((b :: s3).takeWhile nonStopB) with
            | error e => rfl
            | ok q =>
              simp only [e5']
              rw [hs3] at a5
              have hf : lend + 1 - p5 = ((b :: s3).dropWhile qidDigitB).length + 1 := by have := a5.2; omega
              rw [hf, svmFeats_at hL ht _ _ _ _ a5]
          · simp only [hd, if_false, e5', Bool.false_eq_true]
            rw [hs3] at a5
            have hf : lend + 1 - p5 = ((b :: s3).dropWhile qidDigitB).length + 1 := by have := a5.2; omega
            rw [hf, svmFeats_at hL ht _ _ _ _ a5]
      · simp only [hq, if_false, Bool.false_eq_true, pure, Except.pure]
        have hf : lend + 1 - p3 = (o.rest.dropWhile qidSkipB).length + 1 := by have := a3.2; omega
        rw [hf, svmFeats_at hL ht _ _ _ _ a3]

end DmlcModel.Parse
