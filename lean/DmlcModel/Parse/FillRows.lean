/-
FillData + ParserImpl::Next on a chunk: the rows of the thread slices, in thread order, are the rows of
ParseBlock on the whole chunk (for every `LineFormat`), by `fillData_slices` and the cut theorem.
-/
import DmlcModel.Parse.Cuts
import DmlcModel.Parse.Slices

namespace DmlcModel.Parse
open DmlcModel

theorem At.sub {mem : Bytes} {size : Nat} {t : Bytes} (h : At mem 0 size t) (a b : Nat) (hab : a ≤ b) (hb : b ≤ size) :
    At mem a b ((t.drop a).take (b - a)) := by
  have hl : size = t.length := by have := h.2; omega
  have hm : mem = t ++ mem.drop size := by simpa using h.1
  refine ⟨?_, ?_⟩
  · have h1 : mem.drop a = t.drop a ++ mem.drop size := by
      conv => lhs; rw [hm]
      rw [List.drop_append_of_le_length (by omega)]
    have h2 : mem.drop b = t.drop b ++ mem.drop size := by
      conv => lhs; rw [hm]
      rw [List.drop_append_of_le_length (by omega)]
    have h3 : t.drop b = (t.drop a).drop (b - a) := by rw [List.drop_drop]; congr 1; omega
    rw [h1, h2, h3, ← List.append_assoc, List.take_append_drop]
  · simp [List.length_take, List.length_drop]; omega

theorem At.getElem {mem : Bytes} {size : Nat} {t : Bytes} (h : At mem 0 size t) (c : Nat) (hc : c < size) :
    mem[c]? = t[c]? := by
  have hl : size = t.length := by have := h.2; omega
  have hm : mem = t ++ mem.drop size := by simpa using h.1
  rw [hm, List.getElem?_append_left (by omega)]

theorem rowsOf_size0 (c : Container) (r : List Row) (hs : c.size = 0) (h : rowsOf c = .ok r) : r = [] := by
  unfold rowsOf at h
  by_cases hg : getBlockOk c = true
  · rw [if_pos hg, hs] at h
    have : (List.range 0).mapM (rowAt c) = .ok [] := rfl
    rw [this] at h; exact (Except.ok.inj h).symm
  · rw [if_neg hg] at h; cases h

theorem blocksOf_flatten (cs : List Container) (rs : List (List Row)) (h : cs.mapM rowsOf = .ok rs) :
    (blocksOf cs).map List.flatten = .ok rs.flatten := by
  induction cs generalizing rs with
  | nil => simp [pure, Except.pure] at h; subst h; rfl
  | cons c cs ih =>
    obtain ⟨r, rs', hr, hrs, rfl⟩ : ∃ r rs', rowsOf c = .ok r ∧ cs.mapM rowsOf = .ok rs' ∧ rs = r :: rs' := by
      rw [List.mapM_cons] at h
      cases hr : rowsOf c with
      | error e => simp [hr, bind, Except.bind] at h
      | ok r =>
        cases hrs : cs.mapM rowsOf with
        | error e => simp [hr, hrs, bind, Except.bind] at h
        | ok rs' => simp [hr, hrs, bind, Except.bind, pure, Except.pure] at h; exact ⟨r, rs', rfl, rfl, h.symm⟩
    have := ih rs' hrs
    unfold blocksOf at this ⊢
    by_cases hs : c.size = 0
    · have hr0 := rowsOf_size0 c r hs hr
      subst hr0
      simp only [List.filter_cons, hs, bne_self_eq_false, Bool.false_eq_true, if_false]
      simpa using this
    · have hs' : (c.size != 0) = true := by simpa using hs
      simp only [List.filter_cons, hs', if_true, List.mapM_cons, hr, bind, Except.bind]
      cases hm : (cs.filter fun c => c.size != 0).mapM rowsOf with
      | error e => rw [hm] at this; simp [Except.map] at this
      | ok bs => rw [hm] at this; simp [Except.map, pure, Except.pure] at this ⊢; exact this

/-- what a parser's `ParseBlock` needs to satisfy besides being a `LineFormat`: on a block `[a, b)` of any memory
whose end is harmless (`TermOr`) it hands out the rows of the block's text -/
structure BlockFormat (good : UInt8 → Bool) (parse : Bytes → Nat → Nat → Res Container)
    (rws : Bytes → Res (List Row)) (recS : Bytes → Res (Option LineRec)) : Prop where
  lf : LineFormat good rws recS
  at_eq : ∀ (mem : Bytes) (a b : Nat) (t : Bytes), At mem a b t → TermOr mem b t → b < mem.length → b < 2 ^ 64 →
    (∀ x ∈ t, good x = true) → t.length + 2 < 2 ^ 64 → (parse mem a b).bind rowsOf = rws t

theorem take_succ_piece (t : Bytes) (a b : Nat) (hab : a ≤ b) : t.take b = t.take a ++ (t.drop a).take (b - a) := by
  have : b = a + (b - a) := by omega
  conv => lhs; rw [this]
  rw [List.take_add]

/-- **FillData on a chunk** (any `BlockFormat`): rows of the `nthread` slices in thread order = rows of the chunk -/
theorem fillData_rows {good : UInt8 → Bool} {parse : Bytes → Nat → Nat → Res Container}
    {rws : Bytes → Res (List Row)} {recS : Bytes → Res (Option LineRec)} (B : BlockFormat good parse rws recS)
    (mem : Bytes) (size nthread : Nat) (t : Bytes) (hAt : At mem 0 size t) (hT : TermOr mem size t)
    (hpos : 0 < size) (h1 : 1 ≤ nthread) (hn : nthread < 4294967296) (hs : size + nthread < 9223372036854775808)
    (hr : size < mem.length) (hg : ∀ x ∈ t, good x = true) (rss : List (List Row))
    (hl : (eolSplit t).mapM rws = .ok rss) (ha : AgreeRows rss.flatten) :
    ((fillData parse mem size nthread).bind blocksOf).map List.flatten = .ok rss.flatten := by
  have F := B.lf
  have hlen : size = t.length := by have := hAt.2; omega
  obtain ⟨c0, cn, cmono, cint, cslice⟩ := fillData_slices mem size nthread h1 hn hs hr
  generalize cutAt mem size nthread = cut at c0 cn cmono cint cslice
  have hwhole := F.concat_of_lines t hg (by omega) rss hl ha
  have hnil : rws [] = .ok [] := by
    rw [F.rows_single [] (by simp) (by simp) (by simp)]; simp [single, F.nil, Except.bind, rowsOf_build_nil]
  -- all cuts lie in the chunk
  have cle : ∀ i, i ≤ nthread → cut i ≤ size := by
    intro i hi
    induction hd : nthread - i generalizing i with
    | zero => have : i = nthread := by omega
              rw [this, cn]; exact Nat.le_refl _
    | succ d ih => have := ih (i + 1) (by omega) (by omega); have := cmono i (by omega); omega
  -- the lines of a prefix that ends at a cut parse alone and agree
  have hprefix : ∀ c, c ≤ size → (c = size ∨ c = 0 ∨ ∃ e, mem[c]? = some e ∧ isEolB e = true) →
      ∃ rsc, (eolSplit (t.take c)).mapM rws = .ok rsc ∧ AgreeRows rsc.flatten ∧ rws (t.take c) = .ok rsc.flatten := by
    intro c hc hshape
    rcases hshape with rfl | rfl | ⟨e, hme, hee⟩
    · rw [hlen, List.take_length]; exact ⟨rss, hl, ha, hwhole⟩
    · refine ⟨[[]], ?_, ?_, ?_⟩
      · simp [eolSplit, eolSplitGo, List.mapM_cons, hnil, bind, Except.bind, pure, Except.pure]
      · exact ⟨Or.inr (by simp), Or.inr (by simp), Or.inr (by simp), Or.inr (by simp)⟩
      · simpa using hnil
    · by_cases hcs : c = size
      · subst hcs; rw [hlen, List.take_length]; exact ⟨rss, hl, ha, hwhole⟩
      · have hclt : c < size := by omega
        have hte : t[c]? = some e := by rw [← hAt.getElem c hclt]; exact hme
        have hsplit : t = t.take c ++ e :: t.drop (c + 1) := by
          have h1 : t.drop c = e :: t.drop (c + 1) := by
            rw [List.drop_eq_getElem_cons (by omega)]
            congr 1
            have := List.getElem?_eq_getElem (l := t) (i := c) (by omega)
            rw [this] at hte; exact Option.some.inj hte
          conv => lhs; rw [← List.take_append_drop c t, h1]
        have hl' := hl; rw [hsplit] at hl'
        obtain ⟨rsx, rsy, hx, _, hax, _, hrx, _⟩ := F.cut (t.take c) (t.drop (c + 1)) e hee
          (by rw [← hsplit]; exact hg) (by rw [← hsplit]; omega) rss hl' ha
        exact ⟨rsx, hx, hax, hrx⟩
  -- the shape of every cut
  have cshape : ∀ i, i ≤ nthread → (cut i = size ∨ cut i = 0 ∨
      ∃ e, mem[cut i]? = some e ∧ isEolB e = true) := by
    intro i hi
    by_cases h0 : i = 0
    · subst h0; exact Or.inr (Or.inl c0)
    · by_cases hnn : i = nthread
      · subst hnn; exact Or.inl cn
      · rcases cint i (by omega) (by omega) with h | h
        · exact Or.inr (Or.inl h)
        · exact Or.inr (Or.inr h)
  -- induction over the threads
  have key : ∀ k, k ≤ nthread → ∃ cs rs,
      (List.range k).mapM (fun tid => do
        let ab ← threadSlice mem size nthread tid
        parse mem ab.1 ab.2) = .ok cs ∧ cs.mapM rowsOf = .ok rs ∧
      rws (t.take (cut k)) = .ok rs.flatten := by
    intro k
    induction k with
    | zero => intro _; exact ⟨[], [], rfl, rfl, by rw [c0]; simpa using hnil⟩
    | succ k ih =>
      intro hk
      obtain ⟨cs, rs, hcs, hrs, hrows⟩ := ih (by omega)
      have hab := cmono k (by omega)
      have hbs := cle (k + 1) hk
      -- the slice
      have hAtp := hAt.sub _ _ hab hbs
      have hTp : TermOr mem (cut (k + 1))
          ((t.drop (cut k)).take (cut (k + 1) - cut k)) := by
        rcases cshape (k + 1) hk with h | h | ⟨e, hme, hee⟩
        · rw [h]
          have : (t.drop (cut k)).take (size - cut k) = t.drop (cut k) := by
            apply List.take_of_length_le; simp; omega
          rw [this]
          exact hT.suffix (List.drop_suffix _ _)
        · refine Or.inr (Or.inl ?_)
          rw [h]; simp
        · exact Or.inl (fun b hb => by rw [hme] at hb; cases hb; simp [isStopB, hee])
      have hpiece_good : ∀ x ∈ (t.drop (cut k)).take (cut (k + 1) - cut k),
          good x = true := fun x hx => hg x (List.mem_of_mem_drop (List.mem_of_mem_take hx))
      have hplen : ((t.drop (cut k)).take (cut (k + 1) - cut k)).length
          ≤ t.length := by simp [List.length_take, List.length_drop]; omega
      have heq := B.at_eq mem _ _ _ hAtp hTp (by omega) (by omega) hpiece_good (by omega)
      -- the rows of the piece and of the longer prefix
      have htake := take_succ_piece t _ _ hab
      obtain ⟨rsc, hlc, hac, hrc⟩ := hprefix (cut (k + 1)) hbs (cshape (k + 1) hk)
      have hpiece : ∃ rk, rws ((t.drop (cut k)).take
            (cut (k + 1) - cut k)) = .ok rk ∧ rsc.flatten = rs.flatten ++ rk := by
        cases hp : (t.drop (cut k)).take (cut (k + 1) - cut k) with
        | nil =>
          rw [hp, List.append_nil] at htake
          rw [htake, hrows] at hrc
          exact ⟨[], hnil, by simpa using (Except.ok.inj hrc).symm⟩
        | cons e y =>
          rw [hp] at htake
          rcases cshape k (by omega) with h | h | ⟨e', hme, hee⟩
          · -- the cut is the end of the chunk: the piece is empty
            rw [h] at hp
            have : (t.drop size).take (cut (k + 1) - size) = [] := by rw [hlen]; simp
            rw [this] at hp; cases hp
          · -- nothing in front of the piece
            rw [h] at hrows htake
            simp only [List.take_zero, List.nil_append] at hrows htake
            rw [hnil] at hrows
            have hr0 : rs.flatten = [] := (Except.ok.inj hrows).symm
            rw [htake] at hrc
            exact ⟨rsc.flatten, hrc, by rw [hr0]; rfl⟩
          · -- the piece starts with the end-of-line byte at the cut
            have hck : cut k < size := by
              rcases Nat.lt_or_ge (cut k) size with h | h
              · exact h
              · exfalso
                have : t.drop (cut k) = [] := List.drop_eq_nil_of_le (by omega)
                rw [this] at hp; simp at hp
            have hlt : cut k < cut (k + 1) := by
              rcases Nat.lt_or_ge (cut k) (cut (k + 1)) with h | h
              · exact h
              · exfalso
                have : cut (k + 1) - cut k = 0 := by omega
                rw [this] at hp; simp at hp
            have hee' : e = e' := by
              have h1 : t[cut k]? = some e' := by rw [← hAt.getElem _ hck]; exact hme
              have h2 : ((t.drop (cut k)).take
                (cut (k + 1) - cut k))[0]? = some e := by rw [hp]; rfl
              rw [List.getElem?_take_of_lt (by omega), List.getElem?_drop] at h2
              simp at h2
              rw [h1] at h2; exact (Option.some.inj h2).symm
            subst hee'
            rw [htake] at hlc hrc
            obtain ⟨rsx, rsy, _, _, _, _, hrx, _, hry, _, hxy⟩ := F.cut (t.take (cut k)) y e hee
              (by rw [← htake]; intro x hx; exact hg x (List.mem_of_mem_take hx))
              (by rw [← htake]; simp [List.length_take]; omega) rsc hlc hac
            rw [hrows] at hrx
            rw [hxy] at hrc
            have e1 := Except.ok.inj hrx
            have e2 := Except.ok.inj hrc
            exact ⟨rsy.flatten, hry, by rw [← e2, e1]⟩
      obtain ⟨rk, hrk, hflat⟩ := hpiece
      rw [hrk] at heq
      cases hpc : parse mem (cut k) (cut (k + 1)) with
      | error e => rw [hpc] at heq; simp [Except.bind] at heq
      | ok ck =>
        rw [hpc] at heq
        simp only [Except.bind] at heq
        refine ⟨cs ++ [ck], rs ++ [rk], ?_, ?_, ?_⟩
        · have hsl := cslice k (by omega)
          have hk1 : (do let ab ← threadSlice mem size nthread k
                         parse mem ab.1 ab.2 : Res Container) = .ok ck := by
            rw [hsl]; exact hpc
          rw [List.range_succ, List.mapM_append, hcs, List.mapM_cons, hk1]
          rfl
        · rw [List.mapM_append, hrs]
          simp [List.mapM_cons, heq, bind, Except.bind, pure, Except.pure]
        · rw [hrc, hflat]; simp
  obtain ⟨cs, rs, hcs, hrs, hrows⟩ := key nthread (Nat.le_refl _)
  rw [cn, hlen, List.take_length, hwhole] at hrows
  have hfill : fillData parse mem size nthread = .ok cs := by
    unfold fillData
    have : Gen.Parse.fillNonEmpty size = true := by simp [Gen.Parse.fillNonEmpty]; omega
    simp only [this, Bool.not_true, Bool.false_eq_true, if_false]
    rw [← hcs]
  rw [hfill]
  simp only [Except.bind]
  rw [blocksOf_flatten cs rs hrs, ← Except.ok.inj hrows]

end DmlcModel.Parse
