/-
CSVParser::ParseBlock: list-level specification of the cell loop and of the line loop, and the proof
that the pointer model computes them (for NUL-free texts, under the locality contract of `conv.cell`).
-/
import DmlcModel.Parse.Cuts
import DmlcModel.Parse.Svm

namespace DmlcModel.Parse
open DmlcModel

def notDelimB (delim : Nat) (b : UInt8) : Bool := Gen.Parse.csvNotDelim b.toNat delim

/-- the conversion of the cell at the start of `s`: value and number of bytes consumed -/
def csvCellS (gC : Bytes → Res (Nat × Nat)) (s : Bytes) : Res (Nat × Nat) :=
  if (s.dropWhile isCellSpaceB).isEmpty then .ok (0, 0) else gC (s.takeWhile nonStopB)

/-- the cell loop on the bytes `s` that remain of the line -/
def csvCellsS (gC : Bytes → Res (Nat × Nat)) (prm : CsvParam) : Nat → Bytes → CsvLine → Res CsvLine
  | 0, _, _ => .error .oob
  | fuel + 1, s, st =>
    match s with
    | [] => .ok st
    | _ :: _ => do
      let vk ← csvCellS gC s
      let st := csvUpdate prm st vk.1 (vk.2 % 18446744073709551616 != 0)
      let rest := (s.drop vk.2).dropWhile (notDelimB prm.delim)
      if rest.isEmpty && st.idx == 0 then .error .check else
      csvCellsS gC prm fuel (rest.drop 1) st

theorem sub64_add (p k : Nat) (hp : p < 2 ^ 64) : sub64 (p + k) p = k % 18446744073709551616 := by
  unfold sub64
  have : p % 18446744073709551616 = p := Nat.mod_eq_of_lt hp
  rw [this]
  omega

theorem cellSpace_any (s : Bytes) (hs : ∀ b ∈ s, isEolB b = false) (hn : ∀ b ∈ s, b ≠ 0)
    (h : (s.dropWhile isCellSpaceB).isEmpty = false) :
    (s.takeWhile nonStopB).any (fun b => !isLineSpaceB b) = true := by
  have hall : s.takeWhile nonStopB = s := takeWhile_all _ _ (fun b hb => by
    have h1 := hs b hb
    have h2 := hn b hb
    simp [nonStopB, isStopB, h1, h2])
  rw [hall]
  induction s with
  | nil => simp at h
  | cons b s ih =>
    by_cases hb : isCellSpaceB b = true
    · simp only [List.dropWhile, hb] at h
      have := ih (fun x hx => hs x (by simp [hx])) (fun x hx => hn x (by simp [hx])) h
        (takeWhile_all _ _ (fun x hx => by
          have h1 := hs x (by simp [hx]); have h2 := hn x (by simp [hx]); simp [nonStopB, isStopB, h1, h2]))
      simp [this]
    · have h1 := hs b (by simp)
      have : isLineSpaceB b = false := by
        simp [isCellSpaceB, Gen.Parse.isspace, isLineSpaceB, ← UInt8.toNat_inj] at hb ⊢
        omega
      simp [this]

theorem csvCellConv_at {conv : Conv} {gR gI gQ : Bytes → Res Nat} {gC : Bytes → Res (Nat × Nat)}
    (hL : conv.LocalWith gR gI gQ gC) {mem : Bytes} {lend p : Nat} {s : Bytes} (ht : Term mem lend)
    (h : At mem p lend s) (hs : ∀ b ∈ s, isEolB b = false) (hn : ∀ b ∈ s, b ≠ 0) :
    csvCellConv Fixes.repaired conv mem lend p = (csvCellS gC s).map (fun vk => (vk.1, p + vk.2)) := by
  have hfx : Fixes.repaired.csvBlankGuard = true := rfl
  obtain ⟨q, eq, aq⟩ := scan_at (pred := isCellSpaceB) h
  have hql : (q == lend) = (s.dropWhile isCellSpaceB).isEmpty := by
    cases hd : s.dropWhile isCellSpaceB with
    | nil => rw [hd] at aq; have : q = lend := aq.eq_stop_iff.mpr rfl; simp [this]
    | cons x xs =>
      rw [hd] at aq
      have : q ≠ lend := by intro e; have := aq.eq_stop_iff.mp e; simp at this
      simp [this]
  simp only [csvCellConv, csvCellS, hfx, if_true, eq, bind, Except.bind, pure, Except.pure, hql]
  by_cases hbl : (s.dropWhile isCellSpaceB).isEmpty = true
  · simp [hbl, Except.map]
  · simp only [hbl, if_false, Bool.false_eq_true]
    have hrun := runAt_at h ht
    rw [hL.cell mem p (by rw [hrun]; exact cellSpace_any _ hs hn (by simpa using hbl)), hrun]

theorem csvCells_at {conv : Conv} {gR gI gQ : Bytes → Res Nat} {gC : Bytes → Res (Nat × Nat)}
    (hL : conv.LocalWith gR gI gQ gC) (prm : CsvParam) {mem : Bytes} {lend : Nat} (ht : Term mem lend)
    (hr : lend < mem.length) (hb : lend < 2 ^ 64) :
    ∀ (fuel p : Nat) (s : Bytes) (st : CsvLine), At mem p lend s →
      (∀ b ∈ s, isEolB b = false) → (∀ b ∈ s, b ≠ 0) →
      csvCells Fixes.repaired conv prm mem lend fuel p st = csvCellsS gC prm fuel s st := by
  intro fuel
  induction fuel with
  | zero => intro p s st _ _ _; rfl
  | succ fuel ih =>
    intro p s st h hs hn
    cases s with
    | nil =>
      have : p = lend := h.eq_stop_iff.mpr rfl
      simp [csvCells, csvCellsS, this]
    | cons b s =>
      have hne : p ≠ lend := by intro e; have := h.eq_stop_iff.mp e; simp at this
      have hp : p < 2 ^ 64 := by have := h.2; omega
      simp only [csvCells, csvCellsS, hne, if_false, bind, Except.bind, csvCellConv_at hL ht h hs hn]
      cases hg : csvCellS gC (b :: s) with
      | error e => simp [Except.map]
      | ok vk =>
        obtain ⟨v, k⟩ := vk
        simp only [Except.map]
        have hpres : Gen.Parse.csvCellPresent p (p + k) = (k % 18446744073709551616 != 0) := by
          simp [Gen.Parse.csvCellPresent, sub64_add p k hp]
        have hclamp : ∃ q2, Gen.Parse.csvClamp (p + k) lend = q2 ∧ At mem q2 lend ((b :: s).drop k) := by
          have hl := h.2
          by_cases hk : k ≤ (b :: s).length
          · by_cases hk2 : k = (b :: s).length
            · refine ⟨lend, by simp [Gen.Parse.csvClamp]; omega, ?_⟩
              rw [hk2, List.drop_length]; exact At.nil mem lend
            · refine ⟨p + k, by simp [Gen.Parse.csvClamp]; omega, h.drop k hk⟩
          · refine ⟨lend, by simp [Gen.Parse.csvClamp]; omega, ?_⟩
            rw [List.drop_eq_nil_of_le (by omega)]; exact At.nil mem lend
        obtain ⟨q2, hq2, a2⟩ := hclamp
        obtain ⟨q3, e3, a3⟩ := scanRd_at (pred := notDelimB prm.delim) a2 hr
        have e3' : scanRd (fun b => Gen.Parse.csvNotDelim b.toNat prm.delim) mem lend q2 = .ok q3 := e3
        simp only [hq2, e3', hpres]
        cases hrest : ((b :: s).drop k).dropWhile (notDelimB prm.delim) with
        | nil =>
          rw [hrest] at a3
          have hq3 : q3 = lend := a3.eq_stop_iff.mpr rfl
          simp only [hq3, Gen.Parse.csvNoDelimiter, beq_self_eq_true, Bool.true_and, List.isEmpty_nil, bne_self_eq_false,
            Bool.false_eq_true, if_false, List.drop_nil]
          split
          · rfl
          · exact ih lend [] _ (At.nil mem lend) (by simp) (by simp)
        | cons x xs =>
          rw [hrest] at a3
          have hq3 : q3 ≠ lend := by intro e; have := a3.eq_stop_iff.mp e; simp at this
          have hsub : ∀ y ∈ xs, y ∈ b :: s := by
            intro y hy
            have h1 : (x :: xs) <:+ (b :: s) := hrest ▸ (List.dropWhile_suffix _).trans (List.drop_suffix _ _)
            exact h1.subset (by simp [hy])
          simp only [Gen.Parse.csvNoDelimiter, hq3, beq_iff_eq, false_and, Bool.false_and, Bool.false_eq_true, if_false,
            List.isEmpty_cons, bne_iff_ne, ne_eq, not_false_eq_true, if_true, List.drop_one, List.tail_cons,
            decide_false]
          have hq3' : (q3 == lend) = false := by simpa using hq3
          simp only [hq3', Bool.false_and, Bool.false_eq_true, if_false]
          exact ih (q3 + 1) xs _ a3.tail (fun y hy => hs y (hsub y hy)) (fun y hy => hn y (hsub y hy))

end DmlcModel.Parse
