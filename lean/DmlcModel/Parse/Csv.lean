/-
CSVParser::ParseBlock: list-level specification of the cell loop and of the line loop, and the proof
that the pointer model computes them (for NUL-free texts, under the locality contract of `conv.cell`).
-/
import DmlcModel.Parse.Cuts
import DmlcModel.Parse.Svm

namespace DmlcModel.Parse
open DmlcModel

def notDelimB (delim : Nat) (b : UInt8) : Bool := Gen.Parse.csvNotDelim b.toNat delim

/-- the conversion of the cell at the start of `s`: value and number of bytes consumed.  The guard of the repaired
source (fixes/C12-3.diff): nothing but cell space up to the delimiter `delim` or the line end = a missing value -/
def csvCellS (gC : Bytes → Res (Nat × Nat)) (delim : Nat) (s : Bytes) : Res (Nat × Nat) :=
  match s.dropWhile (isCellSpaceNotDelimB delim) with
  | [] => .ok (0, 0)
  | b :: _ => if notDelimB delim b then gC (s.takeWhile nonStopB) else .ok (0, 0)

/-- the cell loop on the bytes `s` that remain of the line -/
def csvCellsS (gC : Bytes → Res (Nat × Nat)) (prm : CsvParam) : Nat → Bytes → CsvLine → Res CsvLine
  | 0, _, _ => .error .oob
  | fuel + 1, s, st =>
    match s with
    | [] => .ok st
    | _ :: _ => do
      let vk ← csvCellS gC prm.delim s
      let st := csvUpdate prm st vk.1 (vk.2 % 18446744073709551616 != 0)
      let rest := (s.drop vk.2).dropWhile (notDelimB prm.delim)
      if rest.isEmpty && st.idx == 0 then .error .check else
      csvCellsS gC prm fuel (rest.drop 1) st

theorem sub64_add (p k : Nat) (hp : p < 2 ^ 64) : sub64 (p + k) p = k % 18446744073709551616 := by
  unfold sub64
  have : p % 18446744073709551616 = p := Nat.mod_eq_of_lt hp
  rw [this]
  omega

/-- a line (no end-of-line byte, no NUL) that holds a byte which is not cell space: the run the conversion is
started on holds a byte that is not line space -/
theorem cellSpace_any (s : Bytes) (hs : ∀ b ∈ s, isEolB b = false) (hn : ∀ b ∈ s, b ≠ 0)
    (h : ∃ b ∈ s, isCellSpaceB b = false) :
    (s.takeWhile nonStopB).any (fun b => !isLineSpaceB b) = true := by
  have hall : s.takeWhile nonStopB = s := takeWhile_all _ _ (fun b hb => by
    have h1 := hs b hb
    have h2 := hn b hb
    simp [nonStopB, isStopB, h1, h2])
  rw [hall]
  obtain ⟨b, hb, hc⟩ := h
  have : isLineSpaceB b = false := by
    simp [isCellSpaceB, Gen.Parse.isspace, isLineSpaceB, ← UInt8.toNat_inj] at hc ⊢
    omega
  exact List.any_eq_true.mpr ⟨b, hb, by simp [this]⟩

theorem csvCellConv_at {conv : Conv} {gR gI gQ : Bytes → Res Nat} {gC : Bytes → Res (Nat × Nat)}
    (hL : conv.LocalWith gR gI gQ gC) (delim : Nat) {mem : Bytes} {lend p : Nat} {s : Bytes} (ht : Term mem lend)
    (h : At mem p lend s) (hs : ∀ b ∈ s, isEolB b = false) (hn : ∀ b ∈ s, b ≠ 0) :
    csvCellConv Fixes.repaired conv delim mem lend p = (csvCellS gC delim s).map (fun vk => (vk.1, p + vk.2)) := by
  have hfx : Fixes.repaired.csvBlankGuard = true := rfl
  have hfx2 : Fixes.repaired.csvDelimGuard = true := rfl
  obtain ⟨q, eq, aq⟩ := scan_at (pred := isCellSpaceNotDelimB delim) h
  simp only [csvCellConv, csvCellS, hfx, hfx2, if_true, eq, bind, Except.bind, pure, Except.pure]
  cases hd : s.dropWhile (isCellSpaceNotDelimB delim) with
  | nil =>
    rw [hd] at aq
    have : q = lend := aq.eq_stop_iff.mpr rfl
    simp [this, Except.map]
  | cons x xs =>
    rw [hd] at aq
    have hq : q ≠ lend := by intro e; have := aq.eq_stop_iff.mp e; simp at this
    have hx : isCellSpaceNotDelimB delim x = false := dropWhile_head_false _ _ _ _ hd
    simp only [hq, if_false, byteAt_at aq]
    by_cases hnd : notDelimB delim x = true
    · have hnd' : Gen.Parse.csvNotDelim x.toNat delim = true := hnd
      have hxc : isCellSpaceB x = false := by simpa [isCellSpaceNotDelimB, hnd'] using hx
      have hxs : x ∈ s := (List.dropWhile_suffix _).subset (by rw [hd]; simp)
      have hrun := runAt_at h ht
      simp only [hnd, hnd', Bool.not_true, Bool.false_eq_true, if_false, if_true]
      rw [hL.cell mem p (by rw [hrun]; exact cellSpace_any _ hs hn ⟨x, hxs, hxc⟩), hrun]
    · have hnd' : Gen.Parse.csvNotDelim x.toNat delim = false := by simpa [notDelimB] using hnd
      simp [hnd, hnd', Except.map]

theorem csvCells_at {conv : Conv} {gR gI gQ : Bytes → Res Nat} {gC : Bytes → Res (Nat × Nat)}
    (hL : conv.LocalWith gR gI gQ gC) (prm : CsvParam) {mem : Bytes} {lend : Nat} (ht : Term mem lend)
    (hr : lend < mem.length) (hb : lend < 2 ^ 64) :
    ∀ (fuel p : Nat) (s : Bytes) (st : CsvLine), At mem p lend s →
      (∀ b ∈ s, isEolB b = false) → (∀ b ∈ s, b ≠ 0) →
      csvCells Fixes.repaired conv prm mem lend fuel p st = csvCellsS gC prm fuel s st := by
  intro fuel
  induction fuel with
  | zero => intro p s st _ _ _; rfl
  | succ fuel ih =>
    intro p s st h hs hn
    cases s with
    | nil =>
      have : p = lend := h.eq_stop_iff.mpr rfl
      simp [csvCells, csvCellsS, this]
    | cons b s =>
      have hne : p ≠ lend := by intro e; have := h.eq_stop_iff.mp e; simp at this
      have hp : p < 2 ^ 64 := by have := h.2; omega
      simp only [csvCells, csvCellsS, hne, if_false, bind, Except.bind, csvCellConv_at hL prm.delim ht h hs hn]
      cases hg : csvCellS gC prm.delim (b :: s) with
      | error e => simp [Except.map]
      | ok vk =>
        obtain ⟨v, k⟩ := vk
        simp only [Except.map]
        have hpres : Gen.Parse.csvCellPresent p (p + k) = (k % 18446744073709551616 != 0) := by
          simp [Gen.Parse.csvCellPresent, sub64_add p k hp]
        have hclamp : ∃ q2, Gen.Parse.csvClamp (p + k) lend = q2 ∧ At mem q2 lend ((b :: s).drop k) := by
          have hl := h.2
          by_cases hk : k ≤ (b :: s).length
          · by_cases hk2 : k = (b :: s).length
            · refine ⟨lend, by simp [Gen.Parse.csvClamp]; omega, ?_⟩
              rw [hk2, List.drop_length]; exact At.nil mem lend
            · refine ⟨p + k, by simp [Gen.Parse.csvClamp]; omega, h.drop k hk⟩
          · refine ⟨lend, by simp [Gen.Parse.csvClamp]; omega, ?_⟩
            rw [List.drop_eq_nil_of_le (by omega)]; exact At.nil mem lend
        obtain ⟨q2, hq2, a2⟩ := hclamp
        obtain ⟨q3, e3, a3⟩ := scanRd_at (pred := notDelimB prm.delim) a2 hr
        have e3' : scanRd (fun b => Gen.Parse.csvNotDelim b.toNat prm.delim) mem lend q2 = .ok q3 := e3
        simp only [hq2, e3', hpres]
        cases hrest : ((b :: s).drop k).dropWhile (notDelimB prm.delim) with
        | nil =>
          rw [hrest] at a3
          have hq3 : q3 = lend := a3.eq_stop_iff.mpr rfl
          simp only [hq3, Gen.Parse.csvNoDelimiter, beq_self_eq_true, Bool.true_and, List.isEmpty_nil, bne_self_eq_false,
            Bool.false_eq_true, if_false, List.drop_nil]
          split
          · rfl
          · exact ih lend [] _ (At.nil mem lend) (by simp) (by simp)
        | cons x xs =>
          rw [hrest] at a3
          have hq3 : q3 ≠ lend := by intro e; have := a3.eq_stop_iff.mp e; simp at this
          have hsub : ∀ y ∈ xs, y ∈ b :: s := by
            intro y hy
            have h1 : (x :: xs) <:+ (b :: s) := hrest ▸ (List.dropWhile_suffix _).trans (List.drop_suffix _ _)
            exact h1.subset (by simp [hy])
          simp only [Gen.Parse.csvNoDelimiter, hq3, beq_iff_eq, false_and, Bool.false_and, Bool.false_eq_true, if_false,
            List.isEmpty_cons, bne_iff_ne, ne_eq, not_false_eq_true, if_true, List.drop_one, List.tail_cons,
            decide_false]
          have hq3' : (q3 == lend) = false := by simpa using hq3
          simp only [hq3', Bool.false_and, Bool.false_eq_true, if_false]
          exact ih (q3 + 1) xs _ a3.tail (fun y hy => hs y (hsub y hy)) (fun y hy => hn y (hsub y hy))

/-! ## the line loop -/

def csvRec (l : CsvLine) : LineRec :=
  { label := l.label, weight := if isNaNBits l.weight then none else some l.weight, qid := none, fields := [],
    idx := l.feats.reverse.map (·.1), vals := l.feats.reverse.map (·.2) }

theorem csvPush_eq (c : Container) (l : CsvLine) : csvPush c l = addRow c (csvRec l) := by
  cases hl : l.label <;> by_cases hw : isNaNBits l.weight = true <;> simp [csvPush, addRow, csvRec, hl, hw]

theorem foldl_csvPush (ls : List CsvLine) (c : Container) : ls.foldl csvPush c = (ls.map csvRec).foldl addRow c := by
  induction ls generalizing c with
  | nil => rfl
  | cons l ls ih => simp only [List.foldl_cons, List.map_cons, ih, csvPush_eq]

/-- `IgnoreUTF8BOM` on the bytes of a line -/
def dropBOM (l : Bytes) : Bytes :=
  if Gen.Parse.bomLen ≤ l.length && (l.take Gen.Parse.bomLen).map UInt8.toNat == Gen.Parse.bomBytes then
    l.drop Gen.Parse.bomLen else l

theorem ignoreBOM_at {mem : Bytes} {p stop : Nat} {S : Bytes} (h : At mem p stop S) :
    At mem (ignoreBOM mem p stop) stop (dropBOM S) := by
  unfold ignoreBOM dropBOM
  have hl := h.2
  have hcond : (p + Gen.Parse.bomLen ≤ stop) = (Gen.Parse.bomLen ≤ S.length) := by
    apply propext; constructor <;> intro hh <;> omega
  by_cases hlen : Gen.Parse.bomLen ≤ S.length
  · have htake : (mem.drop p).take Gen.Parse.bomLen = S.take Gen.Parse.bomLen := by
      rw [h.1, List.take_append_of_le_length hlen]
    simp only [hcond, hlen, decide_true, Bool.true_and, htake]
    by_cases hm : ((S.take Gen.Parse.bomLen).map UInt8.toNat == Gen.Parse.bomBytes) = true
    · simp only [hm, if_true]; exact h.drop _ hlen
    · simp only [hm, if_false, Bool.false_eq_true]; exact h
  · simp only [hcond, hlen, decide_false, Bool.false_and, Bool.false_eq_true, if_false]; exact h

/-- one csv line (repaired source): BOM skip, then the cell loop; a line that is nothing but a BOM is an empty line -/
def csvLineS (gC : Bytes → Res (Nat × Nat)) (prm : CsvParam) (l : Bytes) : Res (Option CsvLine) :=
  match dropBOM l with
  | [] => .ok none
  | c :: l' => (csvCellsS gC prm ((c :: l').length + 1) (c :: l') {}).map some

theorem bom_not_eol : ∀ x ∈ Gen.Parse.bomBytes, x ≠ 10 ∧ x ≠ 13 := by decide

/-- the BOM test looks at the line only: the byte behind the line is an end-of-line byte or nothing -/
theorem dropBOM_append (l R : Bytes) (hR : ∀ b, R.head? = some b → isEolB b = true) :
    dropBOM (l ++ R) = dropBOM l ++ R := by
  unfold dropBOM
  have h3 : Gen.Parse.bomLen = 3 := rfl
  have hb : Gen.Parse.bomBytes = [239, 187, 191] := rfl
  have hhead : ∀ b, R.head? = some b → b.toNat = 10 ∨ b.toNat = 13 := by
    intro b hb'
    have := (isEolB_iff b).mp (hR b hb')
    rcases this with rfl | rfl <;> simp
  rw [h3, hb]
  rcases l with _ | ⟨a, _ | ⟨b, _ | ⟨c, l⟩⟩⟩
  · rcases R with _ | ⟨x, _ | ⟨y, _ | ⟨z, R⟩⟩⟩ <;> simp
    have := hhead x rfl; intro h1; omega
  · rcases R with _ | ⟨x, _ | ⟨y, R⟩⟩ <;> simp
    have := hhead x rfl; intro _ h1; omega
  · rcases R with _ | ⟨x, R⟩ <;> simp
    have := hhead x rfl; intro _ _ h1; omega
  · by_cases hm : a.toNat = 239 ∧ b.toNat = 187 ∧ c.toNat = 191 <;> simp [hm]

def csvLinesOf (S : Bytes) : List Bytes := (eolSplit S).filter fun l => !l.isEmpty

theorem eolSplit_noEolLine (l : Bytes) (h : ∀ b ∈ l, isEolB b = false) : eolSplit l = [l] := by
  have : ∀ cur, eolSplitGo l cur = [cur.reverse ++ l] := by
    induction l with
    | nil => intro cur; simp [eolSplitGo]
    | cons b l ih =>
      intro cur
      simp only [eolSplitGo, h b (by simp), Bool.false_eq_true, if_false]
      rw [ih (fun x hx => h x (by simp [hx]))]; simp
  simpa [eolSplit] using this []

theorem csvLinesOf_nil : csvLinesOf [] = [] := by decide

theorem csvLinesOf_eol (e : UInt8) (X : Bytes) (he : isEolB e = true) : csvLinesOf (e :: X) = csvLinesOf X := by
  simp [csvLinesOf, eolSplit_eol_cons X e he]

theorem csvLinesOf_dropEol (R : Bytes) : csvLinesOf (R.dropWhile isEolB) = csvLinesOf R := by
  induction R with
  | nil => rfl
  | cons e R ih =>
    by_cases he : isEolB e = true
    · simp only [List.dropWhile, he]; rw [ih, csvLinesOf_eol e R he]
    · simp [List.dropWhile, he]

theorem csvLinesOf_line (l R : Bytes) (hl : ∀ b ∈ l, isEolB b = false) (hne : l ≠ [])
    (hR : ∀ b, R.head? = some b → isEolB b = true) :
    csvLinesOf (l ++ R) = l :: csvLinesOf (R.dropWhile isEolB) := by
  rw [csvLinesOf_dropEol]
  cases R with
  | nil =>
    have hne' : l.isEmpty = false := by cases l <;> simp_all
    rw [List.append_nil, csvLinesOf_nil]
    simp [csvLinesOf, eolSplit_noEolLine l hl, hne']
  | cons e R =>
    have he := hR e rfl
    have hne' : l.isEmpty = false := by cases l <;> simp_all
    rw [csvLinesOf_eol e R he]
    simp [csvLinesOf, eolSplit_append_eol l R e he, eolSplit_noEolLine l hl, hne']

theorem mem_takeWhile_pred (pred : UInt8 → Bool) (s : Bytes) (x : UInt8) (h : x ∈ s.takeWhile pred) : pred x = true := by
  induction s with
  | nil => simp at h
  | cons b s ih =>
    by_cases hb : pred b = true
    · simp only [List.takeWhile, hb, List.mem_cons] at h
      rcases h with rfl | h
      · exact hb
      · exact ih h
    · simp [List.takeWhile, hb] at h

theorem dropBOM_suffix (l : Bytes) : dropBOM l <:+ l := by
  unfold dropBOM; split
  · exact List.drop_suffix _ _
  · exact List.suffix_refl _

theorem dropWhile_append_all (pred : UInt8 → Bool) (s R : Bytes) (hs : ∀ b ∈ s, pred b = true)
    (hR : ∀ b, R.head? = some b → pred b = false) : (s ++ R).dropWhile pred = R := by
  rw [dropWhile_append_stop pred s R hR, dropWhile_all pred s hs]; rfl

theorem leadIsEol_fun : (fun b : UInt8 => Gen.Parse.csvLeadIsEol b.toNat) = isEolB := by
  funext b; exact csvLeadIsEol_eq b
theorem trailIsEol_fun : (fun b : UInt8 => Gen.Parse.csvTrailIsEol b.toNat) = isEolB := by
  funext b; exact csvTrailIsEol_eq b
theorem csvNotEol_fun : (fun b : UInt8 => Gen.Parse.csvNotEol b.toNat) = notEolB := by
  funext b; simp [notEolB, csvNotEol_eq]

theorem dropWhile_eol_head (R : Bytes) : ∀ b, (R.dropWhile isEolB).head? = some b → isEolB b = false := by
  intro b hb
  cases hd : R.dropWhile isEolB with
  | nil => rw [hd] at hb; simp at hb
  | cons x xs => rw [hd] at hb; simp at hb; subst hb; exact dropWhile_head_false _ _ _ _ hd

/-- the csv line loop (repaired source) on a NUL-free remainder `S` of the block that does not start with an
end-of-line byte -/
theorem csvLoop_spec {conv : Conv} {gR gI gQ : Bytes → Res Nat} {gC : Bytes → Res (Nat × Nat)}
    (hL : conv.LocalWith gR gI gQ gC) (prm : CsvParam) {mem : Bytes} {stop : Nat}
    (hr : stop < mem.length) (hb : stop < 2 ^ 64) :
    ∀ (fuel lbegin : Nat) (S : Bytes) (c : Container), At mem lbegin stop S → S.length < fuel →
      (∀ b ∈ S, b ≠ 0) → (∀ b, S.head? = some b → isEolB b = false) → TermOr mem stop S →
      csvLoop Fixes.repaired conv prm mem stop fuel lbegin c =
        ((csvLinesOf S).mapM (csvLineS gC prm)).map (fun outs => (outs.filterMap id).foldl csvPush c) := by
  intro fuel
  induction fuel with
  | zero => intro _ _ _ _ hf; omega
  | succ fuel ih =>
    intro lbegin S c h hf hn hh ht
    have hfx : Fixes.repaired.csvBomGuard = true := rfl
    cases S with
    | nil =>
      have : lbegin = stop := h.eq_stop_iff.mpr rfl
      simp [csvLoop, this, csvLinesOf_nil, pure, Except.pure, Except.map]
    | cons b S' =>
      have hne : lbegin ≠ stop := by intro e; have := h.eq_stop_iff.mp e; simp at this
      have hbne : isEolB b = false := hh b rfl
      -- the line and the rest
      have hR : ∀ x, (S'.dropWhile notEolB).head? = some x → isEolB x = true := by
        intro x hx
        cases hd : S'.dropWhile notEolB with
        | nil => rw [hd] at hx; simp at hx
        | cons y r =>
          rw [hd] at hx; simp at hx; subst hx
          have := dropWhile_head_false _ _ _ _ hd
          simpa [notEolB] using this
      have hlEol : ∀ x ∈ b :: S'.takeWhile notEolB, isEolB x = false := by
        intro x hx
        simp at hx
        rcases hx with rfl | hx
        · exact hbne
        · have := mem_takeWhile_pred notEolB S' x hx; simpa [notEolB] using this
      have hSplit : b :: S' = (b :: S'.takeWhile notEolB) ++ S'.dropWhile notEolB := by
        simp [List.takeWhile_append_dropWhile]
      have hlines := csvLinesOf_line (b :: S'.takeWhile notEolB) (S'.dropWhile notEolB) hlEol (by simp) hR
      rw [← hSplit] at hlines
      have hsubl : ∀ x ∈ b :: S'.takeWhile notEolB, x ∈ b :: S' := by
        intro x hx; simp only [List.mem_cons] at hx ⊢; rcases hx with rfl | hx
        · exact Or.inl rfl
        · exact Or.inr ((List.takeWhile_prefix notEolB).subset hx)
      have hsubR : ∀ x ∈ S'.dropWhile notEolB, x ∈ b :: S' := by
        intro x hx; exact List.mem_cons_of_mem _ ((List.dropWhile_suffix notEolB).subset hx)
      have hRlen : ((S'.dropWhile notEolB).dropWhile isEolB).length < fuel := by
        have h1 := (List.dropWhile_suffix (l := S'.dropWhile notEolB) isEolB).length_le
        have h2 := (List.dropWhile_suffix (l := S') notEolB).length_le
        simp at hf; omega
      have hRnul : ∀ x ∈ (S'.dropWhile notEolB).dropWhile isEolB, x ≠ 0 := fun x hx =>
        hn x (hsubR x ((List.dropWhile_suffix _).subset hx))
      have hRterm : TermOr mem stop ((S'.dropWhile notEolB).dropWhile isEolB) :=
        ht.suffix ((List.dropWhile_suffix _).trans ((List.dropWhile_suffix _).trans (List.suffix_cons b S')))
      -- BOM
      have a0 := ignoreBOM_at h
      rw [hSplit, dropBOM_append _ _ hR] at a0
      rw [hlines, List.mapM_cons]
      simp only [csvLoop, hne, if_false, hfx, if_true, bind, Except.bind, pure, Except.pure, leadIsEol_fun,
        trailIsEol_fun, csvNotEol_fun]
      have hsuf := dropBOM_suffix (b :: S'.takeWhile notEolB)
      cases hdb : dropBOM (b :: S'.takeWhile notEolB) with
      | nil =>
        rw [hdb] at a0
        simp only [List.nil_append] at a0
        obtain ⟨q, eq, aq⟩ := scan_at (pred := isEolB) a0
        have htail : csvLoop Fixes.repaired conv prm mem stop fuel q c =
            Except.map (fun outs => List.foldl csvPush c (List.filterMap id outs))
              (match (csvLinesOf ((S'.dropWhile notEolB).dropWhile isEolB)).mapM (csvLineS gC prm) with
               | .error err => .error err
               | .ok v => .ok (none :: v)) := by
          rw [ih q _ c aq hRlen hRnul (dropWhile_eol_head _) hRterm]
          cases ((csvLinesOf ((S'.dropWhile notEolB).dropWhile isEolB)).mapM (csvLineS gC prm)) with
          | error e => rfl
          | ok outs => simp [Except.map]
        cases hRd : S'.dropWhile notEolB with
        | nil =>
          rw [hRd] at a0 htail
          have e0 : ignoreBOM mem lbegin stop = stop := a0.eq_stop_iff.mpr rfl
          simp only [e0, if_true, csvLineS, hdb] at eq ⊢
          simp only [eq]
          exact htail
        | cons x xs =>
          rw [hRd] at a0 htail
          have ne0 : ignoreBOM mem lbegin stop ≠ stop := by intro e; have := a0.eq_stop_iff.mp e; simp at this
          have hx : Gen.Parse.csvLeadIsEol x.toNat = true := by
            rw [csvLeadIsEol_eq]; exact hR x (by rw [hRd]; rfl)
          simp only [ne0, if_false, byteAt_at a0, hx, if_true, csvLineS, hdb, eq]
          rw [htail]
          cases ((csvLinesOf ((x :: xs).dropWhile isEolB)).mapM (csvLineS gC prm)) <;> rfl
      | cons c0 l'' =>
        rw [hdb] at a0 hsuf
        have hc0 : ∀ x ∈ c0 :: l'', x ∈ b :: S'.takeWhile notEolB := fun x hx => hsuf.subset hx
        have hne0 : ignoreBOM mem lbegin stop ≠ stop := by intro e; have := a0.eq_stop_iff.mp e; simp at this
        have a0' : At mem (ignoreBOM mem lbegin stop) stop (c0 :: (l'' ++ S'.dropWhile notEolB)) := by simpa using a0
        obtain ⟨lend, e1, a1⟩ := scan_at (pred := notEolB) a0'.tail
        rw [dropWhile_append_all notEolB l'' _ (fun x hx => by
              have := hlEol x (hc0 x (by simp [hx])); simp [notEolB, this])
            (fun x hx => by simp [notEolB, hR x hx])] at a1
        have aL : At mem (ignoreBOM mem lbegin stop) lend (c0 :: l'') := by
          have : At mem (ignoreBOM mem lbegin stop) stop ((c0 :: l'') ++ S'.dropWhile notEolB) := a0
          exact this.unappend a1
        have htl : Term mem lend := by
          cases hd : S'.dropWhile notEolB with
          | cons y r => rw [hd] at a1; exact term_of_rest' a1 (hR y (by rw [hd]; rfl))
          | nil =>
            rw [hd] at a1
            have hls : lend = stop := a1.eq_stop_iff.mpr rfl
            rcases ht with ht | ht | ⟨e0, he0, hee0⟩
            · exact hls ▸ ht
            · simp at ht
            · have hall := dropWhile_nil_all notEolB S' hd
              have hmem : e0 ∈ b :: S' := List.mem_of_getLast? he0
              simp at hmem
              rcases hmem with rfl | hmem
              · rw [hbne] at hee0; cases hee0
              · have := hall e0 hmem; simp [notEolB, hee0] at this
        have hlend : lend ≤ stop := by have := a1.2; omega
        have hfuel : lend + 1 - ignoreBOM mem lbegin stop = (c0 :: l'').length + 1 := by have := aL.2; omega
        obtain ⟨q, eq, aq⟩ := scanRd_at (pred := isEolB) a1 hr
        have hc0e : Gen.Parse.csvLeadIsEol c0.toNat = false := by
          rw [csvLeadIsEol_eq]; exact hlEol c0 (hc0 c0 (by simp))
        simp only [hne0, byteAt_at a0', hc0e, Bool.false_eq_true, if_false, e1, hfuel,
          csvCells_at hL prm htl (by omega) (by omega) _ _ _ _ aL
            (fun x hx => hlEol x (hc0 x hx)) (fun x hx => hn x (hsubl x (hc0 x hx))), csvLineS, hdb]
        cases hcl : csvCellsS gC prm ((c0 :: l'').length + 1) (c0 :: l'') {} with
        | error e => simp [Except.map]
        | ok cl =>
          simp only [eq, Except.map]
          rw [ih q _ _ aq hRlen hRnul (dropWhile_eol_head _) hRterm]
          cases ((csvLinesOf ((S'.dropWhile notEolB).dropWhile isEolB)).mapM (csvLineS gC prm)) with
          | error e => rfl
          | ok outs => simp [Except.map]

/-! ## the block -/

theorem flatMap_toList_length_le (g : LineRec → Option Nat) (recs : List LineRec) :
    (recs.flatMap (fun r => (g r).toList)).length ≤ recs.length := by
  induction recs with
  | nil => simp
  | cons r rs ih =>
    cases h : g r
    · simp only [List.flatMap_cons, h, Option.toList_none, List.nil_append, List.length_cons]; omega
    · simp only [List.flatMap_cons, h, Option.toList_some, List.singleton_append, List.length_cons]; omega

/-- the two CHECKs that close `CSVParser::ParseBlock` are repeated by `GetBlock` (C13-1): a block that fails
them is rejected either way -/
theorem csv_checks_absorb (recs : List LineRec) (hb : recs.length + 2 < 2 ^ 64) :
    ((if !Gen.Parse.csvLabelCheck (build recs).label.length (build recs).offset.length then (.error .check : Res Container)
      else if !Gen.Parse.csvWeightCheck (build recs).weight.length (build recs).offset.length then .error .check
      else pure (build recs)).bind rowsOf) = rowsOf (build recs) := by
  have hlab : (build recs).label.length ≤ recs.length := by rw [build_eq]; exact flatMap_toList_length_le _ recs
  have hoff : (build recs).offset.length = recs.length + 1 := by rw [build_eq]; simp [sums_length]
  have hlast : (build recs).offset.getLast? = some (recs.flatMap (·.idx)).length := by
    rw [build_eq]; simpa using getLast_sums 0 recs
  have hmod : ((build recs).label.length + 1) % 18446744073709551616 = (build recs).label.length + 1 :=
    Nat.mod_eq_of_lt (by omega)
  by_cases h1 : Gen.Parse.csvLabelCheck (build recs).label.length (build recs).offset.length = true
  · by_cases h2 : Gen.Parse.csvWeightCheck (build recs).weight.length (build recs).offset.length = true
    · simp [h1, h2, pure, Except.pure, Except.bind]
    · have hg : getBlockOk (build recs) = false := by
        have h2' : Gen.Parse.gbWeightCheck (build recs).weight.length (build recs).offset.length = false := by
          have : Gen.Parse.gbWeightCheck (build recs).weight.length (build recs).offset.length
              = Gen.Parse.csvWeightCheck (build recs).weight.length (build recs).offset.length := rfl
          rw [this]; simpa using h2
        simp [getBlockOk, hlast, h2']
      simp [h1, h2, Except.bind, rowsOf, hg]
  · have hg : getBlockOk (build recs) = false := by
      have : ((build recs).label.length == 0 || (build recs).label.length + 1 == (build recs).offset.length) = false := by
        simp only [Gen.Parse.csvLabelCheck, u64, hmod] at h1
        simpa using h1
      simp [getBlockOk, hlast, this]
    simp [h1, Except.bind, rowsOf, hg]

def csvRowsAt (fx : Fixes) (conv : Conv) (prm : CsvParam) (mem : Bytes) (a b : Nat) : Res (List Row) :=
  (csvBlock fx conv prm mem a b).bind rowsOf

def csvRows (fx : Fixes) (conv : Conv) (prm : CsvParam) (t : Bytes) : Res (List Row) :=
  csvRowsAt fx conv prm (t ++ [0]) 0 t.length

theorem csvLinesOf_length (t : Bytes) : (csvLinesOf t).length ≤ t.length := by
  have h2 : ∀ s cur, ((eolSplitGo s cur).filter fun l => !l.isEmpty).length ≤ s.length + (if cur.isEmpty then 0 else 1) := by
    intro s
    induction s with
    | nil => intro cur; cases cur <;> simp [eolSplitGo]
    | cons b s ih =>
      intro cur
      by_cases hb : isEolB b = true
      · have := ih []
        cases cur with
        | nil => simp [eolSplitGo, hb] at this ⊢; omega
        | cons c cur =>
          simp only [eolSplitGo, hb, if_true, List.filter_cons]
          simp at this ⊢; omega
      · have := ih (b :: cur)
        simp only [eolSplitGo, hb, Bool.false_eq_true, if_false]
        simp at this ⊢; split <;> omega
  have := h2 t []
  simpa [csvLinesOf, eolSplit] using this

theorem csv_block_eq_at {conv : Conv} {gR gI gQ : Bytes → Res Nat} {gC : Bytes → Res (Nat × Nat)}
    (hL : conv.LocalWith gR gI gQ gC) (prm : CsvParam) {mem : Bytes} {a b : Nat} {t : Bytes}
    (hAt : At mem a b t) (hT : TermOr mem b t) (hr : b < mem.length) (hb : b < 2 ^ 64) (hlen : t.length + 2 < 2 ^ 64)
    (hn : ∀ x ∈ t, x ≠ 0) :
    csvRowsAt Fixes.repaired conv prm mem a b =
      ((csvLinesOf t).mapM (csvLineS gC prm)).bind fun outs => rowsOf (build ((outs.filterMap id).map csvRec)) := by
  obtain ⟨q, eq, aq⟩ := scan_at (pred := isEolB) hAt
  have hfuel : (t.dropWhile isEolB).length < mem.length + 2 - q := by have := aq.2; omega
  have hloop := csvLoop_spec hL prm hr hb (mem.length + 2 - q) q _ {} aq hfuel
    (fun x hx => hn x ((List.dropWhile_suffix _).subset hx)) (dropWhile_eol_head t) (hT.suffix (List.dropWhile_suffix _))
  unfold csvRowsAt csvBlock
  simp only [leadIsEol_fun, eq, bind, Except.bind, hloop, csvLinesOf_dropEol]
  cases hm : (csvLinesOf t).mapM (csvLineS gC prm) with
  | error e => simp [Except.map]
  | ok outs =>
    have hl1 : (outs.filterMap id).length ≤ t.length := by
      have h1 := List.length_filterMap_le id outs
      have h2 := mapM_length _ _ _ hm
      have h3 := csvLinesOf_length t
      omega
    simp only [Except.map, foldl_csvPush]
    exact csv_checks_absorb ((outs.filterMap id).map csvRec) (by simp; omega)

/-! ## csv as a `LineFormat` (NUL-free texts) -/

def nonNulB (b : UInt8) : Bool := b != 0

def csvRecS (gC : Bytes → Res (Nat × Nat)) (prm : CsvParam) (L : Bytes) : Res (Option LineRec) :=
  (csvLineS gC prm (L.dropWhile isEolB)).map (Option.map csvRec)

theorem codeLinesGo_tail (s cur : Bytes) (hc : ∀ x ∈ cur.reverse.tail, isEolB x = false) :
    ∀ L ∈ codeLinesGo s cur, ∀ x ∈ L.tail, isEolB x = false := by
  induction s generalizing cur with
  | nil => intro L hL; simp [codeLinesGo] at hL; subst hL; exact hc
  | cons b s ih =>
    intro L hL
    by_cases hb : isEolB b = true
    · simp only [codeLinesGo, hb, if_true, List.mem_cons] at hL
      rcases hL with rfl | hL
      · exact hc
      · exact ih [b] (by simp) L hL
    · simp only [codeLinesGo, hb, Bool.false_eq_true, if_false] at hL
      refine ih (b :: cur) ?_ L hL
      intro x hx
      simp only [List.reverse_cons] at hx
      cases hcr : cur.reverse with
      | nil => rw [hcr] at hx; simp at hx
      | cons y ys =>
        rw [hcr] at hx hc
        simp at hx hc
        rcases hx with hx | rfl
        · exact hc x hx
        · simpa using hb

theorem codeLines_dropEol (t : Bytes) : ∀ L ∈ codeLines t, L.dropWhile isEolB = stripEol L := by
  intro L hL
  have htail : ∀ x ∈ L.tail, isEolB x = false := by
    cases t with
    | nil => simp [codeLines] at hL
    | cons b s => exact codeLinesGo_tail s [b] (by simp) L hL
  cases L with
  | nil => rfl
  | cons b s =>
    by_cases hb : isEolB b = true
    · simp only [List.dropWhile, hb, stripEol, if_true]
      cases s with
      | nil => rfl
      | cons c s => simp [List.dropWhile, htail c (by simp)]
    · simp [List.dropWhile, hb, stripEol]

theorem csvLinesOf_codeLines (t : Bytes) :
    csvLinesOf t = ((codeLines t).map fun L => L.dropWhile isEolB).filter fun l => !l.isEmpty := by
  have hmap : (codeLines t).map (fun L => L.dropWhile isEolB) = (codeLines t).map stripEol :=
    List.map_congr_left (codeLines_dropEol t)
  rw [hmap, csvLinesOf, codeLines_strip t]
  cases t with
  | nil => simp [codeLines]
  | cons b s => by_cases hb : isEolB b = true <;> simp [hb]

theorem mapM_filter_none {α β : Type} (f : α → Res (Option β)) (p : α → Bool) (xs : List α)
    (h : ∀ x, p x = false → f x = .ok none) :
    ((xs.filter p).mapM f).map (List.filterMap id) = (xs.mapM f).map (List.filterMap id) := by
  induction xs with
  | nil => rfl
  | cons x xs ih =>
    by_cases hp : p x = true
    · simp only [List.filter_cons, hp, if_true, List.mapM_cons, bind, Except.bind]
      cases f x with
      | error e => rfl
      | ok o =>
        simp only
        cases h1 : (xs.filter p).mapM f <;> cases h2 : xs.mapM f <;> simp [h1, h2, Except.map, pure, Except.pure] at ih ⊢
        · exact ih
        · cases o <;> simp [ih]
    · have hf := h x (by simpa using hp)
      simp only [List.filter_cons, hp, Bool.false_eq_true, if_false, List.mapM_cons, hf, bind, Except.bind, ih]
      cases xs.mapM f <;> simp [Except.map, pure, Except.pure]

theorem csvLineS_nil (gC : Bytes → Res (Nat × Nat)) (prm : CsvParam) : csvLineS gC prm [] = .ok none := by
  simp [csvLineS, dropBOM]

theorem csv_block_eq {conv : Conv} {gR gI gQ : Bytes → Res Nat} {gC : Bytes → Res (Nat × Nat)}
    (hL : conv.LocalWith gR gI gQ gC) (prm : CsvParam) (t : Bytes) (hn : ∀ b ∈ t, nonNulB b = true)
    (hb : t.length + 2 < 2 ^ 64) :
    csvRows Fixes.repaired conv prm t =
      ((codeLines t).mapM (csvRecS gC prm)).bind fun outs => rowsOf (build (outs.filterMap id)) := by
  have h0 := csv_block_eq_at hL prm (At.whole t [0]) (Or.inl (term_whole t)) (by simp) (by omega) hb
    (fun x hx => by simpa [nonNulB] using hn x hx)
  unfold csvRows; rw [h0]
  have hrec : csvRecS gC prm = fun L => (csvLineS gC prm (L.dropWhile isEolB)).map (Option.map csvRec) := by
    funext L; rfl
  have hC := mapM_filter_none (csvLineS gC prm) (fun l => !l.isEmpty) ((codeLines t).map fun L => L.dropWhile isEolB)
    (fun x hx => by
      have : x = [] := by cases x <;> simp_all
      subst this; exact csvLineS_nil gC prm)
  rw [← csvLinesOf_codeLines, mapM_map'] at hC
  rw [hrec, mapM_map_res]
  cases h1 : (csvLinesOf t).mapM (csvLineS gC prm) <;>
    cases h2 : (codeLines t).mapM (fun x => csvLineS gC prm (x.dropWhile isEolB)) <;>
    simp [h1, h2, Except.map] at hC ⊢
  · simp [Except.bind, hC]
  · simp only [Except.bind, filterMap_map_option, hC]

theorem csvRecS_strip (gC : Bytes → Res (Nat × Nat)) (prm : CsvParam) (L : Bytes) :
    csvRecS gC prm (stripEol L) = csvRecS gC prm L := by
  have : (stripEol L).dropWhile isEolB = L.dropWhile isEolB := by
    cases L with
    | nil => rfl
    | cons b s => by_cases hb : isEolB b = true <;> simp [stripEol, hb, List.dropWhile]
  unfold csvRecS; rw [this]

theorem csv_lineFormat {conv : Conv} {gR gI gQ : Bytes → Res Nat} {gC : Bytes → Res (Nat × Nat)}
    (hL : conv.LocalWith gR gI gQ gC) (prm : CsvParam) :
    LineFormat nonNulB (csvRows Fixes.repaired conv prm) (csvRecS gC prm) :=
  LineFormat.ofBlockEq (csv_block_eq hL prm) (csvRecS_strip gC prm)
    (by simp [csvRecS, csvLineS_nil, Except.map])
    (Or.inl (fun L r h => by
      simp only [csvRecS] at h
      cases hs : csvLineS gC prm (L.dropWhile isEolB) with
      | error e => simp [hs, Except.map] at h
      | ok o =>
        cases o with
        | none => simp [hs, Except.map] at h
        | some l => simp [hs, Except.map] at h; subst h; rfl))

end DmlcModel.Parse
