/-
LibSVMParser::ParseBlock as a `LineFormat`: the block is a fold of line records over its code lines.
-/
import DmlcModel.Parse.Concat

namespace DmlcModel.Parse
open DmlcModel

/-- optional push of one line -/
def pushOpt {α : Type} (push : Container → α → Container) (c : Container) (o : Option α) : Container :=
  match o with | some l => push c l | none => c

theorem foldlM_stepLine {α : Type} (lineS : Bytes → Res (Option α)) (push : Container → α → Container)
    (Ls : List Bytes) (c : Container) :
    Ls.foldlM (stepLine lineS push) c = (Ls.mapM lineS).map (fun outs => outs.foldl (pushOpt push) c) := by
  induction Ls generalizing c with
  | nil => simp [pure, Except.pure, Except.map]
  | cons L Ls ih =>
    simp only [List.foldlM_cons, List.mapM_cons, stepLine, bind, Except.bind]
    cases hL : lineS L with
    | error e => simp [Except.map]
    | ok o =>
      simp only [Except.map]
      rw [ih]
      cases Ls.mapM lineS with
      | error e => simp [Except.map]
      | ok outs => cases o <;> simp [Except.map, pushOpt, pure, Except.pure]

theorem foldl_pushOpt {α : Type} (push : Container → α → Container) (outs : List (Option α)) (c : Container) :
    outs.foldl (pushOpt push) c = (outs.filterMap id).foldl push c := by
  induction outs generalizing c with
  | nil => rfl
  | cons o outs ih => cases o <;> simp [pushOpt, ih]

theorem mapM_map_res {α β γ : Type} (f : α → Res β) (g : β → γ) (xs : List α) :
    xs.mapM (fun x => (f x).map g) = (xs.mapM f).map (List.map g) := by
  induction xs with
  | nil => simp [pure, Except.pure, Except.map]
  | cons x xs ih =>
    simp only [List.mapM_cons, ih, bind, Except.bind]
    cases f x with
    | error e => simp [Except.map]
    | ok y =>
      cases xs.mapM f with
      | error e => simp [Except.map]
      | ok ys => simp [Except.map, pure, Except.pure]

theorem filterMap_map_option {α β : Type} (g : α → β) (outs : List (Option α)) :
    (outs.map (Option.map g)).filterMap id = (outs.filterMap id).map g := by
  induction outs with
  | nil => rfl
  | cons o outs ih => cases o <;> simp [ih]

/-! ### records of libsvm lines; the offset push "before the row" versus "after the row" -/

def svmRec (l : SvmLine) : LineRec :=
  { label := some l.label, weight := l.weight, qid := l.qid, fields := [],
    idx := l.feats.map (·.1), vals := l.feats.filterMap (·.2) }

/-- the final `offset.push_back(index.size())` of ParseBlock -/
def finish (c : Container) : Container :=
  if Gen.Parse.svmPushOffset c.label.length then { c with offset := c.offset ++ [c.index.length] } else c

theorem svmPushOffset_eq (n : Nat) : Gen.Parse.svmPushOffset n = (n != 0) := rfl
theorem fmPushOffset_eq (n : Nat) : Gen.Parse.fmPushOffset n = (n != 0) := rfl

theorem finish_svmPush (c : Container) (l : SvmLine) : finish (svmPush c l) = addRow (finish c) (svmRec l) := by
  cases hw : l.weight <;> cases hq : l.qid <;> by_cases hc : c.label.length = 0 <;>
    simp [finish, svmPush, addRow, svmRec, svmPushOffset_eq, hw, hq, hc]

theorem finish_foldl_svmPush (ls : List SvmLine) (c : Container) :
    finish (ls.foldl svmPush c) = (ls.map svmRec).foldl addRow (finish c) := by
  induction ls generalizing c with
  | nil => rfl
  | cons l ls ih => simp only [List.foldl_cons, List.map_cons, ih, finish_svmPush]

theorem finish_empty : finish {} = {} := by simp [finish, svmPushOffset_eq]

/-! ### index shift -/

def decRecIdx (iw : Nat) (r : LineRec) : LineRec := { r with idx := r.idx.map (decIdx iw) }
def decRecBoth (iw : Nat) (r : LineRec) : LineRec :=
  { r with idx := r.idx.map (decIdx iw), fields := r.fields.map (decIdx iw) }

theorem sums_map (g : LineRec → LineRec) (hg : ∀ r, (g r).idx.length = r.idx.length) (n : Nat) (recs : List LineRec) :
    sums n (recs.map g) = sums n recs := by
  induction recs generalizing n with
  | nil => rfl
  | cons r rs ih => simp [sums, hg, ih]

theorem flatMap_map_idx (f : Nat → Nat) (recs : List LineRec) :
    (recs.flatMap (·.idx)).map f = recs.flatMap (fun r => r.idx.map f) := by
  induction recs with
  | nil => rfl
  | cons r rs ih => simp [ih]

theorem flatMap_map_fields (f : Nat → Nat) (recs : List LineRec) :
    (recs.flatMap (·.fields)).map f = recs.flatMap (fun r => r.fields.map f) := by
  induction recs with
  | nil => rfl
  | cons r rs ih => simp [ih]

theorem build_decIdx (iw : Nat) (recs : List LineRec) :
    { build recs with index := (build recs).index.map (decIdx iw) } = build (recs.map (decRecIdx iw)) := by
  rw [build_eq, build_eq, sums_map _ (by simp [decRecIdx])]
  simp [decRecIdx, List.flatMap_map, flatMap_map_idx]

theorem build_decBoth (iw : Nat) (recs : List LineRec) :
    { build recs with index := (build recs).index.map (decIdx iw), field := (build recs).field.map (decIdx iw) }
      = build (recs.map (decRecBoth iw)) := by
  rw [build_eq, build_eq, sums_map _ (by simp [decRecBoth])]
  simp [decRecBoth, List.flatMap_map, flatMap_map_idx, flatMap_map_fields]

theorem build_label_length (recs : List LineRec) (h : ∀ r ∈ recs, r.label.isSome = true) :
    (build recs).label.length = recs.length ∧ (build recs).offset.length = recs.length + 1 := by
  rw [build_eq]
  exact ⟨flatMap_toList_some_length _ recs h, by simp [sums_length]⟩

theorem svmDecrement_eq (mode : Nat) (b : Bool) (m : Nat) : Gen.Parse.svmDecrement mode b m = decide (mode > 0) := by
  simp [Gen.Parse.svmDecrement]

theorem fmDecrement_eq (mode : Nat) (b : Bool) (m : Nat) (b2 : Bool) (m2 : Nat) :
    Gen.Parse.fmDecrement mode b m b2 m2 = decide (mode > 0) := by
  simp [Gen.Parse.fmDecrement]

theorem endCheck_ok (n : Nat) (hb : n + 1 < 2 ^ 64) : Gen.Parse.svmEndCheck n (n + 1) = true := by
  simp [Gen.Parse.svmEndCheck, u64, Nat.mod_eq_of_lt hb]

theorem fmEndCheck_ok (n : Nat) (hb : n + 1 < 2 ^ 64) : Gen.Parse.fmEndCheck n (n + 1) = true := by
  simp [Gen.Parse.fmEndCheck, u64, Nat.mod_eq_of_lt hb]

theorem term_whole (t : Bytes) : Term (t ++ [0]) t.length := by
  intro b hb
  simp at hb
  subst hb
  rfl

/-! ### a line that is nothing but an end-of-line byte (the last line of a block that ends with one) -/

theorem parsePair_r0 (fx : Fixes) (c1 c2 : Bytes → Nat → Res Nat) {mem : Bytes} {p stop : Nat} {s : Bytes}
    (h : At mem p stop s) (hs : s.dropWhile notDigitCharB = []) :
    parsePair fx c1 c2 mem p stop = .ok { r := 0, endp := stop } := by
  obtain ⟨q, eq, aq⟩ := scan_at (pred := notDigitCharB) h
  rw [hs] at aq
  have : q = stop := aq.eq_stop_iff.mpr rfl
  unfold parsePair
  simp [eq, this, bind, Except.bind, pure, Except.pure]

theorem svmLine_lone {conv : Conv} {mem : Bytes} {lbegin lend stop : Nat} {e : UInt8}
    (h : At mem lbegin lend [e]) (he : isEolB e = true) (gR gI gQ : Bytes → Res Nat) :
    svmLine Fixes.repaired conv mem lbegin lend stop = svmLineS gR gI gQ [e] := by
  obtain ⟨p1, e1, a1⟩ := scan_at (pred := isEolB) h
  have hd : ([e] : Bytes).dropWhile isEolB = [] := by simp [List.dropWhile, he]
  rw [hd] at a1
  obtain ⟨p2, e2, a2⟩ := icb_at a1
  have hi : icbS [] = [] := rfl
  rw [hi] at a2
  have hfx1 : Fixes.repaired.svmEolSkip = true := rfl
  have hp := parsePair_r0 Fixes.repaired conv.real conv.real a2 (by rfl)
  unfold svmLine svmLineS
  simp [hfx1, e1, e2, hp, hd, hi, pairS, bind, Except.bind, pure, Except.pure, Gen.Parse.svmEmptyLine]

/-! ### the block -/

/-- the rows of `LibSVMParser<iw>::ParseBlock(mem + a, mem + b)` (mode = indexing_mode) -/
def svmRowsAt (fx : Fixes) (conv : Conv) (iw mode : Nat) (mem : Bytes) (a b : Nat) : Res (List Row) :=
  (svmBlock fx conv iw mode mem a b).bind rowsOf

def svmRows (fx : Fixes) (conv : Conv) (iw mode : Nat) (t : Bytes) : Res (List Row) :=
  svmRowsAt fx conv iw mode (t ++ [0]) 0 t.length

def svmRecS (gR gI gQ : Bytes → Res Nat) (iw mode : Nat) (L : Bytes) : Res (Option LineRec) :=
  (svmLineS gR gI gQ L).map (Option.map fun l => if mode > 0 then decRecIdx iw (svmRec l) else svmRec l)

theorem svmLineS_strip (gR gI gQ : Bytes → Res Nat) (L : Bytes) : svmLineS gR gI gQ (stripEol L) = svmLineS gR gI gQ L := by
  have : (stripEol L).dropWhile isEolB = L.dropWhile isEolB := by
    cases L with
    | nil => rfl
    | cons b s => by_cases hb : isEolB b = true <;> simp [stripEol, hb, List.dropWhile]
  unfold svmLineS; rw [this]

theorem svmLineS_nil (gR gI gQ : Bytes → Res Nat) : svmLineS gR gI gQ [] = .ok none := by
  simp [svmLineS, icbS, pairS, bind, Except.bind, pure, Except.pure, Gen.Parse.svmEmptyLine]

theorem svm_block_eq_at {conv : Conv} {gR gI gQ : Bytes → Res Nat} {gC : Bytes → Res (Nat × Nat)}
    (hL : conv.LocalWith gR gI gQ gC) (iw mode : Nat) {mem : Bytes} {a b : Nat} {t : Bytes}
    (hAt : At mem a b t) (hT : TermOr mem b t) (hb : (codeLines t).length + 2 < 2 ^ 64) :
    svmRowsAt Fixes.repaired conv iw mode mem a b =
      ((codeLines t).mapM (svmRecS gR gI gQ iw mode)).bind fun outs => rowsOf (build (outs.filterMap id)) := by
  have hpred : (fun b : UInt8 => Gen.Parse.svmNotEol b.toNat) = notEolB := by
    funext b; simp [notEolB, svmNotEol_eq]
  have hloop := lineLoop_spec (line := fun lbegin lend => svmLine Fixes.repaired conv mem lbegin lend b)
    (lineS := svmLineS gR gI gQ) (push := svmPush)
    (fun p q L R hL' hR hRh hT => by
      rcases hT with hT | ⟨e, rfl, he⟩
      · exact svmLine_at hL hL' hR hRh hT
      · exact svmLine_lone hL' he gR gI gQ)
    (b + 1 - a) a t {} hAt (by have := hAt.2; omega) hT
  unfold svmRowsAt svmBlock svmLoop
  have hrec : svmRecS gR gI gQ iw mode = fun L => (svmLineS gR gI gQ L).map
      (Option.map fun l => if mode > 0 then decRecIdx iw (svmRec l) else svmRec l) := by
    funext L; rfl
  rw [hpred, hloop, foldlM_stepLine, hrec, mapM_map_res]
  cases hm : (codeLines t).mapM (svmLineS gR gI gQ) with
  | error e => simp [Except.map, Except.bind, bind]
  | ok outs =>
    have hlen : (outs.filterMap id).length ≤ (codeLines t).length := by
      have h1 := List.length_filterMap_le id outs
      have h2 := mapM_length _ _ _ hm
      omega
    simp only [Except.map, bind, Except.bind, foldl_pushOpt, filterMap_map_option]
    have hfin := finish_foldl_svmPush (outs.filterMap id) {}
    rw [finish_empty] at hfin
    have hfin' : (if Gen.Parse.svmPushOffset ((outs.filterMap id).foldl svmPush {}).label.length = true then
        { (outs.filterMap id).foldl svmPush {} with
          offset := ((outs.filterMap id).foldl svmPush {}).offset ++ [((outs.filterMap id).foldl svmPush {}).index.length] }
        else (outs.filterMap id).foldl svmPush {}) = build ((outs.filterMap id).map svmRec) := hfin
    rw [hfin']
    have hlab := build_label_length ((outs.filterMap id).map svmRec) (by intro r hr; simp at hr; obtain ⟨l, _, rfl⟩ := hr; rfl)
    simp only [List.length_map] at hlab
    rw [hlab.1, hlab.2, endCheck_ok _ (by omega), svmDecrement_eq]
    by_cases hmode : mode > 0
    · simp only [hmode, decide_true, Bool.not_true, Bool.false_eq_true, if_false, if_true, pure, Except.pure]
      rw [build_decIdx, List.map_map]; rfl
    · simp only [hmode, decide_false, Bool.not_true, Bool.false_eq_true, if_false, pure, Except.pure]

theorem svm_block_eq {conv : Conv} {gR gI gQ : Bytes → Res Nat} {gC : Bytes → Res (Nat × Nat)}
    (hL : conv.LocalWith gR gI gQ gC) (iw mode : Nat) (t : Bytes) (hb : (codeLines t).length + 2 < 2 ^ 64) :
    svmRows Fixes.repaired conv iw mode t =
      ((codeLines t).mapM (svmRecS gR gI gQ iw mode)).bind fun outs => rowsOf (build (outs.filterMap id)) :=
  svm_block_eq_at hL iw mode (At.whole t [0]) (Or.inl (term_whole t)) hb

theorem svm_lineFormat {conv : Conv} {gR gI gQ : Bytes → Res Nat} {gC : Bytes → Res (Nat × Nat)}
    (hL : conv.LocalWith gR gI gQ gC) (iw mode : Nat) :
    LineFormat (fun _ => true) (svmRows Fixes.repaired conv iw mode) (svmRecS gR gI gQ iw mode) :=
  LineFormat.ofBlockEq (fun t _ hb => svm_block_eq hL iw mode t (by have := codeLines_length t; omega))
    (fun L => by simp [svmRecS, svmLineS_strip])
    (by simp [svmRecS, svmLineS_nil, Except.map])
    (Or.inl (fun L r h => by
      simp only [svmRecS] at h
      cases hs : svmLineS gR gI gQ L with
      | error e => simp [hs, Except.map] at h
      | ok o =>
        cases o with
        | none => simp [hs, Except.map] at h
        | some l =>
          simp [hs, Except.map] at h
          by_cases hm : mode > 0 <;> simp [hm] at h <;> subst h <;> simp [decRecIdx, svmRec]))

end DmlcModel.Parse
