/-
Length bound for the chunks of a text InputSplit part (bridge C03 → C11): every chunk `NextChunk` hands out is a
piece of what the part still has to deliver, so it is no longer than the drain measure `drainM` of the state it
is taken from; for the fresh state of part `k` that measure is the length of the part's byte stream
(`rangeStream`, at most every second byte an injected newline) plus one.  Hence no chunk is longer than
`2 * totalSize files + 1`.
-/
import DmlcModel.Parse.SplitBridge

namespace DmlcModel.Parse
open DmlcModel

open DmlcModel.Split in
/-- one `NextRecord` / `NextChunk` loop whose `Extract` preserves the length of the piece it takes: the blob is
paid for by the drain measure -/
theorem nextLoop_len (ext : Chunk → Except Split.Err (Option (Bytes × Chunk))) (R : Bytes → Bytes → Prop)
    (hX : ExtOk ext R) (hR : ∀ b pre, R b pre → b.length = pre.length) :
    ∀ (fuel : Nat) (s s' : Base) (b : Bytes), nextLoop Fmt.text ext fuel s = .ok (some b, s') → TInv s →
      b.length + drainM s' ≤ drainM s := by
  intro fuel
  induction fuel with
  | zero => intro s s' b h; rw [nextLoop_zero] at h; cases h
  | succ fuel ih =>
    intro s s' b h hinv
    rw [nextLoop_succ] at h
    cases hx : ext s.chunk with
    | error e => rw [hx] at h; simp only [nextStep] at h; cases h
    | ok o =>
      cases o with
      | some bc =>
        obtain ⟨b0, c⟩ := bc
        rw [hx] at h; simp only [nextStep] at h
        cases h
        obtain ⟨_, _, pre, h1, _, _, _, h5⟩ := ext_text ext R hX s b c hx hinv
        have hl := hR b pre h1
        have e : ahead Fmt.text { s with chunk := c } = ahead Fmt.text s := rfl
        have hlen := congrArg List.length h5
        rw [List.length_append] at hlen
        unfold drainM
        rw [e]
        omega
      | none =>
        have he := hX.1 _ hx
        cases hl : load Fmt.text s s.chunk with
        | error e => rw [hx, hl] at h; simp only [nextStep] at h; cases h
        | ok res =>
          obtain ⟨ok, s1, c⟩ := res
          obtain ⟨k1, _, _, _, _, _, k7⟩ := load_text s s1 c ok hl hinv he
          rw [hx, hl] at h
          cases ok with
          | false => simp only [nextStep] at h; cases h
          | true =>
            simp only [nextStep] at h
            obtain ⟨_, _, e3⟩ := k7 rfl
            have := ih _ s' b h k1
            omega

open DmlcModel.Split in
theorem nextChunk_len (s s' : Base) (b : Bytes) (h : nextChunk Fmt.text s = .ok (some b, s')) (hinv : TInv s) :
    b.length + drainM s' ≤ drainM s := by
  unfold nextChunk at h
  exact nextLoop_len _ (fun b pre => b = pre) extOk_chunk (fun b pre e => by rw [e]) 3 s s' b h hinv

open DmlcModel.Split in
/-- every chunk of a drain (all calls `NextChunk`) is at most as long as the drain measure of the start state -/
theorem drainGo_chunks_len :
    ∀ (fuel i : Nat) (s : St) (acc : List Bytes) (s' : St) (bs : List Bytes),
    s.wrap = none → TInv s.base → drainGo Fmt.text (fun _ => false) fuel i s acc = (s', .ok bs) →
    ∃ new, bs = acc ++ new ∧ ∀ b ∈ new, b.length ≤ drainM s.base := by
  intro fuel
  induction fuel with
  | zero => intro i s acc s' bs _ _ h; rw [drainGo_zero] at h; cases h
  | succ fuel ih =>
    intro i s acc s' bs hw hinv h
    have hsb := step_bare Fmt.text s hw false
    simp only [Bool.false_eq_true, if_false] at hsb
    rw [drainGo_succ] at h
    simp only [Bool.false_eq_true, if_false] at h
    rw [hsb] at h
    cases hx : nextChunk Fmt.text s.base with
    | error e => rw [hx] at h; simp only [bareOut, drainStep] at h; cases h
    | ok res =>
      obtain ⟨r, b1⟩ := res
      rw [hx] at h
      obtain ⟨m1, _, _, _, _, _⟩ := nextChunk_text s.base b1 r hx hinv
      cases r with
      | none =>
        simp only [bareOut, outOf, drainStep] at h
        cases h
        exact ⟨[], by simp, by intro b hb; simp at hb⟩
      | some b =>
        have hlen := nextChunk_len s.base b1 b hx hinv
        simp only [bareOut, outOf, drainStep] at h
        obtain ⟨new, hbs, hall⟩ := ih (i + 1) { s with base := b1 } (acc ++ [b]) s' bs hw m1 h
        refine ⟨b :: new, by rw [hbs]; simp, ?_⟩
        intro b' hb'
        simp at hb'
        rcases hb' with rfl | hb'
        · omega
        · have := hall b' hb'
          have e : ({ s with base := b1 } : St).base = b1 := rfl
          rw [e] at this
          omega

open DmlcModel.Split in
/-- the byte stream of a range: at most every second byte is an injected newline -/
theorem rangeStream_length_le (files : List Bytes) (hne : ∀ f ∈ files, f ≠ []) (b e : Nat) :
    (rangeStream true files b e).length ≤ 2 * (e - b) := by
  unfold rangeStream pend
  cases hd : files.drop (filePtrOf files b) with
  | nil => simp
  | cons f later =>
    simp only []
    exact pendFrom_length_le true later _ _
      (fun g hg => hne g (List.mem_of_mem_drop (hd ▸ List.mem_cons_of_mem _ hg)))

open DmlcModel.Split in
/-- every chunk part `k` of `n` delivers is at most `2 * totalSize files + 1` bytes long -/
theorem part_chunks_length (files : List Bytes) (k n w dw : Nat) (hfiles : files ≠ [])
    (hne : ∀ f ∈ files, f ≠ [] ∧ NulFree f) (ht : totalSize files < 2^55) (hk : k < n) (hn : n < 2^32)
    (hw : w < 2^56) (bs : List Bytes) (h : partBlobs Fmt.text files k n w dw (fun _ => false) = .ok bs) :
    ∀ b ∈ bs, b.length ≤ 2 * totalSize files + 1 := by
  have hne1 : ∀ f ∈ files, f ≠ [] := fun f hf => (hne f hf).1
  obtain ⟨s, hs, hwr, hT, htl⟩ := mkSt_text_inv files k n w dw hfiles hne ht hk hn hw
  unfold partBlobs at h
  rw [hs] at h
  simp only at h
  have hd : drain Fmt.text (fun _ => false) s = ((drain Fmt.text (fun _ => false) s).1, .ok bs) := by
    rw [← h]
  unfold drain at hd
  obtain ⟨new, hbs, hall⟩ := drainGo_chunks_len _ 0 s [] _ bs hwr hT hd
  simp only [List.nil_append] at hbs
  subst hbs
  intro b hb
  have h1 := hall b hb
  have h2 := rangeStream_length_le files hne1 (bndT files n k) (bndT files n (k + 1))
  have h3 := bndT_le files n (k + 1) hne1
  have h4 : drainM s.base ≤ (tailT s.base).length + 1 := by unfold drainM; omega
  rw [htl] at h4
  omega

end DmlcModel.Parse
