/-
ParseTriple and LibFMParser::ParseBlock as a `LineFormat`.
-/
import DmlcModel.Parse.Svm

namespace DmlcModel.Parse
open DmlcModel

/-- `ParseTriple` (repaired source) on the bytes `s` of the range -/
def tripleS (g1 g2 g3 : Bytes → Res Nat) (s : Bytes) : Res PairS :=
  match s.dropWhile notDigitCharB with
  | [] => .ok { r := 0, rest := [] }
  | d :: s1 => do
    let v1 ← g1 ((d :: s1).takeWhile nonStopB)
    match ((d :: s1).dropWhile isDigitCharB).dropWhile isBlankB with
    | [] => .ok { r := 1, rest := [], v1 := v1 }
    | b :: s4 =>
      if b != 58 then .ok { r := 1, rest := b :: s4, v1 := v1 } else
      match s4.dropWhile notDigitCharB with
      | [] => .ok { r := 1, rest := [], v1 := v1 }
      | d2 :: s5 => do
        let v2 ← g2 ((d2 :: s5).takeWhile nonStopB)
        match ((d2 :: s5).dropWhile isDigitCharB).dropWhile isBlankB with
        | [] => .ok { r := 2, rest := [], v1 := v1, v2 := v2 }
        | b2 :: s7 =>
          if b2 != 58 then .ok { r := 2, rest := b2 :: s7, v1 := v1, v2 := v2 } else
          match s7.dropWhile notDigitCharB with
          | [] => .ok { r := 2, rest := [], v1 := v1, v2 := v2 }
          | d3 :: s8 => do
            let v3 ← g3 ((d3 :: s8).takeWhile nonStopB)
            .ok { r := 3, rest := (d3 :: s8).dropWhile isDigitCharB, v1 := v1, v2 := v2, v3 := v3 }

theorem digit_of_dropWhile {s : Bytes} {d : UInt8} {r : Bytes} (h : s.dropWhile notDigitCharB = d :: r) :
    isDigitCharB d = true := by
  have := dropWhile_head_false _ _ _ _ h
  simpa [notDigitCharB, isDigitCharB] using this

theorem parseTriple_at {c1 c2 c3 : Bytes → Nat → Res Nat} {g1 g2 g3 : Bytes → Res Nat}
    (hc1 : LocalFn c1 g1) (hc2 : LocalFn c2 g2) (hc3 : LocalFn c3 g3)
    {mem : Bytes} {p stop : Nat} {s : Bytes} (h : At mem p stop s) (ht : Term mem stop) :
    parseTriple Fixes.repaired c1 c2 c3 mem p stop = (tripleS g1 g2 g3 s).map (PairS.out stop) := by
  have hfx : Fixes.repaired.tripleGuard = true := rfl
  unfold parseTriple tripleS
  obtain ⟨q1, e1, a1⟩ := scan_at (pred := notDigitCharB) h
  simp only [e1, bind, Except.bind, hfx]
  cases hs1 : s.dropWhile notDigitCharB with
  | nil =>
    rw [hs1] at a1
    have : q1 = stop := a1.eq_stop_iff.mpr rfl
    simp [this, PairS.out, Except.map, pure, Except.pure]
  | cons d s1 =>
    rw [hs1] at a1
    have hd := digit_of_dropWhile hs1
    have hne1 : q1 ≠ stop := by intro e; have := a1.eq_stop_iff.mp e; simp at this
    obtain ⟨q2, e2, a2⟩ := scan_at (pred := isDigitCharB) a1
    obtain ⟨q3, e3, a3⟩ := scan_at (pred := isBlankB) a2
    simp only [hne1, if_false, e2, conv_at hc1 a1 ht hd]
    cases hv1 : g1 ((d :: s1).takeWhile nonStopB) with
    | error e => simp [Except.map]
    | ok v1 =>
      simp only [e3]
      cases hs3 : ((d :: s1).dropWhile isDigitCharB).dropWhile isBlankB with
      | nil =>
        rw [hs3] at a3
        have : q3 = stop := a3.eq_stop_iff.mpr rfl
        simp [this, PairS.out, Except.map, pure, Except.pure]
      | cons b s4 =>
        rw [hs3] at a3
        have hne3 : q3 ≠ stop := by intro e; have := a3.eq_stop_iff.mp e; simp at this
        have hq3 := a3.pos_eq
        simp only [hne3, if_false, byteAt_at a3]
        by_cases hb : (b != 58) = true
        · simp [hb, PairS.out, Except.map, pure, Except.pure, hq3]
        · simp only [hb, if_false]
          obtain ⟨q4, e4, a4⟩ := scan_at (pred := notDigitCharB) a3.tail
          simp only [e4]
          cases hs5 : s4.dropWhile notDigitCharB with
          | nil =>
            rw [hs5] at a4
            have : q4 = stop := a4.eq_stop_iff.mpr rfl
            simp [this, PairS.out, Except.map, pure, Except.pure]
          | cons d2 s5 =>
            rw [hs5] at a4
            have hd2 := digit_of_dropWhile hs5
            have hne4 : q4 ≠ stop := by intro e; have := a4.eq_stop_iff.mp e; simp at this
            obtain ⟨q5, e5, a5⟩ := scan_at (pred := isDigitCharB) a4
            obtain ⟨q6, e6, a6⟩ := scan_at (pred := isBlankB) a5
            simp only [hne4, e5, conv_at hc2 a4 ht hd2, Bool.true_and, decide_false, Bool.false_eq_true, if_false]
            cases hv2 : g2 ((d2 :: s5).takeWhile nonStopB) with
            | error e => simp [Except.map]
            | ok v2 =>
              simp only [e6]
              cases hs6 : ((d2 :: s5).dropWhile isDigitCharB).dropWhile isBlankB with
              | nil =>
                rw [hs6] at a6
                have : q6 = stop := a6.eq_stop_iff.mpr rfl
                simp [this, PairS.out, Except.map, pure, Except.pure]
              | cons b2 s7 =>
                rw [hs6] at a6
                have hne6 : q6 ≠ stop := by intro e; have := a6.eq_stop_iff.mp e; simp at this
                have hq6 := a6.pos_eq
                simp only [hne6, if_false, byteAt_at a6]
                by_cases hb2 : (b2 != 58) = true
                · simp [hb2, PairS.out, Except.map, pure, Except.pure, hq6]
                · simp only [hb2, if_false]
                  obtain ⟨q7, e7, a7⟩ := scan_at (pred := notDigitCharB) a6.tail
                  simp only [e7]
                  cases hs8 : s7.dropWhile notDigitCharB with
                  | nil =>
                    rw [hs8] at a7
                    have : q7 = stop := a7.eq_stop_iff.mpr rfl
                    simp [this, PairS.out, Except.map, pure, Except.pure]
                  | cons d3 s8 =>
                    rw [hs8] at a7
                    have hd3 := digit_of_dropWhile hs8
                    have hne7 : q7 ≠ stop := by intro e; have := a7.eq_stop_iff.mp e; simp at this
                    obtain ⟨q8, e8, a8⟩ := scan_at (pred := isDigitCharB) a7
                    have hq8 := a8.pos_eq
                    simp only [hne7, e8, conv_at hc3 a7 ht hd3, Bool.true_and, decide_false, Bool.false_eq_true, if_false]
                    cases hv3 : g3 ((d3 :: s8).takeWhile nonStopB) with
                    | error e => simp [Except.map]
                    | ok v3 => simp [PairS.out, Except.map, pure, Except.pure, hq8]

theorem tripleS_suffix {g1 g2 g3 : Bytes → Res Nat} {s : Bytes} {o : PairS} (h : tripleS g1 g2 g3 s = .ok o) :
    o.rest <:+ s := by
  unfold tripleS at h
  split at h
  · cases h; exact List.nil_suffix
  · rename_i d s1 hs1
    have h1 : (d :: s1) <:+ s := hs1 ▸ List.dropWhile_suffix _
    cases hv1 : g1 ((d :: s1).takeWhile nonStopB) with
    | error e => simp [hv1, bind, Except.bind] at h
    | ok v1 =>
      simp only [hv1, bind, Except.bind] at h
      split at h
      · cases h; exact List.nil_suffix
      · rename_i b s4 hs3
        have h3 : (b :: s4) <:+ s :=
          (hs3 ▸ List.dropWhile_suffix _).trans ((List.dropWhile_suffix _).trans h1)
        split at h
        · cases h; exact h3
        · split at h
          · cases h; exact List.nil_suffix
          · rename_i d2 s5 hs5
            have h5 : (d2 :: s5) <:+ s :=
              (hs5 ▸ List.dropWhile_suffix _).trans ((List.suffix_cons b s4).trans h3)
            cases hv2 : g2 ((d2 :: s5).takeWhile nonStopB) with
            | error e => simp [hv2] at h
            | ok v2 =>
              simp only [hv2] at h
              split at h
              · cases h; exact List.nil_suffix
              · rename_i b2 s7 hs6
                have h6 : (b2 :: s7) <:+ s :=
                  (hs6 ▸ List.dropWhile_suffix _).trans ((List.dropWhile_suffix _).trans h5)
                split at h
                · cases h; exact h6
                · split at h
                  · cases h; exact List.nil_suffix
                  · rename_i d3 s8 hs8
                    have h8 : (d3 :: s8) <:+ s :=
                      (hs8 ▸ List.dropWhile_suffix _).trans ((List.suffix_cons b2 s7).trans h6)
                    cases hv3 : g3 ((d3 :: s8).takeWhile nonStopB) with
                    | error e => simp [hv3] at h
                    | ok v3 =>
                      simp only [hv3] at h
                      cases h
                      exact (List.dropWhile_suffix _).trans h8

/-! ## libfm: one line, the block -/

def fmFeatsS (gI gR : Bytes → Res Nat) : Nat → Bytes → List (Nat × Nat × Option Nat) → Res (List (Nat × Nat × Option Nat))
  | 0, _, _ => .error .oob
  | fuel + 1, s, acc =>
    match s with
    | [] => .ok acc.reverse
    | _ :: _ => do
      let o ← tripleS gI gI gR s
      if Gen.Parse.fmNoFeature o.r then fmFeatsS gI gR fuel o.rest acc
      else fmFeatsS gI gR fuel o.rest ((o.v1, o.v2, if Gen.Parse.fmHasValue o.r then some o.v3 else none) :: acc)

theorem fmFeats_at {conv : Conv} {gR gI gQ : Bytes → Res Nat} {gC : Bytes → Res (Nat × Nat)}
    (hL : conv.LocalWith gR gI gQ gC) {mem : Bytes} {lend : Nat} (ht : Term mem lend) :
    ∀ (fuel p : Nat) (s : Bytes) (acc : List (Nat × Nat × Option Nat)), At mem p lend s →
      fmFeats Fixes.repaired conv mem lend fuel p acc = fmFeatsS gI gR fuel s acc := by
  intro fuel
  induction fuel with
  | zero => intro p s acc _; rfl
  | succ fuel ih =>
    intro p s acc h
    cases s with
    | nil =>
      have : p = lend := h.eq_stop_iff.mpr rfl
      simp [fmFeats, fmFeatsS, this]
    | cons b s =>
      have hne : p ≠ lend := by intro e; have := h.eq_stop_iff.mp e; simp at this
      simp only [fmFeats, fmFeatsS, hne, if_false, bind, Except.bind, parseTriple_at hL.index hL.index hL.real h ht]
      cases ho : tripleS gI gI gR (b :: s) with
      | error e => simp [Except.map]
      | ok o =>
        have ar := h.of_suffix (tripleS_suffix ho)
        simp only [Except.map, PairS.out]
        split <;> exact ih _ _ _ ar

def fmLineS (gR gI : Bytes → Res Nat) (l : Bytes) : Res (Option FmLine) := do
  let o ← pairS gR gR l
  if Gen.Parse.fmEmptyLine o.r then return none
  let weight := if Gen.Parse.fmHasWeight o.r then some o.v2 else none
  let feats ← fmFeatsS gI gR (o.rest.length + 1) o.rest []
  return some { label := o.v1, weight, feats }

theorem fmLine_at {conv : Conv} {gR gI gQ : Bytes → Res Nat} {gC : Bytes → Res (Nat × Nat)}
    (hL : conv.LocalWith gR gI gQ gC) {mem : Bytes} {lbegin lend : Nat} {l : Bytes}
    (h : At mem lbegin lend l) (ht : Term mem lend) :
    fmLine Fixes.repaired conv mem lbegin lend = fmLineS gR gI l := by
  unfold fmLine fmLineS
  simp only [bind, Except.bind, parsePair_at hL.real hL.real h ht]
  cases ho : pairS gR gR l with
  | error e => simp [Except.map]
  | ok o =>
    simp only [Except.map, PairS.out]
    by_cases hem : Gen.Parse.fmEmptyLine o.r = true
    · simp [hem, pure, Except.pure]
    · simp only [hem, Bool.false_eq_true, if_false]
      have ar := h.of_suffix (pairS_suffix ho)
      have hf : lend + 1 - (lend - o.rest.length) = o.rest.length + 1 := by have := ar.2; omega
      rw [hf, fmFeats_at hL ht _ _ _ _ ar]

theorem fmLine_lone {conv : Conv} {mem : Bytes} {lbegin lend : Nat} {e : UInt8}
    (h : At mem lbegin lend [e]) (he : isEolB e = true) (gR gI : Bytes → Res Nat) :
    fmLine Fixes.repaired conv mem lbegin lend = fmLineS gR gI [e] := by
  have hd : ([e] : Bytes).dropWhile notDigitCharB = [] := by simp [List.dropWhile, eol_notDigitChar e he]
  have hp := parsePair_r0 Fixes.repaired conv.real conv.real h hd
  unfold fmLine fmLineS
  simp [hp, hd, pairS, bind, Except.bind, pure, Except.pure, Gen.Parse.fmEmptyLine]

def fmRec (l : FmLine) : LineRec :=
  { label := some l.label, weight := l.weight, qid := none, fields := l.feats.map (·.1),
    idx := l.feats.map (·.2.1), vals := l.feats.filterMap (·.2.2) }

theorem finish_fmPush (c : Container) (l : FmLine) : finish (fmPush c l) = addRow (finish c) (fmRec l) := by
  cases hw : l.weight <;> by_cases hc : c.label.length = 0 <;>
    simp [finish, fmPush, addRow, fmRec, svmPushOffset_eq, fmPushOffset_eq, hw, hc]

theorem finish_foldl_fmPush (ls : List FmLine) (c : Container) :
    finish (ls.foldl fmPush c) = (ls.map fmRec).foldl addRow (finish c) := by
  induction ls generalizing c with
  | nil => rfl
  | cons l ls ih => simp only [List.foldl_cons, List.map_cons, ih, finish_fmPush]

def fmRowsAt (fx : Fixes) (conv : Conv) (iw mode : Nat) (mem : Bytes) (a b : Nat) : Res (List Row) :=
  (fmBlock fx conv iw mode mem a b).bind rowsOf

def fmRows (fx : Fixes) (conv : Conv) (iw mode : Nat) (t : Bytes) : Res (List Row) :=
  fmRowsAt fx conv iw mode (t ++ [0]) 0 t.length

def fmRecS (gR gI : Bytes → Res Nat) (iw mode : Nat) (L : Bytes) : Res (Option LineRec) :=
  (fmLineS gR gI L).map (Option.map fun l => if mode > 0 then decRecBoth iw (fmRec l) else fmRec l)

theorem pairS_strip (g1 g2 : Bytes → Res Nat) (L : Bytes) : pairS g1 g2 (stripEol L) = pairS g1 g2 L := by
  have : (stripEol L).dropWhile notDigitCharB = L.dropWhile notDigitCharB := by
    cases L with
    | nil => rfl
    | cons b s =>
      by_cases hb : isEolB b = true
      · simp [stripEol, hb, List.dropWhile, eol_notDigitChar b hb]
      · simp [stripEol, hb]
  unfold pairS; rw [this]

theorem build_field_length (recs : List LineRec) (h : ∀ r ∈ recs, r.fields.length = r.idx.length) :
    (build recs).field.length = (build recs).index.length := by
  rw [build_eq]; exact flatMap_length_eq _ recs h

theorem fm_block_eq_at {conv : Conv} {gR gI gQ : Bytes → Res Nat} {gC : Bytes → Res (Nat × Nat)}
    (hL : conv.LocalWith gR gI gQ gC) (iw mode : Nat) {mem : Bytes} {a b : Nat} {t : Bytes}
    (hAt : At mem a b t) (hT : TermOr mem b t) (hb : (codeLines t).length + 2 < 2 ^ 64) :
    fmRowsAt Fixes.repaired conv iw mode mem a b =
      ((codeLines t).mapM (fmRecS gR gI iw mode)).bind fun outs => rowsOf (build (outs.filterMap id)) := by
  have hpred : (fun b : UInt8 => Gen.Parse.fmNotEol b.toNat) = notEolB := by
    funext b; simp [notEolB, fmNotEol_eq]
  have hloop := lineLoop_spec (line := fun lbegin lend => fmLine Fixes.repaired conv mem lbegin lend)
    (lineS := fmLineS gR gI) (push := fmPush)
    (fun p q L R hL' _ _ hT => by
      rcases hT with hT | ⟨e, rfl, he⟩
      · exact fmLine_at hL hL' hT
      · exact fmLine_lone hL' he gR gI)
    (b + 1 - a) a t {} hAt (by have := hAt.2; omega) hT
  have hrec : fmRecS gR gI iw mode = fun L => (fmLineS gR gI L).map
      (Option.map fun l => if mode > 0 then decRecBoth iw (fmRec l) else fmRec l) := by
    funext L; rfl
  unfold fmRowsAt fmBlock fmLoop
  rw [hpred, hloop, foldlM_stepLine, hrec, mapM_map_res]
  cases hm : (codeLines t).mapM (fmLineS gR gI) with
  | error e => simp [Except.map, Except.bind, bind]
  | ok outs =>
    have hlen : (outs.filterMap id).length ≤ (codeLines t).length := by
      have h1 := List.length_filterMap_le id outs
      have h2 := mapM_length _ _ _ hm
      omega
    simp only [Except.map, bind, Except.bind, foldl_pushOpt, filterMap_map_option]
    have hfin := finish_foldl_fmPush (outs.filterMap id) {}
    rw [finish_empty] at hfin
    have hfin' : (if Gen.Parse.fmPushOffset ((outs.filterMap id).foldl fmPush {}).label.length = true then
        { (outs.filterMap id).foldl fmPush {} with
          offset := ((outs.filterMap id).foldl fmPush {}).offset ++ [((outs.filterMap id).foldl fmPush {}).index.length] }
        else (outs.filterMap id).foldl fmPush {}) = build ((outs.filterMap id).map fmRec) := hfin
    rw [hfin']
    have hlab := build_label_length ((outs.filterMap id).map fmRec) (by intro r hr; simp at hr; obtain ⟨l, _, rfl⟩ := hr; rfl)
    have hfld := build_field_length ((outs.filterMap id).map fmRec)
      (by intro r hr; simp at hr; obtain ⟨l, _, rfl⟩ := hr; simp [fmRec])
    simp only [List.length_map] at hlab
    have hfc : Gen.Parse.fmFieldCheck (build ((outs.filterMap id).map fmRec)).field.length
        (build ((outs.filterMap id).map fmRec)).index.length = true := by
      simp [Gen.Parse.fmFieldCheck, hfld]
    rw [hfc, hlab.1, hlab.2, fmEndCheck_ok _ (by omega), fmDecrement_eq]
    by_cases hmode : mode > 0
    · simp only [hmode, decide_true, Bool.not_true, Bool.false_eq_true, if_false, if_true, pure, Except.pure]
      rw [build_decBoth, List.map_map]; rfl
    · simp only [hmode, decide_false, Bool.not_true, Bool.false_eq_true, if_false, pure, Except.pure]

theorem fm_block_eq {conv : Conv} {gR gI gQ : Bytes → Res Nat} {gC : Bytes → Res (Nat × Nat)}
    (hL : conv.LocalWith gR gI gQ gC) (iw mode : Nat) (t : Bytes) (hb : (codeLines t).length + 2 < 2 ^ 64) :
    fmRows Fixes.repaired conv iw mode t =
      ((codeLines t).mapM (fmRecS gR gI iw mode)).bind fun outs => rowsOf (build (outs.filterMap id)) :=
  fm_block_eq_at hL iw mode (At.whole t [0]) (Or.inl (term_whole t)) hb

theorem fmLineS_nil (gR gI : Bytes → Res Nat) : fmLineS gR gI [] = .ok none := by
  simp [fmLineS, pairS, bind, Except.bind, pure, Except.pure, Gen.Parse.fmEmptyLine]

theorem fm_lineFormat {conv : Conv} {gR gI gQ : Bytes → Res Nat} {gC : Bytes → Res (Nat × Nat)}
    (hL : conv.LocalWith gR gI gQ gC) (iw mode : Nat) :
    LineFormat (fun _ => true) (fmRows Fixes.repaired conv iw mode) (fmRecS gR gI iw mode) :=
  LineFormat.ofBlockEq (fun t _ hb => fm_block_eq hL iw mode t (by have := codeLines_length t; omega))
    (fun L => by simp [fmRecS, fmLineS, pairS_strip])
    (by simp [fmRecS, fmLineS_nil, Except.map])
    (Or.inr (fun L r h => by
      simp only [fmRecS] at h
      cases hs : fmLineS gR gI L with
      | error e => simp [hs, Except.map] at h
      | ok o =>
        cases o with
        | none => simp [hs, Except.map] at h
        | some l =>
          simp [hs, Except.map] at h
          by_cases hm : mode > 0 <;> simp [hm] at h <;> subst h <;> simp [decRecBoth, fmRec]))

end DmlcModel.Parse
