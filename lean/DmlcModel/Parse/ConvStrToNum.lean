/-
The numeric conversions of the text parsers taken from the C14 model of include/dmlc/strtonum.h
(`DmlcModel.StrToNum.Model`, which follows the repaired strtof / ParseUnsignedInt):

  * `real`  : `Str2Type<real_t>`   = dmlc::strtof(p, 0)                    -> `StrToNum.str2type .f32`
  * `index` : `Str2Type<uintN_t>`  = ParseUnsignedInt<uintN_t>(p, 0, 10)   -> `StrToNum.str2type .u32 / .u64`
  * `cell` (float cells) : dmlc::strtof(p, &endptr)                        -> `StrToNum.parseFloat .F32 false`
  * `qid` and the integer cells are libc functions (`atoll`, `strtoll`), which strtonum.h does not
    define: they stay with the emulation in `ConvSimple`.

Used by the executable driver; core Lean only.
-/
import DmlcModel.Parse.ConvSimple
import DmlcModel.StrToNum.Model

namespace DmlcModel.Parse.ConvStrToNum
open DmlcModel DmlcModel.Parse

def liftFault {α : Type} : Except StrToNum.Fault α → Res α
  | .ok a => .ok a
  | .error .oob => .error .oob
  | .error .check => .error .check

def real (mem : Bytes) (p : Nat) : Res Nat := liftFault (StrToNum.str2type .f32 (mem.drop p))

def index (iw : Nat) (mem : Bytes) (p : Nat) : Res Nat :=
  liftFault (StrToNum.str2type (if iw == 64 then .u64 else .u32) (mem.drop p))

def cell (dt : ConvSimple.DT) (mem : Bytes) (p : Nat) : Res (Nat × Nat) :=
  match dt with
  | .f32 => liftFault ((StrToNum.parseFloat .F32 false (mem.drop p)).map fun r => (r.val.bits .F32, p + r.endIdx))
  | dt => ConvSimple.cell dt mem p

/-- the conversions of a parser with `iw`-bit indices and cell type `dt` -/
def conv (iw : Nat) (dt : ConvSimple.DT) : Conv :=
  { real := real, index := index iw, qid := ConvSimple.qid, cell := cell dt }

end DmlcModel.Parse.ConvStrToNum
