/-
What ParseTriple / the libfm line parser do on rendered tokens (helper lemmas of `C12_libfm`, Props/C12Fm.lean):
the ParseTriple analogues of `pairS_one` / `pairS_two` (`tripleS_two` / `tripleS_three`), of `svmFeats_render`
(`fmFeats_render`) and of `svmLineS_render` (`fmLineS_render`), then the document level (pieces, agreement of
the expected rows).  The tables, styles and renderers are the ones of Props/C12.lean.
-/
import DmlcModel.Props.C12

namespace DmlcModel.Parse
open DmlcModel DmlcModel.Props.C11 DmlcModel.Props.C12

/-! ## ParseTriple on rendered tokens -/

theorem blanks_dropNotDigit (bl X : Bytes) (hb : blanksOnly bl) :
    (bl ++ X).dropWhile notDigitCharB = X.dropWhile notDigitCharB := by
  induction bl with
  | nil => rfl
  | cons b bl ih =>
    simp only [List.cons_append, List.dropWhile, blank_notDigit b (hb b (by simp))]
    exact ih (fun x hx => hb x (by simp [hx]))

/-- blanks in front of a token are skipped by `ParseTriple` / `ParsePair` themselves -/
theorem tripleS_skip (g1 g2 g3 : Bytes → Res Nat) (bl X : Bytes) (hb : blanksOnly bl) :
    tripleS g1 g2 g3 (bl ++ X) = tripleS g1 g2 g3 X := by
  unfold tripleS; rw [blanks_dropNotDigit bl X hb]

theorem pairS_skip (g1 g2 : Bytes → Res Nat) (bl X : Bytes) (hb : blanksOnly bl) :
    pairS g1 g2 (bl ++ X) = pairS g1 g2 X := by
  unfold pairS; rw [blanks_dropNotDigit bl X hb]

theorem colon_dropBlank (s : Bytes) : (58 :: s).dropWhile isBlankB = 58 :: s := by
  simp [List.dropWhile, isBlankB, Gen.Parse.isblank]

theorem lexHead_dropNotDigit (d : UInt8) (s : Bytes) (hd : isDigitCharB d = true) :
    (d :: s).dropWhile notDigitCharB = d :: s := by
  simp [List.dropWhile, notDigit_of_digit d hd]

/-- `ParseTriple` on `lexeme₁ : lexeme₂ : lexeme₃ tail`: three values, stops exactly at `tail` -/
theorem tripleS_three (g1 g2 g3 : Bytes → Res Nat) (h1 : Exact g1) (h2 : Exact g2) (h3 : Exact g3)
    (lex1 lex2 lex3 tail : Bytes) (v1 v2 v3 : Nat)
    (hl1 : IsLexeme lex1) (hl2 : IsLexeme lex2) (hl3 : IsLexeme lex3) (hc : Clean tail)
    (ht : ∀ b, tail.head? = some b → isDelimB b = true)
    (hv1 : g1 lex1 = .ok v1) (hv2 : g2 lex2 = .ok v2) (hv3 : g3 lex3 = .ok v3) :
    tripleS g1 g2 g3 (lex1 ++ 58 :: (lex2 ++ 58 :: (lex3 ++ tail)))
      = .ok { r := 3, rest := tail, v1 := v1, v2 := v2, v3 := v3 } := by
  obtain ⟨d1, r1, rfl, hd1⟩ := lex_head hl1
  obtain ⟨d2, r2, rfl, hd2⟩ := lex_head hl2
  obtain ⟨d3, r3, rfl, hd3⟩ := lex_head hl3
  have hcolon_nd : isDigitCharB 58 = false := by decide
  have hcolon_delim : isDelimB 58 = true := by decide
  have hcolon_ns : nonStopB 58 = true := by decide
  have c3 : Clean ((d3 :: r3) ++ tail) := (lexeme_clean hl3).append hc
  have c2 : Clean ((d2 :: r2) ++ 58 :: ((d3 :: r3) ++ tail)) := (lexeme_clean hl2).append (Clean.cons hcolon_ns c3)
  have run1 := ((lexeme_clean hl1).append (Clean.cons hcolon_ns c2)).takeWhile
  have run2 := c2.takeWhile
  have run3 := c3.takeWhile
  have e2 : ((d1 :: r1) ++ 58 :: ((d2 :: r2) ++ 58 :: ((d3 :: r3) ++ tail))).dropWhile isDigitCharB
      = 58 :: ((d2 :: r2) ++ 58 :: ((d3 :: r3) ++ tail)) :=
    dropWhile_lex _ _ hl1.2 (fun b hb => by simp at hb; subst hb; exact hcolon_nd)
  have e3 : ((d2 :: r2) ++ 58 :: ((d3 :: r3) ++ tail)).dropWhile isDigitCharB = 58 :: ((d3 :: r3) ++ tail) :=
    dropWhile_lex _ _ hl2.2 (fun b hb => by simp at hb; subst hb; exact hcolon_nd)
  have e4 : ((d3 :: r3) ++ tail).dropWhile isDigitCharB = tail :=
    dropWhile_lex _ _ hl3.2 (fun b hb => delim_notDigit b (ht b hb))
  have g1e := h1.exact (d1 :: r1) (58 :: ((d2 :: r2) ++ 58 :: ((d3 :: r3) ++ tail))) hl1
    (fun b hb => by simp at hb; subst hb; exact hcolon_delim)
  have g2e := h2.exact (d2 :: r2) (58 :: ((d3 :: r3) ++ tail)) hl2
    (fun b hb => by simp at hb; subst hb; exact hcolon_delim)
  have g3e := h3.exact (d3 :: r3) tail hl3 ht
  unfold tripleS
  simp only [List.cons_append] at run1 run2 run3 e2 e3 e4 g1e g2e g3e ⊢
  rw [lexHead_dropNotDigit d1 _ hd1]
  simp only [run1, e2, g1e, hv1, bind, Except.bind, colon_dropBlank, lexHead_dropNotDigit d2 _ hd2, run2, g2e, hv2, e3,
    lexHead_dropNotDigit d3 _ hd3, run3, g3e, hv3, e4]
  simp

/-- `ParseTriple` on `lexeme₁ : lexeme₂ tail` where the next non-blank byte is not ':': two values, blanks consumed -/
theorem tripleS_two (g1 g2 g3 : Bytes → Res Nat) (h1 : Exact g1) (h2 : Exact g2)
    (lex1 lex2 tail : Bytes) (v1 v2 : Nat)
    (hl1 : IsLexeme lex1) (hl2 : IsLexeme lex2) (hc : Clean tail)
    (ht : ∀ b, tail.head? = some b → isDelimB b = true)
    (hnc : ∀ b, (tail.dropWhile isBlankB).head? = some b → b ≠ 58)
    (hv1 : g1 lex1 = .ok v1) (hv2 : g2 lex2 = .ok v2) :
    tripleS g1 g2 g3 (lex1 ++ 58 :: (lex2 ++ tail))
      = .ok { r := 2, rest := tail.dropWhile isBlankB, v1 := v1, v2 := v2 } := by
  obtain ⟨d1, r1, rfl, hd1⟩ := lex_head hl1
  obtain ⟨d2, r2, rfl, hd2⟩ := lex_head hl2
  have hcolon_nd : isDigitCharB 58 = false := by decide
  have hcolon_delim : isDelimB 58 = true := by decide
  have hcolon_ns : nonStopB 58 = true := by decide
  have c2 : Clean ((d2 :: r2) ++ tail) := (lexeme_clean hl2).append hc
  have run1 := ((lexeme_clean hl1).append (Clean.cons hcolon_ns c2)).takeWhile
  have run2 := c2.takeWhile
  have e2 : ((d1 :: r1) ++ 58 :: ((d2 :: r2) ++ tail)).dropWhile isDigitCharB = 58 :: ((d2 :: r2) ++ tail) :=
    dropWhile_lex _ _ hl1.2 (fun b hb => by simp at hb; subst hb; exact hcolon_nd)
  have e3 : ((d2 :: r2) ++ tail).dropWhile isDigitCharB = tail :=
    dropWhile_lex _ _ hl2.2 (fun b hb => delim_notDigit b (ht b hb))
  have g1e := h1.exact (d1 :: r1) (58 :: ((d2 :: r2) ++ tail)) hl1
    (fun b hb => by simp at hb; subst hb; exact hcolon_delim)
  have g2e := h2.exact (d2 :: r2) tail hl2 ht
  unfold tripleS
  simp only [List.cons_append] at run1 run2 e2 e3 g1e g2e ⊢
  rw [lexHead_dropNotDigit d1 _ hd1]
  simp only [run1, e2, g1e, hv1, bind, Except.bind, colon_dropBlank, lexHead_dropNotDigit d2 _ hd2, run2, g2e, hv2, e3]
  cases hd3 : tail.dropWhile isBlankB with
  | nil => simp
  | cons b s7 =>
    have := hnc b (by rw [hd3]; rfl)
    simp [this]

/-! ## libfm: the feature loop on rendered entries -/

/-- the entries with the separator in front of each -/
def fmEnts : List (Bytes × Entry) → Bytes → Bytes
  | [], fin => fin
  | se :: rest, fin => se.1 ++ (fmEntryBytes se.2 ++ fmEnts rest fin)

/-- … without the separator of the first entry -/
def fmCore : List (Bytes × Entry) → Bytes → Bytes
  | [], fin => fin
  | se :: rest, fin => fmEntryBytes se.2 ++ fmEnts rest fin

theorem fmEnts_split (ses : List (Bytes × Entry)) (fin : Bytes) :
    fmEnts ses fin = sepHead ses ++ fmCore ses fin := by
  cases ses <;> simp [fmEnts, fmCore, sepHead]

theorem fmEnts_flatMap (ses : List (Bytes × Entry)) (fin : Bytes) :
    (ses.flatMap fun se => se.1 ++ fmEntryBytes se.2) ++ fin = fmEnts ses fin := by
  induction ses with
  | nil => rfl
  | cons se rest ih => simp [fmEnts, ← ih]

/-- a libfm entry: `field:index[:value]`, field and index digits, value a lexeme -/
structure WfFmEntry (e : Entry) : Prop where
  wf : WfEntry e
  field : IsDigits e.field

/-- what a libfm entry means -/
def expFmEntry (gI gR : Bytes → Res Nat) (e : Entry) : Res (Nat × Nat × Option Nat) := do
  let f ← gI e.field
  let i ← gI e.index
  let v ← (match e.value with | some v => (gR v).map some | none => pure none : Res (Option Nat))
  pure (f, i, v)

theorem valPart_clean {v : Option Bytes} (h : ∀ x, v = some x → IsLexeme x) : Clean (valPart v) := by
  cases hv : v with
  | none => exact Clean.nil
  | some x => exact Clean.cons (by decide) (lexeme_clean (h x hv))

theorem fmEntryBytes_clean {e : Entry} (h : WfFmEntry e) : Clean (fmEntryBytes e) :=
  (lexeme_clean (digits_lexeme h.field)).append
    (Clean.cons (by decide) ((lexeme_clean (digits_lexeme h.wf.index)).append (valPart_clean h.wf.value)))

theorem fmEnts_clean (ses : List (Bytes × Entry)) (fin : Bytes) (hfin : Clean fin)
    (hs : ∀ se ∈ ses, blanksOnly se.1 ∧ WfFmEntry se.2) : Clean (fmEnts ses fin) := by
  induction ses with
  | nil => exact hfin
  | cons se rest ih =>
    obtain ⟨h1, h2⟩ := hs se (by simp)
    exact (blanks_clean h1).append ((fmEntryBytes_clean h2).append (ih (fun x hx => hs x (by simp [hx]))))

theorem blanks_head_delim {s : Bytes} (h : blanksOnly s) : ∀ b, s.head? = some b → isDelimB b = true := by
  intro b hb
  cases s with
  | nil => simp at hb
  | cons x xs => simp at hb; subst hb; exact blank_isDelim _ (h _ (by simp))

theorem fmEnts_head (ses : List (Bytes × Entry)) (fin : Bytes) (hfin : blanksOnly fin)
    (hs : ∀ se ∈ ses, isSep se.1) : ∀ b, (fmEnts ses fin).head? = some b → isDelimB b = true := by
  cases ses with
  | nil => exact blanks_head_delim hfin
  | cons se rest =>
    intro b hb
    obtain ⟨hne, hbl⟩ := hs se (by simp)
    cases hsep : se.1 with
    | nil => exact absurd hsep hne
    | cons x xs =>
      simp [fmEnts, hsep] at hb; subst hb
      exact blank_isDelim _ (hbl _ (by simp [hsep]))

theorem fmCore_head (ses : List (Bytes × Entry)) (fin : Bytes) (hne : ses ≠ []) (hw : ∀ se ∈ ses, WfFmEntry se.2) :
    ∃ d r, fmCore ses fin = d :: r ∧ isDigitCharB d = true := by
  cases ses with
  | nil => exact absurd rfl hne
  | cons se rest =>
    obtain ⟨d, r, hd, hdc⟩ := lex_head (digits_lexeme (hw se (by simp)).field)
    exact ⟨d, r ++ 58 :: (se.2.index ++ valPart se.2.value) ++ fmEnts rest fin, by simp [fmCore, fmEntryBytes, hd], hdc⟩

/-- blanks in front of the entries dropped: the first field, or nothing at all -/
theorem fmEnts_dropBlank (ses : List (Bytes × Entry)) (fin : Bytes) (hfin : blanksOnly fin)
    (hs : ∀ se ∈ ses, blanksOnly se.1 ∧ WfFmEntry se.2) :
    (fmEnts ses fin).dropWhile isBlankB = match ses with | [] => [] | _ :: _ => fmCore ses fin := by
  cases ses with
  | nil => exact dropWhile_all isBlankB fin hfin
  | cons se rest =>
    obtain ⟨d, r, hd, hdc⟩ := fmCore_head (se :: rest) fin (by simp) (fun x hx => (hs x hx).2)
    rw [fmEnts_split]
    exact dropWhile_blanks _ _ (hs se (by simp)).1 (by
      intro x hx; rw [hd] at hx; simp at hx; subst hx; exact digit_notBlank _ hdc)

theorem fmEnts_dropBlank_head (ses : List (Bytes × Entry)) (fin : Bytes) (hfin : blanksOnly fin)
    (hs : ∀ se ∈ ses, blanksOnly se.1 ∧ WfFmEntry se.2) :
    ∀ b, ((fmEnts ses fin).dropWhile isBlankB).head? = some b → b ≠ 58 := by
  intro b hb
  rw [fmEnts_dropBlank ses fin hfin hs] at hb
  cases ses with
  | nil => simp at hb
  | cons se rest =>
    obtain ⟨d, r, hd, hdc⟩ := fmCore_head (se :: rest) fin (by simp) (fun x hx => (hs x hx).2)
    simp only [hd] at hb; simp at hb; subst hb
    intro h; rw [h] at hdc; exact absurd hdc (by decide)

theorem fmFeatsS_cons (gI gR : Bytes → Res Nat) (fuel : Nat) (s : Bytes) (hs : s ≠ [])
    (acc : List (Nat × Nat × Option Nat)) :
    fmFeatsS gI gR (fuel + 1) s acc = (tripleS gI gI gR s).bind (fun o =>
      if Gen.Parse.fmNoFeature o.r then fmFeatsS gI gR fuel o.rest acc
      else fmFeatsS gI gR fuel o.rest ((o.v1, o.v2, if Gen.Parse.fmHasValue o.r then some o.v3 else none) :: acc)) := by
  cases s with
  | nil => exact absurd rfl hs
  | cons b s => rfl

/-- the feature loop on the blanks at the end of the line -/
theorem fmFeats_end (gI gR : Bytes → Res Nat) (bl : Bytes) (hb : blanksOnly bl)
    (acc : List (Nat × Nat × Option Nat)) (fuel : Nat) (hf : bl.length + 1 ≤ fuel) :
    fmFeatsS gI gR fuel bl acc = .ok acc.reverse := by
  obtain ⟨f, rfl⟩ : ∃ f, fuel = f + 1 := ⟨fuel - 1, by omega⟩
  cases hs : bl with
  | nil => simp [fmFeatsS]
  | cons x xs =>
    obtain ⟨f', rfl⟩ : ∃ f', f = f' + 1 := ⟨f - 1, by rw [hs] at hf; simp at hf; omega⟩
    have hnd : (x :: xs).dropWhile notDigitCharB = [] :=
      dropWhile_all _ _ (fun b hb' => blank_notDigit b (hb b (by rw [hs]; exact hb')))
    rw [fmFeatsS_cons _ _ _ _ (by simp)]
    simp [tripleS, hnd, Except.bind, Gen.Parse.fmNoFeature, fmFeatsS]

theorem fmFeats_render (gI gR : Bytes → Res Nat) (hI : Exact gI) (hR : Exact gR) (fin : Bytes) (hfin : blanksOnly fin) :
    ∀ (ses : List (Bytes × Entry)) (bl : Bytes) (acc fs : List (Nat × Nat × Option Nat)) (fuel : Nat),
      blanksOnly bl → (∀ se ∈ ses, WfFmEntry se.2) → (∀ se ∈ ses.tail, isSep se.1) →
      (ses.map (·.2)).mapM (expFmEntry gI gR) = .ok fs → (bl ++ fmCore ses fin).length + 1 ≤ fuel →
      fmFeatsS gI gR fuel (bl ++ fmCore ses fin) acc = .ok (acc.reverse ++ fs) := by
  intro ses
  induction ses with
  | nil =>
    intro bl acc fs fuel hb _ _ hexp hf
    simp [pure, Except.pure] at hexp
    subst hexp
    have hbf : blanksOnly (bl ++ fin) := by
      intro x hx; simp at hx; rcases hx with h | h; exact hb x h; exact hfin x h
    simpa [fmCore] using fmFeats_end gI gR (bl ++ fin) hbf acc fuel (by simpa [fmCore] using hf)
  | cons se rest ih =>
    intro bl acc fs fuel hb hw hsep hexp hf
    have hwe := hw se (by simp)
    have hfld := digits_lexeme hwe.field
    have hidx := digits_lexeme hwe.wf.index
    have hrestw : ∀ x ∈ rest, WfFmEntry x.2 := fun x hx => hw x (by simp [hx])
    have hrests : ∀ x ∈ rest, isSep x.1 := fun x hx => hsep x (by simpa using hx)
    have hrestbw : ∀ x ∈ rest, blanksOnly x.1 ∧ WfFmEntry x.2 := fun x hx => ⟨(hrests x hx).2, hrestw x hx⟩
    have htailc : Clean (fmEnts rest fin) := fmEnts_clean rest fin (blanks_clean hfin) hrestbw
    have htailh := fmEnts_head rest fin hfin hrests
    obtain ⟨fiv, fs', hfiv, hre, rfl⟩ := mapM_cons_ok _ _ _ _ (show (se.2 :: rest.map (·.2)).mapM (expFmEntry gI gR) = .ok fs from hexp)
    simp only [expFmEntry, bind, Except.bind] at hfiv
    cases hgf : gI se.2.field with
    | error e => simp [hgf] at hfiv
    | ok fv =>
      simp only [hgf] at hfiv
      cases hgi : gI se.2.index with
      | error e => simp [hgi] at hfiv
      | ok i =>
        simp only [hgi] at hfiv
        obtain ⟨f, rfl⟩ : ∃ f, fuel = f + 1 := ⟨fuel - 1, by omega⟩
        obtain ⟨d, r, hd, hdc⟩ := lex_head hfld
        have hs : bl ++ fmCore (se :: rest) fin
            = bl ++ (se.2.field ++ 58 :: (se.2.index ++ (valPart se.2.value ++ fmEnts rest fin))) := by
          simp [fmCore, fmEntryBytes]
        have hne : bl ++ (se.2.field ++ 58 :: (se.2.index ++ (valPart se.2.value ++ fmEnts rest fin))) ≠ [] := by
          rw [hd]; simp
        have hlen : (bl ++ (se.2.field ++ 58 :: (se.2.index ++ (valPart se.2.value ++ fmEnts rest fin)))).length + 1 ≤ f + 1 := by
          rw [← hs]; exact hf
        have hfldlen : 1 ≤ se.2.field.length := by rw [hd]; simp
        rw [hs, fmFeatsS_cons _ _ _ _ hne, tripleS_skip _ _ _ _ _ hb]
        have hrest_ih : ∀ (blr : Bytes) (accr fsr : List (Nat × Nat × Option Nat)), blanksOnly blr →
            (rest.map (·.2)).mapM (expFmEntry gI gR) = .ok fsr → (blr ++ fmCore rest fin).length + 1 ≤ f →
            fmFeatsS gI gR f (blr ++ fmCore rest fin) accr = .ok (accr.reverse ++ fsr) :=
          fun blr accr fsr hbr he hl => ih blr accr fsr f hbr hrestw
            (fun x hx => hrests x (List.mem_of_mem_tail hx)) he hl
        have hsh : blanksOnly (sepHead rest) := by
          cases rest with
          | nil => intro x hx; simp [sepHead] at hx
          | cons se' rest' => exact (hrests se' (by simp)).2
        cases hval : se.2.value with
        | some v =>
          have hv := hwe.wf.value v hval
          simp only [hval] at hfiv
          cases hgv : gR v with
          | error e => simp [hgv, Except.map] at hfiv
          | ok vv =>
            simp only [hgv, Except.map, pure, Except.pure] at hfiv
            cases hfiv
            have hp := tripleS_three gI gI gR hI hI hR se.2.field se.2.index v (fmEnts rest fin) fv i vv hfld hidx hv
              htailc htailh hgf hgi hgv
            simp only [valPart, List.cons_append]
            rw [hp]
            simp only [Except.bind, Gen.Parse.fmNoFeature, Gen.Parse.fmHasValue]
            rw [fmEnts_split]
            have := hrest_ih (sepHead rest) ((fv, i, some vv) :: acc) fs' hsh hre (by
              rw [hval, fmEnts_split] at hlen; simp [valPart] at hlen ⊢; omega)
            simpa using this
        | none =>
          simp only [hval, pure, Except.pure] at hfiv
          cases hfiv
          have hnc := fmEnts_dropBlank_head rest fin hfin hrestbw
          have hp := tripleS_two gI gI gR hI hI se.2.field se.2.index (fmEnts rest fin) fv i hfld hidx
            htailc htailh hnc hgf hgi
          simp only [valPart, List.nil_append]
          rw [hp]
          simp only [Except.bind, Gen.Parse.fmNoFeature, Gen.Parse.fmHasValue]
          have hdb := fmEnts_dropBlank rest fin hfin hrestbw
          cases rest with
          | nil =>
            rw [hdb]
            simp [pure, Except.pure] at hre
            subst hre
            have := fmFeats_end gI gR [] (by intro x hx; simp at hx) ((fv, i, none) :: acc) f (by
              rw [hval] at hlen; simp [valPart, fmEnts] at hlen ⊢; omega)
            simpa using this
          | cons se' rest' =>
            rw [hdb]
            have hdw : (fmEnts (se' :: rest') fin).length
                = (sepHead (se' :: rest')).length + (fmCore (se' :: rest') fin).length := by
              rw [fmEnts_split]; simp
            have := hrest_ih [] ((fv, i, none) :: acc) fs' (by intro x hx; simp at hx) hre (by
              rw [hval] at hlen; simp [valPart] at hlen ⊢; omega)
            simpa using this

/-! ## libfm: a rendered line -/

theorem fmContent_eq (σ : LineStyle) (r : TRow) :
    fmContent σ r = σ.lead ++ (r.label ++ (valPart r.weight ++ fmEnts (σ.seps.zip r.entries) σ.trail)) := by
  unfold fmContent; rw [fmEnts_flatMap]

theorem fm_ses {σ : LineStyle} {r : TRow} (h : WfLine σ r) (hfd : ∀ e ∈ r.entries, IsDigits e.field) :
    (∀ se ∈ σ.seps.zip r.entries, isSep se.1 ∧ WfFmEntry se.2) ∧ (σ.seps.zip r.entries).map (·.2) = r.entries :=
  ⟨fun se hse => ⟨(h.ses.1 se hse).1, (h.ses.1 se hse).2, hfd _ (List.of_mem_zip hse).2⟩, h.ses.2⟩

theorem fmFeats_ents (gI gR : Bytes → Res Nat) (hI : Exact gI) (hR : Exact gR) (fin : Bytes) (hfin : blanksOnly fin)
    (ses : List (Bytes × Entry)) (hs : ∀ se ∈ ses, isSep se.1 ∧ WfFmEntry se.2) (fs : List (Nat × Nat × Option Nat))
    (hexp : (ses.map (·.2)).mapM (expFmEntry gI gR) = .ok fs) :
    fmFeatsS gI gR ((fmEnts ses fin).length + 1) (fmEnts ses fin) [] = .ok fs ∧
    fmFeatsS gI gR (((fmEnts ses fin).dropWhile isBlankB).length + 1) ((fmEnts ses fin).dropWhile isBlankB) [] = .ok fs := by
  have hsh : blanksOnly (sepHead ses) := by
    cases ses with
    | nil => intro x hx; simp [sepHead] at hx
    | cons se rest => exact (hs se (by simp)).1.2
  have hw : ∀ se ∈ ses, WfFmEntry se.2 := fun x hx => (hs x hx).2
  have hsp : ∀ se ∈ ses.tail, isSep se.1 := fun x hx => (hs x (List.mem_of_mem_tail hx)).1
  constructor
  · rw [fmEnts_split]
    simpa using fmFeats_render gI gR hI hR fin hfin ses (sepHead ses) [] fs _ hsh hw hsp hexp (Nat.le_refl _)
  · rw [fmEnts_dropBlank ses fin hfin (fun x hx => ⟨(hs x hx).1.2, (hs x hx).2⟩)]
    cases ses with
    | nil =>
      simp [pure, Except.pure] at hexp
      subst hexp
      simp [fmFeatsS]
    | cons se rest =>
      simpa using fmFeats_render gI gR hI hR fin hfin (se :: rest) [] [] fs _ (by intro x hx; simp at hx) hw hsp hexp
        (Nat.le_refl _)

theorem expLineFm_eq (gR gI : Bytes → Res Nat) (r : TRow) :
    expLineFm gR gI r = (gR r.label).bind fun label =>
      ((match r.weight with | some w => (gR w).map some | none => pure none : Res (Option Nat))).bind fun weight =>
      (r.entries.mapM (expFmEntry gI gR)).bind fun feats => .ok { label, weight, feats } := rfl

theorem expLineFm_ok (gR gI : Bytes → Res Nat) (r : TRow) (L : FmLine) (h : expLineFm gR gI r = .ok L) :
    ∃ lv wv fs, gR r.label = .ok lv ∧
      (match r.weight with | some w => (gR w).map some | none => pure none : Res (Option Nat)) = .ok wv ∧
      r.entries.mapM (expFmEntry gI gR) = .ok fs ∧ L = { label := lv, weight := wv, feats := fs } := by
  rw [expLineFm_eq] at h
  cases hlv : gR r.label with
  | error e => simp [hlv, Except.bind] at h
  | ok lv =>
    simp only [hlv, Except.bind] at h
    cases hwv : (match r.weight with | some w => (gR w).map some | none => pure none : Res (Option Nat)) with
    | error e => simp [hwv] at h
    | ok wv =>
      simp only [hwv] at h
      cases hfs : r.entries.mapM (expFmEntry gI gR) with
      | error e => simp [hfs] at h
      | ok fs =>
        simp only [hfs] at h
        cases h
        exact ⟨lv, wv, fs, rfl, rfl, rfl, rfl⟩

theorem fmContent_clean {σ : LineStyle} {r : TRow} (hwf : WfLine σ r) (hfd : ∀ e ∈ r.entries, IsDigits e.field) :
    Clean (fmContent σ r) := by
  rw [fmContent_eq]
  exact (blanks_clean hwf.lead).append ((lexeme_clean hwf.label).append ((valPart_clean hwf.weight).append
    (fmEnts_clean _ _ (blanks_clean hwf.trail) (fun x hx => ⟨((fm_ses hwf hfd).1 x hx).1.2, ((fm_ses hwf hfd).1 x hx).2⟩))))

theorem fmLineS_render (gR gI : Bytes → Res Nat) (hR : Exact gR) (hI : Exact gI)
    (σ : LineStyle) (r : TRow) (hwf : WfLine σ r) (hfd : ∀ e ∈ r.entries, IsDigits e.field)
    (L : FmLine) (hexp : expLineFm gR gI r = .ok L) :
    fmLineS gR gI (fmContent σ r) = .ok (some L) := by
  obtain ⟨lv, wv, fs, hlv, hwv, hfs, rfl⟩ := expLineFm_ok gR gI r L hexp
  obtain ⟨hses, hmap⟩ := fm_ses hwf hfd
  have hsesb : ∀ se ∈ σ.seps.zip r.entries, blanksOnly se.1 ∧ WfFmEntry se.2 :=
    fun x hx => ⟨(hses x hx).1.2, (hses x hx).2⟩
  have hfs' : ((σ.seps.zip r.entries).map (·.2)).mapM (expFmEntry gI gR) = .ok fs := by rw [hmap]; exact hfs
  obtain ⟨hf1, hf2⟩ := fmFeats_ents gI gR hI hR σ.trail hwf.trail _ hses fs hfs'
  have hE : Clean (fmEnts (σ.seps.zip r.entries) σ.trail) := fmEnts_clean _ _ (blanks_clean hwf.trail) hsesb
  have hEh := fmEnts_head (σ.seps.zip r.entries) σ.trail hwf.trail (fun x hx => (hses x hx).1)
  have hnc := fmEnts_dropBlank_head (σ.seps.zip r.entries) σ.trail hwf.trail hsesb
  rw [fmContent_eq]
  unfold fmLineS
  rw [pairS_skip _ _ _ _ hwf.lead]
  cases hw : r.weight with
  | none =>
    simp only [hw, pure, Except.pure] at hwv
    cases hwv
    have hp := pairS_one gR gR hR r.label _ lv hwf.label hE hEh hnc hlv
    simp only [valPart, List.nil_append]
    simp only [hp, bind, Except.bind, Gen.Parse.fmEmptyLine, Gen.Parse.fmHasWeight, hf2, pure, Except.pure]
    simp
  | some w =>
    simp only [hw] at hwv
    cases hgw : gR w with
    | error e => simp [hgw, Except.map] at hwv
    | ok wn =>
      simp [hgw, Except.map] at hwv
      subst hwv
      have hp := pairS_two gR gR hR hR r.label w _ lv wn hwf.label (hwf.weight w hw) hE hEh hlv hgw
      simp only [valPart, List.cons_append]
      simp only [hp, bind, Except.bind, Gen.Parse.fmEmptyLine, Gen.Parse.fmHasWeight, hf1, pure, Except.pure]
      simp

/-! ## the meaning of a libfm row keeps the presence of its optional parts -/

theorem expFmFeats_shape (gI gR : Bytes → Res Nat) (es : List Entry) (fs : List (Nat × Nat × Option Nat))
    (h : es.mapM (expFmEntry gI gR) = .ok fs) : fs.map (·.2.2.isSome) = es.map (·.value.isSome) := by
  induction es generalizing fs with
  | nil => simp [pure, Except.pure] at h; subst h; rfl
  | cons e es ih =>
    obtain ⟨iv, fs', hiv, hre, rfl⟩ := mapM_cons_ok _ _ _ _ h
    have := ih fs' hre
    simp only [List.map_cons, this, List.cons.injEq, and_true]
    simp only [expFmEntry, bind, Except.bind] at hiv
    cases hgf : gI e.field with
    | error x => simp [hgf] at hiv
    | ok fv =>
      simp only [hgf] at hiv
      cases hgi : gI e.index with
      | error x => simp [hgi] at hiv
      | ok i =>
        simp only [hgi] at hiv
        cases hv : e.value with
        | none => simp [hv, pure, Except.pure] at hiv; subst hiv; rfl
        | some v =>
          simp only [hv] at hiv
          cases hgv : gR v with
          | error x => simp [hgv, Except.map] at hiv
          | ok vv => simp [hgv, Except.map, pure, Except.pure] at hiv; subst hiv; rfl

theorem expLineFm_shape (gR gI : Bytes → Res Nat) (r : TRow) (L : FmLine) (h : expLineFm gR gI r = .ok L) :
    L.weight.isSome = r.weight.isSome ∧ L.feats.map (·.2.2.isSome) = r.entries.map (·.value.isSome) := by
  obtain ⟨lv, wv, fs, _, hwv, hfs, rfl⟩ := expLineFm_ok gR gI r L h
  refine ⟨?_, expFmFeats_shape gI gR _ _ hfs⟩
  cases hw : r.weight with
  | none => simp [hw, pure, Except.pure] at hwv; subst hwv; rfl
  | some w =>
    simp only [hw] at hwv
    cases hg : gR w with
    | error e => simp [hg, Except.map] at hwv
    | ok x => simp [hg, Except.map] at hwv; subst hwv; rfl

theorem filterMap_some_length {α : Type} (g : α → Option Nat) (fs : List α) (h : ∀ x ∈ fs, (g x).isSome = true) :
    (fs.filterMap g).length = fs.length := by
  induction fs with
  | nil => rfl
  | cons x fs ih =>
    obtain ⟨v, hv⟩ := Option.isSome_iff_exists.mp (h x (by simp))
    simp [hv, ih (fun y hy => h y (by simp [hy]))]

theorem filterMap_none_nil {α : Type} (g : α → Option Nat) (fs : List α) (h : ∀ x ∈ fs, g x = none) :
    fs.filterMap g = [] := by
  induction fs with
  | nil => rfl
  | cons x fs ih => simp [h x (by simp), ih (fun y hy => h y (by simp [hy]))]

theorem fmFeats_all_some (r : TRow) (L : FmLine) (hsh : L.feats.map (·.2.2.isSome) = r.entries.map (·.value.isSome))
    (hv : ∀ e ∈ r.entries, e.value.isSome = true) : ∀ x ∈ L.feats, x.2.2.isSome = true := by
  intro x hx
  have : x.2.2.isSome ∈ L.feats.map (·.2.2.isSome) := List.mem_map_of_mem hx
  rw [hsh] at this
  obtain ⟨e, he, heq⟩ := List.mem_map.mp this
  rw [← heq]; exact hv e he

theorem fmFeats_all_none (r : TRow) (L : FmLine) (hsh : L.feats.map (·.2.2.isSome) = r.entries.map (·.value.isSome))
    (hv : ∀ e ∈ r.entries, e.value = none) : ∀ x ∈ L.feats, x.2.2 = none := by
  intro x hx
  have : x.2.2.isSome ∈ L.feats.map (·.2.2.isSome) := List.mem_map_of_mem hx
  rw [hsh] at this
  obtain ⟨e, he, heq⟩ := List.mem_map.mp this
  rw [hv e he] at heq
  cases hx2 : x.2.2 with
  | none => rfl
  | some v => rw [hx2] at heq; simp at heq

theorem fmFeats_uniform (r : TRow) (L : FmLine) (hsh : L.feats.map (·.2.2.isSome) = r.entries.map (·.value.isSome))
    (hv : (∀ e ∈ r.entries, e.value.isSome = true) ∨ (∀ e ∈ r.entries, e.value = none)) :
    (L.feats.filterMap (·.2.2)).length = L.feats.length ∨ L.feats.filterMap (·.2.2) = [] := by
  rcases hv with h | h
  · exact Or.inl (filterMap_some_length _ _ (fmFeats_all_some r L hsh h))
  · exact Or.inr (filterMap_none_nil _ _ (fmFeats_all_none r L hsh h))

/-! ## one rendered line parsed on its own; documents as sequences of pieces -/

/-- a rendered libfm row, parsed on its own, gives exactly the row of the table -/
theorem fm_line_rows (conv : Conv) (gR gI gQ : Bytes → Res Nat) (gC : Bytes → Res (Nat × Nat))
    (hE : ExactWith conv gR gI gQ gC) (iw mode : Nat) (σ : LineStyle) (r : TRow) (hwf : WfLine σ r)
    (hfd : ∀ e ∈ r.entries, IsDigits e.field)
    (hv : (∀ e ∈ r.entries, e.value.isSome = true) ∨ (∀ e ∈ r.entries, e.value = none))
    (hb : (fmContent σ r).length + 2 < 2 ^ 64) (L : FmLine) (hL : expLineFm gR gI r = .ok L) :
    rows (.libfm iw mode) conv (fmContent σ r) = .ok [expectFmRow iw mode L] := by
  have F := fm_lineFormat hE.loc iw mode
  have hline := fmLineS_render gR gI hE.real hE.index σ r hwf hfd L hL
  have hclean := clean_noEol (fmContent_clean hwf hfd)
  rw [rows_libfm, F.rows_single _ (fun _ _ => rfl) hb hclean, single]
  simp only [fmRecS, hline, Except.map, Except.bind, Option.map, Option.toList_some]
  have hu := fmFeats_uniform r L (expLineFm_shape gR gI r L hL).2 hv
  have hag : AgreeRecs [if mode > 0 then decRecBoth iw (fmRec L) else fmRec L] := by
    apply agreeRecs_single
    · by_cases hm : mode > 0
      · rw [if_pos hm]
        rcases hu with h | h
        · exact Or.inl (by simp only [decRecBoth, fmRec, List.length_map]; exact h)
        · exact Or.inr h
      · rw [if_neg hm]
        rcases hu with h | h
        · exact Or.inl (by simp only [fmRec, List.length_map]; exact h)
        · exact Or.inr h
    · by_cases hm : mode > 0
      · rw [if_pos hm]; exact Or.inl (by simp [decRecBoth, fmRec])
      · rw [if_neg hm]; exact Or.inl (by simp [fmRec])
  rw [rowsOf_build _ hag (by simp)]
  rfl

/-- the lines (with their end-of-line strings) one styled libfm row is rendered to -/
def fmPieces (z : RowStyle × TRow) : List (Bytes × Bytes) :=
  z.1.filler.map (fun f => (f.blanks, f.eol)) ++ [(fmContent z.1.line z.2, z.1.eol)]

theorem renderFm_eq (σ : List RowStyle) (T : List TRow) :
    renderFm σ T = joinPieces ((σ.zip T).flatMap fmPieces) := rfl

/-- the pieces of a styled libfm table, parsed one by one -/
theorem fm_pieces_rows (conv : Conv) (gR gI gQ : Bytes → Res Nat) (gC : Bytes → Res (Nat × Nat))
    (hE : ExactWith conv gR gI gQ gC) (iw mode : Nat) :
    ∀ (Z : List (RowStyle × TRow)) (Ls : List FmLine),
      (∀ z ∈ Z, WfRow z.1 z.2 ∧ ∀ e ∈ z.2.entries, IsDigits e.field) →
      (∀ p ∈ Z.flatMap fmPieces, p.1.length + 3 < 2 ^ 64) →
      Z.mapM (fun z => expLineFm gR gI z.2) = .ok Ls →
      ∃ R, (Z.flatMap fmPieces).mapM (fun p => rows (.libfm iw mode) conv p.1) = .ok R ∧
        R.flatten = Ls.map (expectFmRow iw mode) := by
  have hLoc : conv.Local := ⟨gR, gI, gQ, gC, hE.loc⟩
  intro Z
  induction Z with
  | nil => intro Ls _ _ h; simp [pure, Except.pure] at h; subst h; exact ⟨[], rfl, rfl⟩
  | cons z Z ih =>
    intro Ls hwf hbd h
    obtain ⟨L, Ls', hL, hLs', rfl⟩ := mapM_cons_ok _ _ _ _ h
    obtain ⟨hz, hzf⟩ := hwf z (by simp)
    obtain ⟨R', hR', hfl⟩ := ih Ls' (fun x hx => hwf x (by simp [hx]))
      (fun p hp => hbd p (by simp only [List.flatMap_cons, List.mem_append]; exact Or.inr hp)) hLs'
    -- the filler lines
    have hfill : ∀ (fs : List Filler), (∀ f ∈ fs, WfFiller f) → (∀ f ∈ fs, f.blanks.length + 3 < 2 ^ 64) →
        (fs.map (fun f => (f.blanks, f.eol))).mapM (fun p => rows (.libfm iw mode) conv p.1)
          = .ok (List.replicate fs.length []) := by
      intro fs
      induction fs with
      | nil => intro _ _; rfl
      | cons f fs ihf =>
        intro hw hb
        have h1 := C11_blank_lines_libfm iw mode conv hLoc f.blanks (hw f (by simp)).blanks
          (by have := hb f (by simp); omega)
        simp only [List.map_cons, List.mapM_cons, h1,
          ihf (fun x hx => hw x (by simp [hx])) (fun x hx => hb x (by simp [hx])), bind, Except.bind, pure, Except.pure,
          List.length_cons, List.replicate_succ]
    have hf := hfill z.1.filler hz.filler (fun f hf' => hbd (f.blanks, f.eol) (by
      simp only [List.flatMap_cons, List.mem_append, fmPieces, List.mem_map]
      exact Or.inl (Or.inl ⟨f, hf', rfl⟩)))
    have hrow := fm_line_rows conv gR gI gQ gC hE iw mode z.1.line z.2 hz.line hzf hz.values
      (by
        have := hbd (fmContent z.1.line z.2, z.1.eol) (by
          simp only [List.flatMap_cons, List.mem_append, fmPieces]
          exact Or.inl (Or.inr (by simp)))
        simp only at this; omega) L hL
    refine ⟨List.replicate z.1.filler.length [] ++ [[expectFmRow iw mode L]] ++ R', ?_, ?_⟩
    · simp only [List.flatMap_cons, fmPieces, List.mapM_append, hf, hR', List.mapM_cons, List.mapM_nil, hrow, bind,
        Except.bind, pure, Except.pure]
    · simp [hfl]

/-- the pieces of a styled libfm table: no end-of-line byte inside a line, end-of-line strings behind -/
theorem fm_pieces_wf (Z : List (RowStyle × TRow))
    (hwf : ∀ z ∈ Z, WfRow z.1 z.2 ∧ ∀ e ∈ z.2.entries, IsDigits e.field) :
    ∀ p ∈ Z.flatMap fmPieces, (∀ b ∈ p.1, isEolB b = false) ∧ isEolStr p.2 := by
  intro p hp
  obtain ⟨z, hz, hpz⟩ := List.mem_flatMap.mp hp
  obtain ⟨hzw, hzf⟩ := hwf z hz
  simp only [fmPieces, List.mem_append, List.mem_map, List.mem_singleton] at hpz
  rcases hpz with ⟨f, hf, rfl⟩ | rfl
  · exact ⟨clean_noEol (blanks_clean (hzw.filler f hf).blanks), (hzw.filler f hf).eol⟩
  · exact ⟨clean_noEol (fmContent_clean hzw.line hzf), hzw.eol⟩

theorem toRow_value_isSome (r : LineRec) (hv : r.vals ≠ []) (hi : r.idx ≠ []) : (toRow r).value.isSome = true := by
  simp [toRow, hv, hi]

theorem toRow_value_none (r : LineRec) (hv : r.vals = []) : (toRow r).value = none := by
  simp [toRow, hv]

/-- the expected row is the row of a record with the label, weight, values of the line -/
theorem expectFmRow_rec (iw mode : Nat) (L : FmLine) :
    ∃ rec, expectFmRow iw mode L = toRow rec ∧ rec.vals = L.feats.filterMap (·.2.2) ∧
      rec.idx.length = L.feats.length ∧ rec.label = some L.label ∧ rec.weight = L.weight ∧ rec.qid = none := by
  by_cases hm : mode > 0
  · exact ⟨decRecBoth iw (fmRec L), by unfold expectFmRow; rw [if_pos hm], rfl, by simp [decRecBoth, fmRec], rfl, rfl, rfl⟩
  · exact ⟨fmRec L, by unfold expectFmRow; rw [if_neg hm], rfl, by simp [fmRec], rfl, rfl, rfl⟩

/-- the rows a libfm table describes agree on their optional parts when the table does -/
theorem fm_agree_expected (gR gI : Bytes → Res Nat) (iw mode : Nat) (Z : List (RowStyle × TRow)) (Ls : List FmLine)
    (h : Z.mapM (fun z => expLineFm gR gI z.2) = .ok Ls)
    (hW : (∀ z ∈ Z, z.2.weight.isSome = true) ∨ (∀ z ∈ Z, z.2.weight = none))
    (hV : (∀ z ∈ Z, ∀ e ∈ z.2.entries, e.value.isSome = true) ∨ (∀ z ∈ Z, ∀ e ∈ z.2.entries, e.value = none)) :
    AgreeRows (Ls.map (expectFmRow iw mode)) := by
  have hsrc : ∀ L ∈ Ls, ∃ z ∈ Z, expLineFm gR gI z.2 = .ok L := mapM_mem _ _ _ h
  have hrow : ∀ x ∈ Ls.map (expectFmRow iw mode), ∃ L ∈ Ls, x = expectFmRow iw mode L := by
    intro x hx; obtain ⟨L, hL, rfl⟩ := List.mem_map.mp hx; exact ⟨L, hL, rfl⟩
  refine ⟨Or.inl ?_, ?_, Or.inr ?_, ?_⟩
  · intro x hx
    obtain ⟨L, _, rfl⟩ := hrow x hx
    obtain ⟨rec, hr, _, _, hl, _, _⟩ := expectFmRow_rec iw mode L
    rw [hr]; show rec.label.isSome = true; rw [hl]; rfl
  · rcases hW with hw | hw
    · refine Or.inl (fun x hx => ?_)
      obtain ⟨L, hL, rfl⟩ := hrow x hx
      obtain ⟨z, hz, hzL⟩ := hsrc L hL
      obtain ⟨rec, hr, _, _, _, hwt, _⟩ := expectFmRow_rec iw mode L
      rw [hr]; show rec.weight.isSome = true
      rw [hwt, (expLineFm_shape gR gI z.2 L hzL).1]; exact hw z hz
    · refine Or.inr (fun x hx => ?_)
      obtain ⟨L, hL, rfl⟩ := hrow x hx
      obtain ⟨z, hz, hzL⟩ := hsrc L hL
      obtain ⟨rec, hr, _, _, _, hwt, _⟩ := expectFmRow_rec iw mode L
      have := (expLineFm_shape gR gI z.2 L hzL).1
      rw [hw z hz] at this
      rw [hr]; show rec.weight = none
      rw [hwt]
      cases hlw : L.weight with
      | none => rfl
      | some v => rw [hlw] at this; simp at this
  · intro x hx
    obtain ⟨L, _, rfl⟩ := hrow x hx
    obtain ⟨rec, hr, _, _, _, _, hq⟩ := expectFmRow_rec iw mode L
    rw [hr]; exact hq
  · rcases hV with hv | hv
    · refine Or.inl (fun x hx hi => ?_)
      obtain ⟨L, hL, rfl⟩ := hrow x hx
      obtain ⟨z, hz, hzL⟩ := hsrc L hL
      obtain ⟨rec, hr, hvals, hilen, _, _, _⟩ := expectFmRow_rec iw mode L
      rw [hr] at hi ⊢
      have hi' : rec.idx ≠ [] := hi
      have hne : L.feats ≠ [] := by
        intro e; rw [e] at hilen; exact hi' (List.eq_nil_of_length_eq_zero hilen)
      have hlen := filterMap_some_length (·.2.2) L.feats
        (fmFeats_all_some z.2 L (expLineFm_shape gR gI z.2 L hzL).2 (hv z hz))
      have hne2 : rec.vals ≠ [] := by
        rw [hvals]; intro e; rw [e] at hlen; exact hne (List.eq_nil_of_length_eq_zero hlen.symm)
      exact toRow_value_isSome rec hne2 hi'
    · refine Or.inr (fun x hx => ?_)
      obtain ⟨L, hL, rfl⟩ := hrow x hx
      obtain ⟨z, hz, hzL⟩ := hsrc L hL
      obtain ⟨rec, hr, hvals, _, _, _, _⟩ := expectFmRow_rec iw mode L
      have hnil := filterMap_none_nil (·.2.2) L.feats
        (fmFeats_all_none z.2 L (expLineFm_shape gR gI z.2 L hzL).2 (hv z hz))
      rw [hr]
      exact toRow_value_none rec (by rw [hvals]; exact hnil)

end DmlcModel.Parse
