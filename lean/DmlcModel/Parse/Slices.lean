/-
FillData's thread slices (text_parser.h: nstep / sbegin / send + BackFindEndLine): contiguous, covering the
chunk, every interior boundary at position 0 or at an end-of-line byte.
-/
import DmlcModel.Parse.Lemmas

namespace DmlcModel.Parse
open DmlcModel

/-- the value `BackFindEndLine` returns (0 on a faulting read) -/
def bfv (mem : Bytes) (k : Nat) : Nat := match backFind mem k with | .ok q => q | .error _ => 0

theorem backFind_ok (mem : Bytes) (k : Nat) (hk : k < mem.length) :
    ∃ q, backFind mem k = .ok q ∧ q ≤ k ∧ (q = 0 ∨ ∃ b, mem[q]? = some b ∧ isEolB b = true) := by
  induction k with
  | zero => exact ⟨0, rfl, Nat.le_refl _, Or.inl rfl⟩
  | succ k ih =>
    have hb : mem[k + 1]? = some mem[k + 1] := List.getElem?_eq_getElem hk
    obtain ⟨q, hq, hle, hsh⟩ := ih (by omega)
    by_cases he : Gen.Parse.backIsEol (mem[k + 1]).toNat = true
    · exact ⟨k + 1, by simp [backFind, byteAt, hb, he, bind, Except.bind], Nat.le_refl _, Or.inr ⟨_, hb, he⟩⟩
    · exact ⟨q, by simp [backFind, byteAt, hb, he, bind, Except.bind, hq], by omega, hsh⟩

theorem backFind_eq (mem : Bytes) (k : Nat) (hk : k < mem.length) : backFind mem k = .ok (bfv mem k) := by
  obtain ⟨q, hq, _, _⟩ := backFind_ok mem k hk
  simp [bfv, hq]

theorem bfv_le (mem : Bytes) (k : Nat) (hk : k < mem.length) : bfv mem k ≤ k := by
  obtain ⟨q, hq, hle, _⟩ := backFind_ok mem k hk
  simp [bfv, hq, hle]

theorem bfv_shape (mem : Bytes) (k : Nat) (hk : k < mem.length) :
    bfv mem k = 0 ∨ ∃ b, mem[bfv mem k]? = some b ∧ isEolB b = true := by
  obtain ⟨q, hq, _, hsh⟩ := backFind_ok mem k hk
  simpa [bfv, hq] using hsh

theorem bfv_succ (mem : Bytes) (k : Nat) (hk : k + 1 < mem.length) : bfv mem k ≤ bfv mem (k + 1) := by
  have hb : mem[k + 1]? = some mem[k + 1] := List.getElem?_eq_getElem hk
  have h0 := backFind_eq mem k (by omega)
  by_cases he : Gen.Parse.backIsEol (mem[k + 1]).toNat = true
  · have : bfv mem (k + 1) = k + 1 := by simp [bfv, backFind, byteAt, hb, he, bind, Except.bind]
    have := bfv_le mem k (by omega); omega
  · have e : backFind mem (k + 1) = backFind mem k := by simp [backFind, byteAt, hb, he, bind, Except.bind]
    have : bfv mem (k + 1) = bfv mem k := by unfold bfv; rw [e]
    omega

theorem bfv_mono (mem : Bytes) (a b : Nat) (hab : a ≤ b) (hb : b < mem.length) : bfv mem a ≤ bfv mem b := by
  induction b with
  | zero => have : a = 0 := by omega
            subst this; exact Nat.le_refl _
  | succ b ih =>
    by_cases h : a = b + 1
    · subst h; exact Nat.le_refl _
    · have := ih (by omega) (by omega)
      have := bfv_succ mem b hb
      omega

theorem nstep_eq (size nthread : Nat) (h1 : 1 ≤ nthread) (hs : size + nthread < 9223372036854775808) :
    Gen.Parse.nstep size nthread = (size + nthread - 1) / nthread := by
  simp only [Gen.Parse.nstep, u64, sub64]
  have a1 : (size + nthread) % 18446744073709551616 = size + nthread := Nat.mod_eq_of_lt (by omega)
  have a2 : 1 % 18446744073709551616 = 1 := Nat.mod_eq_of_lt (by omega)
  have a3 : (size + nthread + 18446744073709551616 - 1) % 18446744073709551616 = size + nthread - 1 := by
    have : size + nthread + 18446744073709551616 - 1 = (size + nthread - 1) + 18446744073709551616 := by omega
    rw [this, Nat.add_mod_right, Nat.mod_eq_of_lt (by omega)]
  rw [a1, a2, a3]

theorem div_ceil (m n : Nat) (h : 0 < n) : m + 1 ≤ n * (m / n) + n := by
  have := Nat.lt_mul_div_succ m h
  rw [Nat.mul_add] at this
  omega

/-- `nthread * nstep ≥ size`, without overflow -/
theorem nstep_spec (size nthread : Nat) (h1 : 1 ≤ nthread) (hs : size + nthread < 9223372036854775808) :
    Gen.Parse.nstep size nthread = (size + nthread - 1) / nthread ∧
    size ≤ nthread * Gen.Parse.nstep size nthread ∧ nthread * Gen.Parse.nstep size nthread ≤ size + nthread - 1 := by
  have e := nstep_eq size nthread h1 hs
  have h2 := div_ceil (size + nthread - 1) nthread (by omega)
  have h3 := Nat.mul_div_le (size + nthread - 1) nthread
  clear hs
  rw [e]
  refine ⟨rfl, ?_, h3⟩
  generalize nthread * ((size + nthread - 1) / nthread) = P at h2 h3
  omega

/-- the boundaries of FillData's slices -/
def cutAt (mem : Bytes) (size nthread i : Nat) : Nat :=
  if i = nthread then size else bfv mem (min (i * Gen.Parse.nstep size nthread) size)

set_option maxRecDepth 8192 in
/-- **FillData's slices satisfy the cut hypothesis of `C11_thread_invariant_nary_*`**: thread `tid` parses
`[cutAt tid, cutAt (tid+1))`; the cuts start at 0, end at `size`, are monotone (so the slices are contiguous and
cover the chunk), and every interior cut is 0 (an empty slice) or the position of an end-of-line byte. -/
theorem fillData_slices (mem : Bytes) (size nthread : Nat) (h1 : 1 ≤ nthread) (hn : nthread < 4294967296)
    (hs : size + nthread < 9223372036854775808) (hr : size < mem.length) :
    cutAt mem size nthread 0 = 0 ∧ cutAt mem size nthread nthread = size ∧
    (∀ i, i < nthread → cutAt mem size nthread i ≤ cutAt mem size nthread (i + 1)) ∧
    (∀ i, 0 < i → i < nthread → cutAt mem size nthread i = 0 ∨
      ∃ b, mem[cutAt mem size nthread i]? = some b ∧ isEolB b = true) ∧
    (∀ tid, tid < nthread →
      threadSlice mem size nthread tid = .ok (cutAt mem size nthread tid, cutAt mem size nthread (tid + 1))) := by
  obtain ⟨_, hge, hle⟩ := nstep_spec size nthread h1 hs
  generalize hN : Gen.Parse.nstep size nthread = N at hge hle
  have hmul : ∀ i, i ≤ nthread → i * N ≤ nthread * N := fun i hi => Nat.mul_le_mul_right N hi
  have hu : ∀ i, i ≤ nthread → (i * N) % 18446744073709551616 = i * N := fun i hi =>
    Nat.mod_eq_of_lt (by have := hmul i hi; omega)
  have hsb : ∀ i, i ≤ nthread → Gen.Parse.sbegin i N size = min (i * N) size := fun i hi => by
    simp [Gen.Parse.sbegin, u64, hu i hi]
  have hse : ∀ i, i < nthread → Gen.Parse.send i N size = min ((i + 1) * N) size := fun i hi => by
    have : (i + 1) % 4294967296 = i + 1 := Nat.mod_eq_of_lt (by omega)
    simp [Gen.Parse.send, u64, u32, this, hu (i + 1) (by omega)]
  have hlast : ∀ i, i < nthread → Gen.Parse.lastThread i nthread = decide (i + 1 = nthread) := fun i hi => by
    have : (i + 1) % 4294967296 = i + 1 := Nat.mod_eq_of_lt (by omega)
    by_cases h : i + 1 = nthread <;> simp [Gen.Parse.lastThread, u32, this, h] <;> omega
  have hmin : ∀ i, min (i * N) size < mem.length := fun i => by
    have := Nat.min_le_right (i * N) size; omega
  refine ⟨?_, ?_, ?_, ?_, ?_⟩
  · have h0 : ¬ (0 = nthread) := by omega
    have hm0 : min (0 * N) size = 0 := by rw [Nat.zero_mul]; exact Nat.zero_min _
    unfold cutAt
    rw [if_neg h0, hN, hm0]
    rfl
  · simp [cutAt]
  · intro i hi
    by_cases hl : i + 1 = nthread
    · have : ¬ (i = nthread) := by omega
      simp only [cutAt, this, hl, if_true, if_false, hN]
      have := bfv_le mem _ (hmin i)
      have := Nat.min_le_right (i * N) size
      omega
    · have h2 : ¬ (i = nthread) := by omega
      simp only [cutAt, h2, hl, if_false, hN]
      apply bfv_mono _ _ _ _ (hmin (i + 1))
      have : i * N ≤ (i + 1) * N := Nat.mul_le_mul_right N (by omega)
      omega
  · intro i _ hi
    have : ¬ (i = nthread) := by omega
    simp only [cutAt, this, if_false, hN]
    exact bfv_shape mem _ (hmin i)
  · intro tid ht
    have h2 : ¬ (tid = nthread) := by omega
    have e1 := backFind_eq mem _ (hmin tid)
    unfold threadSlice
    rw [hN, hsb tid (by omega), hse tid ht, hlast tid ht, e1]
    simp only [Except.bind]
    by_cases hl : tid + 1 = nthread
    · have hfull : min ((tid + 1) * N) size = size := by rw [hl]; exact Nat.min_eq_right hge
      rw [decide_eq_true hl, if_pos rfl, hfull]
      unfold cutAt
      rw [if_neg h2, if_pos hl, hN]
    · have e2 := backFind_eq mem _ (hmin (tid + 1))
      rw [decide_eq_false hl]
      simp only [Bool.false_eq_true, if_false, e2]
      unfold cutAt
      rw [if_neg h2, if_neg hl, hN]

end DmlcModel.Parse
