/-
Containers as lists of line records: the canonical builder `build`, its relation to the push
functions of the parsers, and the rows `GetBlock` / `operator[]` hand out for a built container.
-/
import DmlcModel.Parse.Model

namespace DmlcModel.Parse
open DmlcModel

/-- what one line contributes to a container -/
structure LineRec where
  label : Option Nat
  weight : Option Nat
  qid : Option Nat
  fields : List Nat
  idx : List Nat
  vals : List Nat
  deriving Repr, DecidableEq

def addRow (c : Container) (r : LineRec) : Container :=
  { offset := c.offset ++ [c.index.length + r.idx.length]
    label := c.label ++ r.label.toList
    weight := c.weight ++ r.weight.toList
    qid := c.qid ++ r.qid.toList
    field := c.field ++ r.fields
    index := c.index ++ r.idx
    value := c.value ++ r.vals }

def build (recs : List LineRec) : Container := recs.foldl addRow {}

/-- the row `operator[]` hands out for a record -/
def toRow (r : LineRec) : Row :=
  { label := r.label, weight := r.weight, qid := r.qid
    field := if r.fields.isEmpty || r.idx.isEmpty then none else some r.fields
    index := r.idx
    value := if r.vals.isEmpty || r.idx.isEmpty then none else some r.vals }

def sums : Nat → List LineRec → List Nat
  | _, [] => []
  | n, r :: rs => (n + r.idx.length) :: sums (n + r.idx.length) rs

theorem foldl_addRow (recs : List LineRec) (c : Container) :
    recs.foldl addRow c =
      { offset := c.offset ++ sums c.index.length recs
        label := c.label ++ recs.flatMap (fun r => r.label.toList)
        weight := c.weight ++ recs.flatMap (fun r => r.weight.toList)
        qid := c.qid ++ recs.flatMap (fun r => r.qid.toList)
        field := c.field ++ recs.flatMap (·.fields)
        index := c.index ++ recs.flatMap (·.idx)
        value := c.value ++ recs.flatMap (·.vals) } := by
  induction recs generalizing c with
  | nil => simp [sums]
  | cons r rs ih =>
    simp only [List.foldl_cons, ih, addRow, sums, List.flatMap_cons, List.append_assoc, List.length_append,
      List.singleton_append]

theorem build_eq (recs : List LineRec) :
    build recs =
      { offset := 0 :: sums 0 recs
        label := recs.flatMap (fun r => r.label.toList)
        weight := recs.flatMap (fun r => r.weight.toList)
        qid := recs.flatMap (fun r => r.qid.toList)
        field := recs.flatMap (·.fields)
        index := recs.flatMap (·.idx)
        value := recs.flatMap (·.vals) } := by
  simp [build, foldl_addRow]

/-- total number of entries of the first `i` records -/
def pre (recs : List LineRec) (i : Nat) : Nat := ((recs.take i).map (·.idx.length)).sum

theorem sums_length (n : Nat) (recs : List LineRec) : (sums n recs).length = recs.length := by
  induction recs generalizing n with
  | nil => rfl
  | cons r rs ih => simp [sums, ih]

theorem sums_get (n : Nat) (recs : List LineRec) (i : Nat) (hi : i < recs.length) :
    (sums n recs)[i]? = some (n + pre recs (i + 1)) := by
  induction recs generalizing n i with
  | nil => simp at hi
  | cons r rs ih =>
    cases i with
    | zero => simp [sums, pre]
    | succ i =>
      simp only [sums, List.getElem?_cons_succ]
      rw [ih _ i (by simpa using hi)]
      simp [pre, List.take]; omega

theorem offset_get (recs : List LineRec) (i : Nat) (hi : i ≤ recs.length) :
    (0 :: sums 0 recs)[i]? = some (pre recs i) := by
  cases i with
  | zero => simp [pre]
  | succ i => simp [sums_get 0 recs i (by omega)]

theorem pre_succ (recs : List LineRec) (i : Nat) (hi : i < recs.length) :
    pre recs (i + 1) = pre recs i + recs[i].idx.length := by
  induction recs generalizing i with
  | nil => simp at hi
  | cons r rs ih =>
    cases i with
    | zero => simp [pre]
    | succ i =>
      have := ih i (by simpa using hi)
      simp [pre] at this ⊢ <;> omega

theorem pre_total (recs : List LineRec) : pre recs recs.length = (recs.flatMap (·.idx)).length := by
  induction recs with
  | nil => rfl
  | cons r rs ih => simp [pre] at ih ⊢ <;> omega

/-- the entries of record `i` inside a concatenation whose pieces are as long as the index lists -/
theorem slice_flatMap (f : LineRec → List Nat) (recs : List LineRec) (hf : ∀ r ∈ recs, (f r).length = r.idx.length)
    (i : Nat) (hi : i < recs.length) :
    slice (recs.flatMap f) (pre recs i) (pre recs (i + 1)) = f recs[i] := by
  induction recs generalizing i with
  | nil => simp at hi
  | cons r rs ih =>
    have hr : (f r).length = r.idx.length := hf r (by simp)
    cases i with
    | zero =>
      simp [slice, pre, List.flatMap_cons, ← hr]
    | succ i =>
      have := ih (fun x hx => hf x (by simp [hx])) i (by simpa using hi)
      simp only [slice, pre, List.take, List.map_cons, List.sum_cons, List.flatMap_cons,
        List.getElem_cons_succ] at this ⊢
      have e2 : ∀ K, List.drop (r.idx.length + K) (f r ++ rs.flatMap f) = List.drop K (rs.flatMap f) := by
        intro K; rw [← hr, ← List.drop_drop, List.drop_left]
      have e1 : r.idx.length + ((rs.take (i + 1)).map (·.idx.length)).sum - (r.idx.length + ((rs.take i).map (·.idx.length)).sum)
          = ((rs.take (i + 1)).map (·.idx.length)).sum - ((rs.take i).map (·.idx.length)).sum := by omega
      rw [e2, e1]
      simpa using this

theorem flatMap_toList_none (g : LineRec → Option Nat) (recs : List LineRec) (h : ∀ r ∈ recs, g r = none) :
    recs.flatMap (fun r => (g r).toList) = [] := by
  induction recs with
  | nil => rfl
  | cons r rs ih => simp [h r (by simp), ih (fun x hx => h x (by simp [hx]))]

theorem flatMap_toList_some (g : LineRec → Option Nat) (recs : List LineRec) (h : ∀ r ∈ recs, (g r).isSome = true)
    (i : Nat) (hi : i < recs.length) :
    (recs.flatMap (fun r => (g r).toList))[i]? = g recs[i] := by
  induction recs generalizing i with
  | nil => simp at hi
  | cons r rs ih =>
    obtain ⟨x, hx⟩ := Option.isSome_iff_exists.mp (h r (by simp))
    cases i with
    | zero => simp [hx]
    | succ i =>
      simp only [List.flatMap_cons, hx, Option.toList_some, List.singleton_append, List.getElem?_cons_succ,
        List.getElem_cons_succ]
      exact ih (fun y hy => h y (by simp [hy])) i (by simpa using hi)

theorem flatMap_toList_some_length (g : LineRec → Option Nat) (recs : List LineRec) (h : ∀ r ∈ recs, (g r).isSome = true) :
    (recs.flatMap (fun r => (g r).toList)).length = recs.length := by
  induction recs with
  | nil => rfl
  | cons r rs ih =>
    obtain ⟨x, hx⟩ := Option.isSome_iff_exists.mp (h r (by simp))
    simp [hx, ih (fun y hy => h y (by simp [hy]))] <;> omega

/-- all records carry the optional part `g`, or none does -/
def Uniform (g : LineRec → Option Nat) (recs : List LineRec) : Prop :=
  (∀ r ∈ recs, (g r).isSome = true) ∨ (∀ r ∈ recs, g r = none)

/-- the part `f` is given for every entry of every record, or for no entry at all -/
def UniformL (f : LineRec → List Nat) (recs : List LineRec) : Prop :=
  (∀ r ∈ recs, (f r).length = r.idx.length) ∨ (∀ r ∈ recs, f r = [])

structure AgreeRecs (recs : List LineRec) : Prop where
  label : Uniform (·.label) recs
  weight : Uniform (·.weight) recs
  qid : Uniform (·.qid) recs
  fields : UniformL (·.fields) recs
  vals : UniformL (·.vals) recs

theorem optAt_uniform (g : LineRec → Option Nat) (recs : List LineRec) (h : Uniform g recs) (i : Nat)
    (hi : i < recs.length) : optAt (recs.flatMap (fun r => (g r).toList)) i = .ok (g recs[i]) := by
  rcases h with h | h
  · have hl := flatMap_toList_some_length g recs h
    have hne : (recs.flatMap (fun r => (g r).toList)).isEmpty = false := by
      cases hx : recs.flatMap (fun r => (g r).toList) with
      | nil => rw [hx] at hl; simp at hl; omega
      | cons _ _ => rfl
    have hg := flatMap_toList_some g recs h i hi
    obtain ⟨x, hx⟩ := Option.isSome_iff_exists.mp (h recs[i] (List.getElem_mem hi))
    simp [optAt, hne, hg, hx]
  · simp [optAt, flatMap_toList_none g recs h, h recs[i] (List.getElem_mem hi)]

theorem flatMap_nil_of (f : LineRec → List Nat) (recs : List LineRec) (h : ∀ r ∈ recs, f r = []) :
    recs.flatMap f = [] := by
  induction recs with
  | nil => rfl
  | cons r rs ih => simp [h r (by simp), ih (fun x hx => h x (by simp [hx]))]

theorem flatMap_length_eq (f : LineRec → List Nat) (recs : List LineRec) (h : ∀ r ∈ recs, (f r).length = r.idx.length) :
    (recs.flatMap f).length = (recs.flatMap (·.idx)).length := by
  induction recs with
  | nil => rfl
  | cons r rs ih => simp [h r (by simp), ih (fun x hx => h x (by simp [hx]))]

theorem pre_le_total (recs : List LineRec) (i : Nat) (hi : i ≤ recs.length) :
    pre recs i ≤ (recs.flatMap (·.idx)).length := by
  induction recs generalizing i with
  | nil => simp [pre]
  | cons r rs ih =>
    cases i with
    | zero => simp [pre]
    | succ i =>
      have := ih i (by simpa using hi)
      simp [pre, List.take] at this ⊢; omega

theorem optSlice_uniform (f : LineRec → List Nat) (recs : List LineRec) (h : UniformL f recs) (i : Nat)
    (hi : i < recs.length) :
    optSlice (recs.flatMap f) (pre recs i) (pre recs (i + 1))
      = .ok (if (f recs[i]).isEmpty || recs[i].idx.isEmpty then none else some (f recs[i])) := by
  have hps := pre_succ recs i hi
  rcases h with h | h
  · have hlen := h recs[i] (List.getElem_mem hi)
    by_cases he : recs[i].idx = []
    · have : pre recs i = pre recs (i + 1) := by rw [hps, he]; simp
      simp [optSlice, this, he]
    · have hne : recs[i].idx.length ≠ 0 := by simpa using he
      have hfe : f recs[i] ≠ [] := by intro e; rw [e] at hlen; simp at hlen; omega
      have hab : (pre recs i == pre recs (i + 1)) = false := by simp; omega
      have hle : pre recs (i + 1) ≤ (recs.flatMap f).length := by
        rw [flatMap_length_eq f recs h]; exact pre_le_total recs (i + 1) (by omega)
      have hnn : (recs.flatMap f).isEmpty = false := by
        cases hx : recs.flatMap f with
        | nil => rw [hx] at hle; simp at hle; omega
        | cons _ _ => rfl
      have hle' : pre recs (i + 1) ≤ (List.map (fun a => (f a).length) recs).sum := by
        simpa [List.length_flatMap] using hle
      simp [optSlice, hnn, hab, hle', slice_flatMap f recs h i hi, hfe, he]
  · simp [optSlice, flatMap_nil_of f recs h, h recs[i] (List.getElem_mem hi)]

/-- row `i` of a container built from records that agree on their optional parts -/
theorem rowAt_build (recs : List LineRec) (h : AgreeRecs recs) (i : Nat) (hi : i < recs.length) :
    rowAt (build recs) i = .ok (toRow recs[i]) := by
  have hidx : pre recs (i + 1) ≤ (recs.flatMap (·.idx)).length := pre_le_total recs (i + 1) (by omega)
  simp only [rowAt, build_eq, offset_get recs i (by omega), offset_get recs (i + 1) (by omega),
    optAt_uniform _ recs h.label i hi, optAt_uniform _ recs h.weight i hi, optAt_uniform _ recs h.qid i hi,
    optSlice_uniform _ recs h.fields i hi, optSlice_uniform _ recs h.vals i hi, bind, Except.bind, pure,
    Except.pure, hidx, if_true, slice_flatMap (·.idx) recs (fun _ _ => rfl) i hi, toRow]

theorem mapM_range_ok {α : Type} (f : Nat → Res α) (g : Nat → α) (n : Nat) (h : ∀ i, i < n → f i = .ok (g i)) :
    (List.range n).mapM f = .ok ((List.range n).map g) := by
  induction n with
  | zero => rfl
  | succ n ih =>
    rw [List.range_succ, List.mapM_append, ih (fun i hi => h i (by omega))]
    simp [h n (by omega), bind, Except.bind, pure, Except.pure]

theorem range_map_getElem (recs : List LineRec) :
    (List.range recs.length).map (fun i => if h : i < recs.length then toRow recs[i] else toRow ⟨none, none, none, [], [], []⟩)
      = recs.map toRow := by
  apply List.ext_getElem
  · simp
  · intro i h1 h2
    simp at h1
    simp [h1]

theorem build_size (recs : List LineRec) : (build recs).size = recs.length := by
  simp [build_eq, Container.size, sums_length]

end DmlcModel.Parse
