/-
Bridge between the text InputSplit model (C03, DmlcModel/Split) and the parsers (C11): the chunks a part
delivers are non-empty, NUL-free and end with an end-of-line byte; the canonical lines of C03 are the non-empty
lines of `eolSplit`.
-/
import DmlcModel.Split.CoverText
import DmlcModel.Parse.FillRows
import DmlcModel.Parse.Csv

namespace DmlcModel.Parse
open DmlcModel

theorem beq_toNat (b c : UInt8) : (b == c) = (b.toNat == c.toNat) := by
  by_cases h : b = c
  · subst h; simp
  · have h2 : b.toNat ≠ c.toNat := fun e => h (UInt8.toNat_inj.mp e)
    have e1 : (b == c) = false := by simpa using h
    have e2 : (b.toNat == c.toNat) = false := by simpa using h2
    rw [e1, e2]

theorem split_isEol_eq (b : UInt8) : Split.isEol b = isEolB b := by
  simp only [Split.isEol, isEolB, Gen.Parse.backIsEol, beq_toNat]
  rfl

/-- C03's `lines` (non-empty runs between end-of-line bytes) are the non-empty lines of `eolSplit` -/
theorem fieldsGo_eq (s cur : Bytes) :
    Split.fieldsGo Split.isEol s cur = (eolSplitGo s cur.reverse).filter fun l => !l.isEmpty := by
  induction s generalizing cur with
  | nil => cases cur <;> simp [Split.fieldsGo, eolSplitGo]
  | cons b s ih =>
    by_cases hb : isEolB b = true
    · have hb' : Split.isEol b = true := by rw [split_isEol_eq]; exact hb
      have := ih []
      simp only [List.reverse_nil] at this
      cases cur with
      | nil => simp [Split.fieldsGo, eolSplitGo, hb, hb', this]
      | cons c cur => simp [Split.fieldsGo, eolSplitGo, hb, hb', this]
    · have hb' : Split.isEol b = false := by rw [split_isEol_eq]; simpa using hb
      have := ih (cur ++ [b])
      simp only [List.reverse_append, List.reverse_cons, List.reverse_nil, List.nil_append, List.singleton_append] at this
      simp [Split.fieldsGo, eolSplitGo, hb, hb', this]

theorem split_lines_eq (s : Bytes) : Split.lines s = csvLinesOf s := by
  simpa [Split.lines, Split.fields, csvLinesOf, eolSplit] using fieldsGo_eq s []

/-! ### the chunks of a part (all calls `NextChunk`) -/

open DmlcModel.Split in
theorem drainGo_chunks :
    ∀ (fuel i : Nat) (s : St) (acc : List Bytes) (s' : St) (bs : List Bytes),
    s.wrap = none → TInv s.base → drainGo Fmt.text (fun _ => false) fuel i s acc = (s', .ok bs) →
    ∃ new, bs = acc ++ new ∧ ∀ b ∈ new, b ≠ [] ∧ EndsEol b ∧ NulFree b := by
  intro fuel
  induction fuel with
  | zero => intro i s acc s' bs _ _ h; rw [drainGo_zero] at h; cases h
  | succ fuel ih =>
    intro i s acc s' bs hw hinv h
    have hsb := step_bare Fmt.text s hw false
    simp only [Bool.false_eq_true, if_false] at hsb
    rw [drainGo_succ] at h
    simp only [Bool.false_eq_true, if_false] at h
    rw [hsb] at h
    cases hx : nextChunk Fmt.text s.base with
    | error e => rw [hx] at h; simp only [bareOut, drainStep] at h; cases h
    | ok res =>
      obtain ⟨r, b1⟩ := res
      rw [hx] at h
      obtain ⟨m1, _, _, _, _, m6⟩ := nextChunk_text s.base b1 r hx hinv
      cases r with
      | none =>
        simp only [bareOut, outOf, drainStep] at h
        cases h
        exact ⟨[], by simp, by intro b hb; simp at hb⟩
      | some b =>
        simp only [bareOut, outOf, drainStep] at h
        obtain ⟨new, hbs, hall⟩ := ih (i + 1) { s with base := b1 } (acc ++ [b]) s' bs hw m1 h
        refine ⟨b :: new, by rw [hbs]; simp, ?_⟩
        intro b' hb'
        simp at hb'
        rcases hb' with rfl | hb'
        · exact ⟨m6.1, m6.2.1, m6.2.2.1⟩
        · exact hall b' hb'

open DmlcModel.Split in
/-- every chunk part `k` of `n` delivers is non-empty, ends with an end-of-line byte and has no NUL inside -/
theorem part_chunks_facts (files : List Bytes) (k n w dw : Nat) (hfiles : files ≠ [])
    (hne : ∀ f ∈ files, f ≠ [] ∧ NulFree f) (ht : totalSize files < 2^55) (hk : k < n) (hn : n < 2^32)
    (hw : w < 2^56) (bs : List Bytes) (h : partBlobs Fmt.text files k n w dw (fun _ => false) = .ok bs) :
    ∀ b ∈ bs, b ≠ [] ∧ EndsEol b ∧ NulFree b := by
  obtain ⟨s, hs, hwr, hT, _⟩ := mkSt_text_inv files k n w dw hfiles hne ht hk hn hw
  unfold partBlobs at h
  rw [hs] at h
  simp only at h
  have hd : drain Fmt.text (fun _ => false) s = ((drain Fmt.text (fun _ => false) s).1, .ok bs) := by
    rw [← h]
  unfold drain at hd
  obtain ⟨new, hbs, hall⟩ := drainGo_chunks _ 0 s [] _ bs hwr hT hd
  simp only [List.nil_append] at hbs
  subst hbs
  exact hall

/-! ### plumbing -/

theorem mapM_cons_ok' {α β : Type} (f : α → Res β) (x : α) (xs : List α) (ys : List β)
    (h : (x :: xs).mapM f = .ok ys) : ∃ y ys', f x = .ok y ∧ xs.mapM f = .ok ys' ∧ ys = y :: ys' := by
  rw [List.mapM_cons] at h
  cases hf : f x with
  | error e => simp [hf, bind, Except.bind] at h
  | ok y =>
    cases hr : xs.mapM f with
    | error e => simp [hf, hr, bind, Except.bind] at h
    | ok ys' =>
      simp [hf, hr, bind, Except.bind, pure, Except.pure] at h
      exact ⟨y, ys', rfl, rfl, h.symm⟩


theorem AgreeRows.sub {a b : List Row} (h : AgreeRows b) (hs : ∀ r ∈ a, r ∈ b) : AgreeRows a := by
  refine ⟨?_, ?_, ?_, ?_⟩
  · rcases h.label with g | g
    · exact Or.inl fun r hr => g r (hs r hr)
    · exact Or.inr fun r hr => g r (hs r hr)
  · rcases h.weight with g | g
    · exact Or.inl fun r hr => g r (hs r hr)
    · exact Or.inr fun r hr => g r (hs r hr)
  · rcases h.qid with g | g
    · exact Or.inl fun r hr => g r (hs r hr)
    · exact Or.inr fun r hr => g r (hs r hr)
  · rcases h.value with g | g
    · exact Or.inl fun r hr => g r (hs r hr)
    · exact Or.inr fun r hr => g r (hs r hr)

/-- empty lines can be put back: they give no rows -/
theorem mapM_unfilter (f : Bytes → Res (List Row)) (hnil : f [] = .ok []) (xs : List Bytes) (r : List (List Row))
    (h : (xs.filter fun l => !l.isEmpty).mapM f = .ok r) :
    ∃ r', xs.mapM f = .ok r' ∧ r'.flatten = r.flatten := by
  induction xs generalizing r with
  | nil => simp [pure, Except.pure] at h; subst h; exact ⟨[], rfl, rfl⟩
  | cons x xs ih =>
    cases x with
    | nil =>
      simp only [List.filter_cons, List.isEmpty_nil, Bool.not_true, Bool.false_eq_true, if_false] at h
      obtain ⟨r', h1, h2⟩ := ih r h
      exact ⟨[] :: r', by simp [List.mapM_cons, hnil, h1, bind, Except.bind, pure, Except.pure], by simp [h2]⟩
    | cons c x =>
      simp only [List.filter_cons, List.isEmpty_cons, Bool.not_false, if_true] at h
      obtain ⟨y, ys, hy, hys, rfl⟩ := mapM_cons_ok' _ _ _ _ h
      obtain ⟨r', h1, h2⟩ := ih ys hys
      exact ⟨y :: r', by simp [List.mapM_cons, hy, h1, bind, Except.bind, pure, Except.pure], by simp [h2]⟩

/-- two-level regrouping: if every group `x` computes, by `F x`, the concatenated rows of its lines `g x`,
then the groups together compute the concatenated rows of all lines -/
theorem regroup {α : Type} (rws : Bytes → Res (List Row)) (g : α → List Bytes) (F : α → Res (List Row)) (xs : List α)
    (hF : ∀ x ∈ xs, ∀ rb, (g x).mapM rws = .ok rb → AgreeRows rb.flatten → F x = .ok rb.flatten)
    (rss : List (List Row)) (h : (xs.flatMap g).mapM rws = .ok rss) (ha : AgreeRows rss.flatten) :
    (xs.mapM F).map List.flatten = .ok rss.flatten := by
  induction xs generalizing rss with
  | nil => simp [pure, Except.pure] at h; subst h; rfl
  | cons x xs ih =>
    rw [List.flatMap_cons] at h
    obtain ⟨r1, r2, h1, h2, rfl⟩ := mapM_append_split _ _ _ _ h
    rw [List.flatten_append] at ha ⊢
    have hx := hF x (by simp) r1 h1 ha.left
    have hxs := ih (fun y hy => hF y (by simp [hy])) r2 h2 ha.right
    rw [List.mapM_cons, hx]
    cases hm : xs.mapM F with
    | error e => rw [hm] at hxs; simp [Except.map] at hxs
    | ok ys =>
      rw [hm] at hxs
      simp only [Except.map] at hxs
      simp [bind, Except.bind, pure, Except.pure, Except.map, Except.ok.inj hxs]

end DmlcModel.Parse
