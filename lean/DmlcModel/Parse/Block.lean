/-
The line loop of a block as a fold over the "code lines" of the block (each line but the first
starts with the end-of-line byte that ended its predecessor), and the relation of the code lines
to the lines of the text (`eolSplit`).
-/
import DmlcModel.Parse.Spec

namespace DmlcModel.Parse
open DmlcModel

def notEolB (b : UInt8) : Bool := !isEolB b

/-- `cur` = the bytes of the current line so far, reversed -/
def codeLinesGo : Bytes → Bytes → List Bytes
  | [], cur => [cur.reverse]
  | b :: s, cur => if isEolB b then cur.reverse :: codeLinesGo s [b] else codeLinesGo s (b :: cur)

/-- the lines as the line loop sees them: the search for the line end starts at `lbegin + 1` -/
def codeLines : Bytes → List Bytes
  | [] => []
  | b :: s => codeLinesGo s [b]

theorem codeLinesGo_split (s cur : Bytes) :
    codeLinesGo s cur = (cur.reverse ++ s.takeWhile notEolB) :: codeLines (s.dropWhile notEolB) := by
  induction s generalizing cur with
  | nil => simp [codeLinesGo, codeLines]
  | cons b s ih =>
    by_cases hb : isEolB b = true
    · simp [codeLinesGo, hb, List.takeWhile, List.dropWhile, notEolB, codeLines]
    · simp only [codeLinesGo, hb, if_false, Bool.false_eq_true]
      rw [ih]
      simp [List.takeWhile, List.dropWhile, notEolB, hb]

theorem codeLines_cons (b : UInt8) (s : Bytes) :
    codeLines (b :: s) = (b :: s.takeWhile notEolB) :: codeLines (s.dropWhile notEolB) := by
  rw [codeLines, codeLinesGo_split]; simp

theorem takeWhile_append_dropWhile' (pred : UInt8 → Bool) (s : Bytes) : s.takeWhile pred ++ s.dropWhile pred = s :=
  List.takeWhile_append_dropWhile

theorem term_of_rest {mem : Bytes} {lend stop : Nat} {r : Bytes} (hr : At mem lend stop r)
    (hrh : ∀ b, r.head? = some b → isEolB b = true) (ht : Term mem stop) : Term mem lend := by
  cases r with
  | nil =>
    have : lend = stop := hr.eq_stop_iff.mpr rfl
    rw [this]; exact ht
  | cons x r =>
    intro b hb
    have h1 : byteAt mem lend = .ok x := byteAt_at hr
    have : mem[lend]? = some x := by
      unfold byteAt at h1
      cases hm : mem[lend]? with
      | none => simp [hm] at h1
      | some y => simp [hm] at h1; simp [h1]
    rw [this] at hb
    cases hb
    have := hrh x rfl
    simp [isStopB, this]

theorem term_of_rest' {mem : Bytes} {lend stop : Nat} {x : UInt8} {r : Bytes} (hr : At mem lend stop (x :: r))
    (hx : isEolB x = true) : Term mem lend := by
  intro b hb
  have h1 : byteAt mem lend = .ok x := byteAt_at hr
  have : mem[lend]? = some x := by
    unfold byteAt at h1
    cases hm : mem[lend]? with
    | none => simp [hm] at h1
    | some y => simp [hm] at h1; simp [h1]
  rw [this] at hb
  cases hb
  simp [isStopB, hx]

/-- one step of what the loop does with a line -/
def stepLine {α : Type} (lineS : Bytes → Res (Option α)) (push : Container → α → Container)
    (c : Container) (L : Bytes) : Res Container :=
  (lineS L).map fun o => match o with | some l => push c l | none => c

theorem dropWhile_nil_all (pred : UInt8 → Bool) (s : Bytes) (h : s.dropWhile pred = []) : ∀ x ∈ s, pred x = true := by
  induction s with
  | nil => intro x hx; simp at hx
  | cons b s ih =>
    by_cases hb : pred b = true
    · simp only [List.dropWhile, hb] at h
      intro x hx; simp at hx; rcases hx with rfl | hx
      · exact hb
      · exact ih h x hx
    · simp [List.dropWhile, hb] at h

/-- the block ends with an end-of-line byte -/
def EndsEolL (S : Bytes) : Prop := ∃ e, S.getLast? = some e ∧ isEolB e = true

/-- the end of the block `S = [.., stop)` is harmless: the byte behind it is a NUL / end-of-line byte (or lies
outside `mem`), or the block is empty, or its last byte is an end-of-line byte (then the last line of the line
loop is that byte alone and nothing behind the block is looked at) -/
def TermOr (mem : Bytes) (stop : Nat) (S : Bytes) : Prop := Term mem stop ∨ S = [] ∨ EndsEolL S

theorem getLast?_suffix {R S : Bytes} (h : R <:+ S) (hne : R ≠ []) : R.getLast? = S.getLast? := by
  obtain ⟨t, rfl⟩ := h
  rw [List.getLast?_append]
  cases hr : R.getLast? with
  | none => exact absurd (List.getLast?_eq_none_iff.mp hr) hne
  | some x => rfl

theorem TermOr.suffix {mem : Bytes} {stop : Nat} {S R : Bytes} (h : TermOr mem stop S) (hs : R <:+ S) :
    TermOr mem stop R := by
  rcases h with h | h | ⟨e, he, hee⟩
  · exact Or.inl h
  · subst h; exact Or.inr (Or.inl (List.eq_nil_of_suffix_nil hs))
  · by_cases hr : R = []
    · exact Or.inr (Or.inl hr)
    · exact Or.inr (Or.inr ⟨e, by rw [getLast?_suffix hs hr]; exact he, hee⟩)

theorem lineLoop_spec {α : Type} {line : Nat → Nat → Res (Option α)} {lineS : Bytes → Res (Option α)}
    {push : Container → α → Container} {mem : Bytes} {stop : Nat}
    (hline : ∀ p q L R, At mem p q L → At mem q stop R → (∀ b, R.head? = some b → isEolB b = true) →
      (Term mem q ∨ ∃ e, L = [e] ∧ isEolB e = true) → line p q = lineS L) :
    ∀ (fuel lbegin : Nat) (S : Bytes) (c : Container), At mem lbegin stop S → S.length < fuel → TermOr mem stop S →
      lineLoop notEolB line push mem stop fuel lbegin c = (codeLines S).foldlM (stepLine lineS push) c := by
  intro fuel
  induction fuel with
  | zero => intro _ _ _ _ hf; omega
  | succ fuel ih =>
    intro lbegin S c h hf ht
    cases S with
    | nil =>
      have : lbegin = stop := h.eq_stop_iff.mpr rfl
      simp [lineLoop, this, codeLines, pure, Except.pure]
    | cons b S =>
      have hne : lbegin ≠ stop := by intro e; have := h.eq_stop_iff.mp e; simp at this
      obtain ⟨lend, e, a⟩ := scan_at (pred := notEolB) h.tail
      have hR : ∀ x, (S.dropWhile notEolB).head? = some x → isEolB x = true := by
        intro x hx
        cases hd : S.dropWhile notEolB with
        | nil => rw [hd] at hx; simp at hx
        | cons y r =>
          rw [hd] at hx; simp at hx; subst hx
          have := dropWhile_head_false _ _ _ _ hd
          simpa [notEolB] using this
      have hL : At mem lbegin lend (b :: S.takeWhile notEolB) := by
        have h' : At mem lbegin stop ((b :: S.takeWhile notEolB) ++ S.dropWhile notEolB) := by
          simpa [List.takeWhile_append_dropWhile] using h
        exact h'.unappend a
      have hsuf : S.dropWhile notEolB <:+ b :: S := (List.dropWhile_suffix _).trans (List.suffix_cons b S)
      have htl : Term mem lend ∨ ∃ e, b :: S.takeWhile notEolB = [e] ∧ isEolB e = true := by
        cases hd : S.dropWhile notEolB with
        | cons y r =>
          rw [hd] at a hR
          exact Or.inl (term_of_rest' a (hR y rfl))
        | nil =>
          rw [hd] at a
          have hls : lend = stop := a.eq_stop_iff.mpr rfl
          rcases ht with ht | ht | ⟨e0, he0, hee0⟩
          · exact Or.inl (hls ▸ ht)
          · simp at ht
          · -- the block ends with an end-of-line byte and no end-of-line byte follows `b`: the block is `[b]`
            have hall : ∀ x ∈ S, notEolB x = true := dropWhile_nil_all notEolB S hd
            cases S with
            | nil => simp at he0; subst he0; exact Or.inr ⟨b, by simp, hee0⟩
            | cons y ys =>
              have hmem : e0 ∈ y :: ys := by
                have : (b :: y :: ys).getLast? = (y :: ys).getLast? := by simp [List.getLast?_cons_cons]
                rw [this] at he0
                exact List.mem_of_getLast? he0
              have := hall e0 hmem
              simp [notEolB, hee0] at this
      simp only [lineLoop, hne, if_false, e, bind, Except.bind, hline _ _ _ _ hL a hR htl, codeLines_cons,
        List.foldlM_cons, stepLine]
      cases hl : lineS (b :: S.takeWhile notEolB) with
      | error err => simp [Except.map]
      | ok o =>
        have hlen : (S.dropWhile notEolB).length < fuel := by
          have := (List.dropWhile_suffix (l := S) notEolB).length_le
          simp at hf; omega
        simp only [Except.map]
        exact ih lend _ _ a hlen (ht.suffix hsuf)

/-! ## code lines versus the lines of the text -/

/-- drop one leading end-of-line byte -/
def stripEol : Bytes → Bytes
  | [] => []
  | b :: s => if isEolB b then s else b :: s

theorem stripEol_snoc (x : Bytes) (b : UInt8) (hb : isEolB b = false) (hx : x ≠ [] ∨ True) :
    stripEol (x ++ [b]) = stripEol x ++ [b] := by
  cases x with
  | nil => simp [stripEol, hb]
  | cons y x => by_cases hy : isEolB y = true <;> simp [stripEol, hy]

theorem codeLinesGo_strip (s cur cur' : Bytes) (h : stripEol cur.reverse = cur'.reverse) :
    (codeLinesGo s cur).map stripEol = eolSplitGo s cur' := by
  induction s generalizing cur cur' with
  | nil => simp [codeLinesGo, eolSplitGo, h]
  | cons b s ih =>
    by_cases hb : isEolB b = true
    · simp only [codeLinesGo, eolSplitGo, hb, if_true, List.map_cons, h]
      rw [ih [b] [] (by simp [stripEol, hb])]
    · simp only [codeLinesGo, eolSplitGo, hb, if_false, Bool.false_eq_true]
      apply ih
      simp only [List.reverse_cons]
      rw [stripEol_snoc _ _ (by simpa using hb) (Or.inr trivial), h]

/-- the code lines of a text, each stripped of its leading end-of-line byte, are the lines of the text
(up to one leading empty line when the text starts with an end-of-line byte) -/
theorem codeLines_strip (t : Bytes) :
    eolSplit t = match t with
      | [] => [[]]
      | b :: _ => if isEolB b then [] :: (codeLines t).map stripEol else (codeLines t).map stripEol := by
  cases t with
  | nil => rfl
  | cons b s =>
    by_cases hb : isEolB b = true
    · simp only [eolSplit, eolSplitGo, hb, if_true, codeLines, List.reverse_nil]
      rw [codeLinesGo_strip s [b] [] (by simp [stripEol, hb])]
    · simp only [eolSplit, eolSplitGo, hb, if_false, codeLines, Bool.false_eq_true]
      rw [codeLinesGo_strip s [b] [b] (by simp [stripEol, hb])]

end DmlcModel.Parse
